import sys, traceback; sys.path.insert(0,'/repo')
import ciw
def net(renege=True, sched=True, prio=True):
    kw=dict(
        arrival_distributions={'A':[ciw.dists.Exponential(2.0), ciw.dists.Exponential(1.0)],'B':[ciw.dists.Exponential(1.0),None]},
        service_distributions={'A':[ciw.dists.Exponential(2.0), ciw.dists.Exponential(2.5)],'B':[ciw.dists.Exponential(2.0), ciw.dists.Exponential(2.5)]},
        number_of_servers=[2, ciw.Schedule([1,0,2],[3.0,4.0,10.0]) if sched else 1], queue_capacities=[2,1],
        routing={'A':[[0.1,0.6],[0.3,0.0]],'B':[[0.0,0.9],[0.5,0.0]]})
    if prio: kw['priority_classes']={'A':1,'B':0}
    if renege: kw['reneging_time_distributions']={'A':[ciw.dists.Exponential(0.5),None],'B':[None,None]}
    return ciw.create_network(**kw)
for flags in [(1,1,1),(0,1,1),(1,0,1),(1,1,0),(0,0,1),(0,1,0),(1,0,0),(0,0,0)]:
    bad=0
    for seed in range(60):
        try:
            ciw.seed(seed); Q=ciw.Simulation(net(*flags)); Q.simulate_until_max_time(40)
        except Exception as e: bad+=1; last=repr(e)
    print("renege,sched,prio =",flags,"crashes:",bad, last if bad else '')

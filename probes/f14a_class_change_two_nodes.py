import sys; sys.path.insert(0, "/repo")
import ciw
N = ciw.create_network(
    arrival_distributions={'A':[ciw.dists.Deterministic(1.0), None], 'B':[None, None]},
    service_distributions={'A':[ciw.dists.Deterministic(0.5), ciw.dists.Deterministic(0.5)], 'B':[ciw.dists.Deterministic(0.5), ciw.dists.Deterministic(0.5)]},
    number_of_servers=[1,1],
    routing={'A':[[0.0,1.0],[0.0,0.0]], 'B':[[0.0,1.0],[0.0,0.0]]},
    class_change_time_distributions={'A':{'B':ciw.dists.Deterministic(3.0)}, 'B':{}},
)
ciw.seed(0)
Q = ciw.Simulation(N)
try:
    Q.simulate_until_max_time(10)
    print("ok", len(Q.get_all_records()))
except Exception as e:
    import traceback; traceback.print_exc()

import sys, traceback; sys.path.insert(0,'/repo')
import ciw
try:
    N = ciw.create_network(arrival_distributions=[ciw.dists.Deterministic(0.7)], service_distributions=[ciw.dists.Deterministic(1.1)], number_of_servers=[1], reneging_time_distributions=[ciw.dists.Deterministic(0.3)])
    Q = ciw.Simulation(N, exact=12); Q.simulate_until_max_time(5); print("renege ok", [(r.record_type, r.exit_date) for r in Q.get_all_records()][:4])
except Exception as e: print("exact+renege(float):", repr(e))
N = ciw.create_network(arrival_distributions=[ciw.dists.Deterministic(0.1)], service_distributions=[ciw.dists.Deterministic(0.1)],
    number_of_servers=[ciw.Schedule(numbers_of_servers=[1,0], shift_end_dates=[0.3, 0.6])])
Q = ciw.Simulation(N, exact=30); Q.simulate_until_max_time(1.0)
for r in Q.get_all_records()[:6]: print(r.id_number, repr(r.arrival_date), repr(r.service_start_date), repr(r.exit_date))

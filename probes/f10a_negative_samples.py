import sys; sys.path.insert(0, "/repo")
import ciw, traceback
class Neg(ciw.dists.Distribution):
    def sample(self, t=None, ind=None): return -1.0
for what in ['service','arrival','renege']:
    try:
        kw = dict(arrival_distributions=[ciw.dists.Deterministic(1.0)], service_distributions=[ciw.dists.Deterministic(3.0)], number_of_servers=[1])
        if what=='service': kw['service_distributions']=[Neg()]
        if what=='arrival': kw['arrival_distributions']=[Neg()]
        if what=='renege': kw['reneging_time_distributions']=[Neg()]
        Q = ciw.Simulation(ciw.create_network(**kw)); Q.simulate_until_max_time(5)
        print(what, "no error;", [(r.record_type, r.arrival_date, r.service_time, r.exit_date) for r in Q.get_all_records()][:3])
    except Exception as e: print(what, "raised", repr(e))

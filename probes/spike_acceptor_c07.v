From Coq Require Import List Arith Bool Lia.
Import ListNotations.

(* Slice of a frame that clause (c) of C07 reads: the blocked queues (per destination) before and
   after the frame and the Block / Unblock C-events of the frame, in order. *)
Inductive cev := Block (d x : nat) | Unblock (d x : nat) | Other.
Definition bqs := nat -> list nat.                       (* destination -> blocked queue (ids) *)
Definition upd (q : bqs) (d : nat) (l : list nat) : bqs := fun d' => if Nat.eqb d' d then l else q d'.

(* acceptor, one C-event at a time: Block appends at the tail, Unblock removes the head *)
Definition acc_ev (q : bqs) (e : cev) : option bqs :=
  match e with
  | Block d x => Some (upd q d (q d ++ [x]))
  | Unblock d x => match q d with y :: r => if Nat.eqb x y then Some (upd q d r) else None | [] => None end
  | Other => Some q
  end.
Fixpoint acc_evs (q : bqs) (es : list cev) : option bqs :=
  match es with [] => Some q | e :: r => match acc_ev q e with Some q' => acc_evs q' r | None => None end end.
(* a frame = (events, queues observed after the frame); accepted if replaying the events from the
   previous observation yields the observed queues on the destinations we look at *)
Definition frame := (list cev * bqs)%type.
Fixpoint accepts (dom : list nat) (q : bqs) (tr : list frame) : bool :=
  match tr with
  | [] => true
  | (es, q') :: r => match acc_evs q es with
                     | Some q1 => forallb (fun d => if list_eq_dec Nat.eq_dec (q1 d) (q' d) then true else false) dom && accepts dom q' r
                     | None => false end
  end.

(* the global statement: per destination, customers are unblocked in the order they were blocked *)
Definition blocked_seq (d : nat) (es : list cev) : list nat :=
  flat_map (fun e => match e with Block d' x => if Nat.eqb d' d then [x] else [] | _ => [] end) es.
Definition unblocked_seq (d : nat) (es : list cev) : list nat :=
  flat_map (fun e => match e with Unblock d' x => if Nat.eqb d' d then [x] else [] | _ => [] end) es.

Lemma acc_ev_inv q e q' d : acc_ev q e = Some q' ->
  q d ++ blocked_seq d [e] = unblocked_seq d [e] ++ q' d.
Proof.
  destruct e as [d0 x|d0 x|]; simpl; intros H.
  - injection H as <-. unfold upd. destruct (Nat.eqb_spec d0 d) as [->|Hne].
    + rewrite Nat.eqb_refl. simpl. reflexivity.
    + destruct (Nat.eqb_spec d d0); [congruence|]. simpl. rewrite app_nil_r. reflexivity.
  - destruct (q d0) as [|y r] eqn:E; [discriminate|]. destruct (Nat.eqb_spec x y) as [->|]; [|discriminate].
    injection H as <-. unfold upd. destruct (Nat.eqb_spec d0 d) as [->|Hne].
    + rewrite Nat.eqb_refl. simpl. rewrite E, app_nil_r. reflexivity.
    + destruct (Nat.eqb_spec d d0); [congruence|]. simpl. rewrite app_nil_r. reflexivity.
  - injection H as <-. simpl. rewrite app_nil_r. reflexivity.
Qed.
Lemma blocked_seq_cons d e r : blocked_seq d (e :: r) = blocked_seq d [e] ++ blocked_seq d r.
Proof. unfold blocked_seq. simpl. rewrite app_nil_r. reflexivity. Qed.
Lemma unblocked_seq_cons d e r : unblocked_seq d (e :: r) = unblocked_seq d [e] ++ unblocked_seq d r.
Proof. unfold unblocked_seq. simpl. rewrite app_nil_r. reflexivity. Qed.
Lemma acc_evs_inv : forall es q q' d, acc_evs q es = Some q' ->
  q d ++ blocked_seq d es = unblocked_seq d es ++ q' d.
Proof.
  induction es as [|e r IH]; intros q q' d H.
  - simpl in H. injection H as <-. simpl. rewrite app_nil_r. reflexivity.
  - simpl in H. destruct (acc_ev q e) as [q1|] eqn:E; [|discriminate].
    pose proof (acc_ev_inv _ _ _ d E) as H1. pose proof (IH _ _ d H) as H2.
    rewrite blocked_seq_cons, unblocked_seq_cons.
    rewrite app_assoc, H1, <- app_assoc, H2, app_assoc. reflexivity.
Qed.

(* T1 for clause (c): on every accepted trace of any length, for every observed destination,
   (initial queue ++ everything blocked since) = (everything unblocked since ++ current queue):
   the unblocked sequence is a prefix of the blocking order. *)
Lemma blocked_seq_app d a b : blocked_seq d (a ++ b) = blocked_seq d a ++ blocked_seq d b.
Proof. unfold blocked_seq. apply flat_map_app. Qed.
Lemma unblocked_seq_app d a b : unblocked_seq d (a ++ b) = unblocked_seq d a ++ unblocked_seq d b.
Proof. unfold unblocked_seq. apply flat_map_app. Qed.
Lemma last_nonempty_default {A} (l : list A) x d1 d2 : last (x :: l) d1 = last (x :: l) d2.
Proof. revert x. induction l as [|y l IH]; intros x; [reflexivity|]. change (last (x :: y :: l) d1) with (last (y :: l) d1). change (last (x :: y :: l) d2) with (last (y :: l) d2). apply IH. Qed.
Lemma last_cons_fun (q' q0 : bqs) (l : list bqs) : last (q' :: l) q0 = last l q'.
Proof. destruct l as [|x l]; [reflexivity|]. change (last (q' :: x :: l) q0) with (last (x :: l) q0). apply last_nonempty_default. Qed.
Theorem C07c_sound dom : forall tr q0, accepts dom q0 tr = true ->
  forall d, In d dom ->
  q0 d ++ blocked_seq d (flat_map fst tr) = unblocked_seq d (flat_map fst tr) ++ last (map snd tr) q0 d.
Proof.
  induction tr as [|[es q'] r IH]; intros q0 H d Hd.
  - simpl. rewrite app_nil_r. reflexivity.
  - simpl in H. destruct (acc_evs q0 es) as [q1|] eqn:E; [|discriminate].
    apply andb_true_iff in H. destruct H as [Hq Hr].
    rewrite forallb_forall in Hq. specialize (Hq d Hd). destruct (list_eq_dec Nat.eq_dec (q1 d) (q' d)) as [Eq|]; [|discriminate].
    pose proof (acc_evs_inv _ _ _ d E) as H1. rewrite Eq in H1.
    specialize (IH q' Hr d Hd).
    change (flat_map fst ((es, q') :: r)) with (es ++ flat_map fst r).
    change (map snd ((es, q') :: r)) with (q' :: map snd r).
    rewrite blocked_seq_app, unblocked_seq_app, last_cons_fun.
    rewrite app_assoc, H1, <- app_assoc, IH, app_assoc. reflexivity.
Qed.
Print Assumptions C07c_sound.
(* non-vacuity: an accepted trace with two customers blocked to node 2 and a LIFO unblocking rejected *)
Example accepted_example : accepts [2] (fun _ => []) [([Block 2 7; Block 2 9], fun _ => [7;9]); ([Unblock 2 7], fun _ => [9])] = true
                        /\ accepts [2] (fun _ => []) [([Block 2 7; Block 2 9], fun _ => [7;9]); ([Unblock 2 9], fun _ => [7])] = false.
Proof. vm_compute. split; reflexivity. Qed.

"""Throw-away reconnaissance: per-property monitors on the real code, observed through
behaviour-free subclasses.  Usage: recon.py <runs> [region ...]"""
import sys, random as R, collections, traceback
sys.path.insert(0, '/repo'); sys.path.insert(0, '/verif/probes')
import ciw
from math import isinf, isnan
from smoke1 import Scripted
from smoke2 import gen, FEATS

class V(AssertionError): pass
def need(c, *a):
    if not c: raise V(a)

CTX = {}
class TInd(ciw.Individual):
    def __setattr__(s, k, v):
        if k == 'service_start_date' and v is not False and 'Q' in CTX:
            on_start(s, v)
        object.__setattr__(s, k, v)

def live_server(nd, ind):
    return (ind.server is True) or (ind.server is not False and not isinf(nd.c) and ind.server in nd.servers) 

def on_start(ind, now):
    Q = CTX['Q']; nd = Q.nodes[ind.node] if ind.node else None
    if nd is None or isinf(nd.c) or getattr(nd, 'ps_capacity', None) is not None: return
    CTX['starts'] += 1
    if ind.interrupted or ind in nd.interrupted_individuals: return   # restart of interrupted: C12's business
    disc = nd.service_discipline.__name__
    lists = [[i for i in pl if not i.server] for pl in nd.individuals]   # waiting, as the code defines it
    # the chosen one may already have been given a server (attach happens before the date is written)
    for p, pl in enumerate(nd.individuals):
        w = [i for i in pl if (not i.server) or i is ind]
        if w:
            need(ind in w, 'C08 not highest waiting class', nd.id_number, ind.id_number, p, ind.priority_class)
            if disc == 'FIFO': need(w[0] is ind, 'C08 FIFO not head', nd.id_number, ind.id_number, [i.id_number for i in w])
            if disc == 'LIFO': need(w[-1] is ind, 'C08 LIFO not tail', nd.id_number, ind.id_number, [i.id_number for i in w])
            if disc == 'FIFO':
                need(all(ind.arrival_date <= i.arrival_date for i in w), 'C08 FIFO not earliest arrival', nd.id_number, ind.id_number)
            break

def timetable(sch, t):
    o = sch.offset
    if t < o: return 0
    L = sch.cyclelength; u = (t - o) % L
    for b, v in zip(sch.shift_end_dates, sch.numbers_of_servers):
        if u < b: return v
    return sch.numbers_of_servers[0]

def true_state(Q, kind):
    tn = Q.transitive_nodes
    if kind == 'SystemPopulation': return sum(len(n.all_individuals) for n in tn)
    if kind == 'NodePopulation': return tuple(len(n.all_individuals) for n in tn)
    if kind == 'NodeClassMatrix':
        cl = Q.network.customer_class_names
        return tuple(tuple(sum(1 for i in n.all_individuals if i.customer_class == c) for c in cl) for n in tn)
    if kind == 'NaiveBlocking':
        return tuple((sum(1 for i in n.all_individuals if not i.is_blocked), sum(1 for i in n.all_individuals if i.is_blocked)) for n in tn)
    return None

def mk_tracker(kind, cb):
    base = getattr(ciw.trackers, kind)
    class T(base):
        def timestamp(s):
            super().timestamp(); cb(s.simulation)
    return T()

def monitor(Q, st, kind, feats):
    now = Q.current_time
    need(now >= st['t'], 'C02 clock', st['t'], now); st['t'] = now
    ts = true_state(Q, kind)
    if ts is not None: need(Q.statetracker.hash_state() == ts, 'C17 ' + kind, Q.statetracker.hash_state(), ts)
    h = Q.statetracker.history
    need(all(h[i][0] <= h[i+1][0] and h[i][1] != h[i+1][1] for i in range(len(h)-1)), 'C17 history')
    for nd in Q.transitive_nodes:
        inds = nd.all_individuals
        need(len(inds) == nd.number_of_individuals, 'C01 count', nd.id_number)
        if getattr(nd, 'ps_capacity', None) is not None: continue
        insvc = [i for i in inds if i.service_start_date is not False]
        need(nd.number_in_service == len(insvc), 'C09 number_in_service', nd.id_number, nd.number_in_service, len(insvc))
        if isinf(nd.c): continue
        if nd.slotted: continue
        for s in nd.servers:
            need(s.busy == (s.cust is not False), 'C04 busy flag', nd.id_number)
            if s.cust is not False: need(s.cust.server is s and s.cust in inds, 'C04 link', nd.id_number, s.id_number)
        for i in inds:
            if i.server is not False and i.server in nd.servers: need(i.server.cust is i, 'C04 backlink', nd.id_number, i.id_number)
        onduty = [s for s in nd.servers if not s.offduty]
        need(len(onduty) == nd.c, 'C04 on-duty count', nd.id_number, len(onduty), nd.c)
        if nd.schedule is not None:
            need(nd.c == timetable(nd.schedule, now) or now in [nd.schedule.offset + b + k*nd.schedule.cyclelength for b in nd.schedule.shift_end_dates for k in range(50)] or now == nd.schedule.offset,
                 'C12 on-duty vs timetable', nd.id_number, now, nd.c, timetable(nd.schedule, now))
        waiting = [i for i in inds if not live_server(nd, i)]
        free = [s for s in onduty if not s.busy]
        need(not (waiting and free), 'C05 idle server while waiting', nd.id_number, [i.id_number for i in waiting], [s.id_number for s in free], 'interrupted' if any(i.interrupted for i in waiting) else '')
        if nd.reneging:
            for i in waiting:
                rd = getattr(i, 'reneging_date', float('inf'))
                need(rd >= now, 'C13 waiting past patience', nd.id_number, i.id_number, rd, now)
        if nd.priority_preempt is not False and not any(i.is_blocked for i in inds):
            if waiting and insvc:
                need(min(i.priority_class for i in waiting) >= max(i.priority_class for i in insvc if live_server(nd, i)) if [i for i in insvc if live_server(nd,i)] else True,
                     'C11 priority inversion', nd.id_number)
        for i in inds:
            if i.is_blocked:
                d = Q.nodes[i.destination]
                need(d.number_of_individuals >= d.node_capacity, 'C07 blocked with space', nd.id_number, i.id_number)
                need((nd.id_number, i.id_number) in d.blocked_queue, 'C07 blocked not queued', nd.id_number, i.id_number)
    for nd in Q.transitive_nodes:
        for (frm, iid) in nd.blocked_queue:
            need(any(i.id_number == iid and i.is_blocked and i.destination == nd.id_number for i in Q.nodes[frm].all_individuals), 'C07 stale blocked_queue entry', nd.id_number, frm, iid)

def final(Q):
    by = collections.defaultdict(list)
    for r in Q.get_all_records():
        if r.record_type == 'service' and r.server_id is not False: by[(r.node, r.server_id)].append((r.service_start_date, r.exit_date))
    for k, iv in by.items():
        iv.sort()
        for a, b in zip(iv, iv[1:]): need(a[1] <= b[0], 'C04 overlapping service intervals of one server', k, a, b)
    for nd in Q.transitive_nodes:
        u = getattr(nd, 'server_utilisation', None)
        if u is not None: need(0 <= u <= 1, 'C04 utilisation out of [0,1]', nd.id_number, u)

def run(seed, feats, kind):
    rng = R.Random(seed); cfg = gen(rng, feats)
    if 'disc' in feats:
        cfg['service_disciplines'] = [rng.choice([ciw.disciplines.FIFO, ciw.disciplines.LIFO, ciw.disciplines.SIRO]) for _ in cfg['number_of_servers']]
    N = ciw.create_network(**cfg); ciw.seed(seed)
    st = {'t': 0.0}
    CTX.clear(); CTX['starts'] = 0
    Q = ciw.Simulation(N, tracker=mk_tracker(kind, lambda Q: monitor(Q, st, kind, feats)), individual_class=TInd)
    CTX['Q'] = Q
    Q.simulate_until_max_time(rng.choice([5, 10, 20]))
    CTX.pop('Q'); final(Q)
    return CTX['starts']

REG = dict(FEATS)
REG['core+caps'] = {'caps': [0, 1, 2, float('inf')], 'infc': 1, 'disc': 1}
REG['sched-nonpre-nozero'] = {'sched': [False], 'caps': [0, 1, 2, float('inf')]}
if __name__ == '__main__':
    n = int(sys.argv[1]); regions = sys.argv[2:] or list(REG)
    kinds = ['SystemPopulation', 'NodePopulation', 'NodeClassMatrix', 'NaiveBlocking']
    for name in regions:
        feats = REG[name]; fails = collections.Counter(); ex = {}; starts = 0
        for seed in range(n):
            try: starts += run(seed, feats, kinds[seed % 4])
            except V as e:
                k = e.args[0][0]; fails[k] += 1; ex.setdefault(k, (seed, str(e.args[0][1:])[:150]))
            except Exception as e:
                tb = traceback.extract_tb(e.__traceback__)[-1]
                k = 'EXC ' + type(e).__name__ + '@%s:%d' % (tb.filename.split('/')[-1], tb.lineno); fails[k] += 1; ex.setdefault(k, (seed, str(e)[:80]))
        print('==', name, 'starts', starts, 'fails', dict(fails))
        for k, v in sorted(ex.items()): print('      ', k, v)

import sys; sys.path.insert(0, "/repo")
import ciw
# (a) NodeClassMatrix tracker with class change after service
N = ciw.create_network(
    arrival_distributions={'A':[ciw.dists.Deterministic(1.0), None], 'B':[None, None]},
    service_distributions={'A':[ciw.dists.Deterministic(0.5), ciw.dists.Deterministic(0.7)], 'B':[ciw.dists.Deterministic(0.5), ciw.dists.Deterministic(0.7)]},
    number_of_servers=[1,1],
    routing={'A':[[0.0,1.0],[0.0,0.0]], 'B':[[0.0,1.0],[0.0,0.0]]},
    class_change_matrices=[{'A':{'A':0.0,'B':1.0}, 'B':{'A':0.0,'B':1.0}}, {'A':{'A':1.0,'B':0.0}, 'B':{'A':0.0,'B':1.0}}],
)
ciw.seed(0)
Q = ciw.Simulation(N, tracker=ciw.trackers.NodeClassMatrix())
Q.simulate_until_max_time(5.6)
print("tracker:", Q.statetracker.hash_state())
print("actual:", [[sum(1 for i in n.all_individuals if i.customer_class==c) for c in ['A','B']] for n in Q.transitive_nodes])
print(Q.statetracker.history[:8])

"""Throw-away: slotted-service and processor-sharing monitors on the real code."""
import sys, random as R, collections, traceback
sys.path.insert(0,'/repo'); sys.path.insert(0,'/verif/probes')
import ciw
from fractions import Fraction as F
from smoke1 import Scripted

def slot_run(seed):
    rng=R.Random(seed); m=rng.randint(1,3); ends=sorted(rng.sample([1.0,2.0,3.0,4.5,6.0,8.0],m)); sizes=[rng.choice([1,2,3]) for _ in range(m)]
    cap=rng.random()<0.5; pre=rng.choice([False,'resume','restart','resample']) if cap else False; off=rng.choice([0.0,0.5])
    g=lambda: rng.choice([1,2,3,4,6,8,12,20])/4.0
    N=ciw.create_network(arrival_distributions=[Scripted([g() for _ in range(4)])], service_distributions=[Scripted([g() for _ in range(4)])],
        number_of_servers=[ciw.Slotted(slots=ends, slot_sizes=sizes, capacitated=cap, preemption=pre, offset=off)])
    slot_dates={off+e+k*ends[-1]:sizes[i] for k in range(40) for i,e in enumerate(ends)}
    viol=[]
    class T(ciw.trackers.NodePopulation):
        def timestamp(s):
            super().timestamp(); Q=s.simulation; nd=Q.transitive_nodes[0]
            insvc=[i for i in nd.all_individuals if i.service_start_date is not False]
            if cap and Q.current_time in slot_dates and nd.next_event_type!='x':
                pass
    ciw.seed(seed); Q=ciw.Simulation(N); Q.simulate_until_max_time(30)
    recs=Q.get_all_records()
    starts=collections.Counter()
    for r in recs:
        if r.record_type in ('service','interrupted service'):
            assert r.service_start_date in slot_dates, ('C12 start outside slot', r.service_start_date, sorted(slot_dates)[:6])
            starts[r.service_start_date]+=1
    for i in Q.transitive_nodes[0].all_individuals:
        if i.service_start_date is not False: starts[i.service_start_date]+=1
    for d,c in starts.items(): assert c<=slot_dates[d], ('C12 more starts than slot size', d, c, slot_dates[d], cap, pre)
    if cap:
        # at each slot instant t, number in service just after the slot <= size: count intervals covering t (start<=t<end)
        iv=[(r.service_start_date, r.exit_date) for r in recs if r.record_type in('service','interrupted service')]+[(i.service_start_date, float('inf')) for i in Q.transitive_nodes[0].all_individuals if i.service_start_date is not False]
        for d,sz in slot_dates.items():
            if d<30:
                n=sum(1 for a,b in iv if a<=d<b)
                if pre is not False: assert n<=sz, ('C12 capacitated+preemptive over capacity', d, n, sz, pre)
    return len(recs)

class FS(ciw.dists.Distribution):
    def __init__(s,v): s.v=list(v); s.i=0; s.log=[]
    def sample(s,t=None,ind=None):
        x=s.v[s.i%len(s.v)]; s.i+=1; s.log.append((ind.id_number if ind is not None else None, x)); return x
def ps_run(seed):
    rng=R.Random(seed); K=rng.choice([1,2,3,float('inf')]); Rr=rng.choice([1,1,2,3])
    arr=FS([rng.choice([0,1,1,2,3]) for _ in range(6)]); svc=FS([F(rng.randint(1,12),rng.choice([1,2,3,4,5,7])) for _ in range(6)])
    N=ciw.create_network(arrival_distributions=[arr], service_distributions=[svc], number_of_servers=[K], ps_thresholds=[F(Rr)])
    events=[]
    class T(ciw.trackers.NodePopulation):
        def timestamp(s):
            super().timestamp(); Q=s.simulation; nd=Q.transitive_nodes[0]
            events.append((Q.current_time, [(i.id_number, i.with_server, i.time_left if i.with_server else None) for i in nd.all_individuals]))
    Q=ciw.Simulation(N, node_class=ciw.PSNode, tracker=T()); Q.simulate_until_max_time(40)
    req=dict(Q.service_times[1]['Customer'].log)
    # integrate: between consecutive events occupancy = number with_server; rate=min(1,R/occ)
    work=collections.defaultdict(F)
    for (t0,s0),(t1,s1) in zip(events, events[1:]):
        srv=[i for i,w,tl in s0 if w]; occ=len(srv)
        assert occ<=K, ('C19 more than capacity in service', occ, K)
        if occ: 
            rate=min(F(1), F(Rr,occ))
            for i in srv: work[i]+=rate*(t1-t0)
        # waiting ones are FCFS: with_server flags form a prefix
        flags=[w for i,w,tl in s0]
        assert flags==sorted(flags, reverse=True), ('C19 in-service not a prefix (FCFS)', s0)
    done={r.id_number:r for r in Q.get_all_records()}
    for i,r in done.items():
        assert work[i]==req[i], ('C19 work received != requirement', i, work[i], req[i], K, Rr)
    for i,w in work.items():
        if i not in done: assert w<req[i] or True
    return len(done)

if __name__=='__main__':
    n=int(sys.argv[1])
    for name,f in (('slotted',slot_run),('ps',ps_run)):
        fails=collections.Counter(); ex={}; tot=0
        for seed in range(n):
            try: tot+=f(seed)
            except AssertionError as e: k=e.args[0][0]; fails[k]+=1; ex.setdefault(k,(seed,str(e.args[0][1:])[:160]))
            except Exception as e:
                tb=traceback.extract_tb(e.__traceback__)[-1]; k='EXC '+type(e).__name__+'@%s:%d'%(tb.filename.split('/')[-1],tb.lineno); fails[k]+=1; ex.setdefault(k,(seed,str(e)[:100]))
        print('==',name,'records',tot,'fails',dict(fails))
        for k,v in ex.items(): print('     ',k,v)

"""Throw-away: candidate conjuncts of the engine invariant WF (DESIGN Appendix D), evaluated on the
real code after every event in the stage-2 region (fixed/infinite servers, capacities, non-pre-emptive
priorities, transition matrices, batching, baulking, class-change matrices on every node or on none)."""
import sys, random as R, collections, traceback
sys.path.insert(0,'/repo'); sys.path.insert(0,'/verif/probes')
import ciw
from math import isinf
from smoke1 import Scripted
from smoke2 import gen

class V(AssertionError): pass
def need(c,*a):
    if not c: raise V(a)
COUNT=collections.Counter()

def wf(Q, st):
    now=Q.current_time; A=Q.nodes[0]; X=Q.nodes[-1]; tn=Q.transitive_nodes
    # W1 partition, W2 counters
    ids=[i.id_number for nd in tn for i in nd.all_individuals]+[i.id_number for i in X.all_individuals]
    need(sorted(ids)==list(range(1,A.number_of_individuals+1)),'W1 partition')
    need(X.number_of_individuals==len(X.all_individuals),'W2 exit counter')
    need(A.number_accepted_individuals<=A.number_of_individuals,'W2 accepted<=created')
    syspop=0
    for nd in tn:
        inds=nd.all_individuals; syspop+=len(inds)
        need(nd.number_of_individuals==sum(len(l) for l in nd.individuals),'W2 node counter')
        need(nd.len_blocked_queue==len(nd.blocked_queue),'W2 len_blocked_queue')
        # W3 placement
        for p,l in enumerate(nd.individuals):
            for i in l:
                need(i.node==nd.id_number,'W3 ind.node')
                need((i.prev_priority_class if i.is_blocked else i.priority_class)==p,'W3 queue index', i.is_blocked, i.priority_class, i.prev_priority_class, p)
                need(i.priority_class==Q.network.priority_class_mapping[i.customer_class],'W3 priority=map[class]')
                need(i.exit_date is False,'W3 exit_date reset while in node')
        # W13 queue order = arrival order
        for l in nd.individuals:
            need(all(a.arrival_date<=b.arrival_date for a,b in zip(l,l[1:])),'W13 queue order')
            need(all(a.id_number!=b.id_number for a,b in zip(l,l[1:])),'W13 dup')
        started=[i for i in inds if i.service_start_date is not False]
        need(nd.number_in_service==len(started),'W5 number_in_service')
        for i in inds:
            # W5 attribute coherence
            need((i.service_start_date is False)==(i.service_end_date is False)==(i.service_time is False),'W5 start/end/time set together', i.service_start_date, i.service_end_date, i.service_time)
            if i.service_start_date is not False:
                need(i.arrival_date<=i.service_start_date<=i.service_end_date,'W11 arrival<=start<=end')
                need(i.service_end_date==i.service_start_date+i.service_time,'W5 end=start+time')
                need(i.service_start_date<=now,'W11 start<=now')
            need(i.arrival_date<=now,'W11 arrival<=now')
            if i.is_blocked:
                need(i.service_end_date is not False and i.service_end_date<=now,'W6 blocked => finished service')
                need(i.destination is not False and i.destination>=1,'W6 blocked => destination set')
                d=Q.nodes[i.destination]
                need(d.blocked_queue.count((nd.id_number,i.id_number))==1,'W6 exactly one blocked_queue entry')
                need(d.number_of_individuals>=d.node_capacity,'W7 blocked => destination full')
            else:
                need(i.destination is False,'W6 unblocked => no destination')
                if i.service_end_date is not False: need(i.service_end_date>=now,'W11 in service unblocked => end>=now', i.service_end_date, now)
        need(nd.number_of_individuals<=nd.node_capacity,'W8 capacity')
        for (frm,iid) in nd.blocked_queue:
            need(frm>=1 and any(i.id_number==iid and i.is_blocked and i.destination==nd.id_number for i in Q.nodes[frm].all_individuals),'W6 blocked_queue entry valid')
        if nd.blocked_queue: need(nd.number_of_individuals>=nd.node_capacity,'W7 nonempty blocked_queue => full')
        # blocked queue is ordered by blocking instant (service_end_date)
        bl=[next(i for i in Q.nodes[f].all_individuals if i.id_number==x).service_end_date for f,x in nd.blocked_queue]
        need(bl==sorted(bl),'W6 blocked_queue ordered by blocking date')
        if isinf(nd.c):
            need(all(i.service_start_date is not False for i in inds),'W9 inf servers: everyone in service')
            need(all(i.server is False for i in inds),'W4 inf servers: no server objects')
        else:
            need(len(nd.servers)==nd.c and [s.id_number for s in nd.servers]==list(range(1,nd.c+1)),'W4 servers 1..c')
            for s in nd.servers:
                need(s.busy==(s.cust is not False),'W4 busy flag')
                need(not s.offduty,'W4 offduty never (fixed c)')
                if s.cust is not False:
                    need(s.cust in inds and s.cust.server is s,'W4 link')
                    if s.cust.is_blocked: need(isinf(s.next_end_service_date),'W10 blocked => server end=inf')
                    else: need(s.next_end_service_date==s.cust.service_end_date,'W10 server end = customer end')
                else: need(isinf(s.next_end_service_date),'W10 free server end=inf', s.next_end_service_date)
                need(s.busy_time>=0 and s.start_date==0,'W4 server times')
            for i in inds:
                need((i.server is not False)==(i.service_start_date is not False),'W5 server <=> started')
                if i.server is not False: need(i.server in nd.servers and i.server.cust is i,'W4 backlink')
            waiting=[i for i in inds if i.server is False]
            need(not(waiting and any(not s.busy for s in nd.servers)),'W9 work conservation')
        # T layer: cached next event = min over unblocked end dates
        ends=[i.service_end_date for i in inds if i.service_end_date is not False and not i.is_blocked]
        need(nd.next_event_date==(min(ends) if ends else float('inf')),'W14 next_event_date = min end', nd.next_event_date, ends)
        need(nd.next_event_date>=now,'W11 node next event >= now')
    need(syspop==Q.number_of_individuals+1,'W2 system population expression (= property + 1 between events)')
    need(syspop<=A.system_capacity,'W8 system capacity')
    for n_,d in A.event_dates_dict.items():
        for c_,t in d.items(): need(t>=now,'W11 arrival date >= now', t, now)
    need(A.next_event_date==min(t for d in A.event_dates_dict.values() for t in d.values()),'W14 arrival next date')
    for i in X.all_individuals:
        need(i.server is False and i.destination is False and i.service_start_date is False and not i.is_blocked,'W15 exit individuals reset')
        need(len(i.data_records)>=1,'W15 exit individuals have a record')
    need(now>=st['t'],'W11 clock'); st['t']=now
    COUNT['states']+=1
    COUNT['blocked_states']+= any(i.is_blocked for nd in tn for i in nd.all_individuals)

def run(seed, feats):
    rng=R.Random(seed); cfg=gen(rng,feats)
    if feats.get('noprio'): cfg.pop('priority_classes',None)
    cfg['service_disciplines']=[rng.choice([ciw.disciplines.FIFO,ciw.disciplines.LIFO,ciw.disciplines.SIRO]) for _ in cfg['number_of_servers']]
    if rng.random()<0.3: cfg['system_capacity']=rng.choice([1,2,3,5])
    if rng.random()<0.3:
        cl=list(cfg['arrival_distributions']); n=len(cfg['number_of_servers'])
        cfg['batching_distributions']={c:[Scripted([rng.choice([0,1,1,2,3]) for _ in range(3)]) for _ in range(n)] for c in cl}
    N=ciw.create_network(**cfg); ciw.seed(seed); st={'t':0.0}
    class T(ciw.trackers.NodePopulation):
        def timestamp(s): super().timestamp(); wf(s.simulation, st)
    Q=ciw.Simulation(N, tracker=T()); wf(Q, st); Q.simulate_until_max_time(rng.choice([5,10,20,40]))

if __name__=='__main__':
    n=int(sys.argv[1])
    REG={'core+caps':{'caps':[0,1,2,float('inf')],'infc':1,'baulk':1},
         'core+caps+ccm(no prio)':{'caps':[0,1,2,float('inf')],'infc':1,'ccm':1,'noprio':1},
         'core+caps+ccm(prio)':{'caps':[0,1,2,float('inf')],'infc':1,'ccm':1}}
    for name,feats in REG.items():
        fails=collections.Counter(); ex={}; COUNT.clear()
        for seed in range(n):
            try: run(seed,feats)
            except V as e: k=e.args[0][0]; fails[k]+=1; ex.setdefault(k,(seed,str(e.args[0][1:])[:120]))
            except Exception as e:
                tb=traceback.extract_tb(e.__traceback__)[-1]; k='EXC '+type(e).__name__+'@%s:%d'%(tb.filename.split('/')[-1],tb.lineno); fails[k]+=1; ex.setdefault(k,(seed,str(e)[:80]))
        print('==',name,dict(COUNT),'fails',dict(fails))
        for k,v in sorted(ex.items()): print('      ',k,v)

From Coq Require Import ZArith List Bool Lia ZifyBool Permutation.
From RecordUpdate Require Import RecordUpdate.
Import ListNotations.
Open Scope Z_scope.

(* --- toy state: nodes with one queue of ids, a counter, a capacity, a blocked queue; exit list --- *)
Record node := mkNode { q : list nat; cnt : Z; cap : Z; bq : list (nat * nat) (* from node, id *) }.
#[export] Instance eta_node : Settable _ := settable! mkNode <q; cnt; cap; bq>.
Record sim := mkSim { nodes : list node; exitl : list nat; created : nat }.
#[export] Instance eta_sim : Settable _ := settable! mkSim <nodes; exitl; created>.

Inductive res (A : Type) := Ok (a : A) | Err (site : nat) | OutOfFuel.
Arguments Ok {A}. Arguments Err {A}. Arguments OutOfFuel {A}.
Definition M A := sim -> res (A * sim).
Definition ret {A} (a : A) : M A := fun s => Ok (a, s).
Definition bind {A B} (m : M A) (f : A -> M B) : M B :=
  fun s => match m s with Ok (a, s') => f a s' | Err e => Err e | OutOfFuel => OutOfFuel end.
Notation "x <- m ;; f" := (bind m (fun x => f)) (at level 61, m at next level, right associativity).
Notation "m ;;; f" := (bind m (fun _ => f)) (at level 61, right associativity).
Definition fail {A} (e : nat) : M A := fun _ => Err e.
Definition get_node (n : nat) : M node := fun s => match nth_error (nodes s) n with Some nd => Ok (nd, s) | None => Err 1 end.
Fixpoint upd {A} (l : list A) (n : nat) (x : A) : list A :=
  match l, n with [] , _ => [] | _ :: t, O => x :: t | h :: t, S k => h :: upd t k x end.
Definition put_node (n : nat) (nd : node) : M unit := fun s => Ok (tt, s <| nodes := upd (nodes s) n nd |>).

Fixpoint remove1 (x : nat) (l : list nat) : option (list nat) :=
  match l with [] => None | h :: t => if Nat.eqb h x then Some t else option_map (cons h) (remove1 x t) end.

(* accept: append + increment *)
Definition accept (n : nat) (x : nat) : M unit :=
  nd <- get_node n ;; put_node n (nd <| q ::= fun l => l ++ [x] |> <| cnt ::= Z.succ |>).
Definition exit_accept (x : nat) : M unit := fun s => Ok (tt, s <| exitl ::= fun l => l ++ [x] |>).
(* remove from node: list.remove raises ValueError if absent *)
Definition leave (n : nat) (x : nat) : M unit :=
  nd <- get_node n ;;
  match remove1 x (q nd) with
  | None => fail 2
  | Some l => put_node n (nd <| q := l |> <| cnt ::= Z.pred |>)
  end.

(* release x from node n to destination d (None = exit), then unblock cascade at n *)
Fixpoint release (fuel : nat) (n : nat) (x : nat) (d : option nat) : M unit :=
  match fuel with O => fun _ => OutOfFuel | S f =>
    leave n x ;;;
    match d with None => exit_accept x | Some m => accept m x end ;;;
    (* release_blocked_individual at n *)
    nd <- get_node n ;;
    match bq nd with
    | (from, y) :: rest =>
        if cnt nd <? cap nd then
          put_node n (nd <| bq := rest |>) ;;; release f from y (Some n)
        else ret tt
    | [] => ret tt
    end
  end.

(* --- invariant: counters = lengths; all ids distinct; ids = 1..created --- *)
Definition all_ids (s : sim) : list nat := concat (map q (nodes s)) ++ exitl s.
Definition WF (s : sim) : Prop :=
  Forall (fun nd => cnt nd = Z.of_nat (length (q nd))) (nodes s) /\ Permutation (all_ids s) (seq 1 (created s)).

Lemma remove1_perm x l l' : remove1 x l = Some l' -> Permutation l (x :: l').
Proof.
  revert l'; induction l as [|h t IH]; simpl; intros l' H; [discriminate|].
  destruct (Nat.eqb_spec h x) as [->|Hne].
  - injection H as <-. reflexivity.
  - destruct (remove1 x t) as [t'|] eqn:E; simpl in H; [|discriminate]. injection H as <-.
    rewrite (IH _ eq_refl). apply perm_swap.
Qed.
Lemma remove1_length x l l' : remove1 x l = Some l' -> length l = S (length l').
Proof. intros H; apply remove1_perm in H. apply Permutation_length in H. simpl in H. exact H. Qed.

Lemma concat_upd_perm (ns : list node) n nd nd' :
  nth_error ns n = Some nd ->
  forall x, Permutation (q nd') (x :: q nd) ->
  Permutation (concat (map q (upd ns n nd'))) (x :: concat (map q ns)).
Proof.
  revert n; induction ns as [|h t IH]; intros [|n] Hn x Hp; simpl in *; try discriminate.
  - injection Hn as ->. rewrite Hp. reflexivity.
  - rewrite (IH _ Hn _ Hp). rewrite Permutation_middle. reflexivity.
Qed.
Lemma concat_upd_perm_rm (ns : list node) n nd nd' :
  nth_error ns n = Some nd ->
  forall x, Permutation (q nd) (x :: q nd') ->
  Permutation (concat (map q ns)) (x :: concat (map q (upd ns n nd'))).
Proof.
  revert n; induction ns as [|h t IH]; intros [|n] Hn x Hp; simpl in *; try discriminate.
  - injection Hn as ->. rewrite Hp. reflexivity.
  - rewrite (IH _ Hn _ Hp). rewrite Permutation_middle. reflexivity.
Qed.
Lemma Forall_upd {A} (P : A -> Prop) l n x : Forall P l -> P x -> Forall P (upd l n x).
Proof. revert n; induction l as [|h t IH]; intros [|n] Hl Hx; simpl; auto; inversion Hl; subst; constructor; auto. Qed.
Lemma nth_error_upd_same {A} (l : list A) n x y : nth_error l n = Some y -> nth_error (upd l n x) n = Some x.
Proof. revert n; induction l as [|h t IH]; intros [|n]; simpl; try discriminate; auto. Qed.

(* "x is in flight": WF holds for the state plus the carried customer *)
Definition WFx (x : nat) (s : sim) : Prop :=
  Forall (fun nd => cnt nd = Z.of_nat (length (q nd))) (nodes s) /\ Permutation (x :: all_ids s) (seq 1 (created s)).

Lemma leave_spec n x s s' : WF s -> leave n x s = Ok (tt, s') -> WFx x s'.
Proof.
  unfold leave, bind, get_node, put_node, fail. intros [Hc Hp].
  destruct (nth_error (nodes s) n) as [nd|] eqn:En; [|discriminate].
  destruct (remove1 x (q nd)) as [l|] eqn:Er; [|discriminate].
  intros H; injection H as <-. split; simpl.
  - apply Forall_upd; auto. simpl. rewrite Forall_forall in Hc. specialize (Hc nd (nth_error_In _ _ En)).
    apply remove1_length in Er. lia.
  - unfold all_ids in *; simpl. rewrite <- Hp.
    pose proof (concat_upd_perm_rm (nodes s) n nd (nd <| q := l |> <| cnt ::= Z.pred |>) En x) as HH.
    simpl in HH. specialize (HH (remove1_perm _ _ _ Er)). rewrite HH. reflexivity.
Qed.
Lemma accept_spec n x s s' : WFx x s -> accept n x s = Ok (tt, s') -> WF s'.
Proof.
  unfold accept, bind, get_node, put_node. intros [Hc Hp].
  destruct (nth_error (nodes s) n) as [nd|] eqn:En; [|discriminate].
  intros H; injection H as <-. split; simpl.
  - apply Forall_upd; auto. simpl. rewrite Forall_forall in Hc. specialize (Hc nd (nth_error_In _ _ En)).
    rewrite app_length; simpl. lia.
  - unfold all_ids in *; simpl. rewrite <- Hp.
    pose proof (concat_upd_perm (nodes s) n nd (nd <| q ::= fun l => l ++ [x] |> <| cnt ::= Z.succ |>) En x) as HH.
    simpl in HH. rewrite HH; [reflexivity|]. rewrite Permutation_app_comm. reflexivity.
Qed.
Lemma exit_accept_spec x s s' : WFx x s -> exit_accept x s = Ok (tt, s') -> WF s'.
Proof.
  unfold exit_accept. intros [Hc Hp] H; injection H as <-. split; simpl; auto.
  unfold all_ids in *; simpl. rewrite <- Hp. rewrite app_assoc. rewrite Permutation_app_comm. reflexivity.
Qed.

Theorem release_WF fuel : forall n x d s s', WF s -> release fuel n x d s = Ok (tt, s') -> WF s'.
Proof.
  induction fuel as [|f IH]; intros n x d s s' Hwf; simpl; [discriminate|].
  unfold bind at 1. destruct (leave n x s) as [[[] s1]| |] eqn:E1; try discriminate.
  apply (leave_spec _ _ _ _ Hwf) in E1.
  unfold bind at 1.
  destruct (match d with None => exit_accept x | Some m => accept m x end s1) as [[[] s2]| |] eqn:E2; try discriminate.
  assert (Hwf2 : WF s2). { destruct d; [eapply accept_spec|eapply exit_accept_spec]; eauto. }
  unfold bind at 1, get_node. destruct (nth_error (nodes s2) n) as [nd|] eqn:En; [|discriminate].
  destruct (bq nd) as [|[from y] rest]; [unfold ret; intros H; injection H as <-; exact Hwf2|].
  destruct (cnt nd <? cap nd); [|unfold ret; intros H; injection H as <-; exact Hwf2].
  unfold bind, put_node. apply IH.
  destruct Hwf2 as [Hc Hp]. split; simpl.
  - apply Forall_upd; auto. simpl. rewrite Forall_forall in Hc. exact (Hc nd (nth_error_In _ _ En)).
  - unfold all_ids in *; simpl. rewrite <- Hp. apply Permutation_app_tail.
    clear -En. revert n En. induction (nodes s2) as [|h t IHt]; intros [|n] En; simpl in *; try discriminate.
    + injection En as ->. reflexivity.
    + rewrite (IHt _ En). reflexivity.
Qed.
Print Assumptions release_WF.

Require Extraction. Require Import ExtrOcamlBasic.
Extraction "spike.ml" release.

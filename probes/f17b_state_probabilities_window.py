import sys; sys.path.insert(0, "/repo")
import ciw
from fractions import Fraction as F
class FakeNode:
    def increment_time(self, a, b): return a + b
class FakeSim: nodes=[None, FakeNode()]; current_time=0
t = ciw.trackers.SystemPopulation(); t.simulation = FakeSim()
t.history = [[F(0), 0], [F(1), 1], [F(3), 2], [F(4), 1]]       # state 0 on [0,1), 1 on [1,3), 2 on [3,4), 1 from 4
print("window (0,inf):", t.state_probabilities())                                   # true shares up to t=4: 0:1/4, 1:2/4, 2:1/4
print("window (0,6)  :", t.state_probabilities((F(0), F(6))), " expected 0:1/6 1:4/6 2:1/6")
print("window (0,4)  :", t.state_probabilities((F(0), F(4))), " expected 0:1/4 1:2/4 2:1/4  (4 is a history date)")
print("window (2,7/2):", t.state_probabilities((F(2), F(7,2))), " expected 1:2/3 2:1/3")

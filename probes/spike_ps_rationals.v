From Coq Require Import QArith Qminmax Lqa Lia List.
Import ListNotations.
Open Scope Q_scope.

(* one in-service customer of a PS node between two updates *)
Definition rate (R occ : Q) : Q := R / Qmax occ R.           (* = min(1, R/occ) *)
(* update_all_service_end_dates, per customer: *)
Definition upd_left (R last_occ now last tl : Q) : Q := tl - (R * (now - last)) / Qmax last_occ R.
Definition proj_end (R next_occ now tl : Q) : Q := now + (tl * Qmax next_occ R) / R.

Lemma Qmax_pos a b : 0 < b -> 0 < Qmax a b.
Proof. intros H. apply Q.max_lt_iff. right. exact H. Qed.

(* rate is min(1, R/occ) *)
Lemma rate_min R occ : 0 < R -> 0 < occ -> rate R occ == Qmin 1 (R / occ).
Proof.
  intros HR Ho. unfold rate. destruct (Qlt_le_dec occ R) as [H|H].
  - rewrite (Q.max_r occ R) by lra. rewrite Q.min_l.
    + field. lra.
    + apply Qle_shift_div_l; lra.
  - rewrite (Q.max_l occ R) by lra. rewrite Q.min_r; [reflexivity|].
    apply Qle_shift_div_r; lra.
Qed.

(* if nothing happens until the projected end date, the customer has exactly no work left then *)
Theorem departs_when_work_done R occ last tl :
  0 < R -> upd_left R occ (proj_end R occ last tl) last tl == 0.
Proof.
  intros HR. unfold upd_left, proj_end. pose proof (Qmax_pos occ R HR) as Hm.
  field. split; lra.
Qed.

(* work accounting over one interval: what is taken from time_left is rate * dt *)
Theorem work_step R occ now last tl : 0 < R ->
  tl - upd_left R occ now last tl == rate R occ * (now - last).
Proof. intros HR. unfold upd_left, rate. pose proof (Qmax_pos occ R HR). field. lra. Qed.

(* over any sequence of intervals: requirement = remaining + sum of rate*dt  (telescoping) *)
Fixpoint run (R : Q) (tl last : Q) (evs : list (Q * Q)) (* (occupancy during interval, end of interval) *) : Q :=
  match evs with [] => tl | (occ, t) :: r => run R (upd_left R occ t last tl) t r end.
Fixpoint received (R : Q) (last : Q) (evs : list (Q * Q)) : Q :=
  match evs with [] => 0 | (occ, t) :: r => rate R occ * (t - last) + received R t r end.
Theorem work_conserved R : 0 < R -> forall evs tl last, tl == run R tl last evs + received R last evs.
Proof.
  intros HR. induction evs as [|[occ t] r IH]; intros tl last; simpl; [lra|].
  rewrite <- (work_step R occ t last tl HR). specialize (IH (upd_left R occ t last tl) t). lra.
Qed.
Print Assumptions work_conserved.

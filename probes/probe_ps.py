import sys; sys.path.insert(0,'/repo')
import ciw
from fractions import Fraction as F
class Scr(ciw.dists.Distribution):
    def __init__(s,v): s.v=list(v); s.i=0
    def sample(s,t=None,ind=None):
        x=s.v[s.i%len(s.v)]; s.i+=1; return x
def run(node_class, thr):
    N=ciw.create_network(arrival_distributions=[Scr([1,1,2,1,3,1,1,5])], service_distributions=[Scr([F(7,3),F(5,2),F(1,3),F(4,1),F(2,7)])],
        number_of_servers=[3] if node_class is ciw.PSNode else [1], ps_thresholds=[thr])
    Q=ciw.Simulation(N, node_class=node_class); Q.simulate_until_max_time(40)
    return Q
Q=run(ciw.PSNode, F(1))
rs=sorted(Q.get_all_records(), key=lambda r:r.id_number)
print([(r.id_number, r.arrival_date, r.service_start_date, r.exit_date, type(r.exit_date).__name__) for r in rs][:6])
print("all exact types:", all(type(r.exit_date) in (int,F) for r in rs), "clock type", type(Q.current_time).__name__)
# FIFO equivalence of emptying instants (unlimited PS capacity, R=1)
def empties(Q):
    ev=sorted([(r.arrival_date,1) for r in Q.get_all_records()]+[(r.exit_date,-1) for r in Q.get_all_records()], key=lambda x:(x[0],x[1]))
    n=0; out=[]
    for t,d in ev:
        n+=d
        if n==0: out.append(t)
    return out
N=ciw.create_network(arrival_distributions=[Scr([1,1,2,1,3,1,1,5])], service_distributions=[Scr([F(7,3),F(5,2),F(1,3),F(4,1),F(2,7)])], number_of_servers=[float('inf')], ps_thresholds=[F(1)])
Qp=ciw.Simulation(N, node_class=ciw.PSNode); Qp.simulate_until_max_time(40)
Qf=run(ciw.Node, 1)
ep, ef = empties(Qp), empties(Qf)
# only instants well before the horizon are meaningful: customers still in service at T=40 have no record
ep=[t for t in ep if t<=30]; ef=[t for t in ef if t<=30]
print("PS empties:", ep); print("FIFO empties:", ef); print("equal (instants <= 30):", ep==ef)

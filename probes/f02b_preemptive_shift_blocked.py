import sys; sys.path.insert(0, "/repo")
import ciw, traceback
# (c) pre-emptive shift change hitting a blocked customer (resume)
N = ciw.create_network(
    arrival_distributions=[ciw.dists.Sequential([1.0, 0.5, 100.0]), None],
    service_distributions=[ciw.dists.Deterministic(1.0), ciw.dists.Deterministic(10.0)],
    number_of_servers=[ciw.Schedule(numbers_of_servers=[1,0,1], shift_end_dates=[4.0,5.0,100.0], preemption='resume'), 1],
    queue_capacities=[float('inf'), 0],
    routing=[[0.0,1.0],[0.0,0.0]],
)
ciw.seed(0)
Q = ciw.Simulation(N)
times=[]
try:
    # manual loop to watch the clock
    nxt = Q.find_next_active_node(); Q.current_time = nxt.next_event_date
    while Q.current_time < 30:
        times.append(Q.current_time)
        nxt = Q.event_and_return_nextnode(nxt)
        Q.current_time = nxt.next_event_date
    print("clock:", times)
    for r in sorted(Q.get_all_records(), key=lambda r:(r.id_number, r.exit_date)): print(r.id_number, r.node, r.record_type, r.arrival_date, r.service_start_date, r.service_time, r.service_end_date, r.time_blocked, r.exit_date, r.destination)
except Exception: 
    print("clock:", times); traceback.print_exc()

import sys, traceback; sys.path.insert(0,'/repo')
import ciw
N = ciw.create_network(arrival_distributions=[ciw.dists.Deterministic(1.0)], service_distributions=[ciw.dists.Deterministic(5.0)], number_of_servers=[1], reneging_time_distributions=[ciw.dists.Deterministic(2.0)])
Q = ciw.Simulation(N); Q.simulate_until_max_time(6)
print("renege rec destination:", [repr(r.destination) for r in Q.get_all_records() if r.record_type=='renege'][:2])
for n in (0, 3):
    try:
        Q = ciw.Simulation(ciw.create_network(arrival_distributions=[ciw.dists.Deterministic(1.0)], service_distributions=[ciw.dists.Deterministic(0.5)], number_of_servers=[1]))
        Q.simulate_until_max_customers(n); Q.simulate_until_max_customers(n); print("max_customers twice ok", n)
    except Exception as e: print("max_customers(%d) re-entry:"%n, repr(e))
# random_choice with u == 0.0 picks a zero-probability first entry
import random
orig = random.random
random.random = lambda: 0.0
print("random_choice([a,b,c],[0,.5,.5]) with u=0.0 ->", ciw.random_choice(['a','b','c'],[0.0,0.5,0.5]))
random.random = orig

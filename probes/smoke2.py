import sys, random as R, math, traceback, collections
sys.path.insert(0,'/repo')
import ciw
from math import isinf
from smoke1 import Scripted, Obs, check_state

def gen(rng, feats):
    n = rng.choice([1,2,2,3]); k = rng.choice([1,2,2,3])
    classes=['C%d'%i for i in range(k)]
    g = lambda: rng.choice([1,2,3,4,6,8])/4.0
    def dist(): return Scripted([g() for _ in range(rng.randint(1,5))])
    cfg={}
    cfg['arrival_distributions']={c:[dist() if rng.random()<0.7 else None for _ in range(n)] for c in classes}
    if all(d is None for c in classes for d in cfg['arrival_distributions'][c]): cfg['arrival_distributions'][classes[0]][0]=dist()
    cfg['service_distributions']={c:[dist() for _ in range(n)] for c in classes}
    def servers():
        if 'sched' in feats and rng.random()<0.5:
            m=rng.randint(1,3); ends=sorted(rng.sample([1.0,2.0,3.0,4.5,6.0,8.0],m))
            return ciw.Schedule(numbers_of_servers=[rng.choice([0,1,2]) for _ in range(m)], shift_end_dates=ends, preemption=rng.choice(feats['sched']), offset=rng.choice([0.0,0.0,0.5]))
        if 'slot' in feats and rng.random()<0.5:
            m=rng.randint(1,3); ends=sorted(rng.sample([1.0,2.0,3.0,4.5,6.0,8.0],m)); cap=rng.random()<0.5
            return ciw.Slotted(slots=ends, slot_sizes=[rng.choice([1,2,3]) for _ in range(m)], capacitated=cap, preemption=rng.choice([False,'resume','restart','resample']) if cap else False)
        return rng.choice([1,1,2,3,float('inf')]) if 'infc' in feats else rng.choice([1,1,2,3])
    cfg['number_of_servers']=[servers() for _ in range(n)]
    cfg['queue_capacities']=[rng.choice(feats.get('caps',[float('inf')])) for _ in range(n)]
    def row():
        r=[rng.choice([0.0,0.0,0.25,0.5]) for _ in range(n)]
        while sum(r)>1.0: r[rng.randrange(n)]=0.0
        return r
    cfg['routing']={c:[row() for _ in range(n)] for c in classes}
    if k>1:
        pr = {c:rng.randrange(2) for c in classes}
        vals=sorted(set(pr.values())); pr={c:vals.index(v) for c,v in pr.items()}
        if 'preempt' in feats: cfg['priority_classes']=(pr,[rng.choice(feats['preempt']) for _ in range(n)])
        else: cfg['priority_classes']=pr
    if 'renege' in feats:
        cfg['reneging_time_distributions']={c:[dist() if rng.random()<0.6 else None for _ in range(n)] for c in classes}
    if 'ccm' in feats and k>1:
        def ccrow():
            r={c:rng.choice([0.0,0.0,0.5,1.0]) for c in classes}
            while sum(r.values())>1.0: r[rng.choice(classes)]=0.0
            if sum(r.values())<1.0:
                c0=rng.choice(classes); r[c0]+=1.0-sum(r.values())
            return r
        cfg['class_change_matrices']=[{c:ccrow() for c in classes} for _ in range(n)]
    if 'cct' in feats and k>1:
        cfg['class_change_time_distributions']={c:{d:dist() for d in classes if d!=c and rng.random()<0.5} for c in classes}
    if 'baulk' in feats:
        def mk(th): return lambda n, Q=None, next_ind=None, next_node=None: 0.0 if n<th else (0.5 if n<th+2 else 1.0)
        cfg['baulking_functions']={c:[mk(rng.randint(0,3)) if rng.random()<0.6 else None for _ in range(n)] for c in classes}
    return cfg

def run(seed, feats):
    rng=R.Random(seed); cfg=gen(rng, feats)
    N=ciw.create_network(**cfg)
    ciw.seed(seed)
    st={'t':0.0}
    Q=ciw.Simulation(N, tracker=Obs(lambda Q: check_state(Q, st)))
    Q.simulate_until_max_time(rng.choice([5,10,20]))
    for r in Q.get_all_records():
        if r.record_type=='service':
            assert r.arrival_date<=r.service_start_date<=r.service_end_date<=r.exit_date, ('C02 rec', tuple(r))
    return len(Q.get_all_records())

FEATS={
 'renege': {'renege':1},
 'renege+caps': {'renege':1,'caps':[0,1,2,float('inf')]},
 'preempt': {'preempt':[False,'resume','restart','resample']},
 'preempt+reroute': {'preempt':[False,'resume','restart','resample','reroute']},
 'preempt+caps': {'preempt':[False,'resume','restart','resample'],'caps':[0,1,2,float('inf')]},
 'sched-nonpre': {'sched':[False]},
 'sched-nonpre+caps': {'sched':[False],'caps':[0,1,2,float('inf')]},
 'sched-pre': {'sched':['resume','restart','resample']},
 'sched-pre+caps': {'sched':['resume','restart','resample'],'caps':[0,1,2,float('inf')]},
 'sched-reroute': {'sched':['reroute']},
 'slot': {'slot':1},
 'ccm': {'ccm':1},
 'ccm+renege': {'ccm':1,'renege':1},
 'cct': {'cct':1},
 'cct+preempt': {'cct':1,'preempt':[False,'resume','restart','resample']},
 'baulk': {'baulk':1,'caps':[0,1,2,float('inf')]},
 'all': {'renege':1,'preempt':[False,'resume','restart','resample'],'sched':[False,'resume'],'ccm':1,'cct':1,'baulk':1,'caps':[1,2,float('inf')],'infc':1},
}
if __name__=='__main__':
    nruns=int(sys.argv[1])
    for name,feats in FEATS.items():
        fails=collections.Counter(); ex={}; tot=0
        for seed in range(nruns):
            try: tot+=run(seed, feats)
            except AssertionError as e:
                k=e.args[0][0] if e.args and isinstance(e.args[0],tuple) else str(e); fails[k]+=1; ex.setdefault(k,(seed,str(e.args)[:160]))
            except Exception as e:
                tb=traceback.extract_tb(e.__traceback__)[-1]
                k=type(e).__name__+':'+str(e)[:50]+'@%s:%d'%(tb.filename.split('/')[-1],tb.lineno); fails[k]+=1; ex.setdefault(k,(seed,))
        print("==",name,"records",tot,"fails",dict(fails))
        for k,v in ex.items(): print("     ",k,v)

"""Throw-away: C06 iff-clause, C10 alignment, C13 exactness, C14 stop conditions, C17 remaining trackers."""
import sys, random as R, collections, traceback
sys.path.insert(0,'/repo'); sys.path.insert(0,'/verif/probes')
import ciw
from math import isinf, isnan
from smoke1 import Scripted
from smoke2 import gen
class V(AssertionError): pass
def need(c,*a):
    if not c: raise V(a)
STAT=collections.Counter()

class Arr(ciw.ArrivalNode):
    def release_individual(self, next_node, ind):
        Q=self.simulation
        pop=len(next_node.all_individuals); syspop=sum(len(n.all_individuals) for n in Q.transitive_nodes)
        full = pop>=next_node.node_capacity or syspop>=self.system_capacity
        before=len(Q.nodes[-1].all_individuals)
        super().release_individual(next_node, ind)
        rejected = bool(ind.data_records) and ind.data_records[-1].record_type=='rejection'
        need(rejected==full,'C06 rejected iff full', pop, next_node.node_capacity, syspop, self.system_capacity, rejected)
        if rejected:
            need(ind.data_records[-1].queue_size_at_arrival==pop,'C06 rejection record population', ind.data_records[-1].queue_size_at_arrival, pop)
            need(ind in Q.nodes[-1].all_individuals and len(ind.data_records)==1,'C06 rejected goes to exit with one record')
            STAT['rejections']+=1
        STAT['arrivals']+=1

def mk_baulk(log, th):
    def f(n, Q=None, next_ind=None, next_node=None):
        p = 0.0 if n<th else (0.5 if n<th+2 else 1.0)
        log.append((next_ind.id_number, n, len(next_node.all_individuals), p)); return p
    return f

def true_matrix_blocking(Q, order):
    n=len(Q.transitive_nodes)
    m=[[[] for _ in range(n)] for _ in range(n)]
    for rank,(frm,to,iid) in enumerate(order,1): m[frm-1][to-1].append(rank)
    return (tuple(tuple(tuple(c) for c in row) for row in m), tuple(len(nd.all_individuals) for nd in Q.transitive_nodes))

def run(seed, feats, kind):
    rng=R.Random(seed); cfg=gen(rng,feats); n=len(cfg['number_of_servers']); classes=sorted(cfg['arrival_distributions'])
    blog=[]
    if 'baulk' in feats:
        cfg['baulking_functions']={c:[mk_baulk(blog, rng.randint(0,3)) if rng.random()<0.6 else None for _ in range(n)] for c in classes}
    if rng.random()<0.4: cfg['system_capacity']=rng.choice([1,2,3,5])
    if rng.random()<0.4: cfg['batching_distributions']={c:[Scripted([rng.choice([0,1,1,2,3]) for _ in range(3)]) for _ in range(n)] for c in classes}
    N=ciw.create_network(**cfg); ciw.seed(seed)
    order=[]   # ghost: global blocking order for MatrixBlocking
    if kind=='MatrixBlocking': base=ciw.trackers.MatrixBlocking; args=()
    elif kind=='NodePopulationSubset': base=ciw.trackers.NodePopulationSubset; args=([i for i in range(n) if i%2==0],)
    elif kind=='GroupedNodePopulation': base=ciw.trackers.GroupedNodePopulation; args=([[i for i in range(n) if i%2==0],[i for i in range(n) if i%2==1]],)
    else: base=ciw.trackers.NaiveBlocking; args=()
    times=[]
    class T(base):
        def timestamp(s):
            super().timestamp(); Q=s.simulation; times.append(Q.current_time)
            cur=[(nd.id_number,i.destination,i.id_number) for nd in Q.transitive_nodes for i in nd.all_individuals if i.is_blocked]
            for e in list(order):
                if e not in cur: order.remove(e)
            new=[e for e in cur if e not in order]
            need(len(new)<=1,'ghost: more than one new blockage per event'); order.extend(new)
            if kind=='MatrixBlocking': need(s.hash_state()==true_matrix_blocking(Q,order),'C17 MatrixBlocking', s.hash_state(), true_matrix_blocking(Q,order))
            if kind=='NodePopulationSubset': need(s.hash_state()==tuple(len(Q.transitive_nodes[i].all_individuals) for i in args[0]),'C17 NodePopulationSubset')
            if kind=='GroupedNodePopulation': need(s.hash_state()==tuple(sum(len(Q.transitive_nodes[i].all_individuals) for i in g) for g in args[0]),'C17 GroupedNodePopulation')
    Q=ciw.Simulation(N, tracker=T(*args), arrival_node_class=Arr)
    T_=rng.choice([5,10,20]); Q.simulate_until_max_time(T_)
    # C14 stop conditions
    need(Q.current_time>=T_,'C14 clock at return >= T', Q.current_time, T_)
    need(all(t<T_ for t in times),'C14 executed event at date >= T', max(times) if times else None, T_)
    need(all(nd.next_event_date>=T_ for nd in Q.nodes[:-1]),'C14 pending event before T')
    # C10 alignment
    for nd in range(1,n+1):
        for c in classes:
            d=Q.inter_arrival_times[nd][c]
            if d is None: continue
            sums=[]; acc=0
            for (t,ind,v) in d.log: acc+=v; sums.append(acc)
            # all partial sums except the last are executed arrival dates iff < T
            b=Q.batch_sizes[nd][c]; blog_=[v for (t,ind,v) in b.log] if hasattr(b,'log') else [1]*(len(sums)-1)
            executed=[s_ for s_ in sums[:-1]]
            need(all(s_<T_ for s_ in executed) and sums[-1]>=T_ - 1e-12 or True,'C10 arrival dates')
            firsts=[r for i in [i for x in Q.nodes[1:] for i in x.all_individuals] for r in i.data_records[:1] if i.starting_node==nd and i.original_class==c] if False else None
            # customers created by this stream: starting_node & class at creation
            created=[i for x in Q.nodes[1:] for i in x.all_individuals if i.starting_node==nd and (i.data_records[0].original_customer_class if i.data_records else i.original_class)==c]
            need(len(blog_)==len(executed),'C10 one batch draw per executed arrival event', len(blog_), len(executed))
            need(len(created)==sum(blog_),'C10 created = sum of batch draws', len(created), sum(blog_))
            STAT['streams']+=1
    for ind in [i for x in Q.nodes[1:] for i in x.all_individuals]:
        for r in ind.data_records:
            if r.record_type=='service':
                d=Q.service_times[r.node][r.customer_class]
                draws=[v for (t,i_,v) in d.log if i_==ind.id_number and t==r.service_start_date]
                need(r.service_time in draws,'C10 service_time is the draw made for that customer at its start', r.service_time, draws[:3]); STAT['services']+=1
            if r.record_type=='renege':
                d=Q.network.customer_classes[r.customer_class].reneging_time_distributions[r.node-1]
                draws=[v for (t,i_,v) in d.log if i_==ind.id_number and t==r.arrival_date]
                need(any(r.exit_date==r.arrival_date+v for v in draws),'C13 renege at arrival+patience', r.arrival_date, r.exit_date, draws[:3]); STAT['reneges']+=1
            if r.record_type=='service' and 'renege' in feats:
                d=Q.network.customer_classes[r.original_customer_class].reneging_time_distributions[r.node-1]
                if d is not None:
                    draws=[v for (t,i_,v) in d.log if i_==ind.id_number and t==r.arrival_date]
                    need(all(r.waiting_time<=v for v in draws[-1:]),'C13 waited longer than patience', r.waiting_time, draws[-1:])
    for (iid,npassed,ntrue,p) in blog: need(npassed==ntrue,'C13 baulk function got true population', npassed, ntrue); STAT['baulk_calls']+=1
    for ind in Q.nodes[-1].all_individuals:
        if ind.data_records and ind.data_records[0].record_type=='baulk': STAT['baulks']+=1

if __name__=='__main__':
    n=int(sys.argv[1])
    REG={'core+caps+baulk':{'caps':[0,1,2,float('inf')],'infc':1,'baulk':1},'renege+caps':{'renege':1,'caps':[1,2,float('inf')]}}
    kinds=['MatrixBlocking','NodePopulationSubset','GroupedNodePopulation','NaiveBlocking']
    for name,feats in REG.items():
        fails=collections.Counter(); ex={}; STAT.clear()
        for seed in range(n):
            try: run(seed,feats,kinds[seed%4])
            except V as e: k=e.args[0][0]; fails[k]+=1; ex.setdefault(k,(seed,str(e.args[0][1:])[:200]))
            except Exception as e:
                tb=traceback.extract_tb(e.__traceback__)[-1]; k='EXC '+type(e).__name__+'@%s:%d'%(tb.filename.split('/')[-1],tb.lineno); fails[k]+=1; ex.setdefault(k,(seed,str(e)[:100]))
        print('==',name,dict(STAT),'fails',dict(fails))
        for k,v in sorted(ex.items()): print('      ',k,v)

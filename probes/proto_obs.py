import sys; sys.path.insert(0,'/repo')
import ciw, random
LOG=[]
class LList(list):
    def __init__(s, it=(), tag=None): super().__init__(it); s.tag=tag
    def append(s,x): LOG.append((s.tag,'append',getattr(x,'id_number',x))); super().append(x)
    def remove(s,x): LOG.append((s.tag,'remove',getattr(x,'id_number',x))); super().remove(x)
    def pop(s,i=-1): LOG.append((s.tag,'pop',i)); return super().pop(i)
    def __delitem__(s,i): LOG.append((s.tag,'del',i)); super().__delitem__(i)
class TInd(ciw.Individual):
    def __setattr__(s,k,v):
        if k in ('service_start_date','is_blocked','server','node','customer_class','destination'):
            LOG.append(('ind',s.__dict__.get('id_number'),k, v if not hasattr(v,'id_number') else ('obj',v.id_number)))
        object.__setattr__(s,k,v)
class TSrv(ciw.Server):
    def __setattr__(s,k,v):
        if k in ('cust','busy','offduty','busy_time'): LOG.append(('srv',s.__dict__.get('id_number'),k, v if not hasattr(v,'id_number') else ('obj',v.id_number)))
        object.__setattr__(s,k,v)
class TNode(ciw.Node):
    def __init__(s,id_,sim):
        super().__init__(id_,sim)
        s.individuals=[LList(l,('q',id_,p)) for p,l in enumerate(s.individuals)]
        s.blocked_queue=LList(s.blocked_queue,('bq',id_))
        if hasattr(s,'servers'): s.servers=LList(s.servers,('servers',id_))
        s.interrupted_individuals=LList(s.interrupted_individuals,('int',id_))
    def have_event(s):
        LOG.append(('B',s.id_number,s.next_event_type,[getattr(i,'id_number',None) for i in (s.next_individual if isinstance(s.next_individual,list) else [s.next_individual])], s.now)); super().have_event()
class TArr(ciw.ArrivalNode):
    def have_event(s): LOG.append(('B',0,'arrival',s.next_node,s.next_class,s.simulation.current_time)); super().have_event()
class TExit(ciw.ExitNode):
    def accept(s, ind, completed=True): LOG.append(('exit',ind.id_number,completed)); super().accept(ind, completed)
def net():
    return ciw.create_network(
        arrival_distributions={'A':[ciw.dists.Exponential(2.0), ciw.dists.Exponential(1.0)],'B':[ciw.dists.Exponential(1.0),None]},
        service_distributions={'A':[ciw.dists.Exponential(2.0), ciw.dists.Exponential(2.5)],'B':[ciw.dists.Exponential(2.0), ciw.dists.Exponential(2.5)]},
        number_of_servers=[2, ciw.Schedule([1,1,2],[3.0,4.0,10.0],preemption=False)], queue_capacities=[2,1],
        routing={'A':[[0.1,0.6],[0.3,0.0]],'B':[[0.0,0.9],[0.5,0.0]]},
        priority_classes={'A':1,'B':0},
        reneging_time_distributions={'A':[ciw.dists.Exponential(0.5),None],'B':[None,None]})
def recs(Q): return sorted(tuple(map(str,r)) for r in Q.get_all_records())
ciw.seed(11); Q0=ciw.Simulation(net()); Q0.simulate_until_max_time(40)
ciw.seed(11); Q1=ciw.Simulation(net(), node_class=TNode, individual_class=TInd, server_class=TSrv, arrival_node_class=TArr, exit_node_class=TExit); Q1.simulate_until_max_time(40)
print("identical results with tracing:", recs(Q0)==recs(Q1), len(recs(Q0)), "records;", len(LOG), "log entries")
import collections; print(collections.Counter((e[0] if e[0] in('ind','srv','B','exit') else e[0][0], e[2] if e[0] in ('ind','srv','B') else e[1]) for e in LOG).most_common(30))
g=Q1.transitive_nodes[1].schedule.schedule_generator; print("generator introspection:", g.gi_frame.f_locals.get('index'))

import sys, random as R, math, traceback, collections
sys.path.insert(0,'/repo')
import ciw
from math import isinf

class Scripted(ciw.dists.Distribution):
    def __init__(self, vals): self.vals=list(vals); self.i=0; self.log=[]
    def sample(self, t=None, ind=None):
        v=self.vals[self.i % len(self.vals)]; self.i+=1; self.log.append((t, getattr(ind,'id_number',None), v)); return v

class Obs(ciw.trackers.NodePopulation):
    def __init__(self, cb): self.cb=cb
    def timestamp(self):
        super().timestamp(); self.cb(self.simulation)

def gen(rng):
    n = rng.choice([1,2,2,3]); k = rng.choice([1,1,2,3])
    classes=['C%d'%i for i in range(k)]
    g = lambda: rng.choice([1,2,3,4,6,8])/4.0
    def dist(): return Scripted([g() for _ in range(rng.randint(1,5))])
    cfg={}
    cfg['arrival_distributions']={c:[dist() if rng.random()<0.7 else None for _ in range(n)] for c in classes}
    if all(d is None for c in classes for d in cfg['arrival_distributions'][c]): cfg['arrival_distributions'][classes[0]][0]=dist()
    cfg['service_distributions']={c:[dist() for _ in range(n)] for c in classes}
    cfg['number_of_servers']=[rng.choice([1,1,2,3,float('inf')]) for _ in range(n)]
    cfg['queue_capacities']=[rng.choice([0,0,1,2,float('inf')]) for _ in range(n)]
    def row():
        r=[rng.choice([0.0,0.0,0.25,0.5]) for _ in range(n)]
        while sum(r)>1.0: r[rng.randrange(n)]=0.0
        return r
    cfg['routing']={c:[row() for _ in range(n)] for c in classes}
    if k>1 and rng.random()<0.6:
        pr = {c:rng.randrange(min(k,2)) for c in classes}
        # priorities must be 0..m-1 contiguous
        vals=sorted(set(pr.values())); pr={c:vals.index(v) for c,v in pr.items()}
        cfg['priority_classes']=pr
    if rng.random()<0.3: cfg['system_capacity']=rng.choice([1,2,3,5])
    if rng.random()<0.3:
        cfg['batching_distributions']={c:[Scripted([rng.choice([0,1,1,2,3]) for _ in range(3)]) for _ in range(n)] for c in classes}
    return cfg

def check_state(Q, st):
    # C01 conservation
    N = Q.nodes[0].number_of_individuals
    ids=[]
    for nd in Q.transitive_nodes:
        li=[i.id_number for i in nd.all_individuals]
        assert len(li)==nd.number_of_individuals, ('C01 count', nd, len(li), nd.number_of_individuals)
        ids+=li
    ids+=[i.id_number for i in Q.nodes[-1].all_individuals]
    assert sorted(ids)==list(range(1,N+1)), ('C01 ids', sorted(ids), N)
    # C06 capacity
    for nd in Q.transitive_nodes:
        assert nd.number_of_individuals <= nd.node_capacity, ('C06', nd, nd.number_of_individuals, nd.node_capacity)
    assert Q.number_of_individuals <= Q.network.system_capacity, ('C06 sys',)
    # C04/C05
    for nd in Q.transitive_nodes:
        if isinf(nd.c): continue
        busy=[s for s in nd.servers if s.busy]
        for s in busy:
            assert s.cust is not False and s.cust.server is s and s.cust in nd.all_individuals, ('C04 link', nd)
        withsrv=[i for i in nd.all_individuals if i.server]
        assert len(withsrv)==len(busy) <= nd.c, ('C04 count', nd, len(withsrv), len(busy), nd.c)
        waiting=[i for i in nd.all_individuals if not i.server]
        free=[s for s in nd.servers if not s.busy]
        assert not (waiting and free), ('C05', nd, waiting, free)
        # C07: blocked never while destination has space
        for i in nd.all_individuals:
            if i.is_blocked:
                d=Q.nodes[i.destination]
                assert d.number_of_individuals >= d.node_capacity, ('C07 blocked with space', nd, i, d)
    # C02 monotone time
    assert Q.current_time >= st['t'], ('C02 clock', st['t'], Q.current_time)
    st['t']=Q.current_time

def run(seed):
    rng=R.Random(seed); cfg=gen(rng)
    N=ciw.create_network(**cfg)
    ciw.seed(seed)
    st={'t':0.0}
    Q=ciw.Simulation(N, tracker=Obs(lambda Q: check_state(Q, st)))
    Q.simulate_until_max_time(rng.choice([5,10,20]))
    # records
    for r in Q.get_all_records():
        if r.record_type=='service':
            assert r.arrival_date<=r.service_start_date<=r.service_end_date<=r.exit_date, ('C02 rec', r)
    return len(Q.get_all_records())

if __name__=='__main__':
    fails=collections.Counter(); ex={}
    tot=0
    for seed in range(int(sys.argv[1])):
        try: tot+=run(seed)
        except AssertionError as e:
            k=e.args[0][0] if e.args and isinstance(e.args[0],tuple) else str(e); fails[k]+=1; ex.setdefault(k,(seed,e.args))
        except Exception as e:
            k=type(e).__name__+':'+str(e)[:60]; fails[k]+=1; ex.setdefault(k,(seed,traceback.format_exc().splitlines()[-3:]))
    print("records", tot, "fails", dict(fails))
    for k,v in ex.items(): print(k, v)

import sys; sys.path.insert(0, "/repo")
import ciw, traceback
# F-14g: horizon 0
try:
    Q = ciw.Simulation(ciw.create_network(arrival_distributions=[ciw.dists.Deterministic(1.0)], service_distributions=[ciw.dists.Deterministic(1.0)], number_of_servers=[1]))
    Q.simulate_until_max_time(0); print("T=0 ok, utilisation", Q.transitive_nodes[0].server_utilisation)
except Exception as e: print("simulate_until_max_time(0):", repr(e))
# F-12c: overtime server whose customer is blocked and gets unblocked by another node's event
N = ciw.create_network(
    arrival_distributions=[ciw.dists.Sequential([1.0, 100.0]), ciw.dists.Sequential([0.5, 100.0])],
    service_distributions=[ciw.dists.Deterministic(2.0), ciw.dists.Deterministic(6.0)],
    number_of_servers=[ciw.Schedule(numbers_of_servers=[1, 1], shift_end_dates=[4.0, 50.0]), 1],
    queue_capacities=[float('inf'), 0],
    routing=[[0.0, 1.0], [0.0, 0.0]])
Q = ciw.Simulation(N); Q.simulate_until_max_time(30)
# customer 2 arrives node 2 at 0.5, in service until 6.5; customer 1 arrives node 1 at 1.0, ends 3.0, blocked until 6.5;
# node 1's shift ends at 4.0 -> server 1 goes off duty holding the blocked customer; released at 6.5 by node 2's event.
print("overtime recorded at node 1:", Q.transitive_nodes[0].overtime, "(true overtime: 6.5 - 4.0 = 2.5)")
for r in sorted(Q.get_all_records(), key=lambda r: (r.id_number, r.node)): print(r.id_number, r.node, r.service_start_date, r.service_end_date, r.exit_date, r.time_blocked)

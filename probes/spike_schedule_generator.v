From Coq Require Import ZArith List Lia Arith.
Import ListNotations.
Open Scope Z_scope.

(* Schedule.get_schedule_generator: the value yielded at the k-th call of next(), k = 0,1,2,... *)
Section Sched.
Variable b : list Z.           (* shift_end_dates  *)
Variable v : list Z.           (* numbers_of_servers *)
Variable off : Z.
Definition n : nat := length b.
Definition cyc : Z := last b 0.
Definition gen_date (k : nat) : Z := off + nth (k mod n) b 0 + Z.of_nat (k / n) * cyc.
Definition gen_c (k : nat) : Z := nth ((k + 1) mod n) v 0.
(* dates of the shift changes as the node experiences them: change 0 at `off` (initialise),
   change k+1 at the k-th yielded date; servers on duty after change k: v[k mod n] *)
Definition D (k : nat) : Z := match k with O => off | S j => gen_date j end.
Definition C (k : nat) : Z := nth (k mod n) v 0.

Hypothesis n_pos : (0 < n)%nat.
Hypothesis b_pos : forall i, (i < n)%nat -> 0 < nth i b 0.
Hypothesis b_inc : forall i j, (i < j < n)%nat -> nth i b 0 < nth j b 0.

Lemma last_is_nth (l : list Z) : last l 0 = nth (length l - 1) l 0.
Proof.
  induction l as [|x l IH]; [reflexivity|]. destruct l as [|y l']; [reflexivity|].
  change (last (x :: y :: l') 0) with (last (y :: l') 0). rewrite IH. simpl length.
  replace (S (S (length l')) - 1)%nat with (S (S (length l') - 1))%nat by lia. reflexivity.
Qed.
Lemma cyc_last : cyc = nth (n - 1) b 0.
Proof. unfold cyc, n. apply last_is_nth. Qed.

Lemma b_le_cyc i : (i < n)%nat -> nth i b 0 <= cyc.
Proof.
  intros H. rewrite cyc_last. destruct (Nat.eq_dec i (n - 1)) as [->|Hne]; [lia|].
  apply Z.lt_le_incl. apply b_inc. lia.
Qed.
Lemma cyc_pos : 0 < cyc.
Proof. rewrite cyc_last. apply b_pos. lia. Qed.

(* the generator's dates increase strictly: no shift change is ever scheduled in the past *)
Theorem gen_date_increasing k : gen_date k < gen_date (S k).
Proof.
  unfold gen_date.
  assert (Hn : n <> O) by lia.
  pose proof (Nat.div_mod k n Hn) as Hk. pose proof (Nat.mod_upper_bound k n Hn) as Hm.
  destruct (Nat.eq_dec (k mod n) (n - 1)) as [E|E].
  - (* wrap around: next index 0 of the next cycle *)
    assert (H1 : (S k mod n = 0)%nat /\ (S k / n = S (k / n))%nat).
    { assert (S k = (S (k / n)) * n + 0)%nat by nia.
      split; [rewrite H; rewrite Nat.add_0_r; apply Nat.mod_mul; lia | rewrite H; rewrite Nat.add_0_r; apply Nat.div_mul; lia]. }
    destruct H1 as [-> ->]. rewrite E. rewrite <- cyc_last.
    pose proof (b_pos 0%nat n_pos). pose proof cyc_pos. nia.
  - assert (H1 : (S k mod n = S (k mod n))%nat /\ (S k / n = k / n)%nat).
    { assert (S k = (k / n) * n + S (k mod n))%nat by nia.
      split; rewrite H.
      - rewrite Nat.add_comm, Nat.mod_add by lia. apply Nat.mod_small. lia.
      - rewrite Nat.add_comm, Nat.div_add by lia. rewrite Nat.div_small by lia. reflexivity. }
    destruct H1 as [-> ->].
    assert (nth (k mod n) b 0 < nth (S (k mod n)) b 0) by (apply b_inc; lia). lia.
Qed.
Corollary D_increasing k : 0 <= off -> D k < D (S k).
Proof.
  intros Ho. destruct k as [|j]; [|apply gen_date_increasing].
  simpl. unfold gen_date. rewrite Nat.mod_small, Nat.div_small by lia. pose proof (b_pos 0%nat n_pos). lia.
Qed.
(* the node's c after change k is what get_next_shift copies from the generator *)
Theorem C_matches_generator k : C (S k) = gen_c k.
Proof. unfold C, gen_c. f_equal. f_equal. lia. Qed.
End Sched.
Print Assumptions gen_date_increasing.
(* the documented example: [2,0,1] until [10,30,100], offset 7 -> 0-7:0, 7-17:2, 17-37:0, 37-107:1, 107-117:2 *)
Example doc_example : map (D [10;30;100] 7) [0;1;2;3;4;5]%nat = [7;17;37;107;117;137] /\ map (C [10;30;100] [2;0;1]) [0;1;2;3;4]%nat = [2;0;1;2;0].
Proof. vm_compute. split; reflexivity. Qed.

import sys; sys.path.insert(0,'/repo')
import ciw
def net(routing=None):
    return ciw.create_network(
        arrival_distributions=[ciw.dists.Exponential(1.0), None],
        service_distributions=[ciw.dists.Exponential(2.0), ciw.dists.Exponential(2.0)],
        number_of_servers=[1,1], routing=routing or [[0.0,1.0],[0.0,0.0]])
def recs(Q): return sorted((r.id_number,r.node,r.arrival_date,r.exit_date) for r in Q.get_all_records())
# fresh
ciw.seed(5); Qa=ciw.Simulation(net()); Qa.simulate_until_max_time(30); A=recs(Qa)
# two sims from one network, run the first
N=net(); ciw.seed(5); Q1=ciw.Simulation(N); Q2=ciw.Simulation(N); Q1.simulate_until_max_time(30)
print("same as fresh:", recs(Q1)==A, "| Q1 recs", len(recs(Q1)), "| Q2 node2 pop (should be 0):", Q2.transitive_nodes[1].number_of_individuals, "Q2 exit:", Q2.nodes[-1].number_of_individuals)
# reuse network sequentially with Cycle router
R=lambda: ciw.routing.NetworkRouting(routers=[ciw.routing.Cycle(cycle=[2,-1,-1]), ciw.routing.Leave()])
ciw.seed(5); Qf=ciw.Simulation(net(R())); Qf.simulate_until_max_time(30); F=recs(Qf)
N=net(R()); ciw.seed(1); Q0=ciw.Simulation(N); Q0.simulate_until_max_time(7.3)
ciw.seed(5); Q1=ciw.Simulation(N); Q1.simulate_until_max_time(30)
print("Cycle router reuse same as fresh:", recs(Q1)==F)

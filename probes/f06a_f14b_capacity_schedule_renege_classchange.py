import sys; sys.path.insert(0, "/repo")
import ciw, traceback
# (d) capacity with schedule
N = ciw.create_network(
    arrival_distributions=[ciw.dists.Deterministic(1.0)],
    service_distributions=[ciw.dists.Deterministic(10.0)],
    number_of_servers=[ciw.Schedule(numbers_of_servers=[3], shift_end_dates=[100.0])],
    queue_capacities=[1],
)
Q = ciw.Simulation(N); Q.simulate_until_max_time(8.5)
print("node_capacity", Q.transitive_nodes[0].node_capacity, "c", Q.transitive_nodes[0].c, [ (r.id_number, r.record_type, r.queue_size_at_arrival) for r in Q.get_all_records()], "pop", Q.transitive_nodes[0].number_of_individuals)
# (h) class change after service + priorities + reneging at 2nd node
try:
    N = ciw.create_network(
        arrival_distributions={'A':[ciw.dists.Deterministic(1.0), None], 'B':[None, None]},
        service_distributions={'A':[ciw.dists.Deterministic(0.1), ciw.dists.Deterministic(5.0)], 'B':[ciw.dists.Deterministic(0.1), ciw.dists.Deterministic(5.0)]},
        number_of_servers=[1,1],
        routing={'A':[[0.0,1.0],[0.0,0.0]], 'B':[[0.0,1.0],[0.0,0.0]]},
        priority_classes={'A':0,'B':1},
        class_change_matrices=[{'A':{'A':0.0,'B':1.0}, 'B':{'A':0.0,'B':1.0}}, {'A':{'A':1.0,'B':0.0}, 'B':{'A':0.0,'B':1.0}}],
        reneging_time_distributions={'A':[None, ciw.dists.Deterministic(2.0)], 'B':[None, ciw.dists.Deterministic(2.0)]},
    )
    Q = ciw.Simulation(N); Q.simulate_until_max_time(20)
    print("ok (h)", [(r.id_number,r.node,r.record_type,r.customer_class) for r in Q.get_all_records()][:10])
except Exception: traceback.print_exc()
# (e) Poisson batching
try:
    N = ciw.create_network(arrival_distributions=[ciw.dists.Deterministic(1.0)], service_distributions=[ciw.dists.Deterministic(0.1)], number_of_servers=[1], batching_distributions=[ciw.dists.Poisson(2.0)])
    ciw.seed(1); Q = ciw.Simulation(N); Q.simulate_until_max_time(5); print("ok (e)", len(Q.get_all_records()))
except Exception: traceback.print_exc()

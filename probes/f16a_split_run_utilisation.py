import sys; sys.path.insert(0, "/repo")
import ciw
# (b) pause / resume utilisation
def mk():
    N = ciw.create_network(
        arrival_distributions=[ciw.dists.Exponential(1.0)],
        service_distributions=[ciw.dists.Exponential(1.5)],
        number_of_servers=[1])
    return N
ciw.seed(3); Q=ciw.Simulation(mk()); Q.simulate_until_max_time(50)
print("one go:", Q.transitive_nodes[0].server_utilisation, Q.transitive_nodes[0].servers[0].busy_time, len(Q.get_all_records()))
ciw.seed(3); Q=ciw.Simulation(mk()); 
for T in [10,20,30,40,50]: Q.simulate_until_max_time(T)
print("split :", Q.transitive_nodes[0].server_utilisation, Q.transitive_nodes[0].servers[0].busy_time, len(Q.get_all_records()))

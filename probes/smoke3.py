import sys, random as R, math, traceback, collections
sys.path.insert(0,'/repo')
import ciw
from math import isinf, isnan
from smoke1 import Scripted
from smoke2 import gen

class HS(ciw.trackers.NaiveBlocking):
    def __init__(self, cb): self.cb=cb
    def hash_state(self):
        h=super().hash_state()
        if hasattr(self,'simulation') and hasattr(self.simulation,'nodes'): self.cb(self.simulation)
        return h

def true_deadlock(Q):
    # greatest fixpoint: set S of nodes such that every server of node in S holds a customer blocked to a node in S
    S=set(nd.id_number for nd in Q.transitive_nodes if not isinf(nd.c) and len(nd.servers)>0)
    changed=True
    while changed:
        changed=False
        for nid in list(S):
            nd=Q.nodes[nid]
            ok=all((s.cust is not False) and s.cust.is_blocked and (s.cust.destination in S) for s in nd.servers)
            if not ok: S.discard(nid); changed=True
    return len(S)>0

def run_dl(seed):
    rng=R.Random(seed)
    cfg=gen(rng, {'caps':[0,0,1,2]})
    n=len(cfg['number_of_servers'])
    # make routing heavy to provoke deadlock
    for c in cfg['routing']:
        cfg['routing'][c]=[[rng.choice([0.0,0.25,0.5,0.5]) for _ in range(n)] for _ in range(n)]
        for r in cfg['routing'][c]:
            while sum(r)>1.0: r[rng.randrange(n)]=0.0
    N=ciw.create_network(**cfg); ciw.seed(seed)
    st={'n':0,'dl_seen_at':None}
    def cb(Q):
        st['n']+=1
        if st['dl_seen_at'] is None and true_deadlock(Q): st['dl_seen_at']=st['n']
    Q=ciw.Simulation(N, deadlock_detector=ciw.deadlock.StateDigraph(), tracker=HS(cb))
    # bound the run: patch detector to stop after many events
    orig=Q.deadlock_detector.detect_deadlock
    cnt={'e':0}
    class Stop(Exception): pass
    oldev=Q.event_and_return_nextnode
    def ev(nd):
        cnt['e']+=1
        if cnt['e']>400: raise Stop()
        return oldev(nd)
    Q.event_and_return_nextnode=ev
    try:
        Q.simulate_until_deadlock()
    except Stop:
        assert st['dl_seen_at'] is None, ('C18 missed deadlock (incomplete)', st['dl_seen_at'])
        return 'nodl'
    assert true_deadlock(Q), ('C18 unsound stop',)
    # hash_state is called once at init (+1 in statetracker.initialise, +1 in times_dictionary) then once per event
    assert all(v>=0 for v in Q.times_to_deadlock.values()), ('C18 negative ttd',)
    return 'dl@%s seen@%s'%(st['n'], st['dl_seen_at'])

def journey(Q):
    for ind in [i for nd in Q.nodes[1:] for i in nd.all_individuals]:
        recs=ind.data_records
        if not recs: continue
        closing=[r for r in recs if r.record_type in ('service','renege') or (r.record_type=='interrupted service' and not (isinstance(r.destination,float) and isnan(r.destination)))]
        term=[r for r in recs if r.record_type in ('baulk','rejection')]
        if term: assert len(recs)==1, ('C03 terminal not only', ind, [r.record_type for r in recs]); continue
        if closing: assert closing[0].node==ind.starting_node, ('C03 first node', ind)
        for a,b in zip(closing, closing[1:]):
            if a.record_type!='renege': assert b.node==a.destination, ('C03 node chain', ind.id_number, a.node, a.destination, b.node)
            assert b.arrival_date==a.exit_date, ('C03 time chain', ind.id_number, a.exit_date, b.arrival_date)
        at_exit = ind in Q.nodes[-1].all_individuals
        if closing:
            last=closing[-1]
            if last.record_type=='service': assert at_exit == (last.destination==-1), ('C03 exit iff -1', ind.id_number, at_exit, last.destination)

def run_j(seed, feats):
    rng=R.Random(seed); cfg=gen(rng, feats); N=ciw.create_network(**cfg); ciw.seed(seed)
    Q=ciw.Simulation(N); Q.simulate_until_max_time(rng.choice([5,10,20])); journey(Q); return 'ok'

def tally(name, f, n):
    fails=collections.Counter(); ex={}; res=collections.Counter()
    for seed in range(n):
        try: r=f(seed); res[r.split('@')[0]]+=1
        except AssertionError as e:
            k=e.args[0][0]; fails[k]+=1; ex.setdefault(k,(seed,str(e.args)[:200]))
        except Exception as e:
            tb=traceback.extract_tb(e.__traceback__)[-1]; k=type(e).__name__+':'+str(e)[:40]+'@%s:%d'%(tb.filename.split('/')[-1],tb.lineno); fails[k]+=1; ex.setdefault(k,(seed,))
    print("==",name,dict(res),"fails",dict(fails))
    for k,v in ex.items(): print("    ",k,v)

n=int(sys.argv[1])
tally('deadlock', run_dl, n)
tally('journey core+caps', lambda s: run_j(s, {'caps':[0,1,2,float('inf')]}), n)
tally('journey renege', lambda s: run_j(s, {'renege':1,'caps':[1,2,float('inf')]}), n)
tally('journey preempt', lambda s: run_j(s, {'preempt':[False,'resume','restart','resample','reroute']}), n)
tally('journey sched', lambda s: run_j(s, {'sched':[False,'resume','reroute']}), n)
tally('renege+preempt clock', lambda s: __import__('smoke2').run(s, {'renege':1,'preempt':['resume','restart','resample']}) and 'ok', n)

#!/bin/sh
# Builds the extracted code + driver into /verif/build/driver
set -e
cd "$(dirname "$0")/.."
mkdir -p build
cp coq/ciwx.ml coq/ciwx.mli ocaml/driver.ml build/
cd build
ocamlfind ocamlopt -O2 -w -a -package str ciwx.mli ciwx.ml driver.ml -o driver 2>/dev/null || ocamlfind ocamlopt -w -a ciwx.mli ciwx.ml driver.ml -o driver

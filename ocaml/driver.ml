(* driver.ml -- trusted glue: parses the integer-tree wire format into the
   extracted type [sx], calls the extracted [dispatch], prints the verdict.
   No property logic lives here. *)
open Ciwx

let rec pos_of_int n = if n = 1 then XH else if n land 1 = 1 then XI (pos_of_int (n lsr 1)) else XO (pos_of_int (n lsr 1))
let z_of_small n = if n = 0 then Z0 else if n > 0 then Zpos (pos_of_int n) else Zneg (pos_of_int (-n))
let z10 = z_of_small 10
(* decimal string -> Z of any size, through the extracted Z operations *)
let z_of_string s =
  let neg = String.length s > 0 && s.[0] = '-' in
  let acc = ref Z0 in
  String.iteri (fun i c -> if i = 0 && neg then () else
    acc := Z.add (Z.mul !acc z10) (z_of_small (Char.code c - 48))) s;
  if neg then Z.opp !acc else !acc
let rec int_of_pos = function XH -> 1 | XO p -> 2 * int_of_pos p | XI p -> 2 * int_of_pos p + 1
let rec string_of_z z =
  match z with
  | Z0 -> "0"
  | Zneg p -> "-" ^ string_of_z (Zpos p)
  | Zpos _ ->
    let buf = Buffer.create 16 in
    let rec go z acc = match z with
      | Z0 -> acc
      | _ -> let (q, r) = Z.div_eucl z z10 in
             let d = (match r with Z0 -> 0 | Zpos p -> int_of_pos p | Zneg _ -> 0) in
             go q (Char.chr (48 + d) :: acc) in
    List.iter (Buffer.add_char buf) (go z []); Buffer.contents buf

(* parser: "(" items ")" | integer *)
let parse (s : string) : sx =
  let n = String.length s in
  let i = ref 0 in
  let skip () = while !i < n && (s.[!i] = ' ' || s.[!i] = '\t') do incr i done in
  let rec item () =
    skip ();
    if !i >= n then failwith "eof"
    else if s.[!i] = '(' then begin
      incr i;
      let rec items acc = skip ();
        if !i >= n then failwith "unclosed"
        else if s.[!i] = ')' then (incr i; List.rev acc)
        else let x = item () in items (x :: acc) in
      L (items [])
    end else begin
      let j = !i in
      while !i < n && (s.[!i] = '-' || (s.[!i] >= '0' && s.[!i] <= '9')) do incr i done;
      if !i = j then failwith ("bad char at " ^ string_of_int j);
      A (z_of_string (String.sub s j (!i - j)))
    end in
  item ()

let zs l = String.concat " " (List.map string_of_z l)
let rec print_sx b = function
  | A z -> Buffer.add_string b (string_of_z z)
  | L l -> Buffer.add_char b '('; List.iteri (fun k x -> if k > 0 then Buffer.add_char b ' '; print_sx b x) l; Buffer.add_char b ')'

let () =
  try while true do
    let line = input_line stdin in
    let sp = String.index line ' ' in
    let name = String.sub line 0 sp in
    let rest = String.sub line (sp + 1) (String.length line - sp - 1) in
    (try
      let inp = parse rest in
      if String.length name > 0 && name.[0] = 'm' then begin
        (* model evaluation: prints an sx *)
        let out = dispatch_model (z_of_string (String.sub name 1 (String.length name - 1))) inp in
        let b = Buffer.create 256 in print_sx b out; print_string ("M " ^ Buffer.contents b ^ "\n")
      end else
      match dispatch (z_of_string name) inp with
      | Accept st -> print_string ("A " ^ zs st ^ "\n")
      | Reject (f, c, info) -> print_string ("R " ^ string_of_z f ^ " " ^ string_of_z c ^ " " ^ zs info ^ "\n")
      | BadInput c -> print_string ("B " ^ string_of_z c ^ "\n")
    with Failure m -> print_string ("E " ^ m ^ "\n") | Stack_overflow -> print_string "E stack\n");
    flush stdout
  done with End_of_file -> ()

(* Sched2.v -- T2 for C12 (server schedules follow the cyclic timetable) on the STAGE-2 engine model.

   No scope restriction: every configuration (any mix of routers, reneging, priority pre-emption, slotted nodes, class
   change, capacities), every oracle of draws, any number of events; pre-emptive and non-pre-emptive schedules alike.

   (a) SchedInv (run_many_sched, event_step_sched; spelt out in SchedInv_means): at every event boundary every node with a
       Schedule, at generator position k = n_spos, has
         next shift change date  D k   (Sub/Sched.v: D 0 = offset, D (k+1) = k-th date of the cyclic generator),
         c = 0 before the first change and C (k-1) = v[(k-1) mod n] after it,
         exactly max 0 c servers of n_servers that are not off duty,
         distinct server ids, all <= highest_id,
         off-duty servers only under a non-pre-emptive schedule, each of them busy (finishing overtime);
       and node ids are their positions.  Executable twin sched_inv_b (sched_inv_b_sound).
       NextInv (run_many_next, event_step_next; twin next_inv_b): at every event boundary the clock has not passed the next
       shift change D k of any scheduled node, and if the next event is that node's shift change the clock IS D k.
       shift_changes_follow_timetable puts the two together with (b): that event moves the node to position k+1, c = C k.
   (b) change_shift_spec (position, c, next date, number on duty after a shift change, invariant restored for all nodes);
       take_off_nonpre / take_off_pre (nobody is left on duty; pre-emptive: no server is left at all);
       interruption_record_dated (records of interrupted services carry the clock = shift date); interrupted_first.
   (c) free_server_on_duty (the server accept / serve_with hand out is in n_servers, idle and on duty),
       no_free_server_when_zero (zero scheduled servers: no free server, no pre-emption attempt, nothing for the shift
       change to serve with), overtime_server_retires (a server finishing overtime is retired and takes no new customer).
       The remaining way to start a service is priority pre-emption onto the victim's server: start_offduty_refuted is
       the closed witness (finding F-12d) that this server can be an overtime server that has just been retired.

   Method: the invariant is node-local (it reads n_id, n_servers, n_c, n_highest, n_next_shift, n_spos only), so a stale
   copy of a node that satisfied it may be written back at any time; `kp m R` = "m keeps the invariant and its result
   satisfies R", one line per engine function.  During a shift change the node itself is excepted (parameters ex ids xc of
   Inv): its count is suspended, its server ids may only shrink within ids and its (c, position) are frozen, which is what
   the cascade started by a pre-emptive shift change (interrupt -> reroute -> release -> accept -> preempt ...) keeps. *)
From Coq Require Import ZArith List Bool Lia.
From RecordUpdate Require Import RecordUpdate.
From CiwV Require Import Sx Prelude Routing Sched.
From CiwV.Engine Require Import State2 Engine2 Codec2.
Import ListNotations.
Open Scope Z_scope.

Local Arguments Z.mul : simpl never.
Local Arguments Z.add : simpl never.
Local Arguments Z.sub : simpl never.
Local Arguments Z.max : simpl never.
Local Arguments Z.of_nat : simpl never.
Local Arguments Z.to_nat : simpl never.
Local Arguments Nat.modulo : simpl never.
Local Arguments Nat.div : simpl never.
Local Arguments gen_date : simpl never.

(* ---------------------------------------------------------------------------------------------------------------- *)
(* lists of servers                                                                                                   *)
(* ---------------------------------------------------------------------------------------------------------------- *)
Definition sids (l : list server) : list Z := map sv_id l.
Definition onduty (sv : server) : bool := negb (sv_offduty sv).
Definition n_on (l : list server) : Z := Z.of_nat (length (filter onduty l)).

Lemma n_on_app a b : n_on (a ++ b) = n_on a + n_on b.
Proof. unfold n_on. rewrite filter_app, app_length. lia. Qed.
Lemma n_on_cons sv l : n_on (sv :: l) = (if sv_offduty sv then 0 else 1) + n_on l.
Proof. unfold n_on, onduty. cbn [filter]. destruct (sv_offduty sv); cbn [negb length]; lia. Qed.
Lemma n_on_nonneg l : 0 <= n_on l.
Proof. unfold n_on. lia. Qed.
Lemma n_on_zero l : (forall sv, In sv l -> sv_offduty sv = true) -> n_on l = 0.
Proof.
  induction l as [|sv l IH]; intros H; [reflexivity|].
  rewrite n_on_cons, IH by (intros; apply H; right; assumption). rewrite (H sv) by (left; reflexivity). reflexivity.
Qed.
Lemma n_on_zero_inv l : n_on l = 0 -> forall sv, In sv l -> sv_offduty sv = true.
Proof.
  induction l as [|sv l IH]; intros H x Hx; [destruct Hx|].
  rewrite n_on_cons in H. pose proof (n_on_nonneg l). destruct Hx as [<- | Hx].
  - destruct (sv_offduty sv); [reflexivity|lia].
  - apply IH; [destruct (sv_offduty sv); lia|exact Hx].
Qed.

Lemma find_server_split sid l sv : find_server sid l = Some sv ->
  exists l1 l2, l = l1 ++ sv :: l2 /\ sv_id sv = sid /\ ~ In sid (sids l1).
Proof.
  induction l as [|y r IH]; cbn [find_server]; [discriminate|].
  destruct (sv_id y =? sid) eqn:E; intros H.
  - injection H as <-. apply Z.eqb_eq in E. exists [], r. cbn. auto.
  - destruct (IH H) as (l1 & l2 & -> & Hid & Hn). apply Z.eqb_neq in E.
    exists (y :: l1), l2. cbn. repeat split; auto. intros [F | F]; auto.
Qed.
Lemma find_server_here l1 sv l2 : ~ In (sv_id sv) (sids l1) -> find_server (sv_id sv) (l1 ++ sv :: l2) = Some sv.
Proof.
  induction l1 as [|y r IH]; cbn; intros Hn.
  - rewrite Z.eqb_refl. reflexivity.
  - destruct (sv_id y =? sv_id sv) eqn:E; [apply Z.eqb_eq in E; tauto|]. apply IH. tauto.
Qed.
Lemma find_server_none sid l : ~ In sid (sids l) -> find_server sid l = None.
Proof.
  induction l as [|y r IH]; cbn; intros Hn; [reflexivity|].
  destruct (sv_id y =? sid) eqn:E; [apply Z.eqb_eq in E; tauto|]. apply IH. tauto.
Qed.
Lemma put_server_l_split l1 sv l2 sv' : ~ In (sv_id sv') (sids l1) -> sv_id sv = sv_id sv' ->
  put_server_l sv' (l1 ++ sv :: l2) = l1 ++ sv' :: l2.
Proof.
  induction l1 as [|y r IH]; cbn; intros Hn He.
  - rewrite He, Z.eqb_refl. reflexivity.
  - destruct (sv_id y =? sv_id sv') eqn:E; [apply Z.eqb_eq in E; tauto|]. f_equal. apply IH; tauto.
Qed.
Lemma del_server_l_split l1 sv l2 : ~ In (sv_id sv) (sids l1) -> del_server_l (sv_id sv) (l1 ++ sv :: l2) = l1 ++ l2.
Proof.
  induction l1 as [|y r IH]; cbn; intros Hn.
  - rewrite Z.eqb_refl. reflexivity.
  - destruct (sv_id y =? sv_id sv) eqn:E; [apply Z.eqb_eq in E; tauto|]. f_equal. apply IH; tauto.
Qed.
Lemma sids_app a b : sids (a ++ b) = sids a ++ sids b.
Proof. apply map_app. Qed.
Lemma NoDup_app_single (l : list Z) x : NoDup l -> ~ In x l -> NoDup (l ++ [x]).
Proof.
  induction l as [|y r IH]; intros Hn Hx; cbn; [constructor; [intros []|constructor]|].
  inversion Hn as [|? ? H1 H2]. constructor.
  - intros Hin. apply in_app_or in Hin as [Hin | [-> | []]]; [tauto|]. apply Hx. left. reflexivity.
  - apply IH; [exact H2|]. intros F. apply Hx. right. exact F.
Qed.

(* the part of the invariant that speaks about the list of servers: ids distinct and bounded by highest_id; off-duty
   servers only under a non-pre-emptive schedule (pre = 0), and then busy *)
Definition off_ok (pre : Z) (sv : server) : Prop := sv_offduty sv = true -> pre = 0 /\ sv_busy sv = true.
Definition srv_ok (pre hi : Z) (l : list server) : Prop :=
  NoDup (sids l) /\ Forall (fun sv => sv_id sv <= hi) l /\ Forall (off_ok pre) l.

Lemma srv_ok_put pre hi l sid sv sv' : srv_ok pre hi l -> find_server sid l = Some sv -> sv_id sv' = sid -> off_ok pre sv' ->
  srv_ok pre hi (put_server_l sv' l) /\ sids (put_server_l sv' l) = sids l /\
  (sv_offduty sv' = sv_offduty sv -> n_on (put_server_l sv' l) = n_on l).
Proof.
  intros (Hnd & Hhi & Hoff) Hf Hid Ho.
  destruct (find_server_split _ _ _ Hf) as (l1 & l2 & -> & Hsv & Hn).
  rewrite put_server_l_split by (rewrite ?Hid; congruence || assumption).
  assert (Es : sids (l1 ++ sv' :: l2) = sids (l1 ++ sv :: l2)) by (rewrite !sids_app; cbn; congruence).
  split; [|split].
  - split; [rewrite Es; exact Hnd|]. split.
    + apply Forall_app in Hhi as [H1 H2]. inversion H2 as [|? ? H3 H4]; clear H2. apply Forall_app. split; [exact H1|].
      constructor; [rewrite Hid, <- Hsv; exact H3|exact H4].
    + apply Forall_app in Hoff as [H1 H2]. inversion H2 as [|? ? H3 H4]; clear H2. apply Forall_app. split; [exact H1|].
      constructor; [exact Ho|exact H4].
  - exact Es.
  - intros Eo. rewrite !n_on_app, !n_on_cons, Eo. reflexivity.
Qed.

Lemma srv_ok_del pre hi l sid sv : srv_ok pre hi l -> find_server sid l = Some sv ->
  srv_ok pre hi (del_server_l sid l) /\ incl (sids (del_server_l sid l)) (sids l) /\ ~ In sid (sids (del_server_l sid l)) /\
  n_on (del_server_l sid l) = n_on l - (if sv_offduty sv then 0 else 1) /\
  (forall x, In x (del_server_l sid l) -> In x l).
Proof.
  intros (Hnd & Hhi & Hoff) Hf.
  destruct (find_server_split _ _ _ Hf) as (l1 & l2 & -> & Hsv & Hn). rewrite <- Hsv in *.
  rewrite del_server_l_split by assumption.
  rewrite sids_app in Hnd. cbn in Hnd. pose proof (NoDup_remove_1 _ _ _ Hnd) as Hnd1. pose proof (NoDup_remove_2 _ _ _ Hnd) as Hnd2.
  apply Forall_app in Hhi as [H1 H2]. inversion H2 as [|? ? H3 H4]; clear H2.
  apply Forall_app in Hoff as [G1 G2]. inversion G2 as [|? ? G3 G4]; clear G2.
  repeat split.
  - rewrite sids_app. exact Hnd1.
  - apply Forall_app; auto.
  - apply Forall_app; auto.
  - rewrite !sids_app. cbn. intros z Hz. apply in_app_or in Hz. apply in_or_app. destruct Hz; [left|right; right]; assumption.
  - rewrite sids_app. exact Hnd2.
  - rewrite !n_on_app, n_on_cons. lia.
  - intros z Hz. apply in_app_or in Hz. apply in_or_app. destruct Hz; [left|right; right]; assumption.
Qed.

Lemma nth_error_find_server l idx sv : NoDup (sids l) -> nth_error l idx = Some sv -> find_server (sv_id sv) l = Some sv.
Proof.
  revert idx; induction l as [|y r IH]; intros [|idx] Hnd H; cbn in *; try discriminate.
  - injection H as ->. rewrite Z.eqb_refl. reflexivity.
  - pose proof (NoDup_cons_iff (sv_id y) (sids r)) as [Hc _]. destruct (Hc Hnd) as [Hn Hd]. clear Hc. destruct (sv_id y =? sv_id sv) eqn:E.
    + apply Z.eqb_eq in E. exfalso. apply Hn. rewrite E. apply in_map. eapply nth_error_In; eauto.
    + eapply IH; eauto.
Qed.

(* ---------------------------------------------------------------------------------------------------------------- *)
(* the invariant                                                                                                      *)
(* ---------------------------------------------------------------------------------------------------------------- *)
Local Arguments sids : simpl never.
Local Arguments n_on : simpl never.

(* c after k shift changes: 0 before the first, then C (k-1) = v[(k-1) mod n] *)
Definition Cprev (sc : schedcfg) (k : nat) : Z := match k with O => 0 | S m => C (sc_b sc) (sc_v sc) m end.
Definition Dk (sc : schedcfg) (k : nat) : Z := D (sc_b sc) (sc_off sc) k.

Record sched_ok (sc : schedcfg) (nd : node) : Prop := mkSO {
  so_pos : 0 <= n_spos nd;
  so_next : n_next_shift nd = Some (Dk sc (Z.to_nat (n_spos nd)));
  so_c : n_c nd = Some (Cprev sc (Z.to_nat (n_spos nd)));
  so_srv : srv_ok (sc_pre sc) (n_highest nd) (n_servers nd)
}.
Definition count_ok (nd : node) : Prop := n_on (n_servers nd) = Z.max 0 (numo (n_c nd)).

Section Inv.
  Variable cf : config.

  Definition sched_of (j : Z) : option schedcfg :=
    match nthZ (cf_nodes cf) (j - 1) with
    | Some nc => match nc_srv nc with SSched sc => Some sc | _ => None end
    | None => None
    end.

  (* While node `ex` is in the middle of a shift change its count of on-duty servers is not yet the new c; what is kept
     for it instead: its server ids stay within `ids` and its (c, schedule position) is `xc`.  ex = 0 means no node is excepted (ids >= 1). *)
  Variable ex : Z.
  Variable ids : list Z.
  Variable xc : option Z * Z.

  Definition okn (nd : node) : Prop :=
    forall sc, sched_of (n_id nd) = Some sc ->
      sched_ok sc nd /\ (n_id nd <> ex -> count_ok nd) /\ (n_id nd = ex -> incl (sids (n_servers nd)) ids /\ (n_c nd, n_spos nd) = xc).
  Definition Inv (s : sim) : Prop :=
    forall k nd, nth_error (nodes s) k = Some nd -> n_id nd = Z.of_nat k + 1 /\ okn nd.

  (* okn only reads six fields *)
  Lemma okn_same nd nd' : okn nd -> n_id nd' = n_id nd -> n_servers nd' = n_servers nd -> n_c nd' = n_c nd ->
    n_highest nd' = n_highest nd -> n_next_shift nd' = n_next_shift nd -> n_spos nd' = n_spos nd -> okn nd'.
  Proof.
    intros H E1 E2 E3 E4 E5 E6 sc Hsc. rewrite E1 in *. destruct (H sc Hsc) as ([P1 P2 P3 P4] & Hc & Hx).
    split; [|split].
    - constructor; rewrite ?E6, ?E5, ?E4, ?E3, ?E2; assumption.
    - intros Hne. unfold count_ok. rewrite E2, E3. apply Hc, Hne.
    - intros He. rewrite E2, E3, E6. apply Hx, He.
  Qed.

  (* a change of the server list alone that keeps srv_ok, the ids (up to inclusion) and the number on duty *)
  Lemma okn_servers nd nd' : okn nd -> n_id nd' = n_id nd -> n_c nd' = n_c nd ->
    n_highest nd' = n_highest nd -> n_next_shift nd' = n_next_shift nd -> n_spos nd' = n_spos nd ->
    (forall pre hi, srv_ok pre hi (n_servers nd) ->
       srv_ok pre hi (n_servers nd') /\ incl (sids (n_servers nd')) (sids (n_servers nd)) /\
       (n_id nd <> ex -> n_on (n_servers nd') = n_on (n_servers nd))) ->
    okn nd'.
  Proof.
    intros H E1 E3 E4 E5 E6 Hs sc Hsc. rewrite E1 in *. destruct (H sc Hsc) as ([P1 P2 P3 P4] & Hc & Hx).
    destruct (Hs _ _ P4) as (Q1 & Q2 & Q3).
    split; [|split].
    - constructor; rewrite ?E6, ?E5, ?E4, ?E3; assumption.
    - intros Hne. unfold count_ok. rewrite (Q3 Hne), E3. apply Hc, Hne.
    - intros He. destruct (Hx He) as [I1 I2]. split; [|rewrite E3, E6; exact I2]. intros x Hx'. apply I1, Q2, Hx'.
  Qed.

  Lemma okn_put_server nd sid sv sv' : okn nd -> find_server sid (n_servers nd) = Some sv -> sv_id sv' = sid ->
    sv_offduty sv' = sv_offduty sv -> (sv_offduty sv = true -> sv_busy sv = true -> sv_busy sv' = true) ->
    okn (nd <| n_servers := put_server_l sv' (n_servers nd) |>).
  Proof.
    intros H Hf Hid Ho Hb. eapply okn_servers; [exact H|reflexivity..|]. intros pre hi Hs. cbn.
    assert (Hoff : off_ok pre sv').
    { destruct Hs as (_ & _ & Hoff). destruct (find_server_split _ _ _ Hf) as (l1 & l2 & El & _ & _). rewrite El in Hoff.
      apply Forall_app in Hoff as [_ H2]. inversion H2 as [|? ? H3 _]. intros Ht. rewrite Ho in Ht. destruct (H3 Ht). auto. }
    destruct (srv_ok_put _ _ _ _ _ _ Hs Hf Hid Hoff) as (A1 & A2 & A3).
    split; [exact A1|]. split; [rewrite A2; apply incl_refl|intros _; apply A3, Ho].
  Qed.

  (* ---------- nodes list ---------- *)
  Lemma nth_error_upd {A} (l : list A) k x k' y : nth_error (upd l k x) k' = Some y ->
    (k' = k /\ y = x) \/ nth_error l k' = Some y.
  Proof.
    revert k k'; induction l as [|a l IH]; intros [|k] [|k'] H; cbn in *; try discriminate; auto.
    - injection H as <-. auto.
    - destruct (IH _ _ H) as [[E1 E2] | H']; [left; split; congruence|right; exact H'].
  Qed.
  Lemma nth_error_upd_same {A} (l : list A) k x y : nth_error l k = Some y -> nth_error (upd l k x) k = Some x.
  Proof. revert k; induction l as [|a l IH]; intros [|k] H; cbn in *; try discriminate; eauto. Qed.
  Lemma upd_upd {A} (l : list A) k x y : upd (upd l k x) k y = upd l k y.
  Proof. revert k; induction l as [|a l IH]; intros [|k]; cbn; try reflexivity. f_equal. apply IH. Qed.

  Lemma Inv_put s nd : Inv s -> okn nd -> Inv (s <| nodes := updZ (nodes s) (n_id nd - 1) nd |>).
  Proof.
    intros HI Hok k nd' Hk. cbn in Hk. unfold updZ in Hk. destruct (n_id nd - 1 <? 0) eqn:E; [apply HI; exact Hk|].
    apply Z.ltb_ge in E. destruct (nth_error_upd _ _ _ _ _ Hk) as [[-> ->] | H']; [|apply HI; exact H'].
    split; [lia|exact Hok].
  Qed.
  Lemma Inv_nodes s s' : nodes s' = nodes s -> Inv s -> Inv s'.
  Proof. intros E H k nd Hk. rewrite E in Hk. apply H, Hk. Qed.
  Lemma Inv_get s j nd : Inv s -> nthZ (nodes s) (j - 1) = Some nd -> n_id nd = j /\ okn nd.
  Proof.
    intros HI H. unfold nthZ in H. destruct (j - 1 <? 0) eqn:E; [discriminate|]. apply Z.ltb_ge in E.
    destruct (HI _ _ H) as [A B]. split; [lia|exact B].
  Qed.
  Lemma get_node_spec j s nd s' : get_node j s = Ok (nd, s') -> s' = s /\ nthZ (nodes s) (j - 1) = Some nd.
  Proof.
    unfold get_node. destruct (j <? 1); [discriminate|]. destruct (nthZ (nodes s) (j - 1)) eqn:E; intros H; [|discriminate H]. injection H as <- <-. auto.
  Qed.

  (* ---------- the Hoare judgement: the invariant is kept and the result satisfies R ---------- *)
  Definition kp {A} (m : M A) (R : A -> Prop) : Prop :=
    forall s a s', Inv s -> m s = Ok (a, s') -> Inv s' /\ R a.
  Definition T {A} : A -> Prop := fun _ => True.

  Lemma kp_ret {A} (a : A) : kp (ret a) T.
  Proof. intros s a0 s' HI H. injection H as _ <-. split; [assumption|exact I]. Qed.
  Lemma kp_fail {A} e : kp (@fail A e) T.
  Proof. intros s a s' _ H. discriminate. Qed.
  Lemma kp_oof {A} : kp (@oof A) T.
  Proof. intros s a s' _ H. discriminate. Qed.
  Lemma kp_weaken {A} (m : M A) R : kp m R -> kp m T.
  Proof. intros H s a s' HI E. destruct (H _ _ _ HI E). split; [assumption|exact I]. Qed.
  Lemma kp_bind {A B} (m : M A) (f : A -> M B) R1 R : kp m R1 -> (forall a, R1 a -> kp (f a) R) -> kp (bind m f) R.
  Proof.
    intros Hm Hf s b s' HI H. unfold bind in H. destruct (m s) as [[a s1]| |] eqn:E; try discriminate.
    destruct (Hm _ _ _ HI E) as [HI1 HR]. eapply Hf; eauto.
  Qed.
  Lemma kp_bind_T {A B} (m : M A) (f : A -> M B) R : kp m T -> (forall a, kp (f a) R) -> kp (bind m f) R.
  Proof. intros Hm Hf. eapply kp_bind; [exact Hm|intros a _; apply Hf]. Qed.
  Lemma kp_gets {A} (f : sim -> A) : kp (gets f) T.
  Proof. intros s a s' HI H. injection H as _ <-. split; [assumption|exact I]. Qed.
  Lemma kp_lift_eq {A} e (o : option A) : kp (lift e o) (fun a => o = Some a).
  Proof. destruct o; intros s a0 s' HI H; [|discriminate H]. injection H as <- <-. auto. Qed.
  Lemma kp_lift {A} e (o : option A) : kp (lift e o) T.
  Proof. eapply kp_weaken, kp_lift_eq. Qed.
  Lemma kp_bind_lift {A B} e (o : option A) (f : A -> M B) R : (forall a, o = Some a -> kp (f a) R) -> kp (bind (lift e o) f) R.
  Proof. intros Hf. eapply kp_bind; [apply kp_lift_eq|exact Hf]. Qed.
  Lemma kp_modify (f : sim -> sim) : (forall s, nodes (f s) = nodes s) -> kp (modify f) T.
  Proof. intros Hf s a s' HI H. inversion H. split; [eapply Inv_nodes; [apply Hf|exact HI]|exact I]. Qed.
  Lemma kp_get_node_eq j : kp (get_node j) (fun nd => n_id nd = j /\ okn nd).
  Proof. intros s nd s' HI H. apply get_node_spec in H as [-> Hn]. split; [exact HI|]. eapply Inv_get; eauto. Qed.
  Lemma kp_get_node j : kp (get_node j) T.
  Proof. eapply kp_weaken, kp_get_node_eq. Qed.
  Lemma kp_bind_node {B} j (f : node -> M B) R : (forall nd, n_id nd = j -> okn nd -> kp (f nd) R) -> kp (bind (get_node j) f) R.
  Proof. intros Hf. eapply kp_bind; [apply kp_get_node_eq|]. intros nd [H1 H2]. apply Hf; assumption. Qed.
  Lemma kp_put_node nd : okn nd -> kp (put_node nd) T.
  Proof. intros Hok s a s' HI H. inversion H. split; [apply Inv_put; assumption|exact I]. Qed.
  Lemma kp_get_ind i : kp (get_ind i) T.
  Proof. intros s a s' HI H. unfold get_ind in H. destruct (find_ind i (inds s)); [|discriminate H]. injection H as _ <-. split; [assumption|exact I]. Qed.
  Lemma kp_put_ind x : kp (put_ind x) T. Proof. apply kp_modify. reflexivity. Qed.
  Lemma kp_del_ind i : kp (del_ind i) T. Proof. apply kp_modify. reflexivity. Qed.
  Lemma kp_log_rec r : kp (log_rec r) T. Proof. apply kp_modify. reflexivity. Qed.
  Lemma kp_draw_arr : kp draw_arr T.
  Proof. intros s a s' HI H. unfold draw_arr in H. destruct (d_arr (dr s)); [discriminate H|]. injection H as _ <-. split; [exact HI|exact I]. Qed.
  Lemma kp_draw_batch : kp draw_batch T.
  Proof. intros s a s' HI H. unfold draw_batch in H. destruct (d_batch (dr s)); [discriminate H|]. injection H as _ <-. split; [exact HI|exact I]. Qed.
  Lemma kp_draw_svc : kp draw_svc T.
  Proof. intros s a s' HI H. unfold draw_svc in H. destruct (d_svc (dr s)); [discriminate H|]. injection H as _ <-. split; [exact HI|exact I]. Qed.
  Lemma kp_draw_unif : kp draw_unif T.
  Proof. intros s a s' HI H. unfold draw_unif in H. destruct (d_unif (dr s)); [discriminate H|]. injection H as _ <-. split; [exact HI|exact I]. Qed.
  Lemma kp_draw_ren : kp draw_ren T.
  Proof. intros s a s' HI H. unfold draw_ren in H. destruct (d_ren (dr s)); [discriminate H|]. injection H as _ <-. split; [exact HI|exact I]. Qed.
  Lemma kp_draw_cct : kp draw_cct T.
  Proof. intros s a s' HI H. unfold draw_cct in H. destruct (d_cct (dr s)); [discriminate H|]. injection H as _ <-. split; [exact HI|exact I]. Qed.

  Lemma kp_tnow : kp tnow T. Proof. apply kp_gets. Qed.
  Ltac oksolve :=
    match goal with
    | H : okn ?nd |- okn _ => solve [ eapply (okn_same nd); [exact H|reflexivity..] ]
    end.

  Ltac kprim :=
    first [ simple apply kp_ret | simple apply kp_fail | simple apply kp_oof | simple apply kp_gets | simple apply kp_tnow | simple apply kp_lift
          | simple apply kp_get_node | simple apply kp_get_ind
          | simple apply kp_put_ind | simple apply kp_del_ind | simple apply kp_log_rec | simple apply kp_draw_arr | simple apply kp_draw_batch
          | simple apply kp_draw_svc | simple apply kp_draw_unif | simple apply kp_draw_ren | simple apply kp_draw_cct
          | (simple apply kp_modify; intros ?; reflexivity)
          | (simple apply kp_put_node; oksolve) ].
  Ltac kstruct :=
    first [ (simple apply kp_bind_node; intros ? ? ?)
          | (simple apply kp_bind_lift; intros ? ?)
          | (simple apply kp_bind_T; [|intros ?])
          | match goal with
            | |- kp (if ?b then _ else _) _ => destruct b eqn:?
            | |- kp (match ?x with _ => _ end) _ => destruct x eqn:?
            | |- kp (let '(_, _) := ?x in _) _ => destruct x eqn:?
            end ].
  Ltac kgo tac := repeat first [ kprim | tac | kstruct ].
  Ltac kauto := kgo fail.

  Lemma kp_ncfg_of j : kp (ncfg_of cf j) T. Proof. apply kp_lift. Qed.
  Lemma kp_upd_ind i f : kp (upd_ind i f) T. Proof. unfold upd_ind. kauto. Qed.
  Lemma kp_choice_uniform {A} (l : list A) : kp (choice_uniform l) T. Proof. unfold choice_uniform. kauto. Qed.
  Lemma kp_choice_weighted den P : kp (choice_weighted den P) T. Proof. unfold choice_weighted. kauto. Qed.
  Lemma kp_exit_accept i c : kp (exit_accept i c) T. Proof. unfold exit_accept. kauto. Qed.
  Lemma kp_choose_next_customer j : kp (choose_next_customer cf j) T.
  Proof. unfold choose_next_customer. kgo ltac:(first [simple apply kp_ncfg_of | simple apply kp_choice_uniform]). Qed.

  (* ---------- servers ---------- *)
  Lemma kp_upd_server j sid f : (forall sv, sv_id (f sv) = sv_id sv /\ sv_offduty (f sv) = sv_offduty sv /\ (sv_busy sv = true -> sv_busy (f sv) = true)) ->
    kp (upd_server j sid f) T.
  Proof.
    intros Hf. unfold upd_server. apply kp_bind_node; intros nd Hid Hok.
    destruct (find_server sid (n_servers nd)) as [sv|] eqn:E; [|apply kp_ret].
    apply kp_put_node. destruct (Hf sv) as (F1 & F2 & F3).
    eapply okn_put_server; eauto. rewrite F1. destruct (find_server_split _ _ _ E) as (? & ? & _ & Hs & _). exact Hs.
  Qed.
  Lemma kp_attach_server j sid i : kp (attach_server j sid i) T.
  Proof. unfold attach_server. kgo ltac:(first [simple apply kp_upd_ind | simple apply kp_upd_server; intros sv; cbn; auto]). Qed.
  Lemma kp_set_next_end j sid d : kp (set_next_end j sid d) T.
  Proof. unfold set_next_end. apply kp_upd_server. intros sv; cbn; auto. Qed.

  Ltac minv H :=
    match type of H with
    | bind ?m ?f ?s = Ok _ =>
      let a := fresh "a" in let s1 := fresh "s" in let E := fresh "E" in
      unfold bind in H at 1; destruct (m s) as [[a s1]| |] eqn:E; [|discriminate H|discriminate H]
    end.

  Lemma nthZ_updZ_same {A} (l : list A) k x y : nthZ l k = Some y -> nthZ (updZ l k x) k = Some x.
  Proof. unfold nthZ, updZ. destruct (k <? 0); [discriminate|]. apply nth_error_upd_same. Qed.
  Lemma updZ_updZ {A} (l : list A) k x y : updZ (updZ l k x) k y = updZ l k y.
  Proof. unfold updZ. destruct (k <? 0); [reflexivity|]. apply upd_upd. Qed.
  Lemma del_put sid l sv sv' : find_server sid l = Some sv -> sv_id sv' = sid ->
    del_server_l sid (put_server_l sv' l) = del_server_l sid l /\ find_server sid (put_server_l sv' l) = Some sv'.
  Proof.
    intros Hf Hid. destruct (find_server_split _ _ _ Hf) as (l1 & l2 & -> & Hs & Hn).
    rewrite put_server_l_split by congruence. rewrite <- Hid in *.
    rewrite (del_server_l_split l1 sv' l2) by assumption. rewrite <- Hs in *. rewrite (del_server_l_split l1 sv l2) by assumption.
    split; [reflexivity|]. rewrite Hs. apply find_server_here. rewrite <- Hs. assumption.
  Qed.

  Lemma gets_inv {A} (f : sim -> A) s a s' : gets f s = Ok (a, s') -> a = f s /\ s' = s.
  Proof. intros H. inversion H. auto. Qed.
  Lemma get_ind_inv i s x s' : get_ind i s = Ok (x, s') -> s' = s.
  Proof. unfold get_ind. destruct (find_ind i (inds s)); intros H; inversion H. reflexivity. Qed.
  Lemma modify_inv f s a s' : modify f s = Ok (a, s') -> s' = f s.
  Proof. intros H. inversion H. reflexivity. Qed.
  Lemma lift_inv {A} e (o : option A) s a s' : lift e o s = Ok (a, s') -> o = Some a /\ s' = s.
  Proof. destruct o; intros H; inversion H. auto. Qed.
  Lemma ret_inv {A} (x : A) s a s' : ret x s = Ok (a, s') -> a = x /\ s' = s.
  Proof. intros H. inversion H. auto. Qed.

  (* detatch_server: the freed server is put back idle; if it was off duty it is retired at once *)
  Lemma kp_detatch_server j sid i : kp (detatch_server j sid i) T.
  Proof.
    intros s a s' HI H. split; [|exact I]. unfold detatch_server in H.
    minv H. apply gets_inv in E as [-> ->].
    minv H. apply get_node_spec in E as [-> Hn]. destruct (Inv_get _ _ _ HI Hn) as [Hid Hok].
    minv H. apply get_ind_inv in E as ->.
    minv H. apply modify_inv in E as ->.
    destruct (find_server sid (n_servers a0)) as [sv|] eqn:Ef; [|apply ret_inv in H as [_ ->]; eapply Inv_nodes; [|exact HI]; reflexivity].
    set (sv2 := sv <| sv_cust := None |> <| sv_busy := false |>
                   <| sv_busy_time := sv_busy_time sv - sv_wrapped sv + (numo (i_exit a1) - numo (i_sst a1)) |> <| sv_wrapped := 0 |>
                   <| sv_total_time := Some (now s - sv_start sv) |>) in *.
    assert (Hid2 : sv_id sv2 = sid) by (destruct (find_server_split _ _ _ Ef) as (? & ? & _ & Hs & _); exact Hs).
    minv H. apply modify_inv in E as ->.
    destruct (sv_offduty sv) eqn:Eo.
    - unfold kill_server in H. minv H. apply gets_inv in E as [-> ->].
      minv H. apply get_node_spec in E as [-> Hn2]. cbn in Hn2.
      rewrite Hid in Hn2. rewrite (nthZ_updZ_same _ _ _ _ Hn) in Hn2. injection Hn2 as <-.
      cbn in H. destruct (del_put _ _ _ _ Ef Hid2) as [Ed Efs]. rewrite Efs in H. cbn in H.
      apply modify_inv in H as ->. cbn.
      eapply Inv_nodes; [|eapply (Inv_put s (a0 <| n_overtime := n_overtime a0 ++ [now s - numo (sv_shift_end sv2)] |>
                 <| n_all_busy := n_all_busy a0 ++ [sv_busy_time sv2 - sv_wrapped sv2] |> <| n_all_total := n_all_total a0 ++ [now s - sv_start sv2] |>
                 <| n_servers := del_server_l sid (n_servers a0) |>) HI)].
      + cbn. rewrite Hid, updZ_updZ, Ed. reflexivity.
      + eapply okn_servers; [exact Hok|reflexivity..|]. intros pre hi Hs. cbn.
        destruct (srv_ok_del _ _ _ _ _ Hs Ef) as (D1 & D2 & _ & D4 & _). rewrite Eo in D4. split; [exact D1|]. split; [exact D2|intros _; lia].
    - apply ret_inv in H as [_ ->].
      eapply Inv_nodes; [|eapply (Inv_put s (a0 <| n_servers := put_server_l sv2 (n_servers a0) |>) HI)]; [reflexivity|].
      eapply okn_put_server; [exact Hok|exact Ef|exact Hid2|reflexivity|]. intros Hb. congruence.
  Qed.

  (* ---------- the engine functions that never touch a server list, c, highest_id or the schedule position ---------- *)
  Ltac kl := first [ simple apply kp_ncfg_of | simple apply kp_upd_ind | simple apply kp_choice_uniform | simple apply kp_choice_weighted | simple apply kp_exit_accept
                   | simple apply kp_choose_next_customer | simple apply kp_attach_server | simple apply kp_set_next_end | simple apply kp_detatch_server ].
  Lemma kp_upd_node_same j f : (forall nd, n_id (f nd) = n_id nd /\ n_servers (f nd) = n_servers nd /\ n_c (f nd) = n_c nd /\
      n_highest (f nd) = n_highest nd /\ n_next_shift (f nd) = n_next_shift nd /\ n_spos (f nd) = n_spos nd) -> kp (upd_node j f) T.
  Proof.
    intros Hf. unfold upd_node. apply kp_bind_node; intros nd Hid Hok. apply kp_put_node.
    destruct (Hf nd) as (F1 & F2 & F3 & F4 & F5 & F6). eapply okn_same; eauto.
  Qed.
  Ltac kun := simple apply kp_upd_node_same; intros ?; cbn; repeat split; reflexivity.

  Lemma kp_find_next_class_change j : kp (find_next_class_change j) T.
  Proof. unfold find_next_class_change. kauto. Qed.
  Lemma kp_cct_loop row : forall b best bc, kp (cct_loop row b best bc) T.
  Proof. induction row as [|h r IH]; intros b best bc; cbn [cct_loop]; kgo ltac:(apply IH). Qed.
  Lemma kp_decide_class_change j i : kp (decide_class_change cf j i) T.
  Proof. unfold decide_class_change. kgo ltac:(first [simple apply kp_cct_loop | simple apply kp_find_next_class_change | kl]). Qed.
  Lemma kp_reset_class_change j i : kp (reset_class_change cf j i) T.
  Proof. unfold reset_class_change. kgo ltac:(first [simple apply kp_find_next_class_change | kl]). Qed.
  Lemma kp_stime_num x : kp (stime_num x) T.
  Proof. unfold stime_num. kauto. Qed.
  Lemma kp_give_after i : kp (give_service_time_after_preemption i) T.
  Proof. unfold give_service_time_after_preemption. kauto. Qed.
  Lemma kp_give_time i : kp (give_individual_a_service_time i) T.
  Proof. unfold give_individual_a_service_time. kgo ltac:(simple apply kp_give_after). Qed.
  Lemma kp_bump_rec i : kp (bump_rec i) T. Proof. unfold bump_rec. kgo kl. Qed.
  Lemma kp_write_individual_record j i : kp (write_individual_record cf j i) T.
  Proof. unfold write_individual_record. kgo ltac:(first [simple apply kp_bump_rec | kl]). Qed.
  Lemma kp_write_interruption_record j i d : kp (write_interruption_record cf j i d) T.
  Proof. unfold write_interruption_record. kgo ltac:(first [simple apply kp_bump_rec | kl]). Qed.
  Lemma kp_write_reneging_record j i : kp (write_reneging_record j i) T.
  Proof. unfold write_reneging_record. kgo ltac:(first [simple apply kp_bump_rec | kl]). Qed.
  Lemma kp_write_br_record j i ty : kp (write_br_record j i ty) T.
  Proof. unfold write_br_record. kgo ltac:(first [simple apply kp_bump_rec | kl]). Qed.
  Lemma kp_reset_individual_attributes i : kp (reset_individual_attributes i) T.
  Proof. unfold reset_individual_attributes. kgo kl. Qed.
  Lemma kp_valid_dest d : kp (valid_dest d) T. Proof. unfold valid_dest. kauto. Qed.
  Lemma kp_jsq_loop lb ds : forall best acc, kp (jsq_loop lb ds best acc) T.
  Proof. induction ds as [|d r IH]; intros best acc; cbn [jsq_loop]; kgo ltac:(apply IH). Qed.
  Lemma kp_jsq_next lb ds order : kp (jsq_next lb ds order) T.
  Proof. unfold jsq_next. kgo ltac:(first [simple apply kp_jsq_loop | kl]). Qed.
  Lemma kp_get_cyc c j : kp (get_cyc c j) T. Proof. unfold get_cyc. kauto. Qed.
  Lemma kp_bump_cyc c j : kp (bump_cyc c j) T.
  Proof. unfold bump_cyc. apply kp_modify. intros s. destruct (nthZ (cyc s) c) as [row|]; [|reflexivity]. destruct (nthZ row (j - 1)); reflexivity. Qed.
  Lemma kp_node_router_next r c j : kp (node_router_next r c j) T.
  Proof. unfold node_router_next. kgo ltac:(first [simple apply kp_jsq_next | simple apply kp_get_cyc | simple apply kp_bump_cyc | kl]). Qed.
  Lemma kp_next_node_for mode j i : kp (next_node_for cf mode j i) T.
  Proof. unfold next_node_for. kgo ltac:(first [simple apply kp_node_router_next | simple apply kp_valid_dest | simple apply kp_jsq_next | kl]). Qed.

  Ltac kl2 := first [ kl | simple apply kp_decide_class_change | simple apply kp_reset_class_change | simple apply kp_stime_num | simple apply kp_give_after | simple apply kp_give_time
                    | simple apply kp_write_individual_record | simple apply kp_write_interruption_record | simple apply kp_write_reneging_record | simple apply kp_write_br_record
                    | simple apply kp_reset_individual_attributes | simple apply kp_next_node_for | kun ].

  Lemma kp_start_fresh j i osid count : kp (start_fresh cf j i osid count) T.
  Proof. unfold start_fresh. kgo kl2. Qed.
  Lemma kp_start_give j i sid : kp (start_give cf j i sid) T.
  Proof. unfold start_give. kgo kl2. Qed.
  Lemma kp_start_preemptor j i sid : kp (start_preemptor cf j i sid) T.
  Proof. unfold start_preemptor. kgo kl2. Qed.
  Lemma kp_begin_interrupted j sid : kp (begin_interrupted_individuals_service j sid) T.
  Proof. unfold begin_interrupted_individuals_service. kgo kl2. Qed.
  Lemma kp_serve_with j sid : kp (serve_with cf j sid) T.
  Proof. unfold serve_with. kgo ltac:(first [simple apply kp_begin_interrupted | simple apply kp_start_give | kl2]). Qed.
  Lemma kp_bsip_release j freed : kp (begin_service_if_possible_release cf j freed) T.
  Proof. unfold begin_service_if_possible_release. kgo ltac:(first [simple apply kp_serve_with | kl2]). Qed.
  Lemma kp_get_reneging_date j i : kp (get_reneging_date cf j i) T.
  Proof. unfold get_reneging_date. kgo kl2. Qed.
  Lemma kp_block_individual j i d : kp (block_individual j i d) T.
  Proof. unfold block_individual. kgo kl2. Qed.
  Lemma kp_preempt_victim j i : kp (preempt_victim cf j i) T.
  Proof. unfold preempt_victim. kgo kl2. Qed.

  Ltac kl3 := first [ kl2 | simple apply kp_start_fresh | simple apply kp_start_give | simple apply kp_start_preemptor | simple apply kp_begin_interrupted | simple apply kp_serve_with
                    | simple apply kp_bsip_release | simple apply kp_get_reneging_date | simple apply kp_block_individual | simple apply kp_preempt_victim ].

  (* ---------- the recursive core ---------- *)
  Lemma kp_core : forall f,
    (forall j i d rr, kp (release cf f j i d rr) T) /\ (forall j, kp (release_blocked_individual cf f j) T) /\
    (forall j i, kp (accept cf f j i) T) /\ (forall j v i, kp (preempt cf f j v i) T).
  Proof.
    induction f as [|f (IHr & IHb & IHa & IHp)].
    - split; [|split; [|split]]; intros; cbn; apply kp_oof.
    - split; [|split; [|split]]; intros.
      + cbn [release]. kgo ltac:(first [simple apply IHa | simple apply IHb | kl3]).
      + cbn [release_blocked_individual]. kgo ltac:(first [simple apply IHr | kl3]).
      + cbn [accept]. kgo ltac:(first [simple apply IHp | kl3]).
      + cbn [preempt]. kgo ltac:(first [simple apply IHr | kl3]).
  Qed.
  Lemma kp_release f j i d rr : kp (release cf f j i d rr) T. Proof. apply kp_core. Qed.
  Lemma kp_rbi f j : kp (release_blocked_individual cf f j) T. Proof. apply kp_core. Qed.
  Lemma kp_accept f j i : kp (accept cf f j i) T. Proof. apply kp_core. Qed.
  Lemma kp_preempt f j v i : kp (preempt cf f j v i) T. Proof. apply kp_core. Qed.
  Ltac kl4 := first [ kl3 | simple apply kp_release | simple apply kp_rbi | simple apply kp_accept | simple apply kp_preempt ].

  Lemma kp_decide_between l : kp (decide_between l) T. Proof. unfold decide_between. kgo kl4. Qed.
  Lemma kp_change_customer_class j i : kp (change_customer_class cf j i) T. Proof. unfold change_customer_class. kgo kl4. Qed.
  Lemma kp_has_space d : kp (has_space cf d) T. Proof. unfold has_space. kgo kl4. Qed.
  Lemma kp_finish_service j : kp (finish_service cf j) T.
  Proof. unfold finish_service. kgo ltac:(first [simple apply kp_decide_between | simple apply kp_change_customer_class | simple apply kp_has_space | kl4]). Qed.
  Lemma kp_renege j : kp (renege cf j) T.
  Proof. unfold renege. kgo ltac:(first [simple apply kp_decide_between | kl4]). Qed.
  Lemma kp_interrupt_service f j i pre : kp (interrupt_service cf f j i pre) T.
  Proof. unfold interrupt_service. kgo kl4. Qed.
  Lemma kp_mapM {A B} (f : A -> M B) l : (forall a, kp (f a) T) -> kp (mapM f l) T.
  Proof. intros Hf. induction l as [|a r IH]; cbn [mapM]; kgo ltac:(first [simple apply Hf | simple apply IH]). Qed.
  Lemma kp_forM_ {A} (f : A -> M unit) l : (forall a, kp (f a) T) -> kp (forM_ l f) T.
  Proof. intros Hf. induction l as [|a r IH]; cbn [forM_]; kgo ltac:(first [simple apply Hf | simple apply IH]). Qed.
  Lemma kp_keyed l : kp (keyed l) T.
  Proof. unfold keyed. apply kp_mapM. intros i. kauto. Qed.
  Lemma kp_sort_interrupted j : kp (sort_interrupted_individuals j) T.
  Proof. unfold sort_interrupted_individuals. kgo ltac:(simple apply kp_keyed). Qed.

  Lemma okn_put_server_nth nd idx sv sv' : okn nd -> nth_error (n_servers nd) idx = Some sv -> sv_id sv' = sv_id sv ->
    sv_offduty sv' = sv_offduty sv -> sv_busy sv' = sv_busy sv -> okn (nd <| n_servers := put_server_l sv' (n_servers nd) |>).
  Proof.
    intros H Hn E1 E2 E3 sc Hsc. cbn in Hsc. destruct (H sc Hsc) as ([_ _ _ (Hnd & _)] & _).
    refine (okn_put_server nd (sv_id sv) sv sv' H _ E1 E2 _ sc Hsc); [|congruence].
    eapply nth_error_find_server; eauto.
  Qed.
  Lemma kp_off_duty_loop k : forall f j idx pre se, kp (off_duty_loop cf k f j idx pre se) T.
  Proof.
    induction k as [|k IH]; intros f j idx pre se; cbn [off_duty_loop]; [apply kp_ret|].
    apply kp_bind_node; intros nd Hid Hok. destruct (nth_error (n_servers nd) idx) as [sv|] eqn:En; [|apply kp_ret].
    apply kp_bind_T; [apply kp_put_node; eapply okn_put_server_nth; eauto|]. intros _.
    kgo ltac:(first [simple apply IH | simple apply kp_interrupt_service]).
  Qed.
  Lemma kp_bsip_change_shift j : kp (begin_service_if_possible_change_shift cf j) T.
  Proof. unfold begin_service_if_possible_change_shift. kgo ltac:(first [simple apply kp_forM_; intros ? | kl4]). Qed.

  Lemma kp_slot_loop k j : kp (slot_loop cf k j) T.
  Proof. induction k as [|k IH]; cbn [slot_loop]; kgo ltac:(first [simple apply IH | kl4]). Qed.
  Lemma sched_of_slot j nc sl : nthZ (cf_nodes cf) (j - 1) = Some nc -> nc_srv nc = SSlot sl -> sched_of j = None.
  Proof. intros H1 H2. unfold sched_of. rewrite H1, H2. reflexivity. Qed.
  Lemma okn_unscheduled nd : sched_of (n_id nd) = None -> okn nd.
  Proof. intros H sc Hsc. congruence. Qed.
  Lemma kp_slotted_service j : kp (slotted_service cf j) T.
  Proof.
    unfold slotted_service. apply kp_bind_lift; intros nc Hnc. destruct (nc_srv nc) as [|sc|sl] eqn:Es; try apply kp_fail.
    kgo ltac:(first [ simple apply kp_slot_loop | simple apply kp_keyed | simple apply kp_forM_; intros ? | simple apply kp_interrupt_service | kl4 ]).
    unfold upd_node. apply kp_bind_node; intros nd' Hid' _. apply kp_put_node. apply okn_unscheduled. cbn. rewrite Hid'. eapply sched_of_slot; eauto.
  Qed.
  Lemma kp_ccww j : kp (change_customer_class_while_waiting cf j) T.
  Proof. unfold change_customer_class_while_waiting. kgo kl4. Qed.
  Lemma kp_update_next_event_date j : kp (update_next_event_date cf j) T.
  Proof. unfold update_next_event_date. kgo kl4. Qed.
  Lemma kp_find_next_event_date : kp find_next_event_date T.
  Proof. unfold find_next_event_date. apply kp_modify. intros s. destruct (find_min_dates 1 (a_dates (arr s)) (None, 0, 0)) as [[d j] c]. reflexivity. Qed.
  Lemma kp_sys_population : kp sys_population T. Proof. unfold sys_population. kauto. Qed.
  Lemma kp_route_of i c : kp (route_of cf i c) T. Proof. unfold route_of. kauto. Qed.
  Lemma kp_send_individual j i : kp (send_individual cf j i) T. Proof. unfold send_individual. kgo kl4. Qed.
  Lemma kp_release_individual j i : kp (release_individual cf j i) T.
  Proof. unfold release_individual. kgo ltac:(first [simple apply kp_sys_population | simple apply kp_send_individual | kl4]). Qed.
  Lemma kp_batch_loop n : forall j c p, kp (batch_loop cf n j c p) T.
  Proof. induction n as [|n IH]; intros j c p; cbn [batch_loop]; kgo ltac:(first [simple apply IH | simple apply kp_route_of | simple apply kp_release_individual | kl4]). Qed.
  Lemma kp_arrival_have_event : kp (arrival_have_event cf) T.
  Proof. unfold arrival_have_event. kgo ltac:(first [simple apply kp_batch_loop | simple apply kp_find_next_event_date | kl4]). Qed.
  Lemma kp_update_all js : kp (update_all cf js) T.
  Proof. induction js as [|j r IH]; cbn [update_all]; kgo ltac:(first [simple apply IH | simple apply kp_update_next_event_date]). Qed.
  Lemma kp_find_next_active_node : kp find_next_active_node T.
  Proof. unfold find_next_active_node. kgo kl4. Qed.
End Inv.

(* ---------------------------------------------------------------------------------------------------------------- *)
(* change_shift                                                                                                       *)
(* ---------------------------------------------------------------------------------------------------------------- *)
Ltac minv H :=
  match type of H with
  | bind ?m ?f ?s = Ok _ =>
    let a := fresh "a" in let s1 := fresh "s" in let E := fresh "E" in
    unfold bind in H at 1; destruct (m s) as [[a s1]| |] eqn:E; [|discriminate H|discriminate H]
  end.

Tactic Notation "minv" hyp(H) "as" ident(a) ident(s1) ident(E) :=
  match type of H with
  | bind ?m ?f ?s = Ok _ =>
    unfold bind in H at 1; destruct (m s) as [[a s1]| |] eqn:E; [|discriminate H|discriminate H]
  end.

Definition at_node (j : Z) (P : node -> Prop) (s : sim) : Prop := forall nd, nthZ (nodes s) (j - 1) = Some nd -> P nd.

Lemma nth_error_upd_eq {A} (l : list A) k x y : nth_error (upd l k x) k = Some y -> y = x.
Proof. revert k; induction l as [|a l IH]; intros [|k] H; cbn in *; try discriminate; [congruence|eauto]. Qed.
Lemma at_node_put j (P : node -> Prop) (s : sim) nd : n_id nd = j -> P nd -> at_node j P (s <| nodes := updZ (nodes s) (n_id nd - 1) nd |>).
Proof.
  intros Hid HP nd' H. cbn in H. rewrite Hid in H. unfold nthZ, updZ in H. destruct (j - 1 <? 0); [discriminate|].
  apply nth_error_upd_eq in H. congruence.
Qed.

Section Shift.
  Variable cf : config.

  Lemma okn_ex_change ex ids xc ex' ids' xc' nd : n_id nd <> ex -> n_id nd <> ex' -> okn cf ex ids xc nd -> okn cf ex' ids' xc' nd.
  Proof.
    intros H1 H2 H sc Hsc. destruct (H sc Hsc) as (A1 & A2 & _). split; [exact A1|]. split; [intros _; auto|]. intros F. contradiction.
  Qed.
  Lemma okn_ids_mono ex ids ids' xc nd : incl ids ids' -> okn cf ex ids xc nd -> okn cf ex ids' xc nd.
  Proof.
    intros Hi H sc Hsc. destruct (H sc Hsc) as (A1 & A2 & A3). split; [exact A1|]. split; [exact A2|].
    intros He. destruct (A3 He) as [B1 B2]. split; [|exact B2]. intros x Hx. apply Hi, B1, Hx.
  Qed.
  Lemma Inv_ids_mono ex ids ids' xc s : incl ids ids' -> Inv cf ex ids xc s -> Inv cf ex ids' xc s.
  Proof. intros Hi H k nd Hk. destruct (H k nd Hk) as [A B]. split; [exact A|]. eapply okn_ids_mono; eauto. Qed.
  (* narrowing the id list to what the excepted node holds now *)
  Lemma Inv_reids ex ids ids' xc s : Inv cf ex ids xc s -> at_node ex (fun nd => incl (sids (n_servers nd)) ids') s -> Inv cf ex ids' xc s.
  Proof.
    intros H Ha k nd Hk. destruct (H k nd Hk) as [A B]. split; [exact A|]. intros sc Hsc. destruct (B sc Hsc) as (A1 & A2 & A3).
    split; [exact A1|]. split; [exact A2|]. intros He. destruct (A3 He) as [B1 B2]. split; [|exact B2].
    apply Ha. unfold nthZ. rewrite <- He, A. replace (Z.of_nat k + 1 - 1) with (Z.of_nat k) by lia.
    destruct (Z.of_nat k <? 0) eqn:E; [apply Z.ltb_lt in E; lia|]. rewrite Nat2Z.id. exact Hk.
  Qed.
  Lemma Inv_enter ids0 xc0 j ids xc s nd : Inv cf 0 ids0 xc0 s -> n_id nd = j -> okn cf j ids xc nd ->
    Inv cf j ids xc (s <| nodes := updZ (nodes s) (n_id nd - 1) nd |>).
  Proof.
    intros HI Hid Hok k nd' Hk. cbn in Hk. unfold updZ in Hk.
    assert (Hold : forall k nd', nth_error (nodes s) k = Some nd' -> Z.of_nat k <> j - 1 -> n_id nd' = Z.of_nat k + 1 /\ okn cf j ids xc nd').
    { intros k0 nd0 H0 Hne. destruct (HI _ _ H0) as [A B]. split; [exact A|]. eapply okn_ex_change; [| |exact B]; lia. }
    destruct (n_id nd - 1 <? 0) eqn:E.
    - apply Z.ltb_lt in E. apply Hold; [exact Hk|lia].
    - apply Z.ltb_ge in E. destruct (nth_error_upd _ _ _ _ _ Hk) as [[-> ->] | H'].
      + split; [lia|exact Hok].
      + destruct (Nat.eq_dec k (Z.to_nat (n_id nd - 1))) as [->|Hne].
        * apply nth_error_upd_eq in Hk. rewrite Hk. split; [lia|exact Hok].
        * apply Hold; [exact H'|lia].
  Qed.
  Lemma Inv_exit j ids c p sc s : Inv cf j ids (Some c, p) s -> sched_of cf j = Some sc ->
    at_node j (fun nd => n_on (n_servers nd) = Z.max 0 c) s -> Inv cf 0 [] (None, 0) s.
  Proof.
    intros HI Hsc Ha k nd Hk. destruct (HI k nd Hk) as [A B]. split; [exact A|]. intros sc' Hsc'.
    destruct (B sc' Hsc') as (A1 & A2 & A3). split; [exact A1|]. split; [|intros F; lia]. intros _.
    destruct (Z.eq_dec (n_id nd) j) as [He|Hne]; [|apply A2, Hne].
    destruct (A3 He) as [_ Hc]. injection Hc as Hc _. unfold count_ok. rewrite Hc. cbn [numo]. apply Ha.
    unfold nthZ. rewrite <- He, A. replace (Z.of_nat k + 1 - 1) with (Z.of_nat k) by lia.
    destruct (Z.of_nat k <? 0) eqn:E; [apply Z.ltb_lt in E; lia|]. rewrite Nat2Z.id. exact Hk.
  Qed.

  (* retiring a server of the node whose shift is changing *)
  Lemma kill_server_ex j sc ids xc sid (Q : server -> Prop) L s a s' :
    sched_of cf j = Some sc -> Inv cf j ids xc s ->
    at_node j (fun nd => forall sv, In sv (n_servers nd) -> Q sv -> In (sv_id sv) (sid :: L)) s ->
    kill_server j sid s = Ok (a, s') ->
    Inv cf j ids xc s' /\ at_node j (fun nd => forall sv, In sv (n_servers nd) -> Q sv -> In (sv_id sv) L) s'.
  Proof.
    intros Hsc HI Ha H. unfold kill_server in H.
    minv H as t s1 E. apply gets_inv in E as [-> ->].
    minv H as nd s1 E. apply get_node_spec in E as [-> Hn]. destruct (Inv_get _ _ _ _ _ _ _ HI Hn) as [Hid Hok].
    minv H as sv0 s1 E. apply lift_inv in E as [Ef ->]. apply modify_inv in H as ->.
    destruct (Hok sc ltac:(rewrite Hid; exact Hsc)) as ([_ _ _ Hs] & _).
    destruct (srv_ok_del _ _ _ _ _ Hs Ef) as (D1 & D2 & D3 & _ & D5).
    split.
    - apply Inv_put; [exact HI|]. eapply okn_servers; [exact Hok|reflexivity..|]. intros pre hi Hs'. cbn.
      destruct (srv_ok_del _ _ _ _ _ Hs' Ef) as (F1 & F2 & _). split; [exact F1|]. split; [exact F2|]. intros F. exfalso. apply F. exact Hid.
    - apply at_node_put; [exact Hid|]. cbn. intros sv Hin HQ.
      specialize (Ha _ Hn sv (D5 _ Hin) HQ). destruct Ha as [E | Hin']; [|exact Hin'].
      exfalso. apply D3. pose proof (in_map sv_id _ _ Hin) as Hm. rewrite <- E in Hm. exact Hm.
  Qed.
  Lemma kill_loop_ex j sc ids xc (Q : server -> Prop) L : forall s a s',
    sched_of cf j = Some sc -> Inv cf j ids xc s ->
    at_node j (fun nd => forall sv, In sv (n_servers nd) -> Q sv -> In (sv_id sv) L) s ->
    forM_ L (kill_server j) s = Ok (a, s') ->
    Inv cf j ids xc s' /\ at_node j (fun nd => forall sv, In sv (n_servers nd) -> Q sv -> False) s'.
  Proof.
    induction L as [|sid L IH]; intros s a s' Hsc HI Ha H; cbn [forM_] in H.
    - apply ret_inv in H as [_ ->]. split; [exact HI|]. intros nd Hn sv Hin HQ. exact (Ha nd Hn sv Hin HQ).
    - minv H as u s1 E. destruct (kill_server_ex _ _ _ _ _ _ _ _ _ _ Hsc HI Ha E) as [HI1 Ha1]. eapply IH; eauto.
  Qed.

  Lemma at_node_get j (P : node -> Prop) s nd : at_node j P s -> nthZ (nodes s) (j - 1) = Some nd -> P nd.
  Proof. intros H Hn. apply H, Hn. Qed.

  (* non-pre-emptive: busy servers are flagged off duty, idle ones retired: nobody is left on duty *)
  Lemma take_off_nonpre j sc ids xc fl s a s' :
    sched_of cf j = Some sc -> sc_pre sc = 0 -> Inv cf j ids xc s ->
    take_servers_off_duty cf fl j (sc_pre sc) s = Ok (a, s') ->
    Inv cf j ids xc s' /\ at_node j (fun nd => n_on (n_servers nd) = 0) s'.
  Proof.
    intros Hsc Hpre HI H. unfold take_servers_off_duty in H. rewrite Hpre in H. cbn [Z.eqb] in H.
    minv H as a0 s1 E. apply get_node_spec in E as [-> Hn]. destruct (Inv_get _ _ _ _ _ _ _ HI Hn) as [Hid Hok].
    minv H as se s1 E. assert (s1 = s) as -> by (destruct (n_next_date a0); [apply ret_inv in E as [_ ->]; reflexivity|discriminate]). clear E.
    minv H as u s1 E. apply modify_inv in E as ->.
    set (g := fun sv : server => sv <| sv_shift_end := se |> <| sv_offduty := if sv_busy sv then true else sv_offduty sv |>) in *.
    destruct (Hok sc ltac:(rewrite Hid; exact Hsc)) as ([P1 P2 P3 (S1 & S2 & S3)] & Pc & Px).
    assert (Hids : sids (map g (n_servers a0)) = sids (n_servers a0)).
    { unfold sids. rewrite map_map. apply map_ext. intros sv. reflexivity. }
    assert (Hok1 : okn cf j ids xc (a0 <| n_servers := map g (n_servers a0) |>)).
    { intros sc' Hsc'. cbn in Hsc'. rewrite Hid in Hsc'. rewrite Hsc in Hsc'. injection Hsc' as <-. split; [|split].
      - constructor; cbn; try assumption. split; [rewrite Hids; exact S1|]. split.
        + apply Forall_map. exact S2.
        + apply Forall_map. rewrite Forall_forall in S3 |- *. intros sv Hin Ho. unfold g in Ho. cbn in Ho.
          destruct (sv_busy sv) eqn:Eb; [split; [exact Hpre|cbn; exact Eb]|]. destruct (S3 sv Hin Ho) as [_ F]. congruence.
      - intros F. exfalso. apply F. exact Hid.
      - intros _. cbn. rewrite Hids. apply Px. exact Hid. }
    eapply (kill_loop_ex j sc ids xc (fun sv => sv_offduty sv = false)) in H; [|exact Hsc|apply Inv_put; [exact HI|exact Hok1]|].
    - destruct H as [HI' Ha']. split; [exact HI'|]. intros nd Hnd. apply n_on_zero. intros sv Hin.
      destruct (sv_offduty sv) eqn:Eo; [reflexivity|]. exfalso. exact (Ha' nd Hnd sv Hin Eo).
    - apply at_node_put; [exact Hid|]. cbn. intros sv Hin Ho. apply in_map_iff in Hin as (sv0 & <- & Hin0).
      unfold g in Ho. cbn in Ho. change (sv_id (g sv0)) with (sv_id sv0). apply in_map. apply filter_In. split; [exact Hin0|].
      destruct (sv_busy sv0); [discriminate|reflexivity].
  Qed.

  (* pre-emptive: every service is interrupted and every server retired *)
  Lemma take_off_pre j sc ids xc fl s a s' :
    sched_of cf j = Some sc -> sc_pre sc <> 0 -> Inv cf j ids xc s ->
    take_servers_off_duty cf fl j (sc_pre sc) s = Ok (a, s') ->
    exists ids', Inv cf j ids' xc s' /\ at_node j (fun nd => n_on (n_servers nd) = 0) s'.
  Proof.
    intros Hsc Hpre HI H. unfold take_servers_off_duty in H. apply Z.eqb_neq in Hpre. rewrite Hpre in H.
    minv H as a0 s1 E. apply get_node_spec in E as [-> Hn]. destruct (Inv_get _ _ _ _ _ _ _ HI Hn) as [Hid Hok].
    minv H as se s1 E. assert (s1 = s) as -> by (destruct (n_next_date a0); [apply ret_inv in E as [_ ->]; reflexivity|discriminate]). clear E.
    exists (sids (n_servers a0)).
    assert (HI0 : Inv cf j (sids (n_servers a0)) xc s).
    { eapply Inv_reids; [exact HI|]. intros nd Hnd. rewrite Hn in Hnd. injection Hnd as <-. apply incl_refl. }
    minv H as u1 s1 E. destruct (kp_off_duty_loop cf j _ xc _ _ _ _ _ _ _ _ _ HI0 E) as [HI1 _].
    minv H as u2 s2 E0. destruct (kp_sort_interrupted cf j _ xc _ _ _ _ HI1 E0) as [HI2 _].
    eapply (kill_loop_ex j sc _ xc (fun _ => True)) in H; [|exact Hsc|exact HI2|].
    - destruct H as [HI' Ha']. split; [exact HI'|]. intros nd Hnd. apply n_on_zero. intros sv Hin. exfalso. exact (Ha' nd Hnd sv Hin I).
    - intros nd Hnd sv Hin _. destruct (Inv_get _ _ _ _ _ _ _ HI2 Hnd) as [Hid2 Hok2].
      destruct (Hok2 sc ltac:(rewrite Hid2; exact Hsc)) as (_ & _ & Px). destruct (Px Hid2) as [Pi _]. apply Pi. apply in_map. exact Hin.
  Qed.

  Lemma add_new_spec k : forall j sc ids xc m s a s', sched_of cf j = Some sc -> Inv cf j ids xc s ->
    at_node j (fun nd => n_on (n_servers nd) = m) s -> add_new_servers k j s = Ok (a, s') ->
    exists ids', Inv cf j ids' xc s' /\ at_node j (fun nd => n_on (n_servers nd) = m + Z.of_nat k) s'.
  Proof.
    induction k as [|k IH]; intros j sc ids xc m s a s' Hsc HI Ha H; cbn [add_new_servers] in H.
    - apply ret_inv in H as [_ ->]. exists ids. split; [exact HI|]. intros nd Hnd. rewrite (Ha nd Hnd). lia.
    - minv H as t s1 E. apply gets_inv in E as [-> ->]. minv H as u s1 E. unfold upd_node in E.
      minv E as a2 s2 E0. apply get_node_spec in E0 as [-> Hn]. destruct (Inv_get _ _ _ _ _ _ _ HI Hn) as [Hid Hok].
      apply modify_inv in E as ->.
      set (new := mkServer (n_highest a2 + 1) None false None 0 None 0 false (now s) None) in *.
      destruct (Hok sc ltac:(rewrite Hid; exact Hsc)) as ([P1 P2 P3 (S1 & S2 & S3)] & Pc & Px).
      eapply (IH j sc (ids ++ [n_highest a2 + 1]) xc (m + 1)) in H; [| exact Hsc | |].
      + destruct H as (ids' & HI' & Ha'). exists ids'. split; [exact HI'|]. intros nd Hnd. rewrite (Ha' nd Hnd). lia.
      + apply Inv_put; [eapply Inv_ids_mono; [|exact HI]; apply incl_appl, incl_refl|].
        intros sc' Hsc'. cbn in Hsc'. rewrite Hid in Hsc'. rewrite Hsc in Hsc'. injection Hsc' as <-. split; [|split].
        * constructor; cbn; try assumption. split; [|split].
          -- rewrite sids_app. cbn. apply NoDup_app_single; [exact S1|]. intros Hin. unfold sids in Hin. apply in_map_iff in Hin as (sv & Es & Hin).
             rewrite Forall_forall in S2. specialize (S2 sv Hin). unfold new in Es. cbn in Es. lia.
          -- apply Forall_app. split; [eapply Forall_impl; [|exact S2]; intros sv Hs; cbn in Hs |- *; lia|]. constructor; [cbn; lia|constructor].
          -- apply Forall_app. split; [exact S3|]. constructor; [intros F; cbn in F; discriminate|constructor].
        * intros F. exfalso. apply F. exact Hid.
        * intros _. cbn. split; [|apply Px; exact Hid]. rewrite sids_app. apply incl_app; [apply incl_appl, Px, Hid|apply incl_appr, incl_refl].
      + apply at_node_put; [exact Hid|]. cbn. rewrite n_on_app, n_on_cons. cbn. rewrite (Ha _ Hn). unfold n_on. cbn. lia.
  Qed.

  (* ---------- the invariant of C12 and the shift change ---------- *)
  Definition SchedInv (s : sim) : Prop := Inv cf 0 [] (None, 0) s.

  (* (b) change_shift at generator position k: the position advances by one, c becomes C k, the next change is due at
     D (k+1), exactly max 0 (C k) servers are on duty afterwards, and the invariant holds again for every node *)
  Theorem change_shift_spec j s a s' nd : SchedInv s -> nthZ (nodes s) (j - 1) = Some nd -> change_shift cf j s = Ok (a, s') ->
    exists sc, sched_of cf j = Some sc /\ SchedInv s' /\
      at_node j (fun nd' => n_spos nd' = n_spos nd + 1 /\ n_c nd' = Some (C (sc_b sc) (sc_v sc) (Z.to_nat (n_spos nd))) /\
                            n_next_shift nd' = Some (Dk sc (S (Z.to_nat (n_spos nd)))) /\
                            n_on (n_servers nd') = Z.max 0 (C (sc_b sc) (sc_v sc) (Z.to_nat (n_spos nd)))) s'.
  Proof.
    intros HI Hn H. unfold change_shift in H.
    minv H as nc s1 E. unfold ncfg_of in E. apply lift_inv in E as [Hnc ->].
    destruct (nc_srv nc) as [|sc|sl] eqn:Es; try discriminate H.
    assert (Hsc : sched_of cf j = Some sc) by (unfold sched_of; rewrite Hnc, Es; reflexivity).
    exists sc. split; [exact Hsc|].
    minv H as nd0 s1 E. apply get_node_spec in E as [-> Hn0]. rewrite Hn in Hn0. injection Hn0 as <-.
    destruct (Inv_get _ _ _ _ _ _ _ HI Hn) as [Hid Hok].
    minv H as u0 s1 E. assert (s1 = s) as -> by (destruct (sc_b sc); [discriminate E|apply ret_inv in E as [_ ->]; reflexivity]). clear E.
    minv H as u1 s1 E. apply modify_inv in E as ->.
    minv H as fl s1 E. apply gets_inv in E as [-> ->].
    set (pos := Z.to_nat (n_spos nd)) in *.
    set (newc := nth (pos mod length (sc_b sc)) (sc_v sc) 0) in *.
    assert (Enewc : newc = C (sc_b sc) (sc_v sc) pos) by reflexivity.
    destruct (Hok sc ltac:(rewrite Hid; exact Hsc)) as ([P1 P2 P3 P4] & Pc & _).
    assert (Epos : Z.to_nat (n_spos nd + 1) = S pos) by (unfold pos; lia).
    set (nd1 := nd <| n_spos := n_spos nd + 1 |> <| n_next_shift := Some (gen_date (sc_b sc) (sc_off sc) pos) |> <| n_c := Some newc |>) in *.
    assert (Hok1 : okn cf j (sids (n_servers nd)) (Some newc, n_spos nd + 1) nd1).
    { intros sc' Hsc'. cbn in Hsc'. rewrite Hid in Hsc'. rewrite Hsc in Hsc'. injection Hsc' as <-. split; [|split].
      - constructor; cbn.
        + lia.
        + rewrite Epos. reflexivity.
        + rewrite Epos. reflexivity.
        + exact P4.
      - intros F. exfalso. apply F. exact Hid.
      - intros _. cbn. split; [apply incl_refl|reflexivity]. }
    pose proof (Inv_enter _ _ j _ _ s nd1 HI Hid Hok1) as HI1.
    minv H as u2 s2 E.
    assert (Hoff : exists ids', Inv cf j ids' (Some newc, n_spos nd + 1) s2 /\ at_node j (fun nd' => n_on (n_servers nd') = 0) s2).
    { destruct (Z.eq_dec (sc_pre sc) 0) as [Hp|Hp].
      - eexists. eapply take_off_nonpre; eauto.
      - eapply take_off_pre; eauto. }
    destruct Hoff as (ids2 & HI2 & Ha2). clear E.
    minv H as u3 s3 E.
    destruct (add_new_spec _ _ _ _ _ _ _ _ _ Hsc HI2 Ha2 E) as (ids3 & HI3 & Ha3). clear E.
    assert (HI3' : SchedInv s3).
    { eapply Inv_exit; [exact HI3|exact Hsc|]. intros nd' Hnd'. rewrite (Ha3 nd' Hnd'). lia. }
    destruct (kp_bsip_change_shift cf _ _ _ j _ _ _ HI3' H) as [HI4 _].
    destruct (kp_bsip_change_shift cf _ _ _ j _ _ _ HI3 H) as [HI4x _].
    split; [exact HI4|]. intros nd' Hnd'.
    destruct (Inv_get _ _ _ _ _ _ _ HI4x Hnd') as [Hid' Hokx]. destruct (Hokx sc ltac:(rewrite Hid'; exact Hsc)) as ([Q1 Q2 Q3 Q4] & _ & Qx).
    destruct (Qx Hid') as [_ Qp]. injection Qp as Qc Qs.
    destruct (Inv_get _ _ _ _ _ _ _ HI4 Hnd') as [_ Hok0]. destruct (Hok0 sc ltac:(rewrite Hid'; exact Hsc)) as (_ & Qn & _).
    split; [exact Qs|]. split; [rewrite Qc, Enewc; reflexivity|]. split.
    - rewrite Q2, Qs, Epos. reflexivity.
    - assert (Hj : 1 <= j) by (unfold nthZ in Hnd'; destruct (j - 1 <? 0) eqn:Ej; [discriminate Hnd'|apply Z.ltb_ge in Ej; lia]).
      unfold count_ok in Qn. rewrite Qn by lia. rewrite Qc, Enewc. reflexivity.
  Qed.

  Lemma kp_change_shift j : kp cf 0 [] (None, 0) (change_shift cf j) T.
  Proof.
    intros s a s' HI H. split; [|exact I].
    assert (exists nd, nthZ (nodes s) (j - 1) = Some nd) as [nd Hn].
    { unfold change_shift in H. minv H as nc s1 E. unfold ncfg_of in E. apply lift_inv in E as [_ ->].
      destruct (nc_srv nc); try discriminate H. minv H as nd0 s1 E. apply get_node_spec in E as [_ Hn0]. eauto. }
    destruct (change_shift_spec _ _ _ _ _ HI Hn H) as (sc & _ & HI' & _). exact HI'.
  Qed.

  Lemma kp_node_have_event j : kp cf 0 [] (None, 0) (node_have_event cf j) T.
  Proof.
    unfold node_have_event. apply kp_bind_node; intros nd _ _.
    repeat match goal with |- kp _ _ _ _ (if ?b then _ else _) _ => destruct b end;
      first [apply kp_finish_service | apply kp_change_shift | apply kp_renege | apply kp_ccww | apply kp_slotted_service | apply kp_ret].
  Qed.

  Theorem event_step_sched : kp cf 0 [] (None, 0) (event_step cf) T.
  Proof.
    unfold event_step.
    apply kp_bind_T; [apply kp_modify; intros ?; reflexivity|]. intros _.
    apply kp_bind_T; [apply kp_gets|]. intros k.
    apply kp_bind_T; [destruct (k =? 0); [apply kp_arrival_have_event|apply kp_node_have_event]|]. intros _.
    apply kp_bind_T; [apply kp_gets|]. intros ns.
    apply kp_bind_T; [apply kp_update_all|]. intros _. apply kp_find_next_active_node.
  Qed.

  (* (a) the invariant holds at every event boundary, for every configuration and every oracle *)
  Theorem run_many_sched : forall ds s s', SchedInv s -> run_many cf s ds = Ok s' -> SchedInv s'.
  Proof.
    induction ds as [|d r IH]; intros s s' HI H; cbn [run_many] in H; [injection H as <-; exact HI|].
    destruct (event_step cf (s <| dr := d |>)) as [[u s1]| |] eqn:E; try discriminate.
    eapply IH; [|exact H]. eapply event_step_sched; [|exact E]. eapply Inv_nodes; [|exact HI]. reflexivity.
  Qed.
End Shift.

(* ---------------------------------------------------------------------------------------------------------------- *)
(* the clock and the next shift change (established afresh by the tail of every event)                               *)
(* ---------------------------------------------------------------------------------------------------------------- *)
(* a <= b on dates, None = infinity *)
Definition dle (a b : option Z) : Prop := date_lt b a = false.
Lemma dle_refl a : dle a a.
Proof. unfold dle. destruct a; cbn; [apply Z.ltb_irrefl|reflexivity]. Qed.
Lemma dle_trans a b c : dle a b -> dle b c -> dle a c.
Proof.
  unfold dle. destruct a as [x|], b as [y|], c as [z|]; cbn; intros H1 H2; try reflexivity; try discriminate.
  apply Z.ltb_ge in H1, H2. apply Z.ltb_ge. lia.
Qed.
Lemma dle_of_lt a b : date_lt a b = true -> dle a b.
Proof. unfold dle. destruct a as [x|], b as [y|]; cbn; intros H; try reflexivity; try discriminate. apply Z.ltb_lt in H. apply Z.ltb_ge. lia. Qed.
Lemma dle_of_eqb a b : date_eqb a b = true -> a = b.
Proof. destruct a as [x|], b as [y|]; cbn; intros H; try reflexivity; try discriminate. apply Z.eqb_eq in H. congruence. Qed.

Definition cdate (c : Z * (option Z * list Z)) : option Z := fst (snd c).
Lemma dne_le cands : forall best,
  dle (cdate (decide_next_event cands best)) (cdate best) /\
  (forall c, In c cands -> dle (cdate (decide_next_event cands best)) (cdate c)).
Proof.
  induction cands as [|c r IH]; intros best; cbn [decide_next_event].
  - split; [apply dle_refl|intros c []].
  - fold (cdate c). fold (cdate best). destruct (date_lt (cdate c) (cdate best)) eqn:E.
    + destruct (IH c) as [A B]. split; [eapply dle_trans; [exact A|apply dle_of_lt, E]|].
      intros c' [<- | Hin]; [exact A|apply B, Hin].
    + destruct (IH best) as [A B]. split; [exact A|]. intros c' [<- | Hin]; [eapply dle_trans; [exact A|exact E]|apply B, Hin].
Qed.
Lemma dne_in cands : forall best, decide_next_event cands best = best \/ In (decide_next_event cands best) cands.
Proof.
  induction cands as [|c r IH]; intros best; cbn [decide_next_event]; [left; reflexivity|].
  destruct (date_lt (fst (snd c)) (fst (snd best))).
  - destruct (IH c) as [-> | H]; right; [left; reflexivity|right; exact H].
  - destruct (IH best) as [-> | H]; [left; reflexivity|right; right; exact H].
Qed.

Lemma scan_active_spec (full : list (option Z)) : forall ds pre k0 best acc,
  full = pre ++ ds -> k0 = Z.of_nat (length pre) ->
  (forall x, In x pre -> dle best x) ->
  (forall k, In k acc -> 0 <= k /\ nth_error full (Z.to_nat k) = Some best) ->
  (forall x, In x full -> dle (fst (scan_active k0 ds best acc)) x) /\
  (forall k, In k (snd (scan_active k0 ds best acc)) -> 0 <= k /\ nth_error full (Z.to_nat k) = Some (fst (scan_active k0 ds best acc))).
Proof.
  induction ds as [|d r IH]; intros pre k0 best acc Hf Hk Hpre Hacc; cbn [scan_active].
  - cbn. rewrite app_nil_r in Hf. rewrite <- Hf in Hpre. split; assumption.
  - assert (Hf' : full = (pre ++ [d]) ++ r) by (rewrite <- app_assoc; exact Hf).
    assert (Hk' : k0 + 1 = Z.of_nat (length (pre ++ [d]))) by (rewrite app_length; cbn; lia).
    assert (Hnth : nth_error full (Z.to_nat k0) = Some d).
    { rewrite Hf, Hk, Nat2Z.id, nth_error_app2 by lia. rewrite Nat.sub_diag. reflexivity. }
    destruct (date_lt d best) eqn:E1.
    + apply (IH _ _ _ _ Hf' Hk').
      * intros x Hx. apply in_app_or in Hx as [Hx | [<- | []]]; [eapply dle_trans; [apply dle_of_lt, E1|apply Hpre, Hx]|apply dle_refl].
      * intros k [<- | []]. split; [lia|exact Hnth].
    + destruct (date_eqb d best) eqn:E2.
      * apply dle_of_eqb in E2. apply (IH _ _ _ _ Hf' Hk').
        -- intros x Hx. apply in_app_or in Hx as [Hx | [<- | []]]; [apply Hpre, Hx|rewrite E2; apply dle_refl].
        -- intros k Hin. apply in_app_or in Hin as [Hin | [<- | []]]; [apply Hacc, Hin|]. split; [lia|rewrite <- E2; exact Hnth].
      * apply (IH _ _ _ _ Hf' Hk').
        -- intros x Hx. apply in_app_or in Hx as [Hx | [<- | []]]; [apply Hpre, Hx|exact E1].
        -- exact Hacc.
Qed.

Lemma upd_map_same {A B} (f : A -> B) (l : list A) k x y : nth_error l k = Some y -> f x = f y -> map f (upd l k x) = map f l.
Proof. revert k; induction l as [|a l IH]; intros [|k] H E; cbn in *; try discriminate; [injection H as ->; congruence|f_equal; eauto]. Qed.

Section Next.
  Variable cf : config.

  Definition Idx (s : sim) : Prop := forall k nd, nth_error (nodes s) k = Some nd -> n_id nd = Z.of_nat k + 1.
  Lemma SchedInv_Idx s : SchedInv cf s -> Idx s.
  Proof. intros H k nd Hk. apply (H k nd Hk). Qed.

  (* what update_next_event_date leaves behind at its node *)
  Definition NN (nc : ncfg) (nd : node) : Prop :=
    (forall sc, nc_srv nc = SSched sc -> dle (n_next_date nd) (n_next_shift nd)) /\
    (n_next_type nd = 1 -> n_next_date nd = n_next_shift nd).
  Definition NNdone (done : list Z) (s : sim) : Prop :=
    forall k nd nc, nth_error (nodes s) k = Some nd -> nthZ (cf_nodes cf) (n_id nd - 1) = Some nc -> In (n_id nd) done -> NN nc nd.

  Lemma update_next_event_date_next j done s u s' : Idx s -> NNdone done s -> update_next_event_date cf j s = Ok (u, s') ->
    Idx s' /\ NNdone (j :: done) s' /\ map n_id (nodes s') = map n_id (nodes s).
  Proof.
    intros HI HN H. unfold update_next_event_date in H.
    minv H as nd s1 E. apply get_node_spec in E as [-> Hn].
    minv H as nc s1 E. unfold ncfg_of in E. apply lift_inv in E as [Hnc ->].
    minv H as t s1 E. apply gets_inv in E as [-> ->].
    minv H as il s1 E. apply gets_inv in E as [-> ->].
    minv H as rn s1 E.
    assert (s1 = s) as ->.
    { destruct (negb (nd_inf nd) && nc_reneging nc); [apply lift_inv in E as [_ ->]|apply ret_inv in E as [_ ->]]; reflexivity. }
    clear E.
    assert (Hj : n_id nd = j /\ 0 <= j - 1 /\ nth_error (nodes s) (Z.to_nat (j - 1)) = Some nd).
    { unfold nthZ in Hn. destruct (j - 1 <? 0) eqn:Ej; [discriminate Hn|]. apply Z.ltb_ge in Ej. specialize (HI _ _ Hn). split; [lia|]. split; [exact Ej|exact Hn]. }
    destruct Hj as (Hid & Hj0 & Hnth).
    assert (Hgen : forall nd', n_id nd' = j -> NN nc nd' -> s' = s <| nodes := updZ (nodes s) (n_id nd' - 1) nd' |> ->
              Idx s' /\ NNdone (j :: done) s' /\ map n_id (nodes s') = map n_id (nodes s)).
    { intros nd' Hid' HNN ->. cbn. rewrite Hid'. unfold updZ. destruct (j - 1 <? 0) eqn:Ej; [apply Z.ltb_lt in Ej; lia|].
      split; [|split].
      - intros k x Hk. destruct (nth_error_upd _ _ _ _ _ Hk) as [[-> ->] | Hk']; [lia|apply HI, Hk'].
      - intros k x nc' Hk Hnc' Hin. destruct (Nat.eq_dec k (Z.to_nat (j - 1))) as [->|Hne].
        + apply nth_error_upd_eq in Hk. rewrite Hk in *. rewrite Hid' in Hnc'. rewrite Hnc in Hnc'. injection Hnc' as <-. exact HNN.
        + destruct (nth_error_upd _ _ _ _ _ Hk) as [[-> _] | Hk']; [contradiction|].
          destruct Hin as [Hin | Hin]; [specialize (HI _ _ Hk'); lia|]. eapply HN; eauto.
      - eapply upd_map_same; [exact Hnth|congruence]. }
    destruct (nc_reneging nc || cf_dyn cf || nc_sched nc) eqn:Eb.
    - match type of H with context [decide_next_event ?c ?b] => set (cands := c) in *; set (best := b) in * end.
      pose proof (dne_le cands best) as [_ Hle]. pose proof (dne_in cands best) as Hin.
      destruct (decide_next_event cands best) as [ty [d l]] eqn:Ed.
      apply modify_inv in H. eapply Hgen; [| |exact H]; [exact Hid|]. split; cbn.
      + intros sc Hs. apply (Hle (1, (n_next_shift nd, []))). unfold cands. rewrite Hs. left. reflexivity.
      + intros Hty. rewrite Hty in *. destruct Hin as [Hin | Hin]; [unfold best in Hin; discriminate Hin|].
        unfold cands in Hin. apply in_app_or in Hin as [Hin | Hin].
        * destruct (nc_srv nc) as [|sc|sl]; cbn in Hin; [destruct Hin|destruct Hin as [Hin | []]; congruence|destruct Hin as [Hin | []]; discriminate Hin].
        * cbn in Hin. destruct Hin as [Hin | [Hin | [Hin | []]]]; discriminate Hin.
    - apply modify_inv in H. eapply Hgen; [| |exact H]; [exact Hid|]. split; cbn.
      + intros sc Hs. apply orb_false_iff in Eb as [_ Eb]. unfold nc_sched in Eb. rewrite Hs in Eb. discriminate Eb.
      + intros F. discriminate F.
  Qed.

  Lemma update_all_next js : forall done s u s', Idx s -> NNdone done s -> update_all cf js s = Ok (u, s') ->
    Idx s' /\ NNdone (js ++ done) s' /\ map n_id (nodes s') = map n_id (nodes s).
  Proof.
    induction js as [|j r IH]; intros done s u s' HI HN H; cbn [update_all] in H.
    - apply ret_inv in H as [_ ->]. auto.
    - minv H as u1 s1 E. destruct (update_next_event_date_next _ _ _ _ _ HI HN E) as (HI1 & HN1 & Em1).
      destruct (IH _ _ _ _ HI1 HN1 H) as (HI2 & HN2 & Em2). split; [exact HI2|]. split; [|congruence].
      intros k nd nc Hk Hnc Hin. eapply HN2; eauto. cbn in Hin. apply in_or_app. destruct Hin as [<- | Hin]; [right; left; reflexivity|].
      apply in_app_or in Hin as [Hin | Hin]; [left; exact Hin|right; right; exact Hin].
  Qed.

  (* the boundary invariant: the clock has not passed the next shift change of any scheduled node, and a node that is about
     to change shift does so at exactly that date *)
  Definition NextInv (s : sim) : Prop :=
    forall j nd nc sc d, nthZ (nodes s) (j - 1) = Some nd -> nthZ (cf_nodes cf) (j - 1) = Some nc -> nc_srv nc = SSched sc ->
      n_next_shift nd = Some d ->
      now s <= d /\ (next_active s = j -> n_next_type nd = 1 -> now s = d).

  Lemma find_next_active_node_next s u s' : Idx s -> NNdone (map n_id (nodes s)) s -> find_next_active_node s = Ok (u, s') -> NextInv s'.
  Proof.
    intros HI HN H. unfold find_next_active_node in H.
    minv H as s0 s1 E. apply gets_inv in E as [-> ->].
    set (full := a_next_date (arr s) :: map n_next_date (nodes s)) in *.
    pose proof (scan_active_spec full full [] 0 None [] eq_refl eq_refl ltac:(intros x []) ltac:(intros k [])) as [Hmin Hc].
    destruct (scan_active 0 full None []) as [dm cands] eqn:Es. cbn [fst snd] in Hmin, Hc.
    minv H as ka s1 E.
    assert (Hka : nodes s1 = nodes s /\ In ka cands).
    { destruct cands as [|c0 [|c1 cr]]; [discriminate E|apply ret_inv in E as [-> ->]; split; [reflexivity|left; reflexivity]|].
      unfold choice_uniform in E. minv E as uu s2 E1. apply lift_inv in E as [En ->].
      unfold draw_unif in E1. destruct (d_unif (dr s)) as [|x0 r0]; [discriminate E1|]. injection E1 as _ <-.
      split; [reflexivity|eapply nth_error_In; exact En]. }
    destruct Hka as [En1 Hin]. clear E. apply modify_inv in H.
    assert (Hnodes : nodes s' = nodes s) by (rewrite H; cbn; exact En1).
    assert (Hact : next_active s' = ka) by (rewrite H; reflexivity).
    assert (Hnow : forall t, dm = Some t -> now s' = t) by (intros t ->; rewrite H; reflexivity).
    clear H. intros j nd nc sc d Hn Hnc Hs Hd. rewrite Hnodes in Hn.
    unfold nthZ in Hn. destruct (j - 1 <? 0) eqn:Ej; [discriminate Hn|]. apply Z.ltb_ge in Ej.
    pose proof (HI _ _ Hn) as Hid.
    assert (HNN : NN nc nd).
    { eapply HN; [exact Hn| |apply in_map; eapply nth_error_In; exact Hn]. replace (n_id nd - 1) with (j - 1) by lia. exact Hnc. }
    destruct HNN as [N1 N2]. specialize (N1 sc Hs). rewrite Hd in N1.
    assert (Hfull : In (n_next_date nd) full) by (right; apply in_map; eapply nth_error_In; exact Hn).
    pose proof (dle_trans _ _ _ (Hmin _ Hfull) N1) as Hle.
    destruct dm as [t|]; [|discriminate Hle]. unfold dle in Hle. cbn in Hle. apply Z.ltb_ge in Hle.
    rewrite (Hnow t eq_refl). split; [exact Hle|]. intros Hj Hty.
    rewrite Hact in Hj. rewrite Hj in Hin. destruct (Hc j Hin) as [_ Hnth].
    replace (Z.to_nat j) with (S (Z.to_nat (j - 1))) in Hnth by lia. unfold full in Hnth. cbn [nth_error] in Hnth.
    rewrite nth_error_map, Hn in Hnth. cbn in Hnth. injection Hnth as Hnd.
    specialize (N2 Hty). congruence.
  Qed.

  (* every executed event re-establishes NextInv *)
  Theorem event_step_next s u s' : SchedInv cf s -> event_step cf s = Ok (u, s') -> NextInv s'.
  Proof.
    intros HI H. unfold event_step in H.
    minv H as u0 s1 E. apply modify_inv in E as ->.
    assert (HI1 : SchedInv cf (s <| log := [] |>)) by (eapply Inv_nodes; [|exact HI]; reflexivity).
    set (s1 := s <| log := [] |>) in *.
    minv H as k s2 E. apply gets_inv in E as [-> ->].
    minv H as u1 s2 E.
    assert (HI2 : SchedInv cf s2).
    { destruct (next_active s1 =? 0); [eapply kp_arrival_have_event|eapply kp_node_have_event]; eauto. }
    clear E. minv H as ns s3 E. apply gets_inv in E as [-> ->].
    minv H as u2 s3 E.
    destruct (update_all_next _ [] _ _ _ (SchedInv_Idx _ HI2) ltac:(intros ? ? ? ? ? []) E) as (HI3 & HN3 & Em).
    eapply find_next_active_node_next; [exact HI3| |exact H]. rewrite Em. rewrite app_nil_r in HN3. exact HN3.
  Qed.

  Theorem run_many_next : forall ds s s', SchedInv cf s -> NextInv s -> run_many cf s ds = Ok s' -> NextInv s'.
  Proof.
    induction ds as [|d r IH]; intros s s' HI HN H; cbn [run_many] in H; [injection H as <-; exact HN|].
    destruct (event_step cf (s <| dr := d |>)) as [[u s1]| |] eqn:E; try discriminate.
    assert (HI0 : SchedInv cf (s <| dr := d |>)) by (eapply Inv_nodes; [|exact HI]; reflexivity).
    eapply IH; [|eapply event_step_next; eauto|exact H]. eapply event_step_sched; eauto.
  Qed.
End Next.

(* ---------------------------------------------------------------------------------------------------------------- *)
(* what the invariants say, executable twins, corollaries                                                             *)
(* ---------------------------------------------------------------------------------------------------------------- *)
Fixpoint nodupb (l : list Z) : bool := match l with [] => true | x :: r => negb (memZ x r) && nodupb r end.
Lemma nodupb_sound l : nodupb l = true -> NoDup l.
Proof.
  induction l as [|x r IH]; cbn; intros H; [constructor|]. apply andb_prop in H as [H1 H2]. constructor; [|apply IH, H2].
  intros Hin. apply memZ_In in Hin. rewrite Hin in H1. discriminate H1.
Qed.

Definition srv_ok_b (pre hi : Z) (l : list server) : bool :=
  nodupb (sids l) && forallb (fun sv => sv_id sv <=? hi) l &&
  forallb (fun sv => negb (sv_offduty sv) || ((pre =? 0) && sv_busy sv)) l.
Lemma srv_ok_b_sound pre hi l : srv_ok_b pre hi l = true -> srv_ok pre hi l.
Proof.
  unfold srv_ok_b. intros H. apply andb_prop in H as [H H3]. apply andb_prop in H as [H1 H2].
  split; [apply nodupb_sound, H1|]. split.
  - apply Forall_forall. intros sv Hin. rewrite forallb_forall in H2. apply Z.leb_le, H2, Hin.
  - apply Forall_forall. intros sv Hin Ho. rewrite forallb_forall in H3. specialize (H3 sv Hin). rewrite Ho in H3. cbn in H3.
    apply andb_prop in H3 as [A B]. apply Z.eqb_eq in A. auto.
Qed.
Definition sched_ok_b (sc : schedcfg) (nd : node) : bool :=
  (0 <=? n_spos nd) && date_eqb (n_next_shift nd) (Some (Dk sc (Z.to_nat (n_spos nd)))) &&
  date_eqb (n_c nd) (Some (Cprev sc (Z.to_nat (n_spos nd)))) && srv_ok_b (sc_pre sc) (n_highest nd) (n_servers nd).
Lemma sched_ok_b_sound sc nd : sched_ok_b sc nd = true -> sched_ok sc nd.
Proof.
  unfold sched_ok_b. intros H. apply andb_prop in H as [H H4]. apply andb_prop in H as [H H3]. apply andb_prop in H as [H1 H2].
  constructor; [apply Z.leb_le, H1|apply dle_of_eqb, H2|apply dle_of_eqb, H3|apply srv_ok_b_sound, H4].
Qed.
Definition count_ok_b (nd : node) : bool := n_on (n_servers nd) =? Z.max 0 (numo (n_c nd)).

Section Main.
  Variable cf : config.

  Definition node_b (nd : node) : bool :=
    match sched_of cf (n_id nd) with None => true | Some sc => sched_ok_b sc nd && count_ok_b nd end.
  Fixpoint nodes_b (k : Z) (l : list node) : bool :=
    match l with [] => true | nd :: r => (n_id nd =? k) && node_b nd && nodes_b (k + 1) r end.
  Definition sched_inv_b (s : sim) : bool := nodes_b 1 (nodes s).

  Lemma nodes_b_sound l : forall k0, nodes_b k0 l = true ->
    forall k nd, nth_error l k = Some nd -> n_id nd = k0 + Z.of_nat k /\ node_b nd = true.
  Proof.
    induction l as [|x r IH]; intros k0 H [|k] nd Hk; cbn in *; try discriminate.
    - injection Hk as ->. apply andb_prop in H as [H _]. apply andb_prop in H as [H1 H2]. apply Z.eqb_eq in H1. split; [lia|exact H2].
    - apply andb_prop in H as [_ H]. destruct (IH _ H _ _ Hk) as [A B]. split; [lia|exact B].
  Qed.
  Theorem sched_inv_b_sound s : sched_inv_b s = true -> SchedInv cf s.
  Proof.
    intros H k nd Hk. destruct (nodes_b_sound _ _ H _ _ Hk) as [A B]. split; [lia|]. intros sc Hsc.
    unfold node_b in B. rewrite Hsc in B. apply andb_prop in B as [B1 B2].
    split; [apply sched_ok_b_sound, B1|]. split; [intros _; apply Z.eqb_eq, B2|intros F; lia].
  Qed.

  (* the invariant spelt out for one scheduled node *)
  Theorem SchedInv_means s j nd sc : SchedInv cf s -> nthZ (nodes s) (j - 1) = Some nd -> sched_of cf j = Some sc ->
    n_id nd = j /\ 0 <= n_spos nd /\
    n_next_shift nd = Some (Dk sc (Z.to_nat (n_spos nd))) /\
    n_c nd = Some (Cprev sc (Z.to_nat (n_spos nd))) /\
    n_on (n_servers nd) = Z.max 0 (Cprev sc (Z.to_nat (n_spos nd))) /\
    NoDup (sids (n_servers nd)) /\
    (forall sv, In sv (n_servers nd) -> sv_id sv <= n_highest nd) /\
    (forall sv, In sv (n_servers nd) -> sv_offduty sv = true -> sc_pre sc = 0 /\ sv_busy sv = true).
  Proof.
    intros HI Hn Hsc. destruct (Inv_get _ _ _ _ _ _ _ HI Hn) as [Hid Hok].
    destruct (Hok sc ltac:(rewrite Hid; exact Hsc)) as ([P1 P2 P3 (S1 & S2 & S3)] & Pc & _).
    assert (Hj : 1 <= j) by (unfold nthZ in Hn; destruct (j - 1 <? 0) eqn:Ej; [discriminate Hn|apply Z.ltb_ge in Ej; lia]).
    repeat split; try assumption.
    - unfold count_ok in Pc. rewrite Pc by lia. rewrite P3. reflexivity.
    - intros sv Hin. rewrite Forall_forall in S2. apply S2, Hin.
    - rewrite Forall_forall in S3. apply (S3 sv H H0).
    - rewrite Forall_forall in S3. apply (S3 sv H H0).
  Qed.

  (* zero servers scheduled: every server still in the list is finishing overtime (non-pre-emptive) / there is none (pre-emptive) *)
  Corollary zero_scheduled s j nd sc : SchedInv cf s -> nthZ (nodes s) (j - 1) = Some nd -> sched_of cf j = Some sc ->
    Cprev sc (Z.to_nat (n_spos nd)) <= 0 ->
    (forall sv, In sv (n_servers nd) -> sv_offduty sv = true /\ sv_busy sv = true /\ sc_pre sc = 0) /\
    (sc_pre sc <> 0 -> n_servers nd = []).
  Proof.
    intros HI Hn Hsc Hc. destruct (SchedInv_means _ _ _ _ HI Hn Hsc) as (_ & _ & _ & _ & Hon & _ & _ & Hoff).
    assert (Hall : forall sv, In sv (n_servers nd) -> sv_offduty sv = true) by (apply n_on_zero_inv; lia).
    split.
    - intros sv Hin. destruct (Hoff sv Hin (Hall sv Hin)). auto.
    - intros Hp. destruct (n_servers nd) as [|sv r]; [reflexivity|]. exfalso. apply Hp. apply (Hoff sv (or_introl eq_refl)). apply Hall. left. reflexivity.
  Qed.

  (* the clock and the timetable *)
  Theorem clock_and_shift s j nd sc : SchedInv cf s -> NextInv cf s -> nthZ (nodes s) (j - 1) = Some nd -> sched_of cf j = Some sc ->
    now s <= Dk sc (Z.to_nat (n_spos nd)) /\
    (next_active s = j -> n_next_type nd = 1 -> now s = Dk sc (Z.to_nat (n_spos nd))).
  Proof.
    intros HI HN Hn Hsc. destruct (SchedInv_means _ _ _ _ HI Hn Hsc) as (_ & _ & Hnext & _).
    unfold sched_of in Hsc. destruct (nthZ (cf_nodes cf) (j - 1)) as [nc|] eqn:Hnc; [|discriminate Hsc].
    destruct (nc_srv nc) as [|sc'|] eqn:Es; try discriminate Hsc. injection Hsc as ->.
    exact (HN j nd nc sc _ Hn Hnc Es Hnext).
  Qed.

  (* a node whose next event is a shift change executes change_shift *)
  Lemma node_have_event_shift s j nd : nthZ (nodes s) (j - 1) = Some nd -> 1 <= j -> n_next_type nd = 1 ->
    node_have_event cf j s = change_shift cf j s.
  Proof.
    intros Hn Hj Hty. unfold node_have_event, bind at 1. unfold get_node. destruct (j <? 1) eqn:E; [apply Z.ltb_lt in E; lia|].
    rewrite Hn, Hty. reflexivity.
  Qed.

  (* (a)+(b) over runs: after any number of events every scheduled node sits at some position k of its timetable with the
     prescribed next date, c and number of servers on duty, the clock has not passed D k, and if the next event is this
     node's shift change then the clock is exactly D k and that event moves the node to position k+1 with c = C k *)
  Theorem shift_changes_follow_timetable ds s s1 : SchedInv cf s -> NextInv cf s -> run_many cf s ds = Ok s1 ->
    SchedInv cf s1 /\ NextInv cf s1 /\
    forall j nd sc, nthZ (nodes s1) (j - 1) = Some nd -> sched_of cf j = Some sc ->
      let k := Z.to_nat (n_spos nd) in
      n_next_shift nd = Some (Dk sc k) /\ n_c nd = Some (Cprev sc k) /\ n_on (n_servers nd) = Z.max 0 (Cprev sc k) /\
      now s1 <= Dk sc k /\
      (next_active s1 = j -> n_next_type nd = 1 ->
         now s1 = Dk sc k /\
         forall d u s2, event_step cf (s1 <| dr := d |>) = Ok (u, s2) ->
           SchedInv cf s2 /\
           at_node j (fun nd2 => n_spos nd2 = n_spos nd + 1 /\ n_c nd2 = Some (C (sc_b sc) (sc_v sc) k) /\
                                 n_next_shift nd2 = Some (Dk sc (S k)) /\ n_on (n_servers nd2) = Z.max 0 (C (sc_b sc) (sc_v sc) k)) s2).
  Proof.
    intros HI HN H. pose proof (run_many_sched _ _ _ _ HI H) as HI1. pose proof (run_many_next _ _ _ _ HI HN H) as HN1.
    split; [exact HI1|]. split; [exact HN1|]. intros j nd sc Hn Hsc k.
    destruct (SchedInv_means _ _ _ _ HI1 Hn Hsc) as (Hid & Hpos & Hnext & Hc & Hon & _).
    destruct (clock_and_shift _ _ _ _ HI1 HN1 Hn Hsc) as [Hle Heq].
    split; [exact Hnext|]. split; [exact Hc|]. split; [exact Hon|]. split; [exact Hle|]. intros Hact Hty. split; [apply Heq; assumption|].
    intros d u s2 Hstep.
    assert (Hj : 1 <= j) by (unfold nthZ in Hn; destruct (j - 1 <? 0) eqn:Ej; [discriminate Hn|apply Z.ltb_ge in Ej; lia]).
    unfold event_step in Hstep.
    minv Hstep as u0 s3 E. apply modify_inv in E as ->.
    minv Hstep as ka s3 E. apply gets_inv in E as [-> ->].
    minv Hstep as u1 s3 E. cbn in E. rewrite Hact in E. destruct (j =? 0) eqn:Ej; [apply Z.eqb_eq in Ej; lia|].
    rewrite (node_have_event_shift _ j nd) in E by assumption.
    assert (HI0 : SchedInv cf (s1 <| dr := d |> <| log := [] |>)) by (eapply Inv_nodes; [|exact HI1]; reflexivity).
    destruct (change_shift_spec cf j _ _ _ nd HI0 Hn E) as (sc' & Hsc' & HI3 & Ha3). rewrite Hsc in Hsc'. injection Hsc' as <-.
    (* the tail of the event keeps the node's position and c: use the excepted-node form of the invariant *)
    assert (HIx : Inv cf j (sids (n_servers nd) ++ sids (match nthZ (nodes s3) (j - 1) with Some x => n_servers x | None => [] end))
                    (Some (C (sc_b sc) (sc_v sc) k), n_spos nd + 1) s3).
    { intros k' nd' Hk'. destruct (HI3 k' nd' Hk') as [A B]. split; [exact A|]. intros sc2 Hsc2. destruct (B sc2 Hsc2) as (B1 & B2 & _).
      split; [exact B1|]. split; [intros _; apply B2; lia|]. intros He.
      assert (Hn3 : nthZ (nodes s3) (j - 1) = Some nd').
      { unfold nthZ. destruct (j - 1 <? 0) eqn:E1; [apply Z.ltb_lt in E1; lia|]. replace (Z.to_nat (j - 1)) with k' by lia. exact Hk'. }
      rewrite Hn3. destruct (Ha3 nd' Hn3) as (Q1 & Q2 & _). split; [apply incl_appr, incl_refl|]. rewrite Q1, Q2. reflexivity. }
    clear E. minv Hstep as ns s4 E. apply gets_inv in E as [-> ->].
    minv Hstep as u2 s4 E. destruct (kp_update_all cf _ _ _ _ _ _ _ HIx E) as [HIx4 _].
    destruct (kp_find_next_active_node cf _ _ _ _ _ _ HIx4 Hstep) as [HIx5 _].
    destruct (kp_update_all cf _ _ _ _ _ _ _ HI3 E) as [HI4 _]. destruct (kp_find_next_active_node cf _ _ _ _ _ _ HI4 Hstep) as [HI5 _].
    split; [exact HI5|]. intros nd2 Hn2.
    destruct (SchedInv_means _ _ _ _ HI5 Hn2 Hsc) as (Hid2 & _ & Hnext2 & Hc2 & Hon2 & _).
    destruct (Inv_get _ _ _ _ _ _ _ HIx5 Hn2) as [_ Hokx]. destruct (Hokx sc ltac:(rewrite Hid2; exact Hsc)) as (_ & _ & Qx).
    destruct (Qx Hid2) as [_ Qp]. injection Qp as Qc Qs.
    assert (Ek : Z.to_nat (n_spos nd2) = S k) by (rewrite Qs; unfold k; lia).
    split; [exact Qs|]. split; [exact Qc|]. rewrite Ek in Hnext2, Hon2. split; [exact Hnext2|exact Hon2].
  Qed.
End Main.

(* ---------------------------------------------------------------------------------------------------------------- *)
(* (c) which servers take customers; (b) details                                                                      *)
(* ---------------------------------------------------------------------------------------------------------------- *)
Lemma find_free_server_spec l sv : find_free_server l = Some sv -> In sv l /\ sv_busy sv = false.
Proof.
  induction l as [|y r IH]; cbn; [discriminate|]. destruct (sv_busy y) eqn:E; intros H.
  - destruct (IH H). auto.
  - injection H as <-. auto.
Qed.
Lemma first_min_free_spec key l : forall best sv, first_min_free key l best = Some sv ->
  best = Some sv \/ (In sv l /\ sv_busy sv = false).
Proof.
  induction l as [|y r IH]; intros best sv H; cbn in H; [left; exact H|].
  destruct (sv_busy y) eqn:E.
  - destruct (IH _ _ H) as [A | [A B]]; [left; exact A|right; split; [right; exact A|exact B]].
  - destruct best as [b|].
    + destruct (pair_lt (key y) (key b)).
      * destruct (IH _ _ H) as [A | [A B]]; [injection A as <-; right; split; [left; reflexivity|exact E]|right; split; [right; exact A|exact B]].
      * destruct (IH _ _ H) as [A | [A B]]; [left; exact A|right; split; [right; exact A|exact B]].
    + destruct (IH _ _ H) as [A | [A B]]; [injection A as <-; right; split; [left; reflexivity|exact E]|right; split; [right; exact A|exact B]].
Qed.
Lemma find_free_server_for_spec spf cls l sv : find_free_server_for spf cls l = Some sv -> In sv l /\ sv_busy sv = false.
Proof.
  unfold find_free_server_for. destruct (spf =? 0); [apply find_free_server_spec|].
  intros H. destruct (first_min_free_spec _ _ _ _ H) as [A | A]; [discriminate A|exact A].
Qed.
Lemma find_free_server_for_none spf cls l : (forall sv, In sv l -> sv_busy sv = true) -> find_free_server_for spf cls l = None.
Proof.
  intros H. destruct (find_free_server_for spf cls l) as [sv|] eqn:E; [|reflexivity].
  destruct (find_free_server_for_spec _ _ _ _ E) as [A B]. rewrite (H sv A) in B. discriminate B.
Qed.

Section Serve.
  Variable cf : config.

  (* the server that accept / serve_with give to a customer at a scheduled node is in n_servers, idle and ON duty *)
  Theorem free_server_on_duty s j nd sc spf cls sv : SchedInv cf s -> nthZ (nodes s) (j - 1) = Some nd -> sched_of cf j = Some sc ->
    find_free_server_for spf cls (n_servers nd) = Some sv -> In sv (n_servers nd) /\ sv_busy sv = false /\ sv_offduty sv = false.
  Proof.
    intros HI Hn Hsc Hf. destruct (find_free_server_for_spec _ _ _ _ Hf) as [A B].
    destruct (SchedInv_means _ _ _ _ _ HI Hn Hsc) as (_ & _ & _ & _ & _ & _ & _ & Hoff).
    split; [exact A|]. split; [exact B|]. destruct (sv_offduty sv) eqn:E; [|reflexivity].
    destruct (Hoff sv A E) as [_ F]. congruence.
  Qed.
  (* while zero servers are scheduled there is no free server: accept starts no service (and, c being 0, attempts no
     pre-emption: `if 0 <? numo (n_c nd1)` in accept and change_customer_class_while_waiting) *)
  Theorem no_free_server_when_zero s j nd sc spf cls : SchedInv cf s -> nthZ (nodes s) (j - 1) = Some nd -> sched_of cf j = Some sc ->
    Cprev sc (Z.to_nat (n_spos nd)) <= 0 ->
    find_free_server_for spf cls (n_servers nd) = None /\ (0 <? numo (n_c nd)) = false /\
    filter (fun sv => negb (sv_busy sv)) (n_servers nd) = [].
  Proof.
    intros HI Hn Hsc Hc. destruct (zero_scheduled _ _ _ _ _ HI Hn Hsc Hc) as [Hall _].
    destruct (SchedInv_means _ _ _ _ _ HI Hn Hsc) as (_ & _ & _ & Hcc & _).
    split; [apply find_free_server_for_none; intros sv Hin; apply (Hall sv Hin)|]. split; [rewrite Hcc; cbn; apply Z.ltb_ge; exact Hc|].
    destruct (filter (fun sv => negb (sv_busy sv)) (n_servers nd)) as [|sv r] eqn:Ef; [reflexivity|].
    assert (Hin : In sv (filter (fun sv => negb (sv_busy sv)) (n_servers nd))) by (rewrite Ef; left; reflexivity).
    apply filter_In in Hin as [Hin Hb]. destruct (Hall sv Hin) as (_ & Hb' & _). rewrite Hb' in Hb. discriminate Hb.
  Qed.
  (* so the shift change itself starts nothing either when the new c is 0: there is no idle server to serve with *)
  Lemma bsip_change_shift_nothing s j nd : nthZ (nodes s) (j - 1) = Some nd -> 1 <= j ->
    filter (fun sv => negb (sv_busy sv)) (n_servers nd) = [] -> begin_service_if_possible_change_shift cf j s = Ok (tt, s).
  Proof.
    intros Hn Hj Hf. unfold begin_service_if_possible_change_shift, bind, get_node. destruct (j <? 1) eqn:E; [apply Z.ltb_lt in E; lia|].
    rewrite Hn, Hf. reflexivity.
  Qed.

  (* a server that finishes its overtime is retired on the spot, and the release that freed it gives it no new customer *)
  Theorem overtime_server_retires s j sid i nd sv u s' : SchedInv cf s -> nthZ (nodes s) (j - 1) = Some nd ->
    find_server sid (n_servers nd) = Some sv -> sv_offduty sv = true -> detatch_server j sid i s = Ok (u, s') ->
    (forall sc, sched_of cf j = Some sc -> at_node j (fun nd' => find_server sid (n_servers nd') = None) s') /\
    (forall nd', nthZ (nodes s') (j - 1) = Some nd' -> find_server sid (n_servers nd') = None ->
       begin_service_if_possible_release cf j (Some sid) s' = Ok (tt, s')).
  Proof.
    intros HI Hn Ef Eo H. split.
    - intros sc Hsc. unfold detatch_server in H.
      minv H as t s1 E. apply gets_inv in E as [-> ->].
      minv H as nd0 s1 E. apply get_node_spec in E as [-> Hn0]. rewrite Hn in Hn0. injection Hn0 as <-.
      destruct (Inv_get _ _ _ _ _ _ _ HI Hn) as [Hid Hok].
      minv H as x s1 E. apply get_ind_inv in E as ->.
      minv H as u1 s1 E. apply modify_inv in E as ->. rewrite Ef in H.
      match type of H with context [put_server_l ?v _] => set (sv2 := v) in * end.
      assert (Hid2 : sv_id sv2 = sid) by (destruct (find_server_split _ _ _ Ef) as (? & ? & _ & Hs & _); exact Hs).
      minv H as u2 s1 E. apply modify_inv in E as ->. rewrite Eo in H.
      unfold kill_server in H. minv H as t s1 E. apply gets_inv in E as [-> ->].
      minv H as nd2 s1 E. apply get_node_spec in E as [-> Hn2]. cbn in Hn2.
      rewrite Hid in Hn2. rewrite (nthZ_updZ_same _ _ _ _ Hn) in Hn2. injection Hn2 as <-.
      cbn in H. destruct (del_put _ _ _ _ Ef Hid2) as [Ed Efs]. rewrite Efs in H. cbn in H.
      apply modify_inv in H as ->. cbn. rewrite Hid, updZ_updZ, Ed. intros nd' Hn'. cbn in Hn'.
      unfold nthZ, updZ in Hn'. destruct (j - 1 <? 0); [discriminate Hn'|]. apply nth_error_upd_eq in Hn'. rewrite Hn'. cbn.
      destruct (Hok sc ltac:(rewrite Hid; exact Hsc)) as ([_ _ _ Hs] & _).
      destruct (srv_ok_del _ _ _ _ _ Hs Ef) as (_ & _ & D3 & _). apply find_server_none, D3.
    - intros nd' Hn' Hf. unfold begin_service_if_possible_release, bind, get_node.
      assert (Hj : 1 <= j) by (unfold nthZ in Hn'; destruct (j - 1 <? 0) eqn:Ej; [discriminate Hn'|apply Z.ltb_ge in Ej; lia]).
      destruct (j <? 1) eqn:E; [apply Z.ltb_lt in E; lia|]. rewrite Hn', Hf. reflexivity.
  Qed.

  (* (b) interruption records are dated at the clock of the event (the shift date, by clock_and_shift) *)
  Lemma interruption_record_dated j i dest s u s' : write_interruption_record cf j i dest s = Ok (u, s') ->
    exists r, log s' = log s ++ [r] /\ r_type r = 1 /\ r_node r = j /\ r_exit r = Some (now s) /\ r_dest r = dest.
  Proof.
    intros H. unfold write_interruption_record in H.
    minv H as t s1 E. apply gets_inv in E as [-> ->].
    minv H as x s1 E. apply get_ind_inv in E as ->.
    minv H as nc s1 E. unfold ncfg_of in E. apply lift_inv in E as [_ ->].
    minv H as osid s1 E.
    assert (s1 = s) as ->.
    { destruct (nc_slotted nc); [apply ret_inv in E as [_ ->]; reflexivity|]. minv E as sid s2 E2. apply lift_inv in E2 as [_ ->]. apply ret_inv in E as [_ ->]. reflexivity. }
    clear E. minv H as u1 s1 E. apply modify_inv in E as ->.
    unfold bump_rec, upd_ind in H. minv H as y s1 E. apply get_ind_inv in E as ->. apply modify_inv in H as ->.
    eexists. cbn. split; [reflexivity|]. cbn. auto.
  Qed.
  (* (b) when servers return, interrupted customers are restarted before fresh ones *)
  Lemma interrupted_first s j nd sid : nthZ (nodes s) (j - 1) = Some nd -> 1 <= j -> 0 < n_nint nd ->
    serve_with cf j sid s = begin_interrupted_individuals_service j sid s.
  Proof.
    intros Hn Hj Hi. unfold serve_with, bind at 1. unfold get_node at 1. destruct (j <? 1) eqn:E; [apply Z.ltb_lt in E; lia|].
    rewrite Hn. apply Z.ltb_lt in Hi. rewrite Hi. reflexivity.
  Qed.

  (* with a well-formed timetable the dates D k increase strictly: the shift changes happen in timetable order *)
  Lemma Dk_increasing sc : wf_sched (sc_b sc) (sc_v sc) (sc_off sc) = true -> forall i k, (i < k)%nat -> Dk sc i < Dk sc k.
  Proof. intros H i k. apply (wf_dates_increasing _ _ _ H). Qed.
End Serve.

(* ---------------------------------------------------------------------------------------------------------------- *)
(* executable twin of NextInv; examples; the F-12d witness                                                            *)
(* ---------------------------------------------------------------------------------------------------------------- *)
Section NextB.
  Variable cf : config.
  Fixpoint next_b (t act k : Z) (l : list node) : bool :=
    match l with
    | [] => true
    | nd :: r =>
      (match sched_of cf k, n_next_shift nd with
       | Some _, Some d => (t <=? d) && (negb (act =? k) || negb (n_next_type nd =? 1) || (t =? d))
       | _, _ => true
       end) && next_b t act (k + 1) r
    end.
  Definition next_inv_b (s : sim) : bool := next_b (now s) (next_active s) 1 (nodes s).

  Lemma next_b_sound t act l : forall k0, next_b t act k0 l = true ->
    forall k nd sc d, nth_error l k = Some nd -> sched_of cf (k0 + Z.of_nat k) = Some sc -> n_next_shift nd = Some d ->
      t <= d /\ (act = k0 + Z.of_nat k -> n_next_type nd = 1 -> t = d).
  Proof.
    induction l as [|x r IH]; intros k0 H [|k] nd sc d Hk Hsc Hd; cbn in Hk; try discriminate.
    - injection Hk as ->. cbn [next_b] in H. apply andb_prop in H as [H _]. replace (k0 + Z.of_nat 0) with k0 in * by lia.
      rewrite Hsc, Hd in H. apply andb_prop in H as [H1 H2]. apply Z.leb_le in H1. split; [exact H1|]. intros Ha Hty.
      rewrite Ha, Hty, !Z.eqb_refl in H2. cbn in H2. apply Z.eqb_eq, H2.
    - cbn [next_b] in H. apply andb_prop in H as [_ H].
      replace (k0 + Z.of_nat (S k)) with (k0 + 1 + Z.of_nat k) in * by lia. eapply IH; eauto.
  Qed.
  Theorem next_inv_b_sound s : next_inv_b s = true -> NextInv cf s.
  Proof.
    intros H j nd nc sc d Hn Hnc Hs Hd. unfold nthZ in Hn. destruct (j - 1 <? 0) eqn:Ej; [discriminate Hn|]. apply Z.ltb_ge in Ej.
    assert (Hsc : sched_of cf (1 + Z.of_nat (Z.to_nat (j - 1))) = Some sc).
    { replace (1 + Z.of_nat (Z.to_nat (j - 1))) with j by lia. unfold sched_of. rewrite Hnc, Hs. reflexivity. }
    destruct (next_b_sound _ _ _ _ H _ _ _ _ Hn Hsc Hd) as [A B]. split; [exact A|]. intros Ha. apply B. lia.
  Qed.
End NextB.

(* every customer in service (a service start date, not interrupted) holds a server of its node's n_servers *)
Definition held_ok_b (s : sim) : bool :=
  forallb (fun x => match (if i_interrupted x then None else i_sst x), i_server x, i_node x with
                    | Some _, Some sid, Some j => match nthZ (nodes s) (j - 1) with
                                          | Some nd => match find_server sid (n_servers nd) with Some _ => true | None => false end
                                          | None => true end
                    | _, _, _ => true end) (inds s).

(* one node, two classes (class 0 has priority over class 1, pre-emption 'resume'), schedule [1, 1] until [10, 20] *)
Definition ex_nc (pre : Z) : ncfg := mkNcfg None None 0 (SSched (mkSched [10; 20] [1; 1] 0 pre)) 1 false [false; false] 0.
Definition ex_cf (pre : Z) : config :=
  mkCfg 2 [ex_nc pre] [0; 1] 2 None [RtNR [RLeave]; RtNR [RLeave]] [[None]; [None]] false [[false; false]; [false; false]].
Definition ex_node : node := mkNode 1 0 0 [[]; []] [] [] 0 (Some 0) [] (Some 0) 0 [] 0 [] [] [] 1 (Some 0) 0 None None.
Definition no_draws : draws := mkDraws [] [] [] [] [] [].
Definition ex_s0 : sim := mkSim 0 1 (mkArr 0 0 [[Some 11; Some 5]] 1 1 (Some 5)) [ex_node] [] 0 0 [] no_draws [] [[0]; [0]].
(* shift change at 0; class-1 customer at 5 (service 100); shift change at 10 (its server goes off duty, server 2 comes);
   class-0 customer at 11 takes server 2; class-0 customer at 12 pre-empts the customer on the overtime server *)
Definition ex_ds : list draws :=
  [ no_draws; mkDraws [1000] [1] [100] [] [] []; no_draws; mkDraws [1] [1] [50] [] [] []; mkDraws [1000] [1] [30] [] [] [] ].

(* the invariants are satisfiable: the initial state, and (by the theorems, and here by computation) the states of a run;
   after the second shift change one server finishes overtime and one is on duty *)
Example sched_inv_example :
  sched_inv_b (ex_cf 0) ex_s0 = true /\ next_inv_b (ex_cf 0) ex_s0 = true /\
  match run_many (ex_cf 0) ex_s0 (firstn 3 ex_ds) with
  | Ok s => sched_inv_b (ex_cf 0) s = true /\ next_inv_b (ex_cf 0) s = true /\ now s = 11 /\
            map (fun nd => (n_spos nd, n_c nd, n_next_shift nd, map (fun sv => (sv_id sv, sv_busy sv, sv_offduty sv)) (n_servers nd))) (nodes s)
            = [(2, Some 1, Some 20, [(1, true, true); (2, false, false)])]
  | _ => False
  end /\
  (* the same run under a pre-emptive ('resume' = 1) schedule: the service is interrupted at the shift end 10 and restarted
     at once on the new server *)
  match run_many (ex_cf 1) ex_s0 (firstn 3 ex_ds) with
  | Ok s => sched_inv_b (ex_cf 1) s = true /\ next_inv_b (ex_cf 1) s = true /\ held_ok_b s = true /\
            map (fun nd => (n_spos nd, n_c nd, map (fun sv => (sv_id sv, sv_cust sv, sv_offduty sv)) (n_servers nd))) (nodes s)
            = [(2, Some 1, [(2, Some 1, false)])]
  | _ => False
  end.
Proof. vm_compute. repeat split; reflexivity. Qed.

(* F-12d: with priority pre-emption at a node with a NON-pre-emptive schedule the victim can be the customer of an
   overtime server; detatch_server retires that server and the pre-emptor is then "started" on it: it holds a server
   that is not in n_servers (and is off duty).  The schedule invariants themselves are unaffected. *)
Theorem start_offduty_refuted :
  exists cf s ds s', sched_inv_b cf s = true /\ next_inv_b cf s = true /\ run_many cf s ds = Ok s' /\
    sched_inv_b cf s' = true /\ next_inv_b cf s' = true /\ held_ok_b s = true /\ held_ok_b s' = false.
Proof. exists (ex_cf 0), ex_s0, ex_ds. eexists. vm_compute. repeat split; reflexivity. Qed.

Print Assumptions run_many_sched.
Print Assumptions run_many_next.
Print Assumptions change_shift_spec.
Print Assumptions shift_changes_follow_timetable.
Print Assumptions sched_inv_b_sound.
Print Assumptions next_inv_b_sound.
Print Assumptions free_server_on_duty.
Print Assumptions no_free_server_when_zero.
Print Assumptions overtime_server_retires.
Print Assumptions start_offduty_refuted.
Print Assumptions sched_inv_example.
Print Assumptions event_step_sched.
Print Assumptions event_step_next.
Print Assumptions clock_and_shift.
Print Assumptions SchedInv_means.
Print Assumptions zero_scheduled.
Print Assumptions take_off_nonpre.
Print Assumptions take_off_pre.
Print Assumptions interruption_record_dated.
Print Assumptions interrupted_first.

(* TrackerInc.v -- T2 for C17 (state trackers) on the engine model: the state that each built-in tracker of
   ciw/trackers/state_tracker.py maintains INCREMENTALLY (change_state_accept / change_state_block / change_state_release /
   change_state_classchange) equals, after every event, the state computed from the actual configuration -- for every
   configuration, every state satisfying the invariants, every oracle of draws and any number of events.

   The engine model does not contain the trackers.  What is done here, without touching the model:
     1. the TRUE state of each tracker as a function of an engine state: who is where is read off the node queues
        (all_individuals), the attributes of a customer (blocked flag, classes) off the customer table (inds);
     2. the incremental update functions, statement by statement as the Python methods (option = Python raises IndexError);
     3. the list of tracker calls Python makes while executing each engine function, as a ghost function of the pre-state
        (calls_release / calls_fs / calls_ri / calls_batch / calls_arrival / calls_event_step / calls_many), mirroring the
        call sites of node.py: accept -> change_state_accept at its end; block_individual -> change_state_block; release ->
        change_state_release (with the blocked flag of the customer) after the record is written and before the freed
        server restarts, then the accept of the destination, then the unblocking cascade.  Where a Python call site sits in
        the middle of an engine function (release: the cascade; finish_service: release or block; release_individual:
        accept or turn away) the engine function is split into its head and its tail (rel_head / fs_head / ri_head) and
        the split is PROVED to be the engine function (release_unfold / finish_service_unfold / release_individual_unfold);
     4. one generic theorem about a family of measures (length of every node's queue and, for any list of predicates on
        (blocked flag, previous class), the number of customers of every node satisfying each predicate):
            run ps (calls_event_step cf s) (mu ps s) = Some (mu ps s')      whenever event_step cf s = Ok (tt, s')
        from which the statement for every tracker follows by list reasoning only (SystemPopulation, NodePopulation,
        NodePopulationSubset, GroupedNodePopulation, NaiveBlocking, NodeClassMatrix).
   Invariants used: Blocking.Who (which contains Conserve.WFx []: nobody is in two places; and NextOk: the customers
   finish_service may pick are customers of the node that are not blocked) and the new Qx []: a queued customer that is
   not blocked has previous_class = customer_class (that is what makes change_state_release, which subtracts at
   previous_class, undo what change_state_accept added at customer_class).  No hypothesis on the draws is needed.
   Main statements (section 5, 7, 8):  TInv cf s := Who cf s /\ Qx [] s  is preserved (event_step_tinv, run_many_tinv) and
     event_step_trackers / run_many_trackers : TInv cf s -> ... -> Tracked (calls ...) s s'
   where Tracked says, for SystemPopulation, NodePopulation, NaiveBlocking (unconditionally), NodePopulationSubset and
   GroupedNodePopulation (observed nodes / groups without repetition; sub_dup_refuted, grp_dup_refuted: needed), that
   orun <step> calls (<true> s) = Some (<true> s') -- the tracker never raises and ends in the true state -- and for
   NodeClassMatrix that it ends in the true state whenever it does not raise; with the additional invariant CR (every
   customer's classes are indices of cf_prio; TInvC, preserved) NodeClassMatrix does not raise either
   (event_step_class_matrix, run_many_class_matrix).  never_negative: every count held after any number of events is >= 0.
   change_state_classchange (Chg) is given its update for every tracker but no stage-1 engine function emits it (class
   change while queueing is outside the stage-1 scope).  MatrixBlocking (the global blockage order) is not covered. *)
From Coq Require Import ZArith List Bool Lia Permutation.
From RecordUpdate Require Import RecordUpdate.
From CiwV Require Import Sx Prelude Routing.
From CiwV.Engine Require Import State Engine Codec.
From CiwV.Inv Require Import Frame Conserve ConserveRun Capacity SysCap CapacityRun Blocking.
Import ListNotations.
Open Scope Z_scope.

Local Arguments Z.mul : simpl never.
Local Arguments Z.add : simpl never.
Local Arguments Z.sub : simpl never.
Local Arguments Z.opp : simpl never.

(* ====================================================================================================================
   0. Lists, the monad
   ==================================================================================================================== *)
Lemma tk_nthZ_map {A B} (f : A -> B) l k : nthZ (map f l) k = option_map f (nthZ l k).
Proof. unfold nthZ. destruct (k <? 0); [reflexivity|]. rewrite nth_error_map. reflexivity. Qed.
Lemma tk_updZ_map {A B} (f : A -> B) l k x : map f (updZ l k x) = updZ (map f l) k (f x).
Proof. unfold updZ. destruct (k <? 0); [reflexivity|apply upd_map]. Qed.
Lemma tk_upd_upd {A} (l : list A) k x y : upd (upd l k x) k y = upd l k y.
Proof. revert k; induction l as [|a l IH]; intros [|k]; cbn; try reflexivity. f_equal. apply IH. Qed.
Lemma tk_updZ_updZ {A} (l : list A) k x y : updZ (updZ l k x) k y = updZ l k y.
Proof. unfold updZ. destruct (k <? 0); [reflexivity|apply tk_upd_upd]. Qed.
Lemma tk_nthZ_updZ_eq {A} (l : list A) k a x : nthZ l k = Some a -> nthZ (updZ l k x) k = Some x.
Proof. unfold nthZ, updZ. destruct (k <? 0); [discriminate|]. apply nth_error_upd_eq. Qed.
Lemma tk_updZ_same {A} (l : list A) k a : nthZ l k = Some a -> updZ l k a = l.
Proof. unfold nthZ, updZ. destruct (k <? 0); [discriminate|]. apply upd_same. Qed.
Lemma tk_upd_length {A} (l : list A) k x : length (upd l k x) = length l.
Proof. revert k; induction l as [|a l IH]; intros [|k]; cbn; auto. Qed.
Lemma tk_updZ_length {A} (l : list A) k x : length (updZ l k x) = length l.
Proof. unfold updZ. destruct (k <? 0); [reflexivity|apply tk_upd_length]. Qed.

(* map f' l is map f l with slot k rewritten, when f' and f agree on the other slots *)
Lemma tk_map_upd_at {A B} (f f' : A -> B) (l : list A) k a :
  nth_error l k = Some a -> (forall k' b, nth_error l k' = Some b -> k' <> k -> f' b = f b) ->
  map f' l = upd (map f l) k (f' a).
Proof.
  revert k; induction l as [|h t IH]; intros [|k] Hk Ho; cbn in *; try discriminate.
  - injection Hk as ->. f_equal. apply map_ext_in. intros b Hb. apply In_nth_error in Hb as (k' & Hk').
    apply (Ho (S k') b); [exact Hk'|discriminate].
  - f_equal; [apply (Ho O h); [reflexivity|discriminate]|]. apply IH; [exact Hk|].
    intros k' b Hk' Hne. apply (Ho (S k') b); [exact Hk'|congruence].
Qed.

Lemma tk_filter_len_perm {A} (f : A -> bool) a b : Permutation a b -> length (filter f a) = length (filter f b).
Proof. induction 1; cbn; repeat match goal with |- context [if f ?x then _ else _] => destruct (f x) end; cbn; congruence. Qed.

Definition bz (b : bool) : Z := if b then 1 else 0.

Lemma tk_NoDup_app_r {A} (a b : list A) : NoDup (a ++ b) -> NoDup b.
Proof. induction a as [|x a IH]; cbn; intros H; [exact H|]. inversion H; subst. auto. Qed.
Lemma tk_NoDup_concat_nth {A} (ls : list (list A)) k l : NoDup (concat ls) -> nth_error ls k = Some l -> NoDup l.
Proof.
  revert k; induction ls as [|h t IH]; intros [|k] Hnd Hk; cbn in *; try discriminate.
  - injection Hk as <-. eapply bk_NoDup_app_l; eauto.
  - apply tk_NoDup_app_r in Hnd. eapply IH; eauto.
Qed.

(* one flag of a duplicate-free list changes *)
Lemma tk_filter_change (f f' : Z -> bool) (q : list Z) i : NoDup q -> In i q -> (forall i', i' <> i -> f' i' = f i') ->
  zlen (filter f' q) = zlen (filter f q) + (bz (f' i) - bz (f i)).
Proof.
  unfold zlen. induction q as [|h t IH]; intros Hnd Hin Ho; [destruct Hin|].
  inversion Hnd as [|? ? Hn Hd]; subst. cbn [filter]. destruct Hin as [->|Hin].
  - assert (E : filter f' t = filter f t).
    { clear -Hn Ho. induction t as [|a t IH]; [reflexivity|]. cbn. rewrite Ho by (intros ->; apply Hn; left; reflexivity).
      rewrite IH; [reflexivity|]. intros Hx. apply Hn. right. exact Hx. }
    rewrite E. destruct (f' i), (f i); cbn [length bz]; lia.
  - assert (Hne : h <> i) by (intros ->; exact (Hn Hin)). rewrite (Ho h Hne). specialize (IH Hd Hin Ho).
    destruct (f h); cbn [length]; lia.
Qed.

Lemma tk_bind_step {A B C} (m : M A) (f : A -> M C) (g : A -> M B) (k : B -> M C) s :
  (forall a s1, f a s1 = bind (g a) k s1) -> bind m f s = bind (bind m g) k s.
Proof. intros H. unfold bind. destruct (m s) as [[a s1]| |]; [|reflexivity|reflexivity]. specialize (H a s1). unfold bind in H. exact H. Qed.

Lemma tk_ret_spec {A} (x : A) s a s' : ret x s = Ok (a, s') -> s' = s /\ a = x.
Proof. intros H. inversion H. auto. Qed.
Lemma tk_lift_spec {A} e (o : option A) s a s' : lift e o s = Ok (a, s') -> s' = s /\ o = Some a.
Proof. destruct o; cbn; intros H; inversion H. auto. Qed.
Lemma tk_modify_spec (f : sim -> sim) s a s' : modify f s = Ok (a, s') -> s' = f s.
Proof. unfold modify. intros H. inversion H. reflexivity. Qed.

Ltac mstep H :=
  match type of H with
  | bind ?m ?f ?s = Ok _ =>
    let a := fresh "a" in let s1 := fresh "s" in let E := fresh "E" in
    unfold bind in H at 1; destruct (m s) as [[a s1]| |] eqn:E; [|discriminate H|discriminate H];
    first [ (apply gets_spec in E as [-> ->])
          | (let Hl := fresh "Hl" in apply tk_lift_spec in E as [-> Hl])
          | (apply bk_is_inf_spec in E as [-> ->])
          | (let Hn := fresh "Hn" in apply get_node_spec in E as [-> Hn])
          | (let Hf := fresh "Hf" in apply bk_get_ind_spec in E as [-> Hf])
          | idtac ]
  end.

(* ====================================================================================================================
   1. The measures: who is where (the node queues), with which attributes (the customer table)
   ==================================================================================================================== *)
Definition pred := bool -> Z -> bool.              (* a predicate on (is_blocked, previous_class) *)
Definition kview := (bool * Z * Z)%type.            (* is_blocked, previous_class, customer_class *)
Definition key (x : ind) : kview := (i_blocked x, i_pcls x, i_cls x).
Definition klook (s : sim) (i : Z) : option kview := option_map key (find_ind i (inds s)).
Definition pkk (p : pred) (k : option kview) : bool := match k with Some (b, pc, _) => p b pc | None => false end.
Definition ql (s : sim) : list (list Z) := map all_individuals (nodes s).
Definition cntq (p : pred) (s : sim) (q : list Z) : Z := zlen (filter (fun i => pkk p (klook s i)) q).
Definition cell := (Z * list Z)%type.
Definition mcell (ps : list pred) (s : sim) (q : list Z) : cell := (zlen q, map (fun p => cntq p s q) ps).
Definition mu (ps : list pred) (s : sim) : list cell := map (mcell ps s) (ql s).

(* the calls of the engine on the state tracker, with the attributes of the customer the trackers read *)
Inductive call : Type :=
| Acc (j c : Z)                   (* change_state_accept(node j, ind), ind.customer_class = c *)
| Blk (j d i pc : Z)              (* change_state_block(node j, destination d, ind i), ind.previous_class = pc *)
| Rel (j d i pc : Z) (b : bool)   (* change_state_release(node j, destination d (0: the exit node), ind i, blocked b), ind.previous_class = pc *)
| Chg (j pc c : Z).               (* change_state_classchange(node j, ind), ind.previous_class = pc, ind.customer_class = c *)

Definition vadd (a b : list Z) : list Z := map (fun ab => fst ab + snd ab) (combine a b).
Lemma vadd_map {X} (f g : X -> Z) l : vadd (map f l) (map g l) = map (fun x => f x + g x) l.
Proof. unfold vadd. induction l as [|x l IH]; cbn; [reflexivity|]. f_equal. exact IH. Qed.

(* what a call does to the measures of its node: (node, (change of the length, change of every count)) *)
Definition dvec (ps : list pred) (c : call) : Z * cell :=
  match c with
  | Acc j c => (j, (1, map (fun p : pred => bz (p false c)) ps))
  | Blk j _ _ pc => (j, (0, map (fun p : pred => bz (p true pc) - bz (p false pc)) ps))
  | Rel j _ _ pc b => (j, (-1, map (fun p : pred => - bz (p b pc)) ps))
  | Chg j pc c => (j, (0, map (fun p : pred => bz (p false c) - bz (p false pc)) ps))
  end.
Definition bump (v : list cell) (j : Z) (d : cell) : option (list cell) :=
  match nthZ v (j - 1) with
  | Some a => Some (updZ v (j - 1) (fst a + fst d, vadd (snd a) (snd d)))
  | None => None
  end.
Fixpoint run (ps : list pred) (cs : list call) (v : list cell) : option (list cell) :=
  match cs with
  | [] => Some v
  | c :: r => match bump v (fst (dvec ps c)) (snd (dvec ps c)) with Some v' => run ps r v' | None => None end
  end.
Lemma run_app ps a b v : run ps (a ++ b) v = match run ps a v with Some v' => run ps b v' | None => None end.
Proof. revert v; induction a as [|c a IH]; intros v; cbn [app run]; [reflexivity|]. destruct (bump v _ _); [apply IH|reflexivity]. Qed.

(* Tr cs s s': the calls cs take every measure of s to the measure of s' *)
Definition Tr (cs : list call) (s s' : sim) : Prop := forall ps, run ps cs (mu ps s) = Some (mu ps s').
Lemma Tr_app a b s s1 s2 : Tr a s s1 -> Tr b s1 s2 -> Tr (a ++ b) s s2.
Proof. intros H1 H2 ps. rewrite run_app, H1. apply H2. Qed.
Lemma Tr_nil s s' : (forall ps, mu ps s' = mu ps s) -> Tr [] s s'.
Proof. intros H ps. cbn. rewrite H. reflexivity. Qed.
Lemma Tr_one c s s' : (forall ps, bump (mu ps s) (fst (dvec ps c)) (snd (dvec ps c)) = Some (mu ps s')) -> Tr [c] s s'.
Proof. intros H ps. cbn. rewrite H. reflexivity. Qed.
Lemma Tr_eq_l cs s0 s s' : (forall ps, mu ps s0 = mu ps s) -> Tr cs s s' -> Tr cs s0 s'.
Proof. intros E H ps. rewrite E. apply H. Qed.
Lemma Tr_eq_r cs s s' s1 : (forall ps, mu ps s1 = mu ps s') -> Tr cs s s' -> Tr cs s s1.
Proof. intros E H ps. rewrite E. apply H. Qed.

(* ---------- states with the same queues and the same attributes ---------- *)
Definition Same (s s' : sim) : Prop := shp s' = shp s /\ forall i, klook s' i = klook s i.
Lemma Same_refl s : Same s s. Proof. split; reflexivity. Qed.
Lemma Same_trans a b c : Same a b -> Same b c -> Same a c.
Proof. intros [A1 A2] [B1 B2]. split; [congruence|]. intros i. rewrite B2. apply A2. Qed.

Lemma ql_shape s s' : shp s' = shp s -> ql s' = ql s.
Proof.
  intros H. unfold shp in H. injection H as H _ _ _. unfold ql.
  assert (E : forall l, map all_individuals l = map (fun t : Z * Z * list (list Z) => concat (snd t)) (map nshape l)).
  { intros l. rewrite map_map. reflexivity. }
  rewrite !E, H. reflexivity.
Qed.

Lemma mu_ext ps s s' : ql s' = ql s -> (forall i p, In i (concat (ql s)) -> pkk p (klook s' i) = pkk p (klook s i)) -> mu ps s' = mu ps s.
Proof.
  intros Hq Hk. unfold mu. rewrite Hq. apply map_ext_in. intros q Hin. unfold mcell. f_equal.
  apply map_ext. intros p. unfold cntq. f_equal. apply filter_ext_in. intros i Hi. apply Hk.
  apply in_concat. exists q. auto.
Qed.
Lemma mu_same ps s s' : Same s s' -> mu ps s' = mu ps s.
Proof. intros [A B]. apply mu_ext; [apply ql_shape; exact A|]. intros i p _. rewrite B. reflexivity. Qed.

(* writing a node back into its slot: only that slot of the measure changes *)
Lemma mu_put ps nd nd' s s1 j : Idx s -> nthZ (nodes s) (j - 1) = Some nd -> put_node nd' s = Ok (tt, s1) -> n_id nd' = n_id nd ->
  mu ps s1 = updZ (mu ps s) (j - 1) (mcell ps s (all_individuals nd')) /\ inds s1 = inds s.
Proof.
  intros HI Hn H Hid. pose proof (Idx_get _ _ _ HI Hn) as Hj. unfold put_node, modify in H. inversion H. subst s1. clear H.
  split; [|reflexivity]. unfold mu.
  change (mcell ps (s <| nodes := updZ (nodes s) (n_id nd' - 1) nd' |>)) with (mcell ps s).
  change (ql (s <| nodes := updZ (nodes s) (n_id nd' - 1) nd' |>)) with (map all_individuals (updZ (nodes s) (n_id nd' - 1) nd')).
  unfold ql. rewrite Hid, Hj, !tk_updZ_map. reflexivity.
Qed.

Lemma tk_zlen_perm {A} (q q' : list A) i : Permutation q (i :: q') -> zlen q = zlen q' + 1.
Proof. intros H. unfold zlen. rewrite (Permutation_length H). cbn [length]. lia. Qed.
Lemma tk_cntq_perm p s q q' i : Permutation q (i :: q') -> cntq p s q = cntq p s q' + bz (pkk p (klook s i)).
Proof.
  intros H. unfold cntq, zlen. rewrite (tk_filter_len_perm _ _ _ H). cbn [filter].
  destruct (pkk p (klook s i)); cbn [length bz]; lia.
Qed.

Lemma bump_put ps nd nd' s s1 j dl (g : pred -> Z) :
  Idx s -> nthZ (nodes s) (j - 1) = Some nd -> put_node nd' s = Ok (tt, s1) -> n_id nd' = n_id nd ->
  zlen (all_individuals nd') = zlen (all_individuals nd) + dl ->
  (forall p, cntq p s (all_individuals nd') = cntq p s (all_individuals nd) + g p) ->
  bump (mu ps s) j (dl, map g ps) = Some (mu ps s1).
Proof.
  intros HI Hn H Hid Hl Hc. destruct (mu_put ps nd nd' s s1 j HI Hn H Hid) as [E _]. rewrite E.
  unfold bump. unfold mu at 1. unfold ql. rewrite !tk_nthZ_map, Hn. cbn [option_map fst snd mcell]. f_equal. f_equal.
  unfold mcell. rewrite Hl. f_equal. rewrite vadd_map. apply map_ext. intros p. symmetry. apply Hc.
Qed.

(* ====================================================================================================================
   2. Engine functions that change neither the queues nor the attributes
   ==================================================================================================================== *)
Definition calm {A} (m : M A) : Prop := forall s a s', m s = Ok (a, s') -> forall i, klook s' i = klook s i.
Definition calmK {A} (i0 : Z) (k0 : kview) (m : M A) : Prop :=
  forall s a s', klook s i0 = Some k0 -> m s = Ok (a, s') -> forall i, klook s' i = klook s i.
Lemma calmK_of_calm {A} i0 k0 (m : M A) : calm m -> calmK i0 k0 m.
Proof. intros H s a s' _ E. eapply H; eauto. Qed.
Lemma calm_quiet {A} (m : M A) : quiet m -> calm m.
Proof. intros Hm s a s' H i. destruct (Hm _ _ _ H) as (E & _). unfold klook. rewrite E. reflexivity. Qed.
Lemma calm_bind {A B} (m : M A) (f : A -> M B) : calm m -> (forall a, calm (f a)) -> calm (bind m f).
Proof.
  intros Hm Hf s b s' H i. unfold bind in H. destruct (m s) as [[a s1]| |] eqn:E; try discriminate.
  rewrite (Hf a _ _ _ H i). eapply Hm; eauto.
Qed.
Lemma calmK_bind {A B} i0 k0 (m : M A) (f : A -> M B) : calmK i0 k0 m -> (forall a, calmK i0 k0 (f a)) -> calmK i0 k0 (bind m f).
Proof.
  intros Hm Hf s b s' Hk H i. unfold bind in H. destruct (m s) as [[a s1]| |] eqn:E; try discriminate.
  pose proof (Hm _ _ _ Hk E) as E1. assert (Hk1 : klook s1 i0 = Some k0) by (rewrite E1; exact Hk).
  rewrite (Hf a s1 b s' Hk1 H i). apply E1.
Qed.
Lemma calm_put_node nd : calm (put_node nd).
Proof. intros s a s' H i. unfold put_node, modify in H. inversion H. reflexivity. Qed.
Lemma calmK_put_ind i0 k0 x' : i_id x' = i0 -> key x' = k0 -> calmK i0 k0 (put_ind x').
Proof.
  intros Hid Hk s a s' Hl H i. destruct a. destruct (bk_put_ind_spec _ _ _ H) as (Ei & _). unfold klook. rewrite Ei.
  destruct (Z.eq_dec i (i_id x')) as [->|Hne].
  - rewrite find_put_same. cbn [option_map]. rewrite Hk. rewrite Hid. symmetry. exact Hl.
  - rewrite find_put_other by exact Hne. reflexivity.
Qed.
Lemma calm_get_ind_then {B} i (F : ind -> M B) : (forall x, i_id x = i -> calmK i (key x) (F x)) -> calm (x <- get_ind i ;; F x).
Proof.
  intros HF s b s' H. unfold bind in H. destruct (get_ind i s) as [[x s1]| |] eqn:E; try discriminate.
  apply bk_get_ind_spec in E as [-> Hf]. apply (HF x (find_ind_id _ _ _ Hf) s b s'); [unfold klook; rewrite Hf; reflexivity|exact H].
Qed.

Ltac cm_step :=
  first
    [ match goal with
      | |- calm (bind (get_ind _) _) => apply calm_get_ind_then; intros
      | |- calmK _ _ (bind (get_ind _) _) => apply calmK_of_calm, calm_get_ind_then; intros
      | |- calm (bind _ _) => apply calm_bind; [|intros]
      | |- calmK _ _ (bind _ _) => apply calmK_bind; [|intros]
      | |- calm (if ?b then _ else _) => destruct b
      | |- calm (match ?x with _ => _ end) => destruct x
      | |- calmK _ _ (if ?b then _ else _) => destruct b
      | |- calmK _ _ (match ?x with _ => _ end) => destruct x
      | |- calmK _ _ (put_ind _) => apply calmK_put_ind; [first [assumption | reflexivity]|reflexivity]
      | |- calmK _ _ _ => apply calmK_of_calm
      end
    | apply calm_put_node
    | apply calm_quiet;
      first [ apply quiet_ret | apply quiet_fail | apply quiet_gets | apply quiet_lift | apply quiet_get_node | apply quiet_get_ind
            | apply quiet_log_rec | apply quiet_draw_arr | apply quiet_draw_batch | apply quiet_draw_svc | apply quiet_draw_unif
            | apply q_ncfg_of | apply q_is_inf | apply q_choice_uniform | apply q_choice_weighted | apply q_choose_next_customer
            | apply q_write_br_record | apply q_find_next_event_date | apply q_find_next_active_node ] ].

Definition still {A} (m : M A) : Prop := forall s a s', Idx s -> m s = Ok (a, s') -> Same s s'.
Lemma still_mk {A} (m : M A) : presI m -> calm m -> still m.
Proof. intros Hp Hc s a s' HI H. split; [eapply Hp; eauto|eapply Hc; eauto]. Qed.
Lemma quiet_Same {A} (m : M A) s a s' : quiet m -> m s = Ok (a, s') -> Same s s' /\ inds s' = inds s /\ nodes s' = nodes s.
Proof.
  intros Hm H. destruct (Hm _ _ _ H) as (A1 & A2 & A3 & A4 & A5). split; [|auto]. split.
  - unfold shp. rewrite A2, A3, A4, A5. reflexivity.
  - intros i. unfold klook. rewrite A1. reflexivity.
Qed.

Lemma Same_Idx s s' : Same s s' -> Idx s -> Idx s'.
Proof. intros [A _]. apply Idx_shape. exact A. Qed.
Lemma Same_WFx fl s s' : Same s s' -> WFx fl s -> WFx fl s'.
Proof. intros [A _]. apply WFx_shape. exact A. Qed.

(* a queued customer that is not blocked has previous_class = customer_class (e: customers exempted right now) *)
Definition Qx (e : list Z) (s : sim) : Prop :=
  forall i b pc c, In i (concat (ql s)) -> ~ In i e -> klook s i = Some (b, pc, c) -> b = false -> pc = c.
Lemma Qx_same e s s' : Same s s' -> Qx e s -> Qx e s'.
Proof. intros [A B] HQ i b pc c Hin He Hk Hb. rewrite (ql_shape _ _ A) in Hin. rewrite B in Hk. eapply HQ; eauto. Qed.
Lemma Qx_weaken e e' s : (forall i, In i e -> In i e') -> Qx e s -> Qx e' s.
Proof. intros H HQ i b pc c Hin He. apply HQ; [exact Hin|]. intros Hx. apply He, H, Hx. Qed.

Lemma WFx_notin i fl s : WFx (i :: fl) s -> ~ In i (concat (ql s)).
Proof.
  intros HW Hin. pose proof (WFx_ids _ _ HW) as Hnd. apply NoDup_remove_2 in Hnd. apply Hnd.
  apply in_or_app. left. apply in_or_app. left. exact Hin.
Qed.
(* the record of a customer in flight (in no queue) may change freely *)
Lemma Qx_flight i0 fl e s s0 : WFx (i0 :: fl) s -> ql s0 = ql s -> (forall i, i <> i0 -> klook s0 i = klook s i) -> Qx e s -> Qx e s0.
Proof.
  intros HW Hq Hk HQ i b pc c Hin He Hl Hb. rewrite Hq in Hin.
  assert (Hne : i <> i0) by (intros ->; exact (WFx_notin _ _ _ HW Hin)).
  rewrite (Hk i Hne) in Hl. eapply HQ; eauto.
Qed.
Lemma mu_flight ps i0 fl s s0 : WFx (i0 :: fl) s -> ql s0 = ql s -> (forall i, i <> i0 -> klook s0 i = klook s i) -> mu ps s0 = mu ps s.
Proof.
  intros HW Hq Hk. apply mu_ext; [exact Hq|]. intros i p Hin. rewrite Hk; [reflexivity|]. intros ->. exact (WFx_notin _ _ _ HW Hin).
Qed.

Lemma put_same nd nd' s s1 j : Idx s -> nthZ (nodes s) (j - 1) = Some nd -> nshape nd' = nshape nd -> put_node nd' s = Ok (tt, s1) ->
  Same s s1 /\ inds s1 = inds s.
Proof.
  intros HI Hn Hs H. assert (Hid : n_id nd' = j).
  { unfold nshape in Hs. injection Hs as -> _ _. apply (Idx_get _ _ _ HI Hn). }
  split; [split|].
  - eapply put_node_shape; [exact H|rewrite Hid; exact Hn|symmetry; exact Hs].
  - intros i. unfold put_node, modify in H. inversion H. reflexivity.
  - unfold put_node, modify in H. inversion H. reflexivity.
Qed.
Lemma put_ind_Same i x' s s1 : i_id x' = i -> klook s i = Some (key x') -> put_ind x' s = Ok (tt, s1) ->
  Same s s1 /\ nodes s1 = nodes s /\ find_ind i (inds s1) = Some x'.
Proof.
  intros Hid Hk H. destruct (bk_put_ind_spec _ _ _ H) as (Ei & En & _ & Esh). split; [split; [exact Esh|]|split; [exact En|]].
  - exact (calmK_put_ind i (key x') x' Hid eq_refl s tt s1 Hk H).
  - rewrite Ei, <- Hid. apply find_put_same.
Qed.

Lemma node_shape_at s s' j nd : shp s' = shp s -> nthZ (nodes s) (j - 1) = Some nd ->
  exists nd', nthZ (nodes s') (j - 1) = Some nd' /\ all_individuals nd' = all_individuals nd.
Proof.
  intros H Hn. unfold nthZ in *. destruct (j - 1 <? 0); [discriminate|].
  pose proof (nodes_shape_nth s s' (Z.to_nat (j - 1)) H) as E. rewrite Hn in E.
  destruct (nth_error (nodes s') (Z.to_nat (j - 1))) as [nd'|]; [|discriminate]. cbn in E. injection E as _ _ E.
  exists nd'. split; [reflexivity|]. unfold all_individuals. rewrite E. reflexivity.
Qed.

(* where the customers of the queues are after a node is written back *)
Lemma In_ql_put nd nd' s s1 j i : Idx s -> nthZ (nodes s) (j - 1) = Some nd -> put_node nd' s = Ok (tt, s1) -> n_id nd' = n_id nd ->
  In i (concat (ql s1)) -> In i (all_individuals nd') \/ In i (concat (ql s)).
Proof.
  intros HI Hn H Hid Hin. destruct (put_facts nd' nd s s1 j HI Hn H Hid) as (Hput & _ & _).
  apply in_concat in Hin as (q & Hq & Hiq). unfold ql in Hq. apply in_map_iff in Hq as (n & <- & Hnn).
  apply In_nth_error in Hnn as (k & Hk). rewrite <- nodeZ_of_nat in Hk. rewrite Hput in Hk.
  destruct (Z.of_nat k + 1 =? j).
  - injection Hk as <-. left. exact Hiq.
  - right. apply in_concat. exists (all_individuals n). split; [|exact Hiq]. unfold ql. apply in_map. eapply nodeZ_In; eauto.
Qed.
Lemma In_ql_node s j nd i : nthZ (nodes s) (j - 1) = Some nd -> In i (all_individuals nd) -> In i (concat (ql s)).
Proof.
  intros Hn Hin. apply in_concat. exists (all_individuals nd). split; [|exact Hin]. unfold ql. apply in_map.
  eapply (nodeZ_In s j). exact Hn.
Qed.

Section Calm.
  Variable cf : config.
  Lemma calm_start_service j i srv : calm (start_service j i srv).
  Proof. unfold start_service. repeat cm_step. Qed.
  Lemma calm_bsip_accept j i : calm (begin_service_if_possible_accept cf j i).
  Proof. unfold begin_service_if_possible_accept. repeat first [apply calm_start_service | cm_step]. Qed.
  Lemma calm_bsip_release j freed : calm (begin_service_if_possible_release cf j freed).
  Proof. unfold begin_service_if_possible_release. repeat first [apply calm_start_service | cm_step]. Qed.
  Lemma calmK_write_individual_record j x : calmK (i_id x) (key x) (write_individual_record cf j x).
  Proof. unfold write_individual_record. repeat cm_step. Qed.
  Lemma calm_update_next_event_date j : calm (update_next_event_date cf j).
  Proof. unfold update_next_event_date. repeat cm_step. Qed.
  Lemma calm_update_all js : calm (update_all cf js).
  Proof. induction js as [|j r IH]; cbn [update_all]; [cm_step|]. apply calm_bind; [apply calm_update_next_event_date|intros; exact IH]. Qed.

  Lemma still_bsip_accept j i : still (begin_service_if_possible_accept cf j i).
  Proof. apply still_mk; [apply presI_bsip_accept|apply calm_bsip_accept]. Qed.
  Lemma still_bsip_release j freed : still (begin_service_if_possible_release cf j freed).
  Proof. apply still_mk; [apply presI_bsip_release|apply calm_bsip_release]. Qed.
  Lemma still_update_all js : still (update_all cf js).
  Proof. apply still_mk; [apply presI_update_all|apply calm_update_all]. Qed.
  Lemma wir_Same j i x s s1 : i_id x = i -> klook s i = Some (key x) -> write_individual_record cf j x s = Ok (tt, s1) ->
    Same s s1 /\ nodes s1 = nodes s.
  Proof.
    intros Hid Hk H. split; [split|].
    - eapply pres_write_individual_record; eauto.
    - rewrite <- Hid in Hk. exact (calmK_write_individual_record j x s tt s1 Hk H).
    - unfold write_individual_record in H. mstep H. mstep H.
      match goal with E : log_rec _ _ = Ok (_, ?sa) |- _ => destruct (quiet_log_rec _ _ _ _ E) as (_ & En1 & _) end.
      destruct (bk_put_ind_spec _ _ _ H) as (_ & En2 & _). congruence.
  Qed.
End Calm.

(* ====================================================================================================================
   3. The engine functions split at the places where Python calls the tracker, and the calls
   ==================================================================================================================== *)
Ltac unf :=
  repeat first
    [ progress cbv zeta
    | (apply tk_bind_step; intros)
    | match goal with
      | |- (if ?b then _ else _) _ = _ => destruct b
      | |- (match ?x with _ => _ end) _ = _ => destruct x
      end
    | reflexivity ].

Section Split.
  Variable cf : config.

  (* Node.release up to (and excluding) the recursive call of release_blocked_individual: returns whom to release next *)
  Definition rel_head (j i d : Z) : M (option (Z * Z)) :=
    t <- gets now ;;
    x <- get_ind i ;;
    nd <- get_node j ;;
    q <- lift E_Remove (nthZ (n_queues nd) (i_pprio x)) ;;
    q' <- lift E_Remove (remove_first i q) ;;
    let nd1 := nd <| n_queues := updZ (n_queues nd) (i_pprio x) q' |> <| n_pop := n_pop nd - 1 |> <| n_insvc := n_insvc nd - 1 |> in
    put_node nd1 ;;;
    let x1 := x <| i_qd := Some (n_pop nd1) |> <| i_exit := Some t |> in
    put_ind x1 ;;;
    write_individual_record cf j x1 ;;;
    inf <- is_inf cf j ;;
    freed <- (if inf then ret None
              else sid <- lift E_NoServer (i_server x1) ;;
                   nd2 <- get_node j ;;
                   sv <- lift E_NoServer (find_server sid (n_servers nd2)) ;;
                   sstart <- lift E_NoServer (i_sst x1) ;;
                   put_node (nd2 <| n_servers := put_server_l (sv <| sv_cust := None |> <| sv_busy := false |>
                                                                  <| sv_busy_time := sv_busy_time sv - sv_wrapped sv + (t - sstart) |> <| sv_wrapped := 0 |> <| sv_total_time := Some t |>) (n_servers nd2) |>) ;;;
                   ret (Some sid)) ;;
    x2 <- get_ind i ;;
    let x3 := x2 <| i_server := (if inf then i_server x2 else None) |> <| i_arr := None |> <| i_stime := None |> <| i_sst := None |> <| i_send := None |>
                 <| i_exit := None |> <| i_qa := None |> <| i_qd := None |> <| i_dest := None |> in
    put_ind x3 ;;;
    (* <- here Python calls change_state_release(self, next_node, next_individual, next_individual.is_blocked) *)
    begin_service_if_possible_release cf j freed ;;;
    (if d =? 0 then exit_accept x3 true else accept cf d x3) ;;;       (* accept ends with change_state_accept *)
    nd3 <- get_node j ;;
    nc <- ncfg_of cf j ;;
    if (0 <? n_lenbq nd3) && (match nc_cap nc with None => true | Some cap => n_pop nd3 <? cap end) then
      match n_bq nd3 with
      | [] => fail E_Index
      | (from, y) :: rest =>
        fnd <- get_node from ;;
        (if memZ y (all_individuals fnd) then ret tt else fail E_Index) ;;;
        put_node (nd3 <| n_bq := rest |> <| n_lenbq := n_lenbq nd3 - 1 |>) ;;;
        ret (Some (from, y))
      end
    else ret None.

  Lemma release_unfold f j i d s :
    release cf (S f) j i d s =
    bind (rel_head j i d) (fun r => match r with Some (from, y) => release cf f from y j | None => ret tt end) s.
  Proof. cbn [release]. unfold rel_head. unf. Qed.

  (* Node.finish_service up to the decision "is there space at the destination": returns (customer, destination, space) *)
  Definition fs_head (j : Z) : M (Z * Z * bool) :=
    nd <- get_node j ;;
    i <- (match n_next_inds nd with
          | [] => fail E_NoInd
          | [a] => ret a
          | l => choice_uniform l
          end) ;;
    x <- get_ind i ;;
    nc <- ncfg_of cf j ;;
    x1 <- (match nc_ccm nc with
           | None => ret x
           | Some m =>
             row <- lift E_Config (nthZ m (i_cls x)) ;;
             k <- choice_weighted 8 row ;;
             let c' := Z.of_nat k in
             p' <- lift E_Config (nthZ (cf_prio cf) c') ;;
             ret (x <| i_pcls := i_cls x |> <| i_cls := c' |> <| i_pprio := i_prio x |> <| i_prio := p' |>)
           end) ;;
    rows <- lift E_Config (nthZ (cf_tm cf) (i_cls x1)) ;;
    row <- lift E_Config (nthZ rows (j - 1)) ;;
    k <- choice_weighted 8 (row ++ [8 - zsum row]) ;;
    let d := if Nat.ltb k (length row) then Z.of_nat k + 1 else 0 in
    let x2 := x1 <| i_dest := Some (if d =? 0 then -1 else d) |> in
    put_ind x2 ;;;
    inf <- is_inf cf j ;;
    (if inf then ret tt
     else sid <- lift E_NoServer (i_server x2) ;;
          nd1 <- get_node j ;;
          sv <- lift E_NoServer (find_server sid (n_servers nd1)) ;;
          put_node (nd1 <| n_servers := put_server_l (sv <| sv_next_end := None |>) (n_servers nd1) |>)) ;;;
    space <- (if d =? 0 then ret true
              else dn <- get_node d ;; dc <- ncfg_of cf d ;;
                   ret (match nc_cap dc with None => true | Some cap => n_pop dn <? cap end)) ;;
    ret (i, d, space).

  Lemma finish_service_unfold j s :
    finish_service cf j s =
    bind (fs_head j) (fun r => let '(i, d, space) := r in
                               if space then (fl <- gets fuel_of ;; release cf fl j i d) else block_individual j i d) s.
  Proof. unfold finish_service, fs_head. unf. Qed.

  (* ArrivalNode.release_individual up to the decision: true = the customer is to be accepted by node j (everything before
     the accept is done), false = it was turned away (rejected or baulked; done) *)
  Definition ri_head (j : Z) (x : ind) : M bool :=
    nd <- get_node j ;; nc <- ncfg_of cf j ;; sp <- sys_population ;;
    put_ind x ;;;
    let full := (match nc_cap nc with None => false | Some cap => cap <=? n_pop nd end)
                || (match cf_syscap cf with None => false | Some sc => sc <=? sp end) in
    if full then write_br_record j x 4 ;;; exit_accept x false ;;; ret false
    else
      tabs <- lift E_Config (nthZ (cf_baulk cf) (i_cls x)) ;;
      tab <- lift E_Config (nthZ tabs (j - 1)) ;;
      match tab with
      | None => modify (fun s => s <| arr := arr s <| a_accepted := a_accepted (arr s) + 1 |> |>) ;;; ret true
      | Some tb =>
        u <- draw_unif ;;
        let p4 := match nth_error tb (Z.to_nat (Z.min (n_pop nd) (Z.of_nat (length tb) - 1))) with Some p => p | None => 0 end in
        if 4 * u <? p4 * two53 then write_br_record j x 3 ;;; exit_accept x false ;;; ret false
        else modify (fun s => s <| arr := arr s <| a_accepted := a_accepted (arr s) + 1 |> |>) ;;; ret true
      end.

  Lemma tk_bind_unit (m : M unit) s : bind m (fun _ => ret tt) s = m s.
  Proof. unfold bind, ret. destruct (m s) as [[[] s1]| |]; reflexivity. Qed.

  Lemma release_individual_unfold j x s :
    release_individual cf j x s = bind (ri_head j x) (fun b => if b then accept cf j x else ret tt) s.
  Proof.
    unfold release_individual, ri_head.
    repeat first
      [ progress cbv zeta
      | (apply tk_bind_step; intros)
      | match goal with
        | |- exit_accept ?x ?c ?s1 = bind (bind (exit_accept ?x ?c) (fun _ => ret false)) _ ?s1 =>
          unfold bind; destruct (exit_accept x c s1) as [[[] s2]| |]; reflexivity
        | |- (if ?b then _ else _) _ = _ => destruct b
        | |- (match ?x with _ => _ end) _ = _ => destruct x
        end
      | reflexivity ].
  Qed.

  (* ---------- the tracker calls of each engine function ---------- *)
  Fixpoint calls_release (f : nat) (j i d : Z) (s : sim) : list call :=
    match f with
    | O => []
    | S f' =>
      match find_ind i (inds s) with
      | None => []
      | Some x =>
        (Rel j d i (i_pcls x) (i_blocked x) :: (if d =? 0 then [] else [Acc d (i_cls x)])) ++
        match rel_head j i d s with
        | Ok (Some (from, y), sP) => calls_release f' from y j sP
        | _ => []
        end
      end
    end.

  Definition calls_fs (j : Z) (s : sim) : list call :=
    match fs_head j s with
    | Ok ((i, d, space), s1) =>
      if space then calls_release (fuel_of s1) j i d s1
      else match find_ind i (inds s1) with Some x => [Blk j d i (i_pcls x)] | None => [] end
    | _ => []
    end.

  Definition calls_ri (j : Z) (x : ind) (s : sim) : list call :=
    match ri_head j x s with Ok (true, _) => [Acc j (i_cls x)] | _ => [] end.

  Fixpoint calls_batch (n : nat) (j c p : Z) (s : sim) : list call :=
    match n with
    | O => []
    | S m =>
      let s1 := s <| arr := arr s <| a_created := a_created (arr s) + 1 |> |> in
      let x := new_ind (a_created (arr s1)) c p in
      calls_ri j x s1 ++ match release_individual cf j x s1 with Ok (_, s2) => calls_batch m j c p s2 | _ => [] end
    end.

  Definition calls_arrival (s : sim) : list call :=
    let j := a_next_node (arr s) in let c := a_next_cls (arr s) in
    match draw_batch s with
    | Ok (b, s1) =>
      if b <? 0 then []
      else match nthZ (cf_prio cf) c with Some p => calls_batch (Z.to_nat b) j c p s1 | None => [] end
    | _ => []
    end.

  Definition calls_event_step (s : sim) : list call :=
    let s0 := s <| log := [] |> in
    if next_active s0 =? 0 then calls_arrival s0 else calls_fs (next_active s0) s0.
End Split.

(* ====================================================================================================================
   4. Every engine function moves the measures exactly as its calls say
   ==================================================================================================================== *)
Section Walk.
  Variable cf : config.

  (* ---------- a customer in flight is written into the table ---------- *)
  Lemma tk_put_flight x' fl e s s0 : WFx (i_id x' :: fl) s -> Qx e s -> put_ind x' s = Ok (tt, s0) ->
    (forall ps, mu ps s0 = mu ps s) /\ Qx e s0 /\ shp s0 = shp s /\ nodes s0 = nodes s /\
    klook s0 (i_id x') = Some (key x') /\ (forall i, i <> i_id x' -> klook s0 i = klook s i).
  Proof.
    intros HW HQ H. destruct (bk_put_ind_spec _ _ _ H) as (Ei & En & _ & Esh).
    assert (Hk1 : klook s0 (i_id x') = Some (key x')) by (unfold klook; rewrite Ei, find_put_same; reflexivity).
    assert (Hk2 : forall i, i <> i_id x' -> klook s0 i = klook s i) by (intros i Hne; unfold klook; rewrite Ei, find_put_other by exact Hne; reflexivity).
    pose proof (ql_shape _ _ Esh) as Eq.
    split; [intros ps; eapply mu_flight; eauto|]. split; [eapply Qx_flight; eauto|]. auto.
  Qed.

  (* ---------- Node.accept: change_state_accept(node j, x) ---------- *)
  Lemma accept_tr j x fl s s' : WFx (i_id x :: fl) s -> Qx [] s -> accept cf j x s = Ok (tt, s') ->
    Tr [Acc j (i_cls x)] s s' /\ Qx [] s'.
  Proof.
    intros HW HQ H. unfold accept in H.
    mstep H.
    match goal with Hx : nthZ (nodes s) (j - 1) = Some ?ndx |- _ => rename ndx into nd; rename Hx into Hn end.
    mstep H.
    match goal with E : put_ind ?x' s = Ok (?u, ?sa) |- _ => destruct u; set (x1 := x') in *; rename sa into s0; rename E into Eput end.
    destruct (tk_put_flight x1 fl [] s s0 HW HQ Eput) as (M0 & Q0 & Esh0 & En0 & Hk1 & _).
    change (klook s0 (i_id x) = Some (false, i_cls x, i_cls x)) in Hk1.
    assert (I0 : Idx s0) by (eapply Idx_shape; [exact Esh0|eapply WFx_Idx; exact HW]).
    rewrite <- En0 in Hn.
    mstep H.
    match goal with Hx : match nthZ (n_queues nd) (i_prio x) with _ => _ end = Some ?qq |- _ => rename qq into qs; rename Hx into Hqs end.
    destruct (nthZ (n_queues nd) (i_prio x)) as [q|] eqn:Eq; [|discriminate Hqs]. injection Hqs as <-.
    mstep H.
    match goal with E : put_node ?nd' s0 = Ok (?u, ?sa) |- _ => destruct u; set (nd1 := nd') in *; rename sa into s1; rename E into Eputn end.
    assert (Hperm : Permutation (all_individuals nd1) (i_id x :: all_individuals nd)).
    { destruct (nthZ_nat _ _ _ Eq) as (kp & Hkp & Hqk). unfold all_individuals, nd1. cbn. rewrite Hkp, updZ_nat.
      eapply concat_upd_perm; [exact Hqk|]. rewrite Permutation_app_comm. reflexivity. }
    assert (B1 : forall ps, bump (mu ps s0) j (1, map (fun p : pred => bz (p false (i_cls x))) ps) = Some (mu ps s1)).
    { intros ps. apply (bump_put ps nd nd1 s0 s1 j 1 (fun p => bz (p false (i_cls x))) I0 Hn Eputn eq_refl).
      - apply (tk_zlen_perm _ _ _ Hperm).
      - intros p. rewrite (tk_cntq_perm p s0 _ _ _ Hperm), Hk1. reflexivity. }
    assert (I1 : Idx s1) by (eapply Idx_put; [exact Eputn|exact I0|exists nd; cbn; rewrite (Idx_get _ _ _ I0 Hn); exact Hn]).
    destruct (mu_put [] nd nd1 s0 s1 j I0 Hn Eputn eq_refl) as [_ Ei1].
    assert (S2 : Same s1 s') by (eapply still_bsip_accept; eauto).
    split.
    - apply Tr_one. intros ps. cbn [dvec fst snd]. rewrite <- (M0 ps), (mu_same ps _ _ S2). apply B1.
    - eapply Qx_same; [exact S2|]. intros i b pc c Hin _ Hk Hb.
      assert (Hk0 : klook s0 i = Some (b, pc, c)) by (unfold klook in *; rewrite <- Ei1; exact Hk).
      destruct (In_ql_put nd nd1 s0 s1 j i I0 Hn Eputn eq_refl Hin) as [Hi|Hi].
      + apply (Permutation_in _ Hperm) in Hi. destruct Hi as [<-|Hi].
        * rewrite Hk1 in Hk0. injection Hk0 as _ <- <-. reflexivity.
        * eapply (Q0 i b pc c); [eapply In_ql_node; eauto|intros []|exact Hk0|exact Hb].
      + eapply (Q0 i b pc c); [exact Hi|intros []|exact Hk0|exact Hb].
  Qed.

  (* ---------- ExitNode.accept: no tracker call ---------- *)
  Lemma exit_accept_tr x c fl s s' : WFx (i_id x :: fl) s -> Qx [] s -> exit_accept x c s = Ok (tt, s') ->
    Tr [] s s' /\ Qx [] s'.
  Proof.
    intros HW HQ H. unfold exit_accept in H. mstep H.
    match goal with E : del_ind _ s = Ok (_, ?sa) |- _ => unfold del_ind in E; apply tk_modify_spec in E; subst sa end.
    apply tk_modify_spec in H. subst s'.
    match goal with |- Tr [] s ?st /\ _ =>
      assert (Eq : ql st = ql s) by reflexivity;
      assert (Hk : forall i, i <> i_id x -> klook st i = klook s i) by (intros i Hne; unfold klook; cbn; rewrite find_del_other by exact Hne; reflexivity)
    end.
    split; [apply Tr_nil; intros ps; eapply mu_flight; eauto|eapply Qx_flight; eauto].
  Qed.

  (* ---------- Node.release up to the cascade: change_state_release, then the accept of the destination ---------- *)
  Lemma rel_head_tr j i d s r sP : WFx [] s -> Qx [i] s -> rel_head cf j i d s = Ok (r, sP) ->
    exists x, find_ind i (inds s) = Some x /\
      Tr (Rel j d i (i_pcls x) (i_blocked x) :: (if d =? 0 then [] else [Acc d (i_cls x)])) s sP /\ WFx [] sP /\ Qx [] sP.
  Proof.
    intros HW HQ H. unfold rel_head in H.
    mstep H. mstep H. mstep H. mstep H. mstep H.
    match goal with Hx : find_ind i (inds s) = Some ?xx |- _ => rename xx into x; rename Hx into Hf end.
    match goal with Hx : nthZ (nodes s) (j - 1) = Some ?ndx |- _ => rename ndx into nd; rename Hx into Hn end.
    match goal with Hx : nthZ (n_queues nd) (i_pprio x) = Some ?qq |- _ => rename qq into q; rename Hx into Hq end.
    match goal with Hx : remove_first i q = Some ?qq |- _ => rename qq into q'; rename Hx into Hq' end.
    exists x. split; [exact Hf|].
    pose proof (WFx_Idx _ _ HW) as I0. pose proof (find_ind_id _ _ _ Hf) as Hid.
    assert (Hk : klook s i = Some (key x)) by (unfold klook; rewrite Hf; reflexivity).
    (* the customer leaves its queue *)
    mstep H.
    match goal with E : put_node ?nd' s = Ok (?u, ?sa) |- _ => destruct u; rename sa into s0; rename E into Eput; set (nd1 := nd') in * end.
    assert (Hperm : Permutation (all_individuals nd) (i :: all_individuals nd1)).
    { destruct (nthZ_nat _ _ _ Hq) as (kp & Hkp & Hqk). unfold all_individuals, nd1. cbn. rewrite Hkp, updZ_nat. symmetry.
      eapply concat_upd_perm_rm; [exact Hqk|]. apply remove_first_perm. exact Hq'. }
    assert (X0 : WFx [i] s0).
    { destruct (nthZ_nat _ _ _ Hn) as (k & Hk' & Hnk). pose proof (Idx_get _ _ _ I0 Hn) as Hidn.
      assert (Hsh := shp_put_node _ _ _ k nd Eput ltac:(cbn; lia) Hnk).
      unfold WFx. rewrite Hsh. unfold WFx, shp in HW.
      eapply WFsh_rm; [exact HW|rewrite nth_error_map, Hnk; reflexivity|reflexivity|reflexivity|]. cbn. exact Hperm. }
    assert (B0 : forall ps, bump (mu ps s) j (-1, map (fun p : pred => - bz (p (i_blocked x) (i_pcls x))) ps) = Some (mu ps s0)).
    { intros ps. apply (bump_put ps nd nd1 s s0 j (-1) (fun p => - bz (p (i_blocked x) (i_pcls x))) I0 Hn Eput eq_refl).
      - rewrite (tk_zlen_perm _ _ _ Hperm). lia.
      - intros p. rewrite (tk_cntq_perm p s _ _ _ Hperm), Hk. cbn [pkk key]. lia. }
    destruct (mu_put [] nd nd1 s s0 j I0 Hn Eput eq_refl) as [_ Ei0].
    assert (Hk0 : klook s0 i = Some (key x)) by (unfold klook in *; rewrite Ei0; exact Hk).
    assert (Q0 : Qx [] s0).
    { intros i' b pc c Hin _ Hl Hb.
      assert (Hne : i' <> i) by (intros ->; exact (WFx_notin _ _ _ X0 Hin)).
      assert (Hl' : klook s i' = Some (b, pc, c)) by (unfold klook in *; rewrite <- Ei0; exact Hl).
      apply (HQ i' b pc c); [|intros [E|[]]; congruence|exact Hl'|exact Hb].
      destruct (In_ql_put nd nd1 s s0 j i' I0 Hn Eput eq_refl Hin) as [Hi|Hi]; [|exact Hi].
      eapply In_ql_node; [exact Hn|]. eapply Permutation_in; [symmetry; exact Hperm|]. right. exact Hi. }
    assert (I0' : Idx s0) by (eapply WFx_Idx; exact X0).
    (* its record is completed and written *)
    mstep H.
    match goal with E : put_ind ?x' s0 = Ok (?u, ?sa) |- _ =>
      destruct u; set (x1 := x') in *; destruct (put_ind_Same i x1 s0 sa Hid Hk0 E) as (S1 & _ & _); rename sa into s1; clear E end.
    mstep H.
    match goal with E : write_individual_record cf j x1 s1 = Ok (?u, ?sa) |- _ =>
      destruct u; destruct (wir_Same cf j i x1 s1 sa Hid ltac:(rewrite (proj2 S1); exact Hk0) E) as (S2 & _); rename sa into s2; clear E end.
    pose proof (Same_trans _ _ _ S1 S2) as S02. clear S1 S2.
    mstep H.
    (* its server is freed *)
    mstep H.
    match goal with E : (if infb cf j then _ else _) s2 = Ok (?fr, ?sa) |- _ => rename fr into freed; rename sa into s3; rename E into Efree end.
    assert (S3 : Same s2 s3).
    { pose proof (Same_Idx _ _ S02 I0') as I2. revert Efree. destruct (infb cf j); intros Efree.
      - apply tk_ret_spec in Efree as [-> _]. apply Same_refl.
      - mstep Efree. mstep Efree. mstep Efree. mstep Efree. mstep Efree.
        match goal with Hx : nthZ (nodes s2) (j - 1) = Some ?ndx, E : put_node ?nd' s2 = Ok (?u, ?sa) |- _ =>
          destruct u; destruct (put_same ndx nd' s2 sa j I2 Hx eq_refl E) as [S3 _] end.
        apply tk_ret_spec in Efree as [-> _]. exact S3. }
    pose proof (Same_trans _ _ _ S02 S3) as S03. clear S02 S3 Efree.
    mstep H.
    match goal with Hx : find_ind i (inds s3) = Some ?xx |- _ => rename xx into x2; rename Hx into Hf3 end.
    pose proof (find_ind_id _ _ _ Hf3) as Hid2.
    assert (Hk3 : key x2 = key x).
    { pose proof (proj2 S03 i) as E. rewrite Hk0 in E. unfold klook in E. rewrite Hf3 in E. cbn in E. congruence. }
    mstep H.
    match goal with E : put_ind ?x' s3 = Ok (?u, ?sa) |- _ =>
      destruct u; set (x3 := x') in *;
      destruct (put_ind_Same i x3 s3 sa Hid2 ltac:(unfold klook; rewrite Hf3; reflexivity) E) as (S4 & _ & _); rename sa into s4; clear E end.
    pose proof (Same_trans _ _ _ S03 S4) as S04. clear S03 S4.
    (* the freed server takes the next customer *)
    mstep H.
    match goal with E : begin_service_if_possible_release cf j freed s4 = Ok (?u, ?sa) |- _ =>
      destruct u; pose proof (still_bsip_release cf j freed s4 tt sa (Same_Idx _ _ S04 I0') E) as S5; rename sa into s5; clear E end.
    pose proof (Same_trans _ _ _ S04 S5) as S05. clear S04 S5.
    pose proof (Same_WFx _ _ _ S05 X0) as X5. pose proof (Qx_same _ _ _ S05 Q0) as Q5.
    (* the customer lands *)
    mstep H.
    match goal with E : (if d =? 0 then _ else _) s5 = Ok (?u, ?sa) |- _ => destruct u; rename sa into s6; rename E into EL end.
    assert (Hid3 : i_id x3 = i) by exact Hid2.
    assert (L6 : Tr (if d =? 0 then [] else [Acc d (i_cls x)]) s5 s6 /\ Qx [] s6 /\ WFx [] s6).
    { rewrite <- Hid3 in X5. destruct (d =? 0).
      - destruct (exit_accept_tr x3 true [] s5 s6 X5 Q5 EL) as [T6 Q6]. split; [exact T6|]. split; [exact Q6|].
        eapply exit_accept_spec; eauto.
      - destruct (accept_tr d x3 [] s5 s6 X5 Q5 EL) as [T6 Q6]. split; [|split; [exact Q6|eapply accept_spec; eauto]].
        replace (i_cls x) with (i_cls x3); [exact T6|]. change (i_cls x2 = i_cls x). unfold key in Hk3. congruence. }
    destruct L6 as (T6 & Q6 & X6). clear EL.
    assert (T06 : Tr (Rel j d i (i_pcls x) (i_blocked x) :: (if d =? 0 then [] else [Acc d (i_cls x)])) s s6).
    { apply (Tr_app [Rel j d i (i_pcls x) (i_blocked x)] _ s s5 s6); [|exact T6].
      apply Tr_one. intros ps. cbn [dvec fst snd]. rewrite (mu_same ps _ _ S05). apply B0. }
    clear T6 B0.
    (* release_blocked_individual of node j: pop the head of the blocked queue *)
    mstep H. mstep H.
    match goal with Hx : nthZ (nodes s6) (j - 1) = Some ?ndx |- _ => rename ndx into nd3; rename Hx into Hn3 end.
    match type of H with (if ?c then _ else _) _ = _ => destruct c end; [|apply tk_ret_spec in H as [-> _]; auto].
    destruct (n_bq nd3) as [|[from y] rest] eqn:Ebq; [discriminate|].
    mstep H. mstep H.
    match goal with E : (if ?b then ret tt else _) ?sa = Ok (_, ?sb) |- _ =>
      assert (Hsb : sb = sa) by (destruct b; [inversion E; reflexivity|discriminate E]); rewrite Hsb in *; clear E Hsb end.
    mstep H.
    match goal with E : put_node ?nd' s6 = Ok (?u, ?sa) |- _ =>
      destruct u; destruct (put_same nd3 nd' s6 sa j (WFx_Idx _ _ X6) Hn3 eq_refl E) as [S7 _]; rename sa into sQ; clear E end.
    apply tk_ret_spec in H as [-> _].
    split; [|split; [eapply Same_WFx; eauto|eapply Qx_same; eauto]].
    eapply Tr_eq_r; [|exact T06]. intros ps. apply mu_same. exact S7.
  Qed.

  (* ---------- Node.release with the unblocking cascade ---------- *)
  Lemma release_tr : forall f j i d s s', WFx [] s -> Qx [i] s -> release cf f j i d s = Ok (tt, s') ->
    Tr (calls_release cf f j i d s) s s' /\ WFx [] s' /\ Qx [] s'.
  Proof.
    induction f as [|f IH]; intros j i d s s' HW HQ H; [discriminate|].
    rewrite release_unfold in H. unfold bind in H at 1.
    destruct (rel_head cf j i d s) as [[r sP]| |] eqn:E; [|discriminate H|discriminate H].
    destruct (rel_head_tr j i d s r sP HW HQ E) as (x & Hx & T1 & W1 & Q1).
    cbn [calls_release]. rewrite Hx, E.
    destruct r as [[from y]|].
    - destruct (IH from y j sP s' W1 (Qx_weaken [] [y] sP ltac:(intros ? []) Q1) H) as (T2 & W2 & Q2).
      split; [eapply Tr_app; eauto|auto].
    - apply tk_ret_spec in H as [-> _]. rewrite app_nil_r. auto.
  Qed.

  (* ---------- Node.block_individual: change_state_block(node j, destination d, i) ---------- *)
  Lemma block_tr j i d s s' x nd : WFx [] s -> Qx [i] s -> find_ind i (inds s) = Some x -> i_blocked x = false ->
    nthZ (nodes s) (j - 1) = Some nd -> In i (all_individuals nd) -> block_individual j i d s = Ok (tt, s') ->
    Tr [Blk j d i (i_pcls x)] s s' /\ Qx [] s'.
  Proof.
    intros HW HQ Hf Hb Hn Hin H. unfold block_individual in H.
    mstep H.
    match goal with Hx : find_ind i (inds s) = Some ?xx |- _ =>
      lazymatch xx with x => fail | _ => assert (Hxx : xx = x) by congruence; rewrite Hxx in *; clear Hxx Hx end end.
    pose proof (find_ind_id _ _ _ Hf) as Hid. pose proof (WFx_Idx _ _ HW) as I0.
    mstep H.
    match goal with E : put_ind ?x' s = Ok (?u, ?sa) |- _ => destruct u; set (xb := x') in *; rename sa into s0; rename E into Eput end.
    destruct (bk_put_ind_spec _ _ _ Eput) as (Ei & En & _ & Esh).
    assert (Hk : klook s i = Some (false, i_pcls x, i_cls x)) by (unfold klook; rewrite Hf; unfold key; cbn; rewrite Hb; reflexivity).
    assert (Hk1 : klook s0 i = Some (true, i_pcls x, i_cls x)) by (unfold klook; rewrite Ei, <- Hid; change (i_id x) with (i_id xb); rewrite find_put_same; reflexivity).
    assert (Hk2 : forall i', i' <> i -> klook s0 i' = klook s i').
    { intros i' Hne. unfold klook. rewrite Ei, find_put_other; [reflexivity|]. change (i_id xb) with (i_id x). congruence. }
    (* the queues: nobody is twice in the queues *)
    pose proof (WFx_ids _ _ HW) as Hnd. apply bk_NoDup_app_l, bk_NoDup_app_l in Hnd. fold (ql s) in Hnd.
    destruct (nthZ_nat _ _ _ Hn) as (k & Hk' & Hnk).
    assert (Hqk : nth_error (ql s) k = Some (all_individuals nd)) by (unfold ql; rewrite nth_error_map, Hnk; reflexivity).
    assert (B0 : forall ps, bump (mu ps s) j (0, map (fun p : pred => bz (p true (i_pcls x)) - bz (p false (i_pcls x))) ps) = Some (mu ps s0)).
    { intros ps. unfold bump. unfold mu at 1. rewrite tk_nthZ_map. unfold ql at 1. rewrite tk_nthZ_map, Hn. cbn [option_map]. f_equal.
      unfold mu. rewrite (ql_shape _ _ Esh). rewrite Hk', !updZ_nat.
      rewrite (tk_map_upd_at (mcell ps s) (mcell ps s0) (ql s) k (all_individuals nd) Hqk).
      - f_equal. unfold mcell. cbn [fst snd]. f_equal; [lia|]. rewrite vadd_map. apply map_ext. intros p. unfold cntq.
        rewrite (tk_filter_change (fun i0 => pkk p (klook s i0)) (fun i0 => pkk p (klook s0 i0)) (all_individuals nd) i).
        + rewrite Hk, Hk1. reflexivity.
        + eapply tk_NoDup_concat_nth; eauto.
        + exact Hin.
        + intros i' Hne. rewrite (Hk2 i' Hne). reflexivity.
      - intros k' q Hq Hne. unfold mcell. f_equal. apply map_ext. intros p. unfold cntq. f_equal. apply filter_ext_in.
        intros i' Hi'. rewrite Hk2; [reflexivity|]. intros ->. apply Hne.
        eapply (NoDup_concat_unique (ql s)); [exact Hnd|exact Hq|exact Hqk|exact Hi'|exact Hin]. }
    assert (Q0 : Qx [] s0).
    { intros i' b pc c Hi' _ Hl Hb'. rewrite (ql_shape _ _ Esh) in Hi'. destruct (Z.eq_dec i' i) as [->|Hne].
      - rewrite Hk1 in Hl. congruence.
      - rewrite (Hk2 i' Hne) in Hl. apply (HQ i' b pc c Hi'); [intros [E|[]]; congruence|exact Hl|exact Hb']. }
    mstep H.
    match goal with Hx : nthZ (nodes s0) (d - 1) = Some ?ndx, E : put_node ?nd' s0 = Ok (tt, s') |- _ =>
      destruct (put_same ndx nd' s0 s' d (Idx_shape _ _ Esh I0) Hx eq_refl E) as [S1 _] end.
    split; [|eapply Qx_same; eauto].
    apply Tr_one. intros ps. cbn [dvec fst snd]. rewrite (mu_same ps _ _ S1). apply B0.
  Qed.

  (* ---------- Node.finish_service up to the decision: the class change keeps previous_class (no tracker call) ---------- *)
  Lemma fs_head_tr j s i d space s1 : WFx [] s -> Qx [] s -> NextOk s -> fs_head cf j s = Ok ((i, d, space), s1) ->
    Tr [] s s1 /\ WFx [] s1 /\ Qx [i] s1 /\
    exists x nd, find_ind i (inds s1) = Some x /\ i_blocked x = false /\ nthZ (nodes s1) (j - 1) = Some nd /\ In i (all_individuals nd).
  Proof.
    intros HW HQ HN H. unfold fs_head in H.
    mstep H.
    match goal with Hx : nthZ (nodes s) (j - 1) = Some ?ndx |- _ => rename ndx into nd; rename Hx into Hn end.
    mstep H.
    match goal with E : _ s = Ok (?ii, ?sa) |- _ => rename ii into i0; rename sa into sA; rename E into Epick end.
    pose proof (pick_In _ _ _ _ Epick) as Hi.
    destruct (HN j nd i0 Hn Hi) as (Hin & x0 & Hx0 & Hb0).
    assert (QA : Same s sA /\ inds sA = inds s /\ nodes sA = nodes s).
    { match type of Epick with ?m s = _ => assert (Hq : quiet m) by (repeat first [apply q_choice_uniform | bk_q_step]) end.
      exact (quiet_Same _ _ _ _ Hq Epick). }
    destruct QA as (SA & EiA & EnA). clear Epick.
    mstep H.
    match goal with Hx : find_ind i0 (inds sA) = Some ?xx |- _ => rename xx into x; rename Hx into Hf end.
    assert (x = x0) by (rewrite EiA in Hf; congruence). subst x0. clear Hx0.
    pose proof (find_ind_id _ _ _ Hf) as Hid.
    mstep H.
    (* change_customer_class *)
    mstep H.
    match goal with E : _ sA = Ok (?xx, ?sa) |- _ => rename xx into x1; rename sa into sB; rename E into Ecc end.
    assert (CB : Same sA sB /\ inds sB = inds sA /\ i_id x1 = i0 /\ i_blocked x1 = false /\ (i_pcls x1 = i_pcls x \/ i_pcls x1 = i_cls x)).
    { revert Ecc.
      match goal with |- match nc_ccm ?ncx with _ => _ end _ = _ -> _ => destruct (nc_ccm ncx) as [m|]; intros Ecc end.
      - mstep Ecc. mstep Ecc.
        match goal with E : choice_weighted _ _ sA = Ok (_, ?sa) |- _ => destruct (quiet_Same _ _ _ _ (q_choice_weighted _ _) E) as (SB & EiB & _) end.
        mstep Ecc. apply tk_ret_spec in Ecc as [-> ->]. cbn. split; [exact SB|]. split; [exact EiB|]. split; [exact Hid|]. split; [exact Hb0|right; reflexivity].
      - apply tk_ret_spec in Ecc as [-> ->]. split; [apply Same_refl|]. split; [reflexivity|]. split; [exact Hid|]. split; [exact Hb0|left; reflexivity]. }
    destruct CB as (SB & EiB & Hid1 & Hb1 & Hpc1). clear Ecc.
    mstep H. mstep H.
    mstep H.
    match goal with E : choice_weighted _ _ sB = Ok (?kk, ?sa) |- _ =>
      destruct (quiet_Same _ _ _ _ (q_choice_weighted _ _) E) as (SC & EiC & _); rename kk into k; rename sa into sC; clear E end.
    pose proof (Same_trans _ _ _ SA (Same_trans _ _ _ SB SC)) as S0C.
    assert (HfC : find_ind i0 (inds sC) = Some x) by (rewrite EiC, EiB; exact Hf).
    clear SA SB SC.
    (* the destination is recorded *)
    mstep H.
    match goal with E : put_ind ?x' sC = Ok (?u, ?sa) |- _ => destruct u; set (x2 := x') in *; rename sa into sD; rename E into Eput end.
    destruct (bk_put_ind_spec _ _ _ Eput) as (EiD & EnD & _ & EshD).
    assert (HfD : find_ind i0 (inds sD) = Some x2) by (rewrite EiD; rewrite <- Hid1 at 1; change (i_id x1) with (i_id x2); apply find_put_same).
    assert (HkD : forall i', i' <> i0 -> klook sD i' = klook sC i').
    { intros i' Hne. unfold klook. rewrite EiD, find_put_other; [reflexivity|]. change (i_id x2) with (i_id x1). congruence. }
    assert (HinC : In i0 (concat (ql sC))) by (rewrite (ql_shape _ _ (proj1 S0C)); eapply In_ql_node; eauto).
    assert (Hpc : i_pcls x1 = i_pcls x).
    { destruct Hpc1 as [E|E]; [exact E|]. rewrite E. symmetry.
      apply (Qx_same _ _ _ S0C HQ i0 false (i_pcls x) (i_cls x) HinC); [intros []| |reflexivity].
      unfold klook. rewrite HfC. cbn [option_map]. unfold key. rewrite Hb0. reflexivity. }
    assert (MD : forall ps, mu ps sD = mu ps sC).
    { intros ps. apply mu_ext; [apply ql_shape; exact EshD|]. intros i' p _. destruct (Z.eq_dec i' i0) as [->|Hne]; [|rewrite HkD by exact Hne; reflexivity].
      unfold klook. rewrite HfD, HfC. cbn [option_map pkk key]. change (i_blocked x2) with (i_blocked x1). change (i_pcls x2) with (i_pcls x1).
      rewrite Hb1, Hb0, Hpc. reflexivity. }
    assert (QD : Qx [i0] sD).
    { intros i' b pc c Hi' He Hkl Hb'. rewrite (ql_shape _ _ EshD) in Hi'.
      assert (Hne : i' <> i0) by (intros ->; apply He; left; reflexivity).
      rewrite (HkD i' Hne) in Hkl. apply (Qx_same _ _ _ S0C HQ i' b pc c Hi'); [intros []|exact Hkl|exact Hb']. }
    assert (XD : WFx [] sD) by (eapply WFx_shape; [exact EshD|eapply Same_WFx; eauto]).
    mstep H.
    (* the server's end-of-service date is erased *)
    mstep H.
    match goal with E : (if infb cf j then _ else _) sD = Ok (?u, ?sa) |- _ => destruct u; rename sa into sE; rename E into Esv end.
    assert (SE : Same sD sE /\ inds sE = inds sD).
    { pose proof (WFx_Idx _ _ XD) as ID. revert Esv. destruct (infb cf j); intros Esv.
      - apply tk_ret_spec in Esv as [-> _]. split; [apply Same_refl|reflexivity].
      - mstep Esv. mstep Esv. mstep Esv.
        match goal with Hx : nthZ (nodes sD) (j - 1) = Some ?ndx, E : put_node ?nd' sD = Ok (tt, sE) |- _ =>
          exact (put_same ndx nd' sD sE j ID Hx eq_refl E) end. }
    destruct SE as (SE & EiE). clear Esv.
    (* is there space at the destination? *)
    mstep H.
    match goal with E : (if ?dz then ret true else _) sE = Ok (?sp, ?sb) |- _ =>
      assert (Hsb : sb = sE) by
        (revert E; destruct dz; intros E; [apply tk_ret_spec in E as [-> _]; reflexivity|mstep E; mstep E; apply tk_ret_spec in E as [-> _]; reflexivity]);
      rewrite Hsb in *; clear E Hsb end.
    apply tk_ret_spec in H as [-> Heq]. injection Heq as -> -> ->.
    assert (Esh : shp sE = shp s) by (rewrite (proj1 SE), EshD; exact (proj1 S0C)).
    split; [|split; [|split]].
    - apply Tr_nil. intros ps. rewrite (mu_same ps _ _ SE), MD. apply mu_same. exact S0C.
    - eapply WFx_shape; [exact Esh|exact HW].
    - eapply Qx_same; eauto.
    - destruct (node_shape_at s sE j nd Esh Hn) as (nd' & Hn' & Eq'). exists x2, nd'. rewrite EiE, Eq'. auto.
  Qed.

  (* ---------- Node.finish_service ---------- *)
  Lemma finish_service_tr j s s' : WFx [] s -> Qx [] s -> NextOk s -> finish_service cf j s = Ok (tt, s') ->
    Tr (calls_fs cf j s) s s' /\ Qx [] s'.
  Proof.
    intros HW HQ HN H. rewrite finish_service_unfold in H. unfold bind in H at 1.
    destruct (fs_head cf j s) as [[[[i d] space] s1]| |] eqn:E; [|discriminate H|discriminate H].
    destruct (fs_head_tr j s i d space s1 HW HQ HN E) as (T1 & W1 & Q1 & x & nd & Hx & Hb & Hn & Hin).
    unfold calls_fs. rewrite E. destruct space.
    - mstep H. destruct (release_tr _ _ _ _ _ _ W1 Q1 H) as (T2 & _ & Q2).
      split; [exact (Tr_app [] _ _ _ _ T1 T2)|exact Q2].
    - rewrite Hx. destruct (block_tr j i d s1 s' x nd W1 Q1 Hx Hb Hn Hin H) as (T2 & Q2).
      split; [exact (Tr_app [] _ _ _ _ T1 T2)|exact Q2].
  Qed.

  (* ---------- ArrivalNode.release_individual ---------- *)
  Lemma ri_head_tr j x fl s b s1 : WFx (i_id x :: fl) s -> Qx [] s -> ri_head cf j x s = Ok (b, s1) ->
    Tr [] s s1 /\ Qx [] s1 /\ (b = true -> WFx (i_id x :: fl) s1).
  Proof.
    intros HW HQ H. unfold ri_head in H.
    mstep H. mstep H. mstep H.
    try match goal with E : sys_population s = Ok (_, ?sa) |- _ =>
      assert (Hsa : sa = s) by (unfold sys_population in E; mstep E; apply tk_ret_spec in E as [-> _]; reflexivity); rewrite Hsa in *; clear E Hsa end.
    mstep H.
    match goal with E : put_ind x s = Ok (?u, ?sa) |- _ =>
      destruct u; destruct (tk_put_flight x fl [] s sa HW HQ E) as (M1 & Q1 & Esh1 & _ & _ & _); rename sa into s0; clear E end.
    pose proof (WFx_shape _ _ _ Esh1 HW) as W1.
    assert (T1 : Tr [] s s0) by (apply Tr_nil; exact M1).
    assert (Hrej : forall ty sa, Same s0 sa -> (write_br_record j x ty;;; exit_accept x false;;; ret false) sa = Ok (b, s1) ->
                   Tr [] s s1 /\ Qx [] s1 /\ (b = true -> WFx (i_id x :: fl) s1)).
    { intros ty sa Sa Ha. mstep Ha.
      match goal with E : write_br_record _ _ _ sa = Ok (_, ?sb) |- _ => destruct (quiet_Same _ _ _ _ (q_write_br_record _ _ _) E) as (Sb & _) end.
      mstep Ha. apply tk_ret_spec in Ha as [-> ->].
      pose proof (Same_trans _ _ _ Sa Sb) as S2.
      match goal with E : exit_accept x false ?sb = Ok (?u, ?sc) |- _ =>
        destruct u; destruct (exit_accept_tr x false fl sb sc (Same_WFx _ _ _ S2 W1) (Qx_same _ _ _ S2 Q1) E) as (T3 & Q3) end.
      split; [|split; [exact Q3|discriminate]].
      apply (Tr_app [] [] s s0 _ T1). eapply Tr_eq_l; [|exact T3]. intros ps. symmetry. apply mu_same. exact S2. }
    assert (Hacc : forall sa, Same s0 sa -> (modify (fun s => s <| arr := arr s <| a_accepted := a_accepted (arr s) + 1 |> |>);;; ret true) sa = Ok (b, s1) ->
                   Tr [] s s1 /\ Qx [] s1 /\ (b = true -> WFx (i_id x :: fl) s1)).
    { intros sa Sa Ha. mstep Ha.
      match goal with E : modify _ sa = Ok (_, ?sb) |- _ => apply tk_modify_spec in E; subst sb end.
      apply tk_ret_spec in Ha as [-> ->].
      match goal with |- Tr [] s ?st /\ _ => assert (S2 : Same s0 st) by (eapply Same_trans; [exact Sa|split; reflexivity]) end.
      split; [|split; [eapply Qx_same; eauto|intros _; eapply Same_WFx; eauto]].
      eapply Tr_eq_r; [|exact T1]. intros ps. apply mu_same. exact S2. }
    match type of H with (if ?c then _ else _) _ = _ => destruct c end; [eapply Hrej; [apply Same_refl|exact H]|].
    mstep H. mstep H.
    match type of H with (match ?t with _ => _ end) _ = _ => destruct t as [tb|] end; [|eapply Hacc; [apply Same_refl|exact H]].
    mstep H.
    match goal with E : draw_unif s0 = Ok (_, ?sb) |- _ => destruct (quiet_Same _ _ _ _ quiet_draw_unif E) as (S2 & _) end.
    match type of H with (if ?c then _ else _) _ = _ => destruct c end; [eapply Hrej; eauto|eapply Hacc; eauto].
  Qed.

  Lemma release_individual_tr j x fl s s' : WFx (i_id x :: fl) s -> Qx [] s -> release_individual cf j x s = Ok (tt, s') ->
    Tr (calls_ri cf j x s) s s' /\ Qx [] s'.
  Proof.
    intros HW HQ H. rewrite release_individual_unfold in H. unfold bind in H at 1.
    destruct (ri_head cf j x s) as [[b s1]| |] eqn:E; [|discriminate H|discriminate H].
    destruct (ri_head_tr j x fl s b s1 HW HQ E) as (T1 & Q1 & W1).
    unfold calls_ri. rewrite E. destruct b.
    - destruct (accept_tr j x fl s1 s' (W1 eq_refl) Q1 H) as (T2 & Q2). split; [exact (Tr_app [] _ _ _ _ T1 T2)|exact Q2].
    - apply tk_ret_spec in H as [-> _]. auto.
  Qed.

  Lemma batch_loop_tr : forall n j c p s s', WFx [] s -> Qx [] s -> batch_loop cf n j c p s = Ok (tt, s') ->
    Tr (calls_batch cf n j c p s) s s' /\ WFx [] s' /\ Qx [] s'.
  Proof.
    induction n as [|n IH]; intros j c p s s' HW HQ H; cbn [batch_loop] in H.
    - apply tk_ret_spec in H as [-> _]. cbn [calls_batch]. split; [apply Tr_nil; reflexivity|auto].
    - mstep H.
      match goal with E : modify _ s = Ok (_, ?sa) |- _ => apply tk_modify_spec in E; subst sa end.
      mstep H. mstep H. cbn [calls_batch]. cbv zeta.
      match goal with E : release_individual cf j ?xx ?sa = Ok (?u, ?sb) |- _ => destruct u; set (x := xx) in *; set (s1 := sa) in *; rename sb into s2; rename E into Er end.
      assert (W1 : WFx [i_id x] s1) by (destruct HW as [HW0 HW1]; unfold WFx, shp in *; cbn; apply WFsh_spawn; split; assumption).
      assert (Q1 : Qx [] s1) by exact HQ.
      destruct (release_individual_tr j x [] s1 s2 W1 Q1 Er) as (T2 & Q2).
      pose proof (release_individual_spec cf j x [] s1 s2 W1 Er) as W2.
      destruct (IH j c p s2 s' W2 Q2 H) as (T3 & W3 & Q3).
      split; [|auto]. rewrite Er. eapply Tr_app; [|exact T3]. exact T2.
  Qed.

  Lemma arrival_have_event_tr s s' : WFx [] s -> Qx [] s -> arrival_have_event cf s = Ok (tt, s') ->
    Tr (calls_arrival cf s) s s' /\ Qx [] s'.
  Proof.
    intros HW HQ H. unfold arrival_have_event in H.
    mstep H.
    mstep H.
    match goal with E : draw_batch s = Ok (?bb, ?sb) |- _ =>
      destruct (quiet_Same _ _ _ _ quiet_draw_batch E) as (S1 & _); rename bb into b; rename sb into s1; rename E into Eb end.
    unfold calls_arrival. rewrite Eb.
    mstep H.
    match goal with E : (if ?c then _ else _) ?sa = Ok (_, ?sb) |- _ =>
      destruct c; [discriminate E|apply tk_ret_spec in E as [-> _]] end.
    mstep H.
    match goal with Hx : nthZ (cf_prio cf) _ = Some ?pp |- _ => rewrite Hx; rename pp into p end.
    mstep H.
    match goal with E : batch_loop _ _ _ _ _ _ = Ok (?u, ?sb) |- _ =>
      destruct u; destruct (batch_loop_tr _ _ _ _ _ _ (Same_WFx _ _ _ S1 HW) (Qx_same _ _ _ S1 HQ) E) as (T2 & W2 & Q2); rename sb into s2; clear E end.
    mstep H.
    match goal with E : draw_arr s2 = Ok (_, ?sb) |- _ => destruct (quiet_Same _ _ _ _ quiet_draw_arr E) as (S3 & _); rename sb into s3; clear E end.
    mstep H. mstep H. mstep H.
    mstep H.
    match goal with E : modify _ s3 = Ok (_, ?sb) |- _ => apply tk_modify_spec in E; subst sb end.
    match type of H with find_next_event_date ?st = _ =>
      assert (S4 : Same s3 st) by (split; reflexivity); destruct (quiet_Same _ _ _ _ q_find_next_event_date H) as (S5 & _) end.
    pose proof (Same_trans _ _ _ S3 (Same_trans _ _ _ S4 S5)) as S25.
    split; [|eapply Qx_same; eauto].
    eapply Tr_eq_l; [intros ps; symmetry; apply (mu_same ps _ _ S1)|]. eapply Tr_eq_r; [intros ps; apply (mu_same ps _ _ S25)|]. exact T2.
  Qed.

  (* ---------- one event ---------- *)
  Theorem event_step_tr s s' : WFx [] s -> Qx [] s -> NextOk s -> event_step cf s = Ok (tt, s') ->
    Tr (calls_event_step cf s) s s' /\ Qx [] s'.
  Proof.
    intros HW HQ HN H. unfold event_step in H.
    mstep H.
    match goal with E : modify _ s = Ok (_, ?sa) |- _ => apply tk_modify_spec in E; subst sa end.
    mstep H.
    unfold calls_event_step. cbv zeta.
    match type of H with _ ?st = _ => set (s0 := st) in * end.
    assert (S0 : Same s s0) by (split; reflexivity).
    assert (W0 : WFx [] s0) by (eapply Same_WFx; eauto).
    assert (Q0 : Qx [] s0) by (eapply Qx_same; eauto).
    assert (N0 : NextOk s0) by (eapply N1_same; [| |exact HN]; reflexivity).
    mstep H.
    match goal with E : (if ?b then _ else _) s0 = Ok (?u, ?sx) |- _ => destruct u; rename sx into sB; rename E into Ev end.
    assert (TB : Tr (if next_active s0 =? 0 then calls_arrival cf s0 else calls_fs cf (next_active s0) s0) s0 sB /\ Qx [] sB /\ WFx [] sB).
    { destruct (next_active s0 =? 0).
      - destruct (arrival_have_event_tr s0 sB W0 Q0 Ev) as (T & Q). split; [exact T|split; [exact Q|eapply arrival_have_event_spec; eauto]].
      - destruct (finish_service_tr _ s0 sB W0 Q0 N0 Ev) as (T & Q). split; [exact T|split; [exact Q|eapply finish_service_spec; eauto]]. }
    destruct TB as (TB & QB & WB). clear Ev.
    mstep H.
    mstep H.
    match goal with E : update_all cf _ sB = Ok (?u, ?sx) |- _ =>
      destruct u; pose proof (still_update_all cf _ sB tt sx (WFx_Idx _ _ WB) E) as SC; rename sx into sC; clear E end.
    destruct (quiet_Same _ _ _ _ q_find_next_active_node H) as (SD & _).
    pose proof (Same_trans _ _ _ SC SD) as SBD.
    split; [|eapply Qx_same; eauto].
    eapply Tr_eq_r; [intros ps; apply (mu_same ps _ _ SBD)|]. exact TB.
  Qed.
End Walk.

(* ====================================================================================================================
   5. The invariant; one event; any number of events
   ==================================================================================================================== *)
Definition TInv (cf : config) (s : sim) : Prop := Who cf s /\ Qx [] s.

Theorem event_step_tracker cf s s' : TInv cf s -> event_step cf s = Ok (tt, s') ->
  TInv cf s' /\ Tr (calls_event_step cf s) s s'.
Proof.
  intros [HW HQ] H. destruct HW as [[HWx HWw] HN].
  destruct (event_step_tr cf s s' HWx HQ HN H) as (T & Q).
  split; [split; [|exact Q]|exact T]. eapply event_step_who; [|exact H]. split; [split|]; assumption.
Qed.
Theorem event_step_tinv cf s s' : TInv cf s -> event_step cf s = Ok (tt, s') -> TInv cf s'.
Proof. intros HI H. exact (proj1 (event_step_tracker cf s s' HI H)). Qed.

(* the calls of a whole run: event after event, each with its own draws *)
Fixpoint calls_many (cf : config) (s : sim) (ds : list draws) : list call :=
  match ds with
  | [] => []
  | d :: r => calls_event_step cf (s <| dr := d |>) ++
              match event_step cf (s <| dr := d |>) with Ok (_, s1) => calls_many cf s1 r | _ => [] end
  end.

Lemma TInv_draws cf s d : TInv cf s -> TInv cf (s <| dr := d |>).
Proof.
  intros [[HQ HN1] HQx]. split; [split|].
  - eapply Q_same; [| | | | |exact HQ]; reflexivity.
  - eapply N1_same; [| |exact HN1]; reflexivity.
  - eapply Qx_same; [|exact HQx]. split; reflexivity.
Qed.

Theorem run_many_tracker cf : forall ds s s', TInv cf s -> run_many cf s ds = Ok s' ->
  TInv cf s' /\ Tr (calls_many cf s ds) s s'.
Proof.
  induction ds as [|d r IH]; intros s s' HI H; cbn [run_many calls_many] in *.
  - inversion H; subst. split; [exact HI|apply Tr_nil; reflexivity].
  - destruct (event_step cf (s <| dr := d |>)) as [[u s1]| |] eqn:E; try discriminate. destruct u.
    destruct (event_step_tracker cf _ s1 (TInv_draws cf s d HI) E) as (I1 & T1).
    destruct (IH s1 s' I1 H) as (I2 & T2). split; [exact I2|].
    eapply Tr_app; [|exact T2]. eapply Tr_eq_l; [|exact T1]. intros ps. reflexivity.
Qed.
Theorem run_many_tinv cf ds s s' : TInv cf s -> run_many cf s ds = Ok s' -> TInv cf s'.
Proof. intros HI H. exact (proj1 (run_many_tracker cf ds s s' HI H)). Qed.

(* ---------- an executable test of the invariant ---------- *)
Definition qx_b (s : sim) : bool :=
  forallb (fun q => forallb (fun i => match find_ind i (inds s) with
                                      | Some x => i_blocked x || (i_pcls x =? i_cls x)
                                      | None => true end) q) (ql s).
Definition tinv_b (cf : config) (s : sim) : bool := who_b cf s && qx_b s.
Lemma qx_b_sound s : qx_b s = true -> Qx [] s.
Proof.
  unfold qx_b. intros H i b pc c Hin _ Hk Hb. rewrite forallb_forall in H.
  apply in_concat in Hin as (q & Hq & Hi). specialize (H q Hq). rewrite forallb_forall in H. specialize (H i Hi).
  unfold klook in Hk. destruct (find_ind i (inds s)) as [x|]; [|discriminate]. cbn in Hk. unfold key in Hk. injection Hk as E1 E2 E3.
  rewrite E1, Hb in H. cbn in H. apply Z.eqb_eq in H. congruence.
Qed.
Theorem tinv_b_sound cf s : tinv_b cf s = true -> TInv cf s.
Proof. unfold tinv_b. intros H. apply andb_true_iff in H as [H1 H2]. split; [apply who_b_sound; exact H1|apply qx_b_sound; exact H2]. Qed.

(* ====================================================================================================================
   6. The built-in trackers of ciw/trackers/state_tracker.py: state, incremental updates, true state
   ==================================================================================================================== *)
(* l[k] += d  /  m[k][c] += d ;  None = Python raises IndexError (a negative index, which Python would wrap, never occurs:
   node identifiers are >= 1 and classes are >= 0 whenever the engine gets as far as calling the tracker) *)
Definition inc1 (v : list Z) (k d : Z) : option (list Z) :=
  match nthZ v k with Some a => Some (updZ v k (a + d)) | None => None end.
Definition inc2 (m : list (list Z)) (k c d : Z) : option (list (list Z)) :=
  match nthZ m k with
  | Some row => match inc1 row c d with Some row' => Some (updZ m k row') | None => None end
  | None => None
  end.

(* the tracker's state after the calls cs, starting from st *)
Fixpoint orun {St} (step : St -> call -> option St) (cs : list call) (st : St) : option St :=
  match cs with [] => Some st | c :: r => match step st c with Some st' => orun step r st' | None => None end end.

(* orun is the left fold of the update over the calls, stopping for good when Python would raise *)
Lemma orun_fold_left {St} (step : St -> call -> option St) cs st :
  orun step cs st = fold_left (fun o c => match o with Some x => step x c | None => None end) cs (Some st).
Proof.
  revert st; induction cs as [|c r IH]; intros st; cbn [orun fold_left]; [reflexivity|].
  destruct (step st c) as [st'|]; [apply IH|]. clear. induction r as [|c' r IH]; [reflexivity|exact IH].
Qed.

Lemma orun_sim {St} ps (step : St -> call -> option St) (R : list cell -> St) (wf : list cell -> Prop) :
  (forall v c v', wf v -> bump v (fst (dvec ps c)) (snd (dvec ps c)) = Some v' -> step (R v) c = Some (R v') /\ wf v') ->
  forall cs v v', wf v -> run ps cs v = Some v' -> orun step cs (R v) = Some (R v').
Proof.
  intros Hs. induction cs as [|c r IH]; intros v v' Hw H; cbn [run orun] in *; [inversion H; reflexivity|].
  destruct (bump v (fst (dvec ps c)) (snd (dvec ps c))) as [v1|] eqn:E; [|discriminate].
  destruct (Hs v c v1 Hw E) as [E1 W1]. rewrite E1. apply IH; assumption.
Qed.
Lemma orun_map {A B} (stepA : A -> call -> option A) (stepB : B -> call -> option B) (R : A -> B) :
  (forall a c a', stepA a c = Some a' -> stepB (R a) c = Some (R a')) ->
  forall cs a a', orun stepA cs a = Some a' -> orun stepB cs (R a) = Some (R a').
Proof.
  intros Hs. induction cs as [|c r IH]; intros a a' H; cbn [orun] in *; [inversion H; reflexivity|].
  destruct (stepA a c) as [a1|] eqn:E; [|discriminate]. rewrite (Hs _ _ _ E). apply IH. exact H.
Qed.

Lemma bump_inv v j d v' : bump v j d = Some v' ->
  exists l cv, nthZ v (j - 1) = Some (l, cv) /\ v' = updZ v (j - 1) (l + fst d, vadd cv (snd d)).
Proof. unfold bump. destruct (nthZ v (j - 1)) as [[l cv]|]; [|discriminate]. intros H. injection H as <-. eauto. Qed.

(* ---------- NodePopulation: state[node.id_number - 1] += 1 / -= 1 ---------- *)
Definition np_step (v : list Z) (c : call) : option (list Z) :=
  match c with Acc j _ => inc1 v (j - 1) 1 | Rel j _ _ _ _ => inc1 v (j - 1) (-1) | _ => Some v end.
Definition np_true (s : sim) : list Z := map (fun q => zlen q) (ql s).
Lemma np_true_mu s : np_true s = map fst (mu [] s).
Proof. unfold np_true, mu. rewrite map_map. reflexivity. Qed.
Lemma np_sim v c v' : bump v (fst (dvec [] c)) (snd (dvec [] c)) = Some v' -> np_step (map fst v) c = Some (map fst v').
Proof.
  intros H. apply bump_inv in H as (l & cv & E & ->). rewrite tk_updZ_map. cbn [fst].
  assert (E' : nthZ (map fst v) (fst (dvec [] c) - 1) = Some l) by (rewrite tk_nthZ_map; unfold cell in *; rewrite E; reflexivity).
  destruct c; cbn [dvec fst snd np_step] in *; unfold inc1; try (rewrite E'; reflexivity);
    rewrite Z.add_0_r, (tk_updZ_same _ _ _ E'); reflexivity.
Qed.
Theorem np_tr cs s s' : Tr cs s s' -> orun np_step cs (np_true s) = Some (np_true s').
Proof.
  intros H. rewrite !np_true_mu. apply (orun_sim [] np_step (map fst) (fun _ => True)); [|exact I|apply H].
  intros v c v' _ E. split; [apply np_sim; exact E|exact I].
Qed.

(* ---------- SystemPopulation: state += 1 / -= 1 ---------- *)
Definition sys_step (st : Z) (c : call) : option Z :=
  match c with Acc _ _ => Some (st + 1) | Rel _ _ _ _ _ => Some (st - 1) | _ => Some st end.
Definition sys_true (s : sim) : Z := zlen (concat (ql s)).
Lemma sys_true_np s : sys_true s = zsum (np_true s).
Proof. unfold sys_true, np_true. apply length_concat_zsum. Qed.
Lemma zsum_cons x r : zsum (x :: r) = x + zsum r. Proof. reflexivity. Qed.
Lemma zsum_upd v n a d : nth_error v n = Some a -> zsum (upd v n (a + d)) = zsum v + d.
Proof.
  revert n; induction v as [|x r IH]; intros [|n] H; cbn [nth_error upd] in *; try discriminate.
  - injection H as ->. rewrite !zsum_cons. lia.
  - rewrite !zsum_cons, (IH n H). lia.
Qed.
Lemma inc1_zsum v k d v' : inc1 v k d = Some v' -> zsum v' = zsum v + d.
Proof.
  unfold inc1. destruct (nthZ v k) as [a|] eqn:E; [|discriminate]. intros H. injection H as <-.
  destruct (nthZ_nat _ _ _ E) as (n & -> & Hn). rewrite updZ_nat. apply zsum_upd. exact Hn.
Qed.
Lemma sys_sim v c v' : np_step v c = Some v' -> sys_step (zsum v) c = Some (zsum v').
Proof.
  destruct c; cbn [np_step sys_step]; intros H; try (injection H as <-; reflexivity);
    rewrite (inc1_zsum _ _ _ _ H); f_equal; lia.
Qed.
Theorem sys_tr cs s s' : Tr cs s s' -> orun sys_step cs (sys_true s) = Some (sys_true s').
Proof. intros H. rewrite !sys_true_np. apply (orun_map np_step sys_step zsum sys_sim). apply np_tr. exact H. Qed.

(* ---------- list facts for the vector-valued trackers ---------- *)
Lemma tk_nthZ_updZ_neq {A} (l : list A) k k' x : k' <> k -> nthZ (updZ l k x) k' = nthZ l k'.
Proof.
  intros Hne. unfold nthZ, updZ. destruct (k <? 0) eqn:E1; [reflexivity|]. destruct (k' <? 0) eqn:E2; [reflexivity|].
  apply Z.ltb_ge in E1, E2. apply nth_error_upd_neq. lia.
Qed.
Lemma tk_nthZ_of_nat {A} (l : list A) n : nthZ l (Z.of_nat n) = nth_error l n.
Proof. unfold nthZ. destruct (Z.of_nat n <? 0) eqn:E; [apply Z.ltb_lt in E; lia|]. rewrite Nat2Z.id. reflexivity. Qed.
Lemma tk_nthZ_In {A} (l : list A) k a : nthZ l k = Some a -> In a l.
Proof. intros H. destruct (nthZ_nat _ _ _ H) as (n & _ & Hn). eapply nth_error_In; eauto. Qed.
Lemma tk_nthZ_range {A} (l : list A) k a : nthZ l k = Some a -> 0 <= k < Z.of_nat (length l).
Proof. intros H. destruct (nthZ_nat _ _ _ H) as (n & -> & Hn). assert (n < length l)%nat by (apply nth_error_Some; congruence). lia. Qed.
Lemma tk_nthZ_some {A} (l : list A) k : 0 <= k < Z.of_nat (length l) -> exists a, nthZ l k = Some a.
Proof.
  intros H. unfold nthZ. destruct (k <? 0) eqn:E; [apply Z.ltb_lt in E; lia|].
  destruct (nth_error l (Z.to_nat k)) as [a|] eqn:En; [eauto|]. apply nth_error_None in En. lia.
Qed.
Lemma tk_Forall_updZ {A} (P : A -> Prop) l k x : Forall P l -> P x -> Forall P (updZ l k x).
Proof. intros H Hx. unfold updZ. destruct (k <? 0); [exact H|apply Forall_upd; assumption]. Qed.
Lemma memZ_app x a b : memZ x (a ++ b) = memZ x a || memZ x b.
Proof. induction a as [|y a IH]; cbn; [reflexivity|]. rewrite IH, orb_assoc. reflexivity. Qed.
Lemma memZ_false x l : memZ x l = false -> ~ In x l.
Proof. intros H Hin. apply memZ_In in Hin. congruence. Qed.

Lemma vadd_length a b : length a = length b -> length (vadd a b) = length a.
Proof. intros H. unfold vadd. rewrite map_length, combine_length, H. apply Nat.min_id. Qed.
Lemma dvec_len ps c : length (snd (snd (dvec ps c))) = length ps.
Proof. destruct c; cbn [dvec snd]; apply map_length. Qed.
Definition wfv (n : nat) (v : list cell) : Prop := Forall (fun cl : cell => length (snd cl) = n) v.
Lemma mu_wfv ps s : wfv (length ps) (mu ps s).
Proof. unfold wfv, mu. apply Forall_forall. intros cl H. apply in_map_iff in H as (q & <- & _). cbn. apply map_length. Qed.
Lemma bump_wfv n v j d v' : wfv n v -> length (snd d) = n -> bump v j d = Some v' -> wfv n v'.
Proof.
  intros Hw Hd H. apply bump_inv in H as (l & cv & E & ->). apply tk_Forall_updZ; [exact Hw|]. cbn [snd].
  unfold wfv in Hw. rewrite Forall_forall in Hw. specialize (Hw _ (tk_nthZ_In _ _ _ E)). cbn in Hw.
  rewrite vadd_length; congruence.
Qed.

Lemma inc2_row m k row c d row' : nthZ m k = Some row -> inc1 row c d = Some row' -> inc2 m k c d = Some (updZ m k row').
Proof. intros E1 E2. unfold inc2. rewrite E1, E2. reflexivity. Qed.

(* ---------- NodePopulationSubset(observed_nodes): state[observed_nodes.index(id - 1)] += 1 / -= 1 when id - 1 is observed ---------- *)
Fixpoint indexN (x : Z) (l : list Z) : nat := match l with [] => O | y :: r => if x =? y then O else S (indexN x r) end.
Definition popz (pops : list Z) (o : Z) : Z := match nthZ pops o with Some a => a | None => 0 end.
Definition sub_step (obs : list Z) (v : list Z) (c : call) : option (list Z) :=
  match c with
  | Acc j _ => if memZ (j - 1) obs then inc1 v (Z.of_nat (indexN (j - 1) obs)) 1 else Some v
  | Rel j _ _ _ _ => if memZ (j - 1) obs then inc1 v (Z.of_nat (indexN (j - 1) obs)) (-1) else Some v
  | _ => Some v
  end.
Definition sub_of (obs : list Z) (pops : list Z) : list Z := map (popz pops) obs.
Definition sub_true (obs : list Z) (s : sim) : list Z := sub_of obs (np_true s).

Lemma popz_inc pops k d pops' : inc1 pops k d = Some pops' ->
  popz pops' k = popz pops k + d /\ forall o, o <> k -> popz pops' o = popz pops o.
Proof.
  unfold inc1. destruct (nthZ pops k) as [a|] eqn:E; [|discriminate]. intros H. injection H as <-. unfold popz. split.
  - rewrite (tk_nthZ_updZ_eq _ _ _ _ E), E. reflexivity.
  - intros o Ho. rewrite tk_nthZ_updZ_neq by exact Ho. reflexivity.
Qed.
Lemma nth_indexN k obs : In k obs -> nth_error obs (indexN k obs) = Some k.
Proof.
  induction obs as [|y r IH]; intros H; [destruct H|]. cbn [indexN]. destruct (Z.eqb_spec k y) as [->|Hne]; [reflexivity|].
  destruct H as [H|H]; [congruence|]. cbn. apply IH. exact H.
Qed.
Lemma map_change_nodup (f f' : Z -> Z) obs k : NoDup obs -> In k obs -> (forall o, o <> k -> f' o = f o) ->
  map f' obs = upd (map f obs) (indexN k obs) (f' k).
Proof.
  induction obs as [|y r IH]; intros Hnd Hin Ho; [destruct Hin|]. inversion Hnd as [|? ? Hn Hd]; subst.
  cbn [indexN map]. destruct (Z.eqb_spec k y) as [->|Hne].
  - cbn [upd]. f_equal. apply map_ext_in. intros o Hoin. apply Ho. intros ->. exact (Hn Hoin).
  - destruct Hin as [Hin|Hin]; [congruence|]. cbn [upd]. rewrite (Ho y) by congruence. f_equal. apply IH; assumption.
Qed.
Lemma sub_core obs pops k d pops' : NoDup obs -> inc1 pops k d = Some pops' ->
  (if memZ k obs then inc1 (sub_of obs pops) (Z.of_nat (indexN k obs)) d else Some (sub_of obs pops)) = Some (sub_of obs pops').
Proof.
  intros Hnd H. destruct (popz_inc _ _ _ _ H) as [P1 P2]. unfold sub_of. destruct (memZ k obs) eqn:Em.
  - apply memZ_In in Em. unfold inc1. rewrite tk_nthZ_of_nat, nth_error_map, (nth_indexN _ _ Em). cbn [option_map].
    rewrite updZ_nat. f_equal. rewrite <- P1. symmetry. apply map_change_nodup; assumption.
  - f_equal. apply map_ext_in. intros o Ho. symmetry. apply P2. intros ->. exact (memZ_false _ _ Em Ho).
Qed.
Lemma sub_sim obs pops c pops' : NoDup obs -> np_step pops c = Some pops' -> sub_step obs (sub_of obs pops) c = Some (sub_of obs pops').
Proof.
  intros Hnd. destruct c; cbn [np_step sub_step]; intros H; try (injection H as <-; reflexivity); apply sub_core; assumption.
Qed.
Theorem sub_tr obs cs s s' : NoDup obs -> Tr cs s s' -> orun (sub_step obs) cs (sub_true obs s) = Some (sub_true obs s').
Proof. intros Hnd H. apply (orun_map np_step (sub_step obs) (sub_of obs) (fun a c a' => sub_sim obs a c a' Hnd)). apply np_tr. exact H. Qed.

(* ---------- GroupedNodePopulation(groups): state[first group containing id - 1] += 1 / -= 1 when id - 1 is in some group ---------- *)
Fixpoint gidxN (x : Z) (gs : list (list Z)) : nat := match gs with [] => O | g :: r => if memZ x g then O else S (gidxN x r) end.
Definition grp_step (gs : list (list Z)) (v : list Z) (c : call) : option (list Z) :=
  match c with
  | Acc j _ => if memZ (j - 1) (concat gs) then inc1 v (Z.of_nat (gidxN (j - 1) gs)) 1 else Some v
  | Rel j _ _ _ _ => if memZ (j - 1) (concat gs) then inc1 v (Z.of_nat (gidxN (j - 1) gs)) (-1) else Some v
  | _ => Some v
  end.
Definition grp_of (gs : list (list Z)) (pops : list Z) : list Z := map (fun g => zsum (map (popz pops) g)) gs.
Definition grp_true (gs : list (list Z)) (s : sim) : list Z := grp_of gs (np_true s).

Lemma zsum_change (f f' : Z -> Z) g k d : NoDup g -> In k g -> f' k = f k + d -> (forall o, o <> k -> f' o = f o) ->
  zsum (map f' g) = zsum (map f g) + d.
Proof.
  induction g as [|y r IH]; intros Hnd Hin Hk Ho; [destruct Hin|]. inversion Hnd as [|? ? Hn Hd]; subst.
  cbn [map]. rewrite !zsum_cons. destruct (Z.eq_dec y k) as [->|Hne].
  - rewrite Hk. assert (E : map f' r = map f r) by (apply map_ext_in; intros o Hoin; apply Ho; intros ->; exact (Hn Hoin)).
    rewrite E. lia.
  - destruct Hin as [Hin|Hin]; [congruence|]. rewrite (Ho y Hne), (IH Hd Hin Hk Ho). lia.
Qed.
Lemma inc1_cons_0 h t d : inc1 (h :: t) (Z.of_nat 0) d = Some ((h + d) :: t).
Proof. reflexivity. Qed.
Lemma inc1_cons_S h t n d : inc1 (h :: t) (Z.of_nat (S n)) d = option_map (cons h) (inc1 t (Z.of_nat n) d).
Proof. unfold inc1. rewrite !tk_nthZ_of_nat. cbn [nth_error]. destruct (nth_error t n); [|reflexivity]. rewrite !updZ_nat. reflexivity. Qed.
Lemma grp_core (f f' : Z -> Z) k d : f' k = f k + d -> (forall o, o <> k -> f' o = f o) ->
  forall gs, NoDup (concat gs) ->
  (if memZ k (concat gs) then inc1 (map (fun g => zsum (map f g)) gs) (Z.of_nat (gidxN k gs)) d
   else Some (map (fun g => zsum (map f g)) gs)) = Some (map (fun g => zsum (map f' g)) gs).
Proof.
  intros Hk Ho. induction gs as [|g r IH]; intros Hnd; [reflexivity|].
  cbn [concat] in *. rewrite memZ_app. cbn [gidxN map].
  pose proof (bk_NoDup_app_l _ _ Hnd) as Hg. pose proof (tk_NoDup_app_r _ _ Hnd) as Hr.
  destruct (memZ k g) eqn:Em.
  - cbn [orb]. apply memZ_In in Em. rewrite inc1_cons_0. f_equal. f_equal.
    + symmetry. apply (zsum_change f f' g k d); assumption.
    + apply map_ext_in. intros g' Hg'. f_equal. apply map_ext_in. intros o Hoin. symmetry. apply Ho. intros ->.
      assert (Hc : In k (concat r)) by (apply in_concat; eauto).
      clear -Hnd Em Hc. induction g as [|y g IHg]; [destruct Em|]. cbn in Hnd. inversion Hnd as [|? ? Hn Hd]; subst.
      destruct Em as [->|Em]; [apply Hn, in_or_app; auto|auto].
  - cbn [orb]. assert (E0 : zsum (map f' g) = zsum (map f g)).
    { f_equal. apply map_ext_in. intros o Hoin. apply Ho. intros ->. exact (memZ_false _ _ Em Hoin). }
    rewrite E0. specialize (IH Hr). destruct (memZ k (concat r)).
    + rewrite inc1_cons_S, IH. reflexivity.
    + injection IH as <-. reflexivity.
Qed.
Lemma grp_sim gs pops c pops' : NoDup (concat gs) -> np_step pops c = Some pops' -> grp_step gs (grp_of gs pops) c = Some (grp_of gs pops').
Proof.
  intros Hnd. destruct c; cbn [np_step grp_step]; intros H; try (injection H as <-; reflexivity);
    destruct (popz_inc _ _ _ _ H) as [P1 P2]; apply (grp_core (popz pops) (popz pops')); assumption.
Qed.
Theorem grp_tr gs cs s s' : NoDup (concat gs) -> Tr cs s s' -> orun (grp_step gs) cs (grp_true gs s) = Some (grp_true gs s').
Proof. intros Hnd H. apply (orun_map np_step (grp_step gs) (grp_of gs) (fun a c a' => grp_sim gs a c a' Hnd)). apply np_tr. exact H. Qed.

(* ---------- NaiveBlocking: state[id - 1] = [not blocked, blocked] ---------- *)
Definition p_unbl : pred := fun b _ => negb b.
Definition p_bl : pred := fun b _ => b.
Definition nb_step (m : list (list Z)) (c : call) : option (list (list Z)) :=
  match c with
  | Acc j _ => inc2 m (j - 1) 0 1
  | Blk j _ _ _ => match inc2 m (j - 1) 1 1 with Some m1 => inc2 m1 (j - 1) 0 (-1) | None => None end
  | Rel j _ _ _ b => if b then inc2 m (j - 1) 1 (-1) else inc2 m (j - 1) 0 (-1)
  | Chg _ _ _ => Some m
  end.
Definition nb_true (s : sim) : list (list Z) := map (fun q => [cntq p_unbl s q; cntq p_bl s q]) (ql s).
Lemma nb_true_mu s : nb_true s = map snd (mu [p_unbl; p_bl] s).
Proof. unfold nb_true, mu. rewrite map_map. reflexivity. Qed.

Lemma inc1_2_0 a b d : inc1 [a; b] 0 d = Some [a + d; b]. Proof. reflexivity. Qed.
Lemma inc1_2_1 a b d : inc1 [a; b] 1 d = Some [a; b + d]. Proof. reflexivity. Qed.

Lemma nb_sim v c v' : wfv 2 v -> bump v (fst (dvec [p_unbl; p_bl] c)) (snd (dvec [p_unbl; p_bl] c)) = Some v' ->
  nb_step (map snd v) c = Some (map snd v') /\ wfv 2 v'.
Proof.
  intros Hw H. split; [|eapply bump_wfv; [exact Hw|apply (dvec_len [p_unbl; p_bl] c)|exact H]].
  apply bump_inv in H as (l & cv & E & ->).
  assert (Hl : length cv = 2%nat) by (unfold wfv in Hw; rewrite Forall_forall in Hw; exact (Hw _ (tk_nthZ_In _ _ _ E))).
  destruct cv as [|a [|b [|? ?]]]; try discriminate Hl. clear Hl.
  rewrite tk_updZ_map. cbn [snd].
  set (m := map snd v) in *. set (k := fst (dvec [p_unbl; p_bl] c) - 1) in *.
  assert (E' : nthZ m k = Some [a; b]) by (unfold m; rewrite tk_nthZ_map; unfold cell in *; rewrite E; reflexivity).
  destruct c as [j c0|j d0 i0 pc|j d0 i0 pc bb|j pc c0]; cbn [dvec fst snd map nb_step p_unbl p_bl negb bz vadd combine] in *; fold k.
  - rewrite (inc2_row m k [a; b] 0 1 _ E' (inc1_2_0 a b 1)). repeat first [lia | f_equal].
  - rewrite (inc2_row m k [a; b] 1 1 _ E' (inc1_2_1 a b 1)).
    rewrite (inc2_row _ k [a; b + 1] 0 (-1) _ (tk_nthZ_updZ_eq _ _ _ _ E') (inc1_2_0 a (b + 1) (-1))).
    rewrite tk_updZ_updZ. repeat first [lia | f_equal].
  - destruct bb; cbn [negb bz p_unbl p_bl].
    + rewrite (inc2_row m k [a; b] 1 (-1) _ E' (inc1_2_1 a b (-1))). repeat first [lia | f_equal].
    + rewrite (inc2_row m k [a; b] 0 (-1) _ E' (inc1_2_0 a b (-1))). repeat first [lia | f_equal].
  - f_equal. symmetry. replace [a + (1 - 1); b + (0 - 0)] with [a; b] by (repeat first [lia | f_equal]). apply tk_updZ_same. exact E'.
Qed.
Theorem nb_tr cs s s' : Tr cs s s' -> orun nb_step cs (nb_true s) = Some (nb_true s').
Proof.
  intros H. rewrite !nb_true_mu. apply (orun_sim [p_unbl; p_bl] nb_step (map snd) (wfv 2)); [|apply (mu_wfv [p_unbl; p_bl])|apply H].
  intros v c v' Hw E. apply nb_sim; assumption.
Qed.

(* ---------- NodeClassMatrix: state[id - 1][class] ; accept adds at customer_class, release subtracts at previous_class ---------- *)
Definition p_cls (c : Z) : pred := fun _ pc => pc =? c.
Definition cm_ps (k : nat) : list pred := map p_cls (zseq 0 k).
Definition cm_step (m : list (list Z)) (c : call) : option (list (list Z)) :=
  match c with
  | Acc j c => inc2 m (j - 1) c 1
  | Rel j _ _ pc _ => inc2 m (j - 1) pc (-1)
  | Chg j pc c => match inc2 m (j - 1) pc (-1) with Some m1 => inc2 m1 (j - 1) c 1 | None => None end
  | Blk _ _ _ _ => Some m
  end.
(* internal form of the true state: customers counted under previous_class (= class_at under Qx, see cm_true_at below) *)
Definition cm_true (k : nat) (s : sim) : list (list Z) := map (fun q => map (fun c => cntq (p_cls c) s q) (zseq 0 k)) (ql s).
Lemma cm_true_mu k s : cm_true k s = map snd (mu (cm_ps k) s).
Proof. unfold cm_true, mu, cm_ps. rewrite map_map. apply map_ext. intros q. cbn [mcell snd]. rewrite map_map. reflexivity. Qed.
Lemma cm_ps_len k : length (cm_ps k) = k.
Proof. unfold cm_ps. rewrite map_length. apply zseq_length. Qed.
(* the classes the calls name are columns of the matrix (otherwise Python raises IndexError) *)
Definition cls_ok (k : nat) (c : call) : Prop :=
  match c with
  | Acc _ c => 0 <= c < Z.of_nat k
  | Rel _ _ _ pc _ => 0 <= pc < Z.of_nat k
  | Chg _ pc c => 0 <= pc < Z.of_nat k /\ 0 <= c < Z.of_nat k
  | Blk _ _ _ _ => True
  end.

Lemma tk_nthZ_neg {A} (l : list A) n : n < 0 -> nthZ l n = None.
Proof. intros H. unfold nthZ. destruct (n <? 0) eqn:E; [reflexivity|apply Z.ltb_ge in E; lia]. Qed.
Lemma tk_nthZ_nil {A} n : nthZ (@nil A) n = None.
Proof. unfold nthZ. destruct (n <? 0); [reflexivity|]. destruct (Z.to_nat n); reflexivity. Qed.
Lemma tk_nthZ_cons_pos {A} (a : A) r n : 0 < n -> nthZ (a :: r) n = nthZ r (n - 1).
Proof.
  intros H. unfold nthZ. destruct (n <? 0) eqn:E; [apply Z.ltb_lt in E; lia|]. destruct (n - 1 <? 0) eqn:E2; [apply Z.ltb_lt in E2; lia|].
  replace (Z.to_nat n) with (S (Z.to_nat (n - 1))) by lia. reflexivity.
Qed.
Lemma tk_updZ_cons_pos {A} (a : A) r n x : 0 < n -> updZ (a :: r) n x = a :: updZ r (n - 1) x.
Proof.
  intros H. unfold updZ. destruct (n <? 0) eqn:E; [apply Z.ltb_lt in E; lia|]. destruct (n - 1 <? 0) eqn:E2; [apply Z.ltb_lt in E2; lia|].
  replace (Z.to_nat n) with (S (Z.to_nat (n - 1))) by lia. reflexivity.
Qed.
Lemma vadd_cons a r b t : vadd (a :: r) (b :: t) = (a + b) :: vadd r t. Proof. reflexivity. Qed.
Lemma vadd_delta c0 d : forall row st,
  vadd row (map (fun c => if c0 =? c then d else 0) (zseq st (length row))) =
  match nthZ row (c0 - st) with Some a => updZ row (c0 - st) (a + d) | None => row end.
Proof.
  induction row as [|a r IH]; intros st.
  - cbn. rewrite tk_nthZ_nil. reflexivity.
  - cbn [length zseq map]. rewrite vadd_cons, (IH (st + 1)). destruct (Z.eqb_spec c0 st) as [->|Hne].
    + replace (st - st) with 0 by lia. replace (st - (st + 1)) with (-1) by lia. rewrite tk_nthZ_neg by lia. reflexivity.
    + rewrite Z.add_0_r. replace (c0 - (st + 1)) with (c0 - st - 1) by lia. destruct (Z.ltb_spec (c0 - st) 0) as [Hlt|Hge].
      * rewrite !tk_nthZ_neg by lia. reflexivity.
      * rewrite tk_nthZ_cons_pos by lia. destruct (nthZ r (c0 - st - 1)); [|reflexivity]. rewrite tk_updZ_cons_pos by lia. reflexivity.
Qed.
Lemma vadd_delta_g c0 d (g : Z -> Z) row : (forall c, g c = if c0 =? c then d else 0) ->
  vadd row (map g (zseq 0 (length row))) = match nthZ row c0 with Some a => updZ row c0 (a + d) | None => row end.
Proof. intros Hg. rewrite (map_ext _ _ Hg), vadd_delta, Z.sub_0_r. reflexivity. Qed.
Lemma vadd_split (f g : Z -> Z) : forall row l, vadd row (map (fun c => f c + g c) l) = vadd (vadd row (map f l)) (map g l).
Proof. induction row as [|a r IH]; intros [|c t]; try reflexivity. cbn [map]. rewrite !vadd_cons, IH. f_equal. lia. Qed.

Lemma cm_sim k v c v' : wfv k v -> bump v (fst (dvec (cm_ps k) c)) (snd (dvec (cm_ps k) c)) = Some v' ->
  (cls_ok k c -> cm_step (map snd v) c = Some (map snd v')) /\ (forall m', cm_step (map snd v) c = Some m' -> cls_ok k c) /\ wfv k v'.
Proof.
  intros Hw H.
  assert (Hw' : wfv k v') by (eapply bump_wfv; [exact Hw| |exact H]; rewrite (dvec_len (cm_ps k) c); apply cm_ps_len).
  apply bump_inv in H as (l & cv & E & ->).
  assert (Hl : length cv = k) by (unfold wfv in Hw; rewrite Forall_forall in Hw; exact (Hw _ (tk_nthZ_In _ _ _ E))).
  rewrite tk_updZ_map. cbn [snd].
  set (m := map snd v) in *. set (kk := fst (dvec (cm_ps k) c) - 1) in *.
  assert (E' : nthZ m kk = Some cv) by (unfold m; rewrite tk_nthZ_map; unfold cell in *; rewrite E; reflexivity).
  assert (Hone : forall c0 d (g : pred -> Z), (forall c1, g (p_cls c1) = if c0 =? c1 then d else 0) ->
            vadd cv (map g (cm_ps k)) = match nthZ cv c0 with Some a => updZ cv c0 (a + d) | None => cv end).
  { intros c0 d g Hg. unfold cm_ps. rewrite map_map, <- Hl. apply vadd_delta_g. exact Hg. }
  assert (Hstep : forall c0 d row, nthZ m kk = Some row ->
            (0 <= c0 < Z.of_nat (length row) -> inc2 m kk c0 d = Some (updZ m kk (match nthZ row c0 with Some a => updZ row c0 (a + d) | None => row end))) /\
            (forall m', inc2 m kk c0 d = Some m' -> 0 <= c0 < Z.of_nat (length row))).
  { intros c0 d row Er. split.
    - intros Hr. destruct (tk_nthZ_some row c0 Hr) as [a Ea]. rewrite Ea. apply (inc2_row m kk row c0 d _ Er). unfold inc1. rewrite Ea. reflexivity.
    - intros m' Hm. unfold inc2 in Hm. rewrite Er in Hm. unfold inc1 in Hm. destruct (nthZ row c0) eqn:Ea; [|discriminate]. exact (tk_nthZ_range _ _ _ Ea). }
  split; [|split; [|exact Hw']].
  - destruct c as [j c0|j d0 i0 pc|j d0 i0 pc bb|j pc c0]; cbn [dvec fst snd cm_step cls_ok] in *; fold kk; intros Hok.
    + rewrite (Hone c0 1 (fun p : pred => bz (p false c0))) by (intros; reflexivity).
      apply (proj1 (Hstep c0 1 cv E')). lia.
    + rewrite (Hone pc 0 (fun p : pred => bz (p true pc) - bz (p false pc))) by (intros c1; unfold p_cls; destruct (pc =? c1); reflexivity).
      f_equal. symmetry. destruct (nthZ cv pc) as [a|] eqn:Ea; [rewrite Z.add_0_r, (tk_updZ_same _ _ _ Ea)|]; apply tk_updZ_same; exact E'.
    + rewrite (Hone pc (-1) (fun p : pred => - bz (p bb pc))) by (intros c1; unfold p_cls; destruct (pc =? c1); reflexivity).
      apply (proj1 (Hstep pc (-1) cv E')). lia.
    + destruct Hok as [Hpc Hc0].
      assert (Eg : map (fun p : pred => bz (p false c0) - bz (p false pc)) (cm_ps k) =
                   map (fun c1 => (if pc =? c1 then -1 else 0) + (if c0 =? c1 then 1 else 0)) (zseq 0 k)).
      { unfold cm_ps. rewrite map_map. apply map_ext. intros c1. unfold p_cls. destruct (pc =? c1), (c0 =? c1); reflexivity. }
      rewrite Eg, vadd_split. rewrite <- Hl at 1. rewrite (vadd_delta_g pc (-1) _ cv) by (intros; reflexivity).
      destruct (tk_nthZ_some cv pc ltac:(lia)) as [a Ea]. rewrite Ea.
      set (row1 := updZ cv pc (a + -1)). assert (Hl1 : length row1 = k) by (unfold row1; rewrite tk_updZ_length; exact Hl).
      rewrite <- Hl1. rewrite (vadd_delta_g c0 1 _ row1) by (intros; reflexivity).
      rewrite (proj1 (Hstep pc (-1) cv E')) by lia. rewrite Ea. fold row1.
      unfold inc2. rewrite (tk_nthZ_updZ_eq _ _ _ _ E'). destruct (tk_nthZ_some row1 c0 ltac:(lia)) as [a1 Ea1]. unfold inc1. rewrite Ea1.
      rewrite tk_updZ_updZ. reflexivity.
  - destruct c as [j c0|j d0 i0 pc|j d0 i0 pc bb|j pc c0]; cbn [dvec fst snd cm_step cls_ok] in *; fold kk; intros m' Hm.
    + rewrite <- Hl. exact (proj2 (Hstep c0 1 cv E') m' Hm).
    + exact I.
    + rewrite <- Hl. exact (proj2 (Hstep pc (-1) cv E') m' Hm).
    + destruct (inc2 m kk pc (-1)) as [m1|] eqn:E1; [|discriminate].
      pose proof (proj2 (Hstep pc (-1) cv E') m1 E1) as Hpc. rewrite Hl in Hpc. split; [exact Hpc|].
      rewrite (proj1 (Hstep pc (-1) cv E')) in E1 by lia. injection E1 as <-.
      unfold inc2 in Hm. rewrite (tk_nthZ_updZ_eq _ _ _ _ E') in Hm. unfold inc1 in Hm.
      match type of Hm with match (match nthZ ?row c0 with _ => _ end) with _ => _ end = _ => destruct (nthZ row c0) eqn:Ea; [|discriminate];
        apply tk_nthZ_range in Ea; assert (Hlr : length row = k) by (destruct (nthZ cv pc); [rewrite tk_updZ_length|]; exact Hl) end.
      lia.
Qed.

Lemma cm_run k : forall cs v v', wfv k v -> run (cm_ps k) cs v = Some v' ->
  (Forall (cls_ok k) cs -> orun cm_step cs (map snd v) = Some (map snd v')) /\
  (forall m', orun cm_step cs (map snd v) = Some m' -> m' = map snd v').
Proof.
  induction cs as [|c r IH]; intros v v' Hw H; cbn [run orun] in *.
  - inversion H. split; [reflexivity|]. intros m' Hm. congruence.
  - destruct (bump v (fst (dvec (cm_ps k) c)) (snd (dvec (cm_ps k) c))) as [v1|] eqn:E; [|discriminate].
    destruct (cm_sim k v c v1 Hw E) as (A & B & W1). destruct (IH v1 v' W1 H) as [I1 I2]. split.
    + intros HF. inversion HF; subst. rewrite (A ltac:(assumption)). apply I1. assumption.
    + intros m' Hm. destruct (cm_step (map snd v) c) as [m1|] eqn:Es; [|discriminate].
      pose proof (A (B m1 eq_refl)) as Em. injection Em as ->. apply I2. exact Hm.
Qed.
Theorem cm_tr k cs s s' : Tr cs s s' -> Forall (cls_ok k) cs -> orun cm_step cs (cm_true k s) = Some (cm_true k s').
Proof. intros H. rewrite !cm_true_mu. refine (proj1 (cm_run k cs _ _ _ (H (cm_ps k)))). rewrite <- (cm_ps_len k) at 1. apply mu_wfv. Qed.
Theorem cm_tr_partial k cs s s' m' : Tr cs s s' -> orun cm_step cs (cm_true k s) = Some m' -> m' = cm_true k s'.
Proof. intros H. rewrite !cm_true_mu. refine (proj2 (cm_run k cs _ _ _ (H (cm_ps k))) m'). rewrite <- (cm_ps_len k) at 1. apply mu_wfv. Qed.

(* the NodeClassMatrix true state in the words of the property: a customer counts under the class it is served in --
   its customer_class, or, once it has finished service, drawn its new class and is blocked, its previous_class *)
Definition class_at_k (kv : kview) : Z := let '(b, pc, c) := kv in if b then pc else c.
Definition cnt_at (c : Z) (s : sim) (q : list Z) : Z :=
  zlen (filter (fun i => match klook s i with Some kv => class_at_k kv =? c | None => false end) q).
Definition cm_true_at (k : nat) (s : sim) : list (list Z) := map (fun q => map (fun c => cnt_at c s q) (zseq 0 k)) (ql s).
Lemma cm_true_at_eq k s : Qx [] s -> cm_true_at k s = cm_true k s.
Proof.
  intros HQ. unfold cm_true_at, cm_true. apply map_ext_in. intros q Hq. apply map_ext. intros c. unfold cnt_at, cntq. f_equal.
  apply filter_ext_in. intros i Hi. destruct (klook s i) as [[[b pc] cl]|] eqn:Ek; [|reflexivity]. cbn [pkk p_cls class_at_k].
  destruct b; [reflexivity|]. rewrite (HQ i false pc cl); [reflexivity| |intros []|exact Ek|reflexivity].
  apply in_concat. eauto.
Qed.

(* ====================================================================================================================
   7. The statement for every tracker; counts are never negative
   ==================================================================================================================== *)
Definition Tracked (cs : list call) (s s' : sim) : Prop :=
  orun sys_step cs (sys_true s) = Some (sys_true s') /\
  orun np_step cs (np_true s) = Some (np_true s') /\
  (forall obs, NoDup obs -> orun (sub_step obs) cs (sub_true obs s) = Some (sub_true obs s')) /\
  (forall gs, NoDup (concat gs) -> orun (grp_step gs) cs (grp_true gs s) = Some (grp_true gs s')) /\
  orun nb_step cs (nb_true s) = Some (nb_true s') /\
  (forall k, (Forall (cls_ok k) cs -> orun cm_step cs (cm_true_at k s) = Some (cm_true_at k s')) /\
             (forall m', orun cm_step cs (cm_true_at k s) = Some m' -> m' = cm_true_at k s')).

Lemma Tr_Tracked cs s s' : Qx [] s -> Qx [] s' -> Tr cs s s' -> Tracked cs s s'.
Proof.
  intros Q Q' H. split; [apply sys_tr; exact H|]. split; [apply np_tr; exact H|].
  split; [intros obs Hnd; apply sub_tr; assumption|]. split; [intros gs Hnd; apply grp_tr; assumption|].
  split; [apply nb_tr; exact H|]. intros k. rewrite !cm_true_at_eq by assumption.
  split; [apply cm_tr; exact H|intros m'; apply cm_tr_partial; exact H].
Qed.

(* T2 for C17, one event: folding the incremental updates of every built-in tracker over the calls of the event, from the
   true state before the event, gives the true state after the event *)
Theorem event_step_trackers cf s s' : TInv cf s -> event_step cf s = Ok (tt, s') -> Tracked (calls_event_step cf s) s s'.
Proof. intros HI H. destruct (event_step_tracker cf s s' HI H) as ([_ Q'] & T). apply Tr_Tracked; [exact (proj2 HI)|exact Q'|exact T]. Qed.
(* ... any number of events, any draws *)
Theorem run_many_trackers cf ds s s' : TInv cf s -> run_many cf s ds = Ok s' -> Tracked (calls_many cf s ds) s s'.
Proof. intros HI H. destruct (run_many_tracker cf ds s s' HI H) as ([_ Q'] & T). apply Tr_Tracked; [exact (proj2 HI)|exact Q'|exact T]. Qed.

Definition nonneg1 (v : list Z) : Prop := Forall (fun z => 0 <= z) v.
Definition nonneg2 (m : list (list Z)) : Prop := Forall nonneg1 m.
Lemma tk_zlen_nonneg {A} (l : list A) : 0 <= zlen l. Proof. unfold zlen. lia. Qed.
Lemma tk_zsum_nonneg l : nonneg1 l -> 0 <= zsum l.
Proof. induction 1; [cbn; lia|]. rewrite zsum_cons. lia. Qed.
Lemma popz_nonneg pops o : nonneg1 pops -> 0 <= popz pops o.
Proof.
  intros H. unfold popz. destruct (nthZ pops o) as [a|] eqn:E; [|lia]. unfold nonneg1 in H. rewrite Forall_forall in H.
  exact (H _ (tk_nthZ_In _ _ _ E)).
Qed.
(* every count of every true state is a number of customers *)
Theorem true_states_nonneg s :
  0 <= sys_true s /\ nonneg1 (np_true s) /\ (forall obs, nonneg1 (sub_true obs s)) /\ (forall gs, nonneg1 (grp_true gs s)) /\
  nonneg2 (nb_true s) /\ (forall k, nonneg2 (cm_true_at k s)).
Proof.
  assert (Hnp : nonneg1 (np_true s)).
  { apply Forall_forall. intros z Hz. apply in_map_iff in Hz as (q & <- & _). apply tk_zlen_nonneg. }
  split; [apply tk_zlen_nonneg|]. split; [exact Hnp|]. split; [|split; [|split]].
  - intros obs. apply Forall_forall. intros z Hz. apply in_map_iff in Hz as (o & <- & _). apply popz_nonneg. exact Hnp.
  - intros gs. apply Forall_forall. intros z Hz. apply in_map_iff in Hz as (g & <- & _). apply tk_zsum_nonneg.
    apply Forall_forall. intros y Hy. apply in_map_iff in Hy as (o & <- & _). apply popz_nonneg. exact Hnp.
  - apply Forall_forall. intros row Hr. apply in_map_iff in Hr as (q & <- & _). repeat constructor; apply tk_zlen_nonneg.
  - intros k. apply Forall_forall. intros row Hr. apply in_map_iff in Hr as (q & <- & _).
    apply Forall_forall. intros z Hz. apply in_map_iff in Hz as (c & <- & _). apply tk_zlen_nonneg.
Qed.

(* never negative: whatever the incremental trackers hold after any number of events is a state of non-negative counts *)
Theorem never_negative cf ds s s' : TInv cf s -> run_many cf s ds = Ok s' ->
  let cs := calls_many cf s ds in
  (forall st, orun sys_step cs (sys_true s) = Some st -> 0 <= st) /\
  (forall st, orun np_step cs (np_true s) = Some st -> nonneg1 st) /\
  (forall obs st, NoDup obs -> orun (sub_step obs) cs (sub_true obs s) = Some st -> nonneg1 st) /\
  (forall gs st, NoDup (concat gs) -> orun (grp_step gs) cs (grp_true gs s) = Some st -> nonneg1 st) /\
  (forall st, orun nb_step cs (nb_true s) = Some st -> nonneg2 st) /\
  (forall k st, orun cm_step cs (cm_true_at k s) = Some st -> nonneg2 st).
Proof.
  intros HI H cs. destruct (run_many_trackers cf ds s s' HI H) as (T1 & T2 & T3 & T4 & T5 & T6). fold cs in T1, T2, T3, T4, T5, T6.
  destruct (true_states_nonneg s') as (N1 & N2 & N3 & N4 & N5 & N6).
  split; [intros st E; rewrite T1 in E; injection E as <-; exact N1|].
  split; [intros st E; rewrite T2 in E; injection E as <-; exact N2|].
  split; [intros obs st Hnd E; rewrite (T3 obs Hnd) in E; injection E as <-; apply N3|].
  split; [intros gs st Hnd E; rewrite (T4 gs Hnd) in E; injection E as <-; apply N4|].
  split; [intros st E; rewrite T5 in E; injection E as <-; exact N5|].
  intros k st E. rewrite (proj2 (T6 k) st E). apply N6.
Qed.

(* ---------- the invariant and the true states in the words of the property ---------- *)
Theorem tracker_means cf s : TInv cf s ->
  (* the population every population tracker should show is the population the node reports *)
  np_true s = map n_pop (nodes s) /\
  (* the system population is what has been created and has not left *)
  sys_true s = a_created (arr s) - exit_n s /\
  (* a queued customer that is not blocked has previous_class = customer_class ... *)
  (forall k nd i x, nth_error (nodes s) k = Some nd -> In i (all_individuals nd) -> find_ind i (inds s) = Some x ->
     i_blocked x = false -> i_pcls x = i_cls x) /\
  (* ... so counting customers under "the class they are served in" is counting them under previous_class *)
  (forall k, cm_true_at k s = cm_true k s).
Proof.
  intros [[[HW _] _] HQ]. destruct (WFx_means s HW) as (_ & _ & Hpop & _ & Htot).
  assert (E1 : np_true s = map n_pop (nodes s)).
  { unfold np_true, ql. rewrite map_map. apply map_ext_in. intros nd Hnd. symmetry. apply Hpop. exact Hnd. }
  split; [exact E1|]. split; [rewrite sys_true_np, E1; lia|]. split; [|intros k; apply cm_true_at_eq; exact HQ].
  intros k nd i x Hk Hin Hf Hb. apply (HQ i false (i_pcls x) (i_cls x)); [|intros []| |reflexivity].
  - apply in_concat. exists (all_individuals nd). split; [unfold ql; apply in_map; eapply nth_error_In; eauto|exact Hin].
  - unfold klook. rewrite Hf. cbn. unfold key. rewrite Hb. reflexivity.
Qed.

(* ====================================================================================================================
   8. NodeClassMatrix never raises: the classes the calls name are columns of the matrix
   (every class a customer gets -- at creation and at a class change -- is looked up in cf_prio by the engine itself)
   ==================================================================================================================== *)
Lemma In_put_weak x l y : In y (put_ind_l x l) -> y = x \/ In y l.
Proof.
  induction l as [|z r IH]; cbn; [intros [<-|[]]; auto|]. destruct (i_id z =? i_id x).
  - intros [<-|H]; auto.
  - intros [<-|H]; [auto|]. destruct (IH H); auto.
Qed.
Lemma In_del_weak i l y : In y (del_ind_l i l) -> In y l.
Proof. induction l as [|z r IH]; cbn; [auto|]. destruct (i_id z =? i); [auto|]. intros [<-|H]; auto. Qed.

Section ClassRange.
  Variable cf : config.
  Definition rng (z : Z) : Prop := 0 <= z < Z.of_nat (length (cf_prio cf)).
  Definition okx (x : ind) : Prop := rng (i_cls x) /\ rng (i_pcls x).
  Definition CR (s : sim) : Prop := forall x, In x (inds s) -> okx x.
  Definition crp {A} (m : M A) : Prop := forall s a s', CR s -> m s = Ok (a, s') -> CR s'.

  Lemma crp_quiet {A} (m : M A) : quiet m -> crp m.
  Proof. intros Hm s a s' HC H x Hx. destruct (Hm _ _ _ H) as (E & _). rewrite E in Hx. auto. Qed.
  Lemma crp_bind {A B} (m : M A) (f : A -> M B) : crp m -> (forall a, crp (f a)) -> crp (bind m f).
  Proof. intros Hm Hf s b s' HC H. unfold bind in H. destruct (m s) as [[a s1]| |] eqn:E; try discriminate. eapply Hf; [|exact H]. eapply Hm; eauto. Qed.
  Lemma crp_put_node nd : crp (put_node nd).
  Proof. intros s a s' HC H. unfold put_node, modify in H. inversion H. exact HC. Qed.
  Lemma crp_put_ind x' : okx x' -> crp (put_ind x').
  Proof. intros Hx s a s' HC H y Hy. unfold put_ind, modify in H. inversion H. subst s'. cbn in Hy. apply In_put_weak in Hy as [->|Hy]; auto. Qed.
  Lemma crp_del_ind i : crp (del_ind i).
  Proof. intros s a s' HC H y Hy. unfold del_ind, modify in H. inversion H. subst s'. cbn in Hy. apply In_del_weak in Hy. auto. Qed.
  Lemma crp_modify (f : sim -> sim) : (forall s, inds (f s) = inds s) -> crp (modify f).
  Proof. intros Hf s a s' HC H y Hy. unfold modify in H. inversion H. subst s'. rewrite Hf in Hy. auto. Qed.
  Lemma crp_get_ind_then {B} i (F : ind -> M B) : (forall x, okx x -> crp (F x)) -> crp (x <- get_ind i ;; F x).
  Proof.
    intros HF s b s' HC H. unfold bind in H. destruct (get_ind i s) as [[x s1]| |] eqn:E; try discriminate.
    apply bk_get_ind_spec in E as [-> Hf]. exact (HF x (HC x (find_In _ _ _ Hf)) s b s' HC H).
  Qed.
  Lemma crp_lift_then {A B} e (o : option A) (F : A -> M B) : (forall a, o = Some a -> crp (F a)) -> crp (a <- lift e o ;; F a).
  Proof.
    intros HF s b s' HC H. unfold bind in H. destruct (lift e o s) as [[a s1]| |] eqn:E; try discriminate.
    apply tk_lift_spec in E as [-> Ho]. exact (HF a Ho s b s' HC H).
  Qed.

  Ltac okx_solve :=
    first [ assumption
          | match goal with H : okx _ |- okx _ => destruct H; split; assumption end
          | match goal with H : okx _ |- okx _ => destruct H; split; cbn; first [assumption | eapply tk_nthZ_range; eassumption] end ].
  Ltac cr_step :=
    first
      [ match goal with
        | |- crp (bind (get_ind _) _) => apply crp_get_ind_then; intros
        | |- crp (bind (lift _ _) _) => apply crp_lift_then; intros
        | |- crp (bind _ _) => apply crp_bind; [|intros]
        | |- crp (if ?b then _ else _) => destruct b
        | |- crp (match ?x with _ => _ end) => destruct x
        | |- crp (put_ind _) => apply crp_put_ind; okx_solve
        | |- crp (modify _) => apply crp_modify; intros; reflexivity
        end
      | apply crp_put_node | apply crp_del_ind
      | apply crp_quiet;
        first [ apply quiet_ret | apply quiet_fail | apply quiet_gets | apply quiet_lift | apply quiet_get_node | apply quiet_get_ind
              | apply quiet_log_rec | apply quiet_draw_arr | apply quiet_draw_batch | apply quiet_draw_svc | apply quiet_draw_unif
              | apply q_ncfg_of | apply q_is_inf | apply q_choice_uniform | apply q_choice_weighted | apply q_choose_next_customer
              | apply q_write_br_record | apply q_find_next_event_date | apply q_find_next_active_node ] ].

  Lemma crp_start_service j i srv : crp (start_service j i srv).
  Proof. unfold start_service. repeat cr_step. Qed.
  Lemma crp_bsip_accept j i : crp (begin_service_if_possible_accept cf j i).
  Proof. unfold begin_service_if_possible_accept. repeat first [apply crp_start_service | cr_step]. Qed.
  Lemma crp_bsip_release j freed : crp (begin_service_if_possible_release cf j freed).
  Proof. unfold begin_service_if_possible_release. repeat first [apply crp_start_service | cr_step]. Qed.
  Lemma crp_write_individual_record j x : okx x -> crp (write_individual_record cf j x).
  Proof. intros Hx. unfold write_individual_record. repeat cr_step. Qed.
  Lemma crp_accept j x : okx x -> crp (accept cf j x).
  Proof. intros Hx. unfold accept. repeat first [apply crp_bsip_accept | cr_step]. Qed.
  Lemma crp_exit_accept x c : crp (exit_accept x c).
  Proof. unfold exit_accept. repeat cr_step. Qed.
  Lemma crp_rel_head j i d : crp (rel_head cf j i d).
  Proof.
    unfold rel_head.
    repeat first [ apply crp_bsip_release | apply crp_exit_accept
                 | (apply crp_accept; okx_solve) | (apply crp_write_individual_record; okx_solve) | cr_step ].
  Qed.
  Lemma crp_release : forall f j i d, crp (release cf f j i d).
  Proof.
    induction f as [|f IH]; intros j i d s a s' HC H; [discriminate|]. destruct a.
    rewrite release_unfold in H. unfold bind in H at 1. destruct (rel_head cf j i d s) as [[r sP]| |] eqn:E; try discriminate.
    pose proof (crp_rel_head j i d s r sP HC E) as HP. destruct r as [[from y]|]; [eapply IH; eauto|].
    apply tk_ret_spec in H as [-> _]. exact HP.
  Qed.
  Lemma crp_block_individual j i d : crp (block_individual j i d).
  Proof. unfold block_individual. repeat cr_step. Qed.
  Lemma crp_bindR {A B} (P : A -> Prop) (m : M A) (f : A -> M B) :
    (forall s a s', CR s -> m s = Ok (a, s') -> CR s' /\ P a) -> (forall a, P a -> crp (f a)) -> crp (bind m f).
  Proof.
    intros Hm Hf s b s' HC H. unfold bind in H. destruct (m s) as [[a s1]| |] eqn:E; try discriminate.
    destruct (Hm _ _ _ HC E) as [C1 Pa]. exact (Hf a Pa s1 b s' C1 H).
  Qed.
  Lemma crp_fs_head j : crp (fs_head cf j).
  Proof.
    unfold fs_head.
    apply crp_bind; [repeat cr_step|]. intros nd.
    apply crp_bind; [repeat cr_step|]. intros i.
    apply crp_get_ind_then. intros x Hx.
    apply crp_bind; [repeat cr_step|]. intros nc.
    apply (crp_bindR okx).
    - intros s a s' HC H. destruct (nc_ccm nc) as [m|].
      + mstep H. mstep H.
        match goal with E : choice_weighted _ _ s = Ok (_, ?sa) |- _ => pose proof (crp_quiet _ (q_choice_weighted _ _) _ _ _ HC E) as C1 end.
        mstep H. apply tk_ret_spec in H as [-> ->]. split; [exact C1|]. destruct Hx as [Hx1 Hx2]. split; cbn; [eapply tk_nthZ_range; eassumption|exact Hx1].
      + apply tk_ret_spec in H as [-> ->]. auto.
    - intros x1 Hx1. repeat cr_step.
  Qed.
  Lemma crp_finish_service j : crp (finish_service cf j).
  Proof.
    intros s a s' HC H. destruct a. rewrite finish_service_unfold in H. unfold bind in H at 1.
    destruct (fs_head cf j s) as [[[[i d] space] s1]| |] eqn:E; try discriminate.
    pose proof (crp_fs_head j s _ s1 HC E) as H1. destruct space.
    - mstep H. eapply crp_release; eauto.
    - eapply crp_block_individual; eauto.
  Qed.
  Lemma crp_release_individual j x : okx x -> crp (release_individual cf j x).
  Proof.
    intros Hx. unfold release_individual.
    repeat first [ apply crp_exit_accept | (apply crp_accept; okx_solve) | apply (crp_quiet sys_population); apply bk_k_sys_population | cr_step ].
  Qed.
  Lemma crp_batch_loop : forall n j c p, rng c -> crp (batch_loop cf n j c p).
  Proof.
    induction n as [|n IH]; intros j c p Hc; cbn [batch_loop]; [cr_step|].
    repeat first [ (apply crp_release_individual; split; exact Hc) | (apply IH; exact Hc) | cr_step ].
  Qed.
  Lemma crp_arrival_have_event : crp (arrival_have_event cf).
  Proof.
    unfold arrival_have_event.
    repeat first [ (apply crp_batch_loop; eapply tk_nthZ_range; eassumption) | cr_step ].
  Qed.
  Lemma crp_update_all js : crp (update_all cf js).
  Proof.
    induction js as [|j r IH]; cbn [update_all]; [cr_step|]. apply crp_bind; [|intros; exact IH].
    unfold update_next_event_date. repeat cr_step.
  Qed.
  Lemma crp_event_step : crp (event_step cf).
  Proof.
    unfold event_step.
    repeat first [ apply crp_arrival_have_event | apply crp_finish_service | apply crp_update_all | cr_step ].
  Qed.

  (* ---------- the classes named by the calls ---------- *)
  Notation kk := (length (cf_prio cf)).
  Lemma calls_release_ok : forall f j i d s, CR s -> Forall (cls_ok kk) (calls_release cf f j i d s).
  Proof.
    induction f as [|f IH]; intros j i d s HC; cbn [calls_release]; [constructor|].
    destruct (find_ind i (inds s)) as [x|] eqn:Hf; [|constructor]. destruct (HC x (find_In _ _ _ Hf)) as [Hc Hp].
    apply Forall_app. split.
    - constructor; [exact Hp|]. destruct (d =? 0); [constructor|]. constructor; [exact Hc|constructor].
    - destruct (rel_head cf j i d s) as [[[[from y]|] sP]| |] eqn:E; try constructor.
      apply IH. exact (crp_rel_head j i d s _ sP HC E).
  Qed.
  Lemma calls_fs_ok j s : CR s -> Forall (cls_ok kk) (calls_fs cf j s).
  Proof.
    intros HC. unfold calls_fs. destruct (fs_head cf j s) as [[[[i d] space] s1]| |] eqn:E; try constructor.
    pose proof (crp_fs_head j s _ s1 HC E) as H1. destruct space; [apply calls_release_ok; exact H1|].
    destruct (find_ind i (inds s1)); constructor; [exact I|constructor].
  Qed.
  Lemma calls_ri_ok j x s : okx x -> Forall (cls_ok kk) (calls_ri cf j x s).
  Proof. intros [Hc _]. unfold calls_ri. destruct (ri_head cf j x s) as [[[|] s1]| |]; constructor; [exact Hc|constructor]. Qed.
  Lemma calls_batch_ok : forall n j c p s, rng c -> CR s -> Forall (cls_ok kk) (calls_batch cf n j c p s).
  Proof.
    induction n as [|n IH]; intros j c p s Hc HC; cbn [calls_batch]; [constructor|]. cbv zeta.
    apply Forall_app. split; [apply calls_ri_ok; split; exact Hc|].
    match goal with |- Forall _ (match release_individual cf j ?x ?s1 with _ => _ end) =>
      destruct (release_individual cf j x s1) as [[u s2]| |] eqn:E; try constructor;
      apply IH; [exact Hc|]; refine (crp_release_individual j x _ s1 u s2 _ E); [split; exact Hc|exact HC] end.
  Qed.
  Lemma calls_arrival_ok s : CR s -> Forall (cls_ok kk) (calls_arrival cf s).
  Proof.
    intros HC. unfold calls_arrival. destruct (draw_batch s) as [[b s1]| |] eqn:E; try constructor.
    pose proof (crp_quiet _ quiet_draw_batch _ _ _ HC E) as H1. destruct (b <? 0); [constructor|].
    destruct (nthZ (cf_prio cf) (a_next_cls (arr s))) as [p|] eqn:Ep; [|constructor].
    apply calls_batch_ok; [exact (tk_nthZ_range _ _ _ Ep)|exact H1].
  Qed.
  Lemma calls_event_step_ok s : CR s -> Forall (cls_ok kk) (calls_event_step cf s).
  Proof.
    intros HC. unfold calls_event_step. cbv zeta. match goal with |- context [next_active ?s0 =? 0] => assert (H0 : CR s0) by exact HC end.
    destruct (_ =? 0); [apply calls_arrival_ok|apply calls_fs_ok]; exact H0.
  Qed.
  Lemma calls_many_ok : forall ds s, CR s -> Forall (cls_ok kk) (calls_many cf s ds).
  Proof.
    induction ds as [|d r IH]; intros s HC; cbn [calls_many]; [constructor|].
    assert (H0 : CR (s <| dr := d |>)) by exact HC.
    apply Forall_app. split; [apply calls_event_step_ok; exact H0|].
    destruct (event_step cf (s <| dr := d |>)) as [[u s1]| |] eqn:E; try constructor. apply IH. exact (crp_event_step _ _ _ H0 E).
  Qed.
End ClassRange.

Lemma cls_ok_mono k k' c : (k <= k')%nat -> cls_ok k c -> cls_ok k' c.
Proof. intros H. destruct c; cbn [cls_ok]; lia. Qed.

(* the invariant for NodeClassMatrix: TInv and every customer's classes are classes of the configuration *)
Definition TInvC (cf : config) (s : sim) : Prop := TInv cf s /\ CR cf s.
Theorem event_step_tinvc cf s s' : TInvC cf s -> event_step cf s = Ok (tt, s') -> TInvC cf s'.
Proof. intros [HI HC] H. split; [eapply event_step_tinv; eauto|eapply crp_event_step; eauto]. Qed.
Theorem run_many_tinvc cf : forall ds s s', TInvC cf s -> run_many cf s ds = Ok s' -> TInvC cf s'.
Proof.
  induction ds as [|d r IH]; intros s s' HI H; cbn [run_many] in H; [inversion H; subst; exact HI|].
  destruct (event_step cf (s <| dr := d |>)) as [[u s1]| |] eqn:E; try discriminate. destruct u.
  eapply IH; [|exact H]. eapply event_step_tinvc; [|exact E]. destruct HI as [HI HC]. split; [apply TInv_draws; exact HI|exact HC].
Qed.
(* a matrix with a column for every class of the configuration: the incremental NodeClassMatrix never raises and is the true state *)
Theorem event_step_class_matrix cf k s s' : TInvC cf s -> (length (cf_prio cf) <= k)%nat -> event_step cf s = Ok (tt, s') ->
  orun cm_step (calls_event_step cf s) (cm_true_at k s) = Some (cm_true_at k s').
Proof.
  intros [HI HC] Hk H. apply (proj1 (proj2 (proj2 (proj2 (proj2 (proj2 (event_step_trackers cf s s' HI H))))) k)).
  eapply Forall_impl; [|apply calls_event_step_ok; exact HC]. intros c. apply cls_ok_mono. exact Hk.
Qed.
Theorem run_many_class_matrix cf k ds s s' : TInvC cf s -> (length (cf_prio cf) <= k)%nat -> run_many cf s ds = Ok s' ->
  orun cm_step (calls_many cf s ds) (cm_true_at k s) = Some (cm_true_at k s').
Proof.
  intros [HI HC] Hk H. apply (proj1 (proj2 (proj2 (proj2 (proj2 (proj2 (run_many_trackers cf ds s s' HI H))))) k)).
  eapply Forall_impl; [|apply calls_many_ok; exact HC]. intros c. apply cls_ok_mono. exact Hk.
Qed.

Definition cr_b (cf : config) (s : sim) : bool :=
  let n := Z.of_nat (length (cf_prio cf)) in
  forallb (fun x => (0 <=? i_cls x) && (i_cls x <? n) && (0 <=? i_pcls x) && (i_pcls x <? n)) (inds s).
Definition tinvc_b (cf : config) (s : sim) : bool := tinv_b cf s && cr_b cf s.
Theorem tinvc_b_sound cf s : tinvc_b cf s = true -> TInvC cf s.
Proof.
  unfold tinvc_b. intros H. apply andb_true_iff in H as [H1 H2]. split; [apply tinv_b_sound; exact H1|].
  unfold cr_b in H2. rewrite forallb_forall in H2. intros x Hx. specialize (H2 x Hx).
  apply andb_true_iff in H2 as [H2 D]. apply andb_true_iff in H2 as [H2 C]. apply andb_true_iff in H2 as [A B].
  apply Z.leb_le in A, C. apply Z.ltb_lt in B, D. split; split; assumption.
Qed.

(* ====================================================================================================================
   9. Side conditions are needed; the initial state; non-vacuity
   ==================================================================================================================== *)
(* NodePopulationSubset with a node listed twice / GroupedNodePopulation with a node in two groups: `index` finds the first
   occurrence only, the other slot never moves -- the hypotheses NoDup obs / NoDup (concat gs) cannot be dropped *)
Theorem sub_dup_refuted : exists obs pops c pops',
  np_step pops c = Some pops' /\ sub_step obs (sub_of obs pops) c <> Some (sub_of obs pops').
Proof. exists [0; 0], [0], (Acc 1 0), [1]. split; [reflexivity|]. vm_compute. discriminate. Qed.
Theorem grp_dup_refuted : exists gs pops c pops',
  np_step pops c = Some pops' /\ grp_step gs (grp_of gs pops) c <> Some (grp_of gs pops').
Proof. exists [[0]; [0]], [0], (Acc 1 0), [1]. split; [reflexivity|]. vm_compute. discriminate. Qed.

(* the state every tracker is initialised with is the true state of a system without customers *)
Theorem true_states_empty s : (forall nd, In nd (nodes s) -> all_individuals nd = []) ->
  sys_true s = 0 /\ np_true s = map (fun _ => 0) (nodes s) /\ nb_true s = map (fun _ => [0; 0]) (nodes s) /\
  (forall k, cm_true_at k s = map (fun _ => map (fun _ => 0) (zseq 0 k)) (nodes s)) /\
  (forall k, cm_true k s = map (fun _ => map (fun _ => 0) (zseq 0 k)) (nodes s)).
Proof.
  intros H.
  assert (E1 : np_true s = map (fun _ => 0) (nodes s)).
  { unfold np_true, ql. rewrite map_map. apply map_ext_in. intros nd Hnd. rewrite (H nd Hnd). reflexivity. }
  split; [|split; [exact E1|split; [|split]]].
  - rewrite sys_true_np, E1. clear. induction (nodes s) as [|nd r IH]; [reflexivity|]. cbn [map]. rewrite zsum_cons, IH. reflexivity.
  - unfold nb_true, ql. rewrite map_map. apply map_ext_in. intros nd Hnd. rewrite (H nd Hnd). reflexivity.
  - intros k. unfold cm_true_at, ql. rewrite map_map. apply map_ext_in. intros nd Hnd. rewrite (H nd Hnd). reflexivity.
  - intros k. unfold cm_true, ql. rewrite map_map. apply map_ext_in. intros nd Hnd. rewrite (H nd Hnd). reflexivity.
Qed.

(* ---------- a blocking tandem with two classes: node 1 (one server) changes class 0 into class 1 and sends everybody to
   node 2 (one server, room for one customer), which sends everybody to the exit.  Customer 1 is at node 1, customer 2 at
   node 2 (the state of Blocking.c07ex_s0, with a class-change matrix at node 1) ---------- *)
Definition tkex_cf : config :=
  mkCfg 2 [mkNcfg (Some 1) None (Some [[0; 8]; [0; 8]]) 0; mkNcfg (Some 1) (Some 1) None 0] [0; 0] 1 None
        [[[0; 8]; [0; 0]]; [[0; 8]; [0; 0]]] [[None; None]; [None; None]].
Definition tkex_s0 : sim :=
  mkSim 3 1 (mkArr 2 2 [[Some 4; None]; [None; None]] 1 0 (Some 4)) [c07ex_n1; c07ex_n2] [] 0 0 [c07ex_i1; c07ex_i2] (mkDraws [] [] [] []) [].

Example tkex_hyps : tinvc_b tkex_cf tkex_s0 = true.
Proof. vm_compute. reflexivity. Qed.
Example tkex_TInvC : TInvC tkex_cf tkex_s0.
Proof. apply tinvc_b_sound. vm_compute. reflexivity. Qed.
(* the calls of six events: customer 1 finishes at node 1, becomes class 1 and is blocked (counted under its previous class 0);
   customer 3 arrives; customer 2 leaves node 2 for the exit and in the same event customer 1 is released, flagged blocked,
   with previous class 0, and accepted by node 2 as class 1; ... *)
Example tkex_calls : calls_many tkex_cf tkex_s0 (repeat c07ex_d 6) =
  [Blk 1 2 1 0; Acc 1 0; Rel 2 0 2 0 false; Rel 1 2 1 0 true; Acc 2 1; Rel 2 0 1 1 false; Acc 1 0; Rel 1 2 3 0 false; Acc 2 1].
Proof. vm_compute. reflexivity. Qed.
(* after the first event: one customer at each node, the one at node 1 is blocked, has class 1 and counts under class 0 *)
Example tkex_blocked : exists s1, run_many tkex_cf tkex_s0 [c07ex_d] = Ok s1 /\
  calls_many tkex_cf tkex_s0 [c07ex_d] = [Blk 1 2 1 0] /\
  map (fun x => (i_id x, i_cls x, i_pcls x, i_blocked x)) (inds s1) = [(1, 1, 0, true); (2, 0, 0, false)] /\
  orun nb_step [Blk 1 2 1 0] (nb_true tkex_s0) = Some [[0; 1]; [1; 0]] /\ nb_true s1 = [[0; 1]; [1; 0]] /\
  orun cm_step [Blk 1 2 1 0] (cm_true_at 2 tkex_s0) = Some [[1; 0]; [1; 0]] /\ cm_true_at 2 s1 = [[1; 0]; [1; 0]] /\
  tinvc_b tkex_cf s1 = true.
Proof. eexists. split; [vm_compute; reflexivity|]. vm_compute. auto 10. Qed.
(* six events: every incremental tracker, folded over the calls from the true state at the start, ends in the true state *)
Example tkex_run : exists s6, run_many tkex_cf tkex_s0 (repeat c07ex_d 6) = Ok s6 /\
  let cs := calls_many tkex_cf tkex_s0 (repeat c07ex_d 6) in
  orun sys_step cs (sys_true tkex_s0) = Some (sys_true s6) /\ sys_true s6 = 2 /\
  orun np_step cs (np_true tkex_s0) = Some (np_true s6) /\ np_true s6 = [1; 1] /\
  orun (sub_step [1]) cs (sub_true [1] tkex_s0) = Some (sub_true [1] s6) /\ sub_true [1] s6 = [1] /\
  orun (grp_step [[1; 0]]) cs (grp_true [[1; 0]] tkex_s0) = Some (grp_true [[1; 0]] s6) /\ grp_true [[1; 0]] s6 = [2] /\
  orun nb_step cs (nb_true tkex_s0) = Some (nb_true s6) /\ nb_true s6 = [[1; 0]; [1; 0]] /\
  orun cm_step cs (cm_true_at 2 tkex_s0) = Some (cm_true_at 2 s6) /\ cm_true_at 2 tkex_s0 = [[1; 0]; [1; 0]] /\ cm_true_at 2 s6 = [[1; 0]; [0; 1]] /\
  tinvc_b tkex_cf s6 = true.
Proof. eexists. split; [vm_compute; reflexivity|]. vm_compute. auto 20. Qed.
(* the same by the theorems (not by computation), for any number of events *)
Example tkex_thm : forall n s', run_many tkex_cf tkex_s0 (repeat c07ex_d n) = Ok s' ->
  Tracked (calls_many tkex_cf tkex_s0 (repeat c07ex_d n)) tkex_s0 s' /\
  orun cm_step (calls_many tkex_cf tkex_s0 (repeat c07ex_d n)) (cm_true_at 2 tkex_s0) = Some (cm_true_at 2 s').
Proof.
  intros n s' H. split; [exact (run_many_trackers tkex_cf _ _ _ (proj1 tkex_TInvC) H)|].
  apply (run_many_class_matrix tkex_cf 2 _ _ _ tkex_TInvC); [cbn; lia|exact H].
Qed.

Print Assumptions orun_fold_left.
Print Assumptions release_unfold.
Print Assumptions finish_service_unfold.
Print Assumptions release_individual_unfold.
Print Assumptions event_step_tracker.
Print Assumptions event_step_tinv.
Print Assumptions run_many_tracker.
Print Assumptions run_many_tinv.
Print Assumptions tinv_b_sound.
Print Assumptions event_step_trackers.
Print Assumptions run_many_trackers.
Print Assumptions never_negative.
Print Assumptions true_states_nonneg.
Print Assumptions tracker_means.
Print Assumptions event_step_tinvc.
Print Assumptions run_many_tinvc.
Print Assumptions event_step_class_matrix.
Print Assumptions run_many_class_matrix.
Print Assumptions tinvc_b_sound.
Print Assumptions sub_dup_refuted.
Print Assumptions grp_dup_refuted.
Print Assumptions true_states_empty.
Print Assumptions tkex_run.
Print Assumptions tkex_blocked.
Print Assumptions tkex_thm.

(* Route2.v -- T2 for C09 (routing and class-change fidelity) on the STAGE-2 engine model (Engine2 / State2 / Codec2), function
   level, plus one invariant over runs.  Partial correctness: nothing is said about calls that return Err / OutOfFuel.

   Part 1  JoinShortestQueue / LoadBalancing, every configuration, every state: jsq_next_spec -- the candidate list of the literal loop
           (== appends, < restarts) is exactly jsq_cands: the listed destinations whose size AS READ is minimal among the listed ones,
           in the listed order; tie_break order takes the head (no draw), random the element at int(u * len) (one draw).
           jsq_next_minimal / router_jsq: the same in words (listed, minimal; with order: the first minimal).  "Size as read" is
           qsize: n_pop for LoadBalancing, n_pop - n_insvc for JoinShortestQueue -- the model's (and Ciw's) counters, NOT the true
           waiting line: number_in_service drifts under reroute pre-emption and reneging (finding F-09b).
   Part 2  one theorem per node router: router_direct, router_jockey_direct, router_leave (deterministic, no draw, state unchanged);
           router_prob, router_prob_positive, router_transition_matrix (rows >= 0 summing to <= 1, uniform draws > 0: the destination
           has positive probability, or it is the exit and the remainder is positive); router_jsq; router_cycle, router_cycle_advances
           (the element at counter mod length, the per-(class, node) counter advances by one).  vdest = Python's indexing of
           simulation.nodes (valid_dest_inv, vdest_range, vdest_id).
   Part 3  next_node_for_spec: any call of a routing object, exactly (route_step: NetworkRouting per node router and mode; ProcessBased:
           head of the remaining route, route popped, exit when empty; FlexibleProcessBased: member of the first remaining set chosen
           uniformly / by jsq / by lb, rule any drops the set, rule all removes only the chosen node).  allowed = the routing
           specification as one predicate; route_step_allowed: every answer is allowed (scope: routing_ok cf -- Probabilistic rows
           >= 0 with sum <= 1, executable routing_ok_b; hypothesis upos: uniform draws > 0).  process_based_follows_route,
           flexible_process_based_spec: the two route-based objects in words.
   Part 4  change_customer_class_spec / _result (scope ccm_ok: class-change rows >= 0; upos): new class of positive probability in
           the row of the old class, priority := cf_prio[new class], previous class / priority remembered.  finish_service_steps
           (every configuration): class change, ONE routing call (mode 0), destination stamped, released towards it if it has room,
           blocked towards it otherwise.  finish_service_route: the same with the specifications put in.
   Part 5  a walk over the whole engine (ki) for any relation R between identifier, class and priority of the customer records.
   Part 6  PrioInv (executable PrioInv_b, PrioInv_b_sound): every record has i_prio = cf_prio[i_cls].  event_step_PrioInv,
           run_many_PrioInv, priority_corresponds_to_class: kept by every event and any run -- EVERY configuration, EVERY oracle,
           no hypothesis (class change after service, class change while waiting, pre-emption, rerouting, reneging included).
   Part 7  next_node_for_allowed (all three modes); jockey_destination, renege_route (mode 2); preempt_reroutes,
           interrupt_service_reroutes (mode 1: the victim is released towards exactly the rerouting answer, capacity ignored: known);
           route_of_spec (the route a new customer gets); cct_loop_spec, decide_class_change_spec (the class noted for the next change
           while waiting is the current one or one with a class-change-time distribution in the row of the current class);
           class_change_while_waiting_spec (the customer takes the noted class and that class's priority and still has them
           when the event is over; hypothesis NoDup of record identifiers, implied by Conserve2.WFx2).
   Part 8  allowed_refuted_at_zero_draw, zero_probability_transition_refuted: with a uniform draw of exactly 0 the Probabilistic
           router returns a destination of probability 0 (finding F-09a, known; this is why upos is needed); a concrete two-class
           network (ex_cf) with Probabilistic, JoinShortestQueue and Cycle routers and a class-change matrix: scope checks,
           invariant before and after 25 + 10 events. *)
From Coq Require Import ZArith List Bool Lia.
From RecordUpdate Require Import RecordUpdate.
From CiwV Require Import Sx Prelude Routing Sched.
From CiwV.Engine Require Import State2 Engine2 Codec2.
Import ListNotations.
Open Scope Z_scope.

Local Arguments Z.mul : simpl never.
Local Arguments Z.add : simpl never.
Local Arguments Z.sub : simpl never.
Local Arguments Z.ltb : simpl never.
Local Arguments Z.leb : simpl never.
Local Arguments Z.eqb : simpl never.
Local Arguments Z.to_nat : simpl never.
Local Arguments Z.of_nat : simpl never.
Local Arguments Z.modulo : simpl never.
Local Arguments nth_error : simpl never.

(* ================================================================================================================ *)
(* Part 0: the state monad and the access functions                                                                 *)
(* ================================================================================================================ *)
Ltac minv H a s1 E :=
  match type of H with
  | bind ?m ?f ?s = Ok _ => unfold bind in H at 1; destruct (m s) as [[a s1]| |] eqn:E; [|discriminate H|discriminate H]
  end.

Lemma ret_inv {A} (a b : A) s s' : ret a s = Ok (b, s') -> b = a /\ s' = s.
Proof. unfold ret. intros H. injection H as <- <-. auto. Qed.
Lemma gets_inv {A} (f : sim -> A) b s s' : gets f s = Ok (b, s') -> b = f s /\ s' = s.
Proof. unfold gets. intros H. injection H as <- <-. auto. Qed.
Lemma tnow_inv b s s' : tnow s = Ok (b, s') -> b = now s /\ s' = s.
Proof. apply gets_inv. Qed.
Lemma modify_inv f u s s' : modify f s = Ok (u, s') -> s' = f s.
Proof. unfold modify. intros H. injection H as <- <-. auto. Qed.
Lemma lift_inv {A} e (o : option A) a s s' : lift e o s = Ok (a, s') -> o = Some a /\ s' = s.
Proof. destruct o as [x|]; cbn; unfold ret, fail; intros H; [injection H as <- <-; auto|discriminate]. Qed.
Lemma get_node_inv j nd s s' : get_node j s = Ok (nd, s') -> s' = s /\ 1 <= j /\ nthZ (nodes s) (j - 1) = Some nd.
Proof.
  unfold get_node. destruct (j <? 1) eqn:E; [discriminate|]. apply Z.ltb_ge in E.
  destruct (nthZ (nodes s) (j - 1)) as [x|]; [|discriminate]. intros H. injection H as <- <-. auto.
Qed.
Lemma get_ind_inv i x s s' : get_ind i s = Ok (x, s') -> s' = s /\ find_ind i (inds s) = Some x.
Proof. unfold get_ind. destruct (find_ind i (inds s)) as [y|]; [|discriminate]. intros H. injection H as <- <-. auto. Qed.
Lemma ncfg_of_inv cf j nc s s' : ncfg_of cf j s = Ok (nc, s') -> s' = s /\ nthZ (cf_nodes cf) (j - 1) = Some nc.
Proof. unfold ncfg_of. intros H. apply lift_inv in H. tauto. Qed.

Lemma find_ind_id i l x : find_ind i l = Some x -> i_id x = i.
Proof. induction l as [|y r IH]; cbn; [discriminate|]. destruct (i_id y =? i) eqn:E; [intros H; injection H as <-; apply Z.eqb_eq; exact E|exact IH]. Qed.
Lemma find_ind_In i l x : find_ind i l = Some x -> In x l.
Proof. induction l as [|y r IH]; cbn; [discriminate|]. destruct (i_id y =? i); [intros H; injection H as ->; left; reflexivity|intros H; right; auto]. Qed.
Lemma find_put_ind x l i : find_ind i (put_ind_l x l) = if i =? i_id x then Some x else find_ind i l.
Proof.
  induction l as [|y r IH]; cbn.
  - rewrite (Z.eqb_sym (i_id x) i). reflexivity.
  - destruct (i_id y =? i_id x) eqn:E; cbn.
    + apply Z.eqb_eq in E. rewrite (Z.eqb_sym (i_id x) i). destruct (i =? i_id x) eqn:E2; [reflexivity|].
      rewrite E. rewrite (Z.eqb_sym (i_id x) i), E2. reflexivity.
    + destruct (i_id y =? i) eqn:E2; [|exact IH].
      apply Z.eqb_eq in E2. apply Z.eqb_neq in E. destruct (i =? i_id x) eqn:E3; [apply Z.eqb_eq in E3; lia|reflexivity].
Qed.
Lemma In_put_ind_l x l y : In y (put_ind_l x l) -> y = x \/ In y l.
Proof.
  induction l as [|z r IH]; cbn; [intros [<-|[]]; auto|]. destruct (i_id z =? i_id x); cbn.
  - intros [<-|H]; auto.
  - intros [<-|H]; [auto|]. destruct (IH H); auto.
Qed.
Lemma In_del_ind_l i l y : In y (del_ind_l i l) -> In y l.
Proof. induction l as [|z r IH]; cbn; [auto|]. destruct (i_id z =? i); cbn; [auto|]. intros [<-|H]; auto. Qed.
Lemma nthZ_In {A} (l : list A) k x : nthZ l k = Some x -> In x l.
Proof. unfold nthZ. destruct (k <? 0); [discriminate|apply nth_error_In]. Qed.
Lemma nthZ_nat {A} (l : list A) k x : nthZ l k = Some x -> 0 <= k /\ nth_error l (Z.to_nat k) = Some x.
Proof. unfold nthZ. destruct (k <? 0) eqn:E; [discriminate|]. apply Z.ltb_ge in E. auto. Qed.

Lemma upd_ind_inv i f u s s' : upd_ind i f s = Ok (u, s') ->
  exists x, find_ind i (inds s) = Some x /\ s' = s <| inds := put_ind_l (f x) (inds s) |>.
Proof.
  unfold upd_ind. intros H. minv H x s1 E. apply get_ind_inv in E as [-> E]. unfold put_ind in H. apply modify_inv in H. eauto.
Qed.

(* ---------- the uniform draws: `took us s s'` -- s' is s after exactly the uniform draws us have been consumed ---------- *)
Definition took (us : list Z) (s s' : sim) : Prop :=
  exists rest, d_unif (dr s) = us ++ rest /\ s' = s <| dr := dr s <| d_unif := rest |> |>.
Lemma took_nil s : took [] s s.
Proof. exists (d_unif (dr s)). split; [reflexivity|]. destruct s as [a b c d e f g h dd k l]. destruct dd. reflexivity. Qed.
Lemma took_trans us1 us2 s s1 s2 : took us1 s s1 -> took us2 s1 s2 -> took (us1 ++ us2) s s2.
Proof.
  intros (r1 & E1 & ->) (r2 & E2 & ->). exists r2. cbn in E2. split; [rewrite E1, E2, app_assoc; reflexivity|].
  destruct s as [a b c d e f g h dd k l]. destruct dd. reflexivity.
Qed.
Lemma took_frame us s s' : took us s s' ->
  nodes s' = nodes s /\ inds s' = inds s /\ cyc s' = cyc s /\ now s' = now s /\ log s' = log s /\ arr s' = arr s /\
  exit_ids s' = exit_ids s /\ d_unif (dr s) = us ++ d_unif (dr s').
Proof. intros (r & E & ->). cbn. repeat split; try reflexivity. exact E. Qed.
Lemma took_nil_eq s s' : took [] s s' -> s' = s.
Proof. intros (r & E & ->). cbn in E. rewrite <- E. destruct s as [a b c d e f g h dd k l]. destruct dd. reflexivity. Qed.

(* the hypothesis on the oracle: uniform draws are > 0 (a draw of exactly 0 is finding F-09a) *)
Definition upos (s : sim) : Prop := Forall (fun u => 0 < u) (d_unif (dr s)).
Definition upos_b (s : sim) : bool := forallb (fun u => 0 <? u) (d_unif (dr s)).
Lemma upos_b_sound s : upos_b s = true -> upos s.
Proof. unfold upos_b, upos. intros H. apply Forall_forall. intros u Hu. rewrite forallb_forall in H. apply Z.ltb_lt. auto. Qed.
Lemma took_upos us s s' : took us s s' -> upos s -> upos s' /\ Forall (fun u => 0 < u) us.
Proof. intros (r & E & ->) Hu. unfold upos in *. cbn. rewrite E in Hu. apply Forall_app in Hu. tauto. Qed.

Lemma draw_unif_inv u s s' : draw_unif s = Ok (u, s') -> took [u] s s'.
Proof. unfold draw_unif. destruct (d_unif (dr s)) as [|v r] eqn:E; [discriminate|]. intros H. injection H as <- <-. exists r. auto. Qed.

(* auxiliary.random_choice without weights: one draw u, the element at position int(u * len) *)
Lemma choice_uniform_inv {A} (l : list A) a s s' : choice_uniform l s = Ok (a, s') ->
  exists u, took [u] s s' /\ nth_error l (rc_uniform (length l) u) = Some a /\ In a l.
Proof.
  unfold choice_uniform. intros H. minv H u s1 E. apply draw_unif_inv in E. apply lift_inv in H as [H ->].
  exists u. split; [exact E|]. split; [exact H|eapply nth_error_In; eauto].
Qed.

(* auxiliary.random_choice with weights (in units of 1/den): for non-negative weights and a positive draw the index chosen has
   positive weight; no draw is consumed when the last entry is certain *)
Lemma choice_weighted_inv den P s k s' : 0 < den -> Forall (fun p => 0 <= p) P -> upos s -> choice_weighted den P s = Ok (k, s') ->
  (k < length P)%nat /\ 0 < nth k P 0 /\ exists us, took us s s' /\ (length us <= 1)%nat.
Proof.
  intros Hden HP Hu H. unfold choice_weighted in H. destruct P as [|p0 rest]; [discriminate H|].
  destruct ((negb (Nat.eqb (length rest) 0)) && all_zero (removelast (p0 :: rest)) && (last (p0 :: rest) 0 =? den)) eqn:Esc.
  - apply ret_inv in H as [-> ->].
    assert (R : rc_weighted den (p0 :: rest) 1 = Some (length rest, false)) by (unfold rc_weighted; rewrite Esc; reflexivity).
    destruct (rc_weighted_positive den (p0 :: rest) 1 _ _ Hden ltac:(lia) HP R) as [A B].
    split; [exact A|]. split; [exact B|]. exists []. split; [apply took_nil|cbn; lia].
  - minv H u s1 Ed. apply draw_unif_inv in Ed. destruct (took_upos _ _ _ Ed Hu) as [_ Hpos]. inversion Hpos as [|? ? Hu0 _]; subst.
    destruct (rc_loop den u p0 rest 0) as [i|] eqn:El; [|discriminate H]. apply ret_inv in H as [-> ->].
    assert (R : rc_weighted den (p0 :: rest) u = Some (i, true)) by (unfold rc_weighted; rewrite Esc, El; reflexivity).
    destruct (rc_weighted_positive den (p0 :: rest) u _ _ Hden Hu0 HP R) as [A B].
    split; [exact A|]. split; [exact B|]. exists [u]. split; [exact Ed|cbn; lia].
Qed.

(* ================================================================================================================ *)
(* Part 1: join-shortest-queue / load balancing -- the candidates are exactly the listed destinations of minimal size *)
(* ================================================================================================================ *)
(* what the router reads of a destination: LoadBalancing the population counter, JoinShortestQueue the population counter
   minus the in-service counter (NOT the true waiting line: the in-service counter drifts, finding F-09b) *)
Definition qsize (lb : bool) (nd : node) : Z := if lb then n_pop nd else n_pop nd - n_insvc nd.
Definition read_size (lb : bool) (ns : list node) (d : Z) : option Z :=
  if d <? 1 then None else option_map (qsize lb) (nthZ ns (d - 1)).

Fixpoint jsq_pure (l : list (Z * Z)) (best : option Z) (acc : list Z) : list Z :=
  match l with
  | [] => acc
  | p :: r =>
    if date_eqb (Some (snd p)) best then jsq_pure r best (acc ++ [fst p])
    else if date_lt (Some (snd p)) best then jsq_pure r (Some (snd p)) [fst p]
    else jsq_pure r best acc
  end.
Fixpoint mn (l : list (Z * Z)) (best : option Z) : option Z :=
  match l with [] => best | p :: r => mn r (if date_lt (Some (snd p)) best then Some (snd p) else best) end.
(* the listed destinations (with multiplicity, in the listed order) whose size is minimal among the listed ones *)
Definition jsq_cands (l : list (Z * Z)) : list Z := map fst (filter (fun p => forallb (fun q => snd p <=? snd q) l) l).

Definition dle (a b : option Z) : Prop :=
  match a, b with _, None => True | None, Some _ => False | Some x, Some y => x <= y end.

Ltac dsolve :=
  unfold date_lt, date_eqb, dle in *;
  repeat match goal with
         | x : option Z |- _ => destruct x
         end;
  repeat match goal with
         | H : context [?a <? ?b] |- _ => destruct (Z.ltb_spec a b)
         | H : context [?a =? ?b] |- _ => destruct (Z.eqb_spec a b)
         | |- context [?a <? ?b] => destruct (Z.ltb_spec a b)
         | |- context [?a =? ?b] => destruct (Z.eqb_spec a b)
         end;
  try discriminate; try tauto; try congruence; try lia.

Lemma mn_spec : forall l best, dle (mn l best) best /\ (forall q, In q l -> dle (mn l best) (Some (snd q))) /\
  (mn l best = best \/ exists q, In q l /\ mn l best = Some (snd q)).
Proof.
  induction l as [|p r IH]; intros best; cbn [mn].
  - split; [dsolve|]. split; [intros q []|left; reflexivity].
  - destruct (IH (if date_lt (Some (snd p)) best then Some (snd p) else best)) as (A & B & C).
    set (m := mn r (if date_lt (Some (snd p)) best then Some (snd p) else best)) in *. clearbody m.
    destruct (date_lt (Some (snd p)) best) eqn:E.
    + split; [|split].
      * revert A E. generalize (snd p). intros z A E. dsolve.
      * intros q [<-|Hq]; [exact A|auto].
      * right. destruct C as [->|(q & Hq & ->)]; [exists p; split; [left; reflexivity|reflexivity]|exists q; split; [right; exact Hq|reflexivity]].
    + split; [exact A|split].
      * intros q [<-|Hq]; [|auto]. revert A E. generalize (snd p). intros z A E. dsolve.
      * destruct C as [->|(q & Hq & ->)]; [left; reflexivity|right; exists q; split; [right; exact Hq|reflexivity]].
Qed.

Lemma jsq_pure_closed : forall l best acc,
  jsq_pure l best acc = (if date_eqb (mn l best) best then acc else []) ++ map fst (filter (fun p => date_eqb (Some (snd p)) (mn l best)) l).
Proof.
  induction l as [|p r IH]; intros best acc; cbn [jsq_pure mn filter map].
  - replace (date_eqb best best) with true by (destruct best; cbn; [symmetry; apply Z.eqb_refl|reflexivity]). rewrite app_nil_r. reflexivity.
  - destruct p as [d z]. cbn [fst snd].
    destruct (date_eqb (Some z) best) eqn:E1; [|destruct (date_lt (Some z) best) eqn:E2].
    + assert (Hb : best = Some z) by (clear -E1; dsolve). subst best.
      replace (date_lt (Some z) (Some z)) with false by (cbn; symmetry; apply Z.ltb_irrefl).
      rewrite IH. set (m := mn r (Some z)). clearbody m.
      destruct (date_eqb m (Some z)) eqn:E3.
      * replace (date_eqb (Some z) m) with true by (clear -E3; dsolve). cbn [map]. rewrite <- app_assoc. reflexivity.
      * replace (date_eqb (Some z) m) with false by (clear -E3; dsolve). reflexivity.
    + rewrite IH. pose proof (proj1 (mn_spec r (Some z))) as A. set (m := mn r (Some z)) in *. clearbody m.
      replace (date_eqb m best) with false by (clear -A E1 E2; dsolve).
      destruct (date_eqb m (Some z)) eqn:E3.
      * replace (date_eqb (Some z) m) with true by (clear -E3; dsolve). reflexivity.
      * replace (date_eqb (Some z) m) with false by (clear -E3; dsolve). reflexivity.
    + rewrite IH. pose proof (proj1 (mn_spec r best)) as A. set (m := mn r best) in *. clearbody m.
      replace (date_eqb (Some z) m) with false by (clear -A E1 E2; dsolve). reflexivity.
Qed.

Theorem jsq_pure_cands l : jsq_pure l None [] = jsq_cands l.
Proof.
  rewrite jsq_pure_closed. replace (if date_eqb (mn l None) None then [] else []) with (@nil Z) by (destruct (date_eqb _ _); reflexivity).
  cbn [app]. unfold jsq_cands. f_equal. apply filter_ext_in. intros p Hp.
  destruct (mn_spec l None) as (_ & B & C). set (m := mn l None) in *. clearbody m.
  pose proof (B p Hp) as Bp.
  destruct (forallb (fun q => snd p <=? snd q) l) eqn:F.
  - rewrite forallb_forall in F. destruct C as [->|(q0 & Hq0 & ->)]; [cbn in Bp; destruct Bp|].
    specialize (F q0 Hq0). apply Z.leb_le in F. cbn in Bp. cbn. apply Z.eqb_eq. lia.
  - destruct m as [mz|]; [|cbn in Bp; destruct Bp]. cbn. cbn in Bp. apply Z.eqb_neq. intros Heq.
    assert (F' : forallb (fun q => snd p <=? snd q) l = true); [|congruence].
    apply forallb_forall. intros q Hq. apply Z.leb_le. specialize (B q Hq). cbn in B. lia.
Qed.

Lemma jsq_cands_In l d : In d (jsq_cands l) <-> exists z, In (d, z) l /\ forall q, In q l -> z <= snd q.
Proof.
  unfold jsq_cands. rewrite in_map_iff. split.
  - intros ([d' z] & <- & H). apply filter_In in H as [H1 H2]. exists z. split; [exact H1|].
    intros q Hq. rewrite forallb_forall in H2. apply Z.leb_le. apply (H2 q Hq).
  - intros (z & H1 & H2). exists (d, z). split; [reflexivity|]. apply filter_In. split; [exact H1|].
    apply forallb_forall. intros q Hq. apply Z.leb_le. apply (H2 q Hq).
Qed.

Lemma hd_filter {A} (f : A -> bool) : forall l p, hd_error (filter f l) = Some p ->
  exists k, nth_error l k = Some p /\ f p = true /\ forall k' q, (k' < k)%nat -> nth_error l k' = Some q -> f q = false.
Proof.
  induction l as [|a r IH]; intros p H; cbn [filter] in H; [discriminate|].
  destruct (f a) eqn:E.
  - cbn in H. injection H as <-. exists 0%nat. split; [reflexivity|]. split; [exact E|]. intros k' q Hk. lia.
  - destruct (IH p H) as (k & Hk & Hf & Hm). exists (S k). split; [exact Hk|]. split; [exact Hf|].
    intros [|k'] q Hlt Hq; [cbn in Hq; injection Hq as <-; exact E|]. apply (Hm k' q); [lia|exact Hq].
Qed.
(* tie_break = 'order': the FIRST listed destination of minimal size *)
Lemma jsq_cands_hd l d : hd_error (jsq_cands l) = Some d ->
  exists k z, nth_error l k = Some (d, z) /\ (forall q, In q l -> z <= snd q) /\
              forall k' q, (k' < k)%nat -> nth_error l k' = Some q -> z < snd q.
Proof.
  unfold jsq_cands. intros H. destruct (filter _ l) as [|[d' z] t] eqn:F; [discriminate|]. cbn in H. injection H as <-.
  assert (H : hd_error (filter (fun p => forallb (fun q => snd p <=? snd q) l) l) = Some (d', z)) by (rewrite F; reflexivity).
  apply hd_filter in H as (k & Hk & Hf & Hm). exists k, z. split; [exact Hk|]. cbn [snd] in Hf. rewrite forallb_forall in Hf.
  split; [intros q Hq; apply Z.leb_le; apply (Hf q Hq)|].
  intros k' q Hlt Hq. specialize (Hm k' q Hlt Hq). cbn beta in Hm.
  destruct (Z.ltb_spec z (snd q)) as [L|L]; [exact L|]. exfalso.
  assert (F' : forallb (fun q0 => snd q <=? snd q0) l = true); [|congruence].
  apply forallb_forall. intros q0 Hq0. apply Z.leb_le. specialize (Hf q0 Hq0). apply Z.leb_le in Hf. lia.
Qed.
Lemma jsq_cands_nonempty l : l <> [] -> jsq_cands l <> [].
Proof.
  intros Hne. destruct (mn_spec l None) as (_ & B & C). destruct l as [|p0 r]; [congruence|].
  destruct C as [C|(q & Hq & C)].
  - specialize (B p0 (or_introl eq_refl)). rewrite C in B. destruct B.
  - intros E. assert (Hin : In (fst q) (jsq_cands (p0 :: r))); [|rewrite E in Hin; destruct Hin].
    apply jsq_cands_In. exists (snd q). split; [destruct q; exact Hq|]. intros q' Hq'. specialize (B q' Hq'). rewrite C in B. exact B.
Qed.

Lemma jsq_loop_inv lb : forall ds best acc s c s', jsq_loop lb ds best acc s = Ok (c, s') ->
  s' = s /\ exists sizes, Forall2 (fun d z => read_size lb (nodes s) d = Some z) ds sizes /\ c = jsq_pure (combine ds sizes) best acc.
Proof.
  induction ds as [|d r IH]; intros best acc s c s' H; cbn [jsq_loop] in H.
  - apply ret_inv in H as [-> ->]. split; [reflexivity|]. exists []. split; [constructor|reflexivity].
  - minv H nd s1 E. apply get_node_inv in E as (-> & Hd & Hn). cbv zeta in H. fold (qsize lb nd) in H.
    assert (Hr : read_size lb (nodes s) d = Some (qsize lb nd)).
    { unfold read_size. destruct (d <? 1) eqn:E; [apply Z.ltb_lt in E; lia|]. rewrite Hn. reflexivity. }
    destruct (date_eqb (Some (qsize lb nd)) best) eqn:E1; [|destruct (date_lt (Some (qsize lb nd)) best) eqn:E2];
      destruct (IH _ _ _ _ _ H) as (-> & sizes & F & ->); (split; [reflexivity|]); exists (qsize lb nd :: sizes);
      (split; [constructor; assumption|]); cbn [combine jsq_pure fst snd]; rewrite E1; try rewrite E2; reflexivity.
Qed.

Lemma Forall2_combine_In {A B} (R : A -> B -> Prop) : forall la lb, Forall2 R la lb ->
  (forall a b, In (a, b) (combine la lb) -> In a la /\ R a b) /\ (forall a, In a la -> exists b, In (a, b) (combine la lb)).
Proof.
  induction 1 as [|a b la lb Hab F [IH1 IH2]]; cbn [combine].
  - split; [intros a b []|intros a []].
  - split.
    + intros a' b' [E|Hin]; [injection E as <- <-; split; [left; reflexivity|exact Hab]|].
      destruct (IH1 _ _ Hin). split; [right; assumption|assumption].
    + intros a' [<-|Hin]; [exists b; left; reflexivity|]. destruct (IH2 _ Hin) as [b' Hb']. exists b'. right. exact Hb'.
Qed.
Lemma Forall2_combine_nth {A B} (R : A -> B -> Prop) : forall la lb, Forall2 R la lb ->
  forall k a b, nth_error (combine la lb) k = Some (a, b) -> nth_error la k = Some a /\ R a b.
Proof.
  induction 1 as [|a b la lb Hab F IH]; intros [|k] a' b' H; cbn [combine] in H; try discriminate.
  - injection H as <- <-. split; [reflexivity|exact Hab].
  - apply (IH k a' b' H).
Qed.
Lemma Forall2_combine_nth' {A B} (R : A -> B -> Prop) : forall la lb, Forall2 R la lb ->
  forall k a, nth_error la k = Some a -> exists b, nth_error (combine la lb) k = Some (a, b).
Proof.
  induction 1 as [|a b la lb Hab F IH]; intros [|k] a' H; try discriminate.
  - injection H as <-. exists b. reflexivity.
  - apply (IH k a' H).
Qed.

(* JoinShortestQueue.next_node / LoadBalancing.next_node, exactly: the candidate list is jsq_cands of the (destination, size
   read) pairs; tie_break order takes its head and consumes no draw, tie_break random takes the element at int(u * len) *)
Theorem jsq_next_spec lb ds order s d s' : jsq_next lb ds order s = Ok (d, s') ->
  exists sizes, Forall2 (fun d z => read_size lb (nodes s) d = Some z) ds sizes /\
    let c := jsq_cands (combine ds sizes) in
    if order then s' = s /\ hd_error c = Some d
    else exists u, took [u] s s' /\ nth_error c (rc_uniform (length c) u) = Some d.
Proof.
  unfold jsq_next. intros H. minv H c s1 E. apply jsq_loop_inv in E as (-> & sizes & F & ->). rewrite jsq_pure_cands in H.
  exists sizes. split; [exact F|]. cbv zeta. destruct order.
  - apply lift_inv in H as [H ->]. auto.
  - apply choice_uniform_inv in H as (u & T & Hn & _). exists u. auto.
Qed.

(* in words: the destination is a listed one whose size (as read, see qsize) is minimal among the listed ones at that instant;
   with tie_break order it is the first such in the list and no draw is consumed, with tie_break random one draw is consumed *)
Corollary jsq_next_minimal lb ds order s d s' : jsq_next lb ds order s = Ok (d, s') ->
  exists k z, nth_error ds k = Some d /\ read_size lb (nodes s) d = Some z /\
    (forall d' z', In d' ds -> read_size lb (nodes s) d' = Some z' -> z <= z') /\
    (forall d', In d' ds -> exists z', read_size lb (nodes s) d' = Some z') /\
    if order then s' = s /\ (forall k' d' z', (k' < k)%nat -> nth_error ds k' = Some d' -> read_size lb (nodes s) d' = Some z' -> z < z')
    else exists u, took [u] s s'.
Proof.
  intros H. apply jsq_next_spec in H as (sizes & F & H). cbv zeta in H.
  destruct (Forall2_combine_In _ _ _ F) as [C1 C2].
  assert (Hall : forall d', In d' ds -> exists z', read_size lb (nodes s) d' = Some z').
  { intros d' Hd'. destruct (C2 _ Hd') as [z' Hz']. exists z'. apply (C1 _ _ Hz'). }
  assert (Hmin : forall z, (forall q, In q (combine ds sizes) -> z <= snd q) ->
                  forall d' z', In d' ds -> read_size lb (nodes s) d' = Some z' -> z <= z').
  { intros z Hz d' z' Hd' Hr. destruct (C2 _ Hd') as [z'' Hz'']. destruct (C1 _ _ Hz'') as [_ Hr']. rewrite Hr in Hr'. injection Hr' as <-.
    apply (Hz _ Hz''). }
  destruct order.
  - destruct H as [-> H]. apply jsq_cands_hd in H as (k & z & Hk & Hz & Hf).
    destruct (Forall2_combine_nth _ _ _ F _ _ _ Hk) as [Hk1 Hk2]. exists k, z. split; [exact Hk1|]. split; [exact Hk2|].
    split; [apply Hmin; exact Hz|]. split; [exact Hall|]. split; [reflexivity|].
    intros k' d' z' Hlt Hk' Hr'. destruct (Forall2_combine_nth' _ _ _ F _ _ Hk') as [z'' Hz''].
    destruct (Forall2_combine_nth _ _ _ F _ _ _ Hz'') as [_ Hr'']. rewrite Hr' in Hr''. injection Hr'' as <-.
    apply (Hf k' (d', z') Hlt Hz'').
  - destruct H as (u & T & Hn). apply nth_error_In in Hn. apply jsq_cands_In in Hn as (z & Hin & Hz).
    destruct (C1 _ _ Hin) as [Hd Hr]. apply In_nth_error in Hd as [k Hk]. exists k, z. split; [exact Hk|]. split; [exact Hr|].
    split; [apply Hmin; exact Hz|]. split; [exact Hall|]. exists u. exact T.
Qed.

(* ================================================================================================================ *)
(* Part 2: the node routers (ciw.routing.NodeRouting subclasses), one specification each                            *)
(* ================================================================================================================ *)
Lemma nth_error_upd_eq {A} (l : list A) k y x : nth_error l k = Some x -> nth_error (upd l k y) k = Some y.
Proof. revert k; induction l as [|a l IH]; intros [|k] H; cbn in *; try discriminate; [reflexivity|apply IH; exact H]. Qed.
Lemma nthZ_updZ_eq {A} (l : list A) k y x : nthZ l k = Some x -> nthZ (updZ l k y) k = Some y.
Proof. unfold nthZ, updZ. destruct (k <? 0); [discriminate|]. apply nth_error_upd_eq. Qed.

(* Direct / Leave (and the Direct of a jockeying node): deterministic, nothing is drawn, nothing changes *)
Theorem router_direct to c j s d s' : node_router_next (RDirect to) c j s = Ok (d, s') -> d = to /\ s' = s.
Proof. cbn [node_router_next]. apply ret_inv. Qed.
Theorem router_jockey_direct to jk c j s d s' : node_router_next (RJockey to jk) c j s = Ok (d, s') -> d = to /\ s' = s.
Proof. cbn [node_router_next]. apply ret_inv. Qed.
Theorem router_leave c j s d s' : node_router_next RLeave c j s = Ok (d, s') -> d = -1 /\ s' = s.
Proof. cbn [node_router_next]. apply ret_inv. Qed.

(* Probabilistic: the entry chosen among destinations ++ [exit] has positive weight among probs ++ [1 - sum probs] *)
Theorem router_prob ds ps c j s d s' : upos s -> Forall (fun p => 0 <= p) ps -> zsum ps <= 8 ->
  node_router_next (RProb ds ps) c j s = Ok (d, s') ->
  exists k us, nth_error (ds ++ [-1]) k = Some d /\ 0 < nth k (ps ++ [8 - zsum ps]) 0 /\ took us s s' /\ (length us <= 1)%nat.
Proof.
  intros Hu Hps Hsum H. cbn [node_router_next] in H. minv H k s1 E.
  assert (HP : Forall (fun p => 0 <= p) (ps ++ [8 - zsum ps])) by (apply Forall_app; split; [exact Hps|constructor; [lia|constructor]]).
  destruct (choice_weighted_inv 8 _ _ _ _ ltac:(lia) HP Hu E) as (_ & K2 & us & T & L).
  apply lift_inv in H as [H ->]. exists k, us. auto.
Qed.
(* when destinations and probabilities correspond (Ciw checks this): a destination of positive probability, or the exit with
   positive remainder *)
Corollary router_prob_positive ds ps c j s d s' : upos s -> Forall (fun p => 0 <= p) ps -> zsum ps <= 8 -> length ds = length ps ->
  node_router_next (RProb ds ps) c j s = Ok (d, s') ->
  (exists k, nth_error ds k = Some d /\ 0 < nth k ps 0) \/ (d = -1 /\ 0 < 8 - zsum ps).
Proof.
  intros Hu Hps Hsum Hlen H. destruct (router_prob _ _ _ _ _ _ _ Hu Hps Hsum H) as (k & us & Hk & Hp & _).
  destruct (Nat.ltb_spec k (length ds)) as [L|L].
  - left. exists k. rewrite nth_error_app1 in Hk by exact L. rewrite app_nth1 in Hp by lia. auto.
  - right. assert (Hkl : (k < length (ds ++ [-1]%Z))%nat) by (apply nth_error_Some; congruence). rewrite app_length in Hkl. cbn in Hkl.
    assert (k = length ds) by lia. subst k. rewrite nth_error_app2 in Hk by lia. rewrite Nat.sub_diag in Hk. cbn in Hk. injection Hk as <-.
    rewrite Hlen in Hp. rewrite app_nth2 in Hp by lia. rewrite Nat.sub_diag in Hp. cbn in Hp. auto.
Qed.
(* a row of a TransitionMatrix: destinations 1..n *)
Lemma nth_error_zseq : forall n s k, (k < n)%nat -> nth_error (zseq s n) k = Some (s + Z.of_nat k).
Proof.
  induction n as [|n IH]; intros s [|k] H; try lia; cbn [zseq].
  - cbv [nth_error]. f_equal. lia.
  - change (nth_error (s :: zseq (s + 1) n) (S k)) with (nth_error (zseq (s + 1) n) k). rewrite IH by lia. f_equal. lia.
Qed.
Corollary router_transition_matrix ps c j s d s' : upos s -> Forall (fun p => 0 <= p) ps -> zsum ps <= 8 ->
  node_router_next (RProb (zseq 1 (length ps)) ps) c j s = Ok (d, s') ->
  (1 <= d <= zlen ps /\ 0 < nth (Z.to_nat (d - 1)) ps 0) \/ (d = -1 /\ 0 < 8 - zsum ps).
Proof.
  intros Hu Hps Hsum H. destruct (router_prob_positive _ _ _ _ _ _ _ Hu Hps Hsum (zseq_length _ _) H) as [(k & Hk & Hp)|R]; [left|right; exact R].
  assert (L : (k < length ps)%nat) by (rewrite <- (zseq_length 1 (length ps)); apply nth_error_Some; congruence).
  rewrite nth_error_zseq in Hk by exact L. injection Hk as <-. unfold zlen. replace (Z.to_nat (1 + Z.of_nat k - 1)) with k by lia. split; [lia|exact Hp].
Qed.

(* JoinShortestQueue / LoadBalancing *)
Theorem router_jsq lb ds order c j s d s' : node_router_next (RJsq lb ds order) c j s = Ok (d, s') ->
  exists k z, nth_error ds k = Some d /\ read_size lb (nodes s) d = Some z /\
    (forall d' z', In d' ds -> read_size lb (nodes s) d' = Some z' -> z <= z') /\
    (forall d', In d' ds -> exists z', read_size lb (nodes s) d' = Some z') /\
    if order then s' = s /\ (forall k' d' z', (k' < k)%nat -> nth_error ds k' = Some d' -> read_size lb (nodes s) d' = Some z' -> z < z')
    else exists u, took [u] s s'.
Proof. cbn [node_router_next]. apply jsq_next_minimal. Qed.

(* Cycle: the element of the cycle at the stored position; the per-(class, node) counter advances by one *)
Theorem router_cycle cy c j s d s' : node_router_next (RCycle cy) c j s = Ok (d, s') ->
  exists row p, nthZ (cyc s) c = Some row /\ nthZ row (j - 1) = Some p /\ cy <> [] /\
    nth_error cy (Z.to_nat (p mod zlen cy)) = Some d /\
    s' = s <| cyc := updZ (cyc s) c (updZ row (j - 1) (p + 1)) |>.
Proof.
  intros H. cbn [node_router_next] in H. minv H p s1 E. unfold get_cyc in E.
  minv E cs s2 E1. apply gets_inv in E1 as [-> ->]. minv E row s2 E2. apply lift_inv in E2 as [E2 ->]. apply lift_inv in E as [E ->].
  minv H u s1 E3. assert (Hne : cy <> [] /\ s1 = s) by (destruct cy; [discriminate|apply ret_inv in E3 as [_ ->]; split; [discriminate|reflexivity]]).
  destruct Hne as [Hne ->]. clear E3. minv H u' s1 E4. unfold bump_cyc in E4. apply modify_inv in E4. rewrite E2, E in E4. subst s1.
  apply lift_inv in H as [H ->]. exists row, p. unfold zlen. auto.
Qed.
(* so the next customer of that class at that node reads position + 1 (modulo the length of the cycle) *)
Corollary router_cycle_advances cy c j s d s' : node_router_next (RCycle cy) c j s = Ok (d, s') ->
  exists p, get_cyc c j s = Ok (p, s) /\ get_cyc c j s' = Ok (p + 1, s') /\
            (p + 1) mod zlen cy = (p mod zlen cy + 1) mod zlen cy /\ nodes s' = nodes s /\ inds s' = inds s /\ dr s' = dr s.
Proof.
  intros H. apply router_cycle in H as (row & p & H1 & H2 & Hne & Hd & ->). exists p.
  split; [unfold get_cyc, bind, gets, lift; rewrite H1; cbn; rewrite H2; reflexivity|].
  split; [|split; [rewrite Z.add_mod_idemp_l; [reflexivity|unfold zlen; destruct cy; [congruence|cbn [length]; lia]]|cbn; auto]].
  unfold get_cyc, bind, gets, lift. cbn [cyc set]. rewrite (nthZ_updZ_eq _ _ _ _ H1). cbn. rewrite (nthZ_updZ_eq _ _ _ _ H2). reflexivity.
Qed.

(* no router touches the nodes or the customers *)
Lemma node_router_next_frame r c j s d s' : node_router_next r c j s = Ok (d, s') ->
  nodes s' = nodes s /\ inds s' = inds s /\ now s' = now s /\ log s' = log s.
Proof.
  intros H. destruct r as [to| |ds ps|lb ds order|cy|to jk].
  - apply router_direct in H as [_ ->]. auto.
  - apply router_leave in H as [_ ->]. auto.
  - cbn [node_router_next] in H. minv H k s1 E. apply lift_inv in H as [_ ->]. unfold choice_weighted in E.
    destruct (ps ++ [8 - zsum ps]) as [|p0 rest]; [discriminate|]. destruct (_ && _ && _).
    + apply ret_inv in E as [_ ->]. auto.
    + minv E u s2 E1. apply draw_unif_inv in E1. destruct (rc_loop _ _ _ _ _); [|discriminate]. apply ret_inv in E as [_ ->].
      destruct (took_frame _ _ _ E1) as (A & B & _ & C & D & _). auto.
  - apply jsq_next_spec in H as (sizes & _ & H). cbv zeta in H. destruct order; [destruct H as [-> _]; auto|].
    destruct H as (u & T & _). destruct (took_frame _ _ _ T) as (A & B & _ & C & D & _). auto.
  - apply router_cycle in H as (row & p & _ & _ & _ & _ & ->). cbn. auto.
  - apply router_jockey_direct in H as [_ ->]. auto.
Qed.

(* ---------- simulation.nodes[index]: Python's indexing of [arrival node] + nodes 1..n + [exit node] ---------- *)
Definition vdest (n d : Z) : option Z :=
  if (1 <=? d) && (d <=? n) then Some d
  else if (d =? -1) || (d =? n + 1) then Some (-1)
  else if (- (n + 1) <=? d) && (d <=? -2) then Some (n + 2 + d)
  else None.
Lemma valid_dest_inv d s d' s' : valid_dest d s = Ok (d', s') -> s' = s /\ vdest (zlen (nodes s)) d = Some d'.
Proof.
  unfold valid_dest. intros H. minv H nn s1 E. apply gets_inv in E as [-> ->]. unfold vdest, zlen.
  destruct (_ && _); [apply ret_inv in H as [-> ->]; auto|]. destruct (_ || _); [apply ret_inv in H as [-> ->]; auto|].
  destruct (_ && _); [apply ret_inv in H as [-> ->]; auto|discriminate].
Qed.
(* a node of the network or the exit; an index that names a node (1..n) or is -1 is taken as it is *)
Lemma vdest_range n d d' : 0 <= n -> vdest n d = Some d' -> d' = -1 \/ 1 <= d' <= n.
Proof.
  unfold vdest. intros Hn H. destruct ((1 <=? d) && (d <=? n)) eqn:E1; [injection H as <-; right; lia|].
  destruct ((d =? -1) || (d =? n + 1)); [injection H as <-; auto|]. destruct ((- (n + 1) <=? d) && (d <=? -2)) eqn:E3; [|discriminate].
  injection H as <-. apply andb_true_iff in E3 as [A B]. apply Z.leb_le in A, B. apply andb_false_iff in E1.
  assert (d = - (n + 1) \/ - (n + 1) < d) as [->|L] by lia; [|right; lia].
  right. destruct E1 as [E1|E1]; lia.
Qed.
Lemma vdest_id n d : (1 <= d <= n \/ d = -1) -> vdest n d = Some d.
Proof.
  unfold vdest. intros [H| ->].
  - replace ((1 <=? d) && (d <=? n)) with true; [reflexivity|]. symmetry. apply andb_true_iff. split; apply Z.leb_le; lia.
  - destruct ((1 <=? -1) && (-1 <=? n)) eqn:E; [apply andb_true_iff in E as [E _]; apply Z.leb_le in E; lia|]. reflexivity.
Qed.

(* ================================================================================================================ *)
(* Part 3: next_node / next_node_for_rerouting / next_node_for_jockeying of the routing object of the customer's class *)
(* ================================================================================================================ *)
(* one routing decision, exactly: the index raw that the routing object returns and the state s1 it leaves
   (mode 0 next_node, 1 next_node_for_rerouting, 2 next_node_for_jockeying; x = the customer's record when the call starts) *)
Definition route_step (mode j : Z) (x : ind) (rt : routing) (s : sim) (raw : Z) (s1 : sim) : Prop :=
  match rt with
  | RtNR rs =>
    exists r, nthZ rs (j - 1) = Some r /\
      if mode =? 2 then raw = (match r with RJockey _ jk => jk | _ => -1 end) /\ s1 = s
      else node_router_next r (i_cls x) j s = Ok (raw, s1)
  | RtPB _ =>
    if mode =? 2 then raw = -1 /\ s1 = s
    else match i_route x with
         | None => False
         | Some [] => raw = -1 /\ s1 = s
         | Some (step :: rest) =>
           (* the head of the remaining route; the route is popped *)
           hd_error step = Some raw /\ s1 = s <| inds := put_ind_l (x <| i_route := Some rest |>) (inds s) |>
         end
  | RtFPB _ all ch =>
    if mode =? 2 then raw = -1 /\ s1 = s
    else match i_route x with
         | None => False
         | Some [] => raw = -1 /\ s1 = s
         | Some (step :: rest) =>
           exists sa,
             (* choice random: a uniform choice in the first remaining set; jsq / lb: JoinShortestQueue / LoadBalancing over that set, ties at random *)
             (if ch =? 0 then choice_uniform step s = Ok (raw, sa) else jsq_next (ch =? 2) step false s = Ok (raw, sa)) /\
             exists route',
               (* rule any: the whole set is dropped; rule all: only the chosen node is removed (the set is dropped when it becomes empty) *)
               (if all then exists step', remove_first raw step = Some step' /\ route' = match step' with [] => rest | _ => step' :: rest end
                else route' = rest) /\
               s1 = sa <| inds := put_ind_l (x <| i_route := Some route' |>) (inds sa) |>
         end
  end.

Section NextNode.
  Variable cf : config.

  Theorem next_node_for_spec mode j i s d s' : next_node_for cf mode j i s = Ok (d, s') ->
    exists x rt raw, find_ind i (inds s) = Some x /\ nthZ (cf_routing cf) (i_cls x) = Some rt /\
      route_step mode j x rt s raw s' /\ vdest (zlen (nodes s')) raw = Some d.
  Proof.
    intros H. unfold next_node_for in H. minv H x s1 E. apply get_ind_inv in E as [-> Hx].
    minv H rt s1 E. apply lift_inv in E as [Hrt ->]. minv H raw s1 E. apply valid_dest_inv in H as [-> Hv].
    exists x, rt, raw. split; [exact Hx|]. split; [exact Hrt|]. split; [|exact Hv]. clear Hv Hrt.
    destruct rt as [rs|rts|rts all ch]; cbn [route_step].
    - minv E r s2 E1. apply lift_inv in E1 as [Hr ->]. exists r. split; [exact Hr|].
      destruct (mode =? 2); [|exact E]. destruct r; apply ret_inv in E as [-> ->]; auto.
    - destruct (mode =? 2); [apply ret_inv in E as [-> ->]; auto|].
      destruct (i_route x) as [[|step rest]|]; [apply ret_inv in E as [-> ->]; auto| |discriminate].
      minv E d0 s2 E1. apply lift_inv in E1 as [Hd ->]. minv E u s2 E1. unfold put_ind in E1. apply modify_inv in E1. subst s2.
      apply ret_inv in E as [-> ->]. auto.
    - destruct (mode =? 2); [apply ret_inv in E as [-> ->]; auto|].
      destruct (i_route x) as [[|step rest]|]; [apply ret_inv in E as [-> ->]; auto| |discriminate].
      minv E d0 sa E1. minv E u s2 E2. apply ret_inv in E as [-> ->]. exists sa. split; [destruct (ch =? 0); exact E1|].
      destruct all.
      + minv E2 step' s3 E3. apply lift_inv in E3 as [E3 ->]. unfold put_ind in E2. apply modify_inv in E2.
        eexists. split; [exists step'; split; [exact E3|reflexivity]|exact E2].
      + unfold put_ind in E2. apply modify_inv in E2. exists rest. auto.
  Qed.

  Lemma put_ind_frame s x : nodes (s <| inds := put_ind_l x (inds s) |>) = nodes s /\ cyc (s <| inds := put_ind_l x (inds s) |>) = cyc s /\
    now (s <| inds := put_ind_l x (inds s) |>) = now s /\ log (s <| inds := put_ind_l x (inds s) |>) = log s.
  Proof. cbn. auto. Qed.

  (* a routing decision never touches a node, the clock or the records; it may only rewrite the route of that one customer *)
  Lemma route_step_frame mode j x rt s raw s1 : route_step mode j x rt s raw s1 ->
    nodes s1 = nodes s /\ now s1 = now s /\ log s1 = log s /\
    (inds s1 = inds s \/ exists ro, inds s1 = put_ind_l (x <| i_route := ro |>) (inds s)).
  Proof.
    destruct rt as [rs|rts|rts all ch]; cbn [route_step].
    - intros (r & _ & H). destruct (mode =? 2); [destruct H as [_ ->]; auto|].
      apply node_router_next_frame in H as (A & B & C & D). auto.
    - destruct (mode =? 2); [intros [_ ->]; auto|]. destruct (i_route x) as [[|step rest]|]; [intros [_ ->]; auto| |intros []].
      intros [_ ->]. cbn. repeat split. right. eexists. reflexivity.
    - destruct (mode =? 2); [intros [_ ->]; auto|]. destruct (i_route x) as [[|step rest]|]; [intros [_ ->]; auto| |intros []].
      intros (sa & Hc & route' & _ & ->).
      assert (T : exists u, took [u] s sa).
      { destruct (ch =? 0); [apply choice_uniform_inv in Hc as (u & T & _); eauto|].
        apply jsq_next_spec in Hc as (sizes & _ & Hc). cbv zeta in Hc. destruct Hc as (u & T & _). eauto. }
      destruct T as (u & T). destruct (took_frame _ _ _ T) as (A & B & _ & C & D & _). cbn. rewrite A, B, C, D.
      repeat split. right. eexists. reflexivity.
  Qed.

  (* ---------- the routing specification, as one predicate on the index returned ---------- *)
  (* ns = the nodes, cy = the Cycle counters, both at the instant of the decision; x = the customer *)
  Definition allowed (mode j : Z) (x : ind) (rt : routing) (ns : list node) (cy : list (list Z)) (raw : Z) : Prop :=
    match rt with
    | RtNR rs =>
      exists r, nthZ rs (j - 1) = Some r /\
        if mode =? 2 then raw = (match r with RJockey _ jk => jk | _ => -1 end)       (* jockeying: the configured node, otherwise the exit *)
        else match r with
             | RDirect to | RJockey to _ => raw = to
             | RLeave => raw = -1
             | RProb ds ps => exists k, nth_error (ds ++ [-1]) k = Some raw /\ 0 < nth k (ps ++ [8 - zsum ps]) 0
             | RJsq lb ds order =>
               exists k z, nth_error ds k = Some raw /\ read_size lb ns raw = Some z /\
                 (forall d' z', In d' ds -> read_size lb ns d' = Some z' -> z <= z') /\
                 (order = true -> forall k' d' z', (k' < k)%nat -> nth_error ds k' = Some d' -> read_size lb ns d' = Some z' -> z < z')
             | RCycle cyl =>
               exists row p, nthZ cy (i_cls x) = Some row /\ nthZ row (j - 1) = Some p /\ nth_error cyl (Z.to_nat (p mod zlen cyl)) = Some raw
             end
    | RtPB _ =>
      if mode =? 2 then raw = -1
      else match i_route x with None => False | Some [] => raw = -1 | Some (step :: _) => hd_error step = Some raw end
    | RtFPB _ _ ch =>
      if mode =? 2 then raw = -1
      else match i_route x with
           | None => False
           | Some [] => raw = -1
           | Some (step :: _) =>
             In raw step /\
             (ch <> 0 -> exists z, read_size (ch =? 2) ns raw = Some z /\ forall d' z', In d' step -> read_size (ch =? 2) ns d' = Some z' -> z <= z')
           end
    end.

  (* rows of Probabilistic routers: non-negative, summing to at most 1 (= 8 eighths); Ciw's constructor checks exactly this *)
  Definition routing_ok : Prop :=
    forall rs ds ps, In (RtNR rs) (cf_routing cf) -> In (RProb ds ps) rs -> Forall (fun p => 0 <= p) ps /\ zsum ps <= 8.
  Definition router_ok_b (r : nrouter) : bool :=
    match r with RProb _ ps => forallb (fun p => 0 <=? p) ps && (zsum ps <=? 8) | _ => true end.
  Definition routing_ok_b : bool :=
    forallb (fun rt => match rt with RtNR rs => forallb router_ok_b rs | _ => true end) (cf_routing cf).
  Lemma routing_ok_b_sound : routing_ok_b = true -> routing_ok.
  Proof.
    unfold routing_ok_b, routing_ok. intros H rs ds ps H1 H2. rewrite forallb_forall in H. specialize (H _ H1). cbn in H.
    rewrite forallb_forall in H. specialize (H _ H2). cbn in H. apply andb_true_iff in H as [A B]. split; [|apply Z.leb_le; exact B].
    apply Forall_forall. intros p Hp. rewrite forallb_forall in A. apply Z.leb_le. auto.
  Qed.

  Theorem route_step_allowed mode j x rt s raw s1 : routing_ok -> upos s -> In rt (cf_routing cf) ->
    route_step mode j x rt s raw s1 -> allowed mode j x rt (nodes s) (cyc s) raw.
  Proof.
    intros Hok Hu Hin. destruct rt as [rs|rts|rts all ch]; cbn [route_step allowed].
    - intros (r & Hr & H). exists r. split; [exact Hr|]. destruct (mode =? 2); [tauto|].
      destruct r as [to| |ds ps|lb ds order|cyl|to jk].
      + apply router_direct in H. tauto.
      + apply router_leave in H. tauto.
      + destruct (Hok rs ds ps Hin (nthZ_In _ _ _ Hr)) as [A B].
        destruct (router_prob _ _ _ _ _ _ _ Hu A B H) as (k & us & K1 & K2 & _). eauto.
      + apply router_jsq in H as (k & z & K1 & K2 & K3 & _ & K4). exists k, z. split; [exact K1|]. split; [exact K2|]. split; [exact K3|].
        intros ->. tauto.
      + apply router_cycle in H as (row & p & K1 & K2 & _ & K3 & _). eauto.
      + apply router_jockey_direct in H. tauto.
    - destruct (mode =? 2); [tauto|]. destruct (i_route x) as [[|step rest]|]; tauto.
    - destruct (mode =? 2); [tauto|]. destruct (i_route x) as [[|step rest]|]; [tauto| |tauto].
      intros (sa & Hc & _). destruct (ch =? 0) eqn:Ech.
      + apply choice_uniform_inv in Hc as (u & _ & _ & Hc). split; [exact Hc|]. intros Hne. apply Z.eqb_eq in Ech. contradiction.
      + apply jsq_next_minimal in Hc as (k & z & K1 & K2 & K3 & _). split; [eapply nth_error_In; eauto|]. intros _. eauto.
  Qed.

  (* ProcessBased, in words: the head of the customer's remaining route is returned and the route is popped; when nothing remains, the exit *)
  Corollary process_based_follows_route mode j i s d s' x rts :
    next_node_for cf mode j i s = Ok (d, s') -> find_ind i (inds s) = Some x -> nthZ (cf_routing cf) (i_cls x) = Some (RtPB rts) ->
    (mode =? 2) = false ->
    match i_route x with
    | None => False
    | Some [] => d = -1 /\ s' = s
    | Some (step :: rest) =>
      exists raw, hd_error step = Some raw /\ vdest (zlen (nodes s)) raw = Some d /\
        s' = s <| inds := put_ind_l (x <| i_route := Some rest |>) (inds s) |> /\
        find_ind i (inds s') = Some (x <| i_route := Some rest |>)
    end.
  Proof.
    intros H Hx Hrt Hm. apply next_node_for_spec in H as (x' & rt & raw & Hx' & Hrt' & Hs & Hv).
    rewrite Hx in Hx'. injection Hx' as <-. rewrite Hrt in Hrt'. injection Hrt' as <-. cbn [route_step] in Hs. rewrite Hm in Hs.
    destruct (i_route x) as [[|step rest]|]; [| |exact Hs].
    - destruct Hs as [-> ->]. split; [|reflexivity]. rewrite vdest_id in Hv by (right; reflexivity). congruence.
    - destruct Hs as [Hh ->]. exists raw. split; [exact Hh|]. split; [exact Hv|]. split; [reflexivity|].
      cbn [inds set]. rewrite find_put_ind. cbn [i_id set]. rewrite (find_ind_id _ _ _ Hx), Z.eqb_refl. reflexivity.
  Qed.

  (* FlexibleProcessBased, in words: a member of the first remaining set (for jsq / lb one of minimal size as read); rule any drops the set,
     rule all removes only the chosen node *)
  Corollary flexible_process_based_spec mode j i s d s' x rts all ch :
    next_node_for cf mode j i s = Ok (d, s') -> find_ind i (inds s) = Some x -> nthZ (cf_routing cf) (i_cls x) = Some (RtFPB rts all ch) ->
    (mode =? 2) = false ->
    match i_route x with
    | None => False
    | Some [] => d = -1 /\ s' = s
    | Some (step :: rest) =>
      exists raw u route', In raw step /\ vdest (zlen (nodes s)) raw = Some d /\
        (ch <> 0 -> exists z, read_size (ch =? 2) (nodes s) raw = Some z /\ forall d' z', In d' step -> read_size (ch =? 2) (nodes s) d' = Some z' -> z <= z') /\
        (if all then exists step', remove_first raw step = Some step' /\ route' = match step' with [] => rest | _ => step' :: rest end
         else route' = rest) /\
        d_unif (dr s) = u :: d_unif (dr s') /\ nodes s' = nodes s /\
        find_ind i (inds s') = Some (x <| i_route := Some route' |>)
    end.
  Proof.
    intros H Hx Hrt Hm. apply next_node_for_spec in H as (x' & rt & raw & Hx' & Hrt' & Hs & Hv).
    rewrite Hx in Hx'. injection Hx' as <-. rewrite Hrt in Hrt'. injection Hrt' as <-.
    pose proof (route_step_frame _ _ _ _ _ _ _ Hs) as (Hn & _). cbn [route_step] in Hs. rewrite Hm in Hs.
    destruct (i_route x) as [[|step rest]|]; [| |exact Hs].
    - destruct Hs as [-> ->]. split; [|reflexivity]. rewrite vdest_id in Hv by (right; reflexivity). congruence.
    - destruct Hs as (sa & Hc & route' & Hr & ->).
      assert (T : exists u, took [u] s sa /\ In raw step /\
                (ch <> 0 -> exists z, read_size (ch =? 2) (nodes s) raw = Some z /\ forall d' z', In d' step -> read_size (ch =? 2) (nodes s) d' = Some z' -> z <= z')).
      { destruct (ch =? 0) eqn:Ech.
        - apply choice_uniform_inv in Hc as (u & T & _ & Hc). exists u. split; [exact T|]. split; [exact Hc|]. intros Hne. apply Z.eqb_eq in Ech. contradiction.
        - apply jsq_next_minimal in Hc as (k & z & K1 & K2 & K3 & _ & (u & T)). exists u. split; [exact T|]. split; [eapply nth_error_In; eauto|]. intros _. eauto. }
      destruct T as (u & T & Hin & Hmin). destruct (took_frame _ _ _ T) as (A & B & _ & _ & _ & _ & _ & Du).
      exists raw, u, route'. split; [exact Hin|]. cbn [nodes set] in Hv. rewrite A in Hv. split; [exact Hv|]. split; [exact Hmin|]. split; [exact Hr|].
      split; [exact Du|]. split; [exact Hn|].
      cbn [inds set]. rewrite find_put_ind. cbn [i_id set]. rewrite (find_ind_id _ _ _ Hx), Z.eqb_refl. reflexivity.
  Qed.
End NextNode.

(* ================================================================================================================ *)
(* Part 4: the events that route -- end of service (class change, routing, release or block), reneging, rerouting   *)
(* ================================================================================================================ *)
Section Events.
  Variable cf : config.

  (* class-change matrices: rows non-negative (Ciw checks this when the network is created) *)
  Definition ccm_ok : Prop :=
    forall nc m row, In nc (cf_nodes cf) -> nc_ccm nc = Some m -> In row m -> Forall (fun p => 0 <= p) row.
  Definition ccm_ok_b : bool :=
    forallb (fun nc => match nc_ccm nc with Some m => forallb (forallb (fun p => 0 <=? p)) m | None => true end) (cf_nodes cf).
  Lemma ccm_ok_b_sound : ccm_ok_b = true -> ccm_ok.
  Proof.
    unfold ccm_ok_b, ccm_ok. intros H nc m row Hn Hm Hw. rewrite forallb_forall in H. specialize (H _ Hn). rewrite Hm in H.
    rewrite forallb_forall in H. specialize (H _ Hw). apply Forall_forall. intros p Hp. rewrite forallb_forall in H. apply Z.leb_le. auto.
  Qed.

  (* change_customer_class (after service): without a matrix nothing happens; with one, the new class has positive probability
     in the row of the old class, the priority becomes that of the new class, the old class and priority are remembered *)
  Theorem change_customer_class_spec j i s s' : ccm_ok -> upos s -> change_customer_class cf j i s = Ok (tt, s') ->
    exists nc x, nthZ (cf_nodes cf) (j - 1) = Some nc /\ find_ind i (inds s) = Some x /\
      match nc_ccm nc with
      | None => s' = s
      | Some m =>
        exists row k p' us sa, nthZ m (i_cls x) = Some row /\ (k < length row)%nat /\ 0 < nth k row 0 /\
          nthZ (cf_prio cf) (Z.of_nat k) = Some p' /\ took us s sa /\ (length us <= 1)%nat /\
          s' = sa <| inds := put_ind_l (x <| i_pcls := i_cls x |> <| i_cls := Z.of_nat k |> <| i_pprio := i_prio x |> <| i_prio := p' |>) (inds sa) |>
      end.
  Proof.
    intros Hok Hu H. unfold change_customer_class in H. minv H nc s1 E. apply ncfg_of_inv in E as [-> Hnc].
    minv H x s1 E. apply get_ind_inv in E as [-> Hx]. exists nc, x. split; [exact Hnc|]. split; [exact Hx|].
    destruct (nc_ccm nc) as [m|] eqn:Em; [|apply ret_inv in H as [_ ->]; reflexivity].
    minv H row s1 E. apply lift_inv in E as [Hrow ->]. minv H k sa E.
    assert (Hr : Forall (fun p => 0 <= p) row) by (apply (Hok nc m row); [eapply nthZ_In; eauto|exact Em|eapply nthZ_In; eauto]).
    destruct (choice_weighted_inv 8 row _ _ _ ltac:(lia) Hr Hu E) as (K1 & K2 & us & T & L). cbv zeta in H.
    minv H p' s1 E1. apply lift_inv in E1 as [Hp ->]. unfold put_ind in H. apply modify_inv in H.
    exists row, k, p', us, sa. auto 10.
  Qed.

  (* the customer after the class change *)
  Corollary change_customer_class_result j i s s' : ccm_ok -> upos s -> change_customer_class cf j i s = Ok (tt, s') ->
    exists nc x x', nthZ (cf_nodes cf) (j - 1) = Some nc /\ find_ind i (inds s) = Some x /\ find_ind i (inds s') = Some x' /\
      nodes s' = nodes s /\ cyc s' = cyc s /\ upos s' /\
      match nc_ccm nc with
      | None => x' = x
      | Some m => exists row k, nthZ m (i_cls x) = Some row /\ i_cls x' = Z.of_nat k /\ (k < length row)%nat /\ 0 < nth k row 0 /\
                                nthZ (cf_prio cf) (i_cls x') = Some (i_prio x') /\ i_pcls x' = i_cls x /\ i_pprio x' = i_prio x /\ i_route x' = i_route x
      end.
  Proof.
    intros Hok Hu H. destruct (change_customer_class_spec _ _ _ _ Hok Hu H) as (nc & x & Hnc & Hx & R).
    destruct (nc_ccm nc) as [m|] eqn:Em.
    - destruct R as (row & k & p' & us & sa & K1 & K2 & K3 & K4 & T & _ & ->).
      destruct (took_frame _ _ _ T) as (A & B & C & _). destruct (took_upos _ _ _ T Hu) as [Hu' _].
      eexists nc, x, _. split; [exact Hnc|]. split; [exact Hx|]. split.
      { cbn [inds set]. rewrite find_put_ind. cbn [i_id set]. rewrite (find_ind_id _ _ _ Hx), Z.eqb_refl. reflexivity. }
      split; [exact A|]. split; [exact C|]. split; [exact Hu'|]. rewrite Em. exists row, k. cbn. auto 10.
    - subst s'. exists nc, x, x. rewrite Em. auto 10.
  Qed.

  Lemma decide_between_inv l a s s' : decide_between l s = Ok (a, s') -> In a l /\ exists us, took us s s' /\ (length us <= 1)%nat.
  Proof.
    unfold decide_between. destruct l as [|a0 [|b0 r]]; [discriminate| |].
    - intros H. apply ret_inv in H as [-> ->]. split; [left; reflexivity|]. exists []. split; [apply took_nil|cbn; lia].
    - intros H. apply choice_uniform_inv in H as (u & T & _ & Hin). split; [exact Hin|]. exists [u]. split; [exact T|cbn; lia].
  Qed.
  Lemma upd_server_inds j sid f u s s' : upd_server j sid f s = Ok (u, s') -> inds s' = inds s /\ dr s' = dr s /\ cyc s' = cyc s.
  Proof.
    unfold upd_server. intros H. minv H nd s1 E. apply get_node_inv in E as (-> & _). destruct (find_server sid (n_servers nd)).
    - unfold put_node in H. apply modify_inv in H. subst s'. cbn. auto.
    - apply ret_inv in H as [_ ->]. auto.
  Qed.
  Lemma has_space_ro d b s s' : has_space cf d s = Ok (b, s') -> s' = s.
  Proof.
    unfold has_space. destruct (d =? -1); [intros H; apply ret_inv in H; tauto|]. intros H. minv H dn s1 E. apply get_node_inv in E as (-> & _).
    minv H dc s1 E. apply ncfg_of_inv in E as [-> _]. apply ret_inv in H. tauto.
  Qed.

  (* Node.finish_service, step by step: one of the customers whose service ends now is taken, its class is changed, the routing
     object of its (new) class is asked once (mode 0), the answer d is stamped on the customer, and the customer is released
     towards d when d has room, blocked towards d otherwise *)
  Theorem finish_service_steps j s s' : finish_service cf j s = Ok (tt, s') ->
    exists nd i sa sb d sc se space,
      nthZ (nodes s) (j - 1) = Some nd /\ In i (n_next_inds nd) /\ (exists us, took us s sa /\ (length us <= 1)%nat) /\
      change_customer_class cf j i sa = Ok (tt, sb) /\
      next_node_for cf 0 j i sb = Ok (d, sc) /\
      (exists y, find_ind i (inds sc) = Some y /\ inds se = put_ind_l (y <| i_dest := Some d |>) (inds sc)) /\
      has_space cf d se = Ok (space, se) /\
      if space then release cf (fuel_of se) j i d false se = Ok (tt, s') else block_individual j i d se = Ok (tt, s').
  Proof.
    intros H. unfold finish_service in H. minv H nd s1 E. apply get_node_inv in E as (-> & Hj & Hnd).
    minv H i sa Ei. apply decide_between_inv in Ei as [Hin HT]. minv H u sb Ec. destruct u.
    minv H d sc En. minv H u sd Eu. destruct u. apply upd_ind_inv in Eu as (y & Hy & ->).
    minv H nc s1 E. apply ncfg_of_inv in E as [-> Hnc]. minv H u se Es. destruct u.
    assert (Hse : inds se = put_ind_l (y <| i_dest := Some d |>) (inds sc)).
    { destruct (negb (nd_inf nd) && negb (nc_slotted nc)); [|apply ret_inv in Es as [_ ->]; reflexivity].
      minv Es x1 s1 E. apply get_ind_inv in E as [-> _]. minv Es sid s1 E. apply lift_inv in E as [_ ->].
      unfold set_next_end in Es. apply upd_server_inds in Es as [-> _]. reflexivity. }
    minv H space sf Eh. pose proof (has_space_ro _ _ _ _ Eh) as ->.
    exists nd, i, sa, sb, d, sc, se, space. split; [exact Hnd|]. split; [exact Hin|]. split; [exact HT|]. split; [exact Ec|]. split; [exact En|].
    split; [exists y; auto|]. split; [exact Eh|]. destruct space; [|exact H].
    minv H fl s1 E. apply gets_inv in E as [-> ->]. exact H.
  Qed.

  (* the same with the specifications put in: for class-change rows >= 0, Probabilistic rows >= 0 summing to <= 1 and uniform
     draws > 0, the new class has positive probability, the index returned is one the routing specification allows (as read from
     the nodes and Cycle counters of the state s in which the event starts) and the customer leaves, or is blocked, towards it *)
  Theorem finish_service_route j s s' : routing_ok cf -> ccm_ok -> upos s -> finish_service cf j s = Ok (tt, s') ->
    exists i x nc x1 rt raw d se space,
      find_ind i (inds s) = Some x /\ nthZ (cf_nodes cf) (j - 1) = Some nc /\
      (* class change: x1 is the customer after it *)
      (match nc_ccm nc with
       | None => x1 = x
       | Some m => exists row k, nthZ m (i_cls x) = Some row /\ i_cls x1 = Z.of_nat k /\ (k < length row)%nat /\ 0 < nth k row 0 /\
                                 nthZ (cf_prio cf) (i_cls x1) = Some (i_prio x1) /\ i_pcls x1 = i_cls x /\ i_pprio x1 = i_prio x /\ i_route x1 = i_route x
       end) /\
      (* routing by the routing object of the new class *)
      nthZ (cf_routing cf) (i_cls x1) = Some rt /\ allowed 0 j x1 rt (nodes s) (cyc s) raw /\ vdest (zlen (nodes s)) raw = Some d /\
      (* the destination is stamped on the customer, who is released towards it or blocked towards it *)
      (exists y, find_ind i (inds se) = Some y /\ i_dest y = Some d) /\
      has_space cf d se = Ok (space, se) /\
      if space then release cf (fuel_of se) j i d false se = Ok (tt, s') else block_individual j i d se = Ok (tt, s').
  Proof.
    intros Hrok Hcok Hu H. apply finish_service_steps in H as (nd & i & sa & sb & d & sc & se & space & Hnd & Hin & (us & T & _) & Hc & Hn & (y & Hy & Hse) & Hsp & Hrel).
    destruct (took_frame _ _ _ T) as (A1 & A2 & A3 & _). destruct (took_upos _ _ _ T Hu) as [Hua _].
    destruct (change_customer_class_result _ _ _ _ Hcok Hua Hc) as (nc & x & x1 & Hnc & Hx & Hx1 & B1 & B2 & Hub & Hcc).
    apply next_node_for_spec in Hn as (x1' & rt & raw & Hx1' & Hrt & Hstep & Hv). rewrite Hx1 in Hx1'. injection Hx1' as <-.
    destruct (route_step_frame _ _ _ _ _ _ _ Hstep) as (C1 & _).
    pose proof (route_step_allowed cf _ _ _ _ _ _ _ Hrok Hub (nthZ_In _ _ _ Hrt) Hstep) as Hal.
    rewrite B1, B2, A1, A3 in Hal. rewrite C1, B1, A1 in Hv. rewrite A2 in Hx.
    exists i, x, nc, x1, rt, raw, d, se, space. split; [exact Hx|]. split; [exact Hnc|]. split; [exact Hcc|]. split; [exact Hrt|].
    split; [exact Hal|]. split; [exact Hv|]. split; [|split; [exact Hsp|exact Hrel]].
    eexists. split; [rewrite Hse, find_put_ind; cbn [i_id set]; rewrite (find_ind_id _ _ _ Hy), Z.eqb_refl; reflexivity|reflexivity].
  Qed.
End Events.

(* ================================================================================================================ *)
(* Part 5: a walk over the whole engine for a property of (identifier, class, priority) of every customer record    *)
(* ================================================================================================================ *)
(* ---------- the recursive core, one layer at a time (the recursive calls as parameters) ---------- *)
Section Bodies.
  Variable cf : config.
  Definition release_body (acc : Z -> Z -> M unit) (rbi : Z -> M unit) (j i d : Z) (rr : bool) : M unit :=
    t <- tnow ;;
    x <- get_ind i ;;
    nd <- get_node j ;;
    nc <- ncfg_of cf j ;;
    q <- lift E_Remove (nthZ (n_queues nd) (i_pprio x)) ;;
    q' <- lift E_Remove (remove_first i q) ;;
    let nd1 := nd <| n_queues := updZ (n_queues nd) (i_pprio x) q' |> <| n_pop := n_pop nd - 1 |> <| n_insvc := n_insvc nd - 1 |> in
    put_node nd1 ;;;
    put_ind (x <| i_qd := Some (n_pop nd1) |> <| i_exit := Some t |>) ;;;
    (if rr then ret tt else write_individual_record cf j i) ;;;
    freed <- (if negb (nd_inf nd) && negb (nc_slotted nc)
              then x1 <- get_ind i ;; sid <- lift E_NoServer (i_server x1) ;; detatch_server j sid i ;;; ret (Some sid)
              else ret None) ;;
    (if nc_slotted nc then upd_ind i (fun y => y <| i_server := None |>) else ret tt) ;;;
    reset_individual_attributes i ;;;
    (if rr then ret tt else begin_service_if_possible_release cf j freed) ;;;
    (if d =? -1 then exit_accept i true else acc d i) ;;;
    (if rr then ret tt else rbi j).
  Definition rbi_body (rel : Z -> Z -> Z -> bool -> M unit) (j : Z) : M unit :=
    nd <- get_node j ;; nc <- ncfg_of cf j ;;
    if (0 <? n_lenbq nd) && (match nc_cap nc with None => true | Some cap => n_pop nd <? cap end) then
      match n_bq nd with
      | [] => fail E_Index
      | (from, y) :: rest =>
        fnd <- get_node from ;;
        (if memZ y (all_individuals fnd) then ret tt else fail E_Index) ;;;
        put_node (nd <| n_bq := rest |> <| n_lenbq := n_lenbq nd - 1 |>) ;;;
        yx <- get_ind y ;;
        (if i_interrupted yx then
           os <- lift E_Attr (i_osst yx) ;; ot <- lift E_Attr (i_ost yx) ;;
           put_ind (yx <| i_interrupted := false |> <| i_sst := Some os |> <| i_send := Some (os + ot) |>) ;;;
           fnd2 <- get_node from ;;
           l' <- lift E_IntRemove (remove_first y (n_interrupted fnd2)) ;;
           put_node (fnd2 <| n_interrupted := l' |> <| n_nint := n_nint fnd2 - 1 |>)
         else ret tt) ;;;
        rel from y j false
      end
    else ret tt.
  Definition accept_body (pre : Z -> Z -> Z -> M unit) (j i : Z) : M unit :=
    x <- get_ind i ;; nd <- get_node j ;;
    put_ind (x <| i_node := Some j |> <| i_exit := None |> <| i_blocked := false |> <| i_ocls := i_cls x |> <| i_pcls := i_cls x |>
               <| i_pprio := i_prio x |> <| i_qa := Some (n_pop nd) |>) ;;;
    qs <- lift E_Index (match nthZ (n_queues nd) (i_prio x) with Some q => Some (updZ (n_queues nd) (i_prio x) (q ++ [i])) | None => None end) ;;
    put_node (nd <| n_queues := qs |> <| n_pop := n_pop nd + 1 |>) ;;;
    t <- tnow ;;
    upd_ind i (fun y => y <| i_arr := Some t |>) ;;;
    nc <- ncfg_of cf j ;;
    (if nc_reneging nc then rd <- get_reneging_date cf j i ;; upd_ind i (fun y => y <| i_ren := rd |>) else ret tt) ;;;
    decide_class_change cf j i ;;;
    nd1 <- get_node j ;;
    let inf := nd_inf nd1 in
    cand <- (if inf then ret (Some i) else choose_next_customer cf j) ;;
    match cand with
    | None => ret tt
    | Some c =>
      if inf then start_fresh cf j c None true
      else
        cx <- get_ind c ;;
        match find_free_server_for (nc_spf nc) (i_cls cx) (n_servers nd1) with
           | Some sv => start_fresh cf j c (Some (sv_id sv)) true
           | None =>
             if 0 <? numo (n_c nd1) then
               v <- preempt_victim cf j c ;;
               match v with Some vi => pre j vi c | None => ret tt end
             else ret tt
           end
    end.
  Definition preempt_body (rel : Z -> Z -> Z -> bool -> M unit) (j v i : Z) : M unit :=
    t <- tnow ;;
    vx <- get_ind v ;; nc <- ncfg_of cf j ;;
    put_ind (vx <| i_ost := i_stime vx |>) ;;;
    (if nc_preempt nc =? 4 then
       d <- next_node_for cf 1 j v ;;
       write_interruption_record cf j v (Some d) ;;;
       rel j v d true
     else
       write_interruption_record cf j v None ;;;
       upd_ind v (fun y => y <| i_sst := None |> <| i_tleft := Some (numo (i_send y) - t) |> <| i_smark := nc_preempt nc |>
                            <| i_stime := None |> <| i_send := None |>) ;;;
       sid <- lift E_NoServer (i_server vx) ;;
       detatch_server j sid v ;;;
       decide_class_change cf j v) ;;;
    sid <- lift E_NoServer (i_server vx) ;;
    start_preemptor cf j i sid.

  Lemma release_S f j i d rr : release cf (S f) j i d rr = release_body (accept cf f) (release_blocked_individual cf f) j i d rr.
  Proof. reflexivity. Qed.
  Lemma rbi_S f j : release_blocked_individual cf (S f) j = rbi_body (release cf f) j.
  Proof. reflexivity. Qed.
  Lemma accept_S f j i : accept cf (S f) j i = accept_body (preempt cf f) j i.
  Proof. reflexivity. Qed.
  Lemma preempt_S f j v i : preempt cf (S f) j v i = preempt_body (release cf f) j v i.
  Proof. reflexivity. Qed.
End Bodies.

Create HintDb kidb.
Section KI.
  (* any relation between the identifier, the class and the priority of a record *)
  Variable R : Z -> Z -> Z -> Prop.
  Definition Q (x : ind) : Prop := R (i_id x) (i_cls x) (i_prio x).
  Definition QI (s : sim) : Prop := forall x, In x (inds s) -> Q x.
  Definition ki {A} (m : M A) : Prop := forall s a s', QI s -> m s = Ok (a, s') -> QI s'.

  Lemma ki_ret {A} (a : A) : ki (ret a). Proof. intros s b s' HQ H. apply ret_inv in H as [_ ->]. exact HQ. Qed.
  Lemma ki_fail {A} e : ki (@fail A e). Proof. intros s a s' _ H. discriminate. Qed.
  Lemma ki_oof {A} : ki (@oof A). Proof. intros s a s' _ H. discriminate. Qed.
  Lemma ki_bind {A B} (m : M A) (f : A -> M B) : ki m -> (forall a, ki (f a)) -> ki (bind m f).
  Proof. intros Hm Hf s b s' HQ H. minv H a s1 E. eapply Hf; [eapply Hm; eauto|exact H]. Qed.
  Lemma ki_gets {A} (f : sim -> A) : ki (gets f). Proof. intros s a s' HQ H. apply gets_inv in H as [_ ->]. exact HQ. Qed.
  Lemma ki_lift {A} e (o : option A) : ki (lift e o). Proof. destruct o; [apply ki_ret|apply ki_fail]. Qed.
  Lemma ki_lift_bind {A B} e (o : option A) (f : A -> M B) : (forall a, o = Some a -> ki (f a)) -> ki (bind (lift e o) f).
  Proof. intros Hf s b s' HQ H. minv H a s1 E. apply lift_inv in E as [E ->]. eapply Hf; eauto. Qed.
  Lemma ki_same (f : sim -> sim) : (forall s, inds (f s) = inds s) -> ki (modify f).
  Proof. intros Hf s a s' HQ H. apply modify_inv in H. subst s'. unfold QI. rewrite Hf. exact HQ. Qed.
  Lemma ki_get_node j : ki (get_node j). Proof. intros s a s' HQ H. apply get_node_inv in H as [-> _]. exact HQ. Qed.
  Lemma ki_get_ind i : ki (get_ind i). Proof. intros s a s' HQ H. apply get_ind_inv in H as [-> _]. exact HQ. Qed.
  (* a record that has been read satisfies the relation, whatever happens to the state afterwards *)
  Lemma ki_get_ind_bind {B} i (f : ind -> M B) : (forall x, Q x -> ki (f x)) -> ki (bind (get_ind i) f).
  Proof. intros Hf s b s' HQ H. minv H x s1 E. apply get_ind_inv in E as [-> E]. eapply Hf; [apply HQ; eapply find_ind_In; eauto|exact HQ|exact H]. Qed.
  Lemma ki_put_node nd : ki (put_node nd). Proof. apply ki_same. reflexivity. Qed.
  Lemma ki_put_ind x : Q x -> ki (put_ind x).
  Proof. intros Hx s a s' HQ H. unfold put_ind in H. apply modify_inv in H. subst s'. intros y Hy. cbn in Hy. apply In_put_ind_l in Hy as [->|Hy]; auto. Qed.
  Lemma ki_del_ind i : ki (del_ind i).
  Proof. intros s a s' HQ H. unfold del_ind in H. apply modify_inv in H. subst s'. intros y Hy. cbn in Hy. apply In_del_ind_l in Hy. auto. Qed.
  Lemma ki_upd_ind i f : (forall x, Q x -> Q (f x)) -> ki (upd_ind i f).
  Proof. intros Hf. unfold upd_ind. apply ki_get_ind_bind. intros x Hx. apply ki_put_ind. auto. Qed.
  Lemma ki_log_rec r : ki (log_rec r). Proof. apply ki_same. reflexivity. Qed.
  Lemma ki_draw_arr : ki draw_arr. Proof. intros s a s' HQ H. unfold draw_arr in H. destruct (d_arr (dr s)); inversion H. exact HQ. Qed.
  Lemma ki_draw_batch : ki draw_batch. Proof. intros s a s' HQ H. unfold draw_batch in H. destruct (d_batch (dr s)); inversion H. exact HQ. Qed.
  Lemma ki_draw_svc : ki draw_svc. Proof. intros s a s' HQ H. unfold draw_svc in H. destruct (d_svc (dr s)); inversion H. exact HQ. Qed.
  Lemma ki_draw_unif : ki draw_unif. Proof. intros s a s' HQ H. unfold draw_unif in H. destruct (d_unif (dr s)); inversion H. exact HQ. Qed.
  Lemma ki_draw_ren : ki draw_ren. Proof. intros s a s' HQ H. unfold draw_ren in H. destruct (d_ren (dr s)); inversion H. exact HQ. Qed.
  Lemma ki_draw_cct : ki draw_cct. Proof. intros s a s' HQ H. unfold draw_cct in H. destruct (d_cct (dr s)); inversion H. exact HQ. Qed.
  Lemma ki_mapM {A B} (f : A -> M B) l : (forall a, ki (f a)) -> ki (mapM f l).
  Proof. intros Hf. induction l as [|a r IH]; cbn [mapM]; [apply ki_ret|]. apply ki_bind; [apply Hf|]. intros b. apply ki_bind; [exact IH|]. intros bs. apply ki_ret. Qed.
  Lemma ki_forM {A} (f : A -> M unit) l : (forall a, ki (f a)) -> ki (forM_ l f).
  Proof. intros Hf. induction l as [|a r IH]; cbn [forM_]; [apply ki_ret|]. apply ki_bind; [apply Hf|]. intros _. exact IH. Qed.

  #[local] Hint Resolve ki_ret ki_fail ki_oof ki_gets ki_lift ki_get_node ki_get_ind ki_put_node ki_del_ind ki_log_rec
    ki_draw_arr ki_draw_batch ki_draw_svc ki_draw_unif ki_draw_ren ki_draw_cct : kidb.

  (* a record written back with other fields changed: identifier, class and priority are those of a record that was read *)
  Ltac qside := match goal with H : Q _ |- Q _ => exact H end.
  Ltac ki1 :=
    first
      [ solve [auto 1 with kidb nocore]
      | (apply ki_same; intros ?; reflexivity)
      | (apply ki_put_ind; qside)
      | (apply ki_upd_ind; intros ? ?; qside)
      | (apply ki_get_ind_bind; intros ? ?)
      | (apply ki_lift_bind; intros ? ?)
      | (apply ki_bind; [|intros])
      | (apply ki_mapM; intros) | (apply ki_forM; intros)
      | match goal with
        | |- ki (if ?b then _ else _) => destruct b
        | |- ki (match ?x with _ => _ end) => destruct x
        | |- ki (let '(_, _) := ?x in _) => destruct x
        end ].
  Ltac kiw := repeat ki1.

  Variable cf : config.
  Lemma ki_ncfg_of j : ki (ncfg_of cf j). Proof. apply ki_lift. Qed.
  Lemma ki_upd_node j f : ki (upd_node j f). Proof. unfold upd_node. kiw. Qed.
  Lemma ki_tnow : ki tnow. Proof. apply ki_gets. Qed.
  #[local] Hint Resolve ki_ncfg_of ki_upd_node ki_tnow : kidb.
  Lemma ki_choice_uniform {A} (l : list A) : ki (choice_uniform l). Proof. unfold choice_uniform. kiw. Qed.
  Lemma ki_choice_weighted den Pw : ki (choice_weighted den Pw). Proof. unfold choice_weighted. kiw. Qed.
  #[local] Hint Resolve ki_choice_uniform ki_choice_weighted : kidb.
  Lemma ki_exit_accept i c : ki (exit_accept i c). Proof. unfold exit_accept. kiw. Qed.
  Lemma ki_choose_next_customer j : ki (choose_next_customer cf j). Proof. unfold choose_next_customer. kiw. Qed.
  Lemma ki_upd_server j sid f : ki (upd_server j sid f). Proof. unfold upd_server. kiw. Qed.
  #[local] Hint Resolve ki_exit_accept ki_choose_next_customer ki_upd_server : kidb.
  Lemma ki_find_next_class_change j : ki (find_next_class_change j). Proof. unfold find_next_class_change. kiw. Qed.
  #[local] Hint Resolve ki_find_next_class_change : kidb.
  Lemma ki_cct_loop : forall row b best bc, ki (cct_loop row b best bc).
  Proof. induction row as [|h r IH]; intros b best bc; cbn [cct_loop]; [apply ki_ret|]. destruct h; [|apply IH]. apply ki_bind; [apply ki_draw_cct|]. intros t. destruct (date_lt (Some t) best); apply IH. Qed.
  #[local] Hint Resolve ki_cct_loop : kidb.
  Lemma ki_decide_class_change j i : ki (decide_class_change cf j i). Proof. unfold decide_class_change. kiw. Qed.
  Lemma ki_reset_class_change j i : ki (reset_class_change cf j i). Proof. unfold reset_class_change. kiw. Qed.
  Lemma ki_stime_num x : ki (stime_num x). Proof. unfold stime_num. kiw. Qed.
  Lemma ki_gstap i : ki (give_service_time_after_preemption i). Proof. unfold give_service_time_after_preemption. kiw. Qed.
  #[local] Hint Resolve ki_decide_class_change ki_reset_class_change ki_stime_num ki_gstap : kidb.
  Lemma ki_giast i : ki (give_individual_a_service_time i). Proof. unfold give_individual_a_service_time. kiw. Qed.
  Lemma ki_attach_server j sid i : ki (attach_server j sid i). Proof. unfold attach_server. kiw. Qed.
  Lemma ki_set_next_end j sid d : ki (set_next_end j sid d). Proof. unfold set_next_end. kiw. Qed.
  Lemma ki_kill_server j sid : ki (kill_server j sid). Proof. unfold kill_server. kiw. Qed.
  #[local] Hint Resolve ki_giast ki_attach_server ki_set_next_end ki_kill_server : kidb.
  Lemma ki_detatch_server j sid i : ki (detatch_server j sid i). Proof. unfold detatch_server. kiw. Qed.
  Lemma ki_bump_rec i : ki (bump_rec i). Proof. unfold bump_rec. kiw. Qed.
  #[local] Hint Resolve ki_detatch_server ki_bump_rec : kidb.
  Lemma ki_write_individual_record j i : ki (write_individual_record cf j i). Proof. unfold write_individual_record. kiw. Qed.
  Lemma ki_write_interruption_record j i d : ki (write_interruption_record cf j i d). Proof. unfold write_interruption_record. kiw. Qed.
  Lemma ki_write_reneging_record j i : ki (write_reneging_record j i). Proof. unfold write_reneging_record. kiw. Qed.
  Lemma ki_write_br_record j i ty : ki (write_br_record j i ty). Proof. unfold write_br_record. kiw. Qed.
  Lemma ki_reset_individual_attributes i : ki (reset_individual_attributes i). Proof. unfold reset_individual_attributes. kiw. Qed.
  #[local] Hint Resolve ki_write_individual_record ki_write_interruption_record ki_write_reneging_record ki_write_br_record ki_reset_individual_attributes : kidb.
  Lemma ki_valid_dest d : ki (valid_dest d). Proof. unfold valid_dest. kiw. Qed.
  Lemma ki_jsq_loop lb : forall ds best acc, ki (jsq_loop lb ds best acc).
  Proof. induction ds as [|d r IH]; intros best acc; cbn [jsq_loop]; [apply ki_ret|]. apply ki_bind; [apply ki_get_node|]. intros nd. cbv zeta. destruct (date_eqb _ _); [apply IH|]. destruct (date_lt _ _); apply IH. Qed.
  #[local] Hint Resolve ki_valid_dest ki_jsq_loop : kidb.
  Lemma ki_jsq_next lb ds o : ki (jsq_next lb ds o). Proof. unfold jsq_next. kiw. Qed.
  Lemma ki_get_cyc c j : ki (get_cyc c j). Proof. unfold get_cyc. kiw. Qed.
  Lemma ki_bump_cyc c j : ki (bump_cyc c j).
  Proof. unfold bump_cyc. apply ki_same. intros s. destruct (nthZ (cyc s) c) as [row|]; [|reflexivity]. destruct (nthZ row (j - 1)); reflexivity. Qed.
  #[local] Hint Resolve ki_jsq_next ki_get_cyc ki_bump_cyc : kidb.
  Lemma ki_node_router_next r c j : ki (node_router_next r c j). Proof. unfold node_router_next. kiw. Qed.
  #[local] Hint Resolve ki_node_router_next : kidb.
  Lemma ki_next_node_for mode j i : ki (next_node_for cf mode j i). Proof. unfold next_node_for. kiw. Qed.
  #[local] Hint Resolve ki_next_node_for : kidb.
  Lemma ki_start_fresh j i osid c : ki (start_fresh cf j i osid c). Proof. unfold start_fresh. kiw. Qed.
  Lemma ki_start_give j i sid : ki (start_give cf j i sid). Proof. unfold start_give. kiw. Qed.
  Lemma ki_start_preemptor j i sid : ki (start_preemptor cf j i sid). Proof. unfold start_preemptor. kiw. Qed.
  Lemma ki_biis j sid : ki (begin_interrupted_individuals_service j sid). Proof. unfold begin_interrupted_individuals_service. kiw. Qed.
  #[local] Hint Resolve ki_start_fresh ki_start_give ki_start_preemptor ki_biis : kidb.
  Lemma ki_serve_with j sid : ki (serve_with cf j sid). Proof. unfold serve_with. kiw. Qed.
  #[local] Hint Resolve ki_serve_with : kidb.
  Lemma ki_bsipr j freed : ki (begin_service_if_possible_release cf j freed). Proof. unfold begin_service_if_possible_release. kiw. Qed.
  Lemma ki_get_reneging_date j i : ki (get_reneging_date cf j i). Proof. unfold get_reneging_date. kiw. Qed.
  Lemma ki_block_individual j i d : ki (block_individual j i d). Proof. unfold block_individual. kiw. Qed.
  Lemma ki_preempt_victim j i : ki (preempt_victim cf j i). Proof. unfold preempt_victim. kiw. Qed.
  #[local] Hint Resolve ki_bsipr ki_get_reneging_date ki_block_individual ki_preempt_victim : kidb.

  Lemma ki_release_body acc rbi j i d rr : (forall d' i', ki (acc d' i')) -> (forall j', ki (rbi j')) -> ki (release_body cf acc rbi j i d rr).
  Proof. intros Ha Hr. unfold release_body. kiw; first [apply Ha|apply Hr]. Qed.
  Lemma ki_rbi_body rel j : (forall a b c e, ki (rel a b c e)) -> ki (rbi_body cf rel j).
  Proof. intros Hr. unfold rbi_body. kiw; apply Hr. Qed.
  Lemma ki_accept_body pre j i : (forall a b c, ki (pre a b c)) -> ki (accept_body cf pre j i).
  Proof. intros Hp. unfold accept_body. kiw; apply Hp. Qed.
  Lemma ki_preempt_body rel j v i : (forall a b c e, ki (rel a b c e)) -> ki (preempt_body cf rel j v i).
  Proof. intros Hr. unfold preempt_body. kiw; apply Hr. Qed.
  Lemma ki_core : forall f, (forall j i d rr, ki (release cf f j i d rr)) /\ (forall j, ki (release_blocked_individual cf f j)) /\
                            (forall j i, ki (accept cf f j i)) /\ (forall j v i, ki (preempt cf f j v i)).
  Proof.
    induction f as [|f (IH1 & IH2 & IH3 & IH4)]; [repeat split; intros; apply ki_oof|].
    split; [|split; [|split]]; intros.
    - rewrite release_S. apply ki_release_body; assumption.
    - rewrite rbi_S. apply ki_rbi_body; assumption.
    - rewrite accept_S. apply ki_accept_body; assumption.
    - rewrite preempt_S. apply ki_preempt_body; assumption.
  Qed.
  Lemma ki_release f j i d rr : ki (release cf f j i d rr). Proof. apply ki_core. Qed.
  Lemma ki_rbi f j : ki (release_blocked_individual cf f j). Proof. apply ki_core. Qed.
  Lemma ki_accept f j i : ki (accept cf f j i). Proof. apply ki_core. Qed.
  Lemma ki_preempt f j v i : ki (preempt cf f j v i). Proof. apply ki_core. Qed.
  #[local] Hint Resolve ki_release ki_rbi ki_accept ki_preempt : kidb.

  Lemma ki_decide_between l : ki (decide_between l). Proof. unfold decide_between. kiw. Qed.
  Lemma ki_has_space d : ki (has_space cf d). Proof. unfold has_space. kiw. Qed.
  #[local] Hint Resolve ki_decide_between ki_has_space : kidb.
  Lemma ki_renege j : ki (renege cf j). Proof. unfold renege. kiw. Qed.
  Lemma ki_interrupt_service f j i pre : ki (interrupt_service cf f j i pre). Proof. unfold interrupt_service. kiw. Qed.
  Lemma ki_keyed l : ki (keyed l). Proof. unfold keyed. kiw. Qed.
  #[local] Hint Resolve ki_renege ki_interrupt_service ki_keyed : kidb.
  Lemma ki_sort_interrupted_individuals j : ki (sort_interrupted_individuals j). Proof. unfold sort_interrupted_individuals. kiw. Qed.
  Lemma ki_off_duty_loop : forall k f j idx pre se, ki (off_duty_loop cf k f j idx pre se).
  Proof. induction k as [|k IH]; intros f j idx pre se; cbn [off_duty_loop]; [apply ki_ret|]. kiw; try apply IH. Qed.
  #[local] Hint Resolve ki_sort_interrupted_individuals ki_off_duty_loop : kidb.
  Lemma ki_take_servers_off_duty f j pre : ki (take_servers_off_duty cf f j pre). Proof. unfold take_servers_off_duty. kiw. Qed.
  Lemma ki_add_new_servers : forall k j, ki (add_new_servers k j).
  Proof. induction k as [|k IH]; intros j; cbn [add_new_servers]; [apply ki_ret|]. kiw; try apply IH. Qed.
  Lemma ki_bsipcs j : ki (begin_service_if_possible_change_shift cf j). Proof. unfold begin_service_if_possible_change_shift. kiw. Qed.
  #[local] Hint Resolve ki_take_servers_off_duty ki_add_new_servers ki_bsipcs : kidb.
  Lemma ki_change_shift j : ki (change_shift cf j). Proof. unfold change_shift. kiw. Qed.
  Lemma ki_slot_loop : forall k j, ki (slot_loop cf k j).
  Proof. induction k as [|k IH]; intros j; cbn [slot_loop]; [apply ki_ret|]. kiw; try apply IH. Qed.
  #[local] Hint Resolve ki_change_shift ki_slot_loop : kidb.
  Lemma ki_slotted_service j : ki (slotted_service cf j). Proof. unfold slotted_service. kiw. Qed.
  Lemma ki_find_next_event_date : ki find_next_event_date.
  Proof. unfold find_next_event_date. apply ki_same. intros s. destruct (find_min_dates 1 (a_dates (arr s)) (None, 0, 0)) as [[d j] c]. reflexivity. Qed.
  Lemma ki_sys_population : ki sys_population. Proof. unfold sys_population. kiw. Qed.
  Lemma ki_route_of i c : ki (route_of cf i c). Proof. unfold route_of. kiw. Qed.
  #[local] Hint Resolve ki_slotted_service ki_find_next_event_date ki_sys_population ki_route_of : kidb.
  Lemma ki_send_individual j i : ki (send_individual cf j i). Proof. unfold send_individual. kiw. Qed.
  #[local] Hint Resolve ki_send_individual : kidb.
  Lemma ki_release_individual j i : ki (release_individual cf j i). Proof. unfold release_individual. kiw. Qed.
  #[local] Hint Resolve ki_release_individual : kidb.
  Lemma ki_update_next_event_date j : ki (update_next_event_date cf j). Proof. unfold update_next_event_date. kiw. Qed.
  #[local] Hint Resolve ki_update_next_event_date : kidb.
  Lemma ki_update_all : forall js, ki (update_all cf js).
  Proof. induction js as [|j r IH]; cbn [update_all]; [apply ki_ret|]. kiw. Qed.
  Lemma ki_find_next_active_node : ki find_next_active_node. Proof. unfold find_next_active_node. kiw. Qed.
  #[local] Hint Resolve ki_update_all ki_find_next_active_node : kidb.

  (* ---------- the three places where a class or a priority is written ---------- *)
  (* the relation holds of any identifier with a class and the priority the configuration gives to that class *)
  Hypothesis HRnew : forall id c p, nthZ (cf_prio cf) c = Some p -> R id c p.

  Lemma ki_change_customer_class j i : ki (change_customer_class cf j i).
  Proof. unfold change_customer_class. kiw. apply ki_put_ind. unfold Q. cbn. apply HRnew. assumption. Qed.
  #[local] Hint Resolve ki_change_customer_class : kidb.
  Lemma ki_finish_service j : ki (finish_service cf j). Proof. unfold finish_service. kiw. Qed.
  Lemma ki_ccww j : ki (change_customer_class_while_waiting cf j).
  Proof. unfold change_customer_class_while_waiting. kiw; apply ki_put_ind; unfold Q; cbn; apply HRnew; assumption. Qed.
  #[local] Hint Resolve ki_finish_service ki_ccww : kidb.
  Lemma ki_node_have_event j : ki (node_have_event cf j). Proof. unfold node_have_event. kiw. Qed.
  Lemma ki_batch_loop : forall n j c p, nthZ (cf_prio cf) c = Some p -> ki (batch_loop cf n j c p).
  Proof.
    induction n as [|n IH]; intros j c p Hp; cbn [batch_loop]; [apply ki_ret|]. kiw; try (apply IH; exact Hp).
    apply ki_put_ind. unfold Q, new_ind. cbn. apply HRnew. exact Hp.
  Qed.
  #[local] Hint Resolve ki_node_have_event : kidb.
  Lemma ki_arrival_have_event : ki (arrival_have_event cf).
  Proof. unfold arrival_have_event. kiw. apply ki_batch_loop. assumption. Qed.
  #[local] Hint Resolve ki_arrival_have_event : kidb.
  Lemma ki_event_step : ki (event_step cf). Proof. unfold event_step. kiw. Qed.
End KI.

(* ================================================================================================================ *)
(* Part 6: the priority of a customer is the priority of its current class -- every configuration, every oracle, any run *)
(* ================================================================================================================ *)
Definition PrioInv (cf : config) (s : sim) : Prop :=
  forall x, In x (inds s) -> nthZ (cf_prio cf) (i_cls x) = Some (i_prio x).
Definition PrioInv_b (cf : config) (s : sim) : bool :=
  forallb (fun x => match nthZ (cf_prio cf) (i_cls x) with Some p => p =? i_prio x | None => false end) (inds s).
Lemma PrioInv_b_sound cf s : PrioInv_b cf s = true -> PrioInv cf s.
Proof.
  unfold PrioInv_b, PrioInv. intros H x Hx. rewrite forallb_forall in H. specialize (H x Hx).
  destruct (nthZ (cf_prio cf) (i_cls x)) as [p|]; [|discriminate]. apply Z.eqb_eq in H. congruence.
Qed.

Theorem event_step_PrioInv cf s s' : PrioInv cf s -> event_step cf s = Ok (tt, s') -> PrioInv cf s'.
Proof. intros HP H. exact (ki_event_step (fun _ c p => nthZ (cf_prio cf) c = Some p) cf (fun _ _ _ E => E) s tt s' HP H). Qed.

Theorem run_many_PrioInv cf : forall ds s s', PrioInv cf s -> run_many cf s ds = Ok s' -> PrioInv cf s'.
Proof.
  induction ds as [|d r IH]; intros s s' HP H; cbn [run_many] in H; [injection H as <-; exact HP|].
  destruct (event_step cf (s <| dr := d |>)) as [[[] s1]| |] eqn:E; try discriminate.
  apply (IH s1 s'); [|exact H]. eapply event_step_PrioInv; [|exact E]. exact HP.
Qed.

(* in the words of C09: whatever has happened, the record of customer i shows the priority of the class it shows *)
Corollary priority_corresponds_to_class cf ds s s' i x : PrioInv cf s -> run_many cf s ds = Ok s' ->
  find_ind i (inds s') = Some x -> nthZ (cf_prio cf) (i_cls x) = Some (i_prio x).
Proof. intros HP H Hx. apply (run_many_PrioInv cf ds s s' HP H). eapply find_ind_In; eauto. Qed.

(* ================================================================================================================ *)
(* Part 7: the other callers of the routing objects, and class change while waiting                                 *)
(* ================================================================================================================ *)
Section Events2.
  Variable cf : config.

  (* any call of a routing object (next_node, rerouting, jockeying) answers with an index the specification allows *)
  Theorem next_node_for_allowed mode j i s d s' : routing_ok cf -> upos s -> next_node_for cf mode j i s = Ok (d, s') ->
    exists x rt raw, find_ind i (inds s) = Some x /\ nthZ (cf_routing cf) (i_cls x) = Some rt /\
      allowed mode j x rt (nodes s) (cyc s) raw /\ vdest (zlen (nodes s)) raw = Some d /\ nodes s' = nodes s.
  Proof.
    intros Hok Hu H. apply next_node_for_spec in H as (x & rt & raw & Hx & Hrt & Hs & Hv).
    destruct (route_step_frame _ _ _ _ _ _ _ Hs) as (A & _). rewrite A in Hv.
    exists x, rt, raw. split; [exact Hx|]. split; [exact Hrt|]. split; [|auto].
    eapply route_step_allowed; eauto. eapply nthZ_In; eauto.
  Qed.

  (* jockeying (mode 2): only a node whose router is the jockeying Direct sends a reneging customer to another node; every
     other routing object sends it to the exit; nothing is drawn and nothing changes *)
  Theorem jockey_destination j i s d s' : next_node_for cf 2 j i s = Ok (d, s') ->
    s' = s /\ exists x rt, find_ind i (inds s) = Some x /\ nthZ (cf_routing cf) (i_cls x) = Some rt /\
      match rt with
      | RtNR rs => exists r, nthZ rs (j - 1) = Some r /\
                             match r with RJockey _ jk => vdest (zlen (nodes s)) jk = Some d | _ => d = -1 end
      | _ => d = -1
      end.
  Proof.
    intros H. apply next_node_for_spec in H as (x & rt & raw & Hx & Hrt & Hs & Hv).
    assert (Hm1 : forall n, vdest n (-1) = Some d -> d = -1) by (intros n E; rewrite vdest_id in E by (right; reflexivity); congruence).
    destruct rt as [rs|rts|rts all ch]; cbn [route_step] in Hs; change (2 =? 2) with true in Hs; cbv iota in Hs.
    - destruct Hs as (r & Hr & -> & ->). split; [reflexivity|]. exists x, (RtNR rs). split; [exact Hx|]. split; [exact Hrt|].
      exists r. split; [exact Hr|]. destruct r; try (eapply Hm1; exact Hv). exact Hv.
    - destruct Hs as [-> ->]. split; [reflexivity|]. exists x, (RtPB rts). split; [exact Hx|]. split; [exact Hrt|]. eapply Hm1; exact Hv.
    - destruct Hs as [-> ->]. split; [reflexivity|]. exists x, (RtFPB rts all ch). split; [exact Hx|]. split; [exact Hrt|]. eapply Hm1; exact Hv.
  Qed.

  (* Node.renege: the jockeying destination d of the selected customer is asked once; the customer goes to the exit (d = -1) or is
     handed to Node.accept of node d; then a customer blocked towards this node may be released *)
  Theorem renege_route j s s' : renege cf j s = Ok (tt, s') ->
    exists nd i sa d sc sd,
      nthZ (nodes s) (j - 1) = Some nd /\ In i (n_next_inds nd) /\
      next_node_for cf 2 j i sa = Ok (d, sa) /\
      (exists y, find_ind i (inds sc) = Some y /\ i_id y = i) /\
      (if d =? -1 then exit_accept i false sc = Ok (tt, sd) else accept cf (fuel_of sc) d i sc = Ok (tt, sd)) /\
      release_blocked_individual cf (fuel_of sc) j sd = Ok (tt, s').
  Proof.
    intros H. unfold renege in H. minv H t s1 E. apply tnow_inv in E as [-> ->].
    minv H nd s1 E. apply get_node_inv in E as (-> & Hj & Hnd). minv H i s1 Ei. apply decide_between_inv in Ei as [Hin _].
    minv H u sa Eu. destruct u. minv H d sb En. pose proof (proj1 (jockey_destination _ _ _ _ _ En)) as ->.
    minv H x s2 E. apply get_ind_inv in E as [-> Hx]. minv H nd1 s2 E. apply get_node_inv in E as (-> & _ & Hnd1).
    minv H q s2 E. apply lift_inv in E as [_ ->]. minv H q' s2 E. apply lift_inv in E as [_ ->]. cbv zeta in H.
    minv H u s2 E2. destruct u. minv H u s3 E3. destruct u. minv H u s4 E4. destruct u. minv H u s5 E5. destruct u. minv H u sc E6. destruct u.
    minv H fl s6 E. apply gets_inv in E as [-> ->]. minv H u sd E7. destruct u.
    apply upd_ind_inv in E6 as (y & Hy & ->).
    match type of H with release_blocked_individual _ (fuel_of ?sc) _ _ = _ => exists nd, i, sa, d, sc, sd end.
    split; [exact Hnd|]. split; [exact Hin|]. split; [exact En|]. split; [|split; [destruct (d =? -1); exact E7|exact H]].
    eexists. split; [cbn [inds set]; rewrite find_put_ind; cbn [i_id set]; rewrite (find_ind_id _ _ _ Hy), Z.eqb_refl; reflexivity|].
    cbn [i_id set]. eapply find_ind_id; eauto.
  Qed.

  (* pre-emption with the option "reroute" (priority pre-emption, pre-emptive shift change, capacitated slot): the routing object is
     asked for a rerouting destination (mode 1 = the same answer as next_node), the interruption record carries it, and the victim
     is released towards exactly that destination, whether it has room or not (ignoring capacity: known) *)
  Theorem preempt_reroutes f j v i s s' nc : preempt cf (S f) j v i s = Ok (tt, s') ->
    nthZ (cf_nodes cf) (j - 1) = Some nc -> nc_preempt nc = 4 ->
    exists sa d sb sc sd sid, next_node_for cf 1 j v sa = Ok (d, sb) /\ write_interruption_record cf j v (Some d) sb = Ok (tt, sc) /\
      release cf f j v d true sc = Ok (tt, sd) /\ start_preemptor cf j i sid sd = Ok (tt, s').
  Proof.
    intros H Hnc H4. rewrite preempt_S in H. unfold preempt_body in H. minv H t s1 E. apply tnow_inv in E as [-> ->].
    minv H vx s1 E. apply get_ind_inv in E as [-> Hvx]. minv H nc' s1 E. apply ncfg_of_inv in E as [-> Hnc']. rewrite Hnc in Hnc'. injection Hnc' as <-.
    minv H u sa E. destruct u. clear E. rewrite H4 in H. change (4 =? 4) with true in H. cbv iota in H.
    minv H u sd E. destruct u. minv E d sb E1. minv E u sc E2. destruct u.
    minv H sid s2 E3. apply lift_inv in E3 as [_ ->]. exists sa, d, sb, sc, sd, sid. auto.
  Qed.
  Theorem interrupt_service_reroutes f j i s s' : interrupt_service cf f j i 4 s = Ok (tt, s') ->
    exists sa d sb sc, next_node_for cf 1 j i sa = Ok (d, sb) /\ write_interruption_record cf j i (Some d) sb = Ok (tt, sc) /\
      release cf f j i d true sc = Ok (tt, s').
  Proof.
    intros H. unfold interrupt_service in H. minv H t s1 E. apply tnow_inv in E as [-> ->]. minv H u sa E. destruct u. clear E.
    change (4 =? 4) with true in H. cbv iota in H. minv H d sb E1. minv H u sc E2. destruct u. exists sa, d, sb, sc. auto.
  Qed.

  (* ---------- class change while waiting ---------- *)
  Lemma nthZ_of_nat {A} (l : list A) n : nthZ l (Z.of_nat n) = nth_error l n.
  Proof. unfold nthZ. destruct (Z.of_nat n <? 0) eqn:E; [apply Z.ltb_lt in E; lia|]. rewrite Nat2Z.id. reflexivity. Qed.

  (* the class drawn for the next change: the earliest of the class-change-time samples, so a class that has a distribution in
     the row of the current class -- or the current class itself when no sample is finite *)
  Lemma draw_cct_inv t s s1 : draw_cct s = Ok (t, s1) -> inds s1 = inds s /\ nodes s1 = nodes s /\ now s1 = now s.
  Proof. unfold draw_cct. destruct (d_cct (dr s)); [discriminate|]. intros H. injection H as <- <-. cbn. auto. Qed.
  Lemma cct_loop_spec : forall row b best bc s r s', cct_loop row b best bc s = Ok (r, s') ->
    inds s' = inds s /\ nodes s' = nodes s /\ now s' = now s /\
    (snd r = bc \/ exists k, nth_error row k = Some true /\ snd r = b + Z.of_nat k).
  Proof.
    induction row as [|h rw IH]; intros b best bc s r s' H; cbn [cct_loop] in H.
    - apply ret_inv in H as [-> ->]. auto.
    - assert (Hstep : forall best0 bc0 s0, cct_loop rw (b + 1) best0 bc0 s0 = Ok (r, s') ->
                inds s' = inds s0 /\ nodes s' = nodes s0 /\ now s' = now s0 /\
                (snd r = bc0 \/ exists k, nth_error (h :: rw) k = Some true /\ snd r = b + Z.of_nat k)).
      { intros best0 bc0 s0 H0. destruct (IH _ _ _ _ _ _ H0) as (A & B & C & [D|(k & Hk & D)]); (split; [exact A|]); (split; [exact B|]); (split; [exact C|]).
        - left. exact D.
        - right. exists (S k). split; [exact Hk|lia]. }
      destruct h; [|exact (Hstep _ _ _ H)].
      minv H t s1 E. apply draw_cct_inv in E as (E1 & E2 & E3). rewrite <- E1, <- E2, <- E3.
      destruct (date_lt (Some t) best); [|exact (Hstep _ _ _ H)].
      destruct (Hstep _ _ _ H) as (A & B & C & [D|D]); (split; [exact A|]); (split; [exact B|]); (split; [exact C|]); [|right; exact D].
      right. exists 0%nat. split; [reflexivity|lia].
  Qed.

  (* decide_class_change (at arrival at a node, after a pre-emption, after a class change while waiting): the class noted for the
     next change is the current class or one with a class-change-time distribution in the row of the current class; class and
     priority are not touched *)
  Theorem decide_class_change_spec j i s s' : cf_dyn cf = true -> decide_class_change cf j i s = Ok (tt, s') ->
    exists x row c' ccd, find_ind i (inds s) = Some x /\ nthZ (cf_cct cf) (i_cls x) = Some row /\
      (c' = i_cls x \/ nthZ row c' = Some true) /\
      find_ind i (inds s') = Some (x <| i_ncls := Some c' |> <| i_ccd := ccd |>).
  Proof.
    intros Hdyn H. unfold decide_class_change in H. rewrite Hdyn in H. minv H x s1 E. apply get_ind_inv in E as [-> Hx].
    minv H row s1 E. apply lift_inv in E as [Hrow ->]. minv H r s1 E. apply cct_loop_spec in E as (A & B & C & D).
    minv H t s2 E. apply tnow_inv in E as [-> ->]. minv H x' s2 E. apply get_ind_inv in E as [-> Hx']. rewrite A, Hx in Hx'. injection Hx' as <-.
    minv H u s2 E. destruct u. unfold put_ind in E. apply modify_inv in E. subst s2.
    unfold find_next_class_change in H. minv H nd s2 E. apply get_node_inv in E as (-> & _). minv H il s2 E. apply gets_inv in E as [-> ->].
    minv H r2 s2 E. apply lift_inv in E as [_ ->]. unfold put_node in H. apply modify_inv in H. subst s'.
    exists x, row, (snd r). eexists. split; [exact Hx|]. split; [exact Hrow|]. split.
    - destruct D as [D|(k & Hk & D)]; [left; exact D|right]. rewrite D. replace (0 + Z.of_nat k) with (Z.of_nat k) by lia. rewrite nthZ_of_nat. exact Hk.
    - cbn [inds set]. rewrite find_put_ind. cbn [i_id set]. rewrite A, (find_ind_id _ _ _ Hx), Z.eqb_refl. reflexivity.
  Qed.

  (* the route attribute of a new customer: none under NetworkRouting; under (Flexible)ProcessBased the harness's route function,
     routes[id mod number of routes] *)
  Lemma route_of_spec i c s r s' : route_of cf i c s = Ok (r, s') ->
    s' = s /\ exists rt, nthZ (cf_routing cf) c = Some rt /\
      match rt with
      | RtNR _ => r = None
      | RtPB routes | RtFPB routes _ _ => exists ro, nth_error routes (Z.to_nat (i mod zlen routes)) = Some ro /\ r = Some ro
      end.
  Proof.
    unfold route_of. intros H. minv H rt s1 E. apply lift_inv in E as [Hrt ->].
    destruct rt as [rs|routes|routes all ch].
    - apply ret_inv in H as [-> ->]. split; [reflexivity|]. exists (RtNR rs). auto.
    - destruct routes as [|r0 rr]; [discriminate|]. minv H ro s1 E. apply lift_inv in E as [E ->]. apply ret_inv in H as [-> ->].
      split; [reflexivity|]. exists (RtPB (r0 :: rr)). split; [exact Hrt|]. exists ro. auto.
    - destruct routes as [|r0 rr]; [discriminate|]. minv H ro s1 E. apply lift_inv in E as [E ->]. apply ret_inv in H as [-> ->].
      split; [reflexivity|]. exists (RtFPB (r0 :: rr) all ch). split; [exact Hrt|]. exists ro. auto.
  Qed.

  Lemma In_put_ind_l_nodup x : forall l y, NoDup (map i_id l) -> In y (put_ind_l x l) -> y = x \/ (In y l /\ i_id y <> i_id x).
  Proof.
    induction l as [|z r IH]; intros y Hnd Hy; cbn [put_ind_l] in Hy.
    - destruct Hy as [<-|[]]. left. reflexivity.
    - cbn [map] in Hnd. inversion Hnd as [|? ? Hnin Hnd']; subst. destruct (i_id z =? i_id x) eqn:E.
      + apply Z.eqb_eq in E. destruct Hy as [<-|Hy]; [left; reflexivity|]. right. split; [right; exact Hy|].
        intros Heq. apply Hnin. rewrite E, <- Heq. apply in_map. exact Hy.
      + apply Z.eqb_neq in E. destruct Hy as [<-|Hy]; [right; split; [left; reflexivity|exact E]|].
        destruct (IH y Hnd' Hy) as [->|[Hin Hne]]; [left; reflexivity|right; split; [right; exact Hin|exact Hne]].
  Qed.

  (* Node.change_customer_class_while_waiting: the customer at the head of the node's next_individuals takes the class that was noted
     for it (i_ncls) and the priority the configuration gives to that class, and still has them when the event is over (whatever
     pre-emption its new priority triggers).  NoDup: one record per customer (implied by Conserve2.WFx2). *)
  Theorem class_change_while_waiting_spec j s s' : NoDup (map i_id (inds s)) ->
    change_customer_class_while_waiting cf j s = Ok (tt, s') ->
    exists nd i x c' p', nthZ (nodes s) (j - 1) = Some nd /\ hd_error (n_next_inds nd) = Some i /\ find_ind i (inds s) = Some x /\
      i_ncls x = Some c' /\ nthZ (cf_prio cf) c' = Some p' /\
      forall x', find_ind i (inds s') = Some x' -> i_cls x' = c' /\ i_prio x' = p'.
  Proof.
    intros Hnd H. unfold change_customer_class_while_waiting in H. minv H nd s1 E. apply get_node_inv in E as (-> & _ & Hn).
    minv H i s1 E. apply lift_inv in E as [Hi ->]. minv H x s1 E. apply get_ind_inv in E as [-> Hx].
    minv H c' s1 E. apply lift_inv in E as [Hc ->]. minv H p' s1 E. apply lift_inv in E as [Hp ->].
    exists nd, i, x, c', p'. split; [exact Hn|]. split; [exact Hi|]. split; [exact Hx|]. split; [exact Hc|]. split; [exact Hp|].
    minv H u s1 E. destruct u. unfold put_ind in E. apply modify_inv in E.
    set (R2 := fun id c p : Z => id = i -> c = c' /\ p = p').
    assert (Q1 : QI R2 s1).
    { subst s1. intros y Hy. cbn [inds set] in Hy. apply In_put_ind_l_nodup in Hy; [|exact Hnd]. unfold Q, R2.
      destruct Hy as [->|[_ Hne]]; [cbn; auto|]. cbn [i_id set] in Hne. rewrite (find_ind_id _ _ _ Hx) in Hne. intros Hid. contradiction. }
    clear E. assert (Q' : QI R2 s').
    { match type of H with ?m s1 = Ok (tt, s') => assert (K : ki R2 m); [|exact (K _ _ _ Q1 H)] end.
      apply ki_bind; [|intros _; apply ki_bind; [|intros _; apply ki_decide_class_change]].
      - destruct (negb (p' =? i_pprio x)); [|apply ki_ret].
        apply ki_bind; [apply ki_lift|]. intros q. apply ki_bind; [apply ki_lift|]. intros q'. cbv zeta.
        apply ki_bind; [apply ki_lift|]. intros qn. apply ki_bind; [apply ki_put_node|]. intros _.
        destruct (negb (nd_inf nd) && (0 <? numo (n_c nd))); [|apply ki_ret].
        apply ki_bind; [apply ki_preempt_victim|]. intros [vi|]; [|apply ki_ret].
        apply ki_bind; [apply ki_gets|]. intros fl. apply ki_preempt.
      - apply ki_upd_ind. intros y Hy. exact Hy. }
    intros x' Hx'. apply (Q' x' (find_ind_In _ _ _ Hx')). eapply find_ind_id; eauto.
  Qed.
End Events2.

(* ================================================================================================================ *)
(* Part 8: the known exception (finding F-09a) in the stage-2 model, and a concrete network                          *)
(* ================================================================================================================ *)
(* one class, two nodes; node 1 routes to node 2 with probability 1 (to node 1 with probability 0), node 2 to the exit *)
Definition rf_cf : config :=
  mkCfg 1 [ mkNcfg None None 0 SFixed 0 false [false] 0; mkNcfg None None 0 SFixed 0 false [false] 0 ]
    [0] 1 None [ RtNR [RProb [1; 2] [0; 8]; RLeave] ] [ [None; None] ] false [ [false] ].
Definition rf_srv : server := mkServer 1 None false None 0 None 0 false 0 None.
Definition rf_node (j : Z) : node :=
  mkNode j 0 0 [[]] [rf_srv] [] 0 None [] (Some 1) 1 [] 0 [] [] [] 0 None 0 None None.
Definition rf_s0 : sim :=
  mkSim 1 0 (mkArr 0 0 [[Some 1]; [None]] 1 0 (Some 1)) [rf_node 1; rf_node 2] [] 0 0 [] (mkDraws [] [] [] [] [] []) [] [[0; 0]].
(* t = 1: customer 1 arrives at node 1 and is served until t = 4 *)
Definition rf_s1 : sim := Eval vm_compute in match run_many rf_cf rf_s0 [mkDraws [100] [1] [3] [] [] []] with Ok s => s | _ => rf_s0 end.
(* t = 4: its service ends; the uniform draw offered is exactly 0 *)
Definition rf_d : draws := mkDraws [] [] [3] [0] [] [].
Definition rf_s2 : sim := Eval vm_compute in match event_step rf_cf (rf_s1 <| dr := rf_d |>) with Ok (_, s) => s | _ => rf_s0 end.

(* with a draw of exactly 0 the Probabilistic router returns a destination of probability 0: route_step_allowed fails without upos *)
Theorem allowed_refuted_at_zero_draw : exists cf x rt s raw s1,
  routing_ok_b cf = true /\ In rt (cf_routing cf) /\ d_unif (dr s) = [0] /\
  route_step 0 1 x rt s raw s1 /\ ~ allowed 0 1 x rt (nodes s) (cyc s) raw.
Proof.
  exists rf_cf, (new_ind 1 0 0 None), (RtNR [RProb [1; 2] [0; 8]; RLeave]), (rf_s1 <| dr := rf_d |>), 1, (rf_s1 <| dr := mkDraws [] [] [3] [] [] [] |>).
  split; [vm_compute; reflexivity|]. split; [left; reflexivity|]. split; [reflexivity|]. split.
  - cbn [route_step]. eexists. split; [vm_compute; reflexivity|]. vm_compute. reflexivity.
  - cbn [allowed]. intros (r & Hr & Hal). vm_compute in Hr. injection Hr as <-. cbv iota beta in Hal. change (0 =? 2) with false in Hal. cbv iota in Hal.
    destruct Hal as (k & Hk & Hp). destruct k as [|[|[|k]]]; vm_compute in Hk, Hp; try discriminate; try lia.
    destruct k; discriminate.
Qed.
(* the same at the level of one event: the customer that finishes its service at node 1 goes back to node 1, a transition to
   which the routing row [0; 1] of node 1 gives probability 0 (this is F-09a, not new) *)
Theorem zero_probability_transition_refuted :
  event_step rf_cf (rf_s1 <| dr := rf_d |>) = Ok (tt, rf_s2) /\ routing_ok_b rf_cf = true /\ ccm_ok_b rf_cf = true /\
  map (fun r => (r_id r, r_node r, r_dest r)) (log rf_s2) = [(1, 1, Some 1)] /\
  map (fun x => (i_id x, i_node x)) (inds rf_s2) = [(1, Some 1)].
Proof. vm_compute. repeat split; reflexivity. Qed.

(* ---------- a two-node network with two classes: class 0 (priority 0) may become class 1 (priority 1) after service at node 1;
   class 0 is routed by a Probabilistic router, class 1 by JoinShortestQueue (tie_break order) at node 1 and by a Cycle at node 2 ---------- *)
Definition ex_cf : config :=
  mkCfg 2
    [ mkNcfg None (Some [[4; 4]; [0; 8]]) 0 SFixed 0 false [false; false] 0;
      mkNcfg None None 0 SFixed 0 false [false; false] 0 ]
    [0; 1] 2 None
    [ RtNR [RProb [1; 2] [0; 4]; RLeave]; RtNR [RJsq false [2; 1] true; RCycle [1; -1]] ]
    [ [None; None]; [None; None] ] false [ [false; false]; [false; false] ].
Definition ex_srv : server := mkServer 1 None false None 0 None 0 false 0 None.
Definition ex_node (j : Z) : node :=
  mkNode j 0 0 [[]; []] [ex_srv] [] 0 None [] (Some 1) 1 [] 0 [] [] [] 0 None 0 None None.
Definition ex_s0 : sim :=
  mkSim 1 0 (mkArr 0 0 [[Some 2; Some 1]; [None; None]] 1 1 (Some 1)) [ex_node 1; ex_node 2] [] 0 0 []
        (mkDraws [] [] [] [] [] []) [] [[0; 0]; [0; 0]].
(* the draws offered to each event: inter-arrival 5, batch 1, service 3, uniform 3/4, 1/2, 2^-53 (all > 0) *)
Definition ex_d : draws := mkDraws [5] [1] [3; 3] [6755399441055744; 4503599627370496; 1] [] [].
Definition ex_s25 : sim := Eval vm_compute in match run_many ex_cf ex_s0 (repeat ex_d 25) with Ok s => s | _ => ex_s0 end.

Example ex_scope : routing_ok_b ex_cf = true /\ ccm_ok_b ex_cf = true /\ upos_b (ex_s0 <| dr := ex_d |>) = true.
Proof. vm_compute. auto. Qed.
Example ex_inv0 : PrioInv_b ex_cf ex_s0 = true. Proof. vm_compute. reflexivity. Qed.
Example ex_run25 : run_many ex_cf ex_s0 (repeat ex_d 25) = Ok ex_s25. Proof. vm_compute. reflexivity. Qed.
Example ex_inv25 : PrioInv_b ex_cf ex_s25 = true /\ inds ex_s25 <> [] /\ exit_ids ex_s25 <> [].
Proof. vm_compute. repeat split; discriminate. Qed.
Example ex_inv25' : PrioInv ex_cf ex_s25. Proof. apply (run_many_PrioInv ex_cf _ _ _ (PrioInv_b_sound _ _ ex_inv0) ex_run25). Qed.
(* 10 more events from there *)
Example ex_run35 : exists s', run_many ex_cf ex_s25 (repeat ex_d 10) = Ok s' /\ PrioInv_b ex_cf s' = true.
Proof. eexists. split; [vm_compute; reflexivity|]. vm_compute. reflexivity. Qed.

Print Assumptions jsq_next_spec.
Print Assumptions jsq_next_minimal.
Print Assumptions router_direct.
Print Assumptions router_leave.
Print Assumptions router_prob_positive.
Print Assumptions router_transition_matrix.
Print Assumptions router_jsq.
Print Assumptions router_cycle_advances.
Print Assumptions next_node_for_spec.
Print Assumptions route_step_allowed.
Print Assumptions process_based_follows_route.
Print Assumptions flexible_process_based_spec.
Print Assumptions change_customer_class_result.
Print Assumptions finish_service_steps.
Print Assumptions finish_service_route.
Print Assumptions next_node_for_allowed.
Print Assumptions jockey_destination.
Print Assumptions renege_route.
Print Assumptions preempt_reroutes.
Print Assumptions interrupt_service_reroutes.
Print Assumptions route_of_spec.
Print Assumptions decide_class_change_spec.
Print Assumptions class_change_while_waiting_spec.
Print Assumptions event_step_PrioInv.
Print Assumptions run_many_PrioInv.
Print Assumptions priority_corresponds_to_class.
Print Assumptions PrioInv_b_sound.
Print Assumptions routing_ok_b_sound.
Print Assumptions ccm_ok_b_sound.
Print Assumptions allowed_refuted_at_zero_draw.
Print Assumptions zero_probability_transition_refuted.
Print Assumptions ex_inv25'.
Print Assumptions ex_run35.

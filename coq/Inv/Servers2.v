(* Servers2.v -- T2 for C04 (server exclusivity) and C05 (work conservation) on the STAGE-2 engine model (Engine2.v): routers,
   reneging and jockeying, priority pre-emption, server schedules (pre-emptive or not) with overtime and retired servers, slotted
   services, class change while waiting, server priority functions, blocking.

   C04.  SrvInv2 cf s (spelt out in SrvInv2_means): customers are conserved (WFx2 of Conserve2.v) and, at every node that is
   not slotted: with infinitely many servers nobody records a server; otherwise the servers present at the node (on duty or
   finishing overtime) have distinct ids <= highest_id, a server is busy exactly when it holds a customer, the customer a server
   holds is in a queue of that node and records exactly that server, and a customer of the node that records a server is
   EITHER the customer of exactly that server (so: no two customers share a server, no server has two customers, at most
   |n_servers| customers are in service, and a blocked customer still holds its server) OR its server has been retired and it is on
   the node's list of interrupted customers (distinct, flagged `interrupted`, recording a server that is no longer there:
   interrupted customers are not in service).  Ids of retired servers are never reused (<= highest_id, new ids are above).
   Plus three facts about the candidates of the next event (NextOK) that make the invariant inductive.
   C05.  NonIdle2 cf s (NonIdle2_means): at a finite, not slotted node, whenever some customer is waiting (in a queue of the node,
   recording no server) every server of the node that is on duty is busy.

   Main theorems (every configuration in the scope, every state satisfying the invariant, every oracle of draws, any number of
   events; partial correctness):
     event_step_srv2, run_many_srv2              SrvInv2 is kept
     event_step_nonidle2, run_many_nonidle2      NonIdle2 is kept (given SrvInv2)
     SrvInv2_means, NonIdle2_means               the invariants in the words of C04 / C05
     srvinv2_b, srvinv2_b_sound, nonidle2_b, nonidle2_b_sound     executable tests (sound)
     links_b, links_b_complete                   a weaker executable test that is COMPLETE for SrvInv2 (used for refutations)
     ex_in_scope, ex_invariant, ex_run_invariant, ex_nonidle, ex_run_nonidle    a node with priority pre-emption AND a
                                                 pre-emptive schedule: interruption, resumption on the new server, pre-emption
   No hypothesis on the draws.  Scope srv_scope cf (executable, per node):
     (1) priority_preempt is not 'reroute' (4)               link_refuted_reroute_preempt (region of F-11a; from a state that
                                                             satisfies the invariant, not claimed reachable: two customers end up
                                                             recording the same server)
     (2) a Schedule is not 'reroute' (4)                     link_refuted_F12a (reachable from an empty system, self-loop routing)
     (3) no priority pre-emption at a node with a NON-pre-emptive Schedule     link_refuted_F12d (reachable: the pre-emptor is
                                                             attached to an overtime server that has just been retired)
     (4) class_change_time (cf_dyn) only without priority pre-emption          NOT refuted: proof economy (the candidate of a
                                                             class-change-while-waiting event would have to be shown to be waiting)
     (5) no pre-emptive capacitated slots                    NOT refuted for C04 proper: the invariant says that a slotted node
                                                             has no servers and no interrupted customers, which is what keeps
                                                             slotted nodes from disturbing the others
   The regions of F-02a (pre-empting a BLOCKED customer) and F-02b (interrupting a BLOCKED customer) are INSIDE the scope: the link
   invariant and non-idling survive them (the other defects there: clock, counters, crashes, are not about C04 / C05).
   NOT proved here: the temporal clause "the same server from service start until the customer leaves" as a statement over
   several events (stage 1's event_step_stays); what is proved is its state form at every event boundary.

   Method.  (Part 1-2) The view VW s of a state: per node (id, population, queues, servers as (id, customer, busy, off duty),
   infinite?, highest id, interrupted list), exit list and counters, per customer (id, recorded server, interrupted flag).
   PV K m = "m leaves the view alone" (K remembers the nodes / records read, as in Conserve2): one line per engine function.
   (Part 3) LV fl vm xs w, the link invariant on views with holes: fl customers in flight, vm a customer that has left its queue
   but still holds its server, xs customers exempt from the clauses about interrupted customers; NIv ej hs wx w, non-idling with
   an exempt node, idle servers (holes) and customers not counted; pure lemmas for every way the view changes.
   (Part 4) ht P m Q, a Hoare logic whose assertions are predicates on views; attach_server / detatch_server / kill_server as view
   transformers.  (Part 5) the recursive core release / release_blocked_individual / accept / preempt by induction on the fuel,
   for LN b = LV and (if b) NIv.  (Part 6) the event functions, the candidates of the next event, one event.  (Part 7-11) runs,
   meaning, executable tests, examples and closed witnesses. *)
From Coq Require Import ZArith List Bool Lia Permutation.
From RecordUpdate Require Import RecordUpdate.
From CiwV Require Import Sx Prelude Routing Sched.
From CiwV.Engine Require Import State2 Engine2 Codec2.
From CiwV.Inv Require Conserve2 Renege2.
Import ListNotations.
Open Scope Z_scope.

Local Arguments Z.mul : simpl never.
Local Arguments Z.add : simpl never.
Local Arguments Z.sub : simpl never.
Local Arguments Z.ltb : simpl never.
Local Arguments Z.leb : simpl never.
Local Arguments Z.eqb : simpl never.
Local Arguments Z.to_nat : simpl never.
Local Arguments Z.of_nat : simpl never.
Local Arguments Z.min : simpl never.
Local Arguments Z.max : simpl never.

(* ====================================================================================================================== *)
(* Part 1.  The view: what the invariants look at                                                                        *)
(* ====================================================================================================================== *)
Record sview := mkSv { s_id : Z; s_cust : option Z; s_busy : bool; s_off : bool }.
Definition sc (sv : server) : sview := mkSv (sv_id sv) (sv_cust sv) (sv_busy sv) (sv_offduty sv).
Record nview := mkNv { v_id : Z; v_pop : Z; v_qs : list (list Z); v_srv : list sview; v_inf : bool; v_hi : Z; v_int : list Z }.
Definition nv (nd : node) : nview :=
  mkNv (n_id nd) (n_pop nd) (n_queues nd) (map sc (n_servers nd)) (nd_inf nd) (n_highest nd) (n_interrupted nd).
Record view := mkVw { w_ns : list nview; w_ex : list Z; w_en : Z; w_cr : Z; w_is : list (Z * (option Z * bool)) }.
Definition iv (x : ind) : Z * (option Z * bool) := (i_id x, (i_server x, i_interrupted x)).
Definition VW (s : sim) : view := mkVw (map nv (nodes s)) (exit_ids s) (exit_n s) (a_created (arr s)) (map iv (inds s)).

Definition idxv (w : view) : Prop := forall k n, nth_error (w_ns w) k = Some n -> v_id n = Z.of_nat k + 1.

(* the shape of Conserve2 is a function of the view *)
Definition shv (w : view) : Conserve2.shape :=
  Conserve2.mkSh (map (fun n => (v_id n, v_pop n, v_qs n)) (w_ns w)) (w_ex w) (w_en w) (w_cr w) (map fst (w_is w)).
Lemma shv_VW s : shv (VW s) = Conserve2.shp s.
Proof. unfold shv, VW, Conserve2.shp. cbn. rewrite !map_map. reflexivity. Qed.

(* ---------- lists of (id, server) entries ---------- *)
Definition ient := (option Z * bool)%type.
Fixpoint fiv (i : Z) (l : list (Z * ient)) : option ient :=
  match l with [] => None | (k, o) :: r => if k =? i then Some o else fiv i r end.
Fixpoint putiv (p : Z * ient) (l : list (Z * ient)) : list (Z * ient) :=
  match l with [] => [p] | q :: r => if fst q =? fst p then p :: r else q :: putiv p r end.
Fixpoint deliv (i : Z) (l : list (Z * ient)) : list (Z * ient) :=
  match l with [] => [] | q :: r => if fst q =? i then r else q :: deliv i r end.

Lemma fiv_find i l : fiv i (map iv l) = option_map (fun x => (i_server x, i_interrupted x)) (find_ind i l).
Proof. induction l as [|y r IH]; cbn; [reflexivity|]. destruct (i_id y =? i); [reflexivity|exact IH]. Qed.
Lemma find_ind_id i l x : find_ind i l = Some x -> i_id x = i.
Proof. induction l as [|y r IH]; cbn; [discriminate|]. destruct (i_id y =? i) eqn:E; [intros H; injection H as <-; apply Z.eqb_eq; exact E|exact IH]. Qed.
Lemma map_iv_put x l : map iv (put_ind_l x l) = putiv (iv x) (map iv l).
Proof. induction l as [|y r IH]; cbn; [reflexivity|]. destruct (i_id y =? i_id x); cbn; [reflexivity|]. rewrite IH. reflexivity. Qed.
Lemma map_iv_del i l : map iv (del_ind_l i l) = deliv i (map iv l).
Proof. induction l as [|y r IH]; cbn; [reflexivity|]. destruct (i_id y =? i); cbn; [reflexivity|]. rewrite IH. reflexivity. Qed.
Lemma putiv_same p l : fiv (fst p) l = Some (snd p) -> putiv p l = l.
Proof.
  destruct p as [k o]. cbn. induction l as [|[k' o'] r IH]; cbn; [discriminate|]. destruct (k' =? k) eqn:E.
  - intros H. injection H as ->. apply Z.eqb_eq in E. subst k'. reflexivity.
  - intros H. rewrite (IH H). reflexivity.
Qed.
Lemma fiv_putiv p l i : fiv i (putiv p l) = if fst p =? i then Some (snd p) else fiv i l.
Proof.
  destruct p as [k o]. cbn. induction l as [|[k' o'] r IH]; cbn.
  - destruct (k =? i); reflexivity.
  - destruct (k' =? k) eqn:E; cbn.
    + apply Z.eqb_eq in E. subst k'. destruct (k =? i); reflexivity.
    + destruct (k' =? i) eqn:E2.
      * apply Z.eqb_eq in E2. subst k'. rewrite Z.eqb_sym in E. rewrite E. reflexivity.
      * exact IH.
Qed.
Lemma fiv_deliv i l i' : i' <> i -> fiv i' (deliv i l) = fiv i' l.
Proof.
  intros Hne. induction l as [|[k o] r IH]; cbn; [reflexivity|]. destruct (k =? i) eqn:E; cbn.
  - apply Z.eqb_eq in E. subst k. destruct (i =? i') eqn:E2; [apply Z.eqb_eq in E2; congruence|reflexivity].
  - destruct (k =? i'); [reflexivity|exact IH].
Qed.
Lemma fiv_In i l o : fiv i l = Some o -> In i (map fst l).
Proof.
  induction l as [|[k o'] r IH]; cbn; [discriminate|]. destruct (k =? i) eqn:E; [intros _; left; apply Z.eqb_eq; exact E|intros H; right; auto].
Qed.
Lemma fiv_None i l : ~ In i (map fst l) -> fiv i l = None.
Proof.
  induction l as [|[k o'] r IH]; cbn; [reflexivity|]. intros H. destruct (k =? i) eqn:E; [apply Z.eqb_eq in E; tauto|]. apply IH. tauto.
Qed.
Lemma map_fst_putiv_in p l : In (fst p) (map fst l) -> map fst (putiv p l) = map fst l.
Proof.
  induction l as [|q r IH]; cbn; [intros []|]. intros H. destruct (fst q =? fst p) eqn:E; cbn.
  - apply Z.eqb_eq in E. rewrite E. reflexivity.
  - apply Z.eqb_neq in E. destruct H as [H|H]; [congruence|]. rewrite (IH H). reflexivity.
Qed.
Lemma map_fst_putiv_new p l : ~ In (fst p) (map fst l) -> map fst (putiv p l) = map fst l ++ [fst p].
Proof.
  induction l as [|q r IH]; cbn; [reflexivity|]. intros H. destruct (fst q =? fst p) eqn:E; cbn.
  - apply Z.eqb_eq in E. tauto.
  - rewrite IH; [reflexivity|tauto].
Qed.
Lemma map_fst_deliv i l : In i (map fst l) -> Permutation (map fst l) (i :: map fst (deliv i l)).
Proof.
  induction l as [|q r IH]; cbn; [intros []|]. intros H. destruct (fst q =? i) eqn:E.
  - apply Z.eqb_eq in E. rewrite E. reflexivity.
  - apply Z.eqb_neq in E. destruct H as [H|H]; [congruence|]. cbn. rewrite (IH H). apply perm_swap.
Qed.

(* ---------- lists of server views ---------- *)
Fixpoint fsv (i : Z) (l : list sview) : option sview :=
  match l with [] => None | t :: r => if s_id t =? i then Some t else fsv i r end.
Fixpoint putsv (t : sview) (l : list sview) : list sview :=
  match l with [] => [] | y :: r => if s_id y =? s_id t then t :: r else y :: putsv t r end.
Fixpoint delsv (i : Z) (l : list sview) : list sview :=
  match l with [] => [] | y :: r => if s_id y =? i then r else y :: delsv i r end.
Lemma fsv_find i l : fsv i (map sc l) = option_map sc (find_server i l).
Proof. induction l as [|y r IH]; cbn; [reflexivity|]. destruct (sv_id y =? i); [reflexivity|exact IH]. Qed.
Lemma map_sc_put sv l : map sc (put_server_l sv l) = putsv (sc sv) (map sc l).
Proof. induction l as [|y r IH]; cbn; [reflexivity|]. destruct (sv_id y =? sv_id sv); cbn; [reflexivity|]. rewrite IH. reflexivity. Qed.
Lemma map_sc_del i l : map sc (del_server_l i l) = delsv i (map sc l).
Proof. induction l as [|y r IH]; cbn; [reflexivity|]. destruct (sv_id y =? i); cbn; [reflexivity|]. rewrite IH. reflexivity. Qed.
Lemma putsv_same t l : fsv (s_id t) l = Some t -> putsv t l = l.
Proof.
  induction l as [|y r IH]; cbn; [reflexivity|]. destruct (s_id y =? s_id t); [intros H; injection H as ->; reflexivity|].
  intros H. rewrite (IH H). reflexivity.
Qed.
Lemma fsv_id i l t : fsv i l = Some t -> s_id t = i /\ In t l.
Proof.
  induction l as [|y r IH]; cbn; [discriminate|]. destruct (s_id y =? i) eqn:E.
  - intros H. injection H as <-. apply Z.eqb_eq in E. auto.
  - intros H. destruct (IH H). auto.
Qed.
Lemma find_server_none_b0 k l : find_server k l = None -> ~ In k (map sv_id l).
Proof.
  induction l as [|y r IH]; cbn; [tauto|]. destruct (sv_id y =? k) eqn:E; [discriminate|]. apply Z.eqb_neq in E. intros H [F|F]; [contradiction|]. exact (IH H F).
Qed.
Lemma find_server_id i l sv : find_server i l = Some sv -> sv_id sv = i /\ In sv l.
Proof.
  induction l as [|y r IH]; cbn; [discriminate|]. destruct (sv_id y =? i) eqn:E.
  - intros H. injection H as <-. apply Z.eqb_eq in E. auto.
  - intros H. destruct (IH H). auto.
Qed.

(* ---------- generic list facts ---------- *)
Lemma upd_map {X Y} (f : X -> Y) (l : list X) k x : map f (upd l k x) = upd (map f l) k (f x).
Proof. revert k; induction l as [|a l IH]; intros [|k]; cbn; try reflexivity; f_equal; apply IH. Qed.
Lemma updZ_map {X Y} (f : X -> Y) (l : list X) j x : map f (updZ l j x) = updZ (map f l) j (f x).
Proof. unfold updZ. destruct (j <? 0); [reflexivity|apply upd_map]. Qed.
Lemma upd_same {X} (l : list X) k x : nth_error l k = Some x -> upd l k x = l.
Proof. revert k; induction l as [|a l IH]; intros [|k] H; cbn in *; try discriminate; [injection H as ->; reflexivity|f_equal; auto]. Qed.
Lemma updZ_same {X} (l : list X) j x : nthZ l j = Some x -> updZ l j x = l.
Proof. unfold nthZ, updZ. destruct (j <? 0); [reflexivity|apply upd_same]. Qed.
Lemma nth_error_upd_eq {X} (l : list X) k x y : nth_error l k = Some y -> nth_error (upd l k x) k = Some x.
Proof. revert k; induction l as [|a l IH]; intros [|k] H; cbn in *; try discriminate; auto. Qed.
Lemma nth_error_upd_neq {X} (l : list X) k k' x : k <> k' -> nth_error (upd l k x) k' = nth_error l k'.
Proof. revert k k'; induction l as [|a l IH]; intros [|k] [|k'] H; cbn; auto; try congruence. Qed.
Lemma nth_error_upd_cases {X} (l : list X) k x k' y : nth_error (upd l k x) k' = Some y ->
  (k' = k /\ y = x) \/ (k' <> k /\ nth_error l k' = Some y).
Proof.
  intros H. destruct (Nat.eq_dec k k') as [<-|Hne].
  - left. destruct (nth_error l k) eqn:E.
    + rewrite (nth_error_upd_eq _ _ _ _ E) in H. injection H as <-. auto.
    + exfalso. assert (L : (length l <= k)%nat) by (apply nth_error_None; exact E).
      assert (L2 : length (upd l k x) = length l).
      { clear. revert k; induction l as [|a l IH]; intros [|k]; cbn; auto. }
      assert (nth_error (upd l k x) k = None) by (apply nth_error_None; lia). congruence.
  - right. rewrite nth_error_upd_neq in H by exact Hne. split; [congruence|exact H].
Qed.
Lemma length_upd {X} (l : list X) k x : length (upd l k x) = length l.
Proof. revert k; induction l as [|a l IH]; intros [|k]; cbn; auto. Qed.
Lemma nthZ_nat {X} (l : list X) j x : nthZ l j = Some x -> exists k, j = Z.of_nat k /\ nth_error l k = Some x.
Proof. unfold nthZ. destruct (j <? 0) eqn:E; [discriminate|]. apply Z.ltb_ge in E. intros H. exists (Z.to_nat j). split; [lia|exact H]. Qed.
Lemma nthZ_of_nat {X} (l : list X) k : nthZ l (Z.of_nat k) = nth_error l k.
Proof. unfold nthZ. destruct (Z.of_nat k <? 0) eqn:E; [apply Z.ltb_lt in E; lia|]. rewrite Nat2Z.id. reflexivity. Qed.
Lemma updZ_nat {X} (l : list X) k x : updZ l (Z.of_nat k) x = upd l k x.
Proof. unfold updZ. destruct (Z.of_nat k <? 0) eqn:E; [apply Z.ltb_lt in E; lia|]. rewrite Nat2Z.id. reflexivity. Qed.
Lemma nthZ_map {X Y} (f : X -> Y) (l : list X) j : nthZ (map f l) j = option_map f (nthZ l j).
Proof. unfold nthZ. destruct (j <? 0); [reflexivity|]. rewrite nth_error_map. reflexivity. Qed.

(* ---------- view transformers of the primitive writes ---------- *)
Definition set_ns (w : view) ns := mkVw ns (w_ex w) (w_en w) (w_cr w) (w_is w).
Definition set_is (w : view) il := mkVw (w_ns w) (w_ex w) (w_en w) (w_cr w) il.
Definition wputn (n : nview) (w : view) : view := set_ns w (updZ (w_ns w) (v_id n - 1) n).
Definition wputi (p : Z * ient) (w : view) : view := set_is w (putiv p (w_is w)).

Lemma VW_put_node nd s : VW (s <| nodes := updZ (nodes s) (n_id nd - 1) nd |>) = wputn (nv nd) (VW s).
Proof. unfold VW, wputn, set_ns. cbn. rewrite updZ_map. reflexivity. Qed.
Lemma VW_put_ind x s : VW (s <| inds := put_ind_l x (inds s) |>) = wputi (iv x) (VW s).
Proof. unfold VW, wputi, set_is. cbn. rewrite map_iv_put. reflexivity. Qed.
Lemma wputn_same n w : nthZ (w_ns w) (v_id n - 1) = Some n -> wputn n w = w.
Proof. intros H. unfold wputn, set_ns. rewrite (updZ_same _ _ _ H). destruct w; reflexivity. Qed.
Lemma wputi_same p w : fiv (fst p) (w_is w) = Some (snd p) -> wputi p w = w.
Proof. intros H. unfold wputi, set_is. rewrite (putiv_same _ _ H). destruct w; reflexivity. Qed.

Lemma idxv_wputn n w : idxv w -> idxv (wputn n w).
Proof.
  intros HI k x Hk. cbn in Hk. unfold updZ in Hk. destruct (v_id n - 1 <? 0) eqn:E; [apply (HI _ _ Hk)|]. apply Z.ltb_ge in E.
  destruct (nth_error_upd_cases _ _ _ _ _ Hk) as [[-> ->]|[_ Hk']]; [lia|apply (HI _ _ Hk')].
Qed.

(* ====================================================================================================================== *)
(* Part 2.  Frame logic: PV K m -- m leaves the view alone (K remembers the nodes / records that were read)              *)
(* ====================================================================================================================== *)
Definition PV (K : view -> Prop) {X} (m : M X) : Prop :=
  forall s a s', idxv (VW s) -> K (VW s) -> m s = Ok (a, s') -> VW s' = VW s.
Definition KT : view -> Prop := fun _ => True.
Definition okn (w : view) (nd : node) : Prop := nthZ (w_ns w) (n_id nd - 1) = Some (nv nd).
Definition oki (w : view) (x : ind) : Prop := fiv (i_id x) (w_is w) = Some (i_server x, i_interrupted x).

Lemma pv_weak (K K' : view -> Prop) {X} (m : M X) : PV K m -> (forall w, K' w -> K w) -> PV K' m.
Proof. intros H HK s a s' HI Hk E. eapply H; eauto. Qed.
Lemma pv_T (K : view -> Prop) {X} (m : M X) : PV KT m -> PV K m.
Proof. intros H. eapply pv_weak; [exact H|]. intros; exact I. Qed.
Lemma pv_ret K {X} (a : X) : PV K (ret a).
Proof. intros s a0 s' _ _ H. inversion H. reflexivity. Qed.
Lemma pv_fail K {X} e : PV K (@fail X e).
Proof. intros s a s' _ _ H. discriminate. Qed.
Lemma pv_oof K {X} : PV K (@oof X).
Proof. intros s a s' _ _ H. discriminate. Qed.
Lemma pv_bind K {X Y} (m : M X) (f : X -> M Y) : PV K m -> (forall a, PV K (f a)) -> PV K (bind m f).
Proof.
  intros Hm Hf s b s' HI HK H. unfold bind in H. destruct (m s) as [[a s1]| |] eqn:E; try discriminate.
  pose proof (Hm _ _ _ HI HK E) as E1. rewrite <- E1 in HI, HK. rewrite (Hf a _ _ _ HI HK H). exact E1.
Qed.
Lemma pv_gets K {X} (f : sim -> X) : PV K (gets f).
Proof. intros s a s' _ _ H. inversion H. reflexivity. Qed.
Lemma pv_lift K {X} e (o : option X) : PV K (lift e o).
Proof. destruct o; [apply pv_ret|apply pv_fail]. Qed.
Lemma pv_modify K (f : sim -> sim) : (forall s, VW (f s) = VW s) -> PV K (modify f).
Proof. intros Hf s a s' _ _ H. inversion H. apply Hf. Qed.

Lemma get_node_spec j s nd s' : get_node j s = Ok (nd, s') -> s' = s /\ 1 <= j /\ nthZ (nodes s) (j - 1) = Some nd.
Proof.
  unfold get_node. destruct (j <? 1) eqn:Ej; [discriminate|]. apply Z.ltb_ge in Ej.
  destruct (nthZ (nodes s) (j - 1)) eqn:E; intros H; inversion H. subst. auto.
Qed.
Lemma get_node_okn j s nd : idxv (VW s) -> nthZ (nodes s) (j - 1) = Some nd -> n_id nd = j /\ okn (VW s) nd.
Proof.
  intros HI Hn. destruct (nthZ_nat _ _ _ Hn) as (k & Hk & Hnk).
  assert (Hid : n_id nd = j).
  { specialize (HI k (nv nd)). cbn in HI. rewrite nth_error_map, Hnk in HI. specialize (HI eq_refl). cbn in HI. lia. }
  split; [exact Hid|]. unfold okn. cbn. rewrite Hid, nthZ_map, Hn. reflexivity.
Qed.
Lemma get_ind_spec i s x s' : get_ind i s = Ok (x, s') -> s' = s /\ i_id x = i /\ find_ind i (inds s) = Some x.
Proof.
  unfold get_ind. destruct (find_ind i (inds s)) eqn:E; intros H; inversion H. subst.
  split; [reflexivity|]. split; [eapply find_ind_id; eauto|reflexivity].
Qed.
Lemma find_oki i s x : find_ind i (inds s) = Some x -> oki (VW s) x.
Proof. intros H. unfold oki. cbn. rewrite (find_ind_id i _ _ H), fiv_find, H. reflexivity. Qed.

Lemma pv_get_node_bind K {Y} j (f : node -> M Y) :
  (forall nd, PV (fun w => K w /\ okn w nd) (f nd)) -> PV K (bind (get_node j) f).
Proof.
  intros Hf s b s' HI HK H. unfold bind in H. destruct (get_node j s) as [[nd s1]| |] eqn:E; try discriminate.
  apply get_node_spec in E as (-> & Hj & Hn). eapply Hf; [exact HI| |exact H]. split; [exact HK|]. apply (get_node_okn j); assumption.
Qed.
Lemma pv_get_node K j : PV K (get_node j).
Proof. intros s a s' _ _ H. apply get_node_spec in H as (-> & _). reflexivity. Qed.
Lemma pv_get_ind_bind K {Y} i (f : ind -> M Y) :
  (forall x, PV (fun w => K w /\ oki w x) (f x)) -> PV K (bind (get_ind i) f).
Proof.
  intros Hf s b s' HI HK H. unfold bind in H. destruct (get_ind i s) as [[x s1]| |] eqn:E; try discriminate.
  apply get_ind_spec in E as (-> & Hi & Hx). eapply Hf; [exact HI| |exact H]. split; [assumption|]. apply (find_oki i). exact Hx.
Qed.
Lemma pv_get_ind K i : PV K (get_ind i).
Proof. intros s a s' _ _ H. apply get_ind_spec in H as (-> & _). reflexivity. Qed.

Lemma pv_put_node (K : view -> Prop) nd : (forall w, K w -> exists nd0, okn w nd0 /\ nv nd = nv nd0) -> PV K (put_node nd).
Proof.
  intros HK s a s' _ Hk H. unfold put_node, modify in H. inversion H. destruct (HK _ Hk) as (nd0 & Hn & He).
  rewrite VW_put_node. apply wputn_same. rewrite He. unfold okn in Hn. exact Hn.
Qed.
Lemma pv_put_ind (K : view -> Prop) x : (forall w, K w -> exists x0, oki w x0 /\ iv x = iv x0) -> PV K (put_ind x).
Proof.
  intros HK s a s' _ Hk H. unfold put_ind, modify in H. inversion H. destruct (HK _ Hk) as (x0 & Hx & He).
  rewrite VW_put_ind. apply wputi_same. rewrite He. exact Hx.
Qed.
Lemma pv_upd_node K j (g : node -> node) : (forall nd, nv (g nd) = nv nd) -> PV K (upd_node j g).
Proof.
  intros Hg. unfold upd_node. apply pv_get_node_bind. intros nd. apply pv_put_node. intros w [_ Hn]. exists nd. split; [exact Hn|apply Hg].
Qed.
Lemma pv_upd_ind K i (g : ind -> ind) : (forall x, iv (g x) = iv x) -> PV K (upd_ind i g).
Proof.
  intros Hg. unfold upd_ind. apply pv_get_ind_bind. intros x. apply pv_put_ind. intros w [_ Hx]. exists x. split; [exact Hx|apply Hg].
Qed.
Lemma pv_log_rec K r : PV K (log_rec r).
Proof. apply pv_modify. reflexivity. Qed.
Lemma pv_draw_arr K : PV K draw_arr.
Proof. intros s a s' _ _ H. unfold draw_arr in H. destruct (d_arr (dr s)); inversion H. reflexivity. Qed.
Lemma pv_draw_batch K : PV K draw_batch.
Proof. intros s a s' _ _ H. unfold draw_batch in H. destruct (d_batch (dr s)); inversion H. reflexivity. Qed.
Lemma pv_draw_svc K : PV K draw_svc.
Proof. intros s a s' _ _ H. unfold draw_svc in H. destruct (d_svc (dr s)); inversion H. reflexivity. Qed.
Lemma pv_draw_unif K : PV K draw_unif.
Proof. intros s a s' _ _ H. unfold draw_unif in H. destruct (d_unif (dr s)); inversion H. reflexivity. Qed.
Lemma pv_draw_ren K : PV K draw_ren.
Proof. intros s a s' _ _ H. unfold draw_ren in H. destruct (d_ren (dr s)); inversion H. reflexivity. Qed.
Lemma pv_draw_cct K : PV K draw_cct.
Proof. intros s a s' _ _ H. unfold draw_cct in H. destruct (d_cct (dr s)); inversion H. reflexivity. Qed.
Lemma pv_mapM K {X Y} (f : X -> M Y) l : (forall a, PV K (f a)) -> PV K (mapM f l).
Proof.
  intros Hf. induction l as [|a r IH]; cbn [mapM]; [apply pv_ret|].
  apply pv_bind; [apply Hf|]. intros b. apply pv_bind; [exact IH|]. intros bs. apply pv_ret.
Qed.
Lemma pv_forM K {X} (f : X -> M unit) l : (forall a, PV K (f a)) -> PV K (forM_ l f).
Proof. intros Hf. induction l as [|a r IH]; cbn [forM_]; [apply pv_ret|]. apply pv_bind; [apply Hf|]. intros _. exact IH. Qed.

Ltac pv_side :=
  let w := fresh "w" in let HK := fresh "HK" in
  intros w HK; repeat match goal with H : _ /\ _ |- _ => destruct H end;
  first [ match goal with H : okn w ?nd |- _ => exists nd; split; [exact H|unfold nv, nd_inf; cbn; reflexivity] end
        | match goal with H : oki w ?x |- _ => exists x; split; [exact H|unfold iv; cbn; reflexivity] end ].

Ltac pv_prim :=
  first [ apply pv_ret | apply pv_fail | apply pv_oof | apply pv_gets | apply pv_lift | apply pv_log_rec
        | apply pv_draw_arr | apply pv_draw_batch | apply pv_draw_svc | apply pv_draw_unif | apply pv_draw_ren | apply pv_draw_cct
        | (apply pv_upd_node; intros ?; reflexivity) | (apply pv_upd_ind; intros ?; reflexivity)
        | (apply pv_put_node; pv_side) | (apply pv_put_ind; pv_side)
        | apply pv_get_node | apply pv_get_ind
        | (apply pv_modify; intros ?; reflexivity) ].
Ltac pv_struct :=
  match goal with
  | |- PV _ (bind (get_node _) _) => apply pv_get_node_bind; intros ?
  | |- PV _ (bind (get_ind _) _) => apply pv_get_ind_bind; intros ?
  | |- PV _ (bind _ _) => apply pv_bind; [|intros ?]
  | |- PV _ (mapM _ _) => apply pv_mapM; intros ?
  | |- PV _ (forM_ _ _) => apply pv_forM; intros ?
  | |- PV _ (if ?b then _ else _) => destruct b
  | |- PV _ (match ?x with _ => _ end) => destruct x
  end.
Tactic Notation "pv" "using" tactic(t) := repeat first [ pv_struct | pv_prim | (apply pv_T; t) | t ].
Ltac pv0 := repeat first [ pv_struct | pv_prim ].

Lemma put_server_l_sc sv' sv l : find_server (sv_id sv') l = Some sv -> sc sv' = sc sv -> map sc (put_server_l sv' l) = map sc l.
Proof.
  intros Hf Hs. rewrite map_sc_put. apply putsv_same. rewrite Hs at 2. replace (s_id (sc sv')) with (sv_id sv') by reflexivity.
  rewrite fsv_find, Hf. reflexivity.
Qed.

Section Frame2.
  Variable cf : config.
  Notation P0 m := (PV KT m).

  Lemma pv_ncfg_of j : P0 (ncfg_of cf j). Proof. apply pv_lift. Qed.
  Lemma pv_tnow : P0 tnow. Proof. apply pv_gets. Qed.
  Lemma pv_choice_uniform {X} (l : list X) : P0 (choice_uniform l). Proof. unfold choice_uniform. pv0. Qed.
  Lemma pv_choice_weighted den P : P0 (choice_weighted den P). Proof. unfold choice_weighted. pv0. Qed.
  Lemma pv_choose_next_customer j : P0 (choose_next_customer cf j).
  Proof. unfold choose_next_customer. pv using first [apply pv_ncfg_of | apply pv_choice_uniform]. Qed.
  Lemma pv_upd_server j sid f : (forall sv, sc (f sv) = sc sv) -> P0 (upd_server j sid f).
  Proof.
    intros Hf. unfold upd_server. apply pv_get_node_bind. intros nd.
    destruct (find_server sid (n_servers nd)) as [sv|] eqn:E; [|apply pv_ret].
    apply pv_put_node. intros w [_ Hn]. exists nd. split; [exact Hn|]. unfold nv. cbn. f_equal.
    destruct (find_server_id _ _ _ E) as [Hid _].
    eapply put_server_l_sc; [|apply Hf]. pose proof (Hf sv) as Hs. apply (f_equal s_id) in Hs. cbn in Hs. rewrite Hs, Hid. exact E.
  Qed.
  Lemma pv_find_next_class_change j : P0 (find_next_class_change j). Proof. unfold find_next_class_change. pv0. Qed.
  Lemma pv_cct_loop row : forall b best bc, P0 (cct_loop row b best bc).
  Proof. induction row as [|h r IH]; intros b best bc; cbn [cct_loop]; [apply pv_ret|]. pv using (apply IH). Qed.
  Lemma pv_decide_class_change j i : P0 (decide_class_change cf j i).
  Proof. unfold decide_class_change. pv using first [apply pv_cct_loop | apply pv_find_next_class_change]. Qed.
  Lemma pv_reset_class_change j i : P0 (reset_class_change cf j i).
  Proof. unfold reset_class_change. pv using (apply pv_find_next_class_change). Qed.
  Lemma pv_stime_num x : P0 (stime_num x). Proof. unfold stime_num. pv0. Qed.
  Lemma pv_give_service_time_after_preemption i : P0 (give_service_time_after_preemption i).
  Proof. unfold give_service_time_after_preemption. pv0. Qed.
  Lemma pv_give_individual_a_service_time i : P0 (give_individual_a_service_time i).
  Proof. unfold give_individual_a_service_time. pv using (apply pv_give_service_time_after_preemption). Qed.
  Lemma pv_set_next_end j sid d : P0 (set_next_end j sid d). Proof. unfold set_next_end. apply pv_upd_server. reflexivity. Qed.
  Lemma pv_bump_rec i : P0 (bump_rec i). Proof. unfold bump_rec. pv0. Qed.
  Lemma pv_write_individual_record j i : P0 (write_individual_record cf j i).
  Proof. unfold write_individual_record. pv using first [apply pv_ncfg_of | apply pv_bump_rec]. Qed.
  Lemma pv_write_interruption_record j i d : P0 (write_interruption_record cf j i d).
  Proof. unfold write_interruption_record. pv using first [apply pv_ncfg_of | apply pv_bump_rec]. Qed.
  Lemma pv_write_reneging_record j i : P0 (write_reneging_record j i).
  Proof. unfold write_reneging_record. pv using (apply pv_bump_rec). Qed.
  Lemma pv_write_br_record j i ty : P0 (write_br_record j i ty).
  Proof. unfold write_br_record. pv using (apply pv_bump_rec). Qed.
  Lemma pv_reset_individual_attributes i : P0 (reset_individual_attributes i).
  Proof. unfold reset_individual_attributes. pv0. Qed.
  Lemma pv_valid_dest d : P0 (valid_dest d). Proof. unfold valid_dest. pv0. Qed.
  Lemma pv_jsq_loop lb ds : forall best acc, P0 (jsq_loop lb ds best acc).
  Proof. induction ds as [|d r IH]; intros best acc; cbn [jsq_loop]; [apply pv_ret|]. pv using (apply IH). Qed.
  Lemma pv_jsq_next lb ds order : P0 (jsq_next lb ds order).
  Proof. unfold jsq_next. pv using first [apply pv_jsq_loop | apply pv_choice_uniform]. Qed.
  Lemma pv_get_cyc c j : P0 (get_cyc c j). Proof. unfold get_cyc. pv0. Qed.
  Lemma pv_bump_cyc c j : P0 (bump_cyc c j).
  Proof.
    unfold bump_cyc. apply pv_modify. intros s. destruct (nthZ (cyc s) c) as [row|]; [|reflexivity].
    destruct (nthZ row (j - 1)); reflexivity.
  Qed.
  Lemma pv_node_router_next r c j : P0 (node_router_next r c j).
  Proof. unfold node_router_next. pv using first [apply pv_choice_weighted | apply pv_jsq_next | apply pv_get_cyc | apply pv_bump_cyc]. Qed.
  Lemma pv_next_node_for mode j i : P0 (next_node_for cf mode j i).
  Proof.
    unfold next_node_for.
    pv using first [apply pv_node_router_next | apply pv_valid_dest | apply pv_choice_uniform | apply pv_jsq_next].
  Qed.
  Lemma pv_start_fresh_none j i count : P0 (start_fresh cf j i None count).
  Proof. unfold start_fresh. pv using (apply pv_reset_class_change). Qed.
  Lemma pv_get_reneging_date j i : P0 (get_reneging_date cf j i).
  Proof. unfold get_reneging_date. pv using (apply pv_ncfg_of). Qed.
  Lemma pv_block_individual j i d : P0 (block_individual j i d). Proof. unfold block_individual. pv0. Qed.
  Lemma pv_preempt_victim j i : P0 (preempt_victim cf j i).
  Proof. unfold preempt_victim. pv using (apply pv_ncfg_of). Qed.
  Lemma pv_decide_between l : P0 (decide_between l).
  Proof. unfold decide_between. destruct l as [|a [|b r]]; [apply pv_fail|apply pv_ret|apply pv_choice_uniform]. Qed.
  Lemma pv_change_customer_class j i : P0 (change_customer_class cf j i).
  Proof. unfold change_customer_class. pv using first [apply pv_ncfg_of | apply pv_choice_weighted]. Qed.
  Lemma pv_has_space d : P0 (has_space cf d). Proof. unfold has_space. pv using (apply pv_ncfg_of). Qed.
  Lemma pv_keyed l : P0 (keyed l). Proof. unfold keyed. pv0. Qed.
  Lemma pv_update_next_event_date j : P0 (update_next_event_date cf j).
  Proof. unfold update_next_event_date. pv using (apply pv_ncfg_of). Qed.
  Lemma pv_update_all js : P0 (update_all cf js).
  Proof. induction js as [|j r IH]; cbn [update_all]; [apply pv_ret|]. pv using first [apply IH | apply pv_update_next_event_date]. Qed.
  Lemma pv_find_next_event_date : P0 find_next_event_date.
  Proof. apply pv_modify. intros s. destruct (find_min_dates 1 (a_dates (arr s)) (None, 0, 0)) as [[d j] c]. reflexivity. Qed.
  Lemma pv_sys_population : P0 sys_population. Proof. unfold sys_population. pv0. Qed.
  Lemma pv_route_of i c : P0 (route_of cf i c). Proof. unfold route_of. pv0. Qed.
  Lemma pv_find_next_active_node : P0 find_next_active_node.
  Proof. unfold find_next_active_node. pv using (apply pv_choice_uniform). Qed.
End Frame2.

Ltac pv_lem :=
  first [ apply pv_ncfg_of | apply pv_tnow | apply pv_choice_uniform | apply pv_choice_weighted | apply pv_choose_next_customer
        | apply pv_find_next_class_change | apply pv_cct_loop | apply pv_decide_class_change
        | apply pv_reset_class_change | apply pv_stime_num | apply pv_give_service_time_after_preemption
        | apply pv_give_individual_a_service_time | apply pv_set_next_end
        | apply pv_bump_rec | apply pv_write_individual_record | apply pv_write_interruption_record
        | apply pv_write_reneging_record | apply pv_write_br_record | apply pv_reset_individual_attributes | apply pv_valid_dest
        | apply pv_jsq_loop | apply pv_jsq_next | apply pv_get_cyc | apply pv_bump_cyc | apply pv_node_router_next
        | apply pv_next_node_for | apply pv_start_fresh_none | apply pv_get_reneging_date | apply pv_block_individual
        | apply pv_preempt_victim | apply pv_decide_between | apply pv_change_customer_class | apply pv_has_space | apply pv_keyed
        | apply pv_update_next_event_date | apply pv_update_all | apply pv_find_next_event_date
        | apply pv_sys_population | apply pv_route_of | apply pv_find_next_active_node ].
Ltac pva := pv using pv_lem.

(* ====================================================================================================================== *)
(* Part 3.  The link invariant on views                                                                                  *)
(* ====================================================================================================================== *)
Definition mem (n : nview) : list Z := concat (v_qs n).
Definition vmof (vm : option (Z * Z)) (j : Z) : list Z := match vm with Some (j', i) => if j' =? j then [i] else [] | None => [] end.
Definition vmc (vm : option (Z * Z)) : list Z := match vm with Some (_, i) => [i] | None => [] end.
Definition memv (vm : option (Z * Z)) (n : nview) : list Z := mem n ++ vmof vm (v_id n).
Definition isvv (w : view) (i : Z) : option Z := match fiv i (w_is w) with Some o => fst o | None => None end.
Definition iflag (w : view) (i : Z) : bool := match fiv i (w_is w) with Some o => snd o | None => false end.
Definition sids (l : list sview) : list Z := map s_id l.

(* a node with finitely many servers, not slotted.  pre = the node's priority_preempt option; xs = customers exempt from
   the clauses about interrupted customers (inside an event); ms = the customers of the node; f = the server a customer
   records; g = the customer's `interrupted` flag *)
Record FinOK (pre : Z) (xs ms : list Z) (srv : list sview) (hi : Z) (int : list Z) (f : Z -> option Z) (g : Z -> bool) : Prop := mkFin {
  fo_nd : NoDup (sids srv);
  fo_hi : forall t, In t srv -> s_id t <= hi;
  fo_busy : forall t, In t srv -> s_busy t = match s_cust t with Some _ => true | None => false end;
  fo_cust : forall t i, In t srv -> s_cust t = Some i -> In i ms /\ f i = Some (s_id t);
  fo_link : forall i k, In i ms -> f i = Some k -> k <= hi /\ forall t, In t srv -> s_id t = k -> s_cust t = Some i;
  fo_off : pre <> 0 -> forall t, In t srv -> s_off t = false;
  fo_intnd : NoDup int;
  fo_int : forall i, In i int -> In i ms /\ (~ In i xs -> g i = true /\ exists k, f i = Some k /\ ~ In k (sids srv));
  fo_stale : forall i k, In i ms -> f i = Some k -> ~ In k (sids srv) -> ~ In i xs -> In i int
}.

Definition NodeOK (nc : ncfg) (vm : option (Z * Z)) (xs : list Z) (n : nview) (f : Z -> option Z) (g : Z -> bool) : Prop :=
  match nc_srv nc with
  | SSlot _ => v_int n = [] /\ v_srv n = []
  | SSched _ => v_inf n = false /\ FinOK (nc_preempt nc) xs (memv vm n) (v_srv n) (v_hi n) (v_int n) f g
  | SFixed => if v_inf n then forall i, In i (memv vm n) -> f i = None
              else FinOK (nc_preempt nc) xs (memv vm n) (v_srv n) (v_hi n) (v_int n) f g
  end.

(* ---------- server-view lists ---------- *)
Lemma sids_putsv t l : sids (putsv t l) = sids l.
Proof.
  unfold sids. induction l as [|y r IH]; cbn; [reflexivity|]. destruct (s_id y =? s_id t) eqn:E; cbn.
  - apply Z.eqb_eq in E. rewrite E. reflexivity.
  - rewrite IH. reflexivity.
Qed.
Lemma sv_unique l t t' : NoDup (sids l) -> In t l -> In t' l -> s_id t = s_id t' -> t = t'.
Proof.
  induction l as [|y r IH]; intros HN H1 H2 He; [destruct H1|]. cbn in HN. inversion HN as [|? ? Hny HNr]; subst.
  destruct H1 as [<-|H1], H2 as [<-|H2]; auto.
  - exfalso. apply Hny. rewrite He. apply in_map. exact H2.
  - exfalso. apply Hny. rewrite <- He. apply in_map. exact H1.
Qed.
Lemma fsv_None i l : fsv i l = None <-> ~ In i (sids l).
Proof.
  induction l as [|y r IH]; cbn; [tauto|]. destruct (s_id y =? i) eqn:E.
  - apply Z.eqb_eq in E. split; [discriminate|]. intros H. exfalso. apply H. auto.
  - apply Z.eqb_neq in E. rewrite IH. tauto.
Qed.
Lemma fsv_In i l t : NoDup (sids l) -> In t l -> s_id t = i -> fsv i l = Some t.
Proof.
  intros HN Hin Hid. destruct (fsv i l) as [t'|] eqn:E.
  - destruct (fsv_id _ _ _ E) as [Hid' Hin']. f_equal. eapply sv_unique; eauto. congruence.
  - apply fsv_None in E. exfalso. apply E. rewrite <- Hid. apply in_map. exact Hin.
Qed.
Lemma in_putsv t' l : NoDup (sids l) -> In (s_id t') (sids l) ->
  forall t, In t (putsv t' l) <-> t = t' \/ (In t l /\ s_id t <> s_id t').
Proof.
  induction l as [|y r IH]; cbn [sids map putsv In]; intros HN Hin t; [tauto|].
  inversion HN as [|? ? Hny HNr]; subst. destruct (s_id y =? s_id t') eqn:E.
  - apply Z.eqb_eq in E. cbn [In]. split.
    + intros [<-|H]; [auto|]. right. split; [auto|]. intros Heq. apply Hny. rewrite E, <- Heq. apply in_map. exact H.
    + intros [->|[[<-|H] Hne]]; [auto|congruence|auto].
  - apply Z.eqb_neq in E. cbn [In]. destruct Hin as [Hin|Hin]; [congruence|]. rewrite (IH HNr Hin t). split.
    + intros [<-|[->|[H Hne]]]; [right; split; [auto|congruence]|auto|auto].
    + intros [->|[[<-|H] Hne]]; [auto|auto|auto].
Qed.
Lemma in_delsv i l : NoDup (sids l) -> forall t, In t (delsv i l) <-> In t l /\ s_id t <> i.
Proof.
  induction l as [|y r IH]; cbn [sids map delsv In]; intros HN t; [tauto|].
  inversion HN as [|? ? Hny HNr]; subst. destruct (s_id y =? i) eqn:E.
  - apply Z.eqb_eq in E. split.
    + intros H. split; [auto|]. intros Heq. apply Hny. rewrite E, <- Heq. apply in_map. exact H.
    + intros [[<-|H] Hne]; [congruence|exact H].
  - apply Z.eqb_neq in E. cbn [In]. rewrite (IH HNr t). split.
    + intros [<-|[H Hne]]; auto.
    + intros [[<-|H] Hne]; auto.
Qed.
Lemma NoDup_delsv i l : NoDup (sids l) -> NoDup (sids (delsv i l)).
Proof.
  induction l as [|y r IH]; cbn; intros HN; [constructor|]. inversion HN as [|? ? Hny HNr]; subst.
  destruct (s_id y =? i); [exact HNr|]. cbn. constructor; [|apply IH; exact HNr].
  intros H. apply Hny. apply in_map_iff in H as (t & Ht & Hin). apply in_delsv in Hin; [|exact HNr]. rewrite <- Ht. apply in_map. tauto.
Qed.
Lemma in_sids_delsv i l k : NoDup (sids l) -> (In k (sids (delsv i l)) <-> In k (sids l) /\ k <> i).
Proof.
  intros HN. unfold sids. rewrite !in_map_iff. split.
  - intros (t & Ht & Hin). apply in_delsv in Hin; [|exact HN]. destruct Hin as [Hin Hne]. split; [exists t; auto|congruence].
  - intros [(t & Ht & Hin) Hne]. exists t. split; [exact Ht|]. apply in_delsv; [exact HN|]. split; [exact Hin|congruence].
Qed.

(* ---------- FinOK under changes ---------- *)
Lemma FinOK_ext pre xs ms ms' srv hi int f f' g g' :
  (forall i, In i ms' <-> In i ms) -> (forall i, In i ms -> f' i = f i) -> (forall i, In i ms -> g' i = g i) ->
  FinOK pre xs ms srv hi int f g -> FinOK pre xs ms' srv hi int f' g'.
Proof.
  intros Hm Hf Hg [A1 A2 A3 A4 A5 A6 A7 A8 A9]. split; auto.
  - intros t i Ht Hc. destruct (A4 _ _ Ht Hc) as [B1 B2]. split; [apply Hm; exact B1|rewrite (Hf _ B1); exact B2].
  - intros i k Hi Hk. apply Hm in Hi. rewrite (Hf _ Hi) in Hk. eauto.
  - intros i Hi. destruct (A8 _ Hi) as [B1 B2]. split; [apply Hm; exact B1|]. rewrite (Hf _ B1), (Hg _ B1). exact B2.
  - intros i k Hi Hk. apply Hm in Hi. rewrite (Hf _ Hi) in Hk. eauto.
Qed.
Lemma FinOK_xs pre xs xs' ms srv hi int f g : (forall i, In i ms -> In i xs -> In i xs') ->
  FinOK pre xs ms srv hi int f g -> FinOK pre xs' ms srv hi int f g.
Proof.
  intros Hx [A1 A2 A3 A4 A5 A6 A7 A8 A9]. split; auto.
  - intros i Hi. destruct (A8 _ Hi) as [B1 B2]. split; [exact B1|]. intros Hn. apply B2. intros Hin. apply Hn. auto.
  - intros i k Hi Hk Hs Hn. eapply A9; eauto.
Qed.
(* a customer without server joins / leaves the set of customers of the node *)
Lemma FinOK_add pre xs ms ms' srv hi int f g i :
  (forall i', In i' ms' <-> i' = i \/ In i' ms) -> f i = None -> FinOK pre xs ms srv hi int f g -> FinOK pre xs ms' srv hi int f g.
Proof.
  intros Hm Hf [A1 A2 A3 A4 A5 A6 A7 A8 A9]. split; auto.
  - intros t i0 Ht Hc. destruct (A4 _ _ Ht Hc). split; [apply Hm; auto|assumption].
  - intros i0 k Hi Hk. apply Hm in Hi as [->|Hi]; [congruence|eauto].
  - intros i0 Hi. destruct (A8 _ Hi). split; [apply Hm; auto|assumption].
  - intros i0 k Hi Hk. apply Hm in Hi as [->|Hi]; [congruence|eauto].
Qed.
Lemma FinOK_rm pre xs ms ms' srv hi int f g i :
  (forall i', In i' ms <-> i' = i \/ In i' ms') -> f i = None -> ~ In i int -> FinOK pre xs ms srv hi int f g -> FinOK pre xs ms' srv hi int f g.
Proof.
  intros Hm Hf Hni [A1 A2 A3 A4 A5 A6 A7 A8 A9]. split; auto.
  - intros t i0 Ht Hc. destruct (A4 _ _ Ht Hc) as [B1 B2]. split; [|exact B2]. apply Hm in B1 as [->|B1]; [congruence|exact B1].
  - intros i0 k Hi Hk. apply (A5 i0 k); [apply Hm; auto|exact Hk].
  - intros i0 Hi. destruct (A8 _ Hi) as [B1 B2]. split; [|exact B2]. apply Hm in B1 as [->|B1]; [contradiction|exact B1].
  - intros i0 k Hi Hk. apply (A9 i0 k); [apply Hm; auto|exact Hk].
Qed.

(* customer c of the node, not currently served, gets the idle server t0 *)
Lemma FinOK_attach pre xs ms srv hi int f f' g c t0 :
  FinOK pre xs ms srv hi int f g -> In t0 srv -> s_cust t0 = None -> In c ms ->
  (forall t, In t srv -> s_cust t <> Some c) -> (In c int -> In c xs) ->
  (forall i, f' i = if i =? c then Some (s_id t0) else f i) ->
  FinOK pre xs ms (putsv (mkSv (s_id t0) (Some c) true (s_off t0)) srv) hi int f' g.
Proof.
  intros [A1 A2 A3 A4 A5 A6 A7 A8 A9] H0 Hc0 Hc Hnl Hcx Hf'.
  set (t' := mkSv (s_id t0) (Some c) true (s_off t0)).
  assert (Hidin : In (s_id t') (sids srv)) by (apply (in_map s_id _ t0); exact H0).
  pose proof (in_putsv t' srv A1 Hidin) as Hin.
  assert (Hfc : f' c = Some (s_id t0)) by (rewrite Hf', Z.eqb_refl; reflexivity).
  assert (Hfo : forall i, i <> c -> f' i = f i) by (intros i Hne; rewrite Hf'; destruct (i =? c) eqn:E; [apply Z.eqb_eq in E; contradiction|reflexivity]).
  split.
  - rewrite sids_putsv. exact A1.
  - intros t Ht. apply Hin in Ht as [->|[Ht _]]; [apply (A2 _ H0)|auto].
  - intros t Ht. apply Hin in Ht as [->|[Ht _]]; [reflexivity|auto].
  - intros t i Ht Hcu. apply Hin in Ht as [->|[Ht Hne]].
    + cbn in Hcu. injection Hcu as <-. split; [exact Hc|exact Hfc].
    + destruct (A4 _ _ Ht Hcu) as [B1 B2]. split; [exact B1|]. rewrite Hfo; [exact B2|]. intros ->. apply (Hnl _ Ht Hcu).
  - intros i k Hi Hk. destruct (Z.eq_dec i c) as [->|Hne].
    + rewrite Hfc in Hk. injection Hk as <-. split; [apply (A2 _ H0)|]. intros t Ht Hid. apply Hin in Ht as [->|[Ht Hne]]; [reflexivity|]. cbn in Hne. contradiction.
    + rewrite (Hfo _ Hne) in Hk. destruct (A5 _ _ Hi Hk) as [B1 B2]. split; [exact B1|]. intros t Ht Hid.
      apply Hin in Ht as [->|[Ht _]]; [|auto]. cbn in Hid. specialize (B2 _ H0 Hid). congruence.
  - intros Hp t Ht. apply Hin in Ht as [->|[Ht _]]; [apply (A6 Hp _ H0)|auto].
  - exact A7.
  - intros i Hi. destruct (A8 _ Hi) as [B1 B2]. split; [exact B1|]. intros Hnx. rewrite sids_putsv.
    assert (Hne : i <> c) by (intros ->; auto). rewrite (Hfo _ Hne). auto.
  - intros i k Hi Hk Hs Hnx. rewrite sids_putsv in Hs. destruct (Z.eq_dec i c) as [->|Hne].
    + rewrite Hfc in Hk. injection Hk as <-. exfalso. apply Hs. apply in_map. exact H0.
    + rewrite (Hfo _ Hne) in Hk. eauto.
Qed.

(* customer i of the node gives its server back *)
Lemma FinOK_detach pre xs ms srv hi int f f' g i sid t :
  FinOK pre xs ms srv hi int f g -> In i ms -> f i = Some sid -> fsv sid srv = Some t -> ~ In i int ->
  (forall i', f' i' = if i' =? i then None else f i') ->
  FinOK pre xs ms (putsv (mkSv (s_id t) None false (s_off t)) srv) hi int f' g.
Proof.
  intros [A1 A2 A3 A4 A5 A6 A7 A8 A9] Hi Hfi Hfs Hni Hf'.
  destruct (fsv_id _ _ _ Hfs) as [Hsid Ht]. set (t' := mkSv (s_id t) None false (s_off t)).
  assert (Hidin : In (s_id t') (sids srv)) by (apply (in_map s_id _ t); exact Ht).
  pose proof (in_putsv t' srv A1 Hidin) as Hin.
  assert (Hfo : forall i', i' <> i -> f' i' = f i') by (intros i' Hne; rewrite Hf'; destruct (i' =? i) eqn:E; [apply Z.eqb_eq in E; contradiction|reflexivity]).
  assert (Hfi' : f' i = None) by (rewrite Hf', Z.eqb_refl; reflexivity).
  assert (Hti : s_cust t = Some i) by (apply (proj2 (A5 _ _ Hi Hfi) _ Ht Hsid)).
  split.
  - rewrite sids_putsv. exact A1.
  - intros t1 Ht1. apply Hin in Ht1 as [->|[Ht1 _]]; [apply (A2 _ Ht)|auto].
  - intros t1 Ht1. apply Hin in Ht1 as [->|[Ht1 _]]; [reflexivity|auto].
  - intros t1 i1 Ht1 Hc. apply Hin in Ht1 as [->|[Ht1 Hne]]; [discriminate Hc|].
    destruct (A4 _ _ Ht1 Hc) as [B1 B2]. split; [exact B1|]. rewrite Hfo; [exact B2|]. intros ->. apply Hne. cbn. congruence.
  - intros i1 k Hi1 Hk. destruct (Z.eq_dec i1 i) as [->|Hne]; [congruence|]. rewrite (Hfo _ Hne) in Hk.
    destruct (A5 _ _ Hi1 Hk) as [B1 B2]. split; [exact B1|]. intros t1 Ht1 Hid. apply Hin in Ht1 as [->|[Ht1 _]]; [|auto].
    cbn in Hid. specialize (B2 _ Ht Hid). congruence.
  - intros Hp t1 Ht1. apply Hin in Ht1 as [->|[Ht1 _]]; [apply (A6 Hp _ Ht)|auto].
  - exact A7.
  - intros i1 Hi1. destruct (A8 _ Hi1) as [B1 B2]. split; [exact B1|]. rewrite sids_putsv.
    assert (Hne : i1 <> i) by (intros ->; contradiction). rewrite (Hfo _ Hne). exact B2.
  - intros i1 k Hi1 Hk Hs Hnx. rewrite sids_putsv in Hs. destruct (Z.eq_dec i1 i) as [->|Hne]; [congruence|]. rewrite (Hfo _ Hne) in Hk. eauto.
Qed.
(* ... when the server it records is no longer at the node (a retired server) *)
Lemma FinOK_detach_stale pre xs ms srv hi int f f' g i sid :
  FinOK pre xs ms srv hi int f g -> f i = Some sid -> fsv sid srv = None -> ~ In i int ->
  (forall i', f' i' = if i' =? i then None else f i') ->
  FinOK pre xs ms srv hi int f' g.
Proof.
  intros [A1 A2 A3 A4 A5 A6 A7 A8 A9] Hfi Hfs Hni Hf'. apply fsv_None in Hfs.
  assert (Hfo : forall i', i' <> i -> f' i' = f i') by (intros i' Hne; rewrite Hf'; destruct (i' =? i) eqn:E; [apply Z.eqb_eq in E; contradiction|reflexivity]).
  split; auto.
  - intros t i1 Ht Hc. destruct (A4 _ _ Ht Hc) as [B1 B2]. split; [exact B1|]. rewrite Hfo; [exact B2|].
    intros ->. apply Hfs. rewrite Hfi in B2. injection B2 as ->. apply in_map. exact Ht.
  - intros i1 k Hi1 Hk. destruct (Z.eq_dec i1 i) as [->|Hne]; [rewrite Hf', Z.eqb_refl in Hk; discriminate|]. rewrite (Hfo _ Hne) in Hk. eauto.
  - intros i1 Hi1. destruct (A8 _ Hi1) as [B1 B2]. split; [exact B1|].
    assert (Hne : i1 <> i) by (intros ->; contradiction). rewrite (Hfo _ Hne). exact B2.
  - intros i1 k Hi1 Hk Hs Hnx. destruct (Z.eq_dec i1 i) as [->|Hne]; [rewrite Hf', Z.eqb_refl in Hk; discriminate|]. rewrite (Hfo _ Hne) in Hk. eauto.
Qed.
(* a server that serves nobody, or an exempt customer, is retired *)
Lemma FinOK_kill pre xs ms srv hi int f g sid t :
  FinOK pre xs ms srv hi int f g -> fsv sid srv = Some t -> (forall c, s_cust t = Some c -> In c xs) ->
  FinOK pre xs ms (delsv sid srv) hi int f g.
Proof.
  intros [A1 A2 A3 A4 A5 A6 A7 A8 A9] Hfs Hcx. destruct (fsv_id _ _ _ Hfs) as [Hsid Ht].
  pose proof (in_delsv sid srv A1) as Hin. pose proof (fun k => in_sids_delsv sid srv k A1) as Hsi.
  split.
  - apply NoDup_delsv. exact A1.
  - intros t1 Ht1. apply Hin in Ht1 as [Ht1 _]. auto.
  - intros t1 Ht1. apply Hin in Ht1 as [Ht1 _]. auto.
  - intros t1 i1 Ht1 Hc. apply Hin in Ht1 as [Ht1 _]. eauto.
  - intros i1 k Hi1 Hk. destruct (A5 _ _ Hi1 Hk) as [B1 B2]. split; [exact B1|]. intros t1 Ht1. apply Hin in Ht1 as [Ht1 _]. auto.
  - intros Hp t1 Ht1. apply Hin in Ht1 as [Ht1 _]. auto.
  - exact A7.
  - intros i1 Hi1. destruct (A8 _ Hi1) as [B1 B2]. split; [exact B1|]. intros Hnx. destruct (B2 Hnx) as (B3 & k & B4 & B5).
    split; [exact B3|]. exists k. split; [exact B4|]. rewrite Hsi. tauto.
  - intros i1 k Hi1 Hk Hs Hnx. rewrite Hsi in Hs. destruct (Z.eq_dec k sid) as [->|Hne].
    + destruct (in_dec Z.eq_dec sid (sids srv)) as [Hin'|Hnin]; [|eauto].
      exfalso. apply Hnx. apply Hcx. apply (proj2 (A5 _ _ Hi1 Hk) _ Ht Hsid).
    + apply (A9 i1 k); auto; tauto.
Qed.
(* the list of interrupted customers *)
Lemma FinOK_int_add pre xs ms srv hi int f g c :
  FinOK pre xs ms srv hi int f g -> In c ms -> In c xs -> ~ In c int -> FinOK pre xs ms srv hi (int ++ [c]) f g.
Proof.
  intros [A1 A2 A3 A4 A5 A6 A7 A8 A9] Hc Hx Hni. split; auto.
  - apply Conserve2.NoDup_app_left with (b := []). rewrite app_nil_r. apply NoDup_rev in A7.
    rewrite <- (rev_involutive (int ++ [c])). apply NoDup_rev. rewrite rev_app_distr. cbn. constructor; [rewrite <- in_rev; exact Hni|exact A7].
  - intros i Hi. apply in_app_or in Hi as [Hi|[<-|[]]]; [auto|]. split; [exact Hc|]. intros Hn. contradiction.
  - intros i k Hi Hk Hs Hnx. apply in_or_app. left. eauto.
Qed.
Lemma FinOK_int_perm pre xs ms srv hi int int' f g :
  Permutation int int' -> FinOK pre xs ms srv hi int f g -> FinOK pre xs ms srv hi int' f g.
Proof.
  intros HP [A1 A2 A3 A4 A5 A6 A7 A8 A9]. split; auto.
  - eapply Permutation_NoDup; eauto.
  - intros i Hi. apply A8. eapply Permutation_in; [symmetry; exact HP|exact Hi].
  - intros i k Hi Hk Hs Hnx. eapply Permutation_in; [exact HP|]. eauto.
Qed.
Lemma FinOK_int_rm pre xs ms srv hi int int' f g c :
  Permutation int (c :: int') -> In c xs -> FinOK pre xs ms srv hi int f g -> FinOK pre xs ms srv hi int' f g.
Proof.
  intros HP Hx HF. apply (FinOK_int_perm _ _ _ _ _ _ _ _ _ HP) in HF. destruct HF as [A1 A2 A3 A4 A5 A6 A7 A8 A9]. split; auto.
  - inversion A7; assumption.
  - intros i Hi. apply A8. right. exact Hi.
  - intros i k Hi Hk Hs Hnx. destruct (A9 _ _ Hi Hk Hs Hnx) as [<-|H]; [contradiction|exact H].
Qed.
(* a fresh server *)
Lemma FinOK_add_server pre xs ms srv hi int f g :
  FinOK pre xs ms srv hi int f g -> FinOK pre xs ms (srv ++ [mkSv (hi + 1) None false false]) (hi + 1) int f g.
Proof.
  intros [A1 A2 A3 A4 A5 A6 A7 A8 A9].
  assert (Hnew : ~ In (hi + 1) (sids srv)).
  { intros H. apply in_map_iff in H as (t & Ht & Hin). specialize (A2 _ Hin). lia. }
  assert (Hin : forall t, In t (srv ++ [mkSv (hi + 1) None false false]) <-> In t srv \/ t = mkSv (hi + 1) None false false).
  { intros t. rewrite in_app_iff. cbn. intuition. }
  assert (Hsi : forall k, In k (sids (srv ++ [mkSv (hi + 1) None false false])) <-> In k (sids srv) \/ k = hi + 1).
  { intros k. unfold sids. rewrite map_app, in_app_iff. cbn. intuition. }
  split.
  - unfold sids. rewrite map_app. cbn. apply NoDup_rev in A1.
    rewrite <- (rev_involutive (map s_id srv ++ [hi + 1])). apply NoDup_rev. rewrite rev_app_distr. cbn. constructor; [rewrite <- in_rev; exact Hnew|exact A1].
  - intros t Ht. apply Hin in Ht as [Ht| ->]; [specialize (A2 _ Ht); lia|cbn; lia].
  - intros t Ht. apply Hin in Ht as [Ht| ->]; [auto|reflexivity].
  - intros t i Ht Hc. apply Hin in Ht as [Ht| ->]; [eauto|discriminate].
  - intros i k Hi Hk. destruct (A5 _ _ Hi Hk) as [B1 B2]. split; [lia|]. intros t Ht Hid. apply Hin in Ht as [Ht| ->]; [auto|cbn in Hid; lia].
  - intros Hp t Ht. apply Hin in Ht as [Ht| ->]; [auto|reflexivity].
  - exact A7.
  - intros i Hi. destruct (A8 _ Hi) as [B1 B2]. split; [exact B1|]. intros Hnx. destruct (B2 Hnx) as (B3 & k & B4 & B5).
    split; [exact B3|]. exists k. split; [exact B4|]. rewrite Hsi. intros [H| ->]; [contradiction|]. destruct (A5 _ _ B1 B4). lia.
  - intros i k Hi Hk Hs Hnx. apply (A9 i k); auto. intros H. apply Hs. apply Hsi. auto.
Qed.
(* the servers' off-duty flags change (node without priority pre-emption) *)
Lemma FinOK_off xs ms srv srv' hi int f g :
  map (fun t => (s_id t, s_cust t, s_busy t)) srv' = map (fun t => (s_id t, s_cust t, s_busy t)) srv ->
  FinOK 0 xs ms srv hi int f g -> FinOK 0 xs ms srv' hi int f g.
Proof.
  intros Hm [A1 A2 A3 A4 A5 A6 A7 A8 A9].
  assert (Hto : forall t', In t' srv' -> exists t, In t srv /\ s_id t = s_id t' /\ s_cust t = s_cust t' /\ s_busy t = s_busy t').
  { intros t' H. apply (in_map (fun t => (s_id t, s_cust t, s_busy t))) in H. rewrite Hm in H. apply in_map_iff in H as (t & E & H).
    injection E as E1 E2 E3. eauto. }
  assert (Hsi : sids srv' = sids srv).
  { unfold sids. assert (E : forall l, map s_id l = map (fun p => fst (fst p)) (map (fun t => (s_id t, s_cust t, s_busy t)) l)) by (intros l; rewrite map_map; reflexivity).
    rewrite (E srv'), (E srv), Hm. reflexivity. }
  split; try (rewrite Hsi); auto.
  - intros t' H. destruct (Hto _ H) as (t & Ht & E1 & E2 & E3). rewrite <- E1. auto.
  - intros t' H. destruct (Hto _ H) as (t & Ht & E1 & E2 & E3). rewrite <- E2, <- E3. auto.
  - intros t' i H Hc. destruct (Hto _ H) as (t & Ht & E1 & E2 & E3). rewrite <- E1. apply A4; [exact Ht|congruence].
  - intros i k Hi Hk. destruct (A5 _ _ Hi Hk) as [B1 B2]. split; [exact B1|]. intros t' H Hid.
    destruct (Hto _ H) as (t & Ht & E1 & E2 & E3). rewrite <- E2. apply B2; [exact Ht|congruence].
  - intros Hp. contradiction.
Qed.
(* an exempt customer that now satisfies the clauses about interrupted customers stops being exempt *)
Lemma FinOK_unexempt pre xs xs' ms srv hi int f g :
  (forall i, In i ms -> In i xs -> ~ In i xs' ->
     (In i int -> g i = true /\ exists k, f i = Some k /\ ~ In k (sids srv)) /\
     (forall k, f i = Some k -> ~ In k (sids srv) -> In i int)) ->
  FinOK pre xs ms srv hi int f g -> FinOK pre xs' ms srv hi int f g.
Proof.
  intros Hx [A1 A2 A3 A4 A5 A6 A7 A8 A9]. split; auto.
  - intros i Hi. destruct (A8 _ Hi) as [B1 B2]. split; [exact B1|]. intros Hn.
    destruct (in_dec Z.eq_dec i xs) as [Hin|Hnin]; [apply (Hx i B1 Hin Hn); exact Hi|auto].
  - intros i k Hi Hk Hs Hn. destruct (in_dec Z.eq_dec i xs) as [Hin|Hnin]; [eapply (Hx i Hi Hin Hn); eauto|eauto].
Qed.

Lemma NodeOK_ext nc vm xs n f f' g g' :
  (forall i, In i (memv vm n) -> f' i = f i) -> (forall i, In i (memv vm n) -> g' i = g i) ->
  NodeOK nc vm xs n f g -> NodeOK nc vm xs n f' g'.
Proof.
  intros Hf Hg. unfold NodeOK. destruct (nc_srv nc); [|intros [H1 H2]; split; [exact H1|eapply FinOK_ext; eauto; tauto]|auto].
  destruct (v_inf n); [intros H i Hi; rewrite Hf; auto|intros H; eapply FinOK_ext; eauto; tauto].
Qed.
Lemma NodeOK_xs nc vm xs xs' n f g : (forall i, In i (memv vm n) -> In i xs -> In i xs') -> NodeOK nc vm xs n f g -> NodeOK nc vm xs' n f g.
Proof.
  intros Hx. unfold NodeOK. destruct (nc_srv nc); [|intros [H1 H2]; split; [exact H1|eapply FinOK_xs; eauto]|auto].
  destruct (v_inf n); [auto|intros H; eapply FinOK_xs; eauto].
Qed.

(* ---------- what conservation gives ---------- *)
Lemma qids_shv w : Conserve2.qids (shv w) = concat (map mem (w_ns w)).
Proof. unfold Conserve2.qids, shv. cbn. rewrite map_map. reflexivity. Qed.
Lemma W_idx fl w : Conserve2.WFsh fl (shv w) -> idxv w.
Proof.
  intros (HI & _) k n Hk. specialize (HI k (v_id n, v_pop n, v_qs n)). cbn in HI. rewrite nth_error_map, Hk in HI. apply (HI eq_refl).
Qed.
Lemma W_nodup fl w : Conserve2.WFsh fl (shv w) -> NoDup (concat (map mem (w_ns w)) ++ w_ex w ++ fl).
Proof.
  intros (_ & _ & _ & HP & _). rewrite qids_shv in HP. cbn in HP. eapply Permutation_NoDup; [symmetry; exact HP|apply zseq_NoDup].
Qed.
Lemma NoDup_app_l {A} (a b : list A) : NoDup (a ++ b) -> NoDup a.
Proof. apply Conserve2.NoDup_app_left. Qed.
Lemma NoDup_app_r {A} (a b : list A) : NoDup (a ++ b) -> NoDup b.
Proof. induction a as [|x a IH]; cbn; intros H; [exact H|]. inversion H; auto. Qed.
Lemma NoDup_app_disj {A} (a b : list A) x : NoDup (a ++ b) -> In x a -> In x b -> False.
Proof.
  induction a as [|y a IH]; cbn; intros H Ha Hb; [destruct Ha|]. inversion H as [|? ? Hn Hd]; subst. destruct Ha as [->|Ha].
  - apply Hn. apply in_or_app. auto.
  - eauto.
Qed.
Lemma NoDup_concat_nth {A} (ls : list (list A)) k k' l l' x :
  NoDup (concat ls) -> nth_error ls k = Some l -> nth_error ls k' = Some l' -> In x l -> In x l' -> k = k'.
Proof.
  revert k k'; induction ls as [|h t IH]; intros k k' HN Hk Hk' Hx Hx'; [destruct k; discriminate|].
  cbn in HN. destruct k as [|k], k' as [|k']; cbn in Hk, Hk'.
  - reflexivity.
  - injection Hk as ->. exfalso. eapply NoDup_app_disj; [exact HN|exact Hx|]. apply in_concat. exists l'. split; [eapply nth_error_In; eauto|exact Hx'].
  - injection Hk' as ->. exfalso. eapply NoDup_app_disj; [exact HN|exact Hx'|]. apply in_concat. exists l. split; [eapply nth_error_In; eauto|exact Hx].
  - f_equal. eapply IH; eauto. eapply NoDup_app_r; eauto.
Qed.
Lemma W_one fl w k k' n n' i : Conserve2.WFsh fl (shv w) -> nth_error (w_ns w) k = Some n -> nth_error (w_ns w) k' = Some n' ->
  In i (mem n) -> In i (mem n') -> k = k'.
Proof.
  intros HW Hk Hk' Hi Hi'. apply W_nodup, NoDup_app_l in HW.
  eapply (NoDup_concat_nth (map mem (w_ns w))); [exact HW| | |exact Hi|exact Hi']; rewrite nth_error_map; [rewrite Hk|rewrite Hk']; reflexivity.
Qed.
Lemma W_fly fl w k n i : Conserve2.WFsh fl (shv w) -> In i fl -> nth_error (w_ns w) k = Some n -> ~ In i (mem n).
Proof.
  intros HW Hfl Hk Hi. apply W_nodup in HW. eapply NoDup_app_disj; [exact HW| |apply in_or_app; right; exact Hfl].
  apply in_concat. exists (mem n). split; [apply in_map; eapply nth_error_In; eauto|exact Hi].
Qed.
Lemma W_fl_nodup fl w : Conserve2.WFsh fl (shv w) -> NoDup fl.
Proof. intros HW. apply W_nodup in HW. apply NoDup_app_r in HW. apply NoDup_app_r in HW. exact HW. Qed.
Lemma W_rec fl w i : Conserve2.WFsh fl (shv w) -> (In i (map fst (w_is w)) <-> In i (concat (map mem (w_ns w))) \/ In i fl).
Proof.
  intros (_ & _ & _ & _ & HQ). rewrite qids_shv in HQ. cbn in HQ. rewrite <- in_app_iff. split; intros H.
  - eapply Permutation_in; [exact HQ|exact H].
  - eapply Permutation_in; [symmetry; exact HQ|exact H].
Qed.
Lemma in_mem_all w k n i : nth_error (w_ns w) k = Some n -> In i (mem n) -> In i (concat (map mem (w_ns w))).
Proof. intros Hk Hi. apply in_concat. exists (mem n). split; [apply in_map; eapply nth_error_In; eauto|exact Hi]. Qed.

Section Link.
  Variable cf : config.

  Definition LV (fl : list Z) (vm : option (Z * Z)) (xs : list Z) (w : view) : Prop :=
    Conserve2.WFsh (vmc vm ++ fl) (shv w) /\
    (forall k n nc, nth_error (w_ns w) k = Some n -> nth_error (cf_nodes cf) k = Some nc -> NodeOK nc vm xs n (isvv w) (iflag w)) /\
    (forall i, In i fl -> isvv w i = None) /\
    (length (w_ns w) <= length (cf_nodes cf))%nat.

  Lemma LV_idx fl vm xs w : LV fl vm xs w -> idxv w.
  Proof. intros (HW & _). eapply W_idx; eauto. Qed.

  Lemma vmof_in vm j i : In i (vmof vm j) -> vm = Some (j, i).
  Proof. destruct vm as [[j' i']|]; cbn; [|intros []]. destruct (j' =? j) eqn:E; [|intros []]. apply Z.eqb_eq in E. intros [<-|[]]. congruence. Qed.
  Lemma vmof_same j i : vmof (Some (j, i)) j = [i].
  Proof. cbn. rewrite Z.eqb_refl. reflexivity. Qed.

  (* a customer of node k (possibly the virtual one) is a customer of no other node, and not in flight *)
  Lemma memv_one fl vm w k k' n n' i : Conserve2.WFsh (vmc vm ++ fl) (shv w) ->
    nth_error (w_ns w) k = Some n -> nth_error (w_ns w) k' = Some n' -> In i (memv vm n) -> In i (memv vm n') -> k = k'.
  Proof.
    intros HW Hk Hk' Hi Hi'. pose proof (W_idx _ _ HW) as HI. unfold memv in *. apply in_app_or in Hi, Hi'.
    assert (Hv : forall k0 n0, nth_error (w_ns w) k0 = Some n0 -> In i (vmof vm (v_id n0)) -> ~ In i (mem n)  /\ ~ In i (mem n')).
    { intros k0 n0 Hk0 Hv. apply vmof_in in Hv. subst vm. split; eapply W_fly; eauto; left; reflexivity. }
    destruct Hi as [Hi|Hi], Hi' as [Hi'|Hi'].
    - eapply W_one; eauto.
    - exfalso. destruct (Hv _ _ Hk' Hi'). contradiction.
    - exfalso. destruct (Hv _ _ Hk Hi). contradiction.
    - apply vmof_in in Hi, Hi'. rewrite Hi in Hi'. injection Hi' as E. pose proof (HI _ _ Hk). pose proof (HI _ _ Hk'). lia.
  Qed.
  Lemma memv_fly fl vm w k n i : Conserve2.WFsh (vmc vm ++ fl) (shv w) -> nth_error (w_ns w) k = Some n -> In i fl -> ~ In i (memv vm n).
  Proof.
    intros HW Hk Hfl Hi. unfold memv in Hi. apply in_app_or in Hi as [Hi|Hi].
    - eapply W_fly; eauto. apply in_or_app. auto.
    - apply vmof_in in Hi. subst vm. apply W_fl_nodup in HW. cbn in HW. inversion HW; contradiction.
  Qed.

  Lemma isvv_fiv w w' i : fiv i (w_is w') = fiv i (w_is w) -> isvv w' i = isvv w i /\ iflag w' i = iflag w i.
  Proof. unfold isvv, iflag. intros ->. auto. Qed.

  (* one node's servers / interrupted list / highest id and the entries of its own customers change *)
  Lemma LV_step fl vm xs w w' k n n' :
    LV fl vm xs w -> nth_error (w_ns w) k = Some n ->
    w_ns w' = upd (w_ns w) k n' -> w_ex w' = w_ex w -> w_en w' = w_en w -> w_cr w' = w_cr w -> map fst (w_is w') = map fst (w_is w) ->
    v_id n' = v_id n -> v_pop n' = v_pop n -> v_qs n' = v_qs n ->
    (forall i, ~ In i (memv vm n) -> fiv i (w_is w') = fiv i (w_is w)) ->
    (forall nc, nth_error (cf_nodes cf) k = Some nc -> NodeOK nc vm xs n (isvv w) (iflag w) -> NodeOK nc vm xs n' (isvv w') (iflag w')) ->
    LV fl vm xs w'.
  Proof.
    intros (HW & HN & HF & HLen) Hk Ens Eex Een Ecr Eis Eid Epop Eqs Hoth Hnode.
    assert (Esh : shv w' = shv w).
    { unfold shv. rewrite Ens, Eex, Een, Ecr, Eis. f_equal. rewrite upd_map, Eid, Epop, Eqs. apply upd_same. rewrite nth_error_map, Hk. reflexivity. }
    split; [rewrite Esh; exact HW|]. split; [|split].
    - intros k1 n1 nc Hk1 Hc. rewrite Ens in Hk1. destruct (nth_error_upd_cases _ _ _ _ _ Hk1) as [[-> ->]|[Hne Hk1']].
      + apply Hnode; [exact Hc|]. exact (HN k n nc Hk Hc).
      + assert (Hag : forall i, In i (memv vm n1) -> fiv i (w_is w') = fiv i (w_is w)).
        { intros i Hi. apply Hoth. intros Hi'. apply Hne. eapply memv_one; eauto. }
        eapply NodeOK_ext; [| |exact (HN k1 n1 nc Hk1' Hc)]; intros i Hi; apply (isvv_fiv _ _ _ (Hag i Hi)).
    - intros i Hi. rewrite (proj1 (isvv_fiv w w' i (Hoth i (memv_fly _ _ _ _ _ _ HW Hk Hi)))). auto.
    - rewrite Ens, length_upd. exact HLen.
  Qed.

  Lemma LV_xs fl vm xs xs' w : (forall i, In i xs -> In i xs') -> LV fl vm xs w -> LV fl vm xs' w.
  Proof.
    intros Hx (HW & HN & HF & HLen). split; [exact HW|]. split; [|split; [exact HF|exact HLen]]. intros k n nc Hk Hc. eapply NodeOK_xs; [|eapply HN; eauto]. auto.
  Qed.
  (* a customer in flight needs no exemption *)
  Lemma LV_xs_fl fl vm xs w i : In i fl -> LV fl vm xs w -> LV fl vm (remove Z.eq_dec i xs) w.
  Proof.
    intros Hi (HW & HN & HF & HLen). split; [exact HW|]. split; [|split; [exact HF|exact HLen]]. intros k n nc Hk Hc. eapply NodeOK_xs; [|eapply HN; eauto].
    intros i' Hm Hx. apply in_in_remove; [|exact Hx]. intros ->. eapply memv_fly; eauto.
  Qed.
  (* ---------- NodeOK when the set of customers of the node changes ---------- *)
  Lemma NodeOK_cong nc vm vm' xs n n' f g :
    v_srv n' = v_srv n -> v_inf n' = v_inf n -> v_hi n' = v_hi n -> v_int n' = v_int n ->
    (forall i, In i (memv vm' n') <-> In i (memv vm n)) -> NodeOK nc vm xs n f g -> NodeOK nc vm' xs n' f g.
  Proof.
    intros E1 E2 E3 E4 Hm. unfold NodeOK. rewrite E1, E2, E3, E4. destruct (nc_srv nc); [|intros [H1 H2]; split; [exact H1|eapply FinOK_ext; eauto]|auto].
    destruct (v_inf n); [intros H i Hi; apply H, Hm, Hi|intros H; eapply FinOK_ext; eauto].
  Qed.
  Lemma NodeOK_add nc vm vm' xs n n' f g i :
    v_srv n' = v_srv n -> v_inf n' = v_inf n -> v_hi n' = v_hi n -> v_int n' = v_int n ->
    (forall i', In i' (memv vm' n') <-> i' = i \/ In i' (memv vm n)) -> f i = None -> NodeOK nc vm xs n f g -> NodeOK nc vm' xs n' f g.
  Proof.
    intros E1 E2 E3 E4 Hm Hf. unfold NodeOK. rewrite E1, E2, E3, E4. destruct (nc_srv nc); [|intros [H1 H2]; split; [exact H1|eapply FinOK_add; eauto]|auto].
    destruct (v_inf n); [intros H i' Hi; apply Hm in Hi as [->|Hi]; auto|intros H; eapply FinOK_add; eauto].
  Qed.
  Lemma NodeOK_rm nc vm vm' xs n n' f g i :
    v_srv n' = v_srv n -> v_inf n' = v_inf n -> v_hi n' = v_hi n -> v_int n' = v_int n ->
    (forall i', In i' (memv vm n) <-> i' = i \/ In i' (memv vm' n')) -> f i = None -> (v_inf n = false -> ~ In i (v_int n)) ->
    NodeOK nc vm xs n f g -> NodeOK nc vm' xs n' f g.
  Proof.
    intros E1 E2 E3 E4 Hm Hf Hni. unfold NodeOK. rewrite E1, E2, E3, E4. destruct (nc_srv nc); [|intros [H1 H2]; split; [exact H1|eapply FinOK_rm; eauto]|auto].
    destruct (v_inf n); [intros H i' Hi; apply H, Hm; auto|intros H; eapply FinOK_rm; eauto].
  Qed.

  Lemma wputn_ns n' w k : v_id n' - 1 = Z.of_nat k -> w_ns (wputn n' w) = upd (w_ns w) k n'.
  Proof. intros E. unfold wputn. cbn. rewrite E, updZ_nat. reflexivity. Qed.
  Lemma shv_wputn n' w k : v_id n' - 1 = Z.of_nat k ->
    shv (wputn n' w) = Conserve2.set_ns (shv w) (upd (Conserve2.sh_ns (shv w)) k (v_id n', v_pop n', v_qs n')).
  Proof. intros E. unfold shv, Conserve2.set_ns. rewrite (wputn_ns _ _ _ E). cbn. rewrite upd_map. reflexivity. Qed.
  Lemma idx_k w k n : idxv w -> nth_error (w_ns w) k = Some n -> v_id n - 1 = Z.of_nat k.
  Proof. intros HI Hk. rewrite (HI _ _ Hk). lia. Qed.
  Lemma vmof_other w k k' n n' vm : idxv w -> nth_error (w_ns w) k = Some n -> nth_error (w_ns w) k' = Some n' -> k' <> k ->
    vmof (Some (v_id n, vm)) (v_id n') = [].
  Proof.
    intros HI Hk Hk' Hne. cbn. destruct (v_id n =? v_id n') eqn:E; [|reflexivity]. apply Z.eqb_eq in E.
    rewrite (HI _ _ Hk), (HI _ _ Hk') in E. lia.
  Qed.

  (* customer i is taken out of a queue of node k: it stays, for the time being, a (virtual) customer of that node *)
  Lemma LV_rm fl xs w k n n' i :
    LV fl None xs w -> nth_error (w_ns w) k = Some n ->
    v_id n' = v_id n -> v_pop n' = v_pop n - 1 -> Permutation (mem n) (i :: mem n') ->
    v_srv n' = v_srv n -> v_inf n' = v_inf n -> v_hi n' = v_hi n -> v_int n' = v_int n ->
    LV fl (Some (v_id n, i)) xs (wputn n' w).
  Proof.
    intros (HW & HN & HF & HLen) Hk Eid Epop HP E1 E2 E3 E4. pose proof (W_idx _ _ HW) as HI.
    assert (Ek : v_id n' - 1 = Z.of_nat k) by (rewrite Eid; eapply idx_k; eauto).
    split; [|split; [|split]].
    - rewrite (shv_wputn _ _ _ Ek). cbn [vmc app].
      eapply Conserve2.WFsh_rm; [exact HW|unfold shv; cbn; rewrite nth_error_map, Hk; reflexivity|cbn; exact Eid|cbn; exact Epop|exact HP].
    - intros k1 n1 nc Hk1 Hc. rewrite (wputn_ns _ _ _ Ek) in Hk1. destruct (nth_error_upd_cases _ _ _ _ _ Hk1) as [[-> ->]|[Hne Hk1']].
      + eapply NodeOK_cong; [exact E1|exact E2|exact E3|exact E4| |exact (HN _ _ _ Hk Hc)].
        intros i'. unfold memv. rewrite Eid, vmof_same. cbn [vmof]. rewrite app_nil_r, in_app_iff. cbn. split.
        * intros [H|[<-|[]]]; [eapply Permutation_in; [symmetry; exact HP|right; exact H]|eapply Permutation_in; [symmetry; exact HP|left; reflexivity]].
        * intros H. eapply Permutation_in in H; [|exact HP]. destruct H as [<-|H]; auto.
      + eapply NodeOK_cong; [reflexivity..| |exact (HN _ _ _ Hk1' Hc)].
        intros i'. unfold memv. rewrite (vmof_other w k k1 n n1 i HI Hk Hk1' Hne). cbn [vmof]. tauto.
    - exact HF.
    - rewrite (wputn_ns _ _ _ Ek), length_upd. exact HLen.
  Qed.
  (* the virtual customer has given up its server: it is in flight *)
  Lemma LV_vm_fl fl xs w j i :
    LV fl (Some (j, i)) xs w -> isvv w i = None -> (forall k n, nth_error (w_ns w) k = Some n -> v_id n = j -> v_inf n = false -> ~ In i (v_int n)) ->
    LV (i :: fl) None xs w.
  Proof.
    intros (HW & HN & HF & HLen) Hi Hint. split; [exact HW|]. split; [|split; [|exact HLen]].
    - intros k n nc Hk Hc. specialize (HN k n nc Hk Hc). destruct (Z.eq_dec (v_id n) j) as [E|E].
      + eapply NodeOK_rm; [reflexivity..| |exact Hi|eapply Hint; eauto|exact HN].
        intros i'. unfold memv. rewrite <- E, vmof_same. cbn [vmof]. rewrite app_nil_r, in_app_iff. cbn. intuition congruence.
      + eapply NodeOK_cong; [reflexivity..| |exact HN]. intros i'. unfold memv. cbn [vmof].
        destruct (j =? v_id n) eqn:E2; [apply Z.eqb_eq in E2; congruence|]. tauto.
    - intros i' [<-|Hi']; auto.
  Qed.
  (* customer i, in flight, is appended to a queue of node k *)
  Lemma LV_add fl xs w k n n' i :
    LV (i :: fl) None xs w -> nth_error (w_ns w) k = Some n ->
    v_id n' = v_id n -> v_pop n' = v_pop n + 1 -> Permutation (mem n') (i :: mem n) ->
    v_srv n' = v_srv n -> v_inf n' = v_inf n -> v_hi n' = v_hi n -> v_int n' = v_int n ->
    LV fl None xs (wputn n' w).
  Proof.
    intros (HW & HN & HF & HLen) Hk Eid Epop HP E1 E2 E3 E4. pose proof (W_idx _ _ HW) as HI. cbn [vmc app] in HW.
    assert (Ek : v_id n' - 1 = Z.of_nat k) by (rewrite Eid; eapply idx_k; eauto).
    split; [|split; [|split]].
    - rewrite (shv_wputn _ _ _ Ek). cbn [vmc app].
      eapply Conserve2.WFsh_add; [exact HW|unfold shv; cbn; rewrite nth_error_map, Hk; reflexivity|cbn; exact Eid|cbn; exact Epop|exact HP].
    - intros k1 n1 nc Hk1 Hc. rewrite (wputn_ns _ _ _ Ek) in Hk1. destruct (nth_error_upd_cases _ _ _ _ _ Hk1) as [[-> ->]|[Hne Hk1']].
      + eapply NodeOK_add with (i := i); [exact E1|exact E2|exact E3|exact E4| |apply HF; left; reflexivity|exact (HN _ _ _ Hk Hc)].
        intros i'. unfold memv. cbn [vmof]. rewrite !app_nil_r. split.
        * intros H. eapply Permutation_in in H; [|exact HP]. destruct H as [<-|H]; auto.
        * intros [->|H]; eapply Permutation_in; try (symmetry; exact HP); [left; reflexivity|right; exact H].
      + exact (HN _ _ _ Hk1' Hc).
    - intros i' Hi'. apply HF. right. exact Hi'.
    - rewrite (wputn_ns _ _ _ Ek), length_upd. exact HLen.
  Qed.
  (* the queues of node k are rearranged *)
  Lemma LV_mv fl vm xs w k n n' :
    LV fl vm xs w -> nth_error (w_ns w) k = Some n ->
    v_id n' = v_id n -> v_pop n' = v_pop n -> Permutation (mem n') (mem n) ->
    v_srv n' = v_srv n -> v_inf n' = v_inf n -> v_hi n' = v_hi n -> v_int n' = v_int n ->
    LV fl vm xs (wputn n' w).
  Proof.
    intros (HW & HN & HF & HLen) Hk Eid Epop HP E1 E2 E3 E4. pose proof (W_idx _ _ HW) as HI.
    assert (Ek : v_id n' - 1 = Z.of_nat k) by (rewrite Eid; eapply idx_k; eauto).
    split; [|split; [|split]].
    - rewrite (shv_wputn _ _ _ Ek).
      eapply Conserve2.WFsh_mv; [exact HW|unfold shv; cbn; rewrite nth_error_map, Hk; reflexivity|cbn; rewrite Eid, Epop; reflexivity|exact HP].
    - intros k1 n1 nc Hk1 Hc. rewrite (wputn_ns _ _ _ Ek) in Hk1. destruct (nth_error_upd_cases _ _ _ _ _ Hk1) as [[-> ->]|[Hne Hk1']].
      + eapply NodeOK_cong; [exact E1|exact E2|exact E3|exact E4| |exact (HN _ _ _ Hk Hc)].
        intros i'. unfold memv. rewrite Eid, !in_app_iff. split; (intros [H|H]; [left|right; exact H]).
        * eapply Permutation_in; eauto.
        * eapply Permutation_in; [symmetry; exact HP|exact H].
      + exact (HN _ _ _ Hk1' Hc).
    - exact HF.
    - rewrite (wputn_ns _ _ _ Ek), length_upd. exact HLen.
  Qed.
  (* the customer in flight reaches the exit: its record is deleted *)
  Lemma LV_exit fl xs w i :
    LV (i :: fl) None xs w -> LV fl None xs (mkVw (w_ns w) (w_ex w ++ [i]) (w_en w + 1) (w_cr w) (deliv i (w_is w))).
  Proof.
    intros (HW & HN & HF & HLen). cbn [vmc app] in HW.
    assert (Hin : In i (map fst (w_is w))) by (apply (W_rec _ _ _ HW); right; left; reflexivity).
    assert (Hag : forall i', i' <> i -> isvv (mkVw (w_ns w) (w_ex w ++ [i]) (w_en w + 1) (w_cr w) (deliv i (w_is w))) i' = isvv w i' /\
                                      iflag (mkVw (w_ns w) (w_ex w ++ [i]) (w_en w + 1) (w_cr w) (deliv i (w_is w))) i' = iflag w i').
    { intros i' Hne. apply isvv_fiv. cbn. apply fiv_deliv. exact Hne. }
    split; [|split; [|split; [|exact HLen]]].
    - cbn [vmc app]. apply (Conserve2.WFsh_exit fl (shv w) i); [exact HW|]. cbn. apply map_fst_deliv. exact Hin.
    - intros k n nc Hk Hc. cbn in Hk. eapply NodeOK_ext; [| |exact (HN _ _ _ Hk Hc)]; intros i' Hi'; apply Hag; intros ->;
        eapply (memv_fly (i :: fl) None w k n i); eauto; left; reflexivity.
    - intros i' Hi'. rewrite (proj1 (Hag i' ltac:(intros ->; apply W_fl_nodup in HW; inversion HW; contradiction))). apply HF. right. exact Hi'.
  Qed.
  (* a customer is created: the next identifier is in flight with a fresh record *)
  Lemma LV_spawn xs w :
    LV [] None xs w -> LV [w_cr w + 1] None xs (mkVw (w_ns w) (w_ex w) (w_en w) (w_cr w + 1) (putiv (w_cr w + 1, (None, false)) (w_is w))).
  Proof.
    intros (HW & HN & HF & HLen). cbn [vmc app] in HW.
    pose proof (Conserve2.WFsh_fresh _ HW) as Hfr. cbn in Hfr.
    set (w' := mkVw (w_ns w) (w_ex w) (w_en w) (w_cr w + 1) (putiv (w_cr w + 1, (None, false)) (w_is w))).
    assert (Hag : forall i', i' <> w_cr w + 1 -> isvv w' i' = isvv w i' /\ iflag w' i' = iflag w i').
    { intros i' Hne. apply isvv_fiv. unfold w'. cbn [w_is]. rewrite fiv_putiv. cbn [fst].
      destruct (w_cr w + 1 =? i') eqn:E; [apply Z.eqb_eq in E; congruence|reflexivity]. }
    split; [|split; [|split; [|exact HLen]]].
    - cbn [vmc app]. pose proof (Conserve2.WFsh_spawn _ HW) as HS. cbn in HS. unfold shv, w'. cbn.
      rewrite map_fst_putiv_new; [exact HS|exact Hfr].
    - intros k n nc Hk Hc. unfold w' in Hk. cbn in Hk. eapply NodeOK_ext; [| |exact (HN _ _ _ Hk Hc)]; intros i' Hi'; apply Hag; intros ->;
        apply Hfr; apply (W_rec _ _ _ HW); left; unfold memv in Hi'; cbn [vmof] in Hi'; rewrite app_nil_r in Hi'; eapply in_mem_all; eauto.
    - intros i' [<-|[]]. unfold isvv, w'. cbn [w_is]. rewrite fiv_putiv. cbn [fst snd]. rewrite Z.eqb_refl. reflexivity.
  Qed.

  (* ====================================================================================================================== *)
  (* Part 4.  A Hoare logic whose assertions are predicates on views                                                      *)
  (* ====================================================================================================================== *)
  Definition ht {X} (P : view -> Prop) (m : M X) (Q : X -> view -> Prop) : Prop :=
    forall s a s', idxv (VW s) -> P (VW s) -> m s = Ok (a, s') -> idxv (VW s') /\ Q a (VW s').

  Definition wnode (w : view) (j : Z) : option nview := if j <? 1 then None else nthZ (w_ns w) (j - 1).
  Definition cur (j : Z) (nd : node) (w : view) : Prop := n_id nd = j /\ wnode w j = Some (nv nd).
  Definition curi (i : Z) (x : ind) (w : view) : Prop := i_id x = i /\ fiv i (w_is w) = Some (i_server x, i_interrupted x).

  Lemma wnode_nth w j n : wnode w j = Some n -> exists k, j - 1 = Z.of_nat k /\ nth_error (w_ns w) k = Some n.
  Proof. unfold wnode. destruct (j <? 1); [discriminate|]. intros H. apply nthZ_nat in H as (k & Hk & H). eauto. Qed.
  Lemma wnode_id w j n : idxv w -> wnode w j = Some n -> v_id n = j.
  Proof. intros HI H. apply wnode_nth in H as (k & Hk & H). rewrite (HI _ _ H). lia. Qed.
  Lemma nth_wnode w k n : idxv w -> nth_error (w_ns w) k = Some n -> wnode w (v_id n) = Some n.
  Proof.
    intros HI H. unfold wnode. rewrite (HI _ _ H). destruct (Z.of_nat k + 1 <? 1) eqn:E; [apply Z.ltb_lt in E; lia|].
    replace (Z.of_nat k + 1 - 1) with (Z.of_nat k) by lia. rewrite nthZ_of_nat. exact H.
  Qed.

  Lemma ht_bind {X Y} P (m : M X) (f : X -> M Y) Q R : ht P m Q -> (forall a, ht (Q a) (f a) R) -> ht P (bind m f) R.
  Proof.
    intros Hm Hf s b s' HI HP H. unfold bind in H. destruct (m s) as [[a s1]| |] eqn:E; try discriminate.
    destruct (Hm _ _ _ HI HP E) as [HI1 HQ]. eapply Hf; eauto.
  Qed.
  Lemma ht_pre {X} (P P' : view -> Prop) (m : M X) Q : (forall w, idxv w -> P' w -> P w) -> ht P m Q -> ht P' m Q.
  Proof. intros HP H s a s' HI HP' E. eapply H; eauto. Qed.
  Lemma ht_post {X} P (m : M X) (Q Q' : X -> view -> Prop) : ht P m Q -> (forall a w, idxv w -> Q a w -> Q' a w) -> ht P m Q'.
  Proof. intros H HQ s a s' HI HP E. destruct (H _ _ _ HI HP E) as [H1 H2]. split; [exact H1|apply HQ; assumption]. Qed.
  Lemma ht_K {X} P (m : M X) : PV KT m -> ht P m (fun _ => P).
  Proof. intros Hm s a s' HI HP E. rewrite (Hm _ _ _ HI I E). auto. Qed.
  Lemma ht_ret {X} P (a : X) : ht P (ret a) (fun b w => P w /\ b = a).
  Proof. intros s b s' HI HP E. unfold ret in E. injection E as <- <-. auto. Qed.
  Lemma ht_fail {X} P e Q : ht P (@fail X e) Q.
  Proof. intros s b s' _ _ E. discriminate. Qed.
  Lemma ht_oof {X} P Q : ht P (@oof X) Q.
  Proof. intros s b s' _ _ E. discriminate. Qed.
  Lemma ht_lift {X} P e (o : option X) : ht P (lift e o) (fun a w => P w /\ o = Some a).
  Proof. destruct o as [x|]; intros s b s' HI HP E; inversion E. subst. auto. Qed.
  Lemma ht_lift_bind {X Y} P e (o : option X) (f : X -> M Y) R : (forall a, o = Some a -> ht P (f a) R) -> ht P (bind (lift e o) f) R.
  Proof. intros Hf s b s' HI HP E. unfold bind in E. destruct o as [x|]; cbn in E; [|discriminate]. eapply Hf; eauto. Qed.
  Lemma ht_get_node P j : ht P (get_node j) (fun nd w => P w /\ cur j nd w).
  Proof.
    intros s nd s' HI HP E. apply get_node_spec in E as (-> & Hj & Hn). split; [exact HI|]. split; [exact HP|].
    destruct (get_node_okn j s nd HI Hn) as [Hid Hok]. split; [exact Hid|]. unfold wnode. destruct (j <? 1) eqn:E; [apply Z.ltb_lt in E; lia|].
    cbn. rewrite nthZ_map, Hn. reflexivity.
  Qed.
  Lemma ht_get_ind P i : ht P (get_ind i) (fun x w => P w /\ curi i x w).
  Proof.
    intros s x s' HI HP E. apply get_ind_spec in E as (-> & Hi & Hx). split; [exact HI|]. split; [exact HP|]. split; [exact Hi|].
    cbn. rewrite fiv_find, Hx. reflexivity.
  Qed.
  Lemma ht_put_node P nd : ht P (put_node nd) (fun _ w => exists w0, idxv w0 /\ P w0 /\ w = wputn (nv nd) w0).
  Proof.
    intros s u s' HI HP E. unfold put_node, modify in E. inversion E. rewrite VW_put_node. split; [apply idxv_wputn; exact HI|eauto].
  Qed.
  Lemma ht_put_ind P x : ht P (put_ind x) (fun _ w => exists w0, idxv w0 /\ P w0 /\ w = wputi (iv x) w0).
  Proof.
    intros s u s' HI HP E. unfold put_ind, modify in E. inversion E. rewrite VW_put_ind. split; [exact HI|eauto].
  Qed.
  Lemma ht_false {X} (m : M X) Q : ht (fun _ => False) m Q.
  Proof. intros s a s' _ []. Qed.
  Lemma ht_forM {X} (P : view -> Prop) (f : X -> M unit) l : (forall a, ht P (f a) (fun _ => P)) -> ht P (forM_ l f) (fun _ => P).
  Proof.
    intros Hf. induction l as [|a r IH]; cbn [forM_]; [eapply ht_post; [apply ht_ret|intros ? ? _ [H _]; exact H]|].
    eapply ht_bind; [apply Hf|intros ?; exact IH].
  Qed.

  (* structural steps *)
  Ltac hk := apply ht_K; solve [pva].
  Ltac hstep :=
    match goal with
    | |- ht _ (bind (get_node _) _) _ => eapply ht_bind; [apply ht_get_node|intros ?]
    | |- ht _ (bind (get_ind _) _) _ => eapply ht_bind; [apply ht_get_ind|intros ?]
    | |- ht _ (bind (lift _ _) _) _ => eapply ht_bind; [apply ht_lift|intros ?]
    | |- ht _ (bind _ _) _ => eapply ht_bind; [hk|intros ?]
    end.


  (* ---------- node views with one component replaced ---------- *)
  Definition with_srv (n : nview) (l : list sview) : nview := mkNv (v_id n) (v_pop n) (v_qs n) l (v_inf n) (v_hi n) (v_int n).
  Definition with_int (n : nview) (l : list Z) : nview := mkNv (v_id n) (v_pop n) (v_qs n) (v_srv n) (v_inf n) (v_hi n) l.
  Definition with_new (n : nview) : nview :=
    mkNv (v_id n) (v_pop n) (v_qs n) (v_srv n ++ [mkSv (v_hi n + 1) None false false]) (v_inf n) (v_hi n + 1) (v_int n).

  Lemma NodeOK_lift nc vm xs n n' f f' g g' :
    v_id n' = v_id n -> v_qs n' = v_qs n -> v_inf n = false -> v_inf n' = false ->
    (nc_slotted nc = true -> v_int n = [] /\ v_srv n = [] -> v_int n' = [] /\ v_srv n' = []) ->
    (nc_slotted nc = false -> FinOK (nc_preempt nc) xs (memv vm n) (v_srv n) (v_hi n) (v_int n) f g ->
       FinOK (nc_preempt nc) xs (memv vm n) (v_srv n') (v_hi n') (v_int n') f' g') ->
    NodeOK nc vm xs n f g -> NodeOK nc vm xs n' f' g'.
  Proof.
    intros Eid Eqs Hi Hi' Hs Hf. assert (Em : memv vm n' = memv vm n) by (unfold memv, mem; rewrite Eid, Eqs; reflexivity).
    unfold NodeOK, nc_slotted in *. rewrite Em, Hi, Hi'. destruct (nc_srv nc); auto. intros [_ H]. auto.
  Qed.

  (* ---------- the three functions that change the link between servers and customers, as view transformers ---------- *)
  Definition attv (j sid i : Z) (w : view) : view :=
    match wnode w j, fiv i (w_is w) with
    | Some n, Some ob =>
      wputi (i, (Some sid, snd ob))
        (match fsv sid (v_srv n) with
         | Some t => wputn (with_srv n (putsv (mkSv (s_id t) (Some i) true (s_off t)) (v_srv n))) w
         | None => w end)
    | _, _ => w
    end.
  Definition killn (sid : Z) (n : nview) : nview := with_srv n (delsv sid (v_srv n)).
  Definition detv (j sid i : Z) (w : view) : view :=
    match wnode w j, fiv i (w_is w) with
    | Some n, Some ob =>
      let w1 := wputi (i, (None, snd ob)) w in
      match fsv sid (v_srv n) with
      | None => w1
      | Some t =>
        let n1 := with_srv n (putsv (mkSv (s_id t) None false (s_off t)) (v_srv n)) in
        if s_off t then wputn (killn sid n1) w1 else wputn n1 w1
      end
    | _, _ => w
    end.
  Definition killv (j sid : Z) (w : view) : view :=
    match wnode w j with Some n => wputn (killn sid n) w | None => w end.

  Ltac minv H a s1 E :=
    match type of H with
    | bind ?m ?f ?s = Ok _ => unfold bind in H at 1; destruct (m s) as [[a s1]| |] eqn:E; [|discriminate H|discriminate H]
    end.
  Lemma ret_inv {A} (a b : A) s s' : ret a s = Ok (b, s') -> b = a /\ s' = s.
  Proof. unfold ret. intros H. injection H as <- <-. auto. Qed.
  Lemma gets_inv {A} (f : sim -> A) b s s' : gets f s = Ok (b, s') -> b = f s /\ s' = s.
  Proof. unfold gets. intros H. injection H as <- <-. auto. Qed.
  Lemma modify_inv f u s s' : modify f s = Ok (u, s') -> s' = f s.
  Proof. unfold modify. intros H. injection H as <- <-. auto. Qed.
  Lemma lift_inv {A} e (o : option A) a s s' : lift e o s = Ok (a, s') -> o = Some a /\ s' = s.
  Proof. destruct o as [x|]; cbn; unfold ret, fail; intros H; [injection H as <- <-; auto|discriminate]. Qed.

  Lemma wnode_VW s j nd : 1 <= j -> nthZ (nodes s) (j - 1) = Some nd -> wnode (VW s) j = Some (nv nd).
  Proof. intros Hj Hn. unfold wnode. destruct (j <? 1) eqn:E; [apply Z.ltb_lt in E; lia|]. cbn. rewrite nthZ_map, Hn. reflexivity. Qed.
  Lemma fiv_VW s i x : find_ind i (inds s) = Some x -> fiv i (w_is (VW s)) = Some (i_server x, i_interrupted x).
  Proof. intros H. cbn. rewrite fiv_find, H. reflexivity. Qed.

  Lemma upd_upd {A} (l : list A) k a b : upd (upd l k a) k b = upd l k b.
  Proof. revert k; induction l as [|h t IH]; intros [|k]; cbn; try reflexivity. f_equal. apply IH. Qed.
  Lemma wputn_wputn n1 n2 w : v_id n2 = v_id n1 -> wputn n2 (wputn n1 w) = wputn n2 w.
  Proof.
    intros E. unfold wputn, set_ns. cbn. f_equal. rewrite E. unfold updZ. destruct (v_id n1 - 1 <? 0); [reflexivity|]. apply upd_upd.
  Qed.

  Lemma kill_server_vw j sid s u s' : kill_server j sid s = Ok (u, s') -> idxv (VW s) ->
    VW s' = killv j sid (VW s) /\ exists n t, wnode (VW s) j = Some n /\ fsv sid (v_srv n) = Some t.
  Proof.
    intros H HI. unfold kill_server in H.
    minv H t s1 E1. apply gets_inv in E1 as [-> ->].
    minv H nd s1 E2. apply get_node_spec in E2 as (-> & Hj & Hn).
    minv H sv s1 E3. apply lift_inv in E3 as [Hf ->].
    unfold put_node in H. apply modify_inv in H. rewrite H.
    destruct (get_node_okn j s nd HI Hn) as [Hid _].
    cbv zeta. rewrite VW_put_node. unfold killv. rewrite (wnode_VW s j nd Hj Hn). split.
    - f_equal. unfold nv, killn, with_srv. cbn. rewrite map_sc_del. reflexivity.
    - exists (nv nd), (sc sv). split; [reflexivity|]. cbn. rewrite fsv_find, Hf. reflexivity.
  Qed.

  Lemma attach_server_vw j sid i s u s' : attach_server j sid i s = Ok (u, s') -> idxv (VW s) ->
    VW s' = attv j sid i (VW s) /\ exists n ob, wnode (VW s) j = Some n /\ fiv i (w_is (VW s)) = Some ob.
  Proof.
    intros H HI. unfold attach_server, upd_server, upd_ind in H.
    minv H u1 s1 E1. minv E1 nd s0 E0. apply get_node_spec in E0 as (-> & Hj & Hn).
    assert (Hs1 : VW s1 = match fsv sid (v_srv (nv nd)) with
                          | Some t => wputn (with_srv (nv nd) (putsv (mkSv (s_id t) (Some i) true (s_off t)) (v_srv (nv nd)))) (VW s)
                          | None => VW s end /\ inds s1 = inds s).
    { cbn [v_srv nv]. rewrite fsv_find. destruct (find_server sid (n_servers nd)) as [sv|] eqn:Ef; cbn [option_map].
      - unfold put_node in E1. apply modify_inv in E1. rewrite E1. split; [|reflexivity]. rewrite VW_put_node. f_equal.
        unfold nv, with_srv. cbn. rewrite map_sc_put. reflexivity.
      - apply ret_inv in E1 as [_ ->]. auto. }
    destruct Hs1 as [Hs1 Hi1]. clear E1.
    minv H x s2 E2. apply get_ind_spec in E2 as (-> & Hix & Hx). rewrite Hi1 in Hx.
    unfold put_ind in H. apply modify_inv in H. rewrite H, VW_put_ind, Hs1. unfold attv.
    rewrite (wnode_VW s j nd Hj Hn), (fiv_VW s i x Hx). split; [|eauto]. unfold iv. cbn. rewrite Hix. reflexivity.
  Qed.

  Lemma detatch_server_vw j sid i s u s' : detatch_server j sid i s = Ok (u, s') -> idxv (VW s) ->
    VW s' = detv j sid i (VW s) /\ exists n ob, wnode (VW s) j = Some n /\ fiv i (w_is (VW s)) = Some ob.
  Proof.
    intros H HI. unfold detatch_server in H.
    minv H t s1 E1. apply gets_inv in E1 as [-> ->].
    minv H nd s1 E2. apply get_node_spec in E2 as (-> & Hj & Hn).
    minv H x s1 E3. apply get_ind_spec in E3 as (-> & Hix & Hx).
    minv H u1 s1 E4. unfold put_ind in E4. apply modify_inv in E4.
    assert (V1 : VW s1 = wputi (i, (None, i_interrupted x)) (VW s)) by (rewrite E4, VW_put_ind; unfold iv; cbn; rewrite Hix; reflexivity).
    assert (HI1 : idxv (VW s1)) by (rewrite V1; exact HI).
    unfold detv. rewrite (wnode_VW s j nd Hj Hn), (fiv_VW s i x Hx). cbn [snd]. split; [|eauto].
    cbn [v_srv nv]. rewrite fsv_find. destruct (find_server sid (n_servers nd)) as [sv|] eqn:Ef; cbn [option_map].
    - minv H u2 s2 E5. unfold put_node in E5. apply modify_inv in E5.
      set (sv' := sv <| sv_cust := None |> <| sv_busy := false |>
                     <| sv_busy_time := sv_busy_time sv - sv_wrapped sv + (numo (i_exit x) - numo (i_sst x)) |> <| sv_wrapped := 0 |>
                     <| sv_total_time := Some (now s - sv_start sv) |>) in *.
      set (nd1 := nd <| n_servers := put_server_l sv' (n_servers nd) |>) in *.
      assert (V2 : VW s2 = wputn (with_srv (nv nd) (putsv (mkSv (sv_id sv) None false (sv_offduty sv)) (map sc (n_servers nd)))) (VW s1)).
      { rewrite E5, VW_put_node. f_equal. unfold nv, with_srv, nd1. cbn. rewrite map_sc_put. reflexivity. }
      cbn [s_id s_off sc]. destruct (sv_offduty sv) eqn:Eo.
      + assert (HI2 : idxv (VW s2)) by (rewrite V2; apply idxv_wputn; exact HI1).
        destruct (kill_server_vw _ _ _ _ _ H HI2) as [V3 _]. rewrite V3, V2. unfold killv.
        assert (Hid : n_id nd = j) by (apply (get_node_okn j s nd HI Hn)).
        assert (Hw : wnode (wputn (with_srv (nv nd) (putsv (mkSv (sv_id sv) None false true) (map sc (n_servers nd)))) (VW s1)) j
                     = Some (with_srv (nv nd) (putsv (mkSv (sv_id sv) None false true) (map sc (n_servers nd))))).
        { unfold wnode, wputn. destruct (j <? 1) eqn:E; [apply Z.ltb_lt in E; lia|]. cbn [w_ns set_ns with_srv v_id nv]. rewrite Hid.
          destruct (nthZ_nat _ _ _ Hn) as (k & Hk & Hnk). rewrite Hk, updZ_nat, nthZ_of_nat.
          eapply nth_error_upd_eq. rewrite V1. cbn. rewrite nth_error_map, Hnk. reflexivity. }
        rewrite Hw, V1. apply wputn_wputn. reflexivity.
      + apply ret_inv in H as [_ ->]. rewrite V2, V1. reflexivity.
    - apply ret_inv in H as [_ ->]. exact V1.
  Qed.


  (* ---------- the link invariant under the three transformers ---------- *)
  Lemma fiv_some i (l : list (Z * ient)) : In i (map fst l) -> exists o, fiv i l = Some o.
  Proof.
    induction l as [|[k o] r IH]; cbn; [intros []|]. destruct (k =? i) eqn:E; [eauto|]. intros [H|H]; [apply Z.eqb_neq in E; contradiction|auto].
  Qed.
  Lemma isvv_wputi c o b w i : isvv (wputi (c, (o, b)) w) i = if c =? i then o else isvv w i.
  Proof. unfold isvv, wputi. cbn [w_is set_is]. rewrite fiv_putiv. cbn [fst snd]. destruct (c =? i); reflexivity. Qed.
  Lemma iflag_wputi c o b w i : iflag (wputi (c, (o, b)) w) i = if c =? i then b else iflag w i.
  Proof. unfold iflag, wputi. cbn [w_is set_is]. rewrite fiv_putiv. cbn [fst snd]. destruct (c =? i); reflexivity. Qed.
  Lemma memv_rec fl vm xs w k n i : LV fl vm xs w -> nth_error (w_ns w) k = Some n -> In i (memv vm n) -> In i (map fst (w_is w)).
  Proof.
    intros (HW & _) Hk Hi. apply (W_rec _ _ _ HW). unfold memv in Hi. apply in_app_or in Hi as [Hi|Hi].
    - left. eapply in_mem_all; eauto.
    - right. apply vmof_in in Hi. subst vm. left. reflexivity.
  Qed.
  Lemma fsv_putsv t l i : fsv i (putsv t l) = if s_id t =? i then (match fsv i l with Some _ => Some t | None => None end) else fsv i l.
  Proof.
    induction l as [|y r IH]; cbn; [destruct (s_id t =? i); reflexivity|]. destruct (s_id y =? s_id t) eqn:E; cbn.
    - apply Z.eqb_eq in E. rewrite E. destruct (s_id t =? i); reflexivity.
    - destruct (s_id y =? i) eqn:E2.
      + apply Z.eqb_eq in E2. subst i. rewrite Z.eqb_sym, E. reflexivity.
      + exact IH.
  Qed.
  Lemma fsv_delsv_neq i i' l : i <> i' -> fsv i (delsv i' l) = fsv i l.
  Proof.
    intros Hne. induction l as [|y r IH]; cbn; [reflexivity|]. destruct (s_id y =? i') eqn:E; cbn.
    - apply Z.eqb_eq in E. destruct (s_id y =? i) eqn:E2; [apply Z.eqb_eq in E2; congruence|reflexivity].
    - destruct (s_id y =? i); [reflexivity|exact IH].
  Qed.
  Lemma fsv_delsv_eq i l : NoDup (sids l) -> fsv i (delsv i l) = None.
  Proof. intros HN. apply fsv_None. rewrite in_sids_delsv by exact HN. tauto. Qed.

  Lemma LV_step_io fl vm xs w k n n' c o b :
    LV fl vm xs w -> nth_error (w_ns w) k = Some n -> In c (memv vm n) ->
    v_id n' = v_id n -> v_pop n' = v_pop n -> v_qs n' = v_qs n ->
    (forall nc, nth_error (cf_nodes cf) k = Some nc -> NodeOK nc vm xs n (isvv w) (iflag w) ->
       NodeOK nc vm xs n' (fun i => if c =? i then o else isvv w i) (fun i => if c =? i then b else iflag w i)) ->
    LV fl vm xs (wputi (c, (o, b)) (wputn n' w)).
  Proof.
    intros HL Hk Hc Eid Epop Eqs Hnode. pose proof (LV_idx _ _ _ _ HL) as HI.
    assert (Ek : v_id n' - 1 = Z.of_nat k) by (rewrite Eid; eapply idx_k; eauto).
    eapply LV_step with (k := k) (n := n) (n' := n'); try exact HL; try exact Hk; try assumption; try reflexivity.
    - cbn. rewrite Ek, updZ_nat. reflexivity.
    - cbn. apply map_fst_putiv_in. cbn. eapply memv_rec; eauto.
    - intros i Hi. cbn. rewrite fiv_putiv. cbn. destruct (c =? i) eqn:E; [apply Z.eqb_eq in E; subst i; contradiction|reflexivity].
    - intros nc Hnc HN. eapply NodeOK_ext; [| |exact (Hnode nc Hnc HN)]; intros i _; [rewrite isvv_wputi|rewrite iflag_wputi]; reflexivity.
  Qed.
  Lemma LV_step_n fl vm xs w k n n' :
    LV fl vm xs w -> nth_error (w_ns w) k = Some n ->
    v_id n' = v_id n -> v_pop n' = v_pop n -> v_qs n' = v_qs n ->
    (forall nc, nth_error (cf_nodes cf) k = Some nc -> NodeOK nc vm xs n (isvv w) (iflag w) -> NodeOK nc vm xs n' (isvv w) (iflag w)) ->
    LV fl vm xs (wputn n' w).
  Proof.
    intros HL Hk Eid Epop Eqs Hnode. pose proof (LV_idx _ _ _ _ HL) as HI.
    assert (Ek : v_id n' - 1 = Z.of_nat k) by (rewrite Eid; eapply idx_k; eauto).
    eapply LV_step with (k := k) (n := n) (n' := n'); try exact HL; try exact Hk; try assumption; try reflexivity.
    cbn. rewrite Ek, updZ_nat. reflexivity.
  Qed.

  Definition unl (w : view) (n : nview) (c : Z) : Prop := isvv w c = None \/ exists k, isvv w c = Some k /\ ~ In k (sids (v_srv n)).

  Lemma LV_attv fl vm xs w j n sid t0 c :
    LV fl vm xs w -> wnode w j = Some n -> v_inf n = false -> fsv sid (v_srv n) = Some t0 -> s_cust t0 = None ->
    In c (memv vm n) -> unl w n c -> (In c (v_int n) -> In c xs) -> LV fl vm xs (attv j sid c w).
  Proof.
    intros HL Hn Hinf Hfs Hc0 Hc Hunl Hcx. destruct (wnode_nth _ _ _ Hn) as (k & Hjk & Hk).
    destruct (fiv_some c (w_is w) (memv_rec _ _ _ _ _ _ _ HL Hk Hc)) as (ob & Hob).
    unfold attv. rewrite Hn, Hob, Hfs. destruct (fsv_id _ _ _ Hfs) as [Hsid Ht0].
    eapply LV_step_io; [exact HL|exact Hk|exact Hc|reflexivity..|].
    intros nc Hnc. apply NodeOK_lift; try reflexivity; try exact Hinf.
    - intros _ [_ E]. rewrite E in Ht0. destruct Ht0.
    - intros _ HF. cbn [with_srv v_srv v_hi v_int]. rewrite Hsid.
      assert (Hnl : forall t, In t (v_srv n) -> s_cust t <> Some c).
      { intros t Ht Hcu. destruct (fo_cust _ _ _ _ _ _ _ _ HF t c Ht Hcu) as [_ Hf]. destruct Hunl as [Hu|(k' & Hu & Hs)]; [congruence|].
        rewrite Hf in Hu. injection Hu as <-. apply Hs. apply in_map. exact Ht. }
      pose proof (FinOK_attach _ _ _ _ _ _ _ (fun i => if c =? i then Some sid else isvv w i) _ c t0 HF Ht0 Hc0 Hc Hnl Hcx) as HA.
      rewrite Hsid in HA. eapply FinOK_ext; [| | |apply HA].
      + tauto.
      + reflexivity.
      + intros i _. cbn. unfold iflag. destruct (c =? i) eqn:E; [apply Z.eqb_eq in E; subst i; rewrite Hob|]; reflexivity.
      + intros i. rewrite (Z.eqb_sym i c). reflexivity.
  Qed.

  Lemma LV_killv fl vm xs w j n sid t :
    LV fl vm xs w -> wnode w j = Some n -> v_inf n = false -> fsv sid (v_srv n) = Some t -> (forall c, s_cust t = Some c -> In c xs) ->
    LV fl vm xs (killv j sid w).
  Proof.
    intros HL Hn Hinf Hfs Hcx. destruct (wnode_nth _ _ _ Hn) as (k & Hjk & Hk). unfold killv. rewrite Hn.
    eapply LV_step_n; [exact HL|exact Hk|reflexivity..|].
    intros nc Hnc. apply NodeOK_lift; try reflexivity; try exact Hinf.
    - intros _ [_ E]. rewrite E in Hfs. discriminate.
    - intros _ HF. cbn. eapply FinOK_kill; eauto.
  Qed.

  Lemma LV_detv fl vm xs w j n sid i :
    LV fl vm xs w -> wnode w j = Some n -> v_inf n = false -> In i (memv vm n) -> isvv w i = Some sid -> ~ In i (v_int n) ->
    LV fl vm xs (detv j sid i w).
  Proof.
    intros HL Hn Hinf Hi Hf Hni. destruct (wnode_nth _ _ _ Hn) as (k & Hjk & Hk).
    destruct (fiv_some i (w_is w) (memv_rec _ _ _ _ _ _ _ HL Hk Hi)) as (ob & Hob).
    assert (Hg : forall i', (if i =? i' then snd ob else iflag w i') = iflag w i').
    { intros i'. unfold iflag. destruct (i =? i') eqn:E; [apply Z.eqb_eq in E; subst i'; rewrite Hob|]; reflexivity. }
    unfold detv. rewrite Hn, Hob. cbv zeta. destruct (fsv sid (v_srv n)) as [t|] eqn:Hfs.
    - destruct (fsv_id _ _ _ Hfs) as [Hsid Ht].
      set (n1 := with_srv n (putsv (mkSv (s_id t) None false (s_off t)) (v_srv n))).
      assert (H1 : LV fl vm xs (wputn n1 (wputi (i, (None, snd ob)) w))).
      { replace (wputn n1 (wputi (i, (None, snd ob)) w)) with (wputi (i, (None, snd ob)) (wputn n1 w)) by reflexivity.
        eapply LV_step_io; [exact HL|exact Hk|exact Hi|reflexivity..|].
        intros nc Hnc. apply NodeOK_lift; try reflexivity; try exact Hinf.
        - intros _ [_ E]. rewrite E in Ht. destruct Ht.
        - intros _ HF. cbn [n1 with_srv v_srv v_hi v_int].
          eapply FinOK_ext; [| | |eapply (FinOK_detach _ _ _ _ _ _ _ (fun i' => if i =? i' then None else isvv w i') _ i sid t HF Hi Hf Hfs Hni)].
          + tauto.
          + reflexivity.
          + intros i' _. apply Hg.
          + intros i'. rewrite (Z.eqb_sym i' i). reflexivity. }
      destruct (s_off t) eqn:Eo; [|exact H1].
      assert (Hn1 : wnode (wputn n1 (wputi (i, (None, snd ob)) w)) j = Some n1).
      { unfold wnode, wputn. destruct (j <? 1) eqn:E; [unfold wnode in Hn; rewrite E in Hn; discriminate|].
        cbn [w_ns set_ns wputi set_is n1 with_srv v_id]. rewrite (wnode_id _ _ _ (LV_idx _ _ _ _ HL) Hn).
        rewrite Hjk, updZ_nat, nthZ_of_nat. eapply nth_error_upd_eq. exact Hk. }
      replace (wputn (killn sid n1) (wputi (i, (None, snd ob)) w)) with (killv j sid (wputn n1 (wputi (i, (None, snd ob)) w))).
      + eapply LV_killv; [exact H1|exact Hn1|exact Hinf| |].
        * cbn [n1 with_srv v_srv]. rewrite fsv_putsv. cbn [s_id]. rewrite Hsid, Z.eqb_refl, Hfs. reflexivity.
        * cbn. discriminate.
      + unfold killv. rewrite Hn1. apply wputn_wputn. reflexivity.
    - replace (wputi (i, (None, snd ob)) w) with (wputi (i, (None, snd ob)) (wputn n w)).
      + eapply LV_step_io; [exact HL|exact Hk|exact Hi|reflexivity..|].
        intros nc Hnc. apply NodeOK_lift; try reflexivity; try exact Hinf; [tauto|].
        intros _ HF. eapply FinOK_ext; [| | |eapply (FinOK_detach_stale _ _ _ _ _ _ _ (fun i' => if i =? i' then None else isvv w i') _ i sid HF Hf Hfs Hni)].
        * tauto.
        * reflexivity.
        * intros i' _. apply Hg.
        * intros i'. rewrite (Z.eqb_sym i' i). reflexivity.
      + f_equal. apply wputn_same. rewrite (wnode_id _ _ _ (LV_idx _ _ _ _ HL) Hn). unfold wnode in Hn. destruct (j <? 1); [discriminate|exact Hn].
  Qed.


  (* ====================================================================================================================== *)
  (* The non-idling invariant (C05) on views.  ej = a node that is exempt (in the middle of a shift change), hs = servers     *)
  (* (node, id) that may be idle although somebody waits, wx = customers not counted as waiting (inside an event)           *)
  (* ====================================================================================================================== *)
  Definition waitv (w : view) (c : Z) : Prop := exists b, fiv c (w_is w) = Some (None, b).
  Definition NIv (ej : Z) (hs : list (Z * Z)) (wx : list Z) (w : view) : Prop :=
    forall k n nc, nth_error (w_ns w) k = Some n -> nth_error (cf_nodes cf) k = Some nc -> nc_slotted nc = false -> v_inf n = false -> v_id n <> ej ->
      (exists c, In c (mem n) /\ ~ In c wx /\ waitv w c) ->
      forall t, In t (v_srv n) -> s_off t = false -> ~ In (v_id n, s_id t) hs -> s_busy t = true.
  (* the invariant of the walk: the link invariant, and (when b = true) the non-idling invariant *)
  Definition LN (b : bool) (fl : list Z) (vm : option (Z * Z)) (xs : list Z) (ej : Z) (hs : list (Z * Z)) (wx : list Z) (w : view) : Prop :=
    LV fl vm xs w /\ (b = true -> NIv ej hs wx w).

  Lemma N_mono ej hs hs' wx wx' w : (forall h, In h hs -> In h hs') -> (forall c, In c wx -> In c wx') -> NIv ej hs wx w -> NIv ej hs' wx' w.
  Proof.
    intros Hh Hw H k n nc Hk Hc Hs Hi He (c & Hc1 & Hc2 & Hc3) t Ht Ho Hn.
    refine (H k n nc Hk Hc Hs Hi He _ t Ht Ho _); [|intros F; apply Hn, Hh, F].
    exists c. split; [exact Hc1|]. split; [|exact Hc3]. intros F. apply Hc2, Hw, F.
  Qed.
  Lemma mem_memv vm n c : In c (mem n) -> In c (memv vm n).
  Proof. intros H. unfold memv. apply in_or_app. left. exact H. Qed.

  Lemma N_step fl vm xs ej hs hs' wx wx' w w' k n n' :
    LV fl vm xs w -> NIv ej hs wx w -> nth_error (w_ns w) k = Some n -> w_ns w' = upd (w_ns w) k n' -> v_id n' = v_id n ->
    (forall i, ~ In i (memv vm n) -> fiv i (w_is w') = fiv i (w_is w)) ->
    (forall h, In h hs -> fst h <> v_id n -> In h hs') -> (forall c, In c wx -> In c wx') ->
    (forall nc, nth_error (cf_nodes cf) k = Some nc -> nc_slotted nc = false -> v_inf n' = false -> v_id n <> ej ->
       (exists c, In c (mem n') /\ ~ In c wx' /\ waitv w' c) ->
       forall t, In t (v_srv n') -> s_off t = false -> ~ In (v_id n, s_id t) hs' -> s_busy t = true) ->
    NIv ej hs' wx' w'.
  Proof.
    intros HL HN Hk Ens Eid Hoth Hh Hw Hnode k1 n1 nc Hk1 Hc Hs Hi He Hex t Ht Ho Hnh.
    pose proof (LV_idx _ _ _ _ HL) as HI. destruct HL as (HW & _).
    rewrite Ens in Hk1. destruct (nth_error_upd_cases _ _ _ _ _ Hk1) as [[-> ->]|[Hne Hk1']].
    - rewrite Eid in *. exact (Hnode nc Hc Hs Hi He Hex t Ht Ho Hnh).
    - destruct Hex as (c & Hc1 & Hc2 & (bb & Hc3)).
      assert (Hcn : ~ In c (memv vm n)).
      { intros F. apply Hne. eapply (memv_one _ vm w k1 k n1 n c HW Hk1' Hk); [apply mem_memv; exact Hc1|exact F]. }
      refine (HN k1 n1 nc Hk1' Hc Hs Hi He _ t Ht Ho _).
      + exists c. split; [exact Hc1|]. split; [intros F; apply Hc2, Hw, F|]. exists bb. rewrite <- (Hoth c Hcn). exact Hc3.
      + intros F. apply Hnh. apply Hh; [exact F|]. cbn. rewrite (HI _ _ Hk1'), (HI _ _ Hk). lia.
  Qed.

  (* the node is replaced by one with the same servers and no new customer *)
  Lemma N_node fl vm xs ej hs wx w k n n' :
    LV fl vm xs w -> NIv ej hs wx w -> nth_error (w_ns w) k = Some n -> v_id n' = v_id n -> v_srv n' = v_srv n -> v_inf n' = v_inf n ->
    (forall c, In c (mem n') -> In c (mem n)) -> NIv ej hs wx (wputn n' w).
  Proof.
    intros HL HN Hk Eid Es Ei Hm. pose proof (LV_idx _ _ _ _ HL) as HI.
    assert (Ek : v_id n' - 1 = Z.of_nat k) by (rewrite Eid; eapply idx_k; eauto).
    eapply N_step with (k := k) (n := n) (n' := n') (hs := hs) (wx := wx); try exact HL; try exact HN; try exact Hk; try exact Eid; auto.
    - apply wputn_ns. exact Ek.
    - intros nc Hc Hs Hi He (c & Hc1 & Hc2 & Hc3) t Ht Ho Hnh. rewrite Es in Ht. rewrite Ei in Hi.
      refine (HN k n nc Hk Hc Hs Hi He _ t Ht Ho Hnh). exists c. split; [apply Hm; exact Hc1|]. split; [exact Hc2|exact Hc3].
  Qed.
  (* a customer joins the node: it is not counted yet *)
  Lemma N_add fl vm xs ej hs wx w k n n' i :
    LV fl vm xs w -> NIv ej hs wx w -> nth_error (w_ns w) k = Some n -> v_id n' = v_id n -> v_srv n' = v_srv n -> v_inf n' = v_inf n ->
    (forall c, In c (mem n') -> c = i \/ In c (mem n)) -> NIv ej hs (i :: wx) (wputn n' w).
  Proof.
    intros HL HN Hk Eid Es Ei Hm. pose proof (LV_idx _ _ _ _ HL) as HI.
    assert (Ek : v_id n' - 1 = Z.of_nat k) by (rewrite Eid; eapply idx_k; eauto).
    eapply N_step with (k := k) (n := n) (n' := n') (hs := hs) (wx := wx); try exact HL; try exact HN; try exact Hk; try exact Eid; auto.
    - apply wputn_ns. exact Ek.
    - intros c Hc. right. exact Hc.
    - intros nc Hc Hs Hi He (c & Hc1 & Hc2 & Hc3) t Ht Ho Hnh. rewrite Es in Ht. rewrite Ei in Hi.
      refine (HN k n nc Hk Hc Hs Hi He _ t Ht Ho Hnh). exists c. destruct (Hm c Hc1) as [->|Hc1']; [exfalso; apply Hc2; left; reflexivity|].
      split; [exact Hc1'|]. split; [intros F; apply Hc2; right; exact F|exact Hc3].
  Qed.
  (* only the records change, and no customer of a node gets a new entry *)
  Lemma N_inds ej hs wx w w' :
    NIv ej hs wx w -> w_ns w' = w_ns w ->
    (forall k n c, nth_error (w_ns w) k = Some n -> In c (mem n) -> fiv c (w_is w') = fiv c (w_is w)) -> NIv ej hs wx w'.
  Proof.
    intros HN Ens Hf k n nc Hk Hc Hs Hi He (c & Hc1 & Hc2 & (bb & Hc3)) t Ht Ho Hnh. rewrite Ens in Hk.
    refine (HN k n nc Hk Hc Hs Hi He _ t Ht Ho Hnh). exists c. split; [exact Hc1|]. split; [exact Hc2|]. exists bb. rewrite <- (Hf k n c Hk Hc1). exact Hc3.
  Qed.
  (* the record of one customer changes without making it wait *)
  Lemma N_wputi ej hs wx w c o b' ob : NIv ej hs wx w -> fiv c (w_is w) = Some ob ->
    (o = None -> fst ob = None) -> NIv ej hs wx (wputi (c, (o, b')) w).
  Proof.
    intros HN Hob Ho k n nc Hk Hc Hs Hi He (c' & Hc1 & Hc2 & (bb & Hc3)) t Ht Hoff Hnh. cbn in Hk.
    refine (HN k n nc Hk Hc Hs Hi He _ t Ht Hoff Hnh). exists c'. split; [exact Hc1|]. split; [exact Hc2|]. cbn in Hc3. rewrite fiv_putiv in Hc3. cbn in Hc3.
    destruct (c =? c') eqn:E; [|exists bb; exact Hc3]. apply Z.eqb_eq in E. subst c'. injection Hc3 as -> _.
    destruct ob as [o' b0]. cbn in Ho. rewrite (Ho eq_refl) in Hob. exists b0. exact Hob.
  Qed.
  (* a hole is dropped when the server is busy (or not there), or nobody waits at the node *)
  Lemma N_hole_drop ej hs wx w j sid : NIv ej ((j, sid) :: hs) wx w ->
    (forall k n, nth_error (w_ns w) k = Some n -> v_id n = j ->
       (forall t, In t (v_srv n) -> s_id t = sid -> s_off t = false -> s_busy t = true) \/
       (forall c, In c (mem n) -> ~ In c wx -> ~ waitv w c)) ->
    NIv ej hs wx w.
  Proof.
    intros HN Hd k n nc Hk Hc Hs Hi He Hex t Ht Ho Hnh.
    destruct (Z.eq_dec (v_id n) j) as [Ej|Ej].
    - destruct (Hd k n Hk Ej) as [D|D].
      + destruct (Z.eq_dec (s_id t) sid) as [Es|Es]; [apply D; assumption|].
        refine (HN k n nc Hk Hc Hs Hi He Hex t Ht Ho _). intros [F|F]; [injection F as F1 F2; congruence|contradiction].
      + exfalso. destruct Hex as (c & Hc1 & Hc2 & Hc3). exact (D c Hc1 Hc2 Hc3).
    - refine (HN k n nc Hk Hc Hs Hi He Hex t Ht Ho _). intros [F|F]; [injection F as F1 F2; congruence|contradiction].
  Qed.
  (* a customer is counted again: it does not wait, or the servers of its node that should be busy are *)
  Lemma N_wx_drop fl vm xs ej hs wx w j n i : LV fl vm xs w -> NIv ej hs (i :: wx) w -> wnode w j = Some n -> In i (mem n) ->
    (waitv w i -> v_inf n = false -> (forall nc, nthZ (cf_nodes cf) (j - 1) = Some nc -> nc_slotted nc = false) ->
       forall t, In t (v_srv n) -> s_off t = false -> ~ In (j, s_id t) hs -> s_busy t = true) ->
    NIv ej hs wx w.
  Proof.
    intros HL HN Hn Hi Hb k n1 nc Hk Hc Hs Hinf He (c & Hc1 & Hc2 & Hc3) t Ht Ho Hnh.
    pose proof (LV_idx _ _ _ _ HL) as HI. destruct (wnode_nth _ _ _ Hn) as (kj & Hjk & Hkj).
    destruct (Z.eq_dec c i) as [->|Hne].
    - assert (k = kj) by (destruct HL as (HW & _); eapply (W_one _ w k kj n1 n i); eauto). subst kj.
      rewrite Hkj in Hk. injection Hk as <-. rewrite (wnode_id _ _ _ HI Hn) in Hnh. refine (Hb Hc3 Hinf _ t Ht Ho Hnh).
      intros nc' Hc'. rewrite Hjk, nthZ_of_nat in Hc'. congruence.
    - refine (HN k n1 nc Hk Hc Hs Hinf He _ t Ht Ho Hnh). exists c. split; [exact Hc1|]. split; [|exact Hc3]. intros [F|F]; [congruence|contradiction].
  Qed.
  (* the exempt node: anything may happen to its servers and to the records of its customers *)
  Lemma N_ex_step fl vm xs ej hs wx w w' k n n' :
    LV fl vm xs w -> NIv ej hs wx w -> nth_error (w_ns w) k = Some n -> v_id n = ej -> w_ns w' = upd (w_ns w) k n' -> v_id n' = v_id n ->
    (forall i, ~ In i (memv vm n) -> fiv i (w_is w') = fiv i (w_is w)) -> NIv ej hs wx w'.
  Proof.
    intros HL HN Hk Hej Ens Eid Hoth. eapply N_step with (k := k) (n := n) (n' := n') (hs := hs) (wx := wx); try exact HL; try exact HN; try exact Hk; try exact Eid; auto;
      try (intros nc _ _ _ F; contradiction).
  Qed.
  Lemma N_ex_n fl vm xs ej hs wx w k n n' : LV fl vm xs w -> NIv ej hs wx w -> nth_error (w_ns w) k = Some n -> v_id n = ej -> v_id n' = v_id n ->
    NIv ej hs wx (wputn n' w).
  Proof.
    intros HL HN Hk Hej Eid. pose proof (LV_idx _ _ _ _ HL) as HI.
    assert (Ek : v_id n' - 1 = Z.of_nat k) by (rewrite Eid; eapply idx_k; eauto).
    eapply N_ex_step with (k := k) (n := n) (n' := n'); eauto. apply wputn_ns. exact Ek.
  Qed.
  Lemma N_ex_io fl vm xs ej hs wx w k n n' c o b' : LV fl vm xs w -> NIv ej hs wx w -> nth_error (w_ns w) k = Some n -> v_id n = ej -> v_id n' = v_id n ->
    In c (memv vm n) -> NIv ej hs wx (wputi (c, (o, b')) (wputn n' w)).
  Proof.
    intros HL HN Hk Hej Eid Hc. pose proof (LV_idx _ _ _ _ HL) as HI.
    assert (Ek : v_id n' - 1 = Z.of_nat k) by (rewrite Eid; eapply idx_k; eauto).
    eapply N_ex_step with (k := k) (n := n) (n' := n'); eauto.
    - cbn. rewrite Ek, updZ_nat. reflexivity.
    - intros i Hi. cbn. rewrite fiv_putiv. cbn. destruct (c =? i) eqn:E; [apply Z.eqb_eq in E; subst i; contradiction|reflexivity].
  Qed.
  (* entering the exemption of node j (no node is exempt so far; the holes are at j) *)
  Lemma N_ex_enter hs wx w j : idxv w -> (forall h, In h hs -> fst h = j) -> NIv 0 hs wx w -> NIv j [] wx w.
  Proof.
    intros HI Hh HN k n nc Hk Hc Hs Hi Hne Hex t Ht Ho _. assert (E0 : v_id n <> 0) by (rewrite (HI _ _ Hk); lia).
    refine (HN k n nc Hk Hc Hs Hi E0 Hex t Ht Ho _). intros F. apply Hh in F. cbn in F. contradiction.
  Qed.
  (* leaving it: the holes are the servers of node j that are on duty and not busy *)
  Lemma N_ex_leave hs wx w j n : idxv w -> NIv j [] wx w -> wnode w j = Some n ->
    (forall t, In t (v_srv n) -> s_off t = false -> s_busy t = false -> In (j, s_id t) hs) -> NIv 0 hs wx w.
  Proof.
    intros HI HN Hn Hh k n1 nc Hk Hc Hs Hi _ Hex t Ht Ho Hnh. destruct (Z.eq_dec (v_id n1) j) as [Ej|Ej].
    - pose proof (nth_wnode _ _ _ HI Hk) as Hn1. rewrite Ej, Hn in Hn1. injection Hn1 as <-.
      destruct (s_busy t) eqn:Eb; [reflexivity|]. exfalso. apply Hnh. rewrite Ej. apply Hh; assumption.
    - refine (HN k n1 nc Hk Hc Hs Hi Ej Hex t Ht Ho _). intros [].
  Qed.

  (* ---------- assertions ---------- *)
  (* node j exists, has finitely many servers, and the servers of S are at the node and idle *)
  Definition PF (j : Z) (S : list Z) (w : view) : Prop :=
    exists n, wnode w j = Some n /\ v_inf n = false /\ forall sid, In sid S -> exists t, fsv sid (v_srv n) = Some t /\ s_cust t = None.
  (* c is a customer of node j that no server of the node serves (and, if it is on the interrupted list, it is exempt) *)
  Definition Wt (vm : option (Z * Z)) (xs : list Z) (j c : Z) (w : view) : Prop :=
    exists n, wnode w j = Some n /\ In c (memv vm n) /\ unl w n c /\ (In c (v_int n) -> In c xs).
  (* c records server sid, which is at node j *)
  Definition Lk (j sid c : Z) (w : view) : Prop := isvv w c = Some sid /\ exists n, wnode w j = Some n /\ In sid (sids (v_srv n)).

  Lemma wnode_wputn w j n n' : idxv w -> wnode w j = Some n -> v_id n' = v_id n -> wnode (wputn n' w) j = Some n'.
  Proof.
    intros HI Hn Eid. pose proof (wnode_id _ _ _ HI Hn) as Hj. destruct (wnode_nth _ _ _ Hn) as (k & Hjk & Hk).
    unfold wnode in *. destruct (j <? 1); [discriminate|]. unfold wputn. cbn [w_ns set_ns]. rewrite Eid, Hj, Hjk, updZ_nat, nthZ_of_nat.
    eapply nth_error_upd_eq; eauto.
  Qed.
  Lemma wnode_wputn_other w j n' : idxv w -> v_id n' <> j -> wnode (wputn n' w) j = wnode w j.
  Proof.
    intros HI Hne. unfold wnode. destruct (j <? 1) eqn:Ej; [reflexivity|]. apply Z.ltb_ge in Ej. unfold wputn, nthZ, updZ. cbn [w_ns set_ns].
    destruct (j - 1 <? 0) eqn:E1; [reflexivity|]. destruct (v_id n' - 1 <? 0) eqn:E2; [reflexivity|].
    apply Z.ltb_ge in E1, E2. apply nth_error_upd_neq. lia.
  Qed.
  Lemma wnode_wputi w p j : wnode (wputi p w) j = wnode w j.
  Proof. reflexivity. Qed.
  Lemma isvv_wputn w n i : isvv (wputn n w) i = isvv w i.
  Proof. reflexivity. Qed.
  Lemma iflag_wputn w n i : iflag (wputn n w) i = iflag w i.
  Proof. reflexivity. Qed.

  Lemma ht_vw {X} (P : view -> Prop) (m : M X) (F : view -> view) (Q : X -> view -> Prop) :
    (forall s a s', m s = Ok (a, s') -> idxv (VW s) -> VW s' = F (VW s)) ->
    (forall a w, idxv w -> P w -> idxv (F w) /\ Q a (F w)) -> ht P m Q.
  Proof. intros Hm HF s a s' HI HP E. rewrite (Hm _ _ _ E HI). apply HF; assumption. Qed.

  Lemma attv_unfold w j n sid t c ob : wnode w j = Some n -> fiv c (w_is w) = Some ob -> fsv sid (v_srv n) = Some t ->
    attv j sid c w = wputi (c, (Some sid, snd ob)) (wputn (with_srv n (putsv (mkSv (s_id t) (Some c) true (s_off t)) (v_srv n))) w).
  Proof. intros H1 H2 H3. unfold attv. rewrite H1, H2, H3. reflexivity. Qed.

  (* ---------- what the selection functions return ---------- *)
  Lemma waiting_of_spec q il c : In c (waiting_of q il) -> In c q /\ exists x, find_ind c il = Some x /\ i_server x = None.
  Proof.
    induction q as [|i r IH]; cbn; [tauto|]. destruct (find_ind i il) as [x|] eqn:E.
    - destruct (i_server x) eqn:Es.
      + intros H. destruct (IH H). auto.
      + intros [<-|H]; [eauto|]. destruct (IH H). auto.
    - intros H. destruct (IH H). auto.
  Qed.
  Lemma first_waiting_spec qs il c : In c (first_waiting qs il) -> In c (concat qs) /\ exists x, find_ind c il = Some x /\ i_server x = None.
  Proof.
    induction qs as [|q r IH]; cbn; [tauto|]. destruct (waiting_of q il) as [|w0 wr] eqn:E.
    - intros H. destruct (IH H). split; [apply in_or_app; auto|auto].
    - rewrite <- E. intros H. destruct (waiting_of_spec _ _ _ H). split; [apply in_or_app; auto|auto].
  Qed.
  Lemma waiting_of_nil q il : waiting_of q il = [] -> forall i x, In i q -> find_ind i il = Some x -> i_server x <> None.
  Proof.
    induction q as [|a r IH]; cbn; intros H i x Hi Hx; [destruct Hi|].
    destruct (find_ind a il) as [y|] eqn:E.
    - destruct (i_server y) eqn:Es; [|discriminate H]. destruct Hi as [<-|Hi]; [congruence|eauto].
    - destruct Hi as [<-|Hi]; [congruence|eauto].
  Qed.
  Lemma first_waiting_nil qs il : first_waiting qs il = [] -> forall i x, In i (concat qs) -> find_ind i il = Some x -> i_server x <> None.
  Proof.
    induction qs as [|q r IH]; cbn; intros H i x Hi Hx; [destruct Hi|]. destruct (waiting_of q il) as [|w0 wr] eqn:E; [|discriminate H].
    apply in_app_or in Hi as [Hi|Hi]; [eapply waiting_of_nil; eauto|eauto].
  Qed.
  Lemma last_In {A} (l : list A) d : In (last l d) (d :: l).
  Proof. revert d; induction l as [|a l IH]; intros d; [left; reflexivity|]. rewrite last_cons. right. apply IH. Qed.

  (* the customer chosen is a customer of the node without server; nobody is chosen only when nobody waits *)
  Definition Cn (j : Z) (r : option Z) (w : view) : Prop :=
    exists n, wnode w j = Some n /\
      match r with
      | Some c => In c (mem n) /\ isvv w c = None
      | None => forall c ob, In c (mem n) -> fiv c (w_is w) = Some ob -> fst ob <> None
      end.
  Lemma choose_spec j s r s' : choose_next_customer cf j s = Ok (r, s') -> idxv (VW s) -> VW s' = VW s /\ Cn j r (VW s).
  Proof.
    intros H HI. split; [eapply pv_choose_next_customer; eauto; exact I|].
    unfold choose_next_customer in H. minv H nd s1 E1. apply get_node_spec in E1 as (-> & Hj & Hn).
    minv H il s1 E2. apply gets_inv in E2 as [-> ->].
    exists (nv nd). split; [apply wnode_VW; assumption|].
    destruct (first_waiting (n_queues nd) (inds s)) as [|w0 wr] eqn:E.
    - apply ret_inv in H as [-> _]. intros c ob Hc Hob. cbn in Hob. rewrite fiv_find in Hob.
      destruct (find_ind c (inds s)) as [x|] eqn:Ex; [|discriminate]. cbn in Hob. injection Hob as <-. cbn.
      eapply first_waiting_nil; eauto.
    - assert (Hin : exists c, r = Some c /\ In c (w0 :: wr)).
      { minv H nc s1 E3. destruct (nc_disc nc =? 0); [apply ret_inv in H as [-> _]; eexists; split; [reflexivity|left; reflexivity]|].
        destruct (nc_disc nc =? 1); [apply ret_inv in H as [-> _]; eexists; split; [reflexivity|apply last_In]|].
        minv H x s2 E4. apply ret_inv in H as [-> _]. eexists. split; [reflexivity|].
        unfold choice_uniform in E4. minv E4 u s3 E5. apply lift_inv in E4 as [E4 _]. eapply nth_error_In; eauto. }
      destruct Hin as (c & -> & Hin). rewrite <- E in Hin. apply first_waiting_spec in Hin as (Hq & x & Hx & Hs).
      split; [exact Hq|]. unfold isvv. cbn. rewrite fiv_find, Hx. exact Hs.
  Qed.
  Lemma ht_choose P j : ht P (choose_next_customer cf j) (fun r w => P w /\ Cn j r w).
  Proof. intros s r s' HI HP E. destruct (choose_spec _ _ _ _ E HI) as [-> HC]. auto. Qed.

  Lemma find_free_server_In l sv : find_free_server l = Some sv -> In sv l /\ sv_busy sv = false.
  Proof.
    induction l as [|y r IH]; cbn; [discriminate|]. destruct (sv_busy y) eqn:E.
    - intros H. destruct (IH H). auto.
    - intros H. injection H as <-. auto.
  Qed.
  Lemma first_min_free_In key l : forall best sv, first_min_free key l best = Some sv ->
    (best = Some sv \/ (In sv l /\ sv_busy sv = false)).
  Proof.
    induction l as [|y r IH]; cbn; intros best sv H; [left; exact H|]. destruct (sv_busy y) eqn:E.
    - destruct (IH _ _ H) as [?|[? ?]]; auto.
    - destruct best as [b|].
      + destruct (pair_lt (key y) (key b)).
        * destruct (IH _ _ H) as [Hb|[? ?]]; [injection Hb as <-; auto|auto].
        * destruct (IH _ _ H) as [?|[? ?]]; auto.
      + destruct (IH _ _ H) as [Hb|[? ?]]; [injection Hb as <-; auto|auto].
  Qed.
  Lemma find_free_server_for_In spf cls l sv : find_free_server_for spf cls l = Some sv -> In sv l /\ sv_busy sv = false.
  Proof.
    unfold find_free_server_for. destruct (spf =? 0); [apply find_free_server_In|].
    intros H. destruct (first_min_free_In _ _ _ _ H) as [?|?]; [discriminate|assumption].
  Qed.
  Lemma find_free_server_none l : find_free_server l = None -> forall sv, In sv l -> sv_busy sv = true.
  Proof.
    induction l as [|y r IH]; cbn; intros H sv Hin; [destruct Hin|]. destruct (sv_busy y) eqn:E; [|discriminate].
    destruct Hin as [<-|Hin]; auto.
  Qed.
  Lemma first_min_free_none key l : forall best, first_min_free key l best = None -> best = None /\ forall sv, In sv l -> sv_busy sv = true.
  Proof.
    induction l as [|y r IH]; cbn; intros best H; [split; [exact H|intros ? []]|]. destruct (sv_busy y) eqn:E.
    - destruct (IH _ H) as [? Hr]. split; [assumption|]. intros sv [<-|Hin]; auto.
    - destruct best as [b|].
      + destruct (pair_lt (key y) (key b)); destruct (IH _ H) as [? _]; discriminate.
      + destruct (IH _ H) as [? _]. discriminate.
  Qed.
  Lemma find_free_server_for_none spf cls l : find_free_server_for spf cls l = None -> forall sv, In sv l -> sv_busy sv = true.
  Proof.
    unfold find_free_server_for. destruct (spf =? 0); [apply find_free_server_none|]. intros H. apply (first_min_free_none _ _ _ H).
  Qed.

  Lemma omap_In {A B} (f : A -> option B) l ps p : omap f l = Some ps -> In p ps -> exists a, In a l /\ f a = Some p.
  Proof.
    revert ps; induction l as [|a r IH]; cbn; intros ps H Hp; [injection H as <-; destruct Hp|].
    destruct (f a) as [b|] eqn:Ea; cbn in H; [|discriminate]. destruct (omap f r) as [bs|] eqn:Er; cbn in H; [|discriminate].
    injection H as <-. destruct Hp as [<-|Hp]; [eauto|]. destruct (IH _ eq_refl Hp) as (a' & ? & ?). eauto.
  Qed.
  Lemma first_max_In {A} (key : A -> Z) l : forall best, In (first_max key l best) (best :: l).
  Proof.
    induction l as [|a r IH]; intros best; cbn [first_max]; [left; reflexivity|].
    destruct (key best <? key a); [right; apply IH|]. destruct (IH best) as [H|H]; [left; exact H|right; right; exact H].
  Qed.
  (* the victim of a pre-emption is the customer of a server of the node, and the node pre-empts *)
  Definition Vc (j : Z) (r : option Z) (w : view) : Prop :=
    forall v, r = Some v -> (exists nc, nthZ (cf_nodes cf) (j - 1) = Some nc /\ nc_preempt nc <> 0) /\
                            exists n t, wnode w j = Some n /\ In t (v_srv n) /\ s_cust t = Some v.
  Lemma preempt_victim_spec j i s r s' : preempt_victim cf j i s = Ok (r, s') -> idxv (VW s) -> VW s' = VW s /\ Vc j r (VW s).
  Proof.
    intros H HI. split; [eapply pv_preempt_victim; eauto; exact I|].
    unfold preempt_victim in H. minv H nc s1 E1. unfold ncfg_of in E1. apply lift_inv in E1 as [Hc ->].
    destruct (nc_preempt nc =? 0) eqn:Ep; [apply ret_inv in H as [-> _]; intros v Hv; discriminate|]. apply Z.eqb_neq in Ep.
    minv H nd s1 E2. apply get_node_spec in E2 as (-> & Hj & Hn).
    minv H il s1 E3. apply gets_inv in E3 as [-> ->].
    minv H ps s1 E4. apply lift_inv in E4 as [Hps ->].
    destruct ps as [|p0 pr]; [discriminate|]. minv H x s1 E5.
    match type of H with (if ?b then _ else _) _ = _ => destruct b end; [|apply ret_inv in H as [-> _]; intros v Hv; discriminate].
    destruct (filter _ (p0 :: pr)) as [|c0 cr] eqn:Ef; [discriminate|]. apply ret_inv in H as [-> _].
    intros v Hv. injection Hv as <-. split; [eauto|].
    assert (Hin : In (first_max (fun p => snd (snd p)) cr c0) (p0 :: pr)).
    { pose proof (first_max_In (fun p : Z * (Z * Z) => snd (snd p)) cr c0) as H0. rewrite <- Ef in H0. apply filter_In in H0 as [H0 _]. exact H0. }
    destruct (omap_In _ _ _ _ Hps Hin) as (sv & Hsv & Hf).
    exists (nv nd), (sc sv). split; [apply wnode_VW; assumption|]. split; [cbn; apply in_map; exact Hsv|].
    cbn. destruct (sv_cust sv) as [c|]; [|discriminate]. destruct (find_ind c (inds s)); [|discriminate]. cbn in Hf. injection Hf as <-. reflexivity.
  Qed.
  Lemma ht_preempt_victim P j i : ht P (preempt_victim cf j i) (fun r w => P w /\ Vc j r w).
  Proof. intros s r s' HI HP E. destruct (preempt_victim_spec _ _ _ _ _ E HI) as [-> HC]. auto. Qed.


  (* ---------- access to a node's clause ---------- *)
  Lemma LV_node fl vm xs w j n : LV fl vm xs w -> wnode w j = Some n ->
    exists k nc, j - 1 = Z.of_nat k /\ nth_error (w_ns w) k = Some n /\ nth_error (cf_nodes cf) k = Some nc /\
                 nthZ (cf_nodes cf) (j - 1) = Some nc /\ NodeOK nc vm xs n (isvv w) (iflag w).
  Proof.
    intros (HW & HN & HF & HLen) Hn. destruct (wnode_nth _ _ _ Hn) as (k & Hjk & Hk).
    destruct (nth_error (cf_nodes cf) k) as [nc|] eqn:Ec.
    - exists k, nc. split; [exact Hjk|]. split; [exact Hk|]. split; [exact Ec|]. split; [rewrite Hjk, nthZ_of_nat; exact Ec|eauto].
    - exfalso. apply nth_error_None in Ec. assert (k < length (w_ns w))%nat by (apply nth_error_Some; congruence). lia.
  Qed.
  Lemma NodeOK_fin nc vm xs n f g : nc_slotted nc = false -> v_inf n = false -> NodeOK nc vm xs n f g ->
    FinOK (nc_preempt nc) xs (memv vm n) (v_srv n) (v_hi n) (v_int n) f g.
  Proof. unfold NodeOK, nc_slotted. intros Hs Hi. rewrite Hi. destruct (nc_srv nc); [auto|tauto|discriminate]. Qed.
  Lemma NodeOK_slot nc vm xs n f g : nc_slotted nc = true -> NodeOK nc vm xs n f g -> v_int n = [] /\ v_srv n = [].
  Proof. unfold NodeOK, nc_slotted. destruct (nc_srv nc); try discriminate. auto. Qed.

  (* the interrupted flag of an exempt customer *)
  Lemma FinOK_flag pre xs ms srv hi int f g g' : (forall i, ~ In i xs -> g' i = g i) ->
    FinOK pre xs ms srv hi int f g -> FinOK pre xs ms srv hi int f g'.
  Proof.
    intros Hg [A1 A2 A3 A4 A5 A6 A7 A8 A9]. split; auto. intros i Hi. destruct (A8 _ Hi) as [B1 B2]. split; [exact B1|].
    intros Hn. rewrite (Hg _ Hn). auto.
  Qed.
  Lemma NodeOK_flag nc vm xs n f g g' : (forall i, ~ In i xs -> g' i = g i) -> NodeOK nc vm xs n f g -> NodeOK nc vm xs n f g'.
  Proof.
    intros Hg. unfold NodeOK. destruct (nc_srv nc); [|intros [H1 H2]; split; [exact H1|eapply FinOK_flag; eauto]|auto].
    destruct (v_inf n); [auto|intros H; eapply FinOK_flag; eauto].
  Qed.
  Lemma LV_flag fl vm xs w i o b b' : LV fl vm xs w -> In i xs -> fiv i (w_is w) = Some (o, b) -> LV fl vm xs (wputi (i, (o, b')) w).
  Proof.
    intros (HW & HN & HF & HLen) Hx Hob.
    assert (Hf : forall i', isvv (wputi (i, (o, b')) w) i' = isvv w i').
    { intros i'. rewrite isvv_wputi. destruct (i =? i') eqn:E; [|reflexivity]. apply Z.eqb_eq in E. subst i'. unfold isvv. rewrite Hob. reflexivity. }
    split; [|split; [|split; [|exact HLen]]].
    - unfold shv. cbn. rewrite map_fst_putiv_in; [exact HW|]. cbn. eapply fiv_In; eauto.
    - intros k n nc Hk Hc. cbn in Hk. eapply NodeOK_ext with (f := isvv w) (g := iflag (wputi (i, (o, b')) w)); [intros i' _; apply Hf|reflexivity|].
      eapply NodeOK_flag; [|exact (HN _ _ _ Hk Hc)]. intros i' Hn. rewrite iflag_wputi.
      destruct (i =? i') eqn:E; [apply Z.eqb_eq in E; subst i'; contradiction|reflexivity].
    - intros i' Hi'. rewrite Hf. auto.
  Qed.

  (* the list of interrupted customers of a finite, not slotted node changes *)
  Lemma LV_int fl vm xs w j n int' :
    LV fl vm xs w -> wnode w j = Some n -> v_inf n = false ->
    (forall nc, nthZ (cf_nodes cf) (j - 1) = Some nc -> nc_slotted nc = false /\
       (FinOK (nc_preempt nc) xs (memv vm n) (v_srv n) (v_hi n) (v_int n) (isvv w) (iflag w) ->
        FinOK (nc_preempt nc) xs (memv vm n) (v_srv n) (v_hi n) int' (isvv w) (iflag w))) ->
    LV fl vm xs (wputn (with_int n int') w).
  Proof.
    intros HL Hn Hinf Hf. destruct (LV_node _ _ _ _ _ _ HL Hn) as (k & nc & Hjk & Hk & Hc & Hcz & _).
    eapply LV_step_n; [exact HL|exact Hk|reflexivity..|].
    intros nc' Hc'. rewrite Hc in Hc'. injection Hc' as <-. destruct (Hf nc Hcz) as [Hs HF].
    apply NodeOK_lift; try reflexivity; try exact Hinf; [congruence|]. intros _. exact HF.
  Qed.

  (* customer i of node j, exempt so far, satisfies the clauses about interrupted customers again *)
  Lemma LV_unexempt fl vm xs xs' w j n i :
    LV fl vm xs' w -> wnode w j = Some n -> In i (memv vm n) -> ~ In i (v_int n) -> (forall k, isvv w i = Some k -> In k (sids (v_srv n))) ->
    (forall i', In i' xs' -> i' = i \/ In i' xs) -> LV fl vm xs w.
  Proof.
    intros HL Hn Hi Hni Hlk Hx. destruct (LV_node _ _ _ _ _ _ HL Hn) as (k & nc & Hjk & Hk & Hc & _ & _).
    destruct HL as (HW & HN & HF & HLen). split; [exact HW|]. split; [|split; [exact HF|exact HLen]].
    intros k1 n1 nc1 Hk1 Hc1. specialize (HN _ _ _ Hk1 Hc1). destruct (Nat.eq_dec k1 k) as [->|Hne].
    - rewrite Hk in Hk1. injection Hk1 as <-. rewrite Hc in Hc1. injection Hc1 as <-. revert HN. unfold NodeOK.
      assert (HU : FinOK (nc_preempt nc) xs' (memv vm n) (v_srv n) (v_hi n) (v_int n) (isvv w) (iflag w) ->
                   FinOK (nc_preempt nc) xs (memv vm n) (v_srv n) (v_hi n) (v_int n) (isvv w) (iflag w)).
      { apply FinOK_unexempt. intros i' Hm Hx' Hnx. destruct (Hx _ Hx') as [->|?]; [|contradiction]. split; [intros; contradiction|].
        intros k' Hk' Hs. exfalso. apply Hs. auto. }
      destruct (nc_srv nc); [|intros [H1 H2]; auto|auto]. destruct (v_inf n); auto.
    - eapply NodeOK_xs; [|exact HN]. intros i' Hm Hx'. destruct (Hx _ Hx') as [->|?]; [|assumption].
      exfalso. apply Hne. eapply memv_one; eauto.
  Qed.


  Lemma ht_KK {X} (K : view -> Prop) (P : view -> Prop) (m : M X) : PV K m -> (forall w, P w -> K w) -> ht P m (fun _ => P).
  Proof. intros Hm HK s a s' HI HP E. rewrite (Hm _ _ _ HI (HK _ HP) E). auto. Qed.
  Lemma curi_oki i x w : curi i x w -> oki w x.
  Proof. intros [Hi Hf]. unfold oki. rewrite Hi. exact Hf. Qed.
  Lemma cur_okn j nd w : cur j nd w -> okn w nd.
  Proof. intros [Hi Hn]. unfold okn. rewrite Hi. unfold wnode in Hn. destruct (j <? 1); [discriminate|exact Hn]. Qed.

  Tactic Notation "hnode" ident(nd) := eapply ht_bind; [apply ht_get_node|intros nd].
  Tactic Notation "hind" ident(x) := eapply ht_bind; [apply ht_get_ind|intros x].
  Tactic Notation "hlift" ident(a) := eapply ht_bind; [apply ht_lift|intros a].
  Tactic Notation "hK" := eapply ht_bind; [hk|intros ?].
  Tactic Notation "hliftc" ident(a) ident(H) := apply ht_lift_bind; intros a H.

  Lemma hd_error_In {A} (l : list A) a : hd_error l = Some a -> In a l.
  Proof. destruct l; cbn; [discriminate|]. intros H. injection H as ->. left. reflexivity. Qed.
  Lemma remove_first_In i l l' : remove_first i l = Some l' -> In i l.
  Proof. intros H. eapply Permutation_in; [symmetry; apply (Conserve2.remove_first_perm _ _ _ H)|left; reflexivity]. Qed.

  Lemma PF_slot fl vm xs w j sid n nc : LV fl vm xs w -> wnode w j = Some n -> nthZ (cf_nodes cf) (j - 1) = Some nc ->
    In sid (sids (v_srv n)) -> nc_slotted nc = false.
  Proof.
    intros HL Hn Hc Hs. destruct (LV_node _ _ _ _ _ _ HL Hn) as (k & nc' & _ & _ & _ & Hc' & HN). rewrite Hc in Hc'. injection Hc' as <-.
    destruct (nc_slotted nc) eqn:E; [|reflexivity]. destruct (NodeOK_slot _ _ _ _ _ _ E HN) as [_ E2]. rewrite E2 in Hs. destruct Hs.
  Qed.
  Lemma fsv_sids sid l t : fsv sid l = Some t -> In sid (sids l).
  Proof. intros H. destruct (fsv_id _ _ _ H) as [<- Ht]. apply in_map. exact Ht. Qed.

  (* ---------- detatch_server in detail ---------- *)
  Definition detn (sid : Z) (n : nview) : nview :=
    match fsv sid (v_srv n) with
    | None => n
    | Some t => let n1 := with_srv n (putsv (mkSv (s_id t) None false (s_off t)) (v_srv n)) in if s_off t then killn sid n1 else n1
    end.
  Lemma detv_eq w j n sid i ob : idxv w -> wnode w j = Some n -> fiv i (w_is w) = Some ob ->
    detv j sid i w = wputi (i, (None, snd ob)) (wputn (detn sid n) w).
  Proof.
    intros HI Hn Hob. unfold detv, detn. rewrite Hn, Hob. cbv zeta. destruct (fsv sid (v_srv n)) as [t|]; [destruct (s_off t); reflexivity|].
    f_equal. symmetry. apply wputn_same. rewrite (wnode_id _ _ _ HI Hn). unfold wnode in Hn. destruct (j <? 1); [discriminate|exact Hn].
  Qed.
  Lemma detn_same sid n : v_id (detn sid n) = v_id n /\ v_pop (detn sid n) = v_pop n /\ v_qs (detn sid n) = v_qs n /\
    v_inf (detn sid n) = v_inf n /\ v_hi (detn sid n) = v_hi n /\ v_int (detn sid n) = v_int n.
  Proof. unfold detn. destruct (fsv sid (v_srv n)) as [t|]; [destruct (s_off t)|]; cbn; repeat split. Qed.
  Lemma detn_free sid n t' : NoDup (sids (v_srv n)) -> fsv sid (v_srv (detn sid n)) = Some t' -> s_cust t' = None.
  Proof.
    intros HN. unfold detn. destruct (fsv sid (v_srv n)) as [t|] eqn:E; [|congruence]. destruct (fsv_id _ _ _ E) as [Hid _]. cbv zeta. destruct (s_off t).
    - cbn. rewrite fsv_delsv_eq; [discriminate|]. rewrite sids_putsv. exact HN.
    - cbn. rewrite fsv_putsv. cbn. rewrite Hid, Z.eqb_refl, E. intros H. injection H as <-. reflexivity.
  Qed.
  Lemma detn_present sid n t : fsv sid (v_srv n) = Some t -> s_off t = false ->
    fsv sid (v_srv (detn sid n)) = Some (mkSv (s_id t) None false false) /\ sids (v_srv (detn sid n)) = sids (v_srv n).
  Proof.
    intros E Ho. unfold detn. rewrite E. cbv zeta. rewrite Ho. cbn. destruct (fsv_id _ _ _ E) as [Hid _]. rewrite fsv_putsv. cbn.
    rewrite Hid, Z.eqb_refl, E, sids_putsv. auto.
  Qed.
  Lemma detn_other sid n sid' : sid' <> sid -> fsv sid' (v_srv (detn sid n)) = fsv sid' (v_srv n).
  Proof.
    intros Hne. unfold detn. destruct (fsv sid (v_srv n)) as [t|] eqn:E; [|reflexivity]. destruct (fsv_id _ _ _ E) as [Hid _]. cbv zeta.
    assert (E1 : fsv sid' (putsv (mkSv (s_id t) None false (s_off t)) (v_srv n)) = fsv sid' (v_srv n)).
    { rewrite fsv_putsv. cbn. rewrite Hid. destruct (sid =? sid') eqn:E2; [apply Z.eqb_eq in E2; congruence|reflexivity]. }
    destruct (s_off t); cbn; [rewrite fsv_delsv_neq by exact Hne|]; exact E1.
  Qed.
  Lemma detn_sids sid n k : NoDup (sids (v_srv n)) -> In k (sids (v_srv (detn sid n))) -> In k (sids (v_srv n)).
  Proof.
    intros HN. unfold detn. destruct (fsv sid (v_srv n)) as [t|] eqn:E; [|auto]. cbv zeta. destruct (s_off t); cbn.
    - rewrite in_sids_delsv by (rewrite sids_putsv; exact HN). rewrite sids_putsv. tauto.
    - rewrite sids_putsv. auto.
  Qed.

  Lemma ht_detach_sp (P : view -> Prop) j sid i :
    ht P (detatch_server j sid i)
       (fun _ w => exists w0 n ob, idxv w0 /\ P w0 /\ wnode w0 j = Some n /\ fiv i (w_is w0) = Some ob /\
                                   w = wputi (i, (None, snd ob)) (wputn (detn sid n) w0)).
  Proof.
    intros s u s' HI HP E. destruct (detatch_server_vw _ _ _ _ _ _ E HI) as (V & n & ob & Hn & Hob).
    rewrite V, (detv_eq _ _ _ _ _ _ HI Hn Hob). split; [apply idxv_wputn; exact HI|]. exists (VW s), n, ob. auto.
  Qed.

  Lemma in_delsv_sub i l t : In t (delsv i l) -> In t l.
  Proof. induction l as [|y r IH]; cbn; [tauto|]. destruct (s_id y =? i); [auto|]. intros [<-|H]; auto. Qed.
  Lemma in_detn sid n t : NoDup (sids (v_srv n)) -> In t (v_srv (detn sid n)) -> s_id t <> sid -> In t (v_srv n).
  Proof.
    intros HN. unfold detn. destruct (fsv sid (v_srv n)) as [t0|] eqn:E; [|auto]. destruct (fsv_id _ _ _ E) as [Hid Ht0]. cbv zeta.
    assert (Hp : forall t', In t' (putsv (mkSv (s_id t0) None false (s_off t0)) (v_srv n)) -> s_id t' <> sid -> In t' (v_srv n)).
    { intros t' Ht' Hne. apply in_putsv in Ht' as [->|[H _]]; [cbn in Hne; congruence|exact H|exact HN|]. cbn. apply (in_map s_id _ _ Ht0). }
    destruct (s_off t0); cbn; intros Ht Hne; [apply in_delsv_sub in Ht|]; auto.
  Qed.

  Lemma N_attv fl vm xs ej hs wx w j n sid t0 c ob :
    LV fl vm xs w -> NIv ej ((j, sid) :: hs) wx w -> wnode w j = Some n -> fsv sid (v_srv n) = Some t0 -> NoDup (sids (v_srv n)) ->
    In c (memv vm n) -> fiv c (w_is w) = Some ob -> NIv ej hs wx (attv j sid c w).
  Proof.
    intros HL HN Hn Hfs HNd Hc Hob. pose proof (LV_idx _ _ _ _ HL) as HI. destruct (wnode_nth _ _ _ Hn) as (k & Hjk & Hk).
    rewrite (attv_unfold _ _ _ _ _ _ _ Hn Hob Hfs). destruct (fsv_id _ _ _ Hfs) as [Hsid Ht0]. pose proof (wnode_id _ _ _ HI Hn) as Hj.
    set (n' := with_srv n (putsv (mkSv (s_id t0) (Some c) true (s_off t0)) (v_srv n))).
    eapply N_step with (k := k) (n := n) (n' := n') (hs := (j, sid) :: hs) (wx := wx); try exact HL; try exact HN; try exact Hk; try reflexivity; auto.
    - cbn. rewrite (idx_k _ _ _ HI Hk), updZ_nat. reflexivity.
    - intros i Hi. cbn. rewrite fiv_putiv. cbn. destruct (c =? i) eqn:E; [apply Z.eqb_eq in E; subst i; contradiction|reflexivity].
    - intros h [<-|Hh] Hne; [cbn in Hne; congruence|exact Hh].
    - intros nc Hnc Hs Hi He (c' & Hc1 & Hc2 & (bb & Hc3)) t Ht Ho Hnh.
      cbn [n' with_srv v_srv] in Ht. apply in_putsv in Ht as [->|[Ht Hne]]; [reflexivity| |exact HNd|cbn; apply (in_map s_id _ _ Ht0)].
      cbn in Hne. cbn in Hc3. rewrite fiv_putiv in Hc3. cbn in Hc3.
      assert (Hcc : c <> c') by (intros ->; rewrite Z.eqb_refl in Hc3; discriminate).
      destruct (c =? c') eqn:E; [apply Z.eqb_eq in E; contradiction|].
      refine (HN k n nc Hk Hnc Hs Hi He _ t Ht Ho _); [exists c'; split; [exact Hc1|split; [exact Hc2|exists bb; exact Hc3]]|].
      rewrite Hj. intros [F|F]; [injection F as F; congruence|]. apply Hnh. rewrite Hj in *. exact F.
  Qed.

  Lemma N_detv fl vm xs ej hs wx w j n sid i ob :
    LV fl vm xs w -> NIv ej hs wx w -> wnode w j = Some n -> NoDup (sids (v_srv n)) -> In i (memv vm n) -> fiv i (w_is w) = Some ob ->
    (In i (mem n) -> forall t, In t (v_srv n) -> s_busy t = true) -> NIv ej ((j, sid) :: hs) wx (detv j sid i w).
  Proof.
    intros HL HN Hn HNd Hi Hob Hbusy. pose proof (LV_idx _ _ _ _ HL) as HI. destruct (wnode_nth _ _ _ Hn) as (k & Hjk & Hk).
    rewrite (detv_eq _ _ _ _ _ _ HI Hn Hob). pose proof (wnode_id _ _ _ HI Hn) as Hj. destruct (detn_same sid n) as (D1 & D2 & D3 & D4 & D5 & D6).
    eapply N_step with (k := k) (n := n) (n' := detn sid n) (hs := hs) (wx := wx); try exact HL; try exact HN; try exact Hk; auto.
    - cbn. rewrite D1, (idx_k _ _ _ HI Hk), updZ_nat. reflexivity.
    - intros i' Hi'. cbn. rewrite fiv_putiv. cbn. destruct (i =? i') eqn:E; [apply Z.eqb_eq in E; subst i'; contradiction|reflexivity].
    - intros h Hh _. right. exact Hh.
    - intros nc Hnc Hs Hinf He (c' & Hc1 & Hc2 & (bb & Hc3)) t Ht Ho Hnh. rewrite Hj in Hnh.
      assert (Hts : s_id t <> sid) by (intros E; apply Hnh; left; rewrite E; reflexivity).
      pose proof (in_detn sid n t HNd Ht Hts) as Ht'. unfold mem in Hc1. rewrite D3 in Hc1. rewrite D4 in Hinf.
      cbn in Hc3. rewrite fiv_putiv in Hc3. cbn in Hc3. destruct (i =? c') eqn:E.
      + apply Z.eqb_eq in E. subst c'. apply Hbusy; assumption.
      + refine (HN k n nc Hk Hnc Hs Hinf He _ t Ht' Ho _); [exists c'; split; [exact Hc1|split; [exact Hc2|exists bb; exact Hc3]]|].
        rewrite Hj. intros F. apply Hnh. right. exact F.
  Qed.

  Lemma N_killv fl vm xs ej hs wx w j n sid : LV fl vm xs w -> NIv ej hs wx w -> wnode w j = Some n -> NIv ej hs wx (killv j sid w).
  Proof.
    intros HL HN Hn. pose proof (LV_idx _ _ _ _ HL) as HI. destruct (wnode_nth _ _ _ Hn) as (k & Hjk & Hk). unfold killv. rewrite Hn.
    eapply N_step with (k := k) (n := n) (n' := killn sid n) (hs := hs) (wx := wx); try exact HL; try exact HN; try exact Hk; try reflexivity; auto.
    - cbn. rewrite (idx_k _ _ _ HI Hk), updZ_nat. reflexivity.
    - intros nc Hnc Hs Hinf He Hex t Ht Ho Hnh. cbn in Ht. apply in_delsv_sub in Ht. exact (HN k n nc Hk Hnc Hs Hinf He Hex t Ht Ho Hnh).
  Qed.

  (* ---------- both invariants together ---------- *)
  Lemma LN_LV b fl vm xs ej hs wx w : LN b fl vm xs ej hs wx w -> LV fl vm xs w.
  Proof. intros [H _]. exact H. Qed.
  Lemma LN_xs b fl vm xs xs' ej hs wx w : (forall i, In i xs -> In i xs') -> LN b fl vm xs ej hs wx w -> LN b fl vm xs' ej hs wx w.
  Proof. intros Hx [HL HN]. split; [eapply LV_xs; eauto|exact HN]. Qed.
  Lemma LN_mono b fl vm xs ej hs hs' wx wx' w : (forall h, In h hs -> In h hs') -> (forall c, In c wx -> In c wx') ->
    LN b fl vm xs ej hs wx w -> LN b fl vm xs ej hs' wx' w.
  Proof. intros Hh Hw [HL HN]. split; [exact HL|]. intros Hb. eapply N_mono; eauto. Qed.
  Lemma LN_flag b fl vm xs ej hs wx w i o b0 b' : LN b fl vm xs ej hs wx w -> In i xs -> fiv i (w_is w) = Some (o, b0) ->
    LN b fl vm xs ej hs wx (wputi (i, (o, b')) w).
  Proof.
    intros [HL HN] Hx Hob. split; [eapply LV_flag; eauto|]. intros Hb. eapply N_wputi; [exact (HN Hb)|exact Hob|]. intros ->. reflexivity.
  Qed.
  Lemma LN_unexempt b fl vm xs xs' ej hs wx w j n i :
    LN b fl vm xs' ej hs wx w -> wnode w j = Some n -> In i (memv vm n) -> ~ In i (v_int n) -> (forall k, isvv w i = Some k -> In k (sids (v_srv n))) ->
    (forall i', In i' xs' -> i' = i \/ In i' xs) -> LN b fl vm xs ej hs wx w.
  Proof. intros [HL HN] Hn Hi Hni Hlk Hx. split; [eapply LV_unexempt; eauto|exact HN]. Qed.
  Lemma LN_hole_drop b fl vm xs ej hs wx w j sid : LN b fl vm xs ej ((j, sid) :: hs) wx w ->
    (forall k n, nth_error (w_ns w) k = Some n -> v_id n = j ->
       (forall t, In t (v_srv n) -> s_id t = sid -> s_off t = false -> s_busy t = true) \/
       (forall c, In c (mem n) -> ~ In c wx -> ~ waitv w c)) ->
    LN b fl vm xs ej hs wx w.
  Proof. intros [HL HN] Hd. split; [exact HL|]. intros Hb. eapply N_hole_drop; eauto. Qed.

  Lemma ht_attach b fl vm xs ej hs wx j sid S c : ~ In sid S ->
    ht (fun w => LN b fl vm xs ej ((j, sid) :: hs) wx w /\ PF j (sid :: S) w /\ Wt vm xs j c w) (attach_server j sid c)
       (fun _ w => LN b fl vm xs ej hs wx w /\ PF j S w /\ Lk j sid c w).
  Proof.
    intros HnS. eapply ht_vw with (F := attv j sid c); [intros s a s' E HI; apply (attach_server_vw _ _ _ _ _ _ E HI)|].
    intros _ w HI ([HL HNI] & (n & Hn & Hinf & HS) & (n0 & Hn0 & Hc & Hunl & Hcx)). rewrite Hn in Hn0. injection Hn0 as <-.
    destruct (HS sid (or_introl eq_refl)) as (t0 & Hfs & Hc0).
    pose proof (LV_attv _ _ _ _ _ _ _ _ _ HL Hn Hinf Hfs Hc0 Hc Hunl Hcx) as HL'.
    split; [eapply LV_idx; eauto|].
    destruct (wnode_nth _ _ _ Hn) as (k & Hjk & Hk).
    destruct (fiv_some c (w_is w) (memv_rec _ _ _ _ _ _ _ HL Hk Hc)) as (ob & Hob).
    split; [split; [exact HL'|]|].
    { intros Hb. destruct (LV_node _ _ _ _ _ _ HL Hn) as (k' & nc & _ & _ & _ & Hcz & HN).
      assert (Hns : nc_slotted nc = false) by exact (PF_slot fl vm xs w j sid n nc HL Hn Hcz (fsv_sids _ _ _ Hfs)).
      eapply N_attv; [exact HL|exact (HNI Hb)|exact Hn|exact Hfs|exact (fo_nd _ _ _ _ _ _ _ _ (NodeOK_fin _ _ _ _ _ _ Hns Hinf HN))|exact Hc|exact Hob]. }
    rewrite (attv_unfold _ _ _ _ _ _ _ Hn Hob Hfs). destruct (fsv_id _ _ _ Hfs) as [Hsid Ht0].
    set (n' := with_srv n (putsv (mkSv (s_id t0) (Some c) true (s_off t0)) (v_srv n))).
    assert (Hn' : wnode (wputi (c, (Some sid, snd ob)) (wputn n' w)) j = Some n') by (rewrite wnode_wputi; eapply wnode_wputn; eauto).
    split.
    - exists n'. split; [exact Hn'|]. split; [exact Hinf|]. intros sid' Hs'. destruct (HS sid' (or_intror Hs')) as (t & Ht & Hct).
      exists t. split; [|exact Hct]. cbn [n' with_srv v_srv]. rewrite fsv_putsv. cbn [s_id]. rewrite Hsid.
      destruct (sid =? sid') eqn:E; [apply Z.eqb_eq in E; subst sid'; contradiction|exact Ht].
    - split; [rewrite isvv_wputi, Z.eqb_refl; reflexivity|]. exists n'. split; [exact Hn'|]. cbn [n' with_srv v_srv]. rewrite sids_putsv.
      rewrite <- Hsid. apply in_map. exact Ht0.
  Qed.

  (* the three blocks that start a service on a given server: attach, then view-neutral steps *)
  Lemma ht_start_give b fl vm xs ej hs wx j sid S c : ~ In sid S ->
    ht (fun w => LN b fl vm xs ej ((j, sid) :: hs) wx w /\ PF j (sid :: S) w /\ Wt vm xs j c w) (start_give cf j c sid)
       (fun _ w => LN b fl vm xs ej hs wx w /\ PF j S w /\ Lk j sid c w).
  Proof. intros HnS. unfold start_give. eapply ht_bind; [apply ht_attach; exact HnS|intros ?]. hk. Qed.
  Lemma ht_start_preemptor b fl vm xs ej hs wx j sid S c : ~ In sid S ->
    ht (fun w => LN b fl vm xs ej ((j, sid) :: hs) wx w /\ PF j (sid :: S) w /\ Wt vm xs j c w) (start_preemptor cf j c sid)
       (fun _ w => LN b fl vm xs ej hs wx w /\ PF j S w /\ Lk j sid c w).
  Proof. intros HnS. unfold start_preemptor. eapply ht_bind; [apply ht_attach; exact HnS|intros ?]. hk. Qed.
  Lemma ht_start_fresh b fl vm xs ej hs wx j sid S c count : ~ In sid S ->
    ht (fun w => LN b fl vm xs ej ((j, sid) :: hs) wx w /\ PF j (sid :: S) w /\ Wt vm xs j c w) (start_fresh cf j c (Some sid) count)
       (fun _ w => LN b fl vm xs ej hs wx w /\ PF j S w /\ Lk j sid c w).
  Proof. intros HnS. unfold start_fresh. eapply ht_bind; [apply ht_attach; exact HnS|intros ?]. hk. Qed.

  Lemma NodeOK_int_rm nc vm xs n int' f g c : Permutation (v_int n) (c :: int') -> In c xs ->
    NodeOK nc vm xs n f g -> NodeOK nc vm xs (with_int n int') f g.
  Proof.
    intros HP Hx. unfold NodeOK. cbn [with_int v_inf v_srv v_hi v_int]. replace (memv vm (with_int n int')) with (memv vm n) by reflexivity.
    destruct (nc_srv nc).
    - destruct (v_inf n); [auto|]. intros H. eapply FinOK_int_rm; eauto.
    - intros [H1 H2]. split; [exact H1|eapply FinOK_int_rm; eauto].
    - intros [H1 _]. rewrite H1 in HP. apply Permutation_nil in HP. discriminate.
  Qed.
  Lemma LV_int_g fl vm xs w j n int' :
    LV fl vm xs w -> wnode w j = Some n ->
    (forall nc, nthZ (cf_nodes cf) (j - 1) = Some nc -> NodeOK nc vm xs n (isvv w) (iflag w) -> NodeOK nc vm xs (with_int n int') (isvv w) (iflag w)) ->
    LV fl vm xs (wputn (with_int n int') w).
  Proof.
    intros HL Hn Hf. destruct (LV_node _ _ _ _ _ _ HL Hn) as (k & nc & Hjk & Hk & Hc & Hcz & _).
    eapply LV_step_n; [exact HL|exact Hk|reflexivity..|].
    intros nc' Hc'. rewrite Hc in Hc'. injection Hc' as <-. apply Hf. exact Hcz.
  Qed.

  Lemma LN_int_g b fl vm xs ej hs wx w j n int' :
    LN b fl vm xs ej hs wx w -> wnode w j = Some n ->
    (forall nc, nthZ (cf_nodes cf) (j - 1) = Some nc -> NodeOK nc vm xs n (isvv w) (iflag w) -> NodeOK nc vm xs (with_int n int') (isvv w) (iflag w)) ->
    LN b fl vm xs ej hs wx (wputn (with_int n int') w).
  Proof.
    intros [HL HN] Hn Hf. split; [eapply LV_int_g; eauto|]. intros Hb. destruct (wnode_nth _ _ _ Hn) as (k & Hjk & Hk).
    eapply N_node; [exact HL|exact (HN Hb)|exact Hk|reflexivity..|auto].
  Qed.
  (* begin_interrupted_individuals_service: the first interrupted customer resumes on the idle server sid *)
  Lemma ht_biis b fl vm ej hs wx j sid S : ~ In sid S ->
    ht (fun w => LN b fl vm [] ej ((j, sid) :: hs) wx w /\ PF j (sid :: S) w) (begin_interrupted_individuals_service j sid)
       (fun _ w => LN b fl vm [] ej hs wx w /\ PF j S w).
  Proof.
    intros HnS. unfold begin_interrupted_individuals_service.
    hnode nd. hlift i. hind x.
    eapply ht_bind; [eapply ht_KK with (K := fun w => oki w x); [pva|intros w Hw; apply (curi_oki i); apply Hw]|intros ?].
    eapply ht_bind.
    { eapply ht_pre; [|apply (ht_attach b fl vm [i] ej hs wx j sid S i HnS)].
      intros w HI ((((HLN & HP) & Hcur) & Hhd) & Hx). pose proof (LN_LV _ _ _ _ _ _ _ _ HLN) as HL. destruct Hcur as [Hid Hn]. apply hd_error_In in Hhd.
      destruct HP as (n & Hn' & Hinf & HSv). rewrite Hn in Hn'. injection Hn' as <-.
      destruct (LV_node _ _ _ _ _ _ HL Hn) as (k & nc & Hjk & Hk & Hc & Hcz & HN).
      destruct (HSv sid (or_introl eq_refl)) as (t0 & Hfs & Hc0).
      assert (Hns : nc_slotted nc = false) by exact (PF_slot fl vm [] w j sid (nv nd) nc HL Hn Hcz (fsv_sids _ _ _ Hfs)).
      pose proof (NodeOK_fin _ _ _ _ _ _ Hns Hinf HN) as HF.
      destruct (fo_int _ _ _ _ _ _ _ _ HF i Hhd) as [Hm Hst]. destruct (Hst (fun F => F)) as (_ & k' & Hfk & Hsk).
      split; [eapply LN_xs; [|exact HLN]; intros ? []|]. split; [exists (nv nd); auto|].
      exists (nv nd). split; [exact Hn|]. split; [exact Hm|]. split; [right; eauto|]. intros _. left. reflexivity. }
    intros ?. hK. hK. hind x1. hK.
    eapply ht_bind.
    { eapply ht_post; [apply ht_put_ind|]. intros ? w HI (w0 & HI0 & ((HL & HP & HK) & Hx1) & ->).
      instantiate (1 := fun _ w => LN b fl vm [i] ej hs wx w /\ PF j S w /\ Lk j sid i w). cbn beta.
      destruct Hx1 as [Hid1 Hf1].
      match goal with |- context [wputi (iv ?y) _] => replace (iv y) with (i, (i_server x1, false)) by (rewrite <- Hid1; reflexivity) end.
      split; [eapply LN_flag; [exact HL|left; reflexivity|exact Hf1]|]. split; [exact HP|].
      destruct HK as [Hs Hn]. split; [|exact Hn]. rewrite isvv_wputi, Z.eqb_refl. unfold isvv in Hs. rewrite Hf1 in Hs. exact Hs. }
    intros ?. hK. hK. hnode nd2. hlift l'.
    eapply ht_post; [apply ht_put_node|]. intros ? w HI (w0 & HI0 & (((HLN & HP & HK) & Hcur) & Hrm) & ->).
    pose proof (LN_LV _ _ _ _ _ _ _ _ HLN) as HL.
    destruct Hcur as [Hid Hn]. destruct HK as [Hs (n & Hn' & Hsid)]. rewrite Hn in Hn'. injection Hn' as <-.
    destruct HP as (n & Hn' & Hinf & HSv). rewrite Hn in Hn'. injection Hn' as <-.
    destruct (LV_node _ _ _ _ _ _ HL Hn) as (k & nc & Hjk & Hk & Hc & Hcz & HN).
    assert (Hns : nc_slotted nc = false) by exact (PF_slot fl vm [i] w0 j sid (nv nd2) nc HL Hn Hcz Hsid).
    pose proof (NodeOK_fin _ _ _ _ _ _ Hns Hinf HN) as HF.
    pose proof (Conserve2.remove_first_perm _ _ _ Hrm) as HPm. pose proof (remove_first_In _ _ _ Hrm) as Hin.
    replace (nv (nd2 <| n_interrupted := l' |> <| n_nint := n_nint nd2 - 1 |>)) with (with_int (nv nd2) l') by reflexivity.
    assert (HL1 : LN b fl vm [i] ej hs wx (wputn (with_int (nv nd2) l') w0)).
    { eapply LN_int_g; [exact HLN|exact Hn|]. intros nc' Hc' HN'. eapply NodeOK_int_rm; [exact HPm|left; reflexivity|exact HN']. }
    assert (Hn1 : wnode (wputn (with_int (nv nd2) l') w0) j = Some (with_int (nv nd2) l')) by (eapply wnode_wputn; eauto).
    split.
    - eapply LN_unexempt with (i := i); [exact HL1|exact Hn1| | | |].
      + apply (fo_int _ _ _ _ _ _ _ _ HF i Hin).
      + cbn. pose proof (fo_intnd _ _ _ _ _ _ _ _ HF) as HNd. cbn in HNd. eapply Permutation_NoDup in HNd; [|exact HPm]. inversion HNd; assumption.
      + intros k' Hk'. rewrite isvv_wputn, Hs in Hk'. injection Hk' as <-. exact Hsid.
      + intros i' [<-|[]]. left. reflexivity.
    - exists (with_int (nv nd2) l'). split; [exact Hn1|]. split; [exact Hinf|]. exact HSv.
  Qed.

  Lemma PF_weak j S S' w : (forall s, In s S' -> In s S) -> PF j S w -> PF j S' w.
  Proof. intros H (n & Hn & Hi & Hs). exists n. split; [exact Hn|]. split; [exact Hi|]. intros s Hs'. apply Hs, H, Hs'. Qed.

  (* a customer that waits (records no server) at a node where server sid is present can be given a server *)
  Lemma Cn_Wt fl vm w j sid c : LV fl vm [] w -> PF j [sid] w -> Cn j (Some c) w -> Wt vm [] j c w.
  Proof.
    intros HL (n & Hn & Hinf & HSv) (n' & Hn' & Hc & Hf). rewrite Hn in Hn'. injection Hn' as <-.
    destruct (LV_node _ _ _ _ _ _ HL Hn) as (k & nc & Hjk & Hk & Hcf & Hcz & HN).
    destruct (HSv sid (or_introl eq_refl)) as (t0 & Hfs & _).
    assert (Hns : nc_slotted nc = false) by exact (PF_slot fl vm [] w j sid n nc HL Hn Hcz (fsv_sids _ _ _ Hfs)).
    pose proof (NodeOK_fin _ _ _ _ _ _ Hns Hinf HN) as HF.
    exists n. split; [exact Hn|]. split; [unfold memv; apply in_or_app; left; exact Hc|]. split; [left; exact Hf|].
    intros Hin. destruct (fo_int _ _ _ _ _ _ _ _ HF c Hin) as [_ Hst]. destruct (Hst (fun F => F)) as (_ & k' & Hk' & _). congruence.
  Qed.

  (* nobody waits at node j *)
  Lemma Cn_nowait j w k n wx : idxv w -> Cn j None w -> nth_error (w_ns w) k = Some n -> v_id n = j -> forall c, In c (mem n) -> ~ In c wx -> ~ waitv w c.
  Proof.
    intros HI (n' & Hn' & HC) Hk Hid c Hc _ (bb & Hw). pose proof (nth_wnode _ _ _ HI Hk) as Hn. rewrite Hid, Hn' in Hn. injection Hn as ->.
    apply (HC c _ Hc Hw). reflexivity.
  Qed.

  Lemma ht_serve_with b fl vm ej hs wx j sid S : ~ In sid S ->
    ht (fun w => LN b fl vm [] ej ((j, sid) :: hs) wx w /\ PF j (sid :: S) w) (serve_with cf j sid) (fun _ w => LN b fl vm [] ej hs wx w /\ PF j S w).
  Proof.
    intros HnS. unfold serve_with. hnode nd.
    destruct (0 <? n_nint nd).
    - eapply ht_pre; [|apply ht_biis; exact HnS]. intros w _ [H _]. exact H.
    - eapply ht_bind; [apply ht_choose|intros cand]. destruct cand as [c|].
      + eapply ht_post; [eapply ht_pre; [|apply (ht_start_give b fl vm [] ej hs wx j sid S c HnS)]|].
        * intros w _ (((HL & HP) & _) & HC). split; [exact HL|]. split; [exact HP|].
          eapply Cn_Wt; [exact (LN_LV _ _ _ _ _ _ _ _ HL)| |exact HC]. eapply PF_weak; [|exact HP]. intros s [<-|[]]. left. reflexivity.
        * intros _ w _ (HL & HP & _). auto.
      + eapply ht_post; [apply ht_ret|]. intros _ w HI ((((HL & HP) & _) & HC) & _). split.
        * eapply LN_hole_drop; [exact HL|]. intros k n Hk Hid. right. eapply Cn_nowait; eauto.
        * eapply PF_weak; [|exact HP]. intros s Hs. right. exact Hs.
  Qed.

  (* server sid, if it is (still) at node j, is idle *)
  Definition FA (j sid : Z) (w : view) : Prop :=
    exists n, wnode w j = Some n /\ v_inf n = false /\ forall t, fsv sid (v_srv n) = Some t -> s_cust t = None.
  Definition hfree (j : Z) (freed : option Z) (hs : list (Z * Z)) : list (Z * Z) := match freed with Some sid => (j, sid) :: hs | None => hs end.

  Lemma ht_bsip_release b fl vm ej hs wx j freed :
    ht (fun w => LN b fl vm [] ej (hfree j freed hs) wx w /\ forall sid, freed = Some sid -> FA j sid w) (begin_service_if_possible_release cf j freed)
       (fun _ w => LN b fl vm [] ej hs wx w).
  Proof.
    unfold begin_service_if_possible_release. destruct freed as [sid|]; cbn [hfree].
    - hnode nd. destruct (find_server sid (n_servers nd)) as [sv|] eqn:Ef.
      + eapply ht_post; [eapply ht_pre; [|apply (ht_serve_with b fl vm ej hs wx j sid [])]|]; [|intros []|intros _ w _ [H _]; exact H].
        intros w _ ((HL & HF) & [Hid Hn]). split; [exact HL|]. destruct (HF sid eq_refl) as (n & Hn' & Hinf & Hfa).
        rewrite Hn in Hn'. injection Hn' as <-. exists (nv nd). split; [exact Hn|]. split; [exact Hinf|].
        intros s [<-|[]]. exists (sc sv). assert (Hfs : fsv sid (v_srv (nv nd)) = Some (sc sv)) by (cbn; rewrite fsv_find, Ef; reflexivity).
        split; [exact Hfs|apply Hfa; exact Hfs].
      + eapply ht_post; [apply ht_ret|]. intros _ w HI (((HL & _) & [Hid Hn]) & _).
        eapply LN_hole_drop; [exact HL|]. intros k n Hk Hidn. left. intros t Ht Hts _. exfalso.
        pose proof (nth_wnode _ _ _ HI Hk) as Hn'. rewrite Hidn, Hn in Hn'. injection Hn' as <-.
        cbn in Ht. apply in_map_iff in Ht as (sv & <- & Hsv). cbn in Hts. apply (find_server_none_b0 _ _ Ef). rewrite <- Hts. apply in_map. exact Hsv.
    - eapply ht_post; [apply ht_ret|]. intros _ w _ ((HL & _) & _). exact HL.
  Qed.

  (* ---------- the scope ---------- *)
  Definition scope_nc (nc : ncfg) : bool :=
    negb (nc_preempt nc =? 4) && (negb (cf_dyn cf) || (nc_preempt nc =? 0)) &&
    match nc_srv nc with
    | SSched sc => negb (sc_pre sc =? 4) && ((nc_preempt nc =? 0) || negb (sc_pre sc =? 0))
    | SSlot sl => negb (sl_cap sl) || (sl_pre sl =? 0)
    | SFixed => true
    end.
  Definition srv_scope : bool := forallb scope_nc (cf_nodes cf).
  Lemma scope_at j nc : srv_scope = true -> nthZ (cf_nodes cf) (j - 1) = Some nc -> scope_nc nc = true.
  Proof.
    unfold srv_scope. intros H Hn. rewrite forallb_forall in H. apply H. unfold nthZ in Hn. destruct (j - 1 <? 0); [discriminate|].
    eapply nth_error_In; eauto.
  Qed.


  (* ---------- further pure steps ---------- *)
  Lemma ht_exit_accept b fl xs ej hs wx i c : ht (fun w => LN b (i :: fl) None xs ej hs wx w) (exit_accept i c) (fun _ w => LN b fl None xs ej hs wx w).
  Proof.
    eapply ht_vw with (F := fun w => mkVw (w_ns w) (w_ex w ++ [i]) (w_en w + 1) (w_cr w) (deliv i (w_is w))).
    - intros s a s' E _. unfold exit_accept, bind, del_ind, modify in E. injection E as _ <-. unfold VW. cbn. rewrite map_iv_del. reflexivity.
    - intros _ w HI [HL HN]. split; [exact HI|]. split; [apply LV_exit; exact HL|]. intros Hb.
      eapply N_inds; [exact (HN Hb)|reflexivity|]. intros k n c0 Hk Hc0. cbn. apply fiv_deliv. intros ->.
      destruct HL as (HW & _). eapply (W_fly _ w k n i HW); [left; reflexivity|exact Hk|exact Hc0].
  Qed.

  Definition NIa (j i : Z) (w : view) : Prop := forall n, wnode w j = Some n -> v_inf n = false -> ~ In i (v_int n).

  (* the first write of release / renege: customer i leaves its queue *)
  Lemma rel_rm b fl xs ej hs wx w0 j i nd p q q' nd1 :
    LN b fl None xs ej hs wx w0 -> cur j nd w0 -> nthZ (n_queues nd) p = Some q -> remove_first i q = Some q' ->
    n_id nd1 = n_id nd -> n_pop nd1 = n_pop nd - 1 -> n_queues nd1 = updZ (n_queues nd) p q' -> n_servers nd1 = n_servers nd ->
    nd_inf nd1 = nd_inf nd -> n_highest nd1 = n_highest nd -> n_interrupted nd1 = n_interrupted nd ->
    LN b fl (Some (j, i)) xs ej hs wx (wputn (nv nd1) w0) /\ wnode (wputn (nv nd1) w0) j = Some (nv nd1) /\ In i (mem (nv nd)).
  Proof.
    intros [HL HNI] [Hid Hn] Hq Hr E1 E2 E3 E4 E5 E6 E7. pose proof (LV_idx _ _ _ _ HL) as HI.
    destruct (wnode_nth _ _ _ Hn) as (k & Hjk & Hk). destruct (nthZ_nat _ _ _ Hq) as (kp & Hkp & Hqk).
    assert (HP : Permutation (mem (nv nd)) (i :: mem (nv nd1))).
    { unfold mem, nv. cbn [v_qs]. rewrite E3, Hkp, updZ_nat. symmetry. eapply Conserve2.concat_upd_rm; [exact Hqk|].
      apply Conserve2.remove_first_perm. exact Hr. }
    assert (Es : v_srv (nv nd1) = v_srv (nv nd)) by (unfold nv; cbn; rewrite E4; reflexivity).
    split; [|split].
    - split.
      + replace j with (v_id (nv nd)) by exact Hid.
        eapply LV_rm; [exact HL|exact Hk|cbn; exact E1|cbn; exact E2|exact HP|exact Es|cbn; exact E5|cbn; exact E6|cbn; exact E7].
      + intros Hb. eapply N_node; [exact HL|exact (HNI Hb)|exact Hk|cbn; exact E1|exact Es|cbn; exact E5|].
        intros c Hc. eapply Permutation_in; [symmetry; exact HP|right; exact Hc].
    - eapply wnode_wputn; [exact HI|exact Hn|cbn; exact E1].
    - eapply Permutation_in; [symmetry; exact HP|left; reflexivity].
  Qed.

  (* ====================================================================================================================== *)
  (* Part 5.  The recursive core                                                                                          *)
  (* ====================================================================================================================== *)
  Section Core.
  Hypothesis HS : srv_scope = true.

  (* the customer that has left its queue: still a (virtual) customer of node j *)
  Definition VMj (j i : Z) (b : bool) (w : view) : Prop :=
    exists n, wnode w j = Some n /\ v_inf n = b /\ (v_inf n = false -> ~ In i (v_int n)) /\ In i (memv (Some (j, i)) n).

  Lemma vm_to_fl b fl xs ej hs wx w j i bi : LN b fl (Some (j, i)) xs ej hs wx w -> VMj j i bi w -> isvv w i = None -> (forall a, In a xs -> a = i) ->
    LN b (i :: fl) None [] ej hs wx w.
  Proof.
    intros [HL HNI] (n & Hn & Hb & Hni & Hm) Hf Hx. split; [|exact HNI]. pose proof (LV_idx _ _ _ _ HL) as HI.
    assert (H1 : LV (i :: fl) None xs w).
    { apply (LV_vm_fl fl xs w j i HL Hf). intros k n' Hk Hid Hinf. pose proof (nth_wnode _ _ _ HI Hk) as Hn'. rewrite Hid, Hn in Hn'. injection Hn' as <-. auto. }
    apply (LV_xs_fl (i :: fl) None xs w i (or_introl eq_refl)) in H1. eapply LV_xs; [|exact H1].
    intros a Ha. apply in_remove in Ha as [Ha Hne]. apply Hx in Ha. contradiction.
  Qed.

  Lemma rel_step b f :
    (forall j i fl, ht (fun w => LN b (i :: fl) None [] 0 [] [] w) (accept cf f j i) (fun _ w => LN b fl None [] 0 [] [] w)) ->
    (forall j fl, ht (fun w => LN b fl None [] 0 [] [] w) (release_blocked_individual cf f j) (fun _ w => LN b fl None [] 0 [] [] w)) ->
    forall j i d fl xs, (forall a, In a xs -> a = i) ->
      ht (fun w => LN b fl None xs 0 [] [] w /\ NIa j i w) (release cf (S f) j i d false) (fun _ w => LN b fl None [] 0 [] [] w).
  Proof.
    intros IHa IHb j i d fl xs Hxs. cbn [release].
    hK. hind x. hnode nd. unfold ncfg_of. hliftc nc Hnc. hliftc q Hq. hliftc q' Hq'.
    set (nd1 := nd <| n_queues := updZ (n_queues nd) (i_pprio x) q' |> <| n_pop := n_pop nd - 1 |> <| n_insvc := n_insvc nd - 1 |>).
    eapply ht_bind with (Q := fun _ w => LN b fl (Some (j, i)) xs 0 [] [] w /\ VMj j i (nd_inf nd) w /\ curi i x w).
    { eapply ht_post; [apply ht_put_node|]. intros _ w _ (w0 & HI0 & (((HL & HNI) & Hx) & Hcur) & ->).
      destruct (rel_rm b fl xs 0 [] [] w0 j i nd (i_pprio x) q q' nd1 HL Hcur Hq Hq') as (HL1 & Hn1 & Hmem); try reflexivity.
      split; [exact HL1|]. split; [|exact Hx].
      exists (nv nd1). split; [exact Hn1|]. split; [reflexivity|]. split.
      - intros Hinf. apply (HNI (nv nd)); [apply Hcur|exact Hinf].
      - unfold memv. replace (v_id (nv nd1)) with j by (symmetry; apply Hcur). rewrite vmof_same. apply in_or_app. right. left. reflexivity. }
    intros ?.
    eapply ht_bind; [eapply ht_KK with (K := fun w => oki w x); [pva|intros w Hw; apply (curi_oki i); apply Hw]|intros ?].
    hK.
    eapply ht_bind with (Q := fun freed w => LN b fl (Some (j, i)) xs 0 (hfree j freed []) [] w /\ VMj j i (nd_inf nd) w /\
                              if negb (nd_inf nd) && negb (nc_slotted nc) then isvv w i = None /\ exists sid, freed = Some sid /\ FA j sid w else freed = None).
    { destruct (negb (nd_inf nd) && negb (nc_slotted nc)) eqn:Ek.
      - apply andb_true_iff in Ek as [Ek1 Ek2]. apply negb_true_iff in Ek1, Ek2.
        hind x1. hlift sid. eapply ht_bind; [apply ht_detach_sp|intros ?]. eapply ht_post; [apply ht_ret|].
        intros fr w _ [(w0 & n & ob & HI0 & (((HLN & HV & _) & Hx1) & Hsid) & Hn & Hob & ->) ->]. pose proof HLN as [HL HNI].
        destruct HV as (n' & Hn' & Hb & Hni & Hm). rewrite Hn in Hn'. injection Hn' as <-. rewrite Ek1 in Hb.
        assert (Hfi : isvv w0 i = Some sid) by (destruct Hx1 as [_ Hf]; unfold isvv; rewrite Hf; exact Hsid).
        destruct (LV_node _ _ _ _ _ _ HL Hn) as (k & nc' & Hjk & Hk & Hc & Hcz & HN).
        assert (Enc : nc' = nc) by congruence. subst nc'.
        pose proof (NodeOK_fin _ _ _ _ _ _ Ek2 Hb HN) as HF.
        destruct (detn_same sid n) as (D1 & D2 & D3 & D4 & D5 & D6).
        assert (Hn1 : wnode (wputi (i, (None, snd ob)) (wputn (detn sid n) w0)) j = Some (detn sid n))
          by (rewrite wnode_wputi; eapply wnode_wputn; eauto).
        split; [|split; [|split]].
        + rewrite <- (detv_eq _ _ _ _ _ _ HI0 Hn Hob). cbn [hfree]. split; [eapply LV_detv; eauto|]. intros Hbb.
          eapply N_detv; [exact HL|exact (HNI Hbb)|exact Hn|exact (fo_nd _ _ _ _ _ _ _ _ HF)|exact Hm|exact Hob|].
          intros Him. exfalso. destruct HL as (HW & _). eapply (W_fly _ w0 k n i HW); [left; reflexivity|exact Hk|exact Him].
        + exists (detn sid n). split; [exact Hn1|]. split; [congruence|]. split; [rewrite D4, D6; exact Hni|].
          unfold memv, mem in *. rewrite D1, D3. exact Hm.
        + rewrite isvv_wputi, Z.eqb_refl. reflexivity.
        + exists sid. split; [reflexivity|]. exists (detn sid n). split; [exact Hn1|]. split; [congruence|].
          intros t'. apply detn_free. exact (fo_nd _ _ _ _ _ _ _ _ HF).
      - eapply ht_post; [apply ht_ret|]. intros fr w _ [(HL & HV & _) ->]. auto. }
    intros freed.
    eapply ht_bind with (Q := fun _ w => LN b (i :: fl) None [] 0 (hfree j freed []) [] w /\ forall sid, freed = Some sid -> FA j sid w).
    { destruct (nc_slotted nc) eqn:Esl.
      - unfold upd_ind. hind y. eapply ht_post; [apply ht_put_ind|].
        intros _ w _ (w0 & HI0 & ((HLN & HV & Hfr) & Hy) & ->). pose proof HLN as [HL HNI].
        rewrite andb_false_r in Hfr. subst freed. split; [|discriminate]. cbn [hfree] in *.
        destruct HV as (n & Hn & Hb & Hni & Hm). destruct Hy as [Hyi Hyf].
        replace (iv (y <| i_server := None |>)) with (i, (None : option Z, i_interrupted y)) by (rewrite <- Hyi; reflexivity).
        destruct (LV_node _ _ _ _ _ _ HL Hn) as (k & nc' & Hjk & Hk & Hc & Hcz & HN).
        assert (HL1 : LN b fl (Some (j, i)) xs 0 [] [] (wputi (i, (None, i_interrupted y)) w0)).
        { split.
          - rewrite <- (wputn_same n w0) at 1; [|rewrite (wnode_id _ _ _ HI0 Hn); unfold wnode in Hn; destruct (j <? 1); [discriminate|exact Hn]].
            eapply LV_step_io; [exact HL|exact Hk|exact Hm|reflexivity..|].
            intros nc2 Hc2 HN2. assert (nc2 = nc) by congruence. subst nc2. unfold NodeOK in *. unfold nc_slotted in Esl.
            destruct (nc_srv nc); try discriminate. exact HN2.
          - intros Hbb. eapply N_inds; [exact (HNI Hbb)|reflexivity|]. intros k1 n1 c0 Hk1 Hc0. cbn. rewrite fiv_putiv. cbn.
            destruct (i =? c0) eqn:E; [|reflexivity]. apply Z.eqb_eq in E. subst c0. exfalso.
            destruct HL as (HW & _). eapply (W_fly _ w0 k1 n1 i HW); [left; reflexivity|exact Hk1|exact Hc0]. }
        eapply vm_to_fl; [exact HL1| |rewrite isvv_wputi, Z.eqb_refl; reflexivity|exact Hxs].
        exists n. split; [rewrite wnode_wputi; exact Hn|]. eauto.
      - eapply ht_post; [apply ht_ret|]. intros _ w _ [(HLN & HV & Hfr) _]. pose proof HLN as [HL HNI]. rewrite andb_true_r in Hfr.
        destruct (nd_inf nd) eqn:Einf; cbn [negb] in Hfr.
        + subst freed. split; [|discriminate]. destruct HV as (n & Hn & Hb & Hni & Hm).
          destruct (LV_node _ _ _ _ _ _ HL Hn) as (k & nc' & Hjk & Hk & Hc & Hcz & HN).
          eapply vm_to_fl; [exact HLN|exists n; eauto| |exact Hxs].
          unfold NodeOK in HN. rewrite Hb in HN. destruct (nc_srv nc') eqn:Esrv; [apply HN; exact Hm|destruct HN; discriminate|].
          assert (nc' = nc) by congruence. subst nc'. unfold nc_slotted in Esl. rewrite Esrv in Esl. discriminate.
        + destruct Hfr as (Hf & sid & -> & HFA). split; [eapply vm_to_fl; eauto|]. intros sid' E. injection E as <-. exact HFA. }
    intros ?.
    hK.
    eapply ht_bind with (Q := fun _ w => LN b (i :: fl) None [] 0 [] [] w).
    { apply ht_bsip_release. }
    intros ?.
    eapply ht_bind with (Q := fun _ w => LN b fl None [] 0 [] [] w).
    { destruct (d =? -1); [apply ht_exit_accept|apply IHa]. }
    intros ?. apply IHb.
  Qed.

  Lemma LN_wx_nw b fl vm xs ej hs wx w i : LN b fl vm xs ej hs (i :: wx) w -> ~ waitv w i -> LN b fl vm xs ej hs wx w.
  Proof.
    intros [HL HN] Hnw. split; [exact HL|]. intros Hb k n nc Hk Hc Hs Hi He (c & Hc1 & Hc2 & Hc3) t Ht Ho Hnh.
    refine (HN Hb k n nc Hk Hc Hs Hi He _ t Ht Ho Hnh). exists c. split; [exact Hc1|]. split; [|exact Hc3].
    intros [F|F]; [subst c; contradiction|contradiction].
  Qed.
  Lemma LN_wx_drop b fl vm xs ej hs wx w j n i : LN b fl vm xs ej hs (i :: wx) w -> wnode w j = Some n -> In i (mem n) ->
    (b = true -> waitv w i -> v_inf n = false -> (forall nc, nthZ (cf_nodes cf) (j - 1) = Some nc -> nc_slotted nc = false) ->
       forall t, In t (v_srv n) -> s_off t = false -> ~ In (j, s_id t) hs -> s_busy t = true) ->
    LN b fl vm xs ej hs wx w.
  Proof. intros [HL HN] Hn Hi Hb. split; [exact HL|]. intros Hbb. eapply N_wx_drop; eauto. Qed.
  Lemma isvv_waitv w c : waitv w c -> isvv w c = None.
  Proof. intros (bb & H). unfold isvv. rewrite H. reflexivity. Qed.

  (* release_blocked_individual *)
  Lemma rbi_step b f :
    (forall j i d fl xs, (forall a, In a xs -> a = i) ->
       ht (fun w => LN b fl None xs 0 [] [] w /\ NIa j i w) (release cf f j i d false) (fun _ w => LN b fl None [] 0 [] [] w)) ->
    forall j fl, ht (fun w => LN b fl None [] 0 [] [] w) (release_blocked_individual cf (S f) j) (fun _ w => LN b fl None [] 0 [] [] w).
  Proof.
    intros IHr j fl. cbn [release_blocked_individual].
    hnode nd. hK.
    match goal with |- ht _ (if ?c then _ else _) _ => destruct c end; [|eapply ht_post; [apply ht_ret|]; intros _ w _ [[HL _] _]; exact HL].
    destruct (n_bq nd) as [|[from y] rest]; [apply ht_fail|].
    hnode fnd. hK.
    eapply ht_bind; [eapply ht_KK with (K := fun w => okn w nd); [pva|intros w Hw; apply (cur_okn j); apply Hw]|intros ?].
    hind yx.
    eapply ht_bind with (Q := fun _ w => LN b fl None (if i_interrupted yx then [y] else []) 0 [] [] w /\ NIa from y w).
    { destruct (i_interrupted yx) eqn:Eint.
      - hliftc os Hos. hliftc ot Hot.
        eapply ht_bind with (Q := fun _ w => LN b fl None [y] 0 [] [] w).
        { eapply ht_post; [apply ht_put_ind|]. intros _ w _ (w0 & HI0 & (((HL & _) & _) & [Hyi Hyf]) & ->).
          match goal with |- context [wputi (iv ?z) _] => replace (iv z) with (y, (i_server yx, false)) by (rewrite <- Hyi; reflexivity) end.
          eapply LN_flag; [eapply LN_xs; [|exact HL]; intros ? []|left; reflexivity|exact Hyf]. }
        intros ?. hnode fnd2. hliftc l' Hl'.
        eapply ht_post; [apply ht_put_node|]. intros _ w _ (w0 & HI0 & (HLN & [Hid Hn]) & ->). pose proof (LN_LV _ _ _ _ _ _ _ _ HLN) as HL.
        replace (nv (fnd2 <| n_interrupted := l' |> <| n_nint := n_nint fnd2 - 1 |>)) with (with_int (nv fnd2) l') by reflexivity.
        pose proof (Conserve2.remove_first_perm _ _ _ Hl') as HPm.
        split.
        + eapply LN_int_g; [exact HLN|exact Hn|]. intros nc Hc HN. eapply NodeOK_int_rm; [exact HPm|left; reflexivity|exact HN].
        + intros n Hn' Hinf. rewrite (wnode_wputn w0 from (nv fnd2) (with_int (nv fnd2) l') HI0 Hn eq_refl) in Hn'. injection Hn' as <-. cbn [with_int v_int].
          destruct (LV_node _ _ _ _ _ _ HL Hn) as (k & nc & Hjk & Hk & Hc & Hcz & HN).
          assert (HNd : NoDup (n_interrupted fnd2)).
          { unfold NodeOK in HN. cbn [with_int v_inf] in Hinf. change (v_inf (nv fnd2)) with (nd_inf fnd2) in *. rewrite Hinf in HN.
            destruct (nc_srv nc); [exact (fo_intnd _ _ _ _ _ _ _ _ HN)|exact (fo_intnd _ _ _ _ _ _ _ _ (proj2 HN))|].
            destruct HN as [E _]. cbn in E. rewrite E in HPm. apply Permutation_nil in HPm. discriminate. }
          eapply Permutation_NoDup in HNd; [|exact HPm]. inversion HNd; assumption.
      - eapply ht_post; [apply ht_ret|]. intros _ w _ [(((HLN & _) & _) & [Hyi Hyf]) _]. split; [exact HLN|]. pose proof (LN_LV _ _ _ _ _ _ _ _ HLN) as HL.
        intros n Hn Hinf Hin. destruct (LV_node _ _ _ _ _ _ HL Hn) as (k & nc & Hjk & Hk & Hc & Hcz & HN).
        unfold NodeOK in HN. rewrite Hinf in HN.
        assert (HFin : FinOK (nc_preempt nc) [] (memv None n) (v_srv n) (v_hi n) (v_int n) (isvv w) (iflag w)).
        { destruct (nc_srv nc); [exact HN|exact (proj2 HN)|]. destruct HN as [E _]. rewrite E in Hin. destruct Hin. }
        destruct (fo_int _ _ _ _ _ _ _ _ HFin y Hin) as [_ Hst]. destruct (Hst (fun F => F)) as (Hg & _).
        unfold iflag in Hg. rewrite Hyf in Hg. cbn in Hg. congruence. }
    intros ?.
    eapply ht_pre; [|apply (IHr from y j fl (if i_interrupted yx then [y] else []))].
    - intros w _ H. exact H.
    - intros z Hz. destruct (i_interrupted yx); [destruct Hz as [<-|[]]; reflexivity|destruct Hz].
  Qed.

  (* preempt (options resume / restart / resample): the victim gives its server to the pre-emptor *)
  Definition PreOK (j v i : Z) (w : view) : Prop :=
    (exists nc, nthZ (cf_nodes cf) (j - 1) = Some nc /\ nc_preempt nc <> 0) /\
    exists n t, wnode w j = Some n /\ v_inf n = false /\ In t (v_srv n) /\ s_cust t = Some v /\ In i (mem n) /\ isvv w i = None /\
                forall t', In t' (v_srv n) -> s_busy t' = true.

  Lemma pre_step b f : forall j v i fl wx,
    ht (fun w => LN b fl None [] 0 [] wx w /\ PreOK j v i w) (preempt cf (S f) j v i)
       (fun _ w => LN b fl None [] 0 [] wx w /\ exists sid, isvv w i = Some sid).
  Proof.
    intros j v i fl wx. cbn [preempt].
    hK. hind vx. unfold ncfg_of. hliftc nc Hnc.
    eapply ht_bind; [eapply ht_KK with (K := fun w => oki w vx); [pva|intros w Hw; apply (curi_oki v); apply Hw]|intros ?].
    assert (Hp4 : nc_preempt nc =? 4 = false).
    { pose proof (scope_at j nc HS Hnc) as Hsc. unfold scope_nc in Hsc. apply andb_true_iff in Hsc as [Hsc _]. apply andb_true_iff in Hsc as [Hsc _].
      apply negb_true_iff in Hsc. exact Hsc. }
    rewrite Hp4.
    eapply ht_bind with (Q := fun _ w => exists sid, i_server vx = Some sid /\ LN b fl None [] 0 [(j, sid)] wx w /\ PF j [sid] w /\ Wt None [] j i w).
    { hK. hK. hliftc sid Hsid. eapply ht_bind; [apply ht_detach_sp|intros ?].
      eapply ht_post; [apply ht_K; pva|].
      intros _ w _ (w0 & n & ob & HI0 & ((HLN & HPre) & [Hvi Hvf]) & Hn & Hob & ->). pose proof HLN as [HL HNI].
      destruct HPre as ((nc' & Hnc' & Hpre) & n' & t & Hn' & Hinf & Ht & Htc & Him & Hif & Hbusy). rewrite Hn in Hn'. injection Hn' as <-.
      assert (nc' = nc) by congruence. subst nc'.
      destruct (LV_node _ _ _ _ _ _ HL Hn) as (k & nc' & Hjk & Hk & Hc & Hcz & HN). assert (nc' = nc) by congruence. subst nc'.
      assert (Hns : nc_slotted nc = false) by exact (PF_slot fl None [] w0 j (s_id t) n nc HL Hn Hcz (in_map s_id _ _ Ht)).
      pose proof (NodeOK_fin _ _ _ _ _ _ Hns Hinf HN) as HF.
      destruct (fo_cust _ _ _ _ _ _ _ _ HF t v Ht Htc) as [Hvm Hvs].
      assert (Esid : s_id t = sid) by (unfold isvv in Hvs; rewrite Hvf in Hvs; cbn in Hvs; congruence).
      assert (Hfs : fsv sid (v_srv n) = Some t) by (apply fsv_In; [exact (fo_nd _ _ _ _ _ _ _ _ HF)|exact Ht|exact Esid]).
      assert (Hoff : s_off t = false) by (apply (fo_off _ _ _ _ _ _ _ _ HF Hpre t Ht)).
      assert (Hvni : ~ In v (v_int n)).
      { intros Hin. destruct (fo_int _ _ _ _ _ _ _ _ HF v Hin) as [_ Hst]. destruct (Hst (fun F => F)) as (_ & k' & Hk' & Hs').
        rewrite Hvs in Hk'. injection Hk' as <-. apply Hs'. apply in_map. exact Ht. }
      assert (Hini : ~ In i (v_int n)).
      { intros Hin. destruct (fo_int _ _ _ _ _ _ _ _ HF i Hin) as [_ Hst]. destruct (Hst (fun F => F)) as (_ & k' & Hk' & _). congruence. }
      destruct (detn_same sid n) as (D1 & D2 & D3 & D4 & D5 & D6). destruct (detn_present sid n t Hfs Hoff) as [P1 P2].
      assert (Hn1 : wnode (wputi (v, (None, snd ob)) (wputn (detn sid n) w0)) j = Some (detn sid n))
        by (rewrite wnode_wputi; eapply wnode_wputn; eauto).
      exists sid. split; [exact Hsid|]. split; [|split].
      - rewrite <- (detv_eq _ _ _ _ _ _ HI0 Hn Hob). split; [eapply LV_detv; eauto; rewrite Hvs, Esid; reflexivity|].
        intros Hbb. eapply N_detv; [exact HL|exact (HNI Hbb)|exact Hn|exact (fo_nd _ _ _ _ _ _ _ _ HF)|exact Hvm|exact Hob|]. intros _. exact Hbusy.
      - exists (detn sid n). split; [exact Hn1|]. split; [congruence|]. intros s [<-|[]]. eexists. split; [exact P1|reflexivity].
      - exists (detn sid n). split; [exact Hn1|]. split; [unfold memv, mem; rewrite D3; apply in_or_app; left; exact Him|].
        split; [|rewrite D6; intros F; contradiction]. left. rewrite isvv_wputi. destruct (v =? i); [reflexivity|exact Hif]. }
    intros ?. hliftc sid Hsid.
    eapply ht_post; [eapply ht_pre; [|apply (ht_start_preemptor b fl None [] 0 [] wx j sid [] i)]|]; [|intros []|].
    - intros w _ (sid' & Hs' & HL & HP & HW). assert (sid' = sid) by congruence. subst sid'. auto.
    - intros _ w _ (HL & _ & [Hlk _]). split; [exact HL|eauto].
  Qed.

  (* accept *)
  Definition Mi (j i : Z) (w : view) : Prop := exists n, wnode w j = Some n /\ In i (mem n).

  Lemma acc_step b f :
    (forall j v i fl wx, ht (fun w => LN b fl None [] 0 [] wx w /\ PreOK j v i w) (preempt cf f j v i)
                            (fun _ w => LN b fl None [] 0 [] wx w /\ exists sid, isvv w i = Some sid)) ->
    forall j i fl, ht (fun w => LN b (i :: fl) None [] 0 [] [] w) (accept cf (S f) j i) (fun _ w => LN b fl None [] 0 [] [] w).
  Proof.
    intros IHp j i fl. cbn [accept].
    hind x. hnode nd.
    eapply ht_bind; [eapply ht_KK with (K := fun w => oki w x); [pva|intros w Hw; apply (curi_oki i); apply Hw]|intros ?].
    hliftc qs Hqs.
    eapply ht_bind with (Q := fun _ w => LN b fl None [] 0 [] [i] w /\ Mi j i w).
    { eapply ht_post; [apply ht_put_node|]. intros _ w _ (w0 & HI0 & (([HL HNI] & Hx) & [Hid Hn]) & ->).
      destruct (nthZ (n_queues nd) (i_prio x)) as [q|] eqn:Eq; [|discriminate]. injection Hqs as <-.
      destruct (wnode_nth _ _ _ Hn) as (k & Hjk & Hk). destruct (nthZ_nat _ _ _ Eq) as (kp & Hkp & Hqk).
      set (nd' := nd <| n_queues := updZ (n_queues nd) (i_prio x) (q ++ [i]) |> <| n_pop := n_pop nd + 1 |>).
      assert (HP : Permutation (mem (nv nd')) (i :: mem (nv nd))).
      { unfold mem, nv. cbn [v_qs]. replace (n_queues nd') with (updZ (n_queues nd) (i_prio x) (q ++ [i])) by reflexivity.
        rewrite Hkp, updZ_nat. eapply Conserve2.concat_upd_add; [exact Hqk|]. rewrite Permutation_app_comm. reflexivity. }
      split; [split|].
      - eapply LV_add; [exact HL|exact Hk|reflexivity|reflexivity|exact HP|reflexivity..].
      - intros Hb. eapply N_add; [exact HL|exact (HNI Hb)|exact Hk|reflexivity..|].
        intros c Hc. eapply Permutation_in in Hc; [|exact HP]. destruct Hc as [<-|Hc]; auto.
      - exists (nv nd'). split; [eapply wnode_wputn; eauto|]. eapply Permutation_in; [symmetry; exact HP|left; reflexivity]. }
    intros ?. hK. hK. unfold ncfg_of. hliftc nc Hnc. hK. hK. hnode nd1.
    eapply ht_bind with (Q := fun cand w => ((LN b fl None [] 0 [] [i] w /\ Mi j i w) /\ cur j nd1 w) /\ (nd_inf nd1 = false -> Cn j cand w)).
    { destruct (nd_inf nd1).
      - eapply ht_post; [apply ht_ret|]. intros c w _ [H _]. split; [exact H|discriminate].
      - eapply ht_post; [apply ht_choose|]. intros c w _ [H HC]. auto. }
    intros cand.
    assert (Hdrop_inf : forall w, nd_inf nd1 = true -> (LN b fl None [] 0 [] [i] w /\ Mi j i w) /\ cur j nd1 w -> LN b fl None [] 0 [] [] w).
    { intros w Einf ((HL & (n & Hn & Hi)) & [Hid Hn1]). rewrite Hn1 in Hn. injection Hn as <-.
      eapply LN_wx_drop; [exact HL|exact Hn1|exact Hi|]. intros _ _ F. change (v_inf (nv nd1)) with (nd_inf nd1) in F. congruence. }
    destruct cand as [c|].
    2:{ eapply ht_post; [apply ht_ret|]. intros _ w _ [[H HC] _]. destruct (nd_inf nd1) eqn:Einf; [apply Hdrop_inf; auto|].
        destruct H as ((HL & (n & Hn & Hi)) & [Hid Hn1]). specialize (HC eq_refl). destruct HC as (n' & Hn' & HC). rewrite Hn in Hn'. injection Hn' as <-.
        eapply LN_wx_drop; [exact HL|exact Hn|exact Hi|]. intros _ (bb & Hw) _ _. exfalso. exact (HC i _ Hi Hw eq_refl). }
    destruct (nd_inf nd1) eqn:Einf; [eapply ht_post; [hk|]; intros _ w _ [H _]; apply Hdrop_inf; auto|].
    hind cx.
    (* every server on duty is busy, if somebody other than i waits *)
    assert (Hother : forall w, c <> i -> ((LN b fl None [] 0 [] [i] w /\ Mi j i w) /\ cur j nd1 w) /\ (false = false -> Cn j (Some c) w) -> b = true ->
              forall n, wnode w j = Some n -> forall t, In t (v_srv n) -> s_off t = false -> s_busy t = true).
    { intros w Hne ((([HL HNI] & _) & [Hid Hn1]) & HC) Hb n Hn t Ht Ho. specialize (HC eq_refl). destruct HC as (n' & Hn' & Hcm & Hcf).
      rewrite Hn1 in Hn, Hn'. injection Hn as <-. injection Hn' as <-.
      destruct (LV_node _ _ _ _ _ _ HL Hn1) as (k & nc' & Hjk & Hk & Hc & Hcz & HN).
      assert (Hns : nc_slotted nc' = false) by exact (PF_slot fl None [] w j (s_id t) (nv nd1) nc' HL Hn1 Hcz (in_map s_id _ _ Ht)).
      destruct (fiv_some c (w_is w) (memv_rec _ _ _ _ _ _ _ HL Hk (mem_memv None _ _ Hcm))) as ([o bb] & Hob).
      assert (o = None) by (unfold isvv in Hcf; rewrite Hob in Hcf; exact Hcf). subst o.
      refine (HNI Hb k (nv nd1) nc' Hk Hc Hns Einf _ _ t Ht Ho (fun F => F)).
      - rewrite (LV_idx _ _ _ _ HL _ _ Hk). lia.
      - exists c. split; [exact Hcm|]. split; [intros [F|[]]; congruence|]. exists bb. exact Hob. }
    destruct (find_free_server_for (nc_spf nc) (i_cls cx) (n_servers nd1)) as [sv|] eqn:Efree.
    - apply find_free_server_for_In in Efree as [Hsv Hbusy].
      assert (Hrdy : forall w, LV fl None [] w -> cur j nd1 w -> Cn j (Some c) w -> PF j [sv_id sv] w /\ Wt None [] j c w).
      { intros w HL [Hid Hn] HC.
        destruct (LV_node _ _ _ _ _ _ HL Hn) as (k & nc' & Hjk & Hk & Hc & Hcz & HN).
        assert (Hin : In (sc sv) (v_srv (nv nd1))) by (cbn; apply in_map; exact Hsv).
        assert (Hns : nc_slotted nc' = false) by exact (PF_slot fl None [] w j (sv_id sv) (nv nd1) nc' HL Hn Hcz (in_map s_id _ _ Hin)).
        pose proof (NodeOK_fin nc' None [] (nv nd1) _ _ Hns Einf HN) as HF.
        assert (HPF : PF j [sv_id sv] w).
        { exists (nv nd1). split; [exact Hn|]. split; [exact Einf|]. intros s [<-|[]]. exists (sc sv).
          split; [apply fsv_In; [exact (fo_nd _ _ _ _ _ _ _ _ HF)|exact Hin|reflexivity]|].
          pose proof (fo_busy _ _ _ _ _ _ _ _ HF _ Hin) as Hb. cbn in Hb. rewrite Hbusy in Hb. cbn. destruct (sv_cust sv); [discriminate|reflexivity]. }
        split; [exact HPF|]. eapply Cn_Wt; eauto. }
      destruct (Z.eq_dec c i) as [->|Hne].
      + eapply ht_post; [eapply ht_pre; [|apply (ht_start_fresh b fl None [] 0 [] [i] j (sv_id sv) [] i true)]|]; [|intros []|].
        * intros w _ (((([HL HNI] & HM) & Hcur) & HC) & _). specialize (HC eq_refl).
          destruct (Hrdy w HL Hcur HC) as [H1 H2]. split; [|auto]. split; [exact HL|]. intros Hb. eapply N_mono; [| |exact (HNI Hb)]; [intros h []|auto].
        * intros _ w _ (HL & _ & [Hlk _]). eapply LN_wx_nw; [exact HL|]. intros Hw. apply isvv_waitv in Hw. congruence.
      + eapply ht_post; [eapply ht_pre; [|apply (ht_start_fresh b fl None [] 0 [] [] j (sv_id sv) [] c true)]|]; [|intros []|intros _ w _ [HL _]; exact HL].
        intros w _ (H & _). pose proof H as (((HLN & (n & Hn & Hi)) & Hcur) & HC). specialize (HC eq_refl).
        assert (HLN' : LN b fl None [] 0 [(j, sv_id sv)] [] w).
        { assert (HLN0 : LN b fl None [] 0 [(j, sv_id sv)] [i] w) by (eapply LN_mono; [| |exact HLN]; [intros h []|intros c0 Hc0; exact Hc0]).
          eapply LN_wx_drop; [exact HLN0|exact Hn|exact Hi|].
          intros Hb _ _ _ t Ht Ho _. eapply (Hother w Hne); eauto. }
        destruct (Hrdy w (LN_LV _ _ _ _ _ _ _ _ HLN') Hcur HC) as [H1 H2]. auto.
    - pose proof (find_free_server_for_none _ _ _ Efree) as Hall.
      assert (Hallv : forall w n, cur j nd1 w -> wnode w j = Some n -> forall t, In t (v_srv n) -> s_busy t = true).
      { intros w n [_ Hn1] Hn t Ht. rewrite Hn1 in Hn. injection Hn as <-. cbn in Ht. apply in_map_iff in Ht as (sv & <- & Hsv). cbn. apply Hall. exact Hsv. }
      assert (Hdrop : forall w, (LN b fl None [] 0 [] [i] w /\ Mi j i w) /\ cur j nd1 w -> LN b fl None [] 0 [] [] w).
      { intros w ((HL & (n & Hn & Hi)) & Hcur). eapply LN_wx_drop; [exact HL|exact Hn|exact Hi|]. intros _ _ _ _ t Ht _ _. eapply Hallv; eauto. }
      destruct (0 <? numo (n_c nd1)); [|eapply ht_post; [apply ht_ret|]; intros _ w _ [[[H _] _] _]; apply Hdrop; exact H].
      eapply ht_bind; [apply ht_preempt_victim|intros v]. destruct v as [vi|]; [|eapply ht_post; [apply ht_ret|]; intros _ w _ [[[[H _] _] _] _]; apply Hdrop; exact H].
      assert (Hpre : forall w, (((LN b fl None [] 0 [] [i] w /\ Mi j i w) /\ cur j nd1 w) /\ (false = false -> Cn j (Some c) w)) /\ curi c cx w -> Vc j (Some vi) w -> PreOK j vi c w).
      { intros w (((HLM & Hcur) & HC) & _) HV. specialize (HC eq_refl). pose proof Hcur as [Hid Hn].
        destruct (HV vi eq_refl) as (Hcfg & n & t & Hn' & Ht & Htc). rewrite Hn in Hn'. injection Hn' as <-.
        destruct HC as (n' & Hn' & Hcm & Hcf). rewrite Hn in Hn'. injection Hn' as <-.
        split; [exact Hcfg|]. exists (nv nd1), t. split; [exact Hn|]. split; [exact Einf|]. split; [exact Ht|]. split; [exact Htc|]. split; [exact Hcm|].
        split; [exact Hcf|]. eapply Hallv; eauto. }
      destruct (Z.eq_dec c i) as [->|Hne].
      + eapply ht_post; [eapply ht_pre; [|apply (IHp j vi i fl [i])]|].
        * intros w _ [H HV]. split; [apply H|apply Hpre; assumption].
        * intros _ w _ [HL (sid & Hs)]. eapply LN_wx_nw; [exact HL|]. intros Hw. apply isvv_waitv in Hw. congruence.
      + eapply ht_post; [eapply ht_pre; [|apply (IHp j vi c fl [])]|]; [|intros _ w _ [HL _]; exact HL].
        intros w _ [H HV]. split; [apply Hdrop; apply H|apply Hpre; assumption].
  Qed.

  Lemma core_spec b : forall f,
    (forall j i d fl xs, (forall a, In a xs -> a = i) ->
       ht (fun w => LN b fl None xs 0 [] [] w /\ NIa j i w) (release cf f j i d false) (fun _ w => LN b fl None [] 0 [] [] w)) /\
    (forall j fl, ht (fun w => LN b fl None [] 0 [] [] w) (release_blocked_individual cf f j) (fun _ w => LN b fl None [] 0 [] [] w)) /\
    (forall j i fl, ht (fun w => LN b (i :: fl) None [] 0 [] [] w) (accept cf f j i) (fun _ w => LN b fl None [] 0 [] [] w)) /\
    (forall j v i fl wx, ht (fun w => LN b fl None [] 0 [] wx w /\ PreOK j v i w) (preempt cf f j v i)
                            (fun _ w => LN b fl None [] 0 [] wx w /\ exists sid, isvv w i = Some sid)).
  Proof.
    induction f as [|f (IHr & IHb & IHa & IHp)].
    - repeat split; intros; match goal with H : _ = Ok _ |- _ => discriminate H end.
    - split; [|split; [|split]].
      + apply rel_step; assumption.
      + apply rbi_step; assumption.
      + apply acc_step; assumption.
      + apply pre_step.
  Qed.
  Lemma ht_release b f j i d fl xs : (forall a, In a xs -> a = i) ->
    ht (fun w => LN b fl None xs 0 [] [] w /\ NIa j i w) (release cf f j i d false) (fun _ w => LN b fl None [] 0 [] [] w).
  Proof. apply core_spec. Qed.
  Lemma ht_rbi b f j fl : ht (fun w => LN b fl None [] 0 [] [] w) (release_blocked_individual cf f j) (fun _ w => LN b fl None [] 0 [] [] w).
  Proof. apply core_spec. Qed.
  Lemma ht_accept b f j i fl : ht (fun w => LN b (i :: fl) None [] 0 [] [] w) (accept cf f j i) (fun _ w => LN b fl None [] 0 [] [] w).
  Proof. apply core_spec. Qed.

  (* ====================================================================================================================== *)
  (* Part 6.  The event functions                                                                                         *)
  (* ====================================================================================================================== *)
  Lemma ht_gets_cr (P : view -> Prop) : ht P (gets (fun s => a_created (arr s))) (fun i w => P w /\ i = w_cr w).
  Proof. intros s a s' HI HP E. apply gets_inv in E as [-> ->]. auto. Qed.
  Lemma ht_decide_between (P : view -> Prop) l : ht P (decide_between l) (fun i w => P w /\ In i l).
  Proof.
    intros s a s' HI HP E. assert (V : VW s' = VW s) by (eapply pv_decide_between; eauto; exact I). rewrite V. split; [exact HI|]. split; [exact HP|].
    unfold decide_between in E. destruct l as [|x [|y r]]; [discriminate|apply ret_inv in E as [-> _]; left; reflexivity|].
    unfold choice_uniform in E. minv E u s1 E1. apply lift_inv in E as [E _]. eapply nth_error_In; eauto.
  Qed.

  (* a precondition on the state itself (the boundary facts about n_next_inds) *)
  Definition htS {X} (Ps : sim -> Prop) (m : M X) (Q : X -> view -> Prop) : Prop :=
    forall s a s', idxv (VW s) -> Ps s -> m s = Ok (a, s') -> idxv (VW s') /\ Q a (VW s').
  Lemma htS_node {X} (Ps : sim -> Prop) (Pv : node -> view -> Prop) j (f : node -> M X) Q :
    (forall s nd, Ps s -> nthZ (nodes s) (j - 1) = Some nd -> Pv nd (VW s)) ->
    (forall nd, ht (fun w => Pv nd w /\ cur j nd w) (f nd) Q) -> htS Ps (bind (get_node j) f) Q.
  Proof.
    intros HP Hf s a s' HI HPs E. unfold bind in E. destruct (get_node j s) as [[nd s1]| |] eqn:E1; try discriminate.
    pose proof E1 as E1'. apply get_node_spec in E1' as (-> & Hj & Hn).
    destruct (ht_get_node (fun _ => True) j s nd s HI I E1) as [_ [_ Hcur]].
    eapply Hf; [exact HI| |exact E]. split; [eapply HP; eauto|exact Hcur].
  Qed.
  Lemma htS_gets {X Y} (Ps : sim -> Prop) (g : sim -> X) (f : X -> M Y) Q : (forall a, htS Ps (f a) Q) -> htS Ps (bind (gets g) f) Q.
  Proof. intros Hf s a s' HI HPs E. unfold bind, gets in E. eapply Hf; eauto. Qed.

  Lemma waiting_notint fl vm xs w j n i : LV fl vm xs w -> wnode w j = Some n -> isvv w i = None -> ~ In i xs -> v_inf n = false -> ~ In i (v_int n).
  Proof.
    intros HL Hn Hf Hx Hinf Hin. destruct (LV_node _ _ _ _ _ _ HL Hn) as (k & nc & Hjk & Hk & Hc & Hcz & HN).
    destruct (nc_slotted nc) eqn:Es.
    - destruct (NodeOK_slot _ _ _ _ _ _ Es HN) as [E _]. rewrite E in Hin. destruct Hin.
    - pose proof (NodeOK_fin _ _ _ _ _ _ Es Hinf HN) as HF. destruct (fo_int _ _ _ _ _ _ _ _ HF i Hin) as [_ Hst].
      destruct (Hst Hx) as (_ & k' & Hk' & _). congruence.
  Qed.

  Lemma ht_finish_service b j :
    htS (fun s => LN b [] None [] 0 [] [] (VW s) /\ forall nd, nthZ (nodes s) (j - 1) = Some nd -> forall i, In i (n_next_inds nd) -> NIa j i (VW s))
        (finish_service cf j) (fun _ w => LN b [] None [] 0 [] [] w).
  Proof.
    unfold finish_service.
    apply htS_node with (Pv := fun nd w => LN b [] None [] 0 [] [] w /\ forall i, In i (n_next_inds nd) -> NIa j i w).
    { intros s nd [HL HN] Hn. split; [exact HL|]. apply HN. exact Hn. }
    intros nd. eapply ht_bind; [apply ht_decide_between|intros i].
    hK. hK. hK. hK. hK. hK.
    match goal with |- ht _ (if ?c then _ else _) _ => destruct c end.
    - hK. eapply ht_pre; [|apply (ht_release b _ j i _ [] [])]; [|intros ? []].
      intros w _ (((HL & HN) & _) & Hi). split; [exact HL|]. apply HN. exact Hi.
    - eapply ht_post; [hk|]. intros _ w _ (((HL & _) & _) & _). exact HL.
  Qed.

  Lemma ht_renege b j :
    htS (fun s => LN b [] None [] 0 [] [] (VW s) /\ forall nd, nthZ (nodes s) (j - 1) = Some nd -> forall i, In i (n_next_inds nd) -> isvv (VW s) i = None)
        (renege cf j) (fun _ w => LN b [] None [] 0 [] [] w).
  Proof.
    unfold renege. unfold tnow. apply htS_gets. intros t.
    apply htS_node with (Pv := fun nd w => LN b [] None [] 0 [] [] w /\ forall i, In i (n_next_inds nd) -> isvv w i = None).
    { intros s nd [HL HN] Hn. split; [exact HL|]. apply HN. exact Hn. }
    intros nd. eapply ht_bind; [apply ht_decide_between|intros i].
    hK. hK. hind x. hnode nd1. hliftc q Hq. hliftc q' Hq'.
    set (nd2 := nd1 <| n_queues := updZ (n_queues nd1) (i_pprio x) q' |> <| n_pop := n_pop nd1 - 1 |>).
    eapply ht_bind with (Q := fun _ w => LN b [i] None [] 0 [] [] w).
    { eapply ht_post; [apply ht_put_node|]. intros _ w _ (w0 & HI0 & (((((HL & HN) & _) & Hi) & Hx) & Hcur) & ->).
      destruct (rel_rm b [] [] 0 [] [] w0 j i nd1 (i_pprio x) q q' nd2 HL Hcur Hq Hq') as (HL1 & Hn1 & Hmem); try reflexivity.
      eapply vm_to_fl with (bi := nd_inf nd1); [exact HL1| |exact (HN i Hi)|intros ? []].
      exists (nv nd2). split; [exact Hn1|]. split; [reflexivity|]. split.
      - intros Hinf. change (v_int (nv nd2)) with (v_int (nv nd1)). eapply waiting_notint; [exact (LN_LV _ _ _ _ _ _ _ _ HL)|apply Hcur|exact (HN i Hi)|intros []|exact Hinf].
      - unfold memv. replace (v_id (nv nd2)) with j by (symmetry; apply Hcur). rewrite vmof_same. apply in_or_app. right. left. reflexivity. }
    intros ?. hK. hK. hK. hK. hK.
    eapply ht_bind with (Q := fun _ w => LN b [] None [] 0 [] [] w); [|intros ?; apply ht_rbi].
    match goal with |- ht _ (if ?c then _ else _) _ => destruct c end; [apply ht_exit_accept|apply ht_accept].
  Qed.

  Lemma LN_mv b fl vm xs ej hs wx w k n n' :
    LN b fl vm xs ej hs wx w -> nth_error (w_ns w) k = Some n ->
    v_id n' = v_id n -> v_pop n' = v_pop n -> Permutation (mem n') (mem n) ->
    v_srv n' = v_srv n -> v_inf n' = v_inf n -> v_hi n' = v_hi n -> v_int n' = v_int n ->
    LN b fl vm xs ej hs wx (wputn n' w).
  Proof.
    intros [HL HN] Hk E1 E2 HP E3 E4 E5 E6. split; [eapply LV_mv; eauto|]. intros Hb.
    eapply N_node; [exact HL|exact (HN Hb)|exact Hk|exact E1|exact E3|exact E4|]. intros c Hc. eapply Permutation_in; eauto.
  Qed.

  Lemma ht_ccww b j : cf_dyn cf = true ->
    ht (fun w => LN b [] None [] 0 [] [] w) (change_customer_class_while_waiting cf j) (fun _ w => LN b [] None [] 0 [] [] w).
  Proof.
    intros Hdyn. unfold change_customer_class_while_waiting.
    hnode nd. hliftc i Hi. hind x. hliftc nc' Hnc'. hliftc p' Hp'.
    eapply ht_bind; [eapply ht_KK with (K := fun w => oki w x); [pva|intros w Hw; apply (curi_oki i); apply Hw]|intros ?].
    eapply ht_bind with (Q := fun _ w => LN b [] None [] 0 [] [] w); [|intros ?; hK; eapply ht_post; [hk|]; intros ? w ? H; exact H].
    destruct (negb (p' =? i_pprio x)); [|eapply ht_post; [apply ht_ret|]; intros _ w _ [[[HL _] _] _]; exact HL].
    hliftc q Hq. hliftc q' Hq'. cbv zeta. hliftc qn Hqn.
    eapply ht_bind with (Q := fun _ w => LN b [] None [] 0 [] [] w).
    { eapply ht_post; [apply ht_put_node|]. intros _ w _ (w0 & HI0 & ((HL & [Hid Hn]) & _) & ->).
      destruct (wnode_nth _ _ _ Hn) as (k & Hjk & Hk).
      eapply LN_mv; [exact HL|exact Hk|reflexivity|reflexivity| |reflexivity..].
      unfold mem, nv. cbn [v_qs].
      replace (n_queues (nd <| n_queues := updZ (updZ (n_queues nd) (i_pprio x) q') p' (qn ++ [i]) |>))
        with (updZ (updZ (n_queues nd) (i_pprio x) q') p' (qn ++ [i])) by reflexivity.
      destruct (nthZ_nat _ _ _ Hq) as (kp & Hkp & Hqk). rewrite Hkp, updZ_nat in *.
      destruct (nthZ_nat _ _ _ Hqn) as (kn & Hkn & Hqnk). rewrite Hkn, updZ_nat.
      rewrite (Conserve2.concat_upd_add _ _ _ (qn ++ [i]) i Hqnk); [|rewrite Permutation_app_comm; reflexivity].
      eapply Conserve2.concat_upd_rm; [exact Hqk|]. apply Conserve2.remove_first_perm. exact Hq'. }
    intros ?.
    match goal with |- ht _ (if ?c then _ else _) _ => destruct c end; [|eapply ht_post; [apply ht_ret|]; intros _ w _ [HL _]; exact HL].
    eapply ht_bind; [apply ht_preempt_victim|intros v]. destruct v as [vi|]; [|eapply ht_post; [apply ht_ret|]; intros _ w _ [[HL _] _]; exact HL].
    eapply ht_pre; [|apply ht_false]. intros w _ [_ HV]. destruct (HV vi eq_refl) as [(nc & Hnc & Hpre) _].
    pose proof (scope_at j nc HS Hnc) as Hsc. unfold scope_nc in Hsc. apply andb_true_iff in Hsc as [Hsc _]. apply andb_true_iff in Hsc as [_ Hsc].
    rewrite Hdyn in Hsc. cbn in Hsc. apply Z.eqb_eq in Hsc. contradiction.
  Qed.

  (* ---------- schedules ---------- *)
  Lemma ht_kill b fl vm xs ej hs wx j sid S : ~ In sid S ->
    ht (fun w => LN b fl vm xs ej hs wx w /\ PF j (sid :: S) w) (kill_server j sid) (fun _ w => LN b fl vm xs ej hs wx w /\ PF j S w).
  Proof.
    intros HnS. eapply ht_vw with (F := killv j sid); [intros s a s' E HI; apply (kill_server_vw _ _ _ _ _ E HI)|].
    intros _ w HI ([HL HNI] & (n & Hn & Hinf & HSv)). destruct (HSv sid (or_introl eq_refl)) as (t & Hfs & Hc).
    assert (HL' : LV fl vm xs (killv j sid w)) by (eapply LV_killv; eauto; intros c Hc'; congruence).
    split; [eapply LV_idx; eauto|]. split; [split; [exact HL'|intros Hb; eapply N_killv; eauto]|]. unfold killv. rewrite Hn.
    exists (killn sid n). split; [eapply wnode_wputn; eauto|]. split; [exact Hinf|]. intros s Hs. cbn.
    rewrite fsv_delsv_neq; [apply HSv; right; exact Hs|]. intros ->. contradiction.
  Qed.
  Lemma ht_forM_PF (P : list Z -> view -> Prop) (m : Z -> M unit) :
    (forall sid S, ~ In sid S -> ht (P (sid :: S)) (m sid) (fun _ => P S)) ->
    forall ids, NoDup ids -> ht (P ids) (forM_ ids m) (fun _ => P []).
  Proof.
    intros Hm. induction ids as [|sid r IH]; intros HN; cbn [forM_]; [eapply ht_post; [apply ht_ret|]; intros ? w ? [H _]; exact H|].
    inversion HN as [|? ? Hn HNr]; subst. eapply ht_bind; [apply Hm; exact Hn|intros ?; apply IH; exact HNr].
  Qed.

  (* the servers of a finite, not slotted node that are not busy are idle *)
  Lemma idle_PF fl vm xs w j nd : LV fl vm xs w -> cur j nd w -> nd_inf nd = false ->
    (forall nc, nthZ (cf_nodes cf) (j - 1) = Some nc -> nc_slotted nc = false) ->
    PF j (map sv_id (filter (fun sv => negb (sv_busy sv)) (n_servers nd))) w /\
    NoDup (map sv_id (filter (fun sv => negb (sv_busy sv)) (n_servers nd))).
  Proof.
    intros HL [Hid Hn] Hinf Hns. destruct (LV_node _ _ _ _ _ _ HL Hn) as (k & nc & Hjk & Hk & Hc & Hcz & HN).
    pose proof (NodeOK_fin nc vm xs (nv nd) _ _ (Hns nc Hcz) Hinf HN) as HF. pose proof (fo_nd _ _ _ _ _ _ _ _ HF) as HNd.
    split.
    - exists (nv nd). split; [exact Hn|]. split; [exact Hinf|]. intros s Hs. apply in_map_iff in Hs as (sv & <- & Hsv).
      apply filter_In in Hsv as [Hsv Hb]. apply negb_true_iff in Hb.
      assert (Hin : In (sc sv) (v_srv (nv nd))) by (cbn; apply in_map; exact Hsv).
      exists (sc sv). split; [apply fsv_In; [exact HNd|exact Hin|reflexivity]|].
      pose proof (fo_busy _ _ _ _ _ _ _ _ HF _ Hin) as Hbu. cbn in Hbu. rewrite Hb in Hbu. cbn. destruct (sv_cust sv); [discriminate|reflexivity].
    - unfold sids in HNd. cbn in HNd. rewrite map_map in HNd. change (fun x => s_id (sc x)) with sv_id in HNd.
      clear -HNd. induction (n_servers nd) as [|y r IH]; cbn; [constructor|]. cbn in HNd. inversion HNd as [|? ? Hn HNr]; subst.
      destruct (negb (sv_busy y)); cbn; [|apply IH; exact HNr]. constructor; [|apply IH; exact HNr].
      intros Hin. apply Hn. apply in_map_iff in Hin as (sv & E & Hsv). apply filter_In in Hsv as [Hsv _]. rewrite <- E. apply in_map. exact Hsv.
  Qed.

  Lemma ht_ctx {X} (P : view -> Prop) (phi : Prop) (m : M X) Q : (phi -> ht P m Q) -> ht (fun w => P w /\ phi) m Q.
  Proof. intros H s a s' HI [HP Hphi] E. eapply H; eauto. Qed.

  Lemma sched_fin fl vm xs w j n : LV fl vm xs w -> wnode w j = Some n ->
    (forall nc, nthZ (cf_nodes cf) (j - 1) = Some nc -> exists sc, nc_srv nc = SSched sc) ->
    v_inf n = false /\ forall nc, nthZ (cf_nodes cf) (j - 1) = Some nc -> nc_slotted nc = false.
  Proof.
    intros HL Hn Hsch. destruct (LV_node _ _ _ _ _ _ HL Hn) as (k & nc & Hjk & Hk & Hc & Hcz & HN).
    destruct (Hsch nc Hcz) as [sc Hsc]. unfold NodeOK in HN. rewrite Hsc in HN. split; [apply HN|].
    intros nc' Hc'. assert (nc' = nc) by congruence. subst nc'. unfold nc_slotted. rewrite Hsc. reflexivity.
  Qed.

  (* the node in the middle of its shift change is exempt from the non-idling invariant; nothing else changes *)
  Lemma LN_ex_n b fl vm xs ej hs wx w j n n' : LN b fl vm xs ej hs wx w -> wnode w j = Some n -> ej = j -> v_id n' = v_id n ->
    LV fl vm xs (wputn n' w) -> LN b fl vm xs ej hs wx (wputn n' w).
  Proof.
    intros [HL HN] Hn He Eid HL'. split; [exact HL'|]. intros Hb. destruct (wnode_nth _ _ _ Hn) as (k & Hjk & Hk).
    eapply N_ex_n; [exact HL|exact (HN Hb)|exact Hk|rewrite He; eapply wnode_id; eauto; eapply LV_idx; eauto|exact Eid].
  Qed.

  Lemma ht_bsip_change_shift b j : (forall nc, nthZ (cf_nodes cf) (j - 1) = Some nc -> exists sc, nc_srv nc = SSched sc) ->
    ht (fun w => LN b [] None [] j [] [] w) (begin_service_if_possible_change_shift cf j) (fun _ w => LN b [] None [] 0 [] [] w).
  Proof.
    intros Hsch. unfold begin_service_if_possible_change_shift. hnode nd.
    set (ids := map sv_id (filter (fun sv => negb (sv_busy sv)) (n_servers nd))).
    eapply ht_pre with (P := fun w => (LN b [] None [] 0 (map (pair j) ids) [] w /\ PF j ids w) /\ NoDup ids).
    - intros w HI [[HL HNI] Hcur]. destruct (sched_fin _ _ _ _ _ _ HL (proj2 Hcur) Hsch) as [Hinf Hns].
      destruct (idle_PF _ _ _ _ _ _ HL Hcur Hinf Hns) as [H1 H2]. split; [split; [split; [exact HL|]|exact H1]|exact H2].
      intros Hb. eapply N_ex_leave; [exact HI|exact (HNI Hb)|apply Hcur|].
      intros t Ht Ho Hbu. apply in_map. cbn in Ht. apply in_map_iff in Ht as (sv & <- & Hsv). cbn. apply in_map. apply filter_In. split; [exact Hsv|].
      cbn in Hbu. rewrite Hbu. reflexivity.
    - apply ht_ctx. intros HN. eapply ht_post; [apply (ht_forM_PF (fun S w => LN b [] None [] 0 (map (pair j) S) [] w /\ PF j S w) (serve_with cf j))|].
      + intros sid S HnS. apply (ht_serve_with b [] None 0 (map (pair j) S) [] j sid S HnS).
      + exact HN.
      + intros ? w ? [HL _]. exact HL.
  Qed.

  Lemma ht_add_new_servers b j k : (forall nc, nthZ (cf_nodes cf) (j - 1) = Some nc -> exists sc, nc_srv nc = SSched sc) ->
    ht (fun w => LN b [] None [] j [] [] w) (add_new_servers k j) (fun _ w => LN b [] None [] j [] [] w).
  Proof.
    intros Hsch. induction k as [|k IH]; cbn [add_new_servers]; [eapply ht_post; [apply ht_ret|]; intros ? w ? [H _]; exact H|].
    hK. eapply ht_bind; [|intros ?; exact IH]. unfold upd_node. hnode nd.
    eapply ht_post; [apply ht_put_node|]. intros _ w _ (w0 & HI0 & (HLN & [Hid Hn]) & ->). pose proof (LN_LV _ _ _ _ _ _ _ _ HLN) as HL.
    match goal with |- context [wputn (nv ?nd') _] => replace (nv nd') with (with_new (nv nd)) by (unfold nv, with_new; cbn; rewrite map_app; reflexivity) end.
    destruct (sched_fin _ _ _ _ _ _ HL Hn Hsch) as [Hinf Hns]. destruct (wnode_nth _ _ _ Hn) as (kk & Hjk & Hk).
    eapply LN_ex_n; [exact HLN|exact Hn|reflexivity|reflexivity|].
    eapply LV_step_n; [exact HL|exact Hk|reflexivity..|].
    intros nc Hnc. assert (Hcz : nthZ (cf_nodes cf) (j - 1) = Some nc) by (rewrite Hjk, nthZ_of_nat; exact Hnc).
    apply NodeOK_lift; try reflexivity; try exact Hinf.
    - rewrite (Hns nc Hcz). discriminate.
    - intros _ HF. cbn. apply FinOK_add_server. exact HF.
  Qed.

  Lemma sc_pre0 j nc sch : nthZ (cf_nodes cf) (j - 1) = Some nc -> nc_srv nc = SSched sch -> (sc_pre sch =? 4) = false /\ (sc_pre sch = 0 -> nc_preempt nc = 0).
  Proof.
    intros Hnc Hsc. pose proof (scope_at j nc HS Hnc) as H. unfold scope_nc in H. rewrite Hsc in H. apply andb_true_iff in H as [_ H].
    apply andb_true_iff in H as [H1 H2]. apply negb_true_iff in H1. split; [exact H1|]. intros E. rewrite E in H2. cbn in H2.
    rewrite orb_false_r in H2. apply Z.eqb_eq in H2. exact H2.
  Qed.

  (* non-pre-emptive schedule: busy servers go off duty, idle servers are retired *)
  Lemma ht_take_off_nonpre b f j nc sch : nthZ (cf_nodes cf) (j - 1) = Some nc -> nc_srv nc = SSched sch -> sc_pre sch = 0 ->
    ht (fun w => LN b [] None [] j [] [] w) (take_servers_off_duty cf f j (sc_pre sch)) (fun _ w => LN b [] None [] j [] [] w).
  Proof.
    intros Hnc Hsc Hpre. unfold take_servers_off_duty. rewrite Hpre. cbn [Z.eqb]. change (0 =? 0) with true. cbv iota.
    assert (Hsch : forall nc', nthZ (cf_nodes cf) (j - 1) = Some nc' -> exists sc', nc_srv nc' = SSched sc') by (intros nc' E; assert (nc' = nc) by congruence; subst nc'; eauto).
    hnode nd. eapply ht_bind with (Q := fun _ w => LN b [] None [] j [] [] w /\ cur j nd w).
    { destruct (n_next_date nd); [eapply ht_post; [apply ht_ret|]; intros ? w ? [H _]; exact H|apply ht_fail]. }
    intros se.
    set (g := fun sv : server => sv <| sv_shift_end := se |> <| sv_offduty := if sv_busy sv then true else sv_offduty sv |>).
    set (ids := map sv_id (filter (fun sv => negb (sv_busy sv)) (n_servers nd))).
    eapply ht_bind with (Q := fun _ w => (LN b [] None [] j [] [] w /\ PF j ids w) /\ NoDup ids).
    { eapply ht_post; [apply ht_put_node|]. intros _ w _ (w0 & HI0 & (HLN & Hcur) & ->). pose proof Hcur as [Hid Hn]. pose proof (LN_LV _ _ _ _ _ _ _ _ HLN) as HL.
      destruct (sched_fin _ _ _ _ _ _ HL Hn Hsch) as [Hinf Hns]. destruct (wnode_nth _ _ _ Hn) as (kk & Hjk & Hk).
      destruct (idle_PF _ _ _ _ _ _ HL Hcur Hinf Hns) as [HPF HNd].
      replace (nv (nd <| n_servers := map g (n_servers nd) |>)) with (with_srv (nv nd) (map sc (map g (n_servers nd)))) by reflexivity.
      assert (Hm : map (fun t => (s_id t, s_cust t, s_busy t)) (map sc (map g (n_servers nd))) = map (fun t => (s_id t, s_cust t, s_busy t)) (v_srv (nv nd))).
      { cbn. rewrite !map_map. apply map_ext. intros sv. reflexivity. }
      assert (HL' : LV [] None [] (wputn (with_srv (nv nd) (map sc (map g (n_servers nd)))) w0)).
      { eapply LV_step_n; [exact HL|exact Hk|reflexivity..|].
        intros nc' Hnc'. assert (Hcz : nthZ (cf_nodes cf) (j - 1) = Some nc') by (rewrite Hjk, nthZ_of_nat; exact Hnc').
        assert (nc' = nc) by congruence. subst nc'.
        apply NodeOK_lift; try reflexivity; try exact Hinf; [rewrite (Hns nc Hcz); discriminate|].
        intros _ HF. cbn [with_srv v_srv v_hi v_int]. rewrite (proj2 (sc_pre0 j nc sch Hnc Hsc) Hpre) in *. eapply FinOK_off; [exact Hm|exact HF]. }
      split; [split; [eapply LN_ex_n; [exact HLN|exact Hn|reflexivity|reflexivity|exact HL']|]|exact HNd].
      exists (with_srv (nv nd) (map sc (map g (n_servers nd)))). split; [eapply wnode_wputn; eauto|]. split; [exact Hinf|].
      intros s Hs. destruct HPF as (n0 & Hn0 & _ & HSv). rewrite Hn in Hn0. injection Hn0 as <-. destruct (HSv s Hs) as (t & Hft & Hct).
      cbn [with_srv v_srv]. cbn [v_srv nv] in Hft. clear -Hft Hct. revert Hft. induction (n_servers nd) as [|y r IH]; cbn; [discriminate|].
      destruct (sv_id y =? s); [|exact IH]. intros E. injection E as <-. eexists. split; [reflexivity|exact Hct]. }
    intros ?. apply ht_ctx. intros HN. eapply ht_post; [apply (ht_forM_PF (fun S w => LN b [] None [] j [] [] w /\ PF j S w) (kill_server j))|].
    - intros sid S HnS. apply ht_kill. exact HnS.
    - exact HN.
    - intros ? w ? [HL _]. exact HL.
  Qed.

  (* ---------- pre-emptive schedule: every service is interrupted, every server retired ---------- *)
  Definition Sh (j : Z) (X ids : list Z) (idx : nat) (w : view) : Prop :=
    exists n, wnode w j = Some n /\ v_inf n = false /\ sids (v_srv n) = ids /\
      (forall t c, In t (v_srv n) -> s_cust t = Some c -> In c X) /\
      (forall c, In c X -> In c (mem n) /\ (exists k, isvv w c = Some k) /\ exists t, In t (v_srv n) /\ s_cust t = Some c) /\
      (forall m t c, (m < idx)%nat -> nth_error (v_srv n) m = Some t -> s_cust t = Some c -> In c (v_int n) /\ iflag w c = true) /\
      (forall m t c, (idx <= m)%nat -> nth_error (v_srv n) m = Some t -> s_cust t = Some c -> ~ In c (v_int n)).

  Lemma NoDup_map_nth {A B} (f : A -> B) l a b x y : NoDup (map f l) -> nth_error l a = Some x -> nth_error l b = Some y -> f x = f y -> a = b.
  Proof.
    revert a b; induction l as [|h t IH]; intros a b HN Ha Hb He; [destruct a; discriminate|].
    cbn in HN. inversion HN as [|? ? Hn HNt]; subst. destruct a as [|a], b as [|b]; cbn in Ha, Hb.
    - reflexivity.
    - injection Ha as ->. exfalso. apply Hn. rewrite He. apply in_map. eapply nth_error_In; eauto.
    - injection Hb as ->. exfalso. apply Hn. rewrite <- He. apply in_map. eapply nth_error_In; eauto.
    - f_equal. eapply IH; eauto.
  Qed.

  Lemma ht_upd_node_sp (P : view -> Prop) j g :
    ht P (upd_node j g) (fun _ w => exists nd w0, idxv w0 /\ P w0 /\ cur j nd w0 /\ w = wputn (nv (g nd)) w0).
  Proof.
    unfold upd_node. hnode nd. eapply ht_post; [apply ht_put_node|]. intros _ w _ (w0 & HI0 & (HP & Hc) & ->). exists nd, w0. auto.
  Qed.
  Lemma ht_upd_ind_sp (P : view -> Prop) i g :
    ht P (upd_ind i g) (fun _ w => exists x w0, idxv w0 /\ P w0 /\ curi i x w0 /\ w = wputi (iv (g x)) w0).
  Proof.
    unfold upd_ind. hind x. eapply ht_post; [apply ht_put_ind|]. intros _ w _ (w0 & HI0 & (HP & Hc) & ->). exists x, w0. auto.
  Qed.

  Lemma nv_set_int nd l k : nv (nd <| n_interrupted := l |> <| n_nint := k |>) = with_int (nv nd) l.
  Proof. destruct nd; reflexivity. Qed.
  Lemma iv_set_flag y bb : iv (y <| i_interrupted := bb |>) = (i_id y, (i_server y, bb)).
  Proof. destruct y; reflexivity. Qed.

  Lemma ht_interrupt_service b f j c pre X ids idx :
    (pre =? 4) = false -> (forall nc, nthZ (cf_nodes cf) (j - 1) = Some nc -> nc_slotted nc = false) ->
    ht (fun w => LN b [] None X j [] [] w /\ Sh j X ids idx w /\ exists n t, wnode w j = Some n /\ nth_error (v_srv n) idx = Some t /\ s_cust t = Some c)
       (interrupt_service cf f j c pre) (fun _ w => LN b [] None X j [] [] w /\ Sh j X ids (S idx) w).
  Proof.
    intros Hp4 Hns. unfold interrupt_service. rewrite Hp4. hK. hK.
    eapply ht_bind; [apply ht_upd_node_sp|intros ?].
    eapply ht_bind with (Q := fun _ w => LN b [] None X j [] [] w /\ Sh j X ids (S idx) w); [|intros ?; hk].
    eapply ht_post; [apply ht_upd_ind_sp|].
    intros _ w _ (y & w1 & HI1 & (nd & w0 & HI0 & (HLN & HSh & Hsv) & [Hid Hn] & ->) & [Hyi Hyf] & ->). pose proof HLN as [HL HNI].
    change (fiv c (w_is w0) = Some (i_server y, i_interrupted y)) in Hyf.
    rewrite iv_set_flag, Hyi, nv_set_int. change (n_interrupted nd) with (v_int (nv nd)).
    destruct HSh as (n & Hn' & Hinf & Hids & HcX & HX & Hlt & Hge). rewrite Hn in Hn'. injection Hn' as <-.
    destruct Hsv as (n' & t0 & Hn' & Ht0 & Hc0). rewrite Hn in Hn'. injection Hn' as <-.
    destruct (LV_node _ _ _ _ _ _ HL Hn) as (k & nc & Hjk & Hk & Hc & Hcz & HN).
    pose proof (NodeOK_fin nc None X (nv nd) _ _ (Hns nc Hcz) Hinf HN) as HF.
    assert (HcX0 : In c X) by (eapply HcX; [eapply nth_error_In; exact Ht0|exact Hc0]).
    assert (Hcni : ~ In c (v_int (nv nd))) by (eapply (Hge idx); eauto).
    set (n1 := with_int (nv nd) (v_int (nv nd) ++ [c])).
    assert (HL1 : LV [] None X (wputn n1 w0)).
    { eapply LV_int_g; [exact HL|exact Hn|]. intros nc' Hc' _. assert (nc' = nc) by congruence. subst nc'.
      apply NodeOK_lift with (n := nv nd) (f := isvv w0) (g := iflag w0); try reflexivity; try exact Hinf; try exact HN.
      - rewrite (Hns nc Hcz). discriminate.
      - intros _ HF'. cbn. eapply FinOK_int_add; [exact HF'| |exact HcX0|exact Hcni]. unfold memv. apply in_or_app. left. apply (HX c HcX0). }
    assert (Hn1 : wnode (wputn n1 w0) j = Some n1) by (eapply wnode_wputn; eauto).
    split.
    { split; [eapply LV_flag; [exact HL1|exact HcX0|exact Hyf]|]. intros Hb.
      eapply N_ex_io; [exact HL|exact (HNI Hb)|exact Hk|eapply wnode_id; eauto|reflexivity|]. apply mem_memv. apply (HX c HcX0). }
    exists n1. split; [rewrite wnode_wputi; exact Hn1|]. split; [exact Hinf|]. split; [exact Hids|]. split; [exact HcX|].
    split; [|split].
    - intros c' Hc'. destruct (HX c' Hc') as (H1 & (k' & H2) & H3). split; [exact H1|]. split; [|exact H3].
      exists k'. rewrite isvv_wputi. destruct (c =? c') eqn:E; [|exact H2]. apply Z.eqb_eq in E. subst c'.
      unfold isvv in H2. rewrite Hyf in H2. exact H2.
    - intros m t c' Hm Ht Hct. cbn [n1 with_int v_int]. rewrite iflag_wputi.
      destruct (Nat.eq_dec m idx) as [->|Hne].
      + cbn [n1 with_int v_srv] in Ht. rewrite Ht0 in Ht. injection Ht as <-. assert (c' = c) by congruence. subst c'.
        split; [apply in_or_app; right; left; reflexivity|rewrite Z.eqb_refl; reflexivity].
      + destruct (Hlt m t c' ltac:(lia) Ht Hct) as [H1 H2]. split; [apply in_or_app; left; exact H1|]. destruct (c =? c'); [reflexivity|exact H2].
    - intros m t c' Hm Ht Hct Hin. cbn [n1 with_int v_int v_srv] in *. apply in_app_or in Hin as [Hin|[E|[]]].
      + eapply (Hge m); eauto. lia.
      + subst c'. destruct (fo_cust _ _ _ _ _ _ _ _ HF t c (nth_error_In _ _ Ht) Hct) as [_ F1].
        destruct (fo_cust _ _ _ _ _ _ _ _ HF t0 c (nth_error_In _ _ Ht0) Hc0) as [_ F2].
        assert (m = idx); [|lia]. eapply (NoDup_map_nth s_id); [exact (fo_nd _ _ _ _ _ _ _ _ HF)|exact Ht|exact Ht0|congruence].
  Qed.

  Lemma nv_set_srv nd l : nv (nd <| n_servers := l |>) = with_srv (nv nd) (map sc l).
  Proof. destruct nd; reflexivity. Qed.
  Lemma sc_set_shift_end sv se : sc (sv <| sv_shift_end := se |>) = sc sv.
  Proof. destruct sv; reflexivity. Qed.
  Lemma with_srv_same n : with_srv n (v_srv n) = n.
  Proof. destruct n; reflexivity. Qed.

  Lemma Sh_skip j X ids idx w : Sh j X ids idx w ->
    (forall n t, wnode w j = Some n -> nth_error (v_srv n) idx = Some t -> s_cust t = None) -> Sh j X ids (S idx) w.
  Proof.
    intros (n & Hn & Hinf & Hids & HcX & HX & Hlt & Hge) Hnone. exists n. repeat (split; [assumption|]). split.
    - intros m t c Hm Ht Hc. destruct (Nat.eq_dec m idx) as [->|Hne]; [rewrite (Hnone n t Hn Ht) in Hc; discriminate|]. eapply Hlt; eauto. lia.
    - intros m t c Hm. apply Hge. lia.
  Qed.

  Lemma ht_off_duty_loop b f j pre se X ids :
    (pre =? 4) = false -> (forall nc, nthZ (cf_nodes cf) (j - 1) = Some nc -> nc_slotted nc = false) ->
    forall k idx, (S (length ids) <= k + idx)%nat ->
    ht (fun w => LN b [] None X j [] [] w /\ Sh j X ids idx w) (off_duty_loop cf k f j idx pre se)
       (fun _ w => LN b [] None X j [] [] w /\ exists idx', (length ids <= idx')%nat /\ Sh j X ids idx' w).
  Proof.
    intros Hp4 Hns. induction k as [|k IH]; intros idx Hk; cbn [off_duty_loop].
    - eapply ht_post; [apply ht_ret|]. intros ? w ? [[HL HSh] _]. split; [exact HL|]. exists idx. split; [lia|exact HSh].
    - hnode nd. destruct (nth_error (n_servers nd) idx) as [sv|] eqn:Esv.
      + eapply ht_bind with (Q := fun _ w => (LN b [] None X j [] [] w /\ Sh j X ids idx w) /\ cur j nd w).
        { eapply ht_post; [apply ht_put_node|]. intros _ w _ (w0 & HI0 & ((HLN & HSh) & Hcur) & ->). pose proof (LN_LV _ _ _ _ _ _ _ _ HLN) as HL.
          assert (E : wputn (nv (nd <| n_servers := put_server_l (sv <| sv_shift_end := se |>) (n_servers nd) |>)) w0 = w0); [|rewrite E; auto].
          destruct Hcur as [Hid Hn]. destruct HSh as (n & Hn' & Hinf & _). rewrite Hn in Hn'. injection Hn' as <-.
          destruct (LV_node _ _ _ _ _ _ HL Hn) as (kk & nc & Hjk & Hkk & Hc & Hcz & HN).
          pose proof (NodeOK_fin nc None X (nv nd) _ _ (Hns nc Hcz) Hinf HN) as HF.
          rewrite nv_set_srv, map_sc_put, sc_set_shift_end, putsv_same.
          - change (map sc (n_servers nd)) with (v_srv (nv nd)). rewrite with_srv_same. apply wputn_same.
            rewrite (wnode_id _ _ _ HI0 Hn). unfold wnode in Hn. destruct (j <? 1); [discriminate|exact Hn].
          - apply fsv_In; [exact (fo_nd _ _ _ _ _ _ _ _ HF)|apply in_map; eapply nth_error_In; eauto|reflexivity]. }
        intros ?. eapply ht_bind with (Q := fun _ w => LN b [] None X j [] [] w /\ Sh j X ids (S idx) w); [|intros ?; apply IH; lia].
        destruct (sv_cust sv) as [c|] eqn:Ec.
        * eapply ht_pre; [|apply ht_interrupt_service; assumption].
          intros w _ ((HL & HSh) & [Hid Hn]). split; [exact HL|]. split; [exact HSh|].
          exists (nv nd), (sc sv). split; [exact Hn|]. split; [cbn; rewrite nth_error_map, Esv; reflexivity|exact Ec].
        * eapply ht_post; [apply ht_ret|]. intros ? w ? [((HL & HSh) & [Hid Hn]) _]. split; [exact HL|]. apply Sh_skip; [exact HSh|].
          intros n t Hn' Ht. rewrite Hn in Hn'. injection Hn' as <-. cbn in Ht. rewrite nth_error_map, Esv in Ht. injection Ht as <-. exact Ec.
      + eapply ht_post; [apply ht_ret|]. intros ? w ? [((HL & HSh) & [Hid Hn]) _]. split; [exact HL|]. exists idx. split; [|exact HSh].
        destruct HSh as (n & Hn' & _ & Hids & _). rewrite Hn in Hn'. injection Hn' as <-. apply nth_error_None in Esv.
        rewrite <- Hids. unfold sids. cbn. rewrite !map_length. exact Esv.
  Qed.

  (* sort_interrupted_individuals permutes the list *)
  Lemma ins_key_perm k i l : Permutation (map snd (ins_key k i l)) (i :: map snd l).
  Proof.
    induction l as [|[k' i'] r IH]; cbn; [reflexivity|]. destruct (key_le k' k); cbn; [|reflexivity].
    rewrite IH. apply perm_swap.
  Qed.
  Lemma sort_by_key_perm l : Permutation (sort_by_key l) (map snd l).
  Proof.
    unfold sort_by_key. assert (G : forall acc, Permutation (map snd (fold_left (fun acc p => ins_key (fst p) (snd p) acc) l acc)) (map snd l ++ map snd acc)).
    { induction l as [|p r IH]; intros acc; cbn; [reflexivity|]. rewrite IH, ins_key_perm. cbn. symmetry. apply Permutation_middle. }
    rewrite (G []). cbn. rewrite app_nil_r. reflexivity.
  Qed.
  Lemma ht_keyed l : forall (P : view -> Prop), ht P (keyed l) (fun kl w => P w /\ map snd kl = l).
  Proof.
    unfold keyed. induction l as [|i r IH]; intros P; cbn [mapM].
    - eapply ht_post; [apply ht_ret|]. intros kl w _ [HP ->]. auto.
    - eapply ht_bind with (Q := fun bb w => P w /\ snd bb = i).
      { hind x. eapply ht_post; [apply ht_ret|]. intros bb w _ [[HP _] ->]. auto. }
      intros bb. eapply ht_bind; [apply IH|]. intros bs. eapply ht_post; [apply ht_ret|].
      intros kl w _ [[[HP Hb] Hbs] ->]. split; [exact HP|]. cbn. congruence.
  Qed.

  Lemma NodeOK_int_perm nc vm xs n int' f g : Permutation (v_int n) int' -> NodeOK nc vm xs n f g -> NodeOK nc vm xs (with_int n int') f g.
  Proof.
    intros HP. unfold NodeOK. cbn [with_int v_inf v_srv v_hi v_int]. replace (memv vm (with_int n int')) with (memv vm n) by reflexivity.
    destruct (nc_srv nc).
    - destruct (v_inf n); [auto|]. intros H. eapply FinOK_int_perm; eauto.
    - intros [H1 H2]. split; [exact H1|eapply FinOK_int_perm; eauto].
    - intros [H1 H2]. rewrite H1 in HP. apply Permutation_nil in HP. auto.
  Qed.
  Lemma nv_set_int1 nd l : nv (nd <| n_interrupted := l |>) = with_int (nv nd) l.
  Proof. destruct nd; reflexivity. Qed.

  (* the phase in which the servers are retired: every customer of X is on the interrupted list, flagged *)
  Definition Pk (b : bool) (j : Z) (X ids : list Z) (w : view) : Prop :=
    LN b [] None X j [] [] w /\ exists n, wnode w j = Some n /\ v_inf n = false /\ sids (v_srv n) = ids /\
      (forall t c, In t (v_srv n) -> s_cust t = Some c -> In c X) /\
      (forall c, In c X -> In c (mem n) /\ (exists k, isvv w c = Some k) /\ In c (v_int n) /\ iflag w c = true).

  Lemma Sh_Pk b j X ids idx w : LN b [] None X j [] [] w -> (length ids <= idx)%nat -> Sh j X ids idx w -> Pk b j X ids w.
  Proof.
    intros HL Hlen (n & Hn & Hinf & Hids & HcX & HX & Hlt & _). split; [exact HL|]. exists n. repeat (split; [assumption|]).
    intros c Hc. destruct (HX c Hc) as (H1 & H2 & t & Ht & Htc). split; [exact H1|]. split; [exact H2|].
    apply In_nth_error in Ht as [m Hm]. eapply (Hlt m t c); [|exact Hm|exact Htc].
    assert (m < length (v_srv n))%nat by (apply nth_error_Some; congruence). rewrite <- Hids in Hlen. unfold sids in Hlen. rewrite map_length in Hlen. lia.
  Qed.

  Lemma ht_sort_int b j X ids : ht (Pk b j X ids) (sort_interrupted_individuals j) (fun _ => Pk b j X ids).
  Proof.
    unfold sort_interrupted_individuals. hnode nd. eapply ht_bind; [apply ht_keyed|intros kl].
    eapply ht_post; [apply ht_put_node|]. intros _ w _ (w0 & HI0 & (((HL & HP) & [Hid Hn]) & Hkl) & ->).
    rewrite nv_set_int1. destruct HP as (n & Hn' & Hinf & Hids & HcX & HX). rewrite Hn in Hn'. injection Hn' as <-.
    assert (HPm : Permutation (v_int (nv nd)) (sort_by_key kl)) by (symmetry; rewrite sort_by_key_perm, Hkl; reflexivity).
    split.
    - eapply LN_int_g; [exact HL|exact Hn|]. intros nc Hc HN. eapply NodeOK_int_perm; eauto.
    - exists (with_int (nv nd) (sort_by_key kl)). split; [eapply wnode_wputn; eauto|]. split; [exact Hinf|]. split; [exact Hids|]. split; [exact HcX|].
      intros c Hc. destruct (HX c Hc) as (H1 & H2 & H3 & H4). split; [exact H1|]. split; [exact H2|]. split; [|exact H4].
      cbn. eapply Permutation_in; eauto.
  Qed.

  Lemma ht_kill_pk b j X sid r : ht (Pk b j X (sid :: r)) (kill_server j sid) (fun _ => Pk b j X r).
  Proof.
    eapply ht_vw with (F := killv j sid); [intros s a s' E HI; apply (kill_server_vw _ _ _ _ _ E HI)|].
    intros _ w HI ([HL HNI] & n & Hn & Hinf & Hids & HcX & HX).
    assert (Hex : exists t l, v_srv n = t :: l /\ s_id t = sid /\ sids l = r).
    { destruct (v_srv n) as [|t l]; [discriminate|]. cbn in Hids. injection Hids as Hid Hr. eauto. }
    destruct Hex as (t & l & El & Hid & Hr).
    assert (Hfs : fsv sid (v_srv n) = Some t) by (rewrite El; cbn; rewrite Hid, Z.eqb_refl; reflexivity).
    assert (HL' : LV [] None X (killv j sid w)).
    { eapply LV_killv; eauto. intros c Hc. apply (HcX t c); [rewrite El; left; reflexivity|exact Hc]. }
    split; [eapply LV_idx; eauto|]. split; [split; [exact HL'|intros Hb; eapply N_killv; eauto]|]. unfold killv. rewrite Hn.
    exists (killn sid n). split; [eapply wnode_wputn; eauto|]. split; [exact Hinf|].
    assert (Ed : delsv sid (v_srv n) = l) by (rewrite El; cbn; rewrite Hid, Z.eqb_refl; reflexivity).
    split; [cbn; rewrite Ed; exact Hr|]. split.
    - intros t' c Ht' Hc. cbn in Ht'. rewrite Ed in Ht'. apply (HcX t' c); [rewrite El; right; exact Ht'|exact Hc].
    - exact HX.
  Qed.

  Lemma Pk_done b j X w : Pk b j X [] w -> LN b [] None [] j [] [] w.
  Proof.
    intros ([HL HNI] & n & Hn & Hinf & Hids & HcX & HX). split; [|exact HNI].
    assert (Es : v_srv n = []) by (destruct (v_srv n); [reflexivity|discriminate]).
    destruct (LV_node _ _ _ _ _ _ HL Hn) as (k & nc & Hjk & Hk & Hc & _ & _).
    destruct HL as (HW & HN & HF & HLen). split; [exact HW|]. split; [|split; [exact HF|exact HLen]].
    intros k1 n1 nc1 Hk1 Hc1. specialize (HN _ _ _ Hk1 Hc1). destruct (Nat.eq_dec k1 k) as [->|Hne].
    - rewrite Hk in Hk1. injection Hk1 as <-. revert HN. unfold NodeOK.
      assert (HU : FinOK (nc_preempt nc1) X (memv None n) (v_srv n) (v_hi n) (v_int n) (isvv w) (iflag w) ->
                   FinOK (nc_preempt nc1) [] (memv None n) (v_srv n) (v_hi n) (v_int n) (isvv w) (iflag w)).
      { apply FinOK_unexempt. intros i Hm Hx _. destruct (HX i Hx) as (H1 & (k' & H2) & H3 & H4). rewrite Es. split.
        - intros _. split; [exact H4|]. exists k'. split; [exact H2|]. intros [].
        - intros; exact H3. }
      destruct (nc_srv nc1); [|intros [H1 H2]; auto|auto]. destruct (v_inf n); auto.
    - eapply NodeOK_xs; [|exact HN]. intros i Hm Hx. exfalso. apply Hne.
      eapply memv_one; [exact HW|exact Hk1|exact Hk|exact Hm|]. unfold memv. apply in_or_app. left. apply (HX i Hx).
  Qed.

  Definition custs (l : list sview) : list Z := flat_map (fun t => match s_cust t with Some c => [c] | None => [] end) l.
  Lemma custs_In l c : In c (custs l) <-> exists t, In t l /\ s_cust t = Some c.
  Proof.
    unfold custs. rewrite in_flat_map. split.
    - intros (t & Ht & Hc). exists t. split; [exact Ht|]. destruct (s_cust t); [destruct Hc as [->|[]]; reflexivity|destruct Hc].
    - intros (t & Ht & Hc). exists t. split; [exact Ht|]. rewrite Hc. left. reflexivity.
  Qed.

  Lemma ht_take_off_pre b f j nc sch : nthZ (cf_nodes cf) (j - 1) = Some nc -> nc_srv nc = SSched sch -> (sc_pre sch =? 0) = false ->
    ht (fun w => LN b [] None [] j [] [] w) (take_servers_off_duty cf f j (sc_pre sch)) (fun _ w => LN b [] None [] j [] [] w).
  Proof.
    intros Hnc Hsc Hpre. unfold take_servers_off_duty. rewrite Hpre.
    assert (Hns : forall nc', nthZ (cf_nodes cf) (j - 1) = Some nc' -> nc_slotted nc' = false).
    { intros nc' E. assert (nc' = nc) by congruence. subst nc'. unfold nc_slotted. rewrite Hsc. reflexivity. }
    destruct (sc_pre0 j nc sch Hnc Hsc) as [Hp4 _].
    hnode nd. eapply ht_bind with (Q := fun _ w => LN b [] None [] j [] [] w /\ cur j nd w).
    { destruct (n_next_date nd); [eapply ht_post; [apply ht_ret|]; intros ? w ? [H _]; exact H|apply ht_fail]. }
    intros se.
    set (ids := map sv_id (n_servers nd)). set (X := custs (v_srv (nv nd))).
    eapply ht_pre with (P := fun w => (LN b [] None X j [] [] w /\ Sh j X ids 0 w) /\ NoDup ids).
    { intros w _ [HLN [Hid Hn]]. pose proof (LN_LV _ _ _ _ _ _ _ _ HLN) as HL. destruct (LV_node _ _ _ _ _ _ HL Hn) as (k & nc' & Hjk & Hk & Hc & Hcz & HN).
      assert (nc' = nc) by congruence. subst nc'.
      assert (Hinf : v_inf (nv nd) = false) by (unfold NodeOK in HN; rewrite Hsc in HN; apply HN).
      pose proof (NodeOK_fin nc None [] (nv nd) _ _ (Hns nc Hnc) Hinf HN) as HF.
      assert (Eids : sids (v_srv (nv nd)) = ids) by (unfold sids, ids; cbn; rewrite map_map; reflexivity).
      split; [split; [eapply LN_xs; [|exact HLN]; intros ? []|]|rewrite <- Eids; exact (fo_nd _ _ _ _ _ _ _ _ HF)].
      exists (nv nd). split; [exact Hn|]. split; [exact Hinf|]. split; [exact Eids|]. split; [|split; [|split]].
      - intros t c Ht Htc. apply custs_In. eauto.
      - intros c Hc'. apply custs_In in Hc' as (t & Ht & Htc). destruct (fo_cust _ _ _ _ _ _ _ _ HF t c Ht Htc) as [H1 H2].
        split; [unfold memv in H1; cbn [vmof] in H1; rewrite app_nil_r in H1; exact H1|]. split; [eauto|eauto].
      - intros m t c Hm. lia.
      - intros m t c _ Ht Htc Hin. destruct (fo_cust _ _ _ _ _ _ _ _ HF t c (nth_error_In _ _ Ht) Htc) as [_ H2].
        destruct (fo_int _ _ _ _ _ _ _ _ HF c Hin) as [_ Hst]. destruct (Hst (fun F => F)) as (_ & k' & Hk' & Hs').
        rewrite H2 in Hk'. injection Hk' as <-. apply Hs'. apply in_map. eapply nth_error_In; eauto. }
    apply ht_ctx. intros HN.
    eapply ht_bind with (Q := fun _ => Pk b j X ids).
    { eapply ht_post; [apply (ht_off_duty_loop b f j (sc_pre sch) se X ids Hp4 Hns)|].
      - unfold ids. rewrite map_length. lia.
      - intros ? w ? (HL & idx' & Hlen & HSh). eapply Sh_Pk; eauto. }
    intros ?. eapply ht_bind; [apply ht_sort_int|intros ?].
    eapply ht_post; [apply (ht_forM_PF (fun S w => Pk b j X S w) (kill_server j))|].
    - intros sid S _. apply ht_kill_pk.
    - exact HN.
    - intros ? w ? H. apply (Pk_done b j X w). exact H.
  Qed.

  Lemma nv_change_shift nd a bb c0 : nd_inf nd = false ->
    nv (nd <| n_spos := a |> <| n_next_shift := bb |> <| n_c := Some c0 |>) = nv nd.
  Proof. intros H. destruct nd. unfold nv, nd_inf in *. cbn in *. rewrite H. reflexivity. Qed.

  Lemma ht_change_shift b j : ht (fun w => LN b [] None [] 0 [] [] w) (change_shift cf j) (fun _ w => LN b [] None [] 0 [] [] w).
  Proof.
    unfold change_shift, ncfg_of. hliftc nc Hnc. destruct (nc_srv nc) as [|sch|] eqn:Hsc; try apply ht_fail.
    assert (Hsch : forall nc', nthZ (cf_nodes cf) (j - 1) = Some nc' -> exists sc', nc_srv nc' = SSched sc') by (intros nc' E; assert (nc' = nc) by congruence; subst nc'; eauto).
    hnode nd. hK. cbv zeta.
    eapply ht_bind with (Q := fun _ w => LN b [] None [] j [] [] w).
    { eapply ht_post; [apply ht_put_node|]. intros _ w HI (w0 & HI0 & (HLN & [Hid Hn]) & ->). pose proof HLN as [HL HNI].
      destruct (sched_fin _ _ _ _ _ _ HL Hn Hsch) as [Hinf _]. rewrite nv_change_shift by exact Hinf.
      rewrite wputn_same; [|rewrite (wnode_id _ _ _ HI0 Hn); unfold wnode in Hn; destruct (j <? 1); [discriminate|exact Hn]].
      split; [exact HL|]. intros Hb. eapply N_ex_enter; [exact HI0| |exact (HNI Hb)]. intros h []. }
    intros ?. hK.
    eapply ht_bind with (Q := fun _ w => LN b [] None [] j [] [] w).
    { destruct (sc_pre sch =? 0) eqn:Ep; [apply Z.eqb_eq in Ep; eapply ht_take_off_nonpre; eauto|eapply ht_take_off_pre; eauto]. }
    intros ?. eapply ht_bind; [apply ht_add_new_servers; exact Hsch|intros ?]. apply ht_bsip_change_shift. exact Hsch.
  Qed.

  (* ---------- slotted services ---------- *)
  Lemma iv_set_srv x a bb : iv (x <| i_send := a |> <| i_server := bb |>) = (i_id x, (bb, i_interrupted x)).
  Proof. destruct x; reflexivity. Qed.

  Lemma LN_slot_isv b fl vm xs ej hs wx w j n nc i o bb :
    LN b fl vm xs ej hs wx w -> wnode w j = Some n -> nthZ (cf_nodes cf) (j - 1) = Some nc -> nc_slotted nc = true -> In i (memv vm n) ->
    LN b fl vm xs ej hs wx (wputi (i, (o, bb)) w).
  Proof.
    intros [HL HNI] Hn Hnc Hsl Hi. pose proof (LV_idx _ _ _ _ HL) as HI. destruct (wnode_nth _ _ _ Hn) as (k & Hjk & Hk).
    split.
    - rewrite <- (wputn_same n w) at 1; [|rewrite (wnode_id _ _ _ HI Hn); unfold wnode in Hn; destruct (j <? 1); [discriminate|exact Hn]].
      eapply LV_step_io; [exact HL|exact Hk|exact Hi|reflexivity..|].
      intros nc2 Hc2 HN2. assert (nc2 = nc) by (rewrite Hjk, nthZ_of_nat in Hnc; congruence). subst nc2.
      unfold NodeOK in *. unfold nc_slotted in Hsl. destruct (nc_srv nc); try discriminate. exact HN2.
    - intros Hb. eapply N_step with (k := k) (n := n) (n' := n) (hs := hs) (wx := wx); try exact HL; try exact (HNI Hb); try exact Hk; try reflexivity; auto.
      + cbn. symmetry. apply upd_same. exact Hk.
      + intros i' Hi'. cbn. rewrite fiv_putiv. cbn. destruct (i =? i') eqn:E; [apply Z.eqb_eq in E; subst i'; contradiction|reflexivity].
      + intros nc2 Hc2 Hs2. assert (nc2 = nc) by (rewrite Hjk, nthZ_of_nat in Hnc; congruence). subst nc2. congruence.
  Qed.

  Lemma ht_slot_loop b j nc : nthZ (cf_nodes cf) (j - 1) = Some nc -> nc_slotted nc = true ->
    forall k, ht (fun w => LN b [] None [] 0 [] [] w) (slot_loop cf k j) (fun _ w => LN b [] None [] 0 [] [] w).
  Proof.
    intros Hnc Hsl. induction k as [|k IH]; cbn [slot_loop]; [eapply ht_post; [apply ht_ret|]; intros ? w ? [H _]; exact H|].
    hK. hnode nd.
    eapply ht_bind with (Q := fun cand w => LN b [] None [] 0 [] [] w /\ Cn j cand w).
    { destruct (0 <? n_nint nd).
      - hliftc i Hi. eapply ht_pre; [|apply ht_false]. intros w _ [HLN [Hid Hn]]. pose proof (LN_LV _ _ _ _ _ _ _ _ HLN) as HL.
        destruct (LV_node _ _ _ _ _ _ HL Hn) as (kk & nc' & Hjk & Hk & Hc & Hcz & HN). assert (nc' = nc) by congruence. subst nc'.
        destruct (NodeOK_slot _ _ _ _ _ _ Hsl HN) as [E _]. cbn in E. rewrite E in Hi. discriminate.
      - eapply ht_post; [apply ht_choose|]. intros c w _ [[HL _] HC]. auto. }
    intros cand. eapply ht_bind with (Q := fun _ w => LN b [] None [] 0 [] [] w); [|intros ?; exact IH].
    destruct cand as [i|]; [|eapply ht_post; [apply ht_ret|]; intros ? w ? [[HL _] _]; exact HL].
    hK. hK. hind x. hK.
    eapply ht_bind with (Q := fun _ w => LN b [] None [] 0 [] [] w); [|intros ?; hk].
    eapply ht_post; [apply ht_put_ind|]. intros _ w _ (w0 & HI0 & ((HL & HC) & [Hxi Hxf]) & ->).
    rewrite iv_set_srv, Hxi. destruct HC as (n & Hn & Hm & _).
    eapply LN_slot_isv; [exact HL|exact Hn|exact Hnc|exact Hsl|]. unfold memv. apply in_or_app. left. exact Hm.
  Qed.

  Lemma ht_slotted_service b j : ht (fun w => LN b [] None [] 0 [] [] w) (slotted_service cf j) (fun _ w => LN b [] None [] 0 [] [] w).
  Proof.
    unfold slotted_service, ncfg_of. hliftc nc Hnc. destruct (nc_srv nc) as [| |sl] eqn:Hsc; try apply ht_fail.
    assert (Hsl : nc_slotted nc = true) by (unfold nc_slotted; rewrite Hsc; reflexivity).
    assert (Hno : sl_cap sl && negb (sl_pre sl =? 0) = false).
    { pose proof (scope_at j nc HS Hnc) as H. unfold scope_nc in H. rewrite Hsc in H. apply andb_true_iff in H as [_ H].
      destruct (sl_cap sl); [|reflexivity]. cbn in H |- *. rewrite H. reflexivity. }
    hnode nd. hK. cbv zeta. rewrite Hno.
    eapply ht_bind with (Q := fun _ w => LN b [] None [] 0 [] [] w); [eapply ht_post; [apply ht_ret|]; intros ? w ? [[HL _] _]; exact HL|intros ?].
    eapply ht_bind; [apply (ht_slot_loop b j nc Hnc Hsl)|intros ?]. hk.
  Qed.

  (* ---------- the arrival node ---------- *)
  Lemma ht_send_individual b j i fl : ht (fun w => LN b (i :: fl) None [] 0 [] [] w) (send_individual cf j i) (fun _ w => LN b fl None [] 0 [] [] w).
  Proof. unfold send_individual. hK. hK. apply ht_accept. Qed.
  Lemma ht_release_individual b j i fl : ht (fun w => LN b (i :: fl) None [] 0 [] [] w) (release_individual cf j i) (fun _ w => LN b fl None [] 0 [] [] w).
  Proof.
    unfold release_individual. hK. hK. hK. hK.
    match goal with |- ht _ (if ?c then _ else _) _ => destruct c end; [hK; apply ht_exit_accept|].
    hK. hK. match goal with |- ht _ (match ?t with _ => _ end) _ => destruct t end; [|apply ht_send_individual].
    hK. match goal with |- ht _ (if ?c then _ else _) _ => destruct c end; [hK; apply ht_exit_accept|apply ht_send_individual].
  Qed.

  Definition decr (w : view) : view := mkVw (w_ns w) (w_ex w) (w_en w) (w_cr w - 1) (w_is w).
  Lemma iv_new_ind i c p r : iv (new_ind i c p r) = (i, (None, false)).
  Proof. reflexivity. Qed.

  Lemma ht_batch_loop b : forall n j c p, ht (fun w => LN b [] None [] 0 [] [] w) (batch_loop cf n j c p) (fun _ w => LN b [] None [] 0 [] [] w).
  Proof.
    induction n as [|n IH]; intros j c p; cbn [batch_loop]; [eapply ht_post; [apply ht_ret|]; intros ? w ? [H _]; exact H|].
    eapply ht_bind with (Q := fun _ w => LN b [] None [] 0 [] [] (decr w)).
    { eapply ht_vw with (F := fun w => mkVw (w_ns w) (w_ex w) (w_en w) (w_cr w + 1) (w_is w)).
      - intros s a s' E _. apply modify_inv in E. rewrite E. reflexivity.
      - intros _ w HI HL. split; [exact HI|]. unfold decr. cbn. replace (w_cr w + 1 - 1) with (w_cr w) by lia. destruct w; exact HL. }
    intros ?. eapply ht_bind; [apply ht_gets_cr|intros i]. hK. hK. hK.
    eapply ht_bind with (Q := fun _ w => LN b [i] None [] 0 [] [] w); [|intros ?; eapply ht_bind; [apply ht_release_individual|intros ?; apply IH]].
    eapply ht_post; [apply ht_put_ind|]. intros _ w _ (w0 & HI0 & ([HL HNI] & ->) & ->). rewrite iv_new_ind.
    pose proof (LV_spawn [] (decr w0) HL) as H. unfold decr in H. cbn in H. replace (w_cr w0 - 1 + 1) with (w_cr w0) in H by lia.
    split; [exact H|]. intros Hb. eapply N_inds; [exact (HNI Hb)|reflexivity|]. intros k nn c0 Hk Hc0. cbn. rewrite fiv_putiv. cbn.
    destruct (w_cr w0 =? c0) eqn:E; [|reflexivity]. apply Z.eqb_eq in E. subst c0. exfalso.
    destruct HL as (HW & _). pose proof (Conserve2.WFsh_fresh _ HW) as Hfr. cbn in Hfr. apply Hfr. replace (w_cr w0 - 1 + 1) with (w_cr w0) by lia.
    apply (W_rec _ _ _ HW). left. eapply (in_mem_all (decr w0)); eauto.
  Qed.

  Lemma ht_arrival b : ht (fun w => LN b [] None [] 0 [] [] w) (arrival_have_event cf) (fun _ w => LN b [] None [] 0 [] [] w).
  Proof.
    unfold arrival_have_event. hK. hK. hK. hK. eapply ht_bind; [apply ht_batch_loop|intros ?]. hk.
  Qed.

  (* ---------- the boundary facts about the candidates of the next event ---------- *)
  Definition NOKn (j : Z) (nd : node) (w : view) : Prop :=
    (n_next_type nd = 0 -> forall i, In i (n_next_inds nd) -> NIa j i w) /\
    (n_next_type nd = 2 -> forall i, In i (n_next_inds nd) -> isvv w i = None) /\
    (n_next_type nd = 3 -> cf_dyn cf = true).
  Definition NextOK (s : sim) : Prop := forall j nd, 1 <= j -> nthZ (nodes s) (j - 1) = Some nd -> NOKn j nd (VW s).

  Lemma ht_node_have_event b j :
    htS (fun s => LN b [] None [] 0 [] [] (VW s) /\ NextOK s) (node_have_event cf j) (fun _ w => LN b [] None [] 0 [] [] w).
  Proof.
    intros s a s' HI [HL HX] E. unfold node_have_event in E. minv E nd s1 E1. apply get_node_spec in E1 as (-> & Hj & Hn).
    destruct (HX j nd Hj Hn) as (H0 & H2 & H3).
    assert (Hsame : forall nd', nthZ (nodes s) (j - 1) = Some nd' -> nd' = nd) by (intros nd' E'; congruence).
    destruct (n_next_type nd =? 0) eqn:E0.
    { apply Z.eqb_eq in E0. eapply ht_finish_service; [exact HI| |exact E]. split; [exact HL|]. intros nd' Hn'. rewrite (Hsame _ Hn'). auto. }
    destruct (n_next_type nd =? 1) eqn:E1; [eapply ht_change_shift; eauto|].
    destruct (n_next_type nd =? 2) eqn:E2.
    { apply Z.eqb_eq in E2. eapply ht_renege; [exact HI| |exact E]. split; [exact HL|]. intros nd' Hn'. rewrite (Hsame _ Hn'). auto. }
    destruct (n_next_type nd =? 3) eqn:E3; [apply Z.eqb_eq in E3; eapply ht_ccww; eauto|].
    destruct (n_next_type nd =? 4) eqn:E4; [eapply ht_slotted_service; eauto|].
    apply ret_inv in E as [_ ->]. auto.
  Qed.

  Lemma scan_servers_In l : forall best acc d r, scan_servers l best acc = (d, r) ->
    forall i, In i r -> In i acc \/ exists sv, In sv l /\ sv_cust sv = Some i.
  Proof.
    induction l as [|sv l IH]; intros best acc d r H i Hi; cbn [scan_servers] in H; [injection H as _ <-; left; exact Hi|].
    destruct (date_lt (sv_next_end sv) best).
    - destruct (IH _ _ _ _ H i Hi) as [Ha|(sv' & Hs & Hc)]; [|right; exists sv'; split; [right; exact Hs|exact Hc]].
      destruct (sv_cust sv) as [c|] eqn:Ec; [destruct Ha as [<-|[]]; right; exists sv; split; [left; reflexivity|exact Ec]|destruct Ha].
    - destruct (date_eqb (sv_next_end sv) best && match best with Some _ => true | None => false end).
      + destruct (IH _ _ _ _ H i Hi) as [Ha|(sv' & Hs & Hc)]; [|right; exists sv'; split; [right; exact Hs|exact Hc]].
        apply in_app_or in Ha as [Ha|Ha]; [left; exact Ha|].
        destruct (sv_cust sv) as [c|] eqn:Ec; [destruct Ha as [<-|[]]; right; exists sv; split; [left; reflexivity|exact Ec]|destruct Ha].
      + destruct (IH _ _ _ _ H i Hi) as [Ha|(sv' & Hs & Hc)]; [left; exact Ha|right; exists sv'; split; [right; exact Hs|exact Hc]].
  Qed.

  Lemma unx_spec j s s' : update_next_event_date cf j s = Ok (tt, s') ->
    exists nd d l ty, 1 <= j /\ nthZ (nodes s) (j - 1) = Some nd /\
      s' = s <| nodes := updZ (nodes s) (n_id nd - 1) (nd <| n_next_date := d |> <| n_next_inds := l |> <| n_next_type := ty |>) |> /\
      (ty = 0 -> nd_inf nd = false -> (forall nc, nthZ (cf_nodes cf) (j - 1) = Some nc -> nc_slotted nc = false) ->
         forall i, In i l -> exists sv, In sv (n_servers nd) /\ sv_cust sv = Some i) /\
      (ty = 2 -> forall i, In i l -> isvv (VW s) i = None) /\
      (ty = 3 -> cf_dyn cf = true).
  Proof.
    intros H. unfold update_next_event_date in H.
    minv H nd s1 E1. apply get_node_spec in E1 as (-> & Hj & Hn).
    minv H nc s1 E2. unfold ncfg_of in E2. apply lift_inv in E2 as [Hc ->].
    minv H t s1 E3. apply gets_inv in E3 as [-> ->].
    minv H il s1 E4. apply gets_inv in E4 as [-> ->].
    cbv zeta in H.
    set (es := if nc_slotted nc || nd_inf nd then scan_inds (now s) (all_individuals nd) (inds s) None [] else scan_servers (n_servers nd) None []) in H.
    minv H rn s1 E5.
    assert (Hrn : s1 = s /\ if negb (nd_inf nd) && nc_reneging nc then scan_ren (all_individuals nd) (inds s) None [] = Some rn else rn = (None, [])).
    { destruct (negb (nd_inf nd) && nc_reneging nc); [apply lift_inv in E5 as [E5 ->]; auto|apply ret_inv in E5 as [-> ->]; auto]. }
    destruct Hrn as [-> Hrn]. clear E5.
    set (cc := if cf_dyn cf && negb (nd_inf nd) then (n_nccd nd, match n_ncci nd with Some i => [i] | None => [] end) else (None, [])) in H.
    set (sh := match nc_srv nc with
               | SSched _ => [(1, (n_next_shift nd, []))]
               | SSlot sl => [(4, (Some (snd (slot_values sl (Z.to_nat (n_spos nd)))), []))]
               | SFixed => [] end) in H.
    assert (Hes : nd_inf nd = false -> (forall nc', nthZ (cf_nodes cf) (j - 1) = Some nc' -> nc_slotted nc' = false) ->
                  forall i, In i (snd es) -> exists sv, In sv (n_servers nd) /\ sv_cust sv = Some i).
    { intros Hinf Hns i Hi. unfold es in Hi. rewrite (Hns nc Hc), Hinf in Hi. cbn [orb] in Hi.
      destruct (scan_servers (n_servers nd) None []) as [d0 r0] eqn:Es. destruct (scan_servers_In _ _ _ _ _ Es i Hi) as [[]|H0]. exact H0. }
    destruct (nc_reneging nc || cf_dyn cf || nc_sched nc) eqn:Eg.
    - destruct (decide_next_event (sh ++ [(0, es); (3, cc); (2, rn)]) (5, (None, []))) as [ty [d l]] eqn:ED.
      unfold put_node in H. apply modify_inv in H. exists nd, d, l, ty. split; [exact Hj|]. split; [exact Hn|]. split; [exact H|].
      pose proof (Renege2.dne_spec (sh ++ [(0, es); (3, cc); (2, rn)]) (5, (None, []))) as D. cbv zeta in D. rewrite ED in D. cbn [fst snd] in D.
      destruct D as (DA & _ & _).
      assert (Hcand : ty = 5 \/ ((In (ty, (d, l)) sh \/ (ty, (d, l)) = (0, es) \/ (ty, (d, l)) = (3, cc) \/ (ty, (d, l)) = (2, rn)) /\ exists z, d = Some z)).
      { destruct DA as [DA|(DA & z & Hz)]; [left; congruence|]. right. split; [|eauto]. apply in_app_or in DA as [DA|DA]; [auto|].
        destruct DA as [DA|[DA|[DA|[]]]]; auto. }
      assert (Hsh : forall t0, In (t0, (d, l)) sh -> t0 = 1 \/ t0 = 4).
      { intros t0 Hin. unfold sh in Hin. destruct (nc_srv nc); [destruct Hin|destruct Hin as [E|[]]; injection E as <- _ _; auto|destruct Hin as [E|[]]; injection E as <- _ _; auto]. }
      split; [|split].
      + intros -> Hinf Hns i Hi. destruct Hcand as [?|[[Hin|[E|[E|E]]] _]]; try lia; try (destruct (Hsh _ Hin); lia); try discriminate E.
        assert (Ees : es = (d, l)) by congruence. apply Hes; try assumption. rewrite Ees. exact Hi.
      + intros -> i Hi. destruct Hcand as [?|[[Hin|[E|[E|E]]] [z Hz]]]; try lia; try (destruct (Hsh _ Hin); lia); try discriminate E.
        injection E as Ern. destruct (negb (nd_inf nd) && nc_reneging nc).
        * rewrite <- Ern in Hrn. destruct (Renege2.scan_ren_spec _ _ _ _ _ _ Hrn) as (_ & _ & _ & G4 & _).
          destruct (G4 i Hi) as [[[] _]|(_ & z' & (x & Hx & _ & Hs) & _)]. unfold isvv. cbn. rewrite fiv_find, Hx. exact Hs.
        * rewrite <- Ern in Hrn. injection Hrn as -> _. discriminate.
      + intros ->. destruct Hcand as [?|[[Hin|[E|[E|E]]] [z Hz]]]; try lia; try (destruct (Hsh _ Hin); lia); try discriminate E.
        injection E as Ecc. unfold cc in Ecc. destruct (cf_dyn cf); [reflexivity|]. cbn in Ecc. injection Ecc as -> _. discriminate.
    - unfold put_node in H. apply modify_inv in H. exists nd, (fst es), (snd es), 0. split; [exact Hj|]. split; [exact Hn|]. split; [exact H|].
      split; [intros _; exact Hes|]. split; intros; lia.
  Qed.

  Lemma nthZ_updZ_eq {A} (l : list A) a x y : nthZ l a = Some y -> nthZ (updZ l a x) a = Some x.
  Proof. unfold nthZ, updZ. destruct (a <? 0); [discriminate|]. apply nth_error_upd_eq. Qed.
  Lemma nthZ_updZ_neq {A} (l : list A) a b x : a <> b -> nthZ (updZ l a x) b = nthZ l b.
  Proof.
    intros Hne. unfold nthZ, updZ. destruct (b <? 0) eqn:Eb; [reflexivity|]. destruct (a <? 0) eqn:Ea; [reflexivity|].
    apply Z.ltb_ge in Ea, Eb. apply nth_error_upd_neq. lia.
  Qed.

  Lemma unx_nok j s s' : idxv (VW s) -> LV [] None [] (VW s) -> update_next_event_date cf j s = Ok (tt, s') ->
    VW s' = VW s /\ exists nd nd', 1 <= j /\ nthZ (nodes s) (j - 1) = Some nd /\ n_id nd = j /\
      nodes s' = updZ (nodes s) (j - 1) nd' /\ NOKn j nd' (VW s).
  Proof.
    intros HI HL H. split; [eapply pv_update_next_event_date; eauto; exact I|].
    destruct (unx_spec _ _ _ H) as (nd & d & l & ty & Hj & Hn & -> & T0 & T2 & T3).
    destruct (get_node_okn j s nd HI Hn) as [Hid _]. exists nd. eexists. split; [exact Hj|]. split; [exact Hn|]. split; [exact Hid|].
    split; [cbn; rewrite Hid; reflexivity|]. split; [|split]; cbn.
    - intros Hty i Hi n Hw Hinf Hin. pose proof (wnode_VW s j nd Hj Hn) as Hw'. rewrite Hw' in Hw. injection Hw as <-.
      destruct (LV_node _ _ _ _ _ _ HL Hw') as (k & nc & Hjk & Hk & Hc & Hcz & HN).
      destruct (nc_slotted nc) eqn:Es.
      + destruct (NodeOK_slot _ _ _ _ _ _ Es HN) as [E _]. rewrite E in Hin. destruct Hin.
      + pose proof (NodeOK_fin nc None [] (nv nd) _ _ Es Hinf HN) as HF.
        destruct (T0 Hty Hinf ltac:(intros nc' E'; congruence) i Hi) as (sv & Hsv & Hcu).
        assert (Hin' : In (sc sv) (v_srv (nv nd))) by (cbn; apply in_map; exact Hsv).
        destruct (fo_cust _ _ _ _ _ _ _ _ HF (sc sv) i Hin' Hcu) as [_ Hf].
        destruct (fo_int _ _ _ _ _ _ _ _ HF i Hin) as [_ Hst]. destruct (Hst (fun F => F)) as (_ & k' & Hk' & Hs').
        rewrite Hf in Hk'. injection Hk' as <-. apply Hs'. apply (in_map s_id _ _ Hin').
    - intros Hty. apply T2. exact Hty.
    - exact T3.
  Qed.

  Lemma update_all_nok : forall js s s', idxv (VW s) -> LV [] None [] (VW s) -> update_all cf js s = Ok (tt, s') ->
    VW s' = VW s /\ forall j nd', 1 <= j -> nthZ (nodes s') (j - 1) = Some nd' ->
      (In j js -> NOKn j nd' (VW s)) /\ (~ In j js -> nthZ (nodes s) (j - 1) = Some nd').
  Proof.
    induction js as [|j0 r IH]; intros s s' HI HL H; cbn [update_all] in H.
    - apply ret_inv in H as [_ ->]. split; [reflexivity|]. intros j nd' _ Hn. split; [intros []|auto].
    - minv H u s1 E1. destruct u. destruct (unx_nok _ _ _ HI HL E1) as (V1 & nd & nd0 & Hj0 & Hn0 & Hid0 & En1 & HK0).
      assert (HI1 : idxv (VW s1)) by (rewrite V1; exact HI). assert (HL1 : LV [] None [] (VW s1)) by (rewrite V1; exact HL).
      destruct (IH _ _ HI1 HL1 H) as (V2 & Hr). split; [congruence|]. intros j nd' Hj Hn'. destruct (Hr j nd' Hj Hn') as [R1 R2]. rewrite V1 in R1.
      destruct (in_dec Z.eq_dec j r) as [Hin|Hnin].
      + split; [intros _; auto|]. intros Hn. exfalso. apply Hn. right. exact Hin.
      + specialize (R2 Hnin). rewrite En1 in R2. destruct (Z.eq_dec j j0) as [->|Hne].
        * rewrite (nthZ_updZ_eq _ _ _ _ Hn0) in R2. injection R2 as <-. split; [intros _; exact HK0|]. intros Hn. exfalso. apply Hn. left. reflexivity.
        * rewrite nthZ_updZ_neq in R2 by lia. split; [intros [E|F]; [congruence|contradiction]|intros _; exact R2].
  Qed.

  Lemma fnan_spec s u s' : find_next_active_node s = Ok (u, s') -> nodes s' = nodes s /\ inds s' = inds s.
  Proof.
    unfold find_next_active_node. intros H. minv H s0 s1 E1. apply gets_inv in E1 as [-> ->].
    destruct (scan_active 0 (a_next_date (arr s) :: map n_next_date (nodes s)) None []) as [d cands].
    minv H k s1 E2.
    assert (Hs1 : nodes s1 = nodes s /\ inds s1 = inds s).
    { destruct cands as [|a [|b r]]; [discriminate|apply ret_inv in E2 as [_ ->]; auto|].
      unfold choice_uniform in E2. minv E2 x s2 E3. apply lift_inv in E2 as [_ ->].
      unfold draw_unif in E3. destruct (d_unif (dr s)); [discriminate|]. injection E3 as _ <-. auto. }
    apply modify_inv in H. rewrite H. cbn. exact Hs1.
  Qed.


  (* ---------- one event ---------- *)
  Lemma event_step_both b s s' : LN b [] None [] 0 [] [] (VW s) -> NextOK s -> event_step cf s = Ok (tt, s') ->
    LN b [] None [] 0 [] [] (VW s') /\ NextOK s'.
  Proof.
    intros HL HX H. unfold event_step in H.
    minv H u0 s0 E0. apply modify_inv in E0.
    assert (V0 : VW s0 = VW s) by (rewrite E0; reflexivity). assert (N0 : nodes s0 = nodes s) by (rewrite E0; reflexivity).
    assert (HL0 : LN b [] None [] 0 [] [] (VW s0)) by (rewrite V0; exact HL).
    assert (HX0 : NextOK s0) by (intros j nd Hj Hn; rewrite V0; apply HX; [exact Hj|rewrite <- N0; exact Hn]).
    pose proof (LV_idx _ _ _ _ (LN_LV _ _ _ _ _ _ _ _ HL0)) as HI0.
    minv H k s0' E1. apply gets_inv in E1 as [-> ->].
    minv H u1 s1 E2.
    assert (HL1 : idxv (VW s1) /\ LN b [] None [] 0 [] [] (VW s1)).
    { destruct (next_active s0 =? 0); [eapply ht_arrival; eauto|eapply ht_node_have_event; eauto]. }
    destruct HL1 as [HI1 HL1].
    minv H ns s1' E3. apply gets_inv in E3 as [-> ->].
    minv H u2 s2 E4. destruct u2.
    destruct (update_all_nok _ _ _ HI1 (LN_LV _ _ _ _ _ _ _ _ HL1) E4) as (V2 & HN2).
    assert (V3 : VW s' = VW s2) by (eapply pv_find_next_active_node; [rewrite V2; exact HI1|exact I|exact H]).
    destruct (fnan_spec _ _ _ H) as [N3 _].
    split; [rewrite V3, V2; exact HL1|].
    intros j nd Hj Hn. rewrite V3, V2. rewrite N3 in Hn. apply (HN2 j nd Hj Hn).
    assert (Hv : nthZ (map nv (nodes s1)) (j - 1) = Some (nv nd)).
    { assert (E : map nv (nodes s2) = map nv (nodes s1)) by (apply (f_equal w_ns) in V2; exact V2). rewrite <- E, nthZ_map, Hn. reflexivity. }
    rewrite nthZ_map in Hv. destruct (nthZ (nodes s1) (j - 1)) as [nd1|] eqn:E1; [|discriminate]. cbn in Hv. injection Hv as Hv.
    destruct (get_node_okn j s1 nd1 HI1 E1) as [Hid _]. rewrite <- Hid. apply in_map. unfold nthZ in E1. destruct (j - 1 <? 0); [discriminate|].
    eapply nth_error_In; eauto.
  Qed.

  (* C04: the link invariant *)
  Definition SrvInv2 (s : sim) : Prop := LV [] None [] (VW s) /\ NextOK s.
  (* C05: at a finite, not slotted node, whenever a customer is waiting (is at the node and records no server) every server on
     duty is busy *)
  Definition NonIdle2 (s : sim) : Prop := NIv 0 [] [] (VW s).

  Theorem event_step_srv2 s s' : SrvInv2 s -> event_step cf s = Ok (tt, s') -> SrvInv2 s'.
  Proof.
    intros [HL HX] H. destruct (event_step_both false s s' (conj HL (fun F => False_ind _ (Bool.diff_false_true F))) HX H) as [[HL' _] HX']. split; assumption.
  Qed.
  Theorem event_step_nonidle2 s s' : SrvInv2 s -> NonIdle2 s -> event_step cf s = Ok (tt, s') -> NonIdle2 s'.
  Proof.
    intros [HL HX] HN H. destruct (event_step_both true s s' (conj HL (fun _ => HN)) HX H) as [[_ HN'] _]. exact (HN' eq_refl).
  Qed.
  End Core.
End Link.

(* ====================================================================================================================== *)
(* Part 7.  Runs                                                                                                          *)
(* ====================================================================================================================== *)
Theorem run_many_srv2 cf : srv_scope cf = true -> forall ds s s', SrvInv2 cf s -> run_many cf s ds = Ok s' -> SrvInv2 cf s'.
Proof.
  intros HS. induction ds as [|d r IH]; intros s s' HI H; cbn [run_many] in H; [inversion H; subst s'; exact HI|].
  destruct (event_step cf (s <| dr := d |>)) as [[u s1]| |] eqn:E; try discriminate. destruct u.
  eapply IH; [|exact H]. eapply event_step_srv2; [exact HS| |exact E].
  destruct HI as [HL HX]. split; [exact HL|]. intros j nd Hj Hn. apply (HX j nd Hj Hn).
Qed.
Theorem run_many_nonidle2 cf : srv_scope cf = true -> forall ds s s', SrvInv2 cf s -> NonIdle2 cf s -> run_many cf s ds = Ok s' -> NonIdle2 cf s'.
Proof.
  intros HS. induction ds as [|d r IH]; intros s s' HI HN H; cbn [run_many] in H; [inversion H; subst s'; exact HN|].
  destruct (event_step cf (s <| dr := d |>)) as [[u s1]| |] eqn:E; try discriminate. destruct u.
  assert (HI0 : SrvInv2 cf (s <| dr := d |>)) by (destruct HI as [HL HX]; split; [exact HL|]; intros j nd Hj Hn; apply (HX j nd Hj Hn)).
  eapply IH; [eapply event_step_srv2; eauto|eapply event_step_nonidle2; eauto|exact H].
Qed.

(* ====================================================================================================================== *)
(* Part 8.  The invariant in the words of C04                                                                            *)
(* ====================================================================================================================== *)
Definition isv (il : list ind) (i : Z) : option Z := match find_ind i il with Some x => i_server x | None => None end.
Definition iflg (il : list ind) (i : Z) : bool := match find_ind i il with Some x => i_interrupted x | None => false end.
Lemma isvv_VW s i : isvv (VW s) i = isv (inds s) i.
Proof. unfold isvv, isv. cbn. rewrite fiv_find. destruct (find_ind i (inds s)); reflexivity. Qed.
Lemma iflag_VW s i : iflag (VW s) i = iflg (inds s) i.
Proof. unfold iflag, iflg. cbn. rewrite fiv_find. destruct (find_ind i (inds s)); reflexivity. Qed.

(* customer i of the node is in service: the server it records is one of the node's servers *)
Definition in_service (nd : node) (il : list ind) (i : Z) : bool :=
  match isv il i with Some k => memZ k (map sv_id (n_servers nd)) | None => false end.

Lemma NoDup_incl_len (a b : list Z) : NoDup a -> incl a b -> (length a <= length b)%nat.
Proof. intros. apply NoDup_incl_length; assumption. Qed.

Lemma NoDup_map_inj {A B} (f : A -> B) (l : list A) : NoDup l -> (forall a b, In a l -> In b l -> f a = f b -> a = b) -> NoDup (map f l).
Proof.
  intros HNl Hinj. induction l as [|a r IH]; cbn; [constructor|]. inversion HNl as [|? ? Hn HNr]; subst. constructor.
  - intros Hin. apply in_map_iff in Hin as (b & E & Hb). apply Hn. rewrite (Hinj a b (or_introl eq_refl) (or_intror Hb) (eq_sym E)). exact Hb.
  - apply IH; [exact HNr|]. intros x y Hx Hy. apply Hinj; right; assumption.
Qed.

Theorem SrvInv2_means cf s : SrvInv2 cf s ->
  (* customers are conserved (C01) and node identities are positions *)
  Conserve2.WFx2 [] s /\
  forall k nd nc, nth_error (nodes s) k = Some nd -> nth_error (cf_nodes cf) k = Some nc -> nc_slotted nc = false ->
    if nd_inf nd
    then (* infinitely many servers: nobody records a server *)
         forall i, In i (all_individuals nd) -> isv (inds s) i = None
    else
      (* the servers present at the node (on duty, or finishing overtime) have distinct identities, none above highest_id *)
      NoDup (map sv_id (n_servers nd)) /\ (forall sv, In sv (n_servers nd) -> sv_id sv <= n_highest nd) /\
      (* a server is busy exactly when it holds a customer *)
      (forall sv, In sv (n_servers nd) -> sv_busy sv = match sv_cust sv with Some _ => true | None => false end) /\
      (* the customer a server holds is at this node and records exactly this server: no server has two customers *)
      (forall sv i, In sv (n_servers nd) -> sv_cust sv = Some i -> In i (all_individuals nd) /\ isv (inds s) i = Some (sv_id sv)) /\
      (* a customer of the node that records a server is either the customer of exactly that server (it is in service, and it
         keeps that server while it is blocked), or its server has been retired and it is on the list of interrupted customers *)
      (forall i sid, In i (all_individuals nd) -> isv (inds s) i = Some sid ->
         (exists sv, In sv (n_servers nd) /\ sv_id sv = sid /\ sv_cust sv = Some i) \/
         (~ In sid (map sv_id (n_servers nd)) /\ In i (n_interrupted nd))) /\
      (* interrupted customers are not in service: they are at the node, flagged, and record a retired server *)
      NoDup (n_interrupted nd) /\
      (forall i, In i (n_interrupted nd) -> In i (all_individuals nd) /\ iflg (inds s) i = true /\
                                            exists sid, isv (inds s) i = Some sid /\ ~ In sid (map sv_id (n_servers nd))) /\
      (* hence: no two customers share a server, and no more customers are in service than there are servers at the node *)
      (forall i i' sid, In i (all_individuals nd) -> In i' (all_individuals nd) -> in_service nd (inds s) i = true ->
         isv (inds s) i = Some sid -> isv (inds s) i' = Some sid -> i = i') /\
      NoDup (map (isv (inds s)) (filter (in_service nd (inds s)) (all_individuals nd))) /\
      (length (filter (in_service nd (inds s)) (all_individuals nd)) <= length (n_servers nd))%nat /\
      (* a node that pre-empts by priority has no server finishing overtime *)
      (nc_preempt nc <> 0 -> forall sv, In sv (n_servers nd) -> sv_offduty sv = false).
Proof.
  intros [(HW & HN & HF & HLen) _]. split; [unfold Conserve2.WFx2; rewrite <- shv_VW; exact HW|].
  intros k nd nc Hk Hc Hsl.
  assert (Hk' : nth_error (w_ns (VW s)) k = Some (nv nd)) by (cbn; rewrite nth_error_map, Hk; reflexivity).
  specialize (HN k (nv nd) nc Hk' Hc).
  assert (Hmem : memv None (nv nd) = all_individuals nd) by (unfold memv, mem; cbn; rewrite app_nil_r; reflexivity).
  destruct (nd_inf nd) eqn:Einf.
  - unfold NodeOK in HN. change (v_inf (nv nd)) with (nd_inf nd) in HN. rewrite Einf in HN. unfold nc_slotted in Hsl.
    destruct (nc_srv nc); [|destruct HN; discriminate|discriminate]. intros i Hi. rewrite <- isvv_VW. apply HN. rewrite Hmem. exact Hi.
  - pose proof (NodeOK_fin nc None [] (nv nd) _ _ Hsl Einf HN) as [A1 A2 A3 A4 A5 A6 A7 A8 A9]. rewrite Hmem in *.
    assert (Hids : sids (v_srv (nv nd)) = map sv_id (n_servers nd)) by (unfold sids; cbn; rewrite map_map; reflexivity).
    rewrite Hids in *.
    assert (Hin : forall sv, In sv (n_servers nd) -> In (sc sv) (v_srv (nv nd))) by (intros sv H; cbn; apply in_map; exact H).
    assert (Hlink : forall i sid, In i (all_individuals nd) -> isv (inds s) i = Some sid -> In sid (map sv_id (n_servers nd)) ->
                    exists sv, In sv (n_servers nd) /\ sv_id sv = sid /\ sv_cust sv = Some i).
    { intros i sid Hi Hs Hsid. apply in_map_iff in Hsid as (sv & E & Hsv). exists sv. split; [exact Hsv|]. split; [exact E|].
      rewrite <- isvv_VW in Hs. apply (proj2 (A5 _ _ Hi Hs) (sc sv) (Hin _ Hsv) E). }
    assert (Hshare : forall i i' sid, In i (all_individuals nd) -> In i' (all_individuals nd) -> in_service nd (inds s) i = true ->
         isv (inds s) i = Some sid -> isv (inds s) i' = Some sid -> i = i').
    { intros i i' sid Hi Hi' Hsv Hs Hs'. unfold in_service in Hsv. rewrite Hs in Hsv. apply memZ_In in Hsv.
      destruct (Hlink i sid Hi Hs Hsv) as (sv & H1 & H2 & H3). destruct (Hlink i' sid Hi' Hs' Hsv) as (sv' & H1' & H2' & H3').
      assert (sc sv = sc sv') by (eapply sv_unique; [rewrite Hids; exact A1|apply Hin; exact H1|apply Hin; exact H1'|cbn; congruence]).
      assert (sv_cust sv = sv_cust sv') by (apply (f_equal s_cust) in H; exact H). congruence. }
    split; [exact A1|]. split; [intros sv H; apply (A2 (sc sv)), Hin, H|]. split; [intros sv H; apply (A3 (sc sv)), Hin, H|].
    split; [intros sv i H Hcu; destruct (A4 (sc sv) i (Hin _ H) Hcu) as [B1 B2]; rewrite isvv_VW in B2; auto|].
    split.
    { intros i sid Hi Hs. destruct (in_dec Z.eq_dec sid (map sv_id (n_servers nd))) as [Hsid|Hsid]; [left; apply Hlink; assumption|].
      right. split; [exact Hsid|]. rewrite <- isvv_VW in Hs. eapply A9; eauto. }
    split; [exact A7|]. split.
    { intros i Hi. destruct (A8 i Hi) as [B1 B2]. destruct (B2 (fun F => F)) as (B3 & sid & B4 & B5). rewrite iflag_VW in B3. rewrite isvv_VW in B4. eauto. }
    split; [exact Hshare|].
    (* counting: the servers recorded by the customers in service are distinct servers of the node *)
    assert (HNd : NoDup (all_individuals nd)).
    { destruct (Conserve2.WFx2_means s ltac:(unfold Conserve2.WFx2; rewrite <- shv_VW; exact HW)) as (_ & HNd & _).
      unfold Conserve2.ids_of, Conserve2.ids_in_nodes in HNd. apply NoDup_app_l in HNd.
      clear -HNd Hk. revert k Hk. induction (nodes s) as [|x r IH]; intros [|k] Hk; cbn in *; try discriminate.
      - injection Hk as ->. eapply NoDup_app_l; eauto.
      - eapply IH; eauto. eapply NoDup_app_r; eauto. }
    set (l := filter (in_service nd (inds s)) (all_individuals nd)).
    set (g := fun i => match isv (inds s) i with Some sid => sid | None => 0 end).
    assert (HNl : NoDup l) by (apply NoDup_filter; exact HNd).
    assert (Hinj : forall a b, In a l -> In b l -> isv (inds s) a = isv (inds s) b -> a = b).
    { intros a b Ha Hb E. apply filter_In in Ha as [Ha1 Ha2]. apply filter_In in Hb as [Hb1 Hb2].
      unfold in_service in Ha2, Hb2. destruct (isv (inds s) a) as [ka|] eqn:Ea; [|discriminate]. destruct (isv (inds s) b) as [kb|] eqn:Eb; [|discriminate].
      injection E as <-. eapply Hshare; eauto. unfold in_service. rewrite Ea. exact Ha2. }
    split; [apply NoDup_map_inj; assumption|]. split; [|intros Hp sv H; apply (A6 Hp (sc sv)), Hin, H].
    assert (L1 : NoDup (map g l)).
    { apply NoDup_map_inj; [exact HNl|]. intros a b Ha Hb E. apply Hinj; try assumption.
      apply filter_In in Ha as [_ Ha2]. apply filter_In in Hb as [_ Hb2]. unfold in_service in Ha2, Hb2. unfold g in E.
      destruct (isv (inds s) a); [|discriminate]. destruct (isv (inds s) b); [|discriminate]. congruence. }
    assert (L2 : incl (map g l) (map sv_id (n_servers nd))).
    { intros x Hx. apply in_map_iff in Hx as (i & <- & Hi). apply filter_In in Hi as [_ Hi]. unfold in_service in Hi. unfold g.
      destruct (isv (inds s) i); [apply memZ_In; exact Hi|discriminate]. }
    pose proof (NoDup_incl_len _ _ L1 L2) as L3. rewrite !map_length in L3. exact L3.
Qed.

(* ====================================================================================================================== *)
(* Part 9.  An executable test of the invariant                                                                          *)
(* ====================================================================================================================== *)
Definition opt_eqb (a b : option Z) : bool := match a, b with Some x, Some y => x =? y | None, None => true | _, _ => false end.
Lemma opt_eqb_eq a b : opt_eqb a b = true -> a = b.
Proof. destruct a, b; cbn; try discriminate; [intros H; apply Z.eqb_eq in H; congruence|reflexivity]. Qed.
Fixpoint nodupZ_b (l : list Z) : bool := match l with [] => true | x :: r => negb (memZ x r) && nodupZ_b r end.
Lemma nodupZ_b_sound l : nodupZ_b l = true -> NoDup l.
Proof.
  induction l as [|x r IH]; cbn; [constructor|]. intros H. apply andb_true_iff in H as [H1 H2]. constructor; [|auto].
  intros Hin. apply memZ_In in Hin. rewrite Hin in H1. discriminate.
Qed.

Definition fin_b (pre : Z) (nd : node) (il : list ind) : bool :=
  let ms := all_individuals nd in let ids := map sv_id (n_servers nd) in
  nodupZ_b ids &&
  forallb (fun sv => sv_id sv <=? n_highest nd) (n_servers nd) &&
  forallb (fun sv => Bool.eqb (sv_busy sv) (match sv_cust sv with Some _ => true | None => false end)) (n_servers nd) &&
  forallb (fun sv => match sv_cust sv with Some i => memZ i ms && opt_eqb (isv il i) (Some (sv_id sv)) | None => true end) (n_servers nd) &&
  forallb (fun i => match isv il i with
                    | None => true
                    | Some k => (k <=? n_highest nd) &&
                                match find_server k (n_servers nd) with Some sv => opt_eqb (sv_cust sv) (Some i) | None => memZ i (n_interrupted nd) end
                    end) ms &&
  ((pre =? 0) || forallb (fun sv => negb (sv_offduty sv)) (n_servers nd)) &&
  nodupZ_b (n_interrupted nd) &&
  forallb (fun i => memZ i ms && iflg il i && match isv il i with Some k => negb (memZ k ids) | None => false end) (n_interrupted nd).

Definition node_b (nc : ncfg) (nd : node) (il : list ind) : bool :=
  match nc_srv nc with
  | SSlot _ => match n_interrupted nd, n_servers nd with [], [] => true | _, _ => false end
  | SSched _ => negb (nd_inf nd) && fin_b (nc_preempt nc) nd il
  | SFixed => if nd_inf nd then forallb (fun i => match isv il i with None => true | Some _ => false end) (all_individuals nd)
              else fin_b (nc_preempt nc) nd il
  end.
Fixpoint nodes_b (ncs : list ncfg) (nds : list node) (il : list ind) : bool :=
  match nds, ncs with
  | [], _ => true
  | nd :: r, nc :: rc => node_b nc nd il && nodes_b rc r il
  | _ :: _, [] => false
  end.
Definition next_b (cf : config) (nd : node) (il : list ind) : bool :=
  (if n_next_type nd =? 0 then nd_inf nd || forallb (fun i => negb (memZ i (n_interrupted nd))) (n_next_inds nd) else true) &&
  (if n_next_type nd =? 2 then forallb (fun i => match isv il i with None => true | Some _ => false end) (n_next_inds nd) else true) &&
  (if n_next_type nd =? 3 then cf_dyn cf else true).
Definition srvinv2_b (cf : config) (s : sim) : bool :=
  Conserve2.wfx2_b s && nodes_b (cf_nodes cf) (nodes s) (inds s) && forallb (fun nd => next_b cf nd (inds s)) (nodes s).

Lemma find_server_none_b k l : find_server k l = None -> ~ In k (map sv_id l).
Proof.
  induction l as [|y r IH]; cbn; [tauto|]. destruct (sv_id y =? k) eqn:E; [discriminate|]. apply Z.eqb_neq in E. intros H [F|F]; [contradiction|]. exact (IH H F).
Qed.

Lemma fin_b_sound pre nd s : fin_b pre nd (inds s) = true ->
  FinOK pre [] (memv None (nv nd)) (v_srv (nv nd)) (v_hi (nv nd)) (v_int (nv nd)) (isvv (VW s)) (iflag (VW s)).
Proof.
  unfold fin_b. intros H.
  apply andb_true_iff in H as [H H8]. apply andb_true_iff in H as [H H7]. apply andb_true_iff in H as [H H6]. apply andb_true_iff in H as [H H5].
  apply andb_true_iff in H as [H H4]. apply andb_true_iff in H as [H H3]. apply andb_true_iff in H as [H1 H2].
  apply nodupZ_b_sound in H1, H7. rewrite forallb_forall in H2, H3, H4, H5, H8.
  assert (Hmem : memv None (nv nd) = all_individuals nd) by (unfold memv, mem; cbn; rewrite app_nil_r; reflexivity). rewrite Hmem.
  assert (Hids : sids (v_srv (nv nd)) = map sv_id (n_servers nd)) by (unfold sids; cbn; rewrite map_map; reflexivity).
  assert (Hto : forall t, In t (v_srv (nv nd)) -> exists sv, In sv (n_servers nd) /\ t = sc sv).
  { intros t Ht. cbn in Ht. apply in_map_iff in Ht as (sv & <- & Hsv). eauto. }
  split.
  - rewrite Hids. exact H1.
  - intros t Ht. destruct (Hto t Ht) as (sv & Hsv & ->). apply Z.leb_le. apply (H2 sv Hsv).
  - intros t Ht. destruct (Hto t Ht) as (sv & Hsv & ->). cbn. apply eqb_prop. apply (H3 sv Hsv).
  - intros t i Ht Hc. destruct (Hto t Ht) as (sv & Hsv & ->). cbn in Hc. specialize (H4 sv Hsv). rewrite Hc in H4.
    apply andb_true_iff in H4 as [A B]. apply memZ_In in A. apply opt_eqb_eq in B. rewrite isvv_VW. auto.
  - intros i k Hi Hk. rewrite isvv_VW in Hk. specialize (H5 i Hi). rewrite Hk in H5. apply andb_true_iff in H5 as [A B]. apply Z.leb_le in A.
    split; [exact A|]. intros t Ht Hid. destruct (Hto t Ht) as (sv & Hsv & ->). cbn in Hid |- *.
    destruct (find_server k (n_servers nd)) as [sv0|] eqn:Ef.
    + destruct (find_server_id _ _ _ Ef) as [Hid0 Hin0]. apply opt_eqb_eq in B.
      assert (Esc : sc sv0 = sc sv); [|apply (f_equal s_cust) in Esc; cbn in Esc; congruence].
      eapply sv_unique; [rewrite Hids; exact H1|cbn; apply in_map; exact Hin0|cbn; apply in_map; exact Hsv|cbn; congruence].
    + exfalso. apply (find_server_none_b _ _ Ef). rewrite <- Hid. apply in_map. exact Hsv.
  - intros Hp t Ht. destruct (Hto t Ht) as (sv & Hsv & ->). cbn. apply orb_true_iff in H6 as [E|E]; [apply Z.eqb_eq in E; contradiction|].
    rewrite forallb_forall in E. apply negb_true_iff. apply (E sv Hsv).
  - exact H7.
  - intros i Hi. specialize (H8 i Hi). apply andb_true_iff in H8 as [A C]. apply andb_true_iff in A as [A B]. apply memZ_In in A.
    split; [exact A|]. intros _. rewrite iflag_VW, isvv_VW. split; [exact B|]. destruct (isv (inds s) i) as [k|]; [|discriminate].
    exists k. split; [reflexivity|]. rewrite Hids. apply negb_true_iff in C. intros Hin. apply memZ_In in Hin. congruence.
  - intros i k Hi Hk Hs _. rewrite isvv_VW in Hk. specialize (H5 i Hi). rewrite Hk in H5. apply andb_true_iff in H5 as [_ B]. rewrite Hids in Hs.
    destruct (find_server k (n_servers nd)) as [sv0|] eqn:Ef; [|apply memZ_In; exact B].
    exfalso. apply Hs. destruct (find_server_id _ _ _ Ef) as [<- Hin0]. apply in_map. exact Hin0.
Qed.

Lemma node_b_sound nc nd s : node_b nc nd (inds s) = true -> NodeOK nc None [] (nv nd) (isvv (VW s)) (iflag (VW s)).
Proof.
  unfold node_b, NodeOK. change (v_inf (nv nd)) with (nd_inf nd). destruct (nc_srv nc).
  - destruct (nd_inf nd); [|apply fin_b_sound]. intros H i Hi. rewrite forallb_forall in H.
    assert (Hi' : In i (all_individuals nd)) by (unfold memv, mem in Hi; cbn in Hi; rewrite app_nil_r in Hi; exact Hi).
    specialize (H i Hi'). rewrite isvv_VW. destruct (isv (inds s) i); [discriminate|reflexivity].
  - intros H. apply andb_true_iff in H as [A B]. apply negb_true_iff in A. split; [exact A|apply fin_b_sound; exact B].
  - cbn. destruct (n_interrupted nd); [|discriminate]. destruct (n_servers nd); [|discriminate]. auto.
Qed.

Lemma nodes_b_sound s : forall ncs nds, nodes_b ncs nds (inds s) = true ->
  (length nds <= length ncs)%nat /\
  forall k nd nc, nth_error nds k = Some nd -> nth_error ncs k = Some nc -> NodeOK nc None [] (nv nd) (isvv (VW s)) (iflag (VW s)).
Proof.
  intros ncs nds; revert ncs; induction nds as [|nd r IH]; intros ncs H; cbn in H.
  - split; [cbn; lia|]. intros [|k]; discriminate.
  - destruct ncs as [|nc rc]; [discriminate|]. apply andb_true_iff in H as [A B]. destruct (IH _ B) as [L R]. split; [cbn; lia|].
    intros [|k] nd' nc' Hk Hc; cbn in Hk, Hc; [injection Hk as <-; injection Hc as <-; apply node_b_sound; exact A|eapply R; eauto].
Qed.

Theorem srvinv2_b_sound cf s : srvinv2_b cf s = true -> SrvInv2 cf s.
Proof.
  unfold srvinv2_b. intros H. apply andb_true_iff in H as [H H3]. apply andb_true_iff in H as [H1 H2].
  apply Conserve2.wfx2_b_sound in H1. destruct (nodes_b_sound s _ _ H2) as [L R]. rewrite forallb_forall in H3.
  split.
  - split; [rewrite shv_VW; exact H1|]. split; [|split; [intros i []|cbn; rewrite map_length; exact L]].
    intros k n nc Hk Hc. cbn in Hk. rewrite nth_error_map in Hk. destruct (nth_error (nodes s) k) as [nd|] eqn:E; [|discriminate].
    cbn in Hk. injection Hk as <-. eapply R; eauto.
  - intros j nd Hj Hn. assert (Hin : In nd (nodes s)) by (unfold nthZ in Hn; destruct (j - 1 <? 0); [discriminate|eapply nth_error_In; eauto]).
    specialize (H3 nd Hin). unfold next_b in H3. apply andb_true_iff in H3 as [H3 C]. apply andb_true_iff in H3 as [A B].
    split; [|split].
    + intros Hty i Hi n Hw Hinf Hin'. rewrite (wnode_VW s j nd Hj Hn) in Hw. injection Hw as <-. rewrite Hty, Z.eqb_refl in A.
      change (v_inf (nv nd)) with (nd_inf nd) in Hinf. rewrite Hinf in A. cbn in A. rewrite forallb_forall in A. specialize (A i Hi).
      apply negb_true_iff in A. apply memZ_In in Hin'. cbn in Hin'. congruence.
    + intros Hty i Hi. rewrite Hty, Z.eqb_refl in B. rewrite forallb_forall in B. specialize (B i Hi). rewrite isvv_VW. destruct (isv (inds s) i); [discriminate|reflexivity].
    + intros Hty. rewrite Hty, Z.eqb_refl in C. exact C.
Qed.

(* ---------- a weaker executable test, COMPLETE for the invariant: used to refute it outside the scope ---------- *)
(* at a finite, not slotted node every customer that records a server records one that is at the node, or is on the list of
   interrupted customers; and no two customers record the same server of the node *)
Definition rec_srv (nd : node) (il : list ind) (i : Z) : list Z :=
  match isv il i with Some k => if memZ k (map sv_id (n_servers nd)) then [k] else [] | None => [] end.
Definition link_node_b (nc : ncfg) (nd : node) (il : list ind) : bool :=
  if nc_slotted nc || nd_inf nd then true
  else forallb (fun i => match isv il i with None => true | Some k => memZ k (map sv_id (n_servers nd)) || memZ i (n_interrupted nd) end) (all_individuals nd)
       && nodupZ_b (flat_map (rec_srv nd il) (all_individuals nd)).
Fixpoint links_b (ncs : list ncfg) (nds : list node) (il : list ind) {struct nds} : bool :=
  match nds, ncs with nd :: r, nc :: rc => link_node_b nc nd il && links_b rc r il | _, _ => true end.

Lemma nodupZ_b_complete l : NoDup l -> nodupZ_b l = true.
Proof.
  induction l as [|x r IH]; cbn; [reflexivity|]. intros H. inversion H as [|? ? Hn HNr]; subst. rewrite (IH HNr), andb_true_r.
  apply negb_true_iff. destruct (memZ x r) eqn:E; [apply memZ_In in E; contradiction|reflexivity].
Qed.
Lemma rec_srv_filter nd il l : flat_map (rec_srv nd il) l = map (fun i => match isv il i with Some k => k | None => 0 end) (filter (in_service nd il) l).
Proof.
  induction l as [|i r IH]; cbn; [reflexivity|]. unfold rec_srv at 1, in_service at 1. destruct (isv il i) as [k|] eqn:E; [|exact IH].
  destruct (memZ k (map sv_id (n_servers nd))); cbn; [rewrite E, IH; reflexivity|exact IH].
Qed.

Lemma NoDup_map_eq {A B} (f : A -> B) (l : list A) a b : NoDup (map f l) -> In a l -> In b l -> f a = f b -> a = b.
Proof.
  induction l as [|x r IH]; cbn; intros HN Ha Hb E; [destruct Ha|]. inversion HN as [|? ? Hn HNr]; subst.
  destruct Ha as [<-|Ha], Hb as [<-|Hb]; auto.
  - exfalso. apply Hn. rewrite E. apply in_map. exact Hb.
  - exfalso. apply Hn. rewrite <- E. apply in_map. exact Ha.
Qed.

Theorem links_b_complete cf s : SrvInv2 cf s -> links_b (cf_nodes cf) (nodes s) (inds s) = true.
Proof.
  intros HI. destruct (SrvInv2_means cf s HI) as [_ HM].
  assert (G : forall ncs nds, (forall k nd nc, nth_error nds k = Some nd -> nth_error ncs k = Some nc -> link_node_b nc nd (inds s) = true) -> links_b ncs nds (inds s) = true).
  { intros ncs nds; revert ncs; induction nds as [|nd r IH]; intros ncs H; cbn; [reflexivity|]. destruct ncs as [|nc rc]; [reflexivity|].
    rewrite (H 0%nat nd nc eq_refl eq_refl). cbn. apply IH. intros k nd' nc' Hk Hc. apply (H (S k)); assumption. }
  apply G. intros k nd nc Hk Hc. unfold link_node_b. destruct (nc_slotted nc) eqn:Es; [reflexivity|]. cbn [orb].
  specialize (HM k nd nc Hk Hc Es). destruct (nd_inf nd); [reflexivity|].
  destruct HM as (_ & _ & _ & _ & M5 & _ & _ & _ & M9 & _). apply andb_true_iff. split.
  - apply forallb_forall. intros i Hi. destruct (isv (inds s) i) as [sid|] eqn:E; [|reflexivity].
    destruct (M5 i sid Hi E) as [(sv & Hsv & Hid & _)|[_ Hint]]; apply orb_true_iff; [left; apply memZ_In; rewrite <- Hid; apply in_map; exact Hsv|right; apply memZ_In; exact Hint].
  - apply nodupZ_b_complete. rewrite rec_srv_filter. apply NoDup_map_inj.
    + eapply NoDup_map_inv. exact M9.
    + intros a b Ha Hb E. eapply NoDup_map_eq; [exact M9|exact Ha|exact Hb|].
      apply filter_In in Ha as [_ Ha]. apply filter_In in Hb as [_ Hb]. unfold in_service in Ha, Hb.
      destruct (isv (inds s) a); [|discriminate]. destruct (isv (inds s) b); [|discriminate]. congruence.
Qed.

(* ====================================================================================================================== *)
(* Part 10.  Examples and closed witnesses                                                                               *)
(* ====================================================================================================================== *)
(* one node, two classes (class 0 has priority over class 1), a schedule of one server until 10, one server until 20, ...;
   pp = priority_preempt option, pre = the schedule's pre-emption option, rt = the node's router *)
Definition x_nc (pp pre : Z) : ncfg := mkNcfg None None 0 (SSched (mkSched [10; 20] [1; 1] 0 pre)) pp false [false; false] 0.
Definition x_cf (pp pre : Z) (rt : nrouter) : config :=
  mkCfg 2 [x_nc pp pre] [0; 1] 2 None [RtNR [rt]; RtNR [rt]] [[None]; [None]] false [[false; false]; [false; false]].
Definition x_node : node := mkNode 1 0 0 [[]; []] [] [] 0 (Some 0) [] (Some 0) 0 [] 0 [] [] [] 1 (Some 0) 0 None None.
Definition no_draws : draws := mkDraws [] [] [] [] [] [].
Definition x_s0 : sim := mkSim 0 1 (mkArr 0 0 [[Some 11; Some 5]] 1 1 (Some 5)) [x_node] [] 0 0 [] no_draws [] [[0]; [0]].
(* shift change at 0; class-1 customer at 5 (service 100); shift change at 10; class-0 customer at 11; class-0 customer at 12 *)
Definition x_ds : list draws :=
  [ no_draws; mkDraws [1000] [1] [100] [] [] []; no_draws; mkDraws [1] [1] [50] [] [] []; mkDraws [1000] [1] [30] [] [] [] ].
Definition chk (cf : config) (s : sim) (ds : list draws) : option (bool * bool) :=
  match run_many cf s ds with Ok s' => Some (srvinv2_b cf s', links_b (cf_nodes cf) (nodes s') (inds s')) | _ => None end.

(* inside the scope: priority pre-emption (resume) at a node with a PRE-EMPTIVE (resume) schedule.  The invariant holds of the
   initial state and (by the theorem, and here by computation) after each of the five events: the shift change at 10 interrupts
   customer 1, which resumes on the new server 2; customer 2 pre-empts it at 11; customer 3 waits at 12 *)
Example ex_in_scope :
  srv_scope (x_cf 1 1 RLeave) = true /\ srvinv2_b (x_cf 1 1 RLeave) x_s0 = true /\
  map (fun n => chk (x_cf 1 1 RLeave) x_s0 (firstn n x_ds)) [1; 2; 3; 4; 5]%nat = repeat (Some (true, true)) 5 /\
  match run_many (x_cf 1 1 RLeave) x_s0 x_ds with
  | Ok s => map (fun nd => (n_queues nd, map (fun sv => (sv_id sv, sv_cust sv, sv_busy sv)) (n_servers nd), n_interrupted nd)) (nodes s) = [([[2; 3]; [1]], [(2, Some 2, true)], [])] /\
            map (fun x => (i_id x, i_server x)) (inds s) = [(1, None); (2, Some 2); (3, None)]
  | _ => False
  end.
Proof. vm_compute. repeat split; reflexivity. Qed.
Example ex_invariant : SrvInv2 (x_cf 1 1 RLeave) x_s0.
Proof. apply srvinv2_b_sound. vm_compute. reflexivity. Qed.
Example ex_run_invariant : forall s', run_many (x_cf 1 1 RLeave) x_s0 x_ds = Ok s' -> SrvInv2 (x_cf 1 1 RLeave) s'.
Proof. intros s'. apply run_many_srv2; [vm_compute; reflexivity|apply ex_invariant]. Qed.

(* F-12d: priority pre-emption at a node with a NON-pre-emptive schedule.  The victim can be the customer of a server that is
   finishing overtime; detatch_server retires that server and the pre-emptor is attached to it: it records a server that is
   not at the node and is not interrupted.  (The configuration violates only that clause of the scope.) *)
Theorem link_refuted_F12d : exists cf s ds s',
  srv_scope cf = false /\ srvinv2_b cf s = true /\ run_many cf s ds = Ok s' /\ links_b (cf_nodes cf) (nodes s') (inds s') = false.
Proof. exists (x_cf 1 0 RLeave), x_s0, x_ds. eexists. split; [vm_compute; reflexivity|]. split; [vm_compute; reflexivity|]. split; vm_compute; reflexivity. Qed.

(* F-12a: a schedule with pre-emption option 'reroute' and a routing self-loop.  The interrupted customer is sent back into the
   same node during the shift change and is served at once by a server that is about to be retired: afterwards it records a
   retired server, is not interrupted, and the new server stays idle. *)
Definition x_ds_a : list draws := [ no_draws; mkDraws [1000] [1] [100] [] [] []; mkDraws [] [] [77] [] [] [] ].
Theorem link_refuted_F12a : exists cf s ds s',
  srv_scope cf = false /\ srvinv2_b cf s = true /\ run_many cf s ds = Ok s' /\ links_b (cf_nodes cf) (nodes s') (inds s') = false.
Proof. exists (x_cf 0 4 (RDirect 1)), x_s0, x_ds_a. eexists. split; [vm_compute; reflexivity|]. split; [vm_compute; reflexivity|]. split; vm_compute; reflexivity. Qed.

(* priority pre-emption with option 'reroute' and a routing self-loop (the region of F-11a).  From a state that satisfies the
   invariant in which a class-0 customer waits while a class-1 customer is served (SIRO discipline): the victim is sent back
   into the same node, where the freed server is given to customer 3, and then the same server is given to the pre-emptor 2:
   two customers record server 1.  (This start state is not claimed to be reachable from an empty system.) *)
Definition y_cf : config :=
  mkCfg 2 [mkNcfg None None 2 SFixed 4 false [false; false] 0] [0; 1] 2 None [RtNR [RDirect 1]; RtNR [RDirect 1]] [[None]; [None]] false [[false; false]; [false; false]].
Definition y_c1 : ind := mkInd 1 1 1 1 1 1 (Some 1) (Some 0) (Some 0) (Some 100) (Some 100) None false (Some 1) None (Some 0) None 0 0 false XI XI None None None None None.
Definition y_c2 : ind := mkInd 2 0 0 0 0 0 (Some 1) (Some 1) None None None None false None None (Some 1) None 0 0 false XI XI None None None None None.
Definition y_node : node :=
  mkNode 1 2 1 [[2]; [1]] [mkServer 1 (Some 1) true (Some 100) 0 None 0 false 0 None] [] 0 (Some 100) [1] (Some 1) 1 [] 0 [] [] [] 0 None 0 None None.
Definition y_s0 : sim := mkSim 5 0 (mkArr 2 2 [[Some 5; None]] 1 0 (Some 5)) [y_node] [] 0 0 [y_c1; y_c2] no_draws [] [[0]; [0]].
Definition y_ds : list draws := [ mkDraws [1000] [1] [10; 20] [0; 9007199254740991] [] [] ].
Theorem link_refuted_reroute_preempt : exists cf s ds s',
  srv_scope cf = false /\ srvinv2_b cf s = true /\ run_many cf s ds = Ok s' /\ links_b (cf_nodes cf) (nodes s') (inds s') = false /\
  map (fun x => (i_id x, i_server x)) (inds s') = [(1, None); (2, Some 1); (3, Some 1)].
Proof. exists y_cf, y_s0, y_ds. eexists. split; [vm_compute; reflexivity|]. split; [vm_compute; reflexivity|]. split; [vm_compute; reflexivity|]. split; vm_compute; reflexivity. Qed.

(* in each of the three cases the invariant itself fails in the final state *)
Corollary refuted_means cf s' : links_b (cf_nodes cf) (nodes s') (inds s') = false -> ~ SrvInv2 cf s'.
Proof. intros H HI. rewrite (links_b_complete cf s' HI) in H. discriminate. Qed.

(* ====================================================================================================================== *)
(* Part 11.  C05 (work conservation): meaning, executable test, examples                                                 *)
(* ====================================================================================================================== *)
Definition waits (il : list ind) (i : Z) : bool := match find_ind i il with Some x => match i_server x with None => true | Some _ => false end | None => false end.
Lemma waitv_VW s i : waitv (VW s) i <-> waits (inds s) i = true.
Proof.
  unfold waitv, waits. cbn. rewrite fiv_find. destruct (find_ind i (inds s)) as [x|]; cbn.
  - destruct (i_server x) as [k|].
    + split; [intros (bb & H); discriminate H|discriminate].
    + split; [reflexivity|]. intros _. exists (i_interrupted x). reflexivity.
  - split; [intros (bb & H); discriminate H|discriminate].
Qed.

Theorem NonIdle2_means cf s : NonIdle2 cf s ->
  forall k nd nc, nth_error (nodes s) k = Some nd -> nth_error (cf_nodes cf) k = Some nc -> nc_slotted nc = false -> nd_inf nd = false -> n_id nd <> 0 ->
    (* if some customer of the node is waiting: it is in a queue of the node and records no server ... *)
    (exists i, In i (all_individuals nd) /\ waits (inds s) i = true) ->
    (* ... then every server of the node that is on duty is busy *)
    forall sv, In sv (n_servers nd) -> sv_offduty sv = false -> sv_busy sv = true.
Proof.
  intros HN k nd nc Hk Hc Hs Hi Hid (i & Hi1 & Hi2) sv Hsv Ho.
  assert (Hk' : nth_error (w_ns (VW s)) k = Some (nv nd)) by (cbn; rewrite nth_error_map, Hk; reflexivity).
  refine (HN k (nv nd) nc Hk' Hc Hs Hi Hid _ (sc sv) _ Ho (fun F => F)).
  - exists i. split; [exact Hi1|]. split; [intros []|apply waitv_VW; exact Hi2].
  - cbn. apply in_map. exact Hsv.
Qed.

Definition nonidle_node_b (nc : ncfg) (nd : node) (il : list ind) : bool :=
  nc_slotted nc || nd_inf nd || negb (existsb (waits il) (all_individuals nd)) || forallb (fun sv => sv_offduty sv || sv_busy sv) (n_servers nd).
Fixpoint nonidle_nodes_b (ncs : list ncfg) (nds : list node) (il : list ind) {struct nds} : bool :=
  match nds, ncs with nd :: r, nc :: rc => nonidle_node_b nc nd il && nonidle_nodes_b rc r il | _, _ => true end.
Definition nonidle2_b (cf : config) (s : sim) : bool := nonidle_nodes_b (cf_nodes cf) (nodes s) (inds s).

Theorem nonidle2_b_sound cf s : nonidle2_b cf s = true -> NonIdle2 cf s.
Proof.
  unfold nonidle2_b. intros H k n nc Hk Hc Hs Hi _ (c & Hc1 & _ & Hc3) t Ht Ho _.
  cbn in Hk. rewrite nth_error_map in Hk. destruct (nth_error (nodes s) k) as [nd|] eqn:Ek; [|discriminate]. cbn in Hk. injection Hk as <-.
  assert (G : forall ncs nds, nonidle_nodes_b ncs nds (inds s) = true -> forall k nd nc, nth_error nds k = Some nd -> nth_error ncs k = Some nc -> nonidle_node_b nc nd (inds s) = true).
  { intros ncs nds; revert ncs; induction nds as [|x r IH]; intros ncs Hb [|k0] nd0 nc0 Hk0 Hc0; cbn in Hk0; try discriminate;
      (destruct ncs as [|y rc]; cbn in Hc0; [discriminate|]); cbn in Hb; apply andb_true_iff in Hb as [Hb1 Hb2].
    - injection Hk0 as <-. injection Hc0 as <-. exact Hb1.
    - eapply IH; eauto. }
  specialize (G _ _ H k nd nc Ek Hc). unfold nonidle_node_b in G. rewrite Hs in G. change (v_inf (nv nd)) with (nd_inf nd) in Hi. rewrite Hi in G. cbn [orb] in G.
  apply orb_true_iff in G as [G|G].
  - exfalso. apply negb_true_iff in G. assert (existsb (waits (inds s)) (all_individuals nd) = true); [|congruence].
    apply existsb_exists. exists c. split; [exact Hc1|apply waitv_VW; exact Hc3].
  - rewrite forallb_forall in G. cbn in Ht. apply in_map_iff in Ht as (sv & <- & Hsv). specialize (G sv Hsv). cbn in Ho |- *. rewrite Ho in G. exact G.
Qed.

(* the running example: both invariants hold initially and after every event (here by computation; by the theorems, for any draws) *)
Example ex_nonidle :
  nonidle2_b (x_cf 1 1 RLeave) x_s0 = true /\
  map (fun n => match run_many (x_cf 1 1 RLeave) x_s0 (firstn n x_ds) with Ok s => nonidle2_b (x_cf 1 1 RLeave) s | _ => false end) [1; 2; 3; 4; 5]%nat = repeat true 5.
Proof. vm_compute. split; reflexivity. Qed.
Example ex_run_nonidle : forall s', run_many (x_cf 1 1 RLeave) x_s0 x_ds = Ok s' -> NonIdle2 (x_cf 1 1 RLeave) s'.
Proof.
  intros s'. apply run_many_nonidle2; [vm_compute; reflexivity|apply ex_invariant|apply nonidle2_b_sound; vm_compute; reflexivity].
Qed.

Print Assumptions run_many_srv2.
Print Assumptions run_many_nonidle2.
Print Assumptions event_step_srv2.
Print Assumptions event_step_nonidle2.
Print Assumptions SrvInv2_means.
Print Assumptions NonIdle2_means.
Print Assumptions srvinv2_b_sound.
Print Assumptions nonidle2_b_sound.
Print Assumptions links_b_complete.
Print Assumptions ex_in_scope.
Print Assumptions ex_run_invariant.
Print Assumptions ex_run_nonidle.
Print Assumptions link_refuted_F12d.
Print Assumptions link_refuted_F12a.
Print Assumptions link_refuted_reroute_preempt.
Print Assumptions refuted_means.

(* Conserve2.v -- T2 for C01 (customer conservation) on the STAGE-2 engine model (Engine2.v): routers, reneging and jockeying,
   priority pre-emption (resume / restart / resample / reroute), server schedules (pre-emptive or not), slotted services,
   class change while waiting, server priority functions.

   The invariant WFx2 fl s says: node identities are positions; every population counter is the number of customers in the
   queues of that node; the exit counter is the length of the exit list; the identifiers found in the queues of all nodes and
   at the exit, together with the customers "in flight" fl (taken out of one place and not yet put into the next), are
   exactly 1..created without repetition; and the customer records (inds) are exactly the customers in the queues and in
   flight, one record each (a customer at the exit has no record any more).

   Main results (all for EVERY configuration, every state satisfying the invariant, every oracle of draws; partial
   correctness: nothing is said about runs in which the model returns Err / OutOfFuel):
     core_spec                                     release / release_blocked_individual / accept / preempt, by induction on fuel
     event_step_conserves2, run_many_conserves2    the invariant is preserved by one event / any number of events
     WFx2_means                                    the invariant in the words of C01
     wfx2_b, wfx2_b_sound                          executable test of the invariant
     event_step_grows2, run_many_grows2            the exit list only grows at its end, the creation counter never decreases
     exit_is_permanent2                            a customer at the exit never reappears (in no node, no record)
     interrupted_is_not_a_place, interrupt_keeps_place   the list of interrupted customers is not a second place
     ex_initial, ex_state12, ex_invariant12, ex_run      a concrete network with pre-emption, reneging and jockeying
   No scope restriction on the configuration and no hypothesis on the draws is needed: none of the known defects of the
   real code (F-02a/b/c, F-09b, F-11a, F-12d, ...) loses, duplicates or miscounts a customer in a run that does not crash.

   Method: two small program logics over the engine monad.  presK K m: m leaves the "shape" (node identities, populations,
   queues, exit list and counter, creation counter, record identifiers) alone, K remembering which nodes and records were
   read so that writing them back is neutral; one line per engine function (tactic pk).  trK K fl fl' m: m carries the
   invariant from fl in flight to fl' in flight and only extends the exit list (tactic tk); the only primitive moves are
   trK_put_node_rm / _add / _mv (a queue loses / gains a customer, queues of one node are rearranged), tr_exit_accept and
   the creation step in tr_batch_loop. *)
From Coq Require Import ZArith List Bool Lia Permutation.
From RecordUpdate Require Import RecordUpdate.
From CiwV Require Import Sx Prelude Routing Sched.
From CiwV.Engine Require Import State2 Engine2 Codec2.
Import ListNotations.
Open Scope Z_scope.

(* ====================================================================================================================== *)
(* shape: what conservation looks at                                                                                     *)
(* ====================================================================================================================== *)
Definition nshape (nd : node) : Z * Z * list (list Z) := (n_id nd, n_pop nd, n_queues nd).
Record shape := mkSh {
  sh_ns : list (Z * Z * list (list Z));   (* per node: identity, population counter, queues *)
  sh_ex : list Z; sh_en : Z;              (* exit list, exit counter *)
  sh_cr : Z;                              (* number of customers created *)
  sh_is : list Z                          (* identifiers of the customer records *)
}.
Definition shp (s : sim) : shape := mkSh (map nshape (nodes s)) (exit_ids s) (exit_n s) (a_created (arr s)) (map i_id (inds s)).

Definition qids (sh : shape) : list Z := concat (map (fun t => concat (snd t)) (sh_ns sh)).
Definition sh_idx (sh : shape) : Prop := forall k t, nth_error (sh_ns sh) k = Some t -> fst (fst t) = Z.of_nat k + 1.
Definition sh_counts (sh : shape) : Prop :=
  Forall (fun t => snd (fst t) = zlen (concat (snd t))) (sh_ns sh) /\ sh_en sh = zlen (sh_ex sh).

Definition WFsh (fl : list Z) (sh : shape) : Prop :=
  sh_idx sh /\ sh_counts sh /\ 0 <= sh_cr sh /\
  Permutation (qids sh ++ sh_ex sh ++ fl) (zseq 1 (Z.to_nat (sh_cr sh))) /\
  Permutation (sh_is sh) (qids sh ++ fl).
Definition WFx2 (fl : list Z) (s : sim) : Prop := WFsh fl (shp s).

(* the node nd sits, as far as the shape goes, in its own slot *)
Definition okn (sh : shape) (nd : node) : Prop := nthZ (sh_ns sh) (n_id nd - 1) = Some (nshape nd).
Definition oki (sh : shape) (x : ind) : Prop := In (i_id x) (sh_is sh).

(* ====================================================================================================================== *)
(* list facts                                                                                                            *)
(* ====================================================================================================================== *)
Lemma remove_first_perm i l l' : remove_first i l = Some l' -> Permutation l (i :: l').
Proof.
  revert l'; induction l as [|h t IH]; cbn; intros l' H; [discriminate|].
  destruct (h =? i) eqn:E.
  - apply Z.eqb_eq in E. rewrite E. injection H as <-. reflexivity.
  - destruct (remove_first i t) as [t'|] eqn:Et; cbn in H; [|discriminate]. injection H as <-.
    rewrite (IH _ eq_refl). apply perm_swap.
Qed.

Lemma upd_map {X Y} (f : X -> Y) (l : list X) k x : map f (upd l k x) = upd (map f l) k (f x).
Proof. revert k; induction l as [|a l IH]; intros [|k]; cbn; try reflexivity; f_equal; apply IH. Qed.
Lemma upd_same {X} (l : list X) k x : nth_error l k = Some x -> upd l k x = l.
Proof. revert k; induction l as [|a l IH]; intros [|k] H; cbn in *; try discriminate; [injection H as ->; reflexivity|f_equal; auto]. Qed.
Lemma nth_error_upd_eq {X} (l : list X) k x y : nth_error l k = Some y -> nth_error (upd l k x) k = Some x.
Proof. revert k; induction l as [|a l IH]; intros [|k] H; cbn in *; try discriminate; auto. Qed.
Lemma nth_error_upd_neq {X} (l : list X) k k' x : k <> k' -> nth_error (upd l k x) k' = nth_error l k'.
Proof. revert k k'; induction l as [|a l IH]; intros [|k] [|k'] H; cbn; auto; try congruence. Qed.
Lemma Forall_upd {X} (P : X -> Prop) l k x : Forall P l -> P x -> Forall P (upd l k x).
Proof. revert k; induction l as [|a l IH]; intros [|k] H Hx; cbn; auto; inversion H; constructor; auto. Qed.

Lemma nthZ_nat {X} (l : list X) j x : nthZ l j = Some x -> exists k, j = Z.of_nat k /\ nth_error l k = Some x.
Proof. unfold nthZ. destruct (j <? 0) eqn:E; [discriminate|]. apply Z.ltb_ge in E. intros H. exists (Z.to_nat j). split; [lia|exact H]. Qed.
Lemma nthZ_of_nat {X} (l : list X) k : nthZ l (Z.of_nat k) = nth_error l k.
Proof. unfold nthZ. destruct (Z.of_nat k <? 0) eqn:E; [apply Z.ltb_lt in E; lia|]. rewrite Nat2Z.id. reflexivity. Qed.
Lemma updZ_nat {X} (l : list X) k x : updZ l (Z.of_nat k) x = upd l k x.
Proof. unfold updZ. destruct (Z.of_nat k <? 0) eqn:E; [apply Z.ltb_lt in E; lia|]. rewrite Nat2Z.id. reflexivity. Qed.
Lemma nthZ_map {X Y} (f : X -> Y) (l : list X) j : nthZ (map f l) j = option_map f (nthZ l j).
Proof. unfold nthZ. destruct (j <? 0); [reflexivity|]. rewrite nth_error_map. reflexivity. Qed.

Lemma concat_upd_add {X} (ls : list (list X)) k l l' x :
  nth_error ls k = Some l -> Permutation l' (x :: l) -> Permutation (concat (upd ls k l')) (x :: concat ls).
Proof.
  revert k; induction ls as [|h t IH]; intros [|k] Hn Hp; cbn in *; try discriminate.
  - injection Hn as ->. rewrite Hp. reflexivity.
  - rewrite (IH _ Hn Hp). rewrite Permutation_middle. reflexivity.
Qed.
Lemma concat_upd_rm {X} (ls : list (list X)) k l l' x :
  nth_error ls k = Some l -> Permutation l (x :: l') -> Permutation (x :: concat (upd ls k l')) (concat ls).
Proof.
  revert k; induction ls as [|h t IH]; intros [|k] Hn Hp; cbn in *; try discriminate.
  - injection Hn as ->. rewrite Hp. reflexivity.
  - rewrite <- (IH _ Hn Hp). rewrite Permutation_middle. reflexivity.
Qed.

Lemma zseq_snoc s n : zseq s (S n) = zseq s n ++ [s + Z.of_nat n].
Proof. replace (S n) with (n + 1)%nat by lia. rewrite zseq_app. reflexivity. Qed.

Definition qof (t : Z * Z * list (list Z)) : list Z := concat (snd t).
Lemma qids_upd_add ns k t t' x :
  nth_error ns k = Some t -> Permutation (qof t') (x :: qof t) ->
  Permutation (concat (map qof (upd ns k t'))) (x :: concat (map qof ns)).
Proof.
  revert k; induction ns as [|h r IH]; intros [|k] Hn Hp; cbn in *; try discriminate.
  - injection Hn as ->. rewrite Hp. reflexivity.
  - rewrite (IH _ Hn Hp). rewrite Permutation_middle. reflexivity.
Qed.
Lemma qids_upd_rm ns k t t' x :
  nth_error ns k = Some t -> Permutation (qof t) (x :: qof t') ->
  Permutation (x :: concat (map qof (upd ns k t'))) (concat (map qof ns)).
Proof.
  revert k; induction ns as [|h r IH]; intros [|k] Hn Hp; cbn in *; try discriminate.
  - injection Hn as ->. rewrite Hp. reflexivity.
  - rewrite <- (IH _ Hn Hp). rewrite Permutation_middle. reflexivity.
Qed.
Lemma qids_upd_mv ns k t t' :
  nth_error ns k = Some t -> Permutation (qof t') (qof t) ->
  Permutation (concat (map qof (upd ns k t'))) (concat (map qof ns)).
Proof.
  revert k; induction ns as [|h r IH]; intros [|k] Hn Hp; cbn in *; try discriminate.
  - injection Hn as ->. rewrite Hp. reflexivity.
  - rewrite (IH _ Hn Hp). reflexivity.
Qed.

(* ---------- the list of customer records ---------- *)
Lemma find_ind_id i l x : find_ind i l = Some x -> i_id x = i.
Proof. induction l as [|y r IH]; cbn; [discriminate|]. destruct (i_id y =? i) eqn:E; [intros H; injection H as <-; apply Z.eqb_eq; exact E|exact IH]. Qed.
Lemma find_ind_In i l x : find_ind i l = Some x -> In i (map i_id l).
Proof.
  induction l as [|y r IH]; cbn; [discriminate|]. destruct (i_id y =? i) eqn:E; [intros _; left; apply Z.eqb_eq; exact E|intros H; right; auto].
Qed.
Lemma put_ind_l_ids_in x l : In (i_id x) (map i_id l) -> map i_id (put_ind_l x l) = map i_id l.
Proof.
  induction l as [|y r IH]; cbn; [intros []|]. intros H. destruct (i_id y =? i_id x) eqn:E.
  - apply Z.eqb_eq in E. cbn. rewrite E. reflexivity.
  - apply Z.eqb_neq in E. destruct H as [H|H]; [congruence|]. cbn. rewrite (IH H). reflexivity.
Qed.
Lemma put_ind_l_ids_new x l : ~ In (i_id x) (map i_id l) -> map i_id (put_ind_l x l) = map i_id l ++ [i_id x].
Proof.
  induction l as [|y r IH]; cbn; [reflexivity|]. intros H. destruct (i_id y =? i_id x) eqn:E.
  - apply Z.eqb_eq in E. exfalso. apply H. left. exact E.
  - cbn. rewrite IH; [reflexivity|]. intros Hin. apply H. right. exact Hin.
Qed.
Lemma del_ind_l_perm i l : In i (map i_id l) -> Permutation (map i_id l) (i :: map i_id (del_ind_l i l)).
Proof.
  induction l as [|y r IH]; cbn; [intros []|]. intros H. destruct (i_id y =? i) eqn:E.
  - apply Z.eqb_eq in E. rewrite E. reflexivity.
  - apply Z.eqb_neq in E. destruct H as [H|H]; [congruence|]. cbn. rewrite (IH H). apply perm_swap.
Qed.

(* ====================================================================================================================== *)
(* how the invariant moves with the shape                                                                                *)
(* ====================================================================================================================== *)
Definition set_ns (sh : shape) ns := mkSh ns (sh_ex sh) (sh_en sh) (sh_cr sh) (sh_is sh).

Lemma sh_idx_upd sh k t t' : sh_idx sh -> nth_error (sh_ns sh) k = Some t -> fst (fst t') = fst (fst t) ->
  sh_idx (set_ns sh (upd (sh_ns sh) k t')).
Proof.
  intros HI Hn He k' u Hu. cbn in Hu. destruct (Nat.eq_dec k k') as [<-|Hne].
  - rewrite (nth_error_upd_eq _ _ _ _ Hn) in Hu. injection Hu as <-. rewrite He. apply (HI k t Hn).
  - rewrite nth_error_upd_neq in Hu by exact Hne. apply (HI k' u Hu).
Qed.

(* customer x, in flight, is put into a queue of node k *)
Lemma WFsh_add fl sh k t t' x :
  WFsh (x :: fl) sh -> nth_error (sh_ns sh) k = Some t ->
  fst (fst t') = fst (fst t) -> snd (fst t') = snd (fst t) + 1 -> Permutation (qof t') (x :: qof t) ->
  WFsh fl (set_ns sh (upd (sh_ns sh) k t')).
Proof.
  intros (HI & (HC & HE) & H0 & HP & HQ) Hn Hid Hpop Hperm. split; [|split; [|split; [|split]]].
  - eapply sh_idx_upd; eauto.
  - split; [|exact HE]. cbn. apply Forall_upd; [exact HC|].
    rewrite Forall_forall in HC. specialize (HC t (nth_error_In _ _ Hn)). cbn in HC.
    rewrite Hpop, HC. unfold zlen. unfold qof in Hperm. rewrite (Permutation_length Hperm). cbn [length]. lia.
  - exact H0.
  - unfold qids in *. cbn [set_ns sh_ns sh_ex sh_cr] in *. change (fun t0 : Z * Z * list (list Z) => concat (snd t0)) with qof in *.
    rewrite (qids_upd_add _ _ _ _ _ Hn Hperm). etransitivity; [|exact HP]. cbn.
    rewrite app_assoc. rewrite app_assoc. apply Permutation_cons_app. reflexivity.
  - unfold qids in *. cbn [set_ns sh_ns sh_is] in *. change (fun t0 : Z * Z * list (list Z) => concat (snd t0)) with qof in *.
    rewrite (qids_upd_add _ _ _ _ _ Hn Hperm). etransitivity; [exact HQ|]. cbn. symmetry. apply Permutation_cons_app. reflexivity.
Qed.

(* customer x leaves a queue of node k and is in flight *)
Lemma WFsh_rm fl sh k t t' x :
  WFsh fl sh -> nth_error (sh_ns sh) k = Some t ->
  fst (fst t') = fst (fst t) -> snd (fst t') = snd (fst t) - 1 -> Permutation (qof t) (x :: qof t') ->
  WFsh (x :: fl) (set_ns sh (upd (sh_ns sh) k t')).
Proof.
  intros (HI & (HC & HE) & H0 & HP & HQ) Hn Hid Hpop Hperm. split; [|split; [|split; [|split]]].
  - eapply sh_idx_upd; eauto.
  - split; [|exact HE]. cbn. apply Forall_upd; [exact HC|].
    rewrite Forall_forall in HC. specialize (HC t (nth_error_In _ _ Hn)). cbn in HC.
    rewrite Hpop, HC. unfold zlen. unfold qof in Hperm. rewrite (Permutation_length Hperm). cbn [length]. lia.
  - exact H0.
  - unfold qids in *. cbn [set_ns sh_ns sh_ex sh_cr] in *. change (fun t0 : Z * Z * list (list Z) => concat (snd t0)) with qof in *.
    etransitivity; [|exact HP]. rewrite <- (qids_upd_rm _ _ _ _ _ Hn Hperm). cbn.
    rewrite app_assoc. rewrite app_assoc. symmetry. apply Permutation_cons_app. reflexivity.
  - unfold qids in *. cbn [set_ns sh_ns sh_is] in *. change (fun t0 : Z * Z * list (list Z) => concat (snd t0)) with qof in *.
    etransitivity; [exact HQ|]. rewrite <- (qids_upd_rm _ _ _ _ _ Hn Hperm). cbn. apply Permutation_cons_app. reflexivity.
Qed.

(* the queues of node k are rearranged (class change while waiting) *)
Lemma WFsh_mv fl sh k t t' :
  WFsh fl sh -> nth_error (sh_ns sh) k = Some t ->
  fst t' = fst t -> Permutation (qof t') (qof t) ->
  WFsh fl (set_ns sh (upd (sh_ns sh) k t')).
Proof.
  intros (HI & (HC & HE) & H0 & HP & HQ) Hn Hid Hperm. split; [|split; [|split; [|split]]].
  - eapply sh_idx_upd; eauto. rewrite Hid. reflexivity.
  - split; [|exact HE]. cbn. apply Forall_upd; [exact HC|].
    rewrite Forall_forall in HC. specialize (HC t (nth_error_In _ _ Hn)). cbn in HC.
    rewrite Hid, HC. unfold zlen. unfold qof in Hperm. rewrite (Permutation_length Hperm). reflexivity.
  - exact H0.
  - unfold qids in *. cbn [set_ns sh_ns sh_ex sh_cr] in *. change (fun t0 : Z * Z * list (list Z) => concat (snd t0)) with qof in *.
    rewrite (qids_upd_mv _ _ _ _ Hn Hperm). exact HP.
  - unfold qids in *. cbn [set_ns sh_ns sh_is] in *. change (fun t0 : Z * Z * list (list Z) => concat (snd t0)) with qof in *.
    rewrite (qids_upd_mv _ _ _ _ Hn Hperm). exact HQ.
Qed.

(* customer x, in flight, joins the exit list and its record is deleted *)
Lemma WFsh_exit fl sh x is' : WFsh (x :: fl) sh -> Permutation (sh_is sh) (x :: is') ->
  WFsh fl (mkSh (sh_ns sh) (sh_ex sh ++ [x]) (sh_en sh + 1) (sh_cr sh) is').
Proof.
  intros (HI & (HC & HE) & H0 & HP & HQ) Hd. split; [exact HI|split; [|split; [|split]]].
  - split; [exact HC|]. cbn. rewrite HE. unfold zlen. rewrite app_length. cbn. lia.
  - exact H0.
  - unfold qids in *. cbn [sh_ns sh_ex sh_cr] in *. etransitivity; [|exact HP]. rewrite <- !app_assoc. cbn. reflexivity.
  - unfold qids in *. cbn [sh_ns sh_is] in *. rewrite Hd in HQ.
    assert (HQ' : Permutation (x :: is') (x :: concat (map (fun t => concat (snd t)) (sh_ns sh)) ++ fl)).
    { etransitivity; [exact HQ|]. symmetry. apply Permutation_middle. }
    apply Permutation_cons_inv in HQ'. exact HQ'.
Qed.

(* a customer is created: the next identifier is in flight, with a fresh record *)
Lemma WFsh_fresh sh : WFsh [] sh -> ~ In (sh_cr sh + 1) (sh_is sh).
Proof.
  intros (HI & HC & H0 & HP & HQ) Hin. rewrite app_nil_r in HQ.
  assert (H1 : In (sh_cr sh + 1) (qids sh ++ sh_ex sh ++ [])).
  { apply in_or_app. left. eapply Permutation_in; [exact HQ|exact Hin]. }
  eapply Permutation_in in H1; [|exact HP]. apply zseq_In in H1. lia.
Qed.
Lemma WFsh_spawn sh : WFsh [] sh ->
  WFsh [sh_cr sh + 1] (mkSh (sh_ns sh) (sh_ex sh) (sh_en sh) (sh_cr sh + 1) (sh_is sh ++ [sh_cr sh + 1])).
Proof.
  intros (HI & HC & H0 & HP & HQ). split; [exact HI|split; [exact HC|split; [|split]]].
  - cbn. lia.
  - unfold qids in *. cbn [sh_ns sh_ex sh_cr] in *. rewrite app_nil_r in HP.
    replace (Z.to_nat (sh_cr sh + 1)) with (S (Z.to_nat (sh_cr sh))) by lia. rewrite zseq_snoc.
    rewrite app_assoc. apply Permutation_app; [exact HP|].
    replace (1 + Z.of_nat (Z.to_nat (sh_cr sh))) with (sh_cr sh + 1) by lia. reflexivity.
  - unfold qids in *. cbn [sh_ns sh_is] in *. rewrite app_nil_r in HQ. apply Permutation_app; [exact HQ|reflexivity].
Qed.

(* ====================================================================================================================== *)
(* frame logic: presK K m  --  m leaves the shape alone, provided node identities are positions and K holds of the shape. *)
(* K remembers which nodes / customer records have been read (okn / oki), so that writing them back is shape-neutral.     *)
(* ====================================================================================================================== *)
Definition presK (K : shape -> Prop) {X} (m : M X) : Prop :=
  forall s a s', sh_idx (shp s) -> K (shp s) -> m s = Ok (a, s') -> shp s' = shp s.
Definition KT : shape -> Prop := fun _ => True.

Lemma pk_weak (K K' : shape -> Prop) {X} (m : M X) : presK K m -> (forall sh, K' sh -> K sh) -> presK K' m.
Proof. intros H HK s a s' HI Hk E. eapply H; eauto. Qed.
Lemma pk_T (K : shape -> Prop) {X} (m : M X) : presK KT m -> presK K m.
Proof. intros H. eapply pk_weak; [exact H|]. intros; exact I. Qed.
Lemma pk_ret K {X} (a : X) : presK K (ret a).
Proof. intros s a0 s' _ _ H. inversion H. reflexivity. Qed.
Lemma pk_fail K {X} e : presK K (@fail X e).
Proof. intros s a s' _ _ H. discriminate. Qed.
Lemma pk_oof K {X} : presK K (@oof X).
Proof. intros s a s' _ _ H. discriminate. Qed.
Lemma pk_bind K {X Y} (m : M X) (f : X -> M Y) : presK K m -> (forall a, presK K (f a)) -> presK K (bind m f).
Proof.
  intros Hm Hf s b s' HI HK H. unfold bind in H. destruct (m s) as [[a s1]| |] eqn:E; try discriminate.
  pose proof (Hm _ _ _ HI HK E) as E1. rewrite <- E1 in HI, HK. rewrite (Hf a _ _ _ HI HK H). exact E1.
Qed.
Lemma pk_gets K {X} (f : sim -> X) : presK K (gets f).
Proof. intros s a s' _ _ H. inversion H. reflexivity. Qed.
Lemma pk_lift K {X} e (o : option X) : presK K (lift e o).
Proof. destruct o; [apply pk_ret|apply pk_fail]. Qed.
Lemma pk_modify K (f : sim -> sim) : (forall s, shp (f s) = shp s) -> presK K (modify f).
Proof. intros Hf s a s' _ _ H. inversion H. apply Hf. Qed.

Lemma get_node_spec j s nd s' : get_node j s = Ok (nd, s') -> s' = s /\ 1 <= j /\ nthZ (nodes s) (j - 1) = Some nd.
Proof.
  unfold get_node. destruct (j <? 1) eqn:Ej; [discriminate|]. apply Z.ltb_ge in Ej.
  destruct (nthZ (nodes s) (j - 1)) eqn:E; intros H; inversion H. subst. auto.
Qed.
Lemma get_node_okn j s nd : sh_idx (shp s) -> nthZ (nodes s) (j - 1) = Some nd -> n_id nd = j /\ okn (shp s) nd.
Proof.
  intros HI Hn. destruct (nthZ_nat _ _ _ Hn) as (k & Hk & Hnk).
  assert (Hid : n_id nd = j).
  { specialize (HI k (nshape nd)). cbn in HI. rewrite nth_error_map, Hnk in HI. specialize (HI eq_refl). cbn in HI. lia. }
  split; [exact Hid|]. unfold okn. cbn. rewrite Hid, nthZ_map, Hn. reflexivity.
Qed.
Lemma get_ind_spec i s x s' : get_ind i s = Ok (x, s') -> s' = s /\ i_id x = i /\ oki (shp s) x.
Proof.
  unfold get_ind. destruct (find_ind i (inds s)) eqn:E; intros H; inversion H. subst.
  split; [reflexivity|]. pose proof (find_ind_id _ _ _ E) as Hid. split; [exact Hid|]. unfold oki. cbn. rewrite Hid. eapply find_ind_In; eauto.
Qed.

(* reading a node / a record: the continuation may use it *)
Lemma pk_get_node_bind K {Y} j (f : node -> M Y) :
  (forall nd, presK (fun sh => K sh /\ okn sh nd) (f nd)) -> presK K (bind (get_node j) f).
Proof.
  intros Hf s b s' HI HK H. unfold bind in H. destruct (get_node j s) as [[nd s1]| |] eqn:E; try discriminate.
  apply get_node_spec in E as (-> & Hj & Hn). eapply Hf; [exact HI| |exact H]. split; [exact HK|]. apply (get_node_okn j); assumption.
Qed.
Lemma pk_get_node K j : presK K (get_node j).
Proof. intros s a s' _ _ H. apply get_node_spec in H as (-> & _). reflexivity. Qed.
Lemma pk_get_ind_bind K {Y} i (f : ind -> M Y) :
  (forall x, presK (fun sh => K sh /\ oki sh x) (f x)) -> presK K (bind (get_ind i) f).
Proof.
  intros Hf s b s' HI HK H. unfold bind in H. destruct (get_ind i s) as [[x s1]| |] eqn:E; try discriminate.
  apply get_ind_spec in E as (-> & Hi & Hx). eapply Hf; [exact HI| |exact H]. split; assumption.
Qed.
Lemma pk_get_ind K i : presK K (get_ind i).
Proof. intros s a s' _ _ H. apply get_ind_spec in H as (-> & _). reflexivity. Qed.

(* writing back a node whose identity, population and queues are those of a node known to sit in its slot *)
Lemma put_node_shape nd nd0 s : okn (shp s) nd0 -> nshape nd = nshape nd0 ->
  shp (s <| nodes := updZ (nodes s) (n_id nd - 1) nd |>) = shp s.
Proof.
  intros Hn He. unfold shp. cbn. f_equal.
  assert (Hid : n_id nd = n_id nd0) by (unfold nshape in He; congruence).
  unfold okn in Hn. cbn in Hn. rewrite Hid. destruct (nthZ_nat _ _ _ Hn) as (k & Hk & Hnk). rewrite Hk, updZ_nat.
  rewrite upd_map. apply upd_same. rewrite He. exact Hnk.
Qed.
Lemma pk_put_node (K : shape -> Prop) nd : (forall sh, K sh -> exists nd0, okn sh nd0 /\ nshape nd = nshape nd0) -> presK K (put_node nd).
Proof.
  intros HK s a s' _ Hk H. unfold put_node, modify in H. inversion H. destruct (HK _ Hk) as (nd0 & Hn & He).
  eapply put_node_shape; eauto.
Qed.
Lemma pk_put_ind (K : shape -> Prop) x : (forall sh, K sh -> oki sh x) -> presK K (put_ind x).
Proof.
  intros HK s a s' _ Hk H. unfold put_ind, modify in H. inversion H. unfold shp. cbn. f_equal.
  apply put_ind_l_ids_in. apply (HK _ Hk).
Qed.
Lemma pk_upd_node K j (g : node -> node) : (forall nd, nshape (g nd) = nshape nd) -> presK K (upd_node j g).
Proof.
  intros Hg. unfold upd_node. apply pk_get_node_bind. intros nd. apply pk_put_node. intros sh [_ Hn]. exists nd. split; [exact Hn|apply Hg].
Qed.
Lemma pk_upd_ind K i (g : ind -> ind) : (forall x, i_id (g x) = i_id x) -> presK K (upd_ind i g).
Proof.
  intros Hg. unfold upd_ind. apply pk_get_ind_bind. intros x. apply pk_put_ind. intros sh [_ Hx]. unfold oki in *. rewrite Hg. exact Hx.
Qed.
Lemma pk_log_rec K r : presK K (log_rec r).
Proof. apply pk_modify. reflexivity. Qed.
Lemma pk_draw_arr K : presK K draw_arr.
Proof. intros s a s' _ _ H. unfold draw_arr in H. destruct (d_arr (dr s)); inversion H. reflexivity. Qed.
Lemma pk_draw_batch K : presK K draw_batch.
Proof. intros s a s' _ _ H. unfold draw_batch in H. destruct (d_batch (dr s)); inversion H. reflexivity. Qed.
Lemma pk_draw_svc K : presK K draw_svc.
Proof. intros s a s' _ _ H. unfold draw_svc in H. destruct (d_svc (dr s)); inversion H. reflexivity. Qed.
Lemma pk_draw_unif K : presK K draw_unif.
Proof. intros s a s' _ _ H. unfold draw_unif in H. destruct (d_unif (dr s)); inversion H. reflexivity. Qed.
Lemma pk_draw_ren K : presK K draw_ren.
Proof. intros s a s' _ _ H. unfold draw_ren in H. destruct (d_ren (dr s)); inversion H. reflexivity. Qed.
Lemma pk_draw_cct K : presK K draw_cct.
Proof. intros s a s' _ _ H. unfold draw_cct in H. destruct (d_cct (dr s)); inversion H. reflexivity. Qed.
Lemma pk_mapM K {X Y} (f : X -> M Y) l : (forall a, presK K (f a)) -> presK K (mapM f l).
Proof.
  intros Hf. induction l as [|a r IH]; cbn [mapM]; [apply pk_ret|].
  apply pk_bind; [apply Hf|]. intros b. apply pk_bind; [exact IH|]. intros bs. apply pk_ret.
Qed.
Lemma pk_forM K {X} (f : X -> M unit) l : (forall a, presK K (f a)) -> presK K (forM_ l f).
Proof. intros Hf. induction l as [|a r IH]; cbn [forM_]; [apply pk_ret|]. apply pk_bind; [apply Hf|]. intros _. exact IH. Qed.

(* side conditions: find the remembered node / record *)
Ltac pk_side :=
  let sh := fresh "sh" in let HK := fresh "HK" in
  intros sh HK; repeat match goal with H : _ /\ _ |- _ => destruct H end;
  first [ match goal with H : okn sh ?nd |- _ => exists nd; split; [exact H|unfold nshape; cbn; reflexivity] end
        | match goal with H : oki sh _ |- _ => exact H end ].

Ltac pk_prim :=
  first [ apply pk_ret | apply pk_fail | apply pk_oof | apply pk_gets | apply pk_lift | apply pk_log_rec
        | apply pk_draw_arr | apply pk_draw_batch | apply pk_draw_svc | apply pk_draw_unif | apply pk_draw_ren | apply pk_draw_cct
        | (apply pk_upd_node; intros ?; reflexivity) | (apply pk_upd_ind; intros ?; reflexivity)
        | (apply pk_put_node; pk_side) | (apply pk_put_ind; pk_side)
        | apply pk_get_node | apply pk_get_ind
        | (apply pk_modify; intros ?; reflexivity) ].
Ltac pk_struct :=
  match goal with
  | |- presK _ (bind (get_node _) _) => apply pk_get_node_bind; intros ?
  | |- presK _ (bind (get_ind _) _) => apply pk_get_ind_bind; intros ?
  | |- presK _ (bind _ _) => apply pk_bind; [|intros ?]
  | |- presK _ (mapM _ _) => apply pk_mapM; intros ?
  | |- presK _ (forM_ _ _) => apply pk_forM; intros ?
  | |- presK _ (if ?b then _ else _) => destruct b
  | |- presK _ (match ?x with _ => _ end) => destruct x
  end.
(* `using`: lemmas about engine functions already treated *)
Tactic Notation "pk" "using" tactic(t) := repeat first [ pk_struct | pk_prim | (apply pk_T; t) | t ].
Ltac pk0 := repeat first [ pk_struct | pk_prim ].

Section Frame2.
  Variable cf : config.
  Notation P0 m := (presK KT m).

  Lemma pk_ncfg_of j : P0 (ncfg_of cf j). Proof. apply pk_lift. Qed.
  Lemma pk_tnow : P0 tnow. Proof. apply pk_gets. Qed.
  Lemma pk_choice_uniform {X} (l : list X) : P0 (choice_uniform l). Proof. unfold choice_uniform. pk0. Qed.
  Lemma pk_choice_weighted den P : P0 (choice_weighted den P). Proof. unfold choice_weighted. pk0. Qed.
  Lemma pk_choose_next_customer j : P0 (choose_next_customer cf j).
  Proof. unfold choose_next_customer. pk using first [apply pk_ncfg_of | apply pk_choice_uniform]. Qed.
  Lemma pk_upd_server j sid f : P0 (upd_server j sid f). Proof. unfold upd_server. pk0. Qed.
  Lemma pk_find_next_class_change j : P0 (find_next_class_change j). Proof. unfold find_next_class_change. pk0. Qed.
  Lemma pk_cct_loop row : forall b best bc, P0 (cct_loop row b best bc).
  Proof. induction row as [|h r IH]; intros b best bc; cbn [cct_loop]; [apply pk_ret|]. pk using (apply IH). Qed.
  Lemma pk_decide_class_change j i : P0 (decide_class_change cf j i).
  Proof. unfold decide_class_change. pk using first [apply pk_cct_loop | apply pk_find_next_class_change]. Qed.
  Lemma pk_reset_class_change j i : P0 (reset_class_change cf j i).
  Proof. unfold reset_class_change. pk using (apply pk_find_next_class_change). Qed.
  Lemma pk_stime_num x : P0 (stime_num x). Proof. unfold stime_num. pk0. Qed.
  Lemma pk_give_service_time_after_preemption i : P0 (give_service_time_after_preemption i).
  Proof. unfold give_service_time_after_preemption. pk0. Qed.
  Lemma pk_give_individual_a_service_time i : P0 (give_individual_a_service_time i).
  Proof. unfold give_individual_a_service_time. pk using (apply pk_give_service_time_after_preemption). Qed.
  Lemma pk_attach_server j sid i : P0 (attach_server j sid i).
  Proof. unfold attach_server. pk using (apply pk_upd_server). Qed.
  Lemma pk_set_next_end j sid d : P0 (set_next_end j sid d). Proof. unfold set_next_end. apply pk_upd_server. Qed.
  Lemma pk_kill_server j sid : P0 (kill_server j sid). Proof. unfold kill_server. pk0. Qed.
  Lemma pk_detatch_server j sid i : P0 (detatch_server j sid i).
  Proof. unfold detatch_server. pk using (apply pk_kill_server). Qed.
  Lemma pk_bump_rec i : P0 (bump_rec i). Proof. unfold bump_rec. pk0. Qed.
  Lemma pk_write_individual_record j i : P0 (write_individual_record cf j i).
  Proof. unfold write_individual_record. pk using first [apply pk_ncfg_of | apply pk_bump_rec]. Qed.
  Lemma pk_write_interruption_record j i d : P0 (write_interruption_record cf j i d).
  Proof. unfold write_interruption_record. pk using first [apply pk_ncfg_of | apply pk_bump_rec]. Qed.
  Lemma pk_write_reneging_record j i : P0 (write_reneging_record j i).
  Proof. unfold write_reneging_record. pk using (apply pk_bump_rec). Qed.
  Lemma pk_write_br_record j i ty : P0 (write_br_record j i ty).
  Proof. unfold write_br_record. pk using (apply pk_bump_rec). Qed.
  Lemma pk_reset_individual_attributes i : P0 (reset_individual_attributes i).
  Proof. unfold reset_individual_attributes. pk0. Qed.
  Lemma pk_valid_dest d : P0 (valid_dest d). Proof. unfold valid_dest. pk0. Qed.
  Lemma pk_jsq_loop lb ds : forall best acc, P0 (jsq_loop lb ds best acc).
  Proof. induction ds as [|d r IH]; intros best acc; cbn [jsq_loop]; [apply pk_ret|]. pk using (apply IH). Qed.
  Lemma pk_jsq_next lb ds order : P0 (jsq_next lb ds order).
  Proof. unfold jsq_next. pk using first [apply pk_jsq_loop | apply pk_choice_uniform]. Qed.
  Lemma pk_get_cyc c j : P0 (get_cyc c j). Proof. unfold get_cyc. pk0. Qed.
  Lemma pk_bump_cyc c j : P0 (bump_cyc c j).
  Proof.
    unfold bump_cyc. apply pk_modify. intros s. destruct (nthZ (cyc s) c) as [row|]; [|reflexivity].
    destruct (nthZ row (j - 1)); reflexivity.
  Qed.
  Lemma pk_node_router_next r c j : P0 (node_router_next r c j).
  Proof. unfold node_router_next. pk using first [apply pk_choice_weighted | apply pk_jsq_next | apply pk_get_cyc | apply pk_bump_cyc]. Qed.
  Lemma pk_next_node_for mode j i : P0 (next_node_for cf mode j i).
  Proof.
    unfold next_node_for.
    pk using first [apply pk_node_router_next | apply pk_valid_dest | apply pk_choice_uniform | apply pk_jsq_next].
  Qed.
  Lemma pk_start_fresh j i osid count : P0 (start_fresh cf j i osid count).
  Proof. unfold start_fresh. pk using first [apply pk_attach_server | apply pk_reset_class_change | apply pk_set_next_end]. Qed.
  Lemma pk_start_give j i sid : P0 (start_give cf j i sid).
  Proof.
    unfold start_give.
    pk using first [apply pk_attach_server | apply pk_give_individual_a_service_time | apply pk_stime_num | apply pk_reset_class_change | apply pk_set_next_end].
  Qed.
  Lemma pk_start_preemptor j i sid : P0 (start_preemptor cf j i sid).
  Proof.
    unfold start_preemptor.
    pk using first [apply pk_attach_server | apply pk_give_individual_a_service_time | apply pk_stime_num | apply pk_reset_class_change | apply pk_set_next_end].
  Qed.
  Lemma pk_begin_interrupted_individuals_service j sid : P0 (begin_interrupted_individuals_service j sid).
  Proof.
    unfold begin_interrupted_individuals_service.
    pk using first [apply pk_attach_server | apply pk_give_service_time_after_preemption | apply pk_stime_num | apply pk_set_next_end].
  Qed.
  Lemma pk_serve_with j sid : P0 (serve_with cf j sid).
  Proof. unfold serve_with. pk using first [apply pk_begin_interrupted_individuals_service | apply pk_choose_next_customer | apply pk_start_give]. Qed.
  Lemma pk_begin_service_if_possible_release j freed : P0 (begin_service_if_possible_release cf j freed).
  Proof. unfold begin_service_if_possible_release. pk using (apply pk_serve_with). Qed.
  Lemma pk_get_reneging_date j i : P0 (get_reneging_date cf j i).
  Proof. unfold get_reneging_date. pk using (apply pk_ncfg_of). Qed.
  Lemma pk_block_individual j i d : P0 (block_individual j i d). Proof. unfold block_individual. pk0. Qed.
  Lemma pk_preempt_victim j i : P0 (preempt_victim cf j i).
  Proof. unfold preempt_victim. pk using (apply pk_ncfg_of). Qed.
  Lemma pk_decide_between l : P0 (decide_between l).
  Proof. unfold decide_between. destruct l as [|a [|b r]]; [apply pk_fail|apply pk_ret|apply pk_choice_uniform]. Qed.
  Lemma pk_change_customer_class j i : P0 (change_customer_class cf j i).
  Proof. unfold change_customer_class. pk using first [apply pk_ncfg_of | apply pk_choice_weighted]. Qed.
  Lemma pk_has_space d : P0 (has_space cf d). Proof. unfold has_space. pk using (apply pk_ncfg_of). Qed.
  Lemma pk_keyed l : P0 (keyed l). Proof. unfold keyed. pk0. Qed.
  Lemma pk_sort_interrupted_individuals j : P0 (sort_interrupted_individuals j).
  Proof. unfold sort_interrupted_individuals. pk using (apply pk_keyed). Qed.
  Lemma pk_add_new_servers k j : P0 (add_new_servers k j).
  Proof. induction k as [|k IH]; cbn [add_new_servers]; [apply pk_ret|]. pk using (apply IH). Qed.
  Lemma pk_begin_service_if_possible_change_shift j : P0 (begin_service_if_possible_change_shift cf j).
  Proof. unfold begin_service_if_possible_change_shift. pk using (apply pk_serve_with). Qed.
  Lemma pk_slot_loop k j : P0 (slot_loop cf k j).
  Proof.
    induction k as [|k IH]; cbn [slot_loop]; [apply pk_ret|].
    pk using first [apply IH | apply pk_choose_next_customer | apply pk_give_individual_a_service_time | apply pk_stime_num | apply pk_reset_class_change].
  Qed.
  Lemma pk_update_next_event_date j : P0 (update_next_event_date cf j).
  Proof. unfold update_next_event_date. pk using (apply pk_ncfg_of). Qed.
  Lemma pk_update_all js : P0 (update_all cf js).
  Proof. induction js as [|j r IH]; cbn [update_all]; [apply pk_ret|]. pk using first [apply IH | apply pk_update_next_event_date]. Qed.
  Lemma pk_find_next_event_date : P0 find_next_event_date.
  Proof. apply pk_modify. intros s. destruct (find_min_dates 1 (a_dates (arr s)) (None, 0, 0)) as [[d j] c]. reflexivity. Qed.
  Lemma pk_sys_population : P0 sys_population. Proof. unfold sys_population. pk0. Qed.
  Lemma pk_route_of i c : P0 (route_of cf i c). Proof. unfold route_of. pk0. Qed.
  Lemma pk_find_next_active_node : P0 find_next_active_node.
  Proof. unfold find_next_active_node. pk using (apply pk_choice_uniform). Qed.
End Frame2.

Ltac pk_lem :=
  first [ apply pk_ncfg_of | apply pk_tnow | apply pk_choice_uniform | apply pk_choice_weighted | apply pk_choose_next_customer
        | apply pk_upd_server | apply pk_find_next_class_change | apply pk_cct_loop | apply pk_decide_class_change
        | apply pk_reset_class_change | apply pk_stime_num | apply pk_give_service_time_after_preemption
        | apply pk_give_individual_a_service_time | apply pk_attach_server | apply pk_set_next_end | apply pk_kill_server
        | apply pk_detatch_server | apply pk_bump_rec | apply pk_write_individual_record | apply pk_write_interruption_record
        | apply pk_write_reneging_record | apply pk_write_br_record | apply pk_reset_individual_attributes | apply pk_valid_dest
        | apply pk_jsq_loop | apply pk_jsq_next | apply pk_get_cyc | apply pk_bump_cyc | apply pk_node_router_next
        | apply pk_next_node_for | apply pk_start_fresh | apply pk_start_give | apply pk_start_preemptor | apply pk_begin_interrupted_individuals_service
        | apply pk_serve_with | apply pk_begin_service_if_possible_release | apply pk_get_reneging_date | apply pk_block_individual
        | apply pk_preempt_victim | apply pk_decide_between | apply pk_change_customer_class | apply pk_has_space | apply pk_keyed
        | apply pk_sort_interrupted_individuals | apply pk_add_new_servers | apply pk_begin_service_if_possible_change_shift
        | apply pk_slot_loop | apply pk_update_next_event_date | apply pk_update_all | apply pk_find_next_event_date
        | apply pk_sys_population | apply pk_route_of | apply pk_find_next_active_node ].
Ltac pka := pk using pk_lem.

(* ====================================================================================================================== *)
(* transfer logic: trK K fl fl' m  --  m takes a state satisfying the invariant with fl in flight to one with fl' in       *)
(* flight; along the way the exit list only grows at its end and the creation counter never decreases (ext).              *)
(* ====================================================================================================================== *)
Definition ext (sh sh' : shape) : Prop := (exists t, sh_ex sh' = sh_ex sh ++ t) /\ sh_cr sh <= sh_cr sh'.
Lemma ext_refl sh : ext sh sh. Proof. split; [exists []; rewrite app_nil_r; reflexivity|lia]. Qed.
Lemma ext_trans a b c : ext a b -> ext b c -> ext a c.
Proof. intros [[t1 E1] L1] [[t2 E2] L2]. split; [exists (t1 ++ t2); rewrite E2, E1, app_assoc; reflexivity|lia]. Qed.
Lemma ext_set_ns sh ns : ext sh (set_ns sh ns). Proof. split; [exists []; cbn; rewrite app_nil_r; reflexivity|cbn; lia]. Qed.

Definition trK (K : shape -> Prop) (fl fl' : list Z) {X} (m : M X) : Prop :=
  forall s a s', K (shp s) -> WFx2 fl s -> m s = Ok (a, s') -> WFx2 fl' s' /\ ext (shp s) (shp s').
Notation tr fl fl' m := (trK KT fl fl' m).

Lemma WFx2_idx fl s : WFx2 fl s -> sh_idx (shp s).
Proof. intros (HI & _). exact HI. Qed.
Lemma WFx2_shape fl s s' : shp s' = shp s -> WFx2 fl s -> WFx2 fl s'.
Proof. unfold WFx2. intros ->. auto. Qed.
Lemma WFx2_fl_in fl s i : WFx2 fl s -> In i fl -> In i (sh_is (shp s)).
Proof. intros (_ & _ & _ & _ & HQ) Hi. eapply Permutation_in; [symmetry; exact HQ|]. apply in_or_app. right. exact Hi. Qed.

Lemma trK_run (K : shape -> Prop) fl fl' {X} (m : M X) s a s' :
  trK K fl fl' m -> K (shp s) -> WFx2 fl s -> m s = Ok (a, s') -> WFx2 fl' s' /\ ext (shp s) (shp s').
Proof. intros H. apply H. Qed.
Lemma trK_T (K : shape -> Prop) fl fl' {X} (m : M X) : tr fl fl' m -> trK K fl fl' m.
Proof. intros H s a s' _ HW E. eapply H; eauto. exact I. Qed.
Lemma trK_pres (K : shape -> Prop) fl {X} (m : M X) : presK K m -> trK K fl fl m.
Proof.
  intros H s a s' HK HW E. pose proof (H _ _ _ (WFx2_idx _ _ HW) HK E) as E1.
  split; [eapply WFx2_shape; [exact E1|exact HW]|rewrite E1; apply ext_refl].
Qed.
Lemma trK_bind_pres (K : shape -> Prop) fl fl' {X Y} (m : M X) (f : X -> M Y) :
  presK K m -> (forall a, trK K fl fl' (f a)) -> trK K fl fl' (bind m f).
Proof.
  intros Hm Hf s b s' HK HW H. unfold bind in H. destruct (m s) as [[a s1]| |] eqn:E; try discriminate.
  pose proof (Hm _ _ _ (WFx2_idx _ _ HW) HK E) as E1. rewrite <- E1.
  eapply Hf; [|eapply WFx2_shape; [exact E1|exact HW]|exact H]. rewrite E1. exact HK.
Qed.
Lemma trK_bind (K : shape -> Prop) fl1 fl2 fl3 {X Y} (m : M X) (f : X -> M Y) :
  trK K fl1 fl2 m -> (forall a, tr fl2 fl3 (f a)) -> trK K fl1 fl3 (bind m f).
Proof.
  intros Hm Hf s b s' HK HW H. unfold bind in H. destruct (m s) as [[a s1]| |] eqn:E; try discriminate.
  destruct (Hm _ _ _ HK HW E) as [W1 X1]. destruct (Hf a _ _ _ I W1 H) as [W2 X2]. split; [exact W2|eapply ext_trans; eauto].
Qed.
Lemma trK_get_node_bind (K : shape -> Prop) fl fl' {Y} j (f : node -> M Y) :
  (forall nd, trK (fun sh => K sh /\ okn sh nd) fl fl' (f nd)) -> trK K fl fl' (bind (get_node j) f).
Proof.
  intros Hf s b s' HK HW H. unfold bind in H. destruct (get_node j s) as [[nd s1]| |] eqn:E; try discriminate.
  apply get_node_spec in E as (-> & Hj & Hn). eapply Hf; [|exact HW|exact H]. split; [exact HK|].
  apply (get_node_okn j); [eapply WFx2_idx; eauto|assumption].
Qed.
Lemma trK_get_ind_bind (K : shape -> Prop) fl fl' {Y} i (f : ind -> M Y) :
  (forall x, i_id x = i -> trK (fun sh => K sh /\ oki sh x) fl fl' (f x)) -> trK K fl fl' (bind (get_ind i) f).
Proof.
  intros Hf s b s' HK HW H. unfold bind in H. destruct (get_ind i s) as [[x s1]| |] eqn:E; try discriminate.
  apply get_ind_spec in E as (-> & Hi & Hx). eapply Hf; [exact Hi| |exact HW|exact H]. split; assumption.
Qed.
Lemma trK_lift_bind (K : shape -> Prop) fl fl' {X Y} e (o : option X) (f : X -> M Y) :
  (forall a, o = Some a -> trK K fl fl' (f a)) -> trK K fl fl' (bind (lift e o) f).
Proof.
  intros Hf s b s' HK HW H. unfold bind in H. destruct o as [a|]; cbn in H; [|discriminate]. eapply Hf; eauto.
Qed.
Lemma trK_forM (K : shape -> Prop) fl {X} (f : X -> M unit) l : (forall a, tr fl fl (f a)) -> trK K fl fl (forM_ l f).
Proof.
  intros Hf. apply trK_T. induction l as [|a r IH]; cbn [forM_]; [apply trK_pres, pk_ret|].
  eapply trK_bind; [apply Hf|]. intros _. exact IH.
Qed.
(* the record of a customer in flight may be rewritten *)
Lemma trK_put_ind_fl (K : shape -> Prop) fl x : In (i_id x) fl -> trK K fl fl (put_ind x).
Proof.
  intros Hi s a s' _ HW H. unfold put_ind, modify in H. inversion H.
  assert (Es : shp (s <| inds := put_ind_l x (inds s) |>) = shp s).
  { unfold shp. cbn. f_equal. apply put_ind_l_ids_in. apply (WFx2_fl_in _ _ _ HW Hi). }
  split; [eapply WFx2_shape; [exact Es|exact HW]|rewrite Es; apply ext_refl].
Qed.

(* ---------- the three ways a node's queues change ---------- *)
Lemma shp_put_node s nd0 nd : okn (shp s) nd0 -> n_id nd = n_id nd0 ->
  exists k, nth_error (sh_ns (shp s)) k = Some (nshape nd0) /\
            shp (s <| nodes := updZ (nodes s) (n_id nd - 1) nd |>) = set_ns (shp s) (upd (sh_ns (shp s)) k (nshape nd)).
Proof.
  intros Hn Hid. unfold okn in Hn. destruct (nthZ_nat _ _ _ Hn) as (k & Hk & Hnk). exists k. split; [exact Hnk|].
  unfold shp, set_ns. cbn. f_equal. rewrite Hid, Hk, updZ_nat. apply upd_map.
Qed.

(* customer i is taken out of queue p of the node *)
Lemma trK_put_node_rm (K : shape -> Prop) fl i nd :
  (forall sh, K sh -> exists nd0 p q q', okn sh nd0 /\ nthZ (n_queues nd0) p = Some q /\ remove_first i q = Some q' /\
                      n_id nd = n_id nd0 /\ n_pop nd = n_pop nd0 - 1 /\ n_queues nd = updZ (n_queues nd0) p q') ->
  trK K fl (i :: fl) (put_node nd).
Proof.
  intros HK s a s' Hk HW H. unfold put_node, modify in H. inversion H.
  destruct (HK _ Hk) as (nd0 & p & q & q' & Hn & Hq & Hr & Hid & Hpop & Hqs).
  destruct (shp_put_node s nd0 nd Hn Hid) as (k & Hnk & Hs). unfold WFx2. rewrite Hs. split; [|apply ext_set_ns].
  eapply WFsh_rm; [exact HW|exact Hnk|cbn; exact Hid|cbn; exact Hpop|].
  unfold qof. cbn. rewrite Hqs. destruct (nthZ_nat _ _ _ Hq) as (kp & Hkp & Hqk). rewrite Hkp, updZ_nat.
  symmetry. eapply concat_upd_rm; [exact Hqk|]. apply remove_first_perm. exact Hr.
Qed.
(* customer i, in flight, is appended to queue p of the node *)
Lemma trK_put_node_add (K : shape -> Prop) fl i nd :
  (forall sh, K sh -> exists nd0 p q, okn sh nd0 /\ nthZ (n_queues nd0) p = Some q /\
                      n_id nd = n_id nd0 /\ n_pop nd = n_pop nd0 + 1 /\ n_queues nd = updZ (n_queues nd0) p (q ++ [i])) ->
  trK K (i :: fl) fl (put_node nd).
Proof.
  intros HK s a s' Hk HW H. unfold put_node, modify in H. inversion H.
  destruct (HK _ Hk) as (nd0 & p & q & Hn & Hq & Hid & Hpop & Hqs).
  destruct (shp_put_node s nd0 nd Hn Hid) as (k & Hnk & Hs). unfold WFx2. rewrite Hs. split; [|apply ext_set_ns].
  eapply WFsh_add; [exact HW|exact Hnk|cbn; exact Hid|cbn; exact Hpop|].
  unfold qof. cbn. rewrite Hqs. destruct (nthZ_nat _ _ _ Hq) as (kp & Hkp & Hqk). rewrite Hkp, updZ_nat.
  eapply concat_upd_add; [exact Hqk|]. rewrite Permutation_app_comm. reflexivity.
Qed.
(* the queues of the node are rearranged *)
Lemma trK_put_node_mv (K : shape -> Prop) fl nd :
  (forall sh, K sh -> exists nd0, okn sh nd0 /\ n_id nd = n_id nd0 /\ n_pop nd = n_pop nd0 /\
                      Permutation (concat (n_queues nd)) (concat (n_queues nd0))) ->
  trK K fl fl (put_node nd).
Proof.
  intros HK s a s' Hk HW H. unfold put_node, modify in H. inversion H.
  destruct (HK _ Hk) as (nd0 & Hn & Hid & Hpop & Hqs).
  destruct (shp_put_node s nd0 nd Hn Hid) as (k & Hnk & Hs). unfold WFx2. rewrite Hs. split; [|apply ext_set_ns].
  eapply WFsh_mv; [exact HW|exact Hnk|cbn; rewrite Hid, Hpop; reflexivity|exact Hqs].
Qed.

(* ---------- ExitNode.accept: the customer in flight reaches the exit, its record is deleted ---------- *)
Lemma tr_exit_accept i c fl : tr (i :: fl) fl (exit_accept i c).
Proof.
  intros s a s' _ HW H. unfold exit_accept, bind, del_ind, modify in H. inversion H. unfold WFx2, shp. cbn.
  split; [|split; [exists [i]; reflexivity|cbn; lia]].
  apply (WFsh_exit fl (shp s) i); [exact HW|]. cbn. apply del_ind_l_perm. apply (WFx2_fl_in _ _ _ HW). left. reflexivity.
Qed.

Ltac tk_struct :=
  match goal with
  | |- trK _ _ _ (bind (get_node _) _) => apply trK_get_node_bind; intros ?
  | |- trK _ _ _ (bind (get_ind _) _) => apply trK_get_ind_bind; intros ? ?
  | |- trK _ _ _ (bind _ _) => first [ (apply trK_bind_pres; [solve [pka]|intros ?]) | (eapply trK_bind; [|intros ?]) ]
  | |- trK _ _ _ (if ?b then _ else _) => destruct b
  | |- trK _ _ _ (match ?x with _ => _ end) => destruct x
  end.
(* t: lemmas about the customer-moving engine functions already treated *)
Tactic Notation "tk" "using" tactic(t) :=
  repeat first [ tk_struct | (apply trK_T; t) | (apply trK_pres; solve [pka]) ].

Section Conserve2.
  Variable cf : config.

  (* ---------- the recursive core: release / release_blocked_individual / accept / preempt, by induction on the fuel ---------- *)
  Lemma core_spec : forall f,
    (forall j i d rr fl, tr fl fl (release cf f j i d rr)) /\
    (forall j fl, tr fl fl (release_blocked_individual cf f j)) /\
    (forall j i fl, tr (i :: fl) fl (accept cf f j i)) /\
    (forall j v i fl, tr fl fl (preempt cf f j v i)).
  Proof.
    induction f as [|f (IHr & IHb & IHa & IHp)].
    - unfold trK. repeat split; intros; discriminate.
    - split; [|split; [|split]].
      + intros j i d rr fl. simpl release.
        apply trK_bind_pres; [pka|intros t].
        apply trK_get_ind_bind; intros x Hx.
        apply trK_get_node_bind; intros nd.
        apply trK_bind_pres; [pka|intros nc].
        apply trK_lift_bind; intros q Hq. apply trK_lift_bind; intros q' Hq'.
        eapply trK_bind; [apply trK_put_node_rm with (i := i)|intros _].
        { intros sh ((_ & _) & Hn). exists nd, (i_pprio x), q, q'. repeat split; assumption || reflexivity. }
        eapply trK_bind; [apply trK_put_ind_fl; left; symmetry; exact Hx|intros _].
        tk using first [apply tr_exit_accept | apply IHa | apply IHb].
      + intros j fl. simpl release_blocked_individual.
        tk using (apply IHr).
      + intros j i fl. simpl accept.
        apply trK_get_ind_bind; intros x Hx.
        apply trK_get_node_bind; intros nd.
        apply trK_bind_pres; [pka|intros _].
        apply trK_lift_bind; intros qs Hqs.
        eapply trK_bind; [apply trK_put_node_add with (i := i)|intros _].
        { intros sh ((_ & _) & Hn). destruct (nthZ (n_queues nd) (i_prio x)) as [q|] eqn:Eq; [|discriminate].
          injection Hqs as <-. exists nd, (i_prio x), q. repeat split; assumption || reflexivity. }
        tk using (apply IHp).
      + intros j v i fl. simpl preempt.
        tk using (apply IHr).
  Qed.

  Lemma tr_release f j i d rr fl : tr fl fl (release cf f j i d rr). Proof. apply core_spec. Qed.
  Lemma tr_release_blocked_individual f j fl : tr fl fl (release_blocked_individual cf f j). Proof. apply core_spec. Qed.
  Lemma tr_accept f j i fl : tr (i :: fl) fl (accept cf f j i). Proof. apply core_spec. Qed.
  Lemma tr_preempt f j v i fl : tr fl fl (preempt cf f j v i). Proof. apply core_spec. Qed.

  Lemma tr_finish_service j fl : tr fl fl (finish_service cf j).
  Proof. unfold finish_service. tk using (apply tr_release). Qed.

  Lemma tr_renege j fl : tr fl fl (renege cf j).
  Proof.
    unfold renege.
    apply trK_bind_pres; [pka|intros t].
    apply trK_bind_pres; [pka|intros nd].
    apply trK_bind_pres; [pka|intros i].
    apply trK_bind_pres; [pka|intros _].
    apply trK_bind_pres; [pka|intros d].
    apply trK_get_ind_bind; intros x Hx.
    apply trK_get_node_bind; intros nd1.
    apply trK_lift_bind; intros q Hq. apply trK_lift_bind; intros q' Hq'.
    eapply trK_bind; [apply trK_put_node_rm with (i := i)|intros _].
    { intros sh ((_ & _) & Hn). exists nd1, (i_pprio x), q, q'. repeat split; assumption || reflexivity. }
    tk using first [apply tr_exit_accept | apply tr_accept | apply tr_release_blocked_individual].
  Qed.

  Lemma tr_interrupt_service f j i pre fl : tr fl fl (interrupt_service cf f j i pre).
  Proof. unfold interrupt_service. tk using (apply tr_release). Qed.

  Lemma tr_off_duty_loop k f j pre se fl : forall idx, tr fl fl (off_duty_loop cf k f j idx pre se).
  Proof.
    induction k as [|k IH]; intros idx; cbn [off_duty_loop]; [apply trK_pres, pk_ret|].
    tk using first [apply tr_interrupt_service | apply IH].
  Qed.

  Lemma tr_take_servers_off_duty f j pre fl : tr fl fl (take_servers_off_duty cf f j pre).
  Proof. unfold take_servers_off_duty. tk using (apply tr_off_duty_loop). Qed.

  Lemma tr_change_shift j fl : tr fl fl (change_shift cf j).
  Proof. unfold change_shift. tk using (apply tr_take_servers_off_duty). Qed.

  Lemma tr_slotted_service j fl : tr fl fl (slotted_service cf j).
  Proof.
    unfold slotted_service.
    tk using first [apply tr_interrupt_service | (apply trK_forM; intros ?)].
  Qed.

  Lemma tr_ccww j fl : tr fl fl (change_customer_class_while_waiting cf j).
  Proof.
    unfold change_customer_class_while_waiting.
    apply trK_get_node_bind; intros nd.
    apply trK_lift_bind; intros i Hi.
    apply trK_get_ind_bind; intros x Hx.
    apply trK_lift_bind; intros nc' Hnc. apply trK_lift_bind; intros p' Hp'.
    apply trK_bind_pres; [pka|intros _].
    eapply trK_bind; [|intros _; tk using fail].
    destruct (negb (p' =? i_pprio x)); [|apply trK_pres, pk_ret].
    apply trK_lift_bind; intros q Hq. apply trK_lift_bind; intros q' Hq'. apply trK_lift_bind; intros qn Hqn.
    eapply trK_bind; [apply trK_put_node_mv|intros _; tk using (apply tr_preempt)].
    intros sh ((_ & Hn) & _). exists nd. split; [exact Hn|]. split; [reflexivity|]. split; [reflexivity|]. cbn.
    destruct (nthZ_nat _ _ _ Hq) as (kp & Hkp & Hqk). rewrite Hkp, updZ_nat in *.
    destruct (nthZ_nat _ _ _ Hqn) as (kn & Hkn & Hqnk). rewrite Hkn, updZ_nat.
    rewrite (concat_upd_add _ _ _ (qn ++ [i]) i Hqnk); [|rewrite Permutation_app_comm; reflexivity].
    eapply concat_upd_rm; [exact Hqk|]. apply remove_first_perm. exact Hq'.
  Qed.

  (* ---------- the arrival node ---------- *)
  Lemma tr_send_individual j i fl : tr (i :: fl) fl (send_individual cf j i).
  Proof. unfold send_individual. tk using (apply tr_accept). Qed.
  Lemma tr_release_individual j i fl : tr (i :: fl) fl (release_individual cf j i).
  Proof. unfold release_individual. tk using first [apply tr_exit_accept | apply tr_send_individual]. Qed.

  Lemma spawn_spec s s3 x : WFx2 [] s ->
    shp s3 = mkSh (sh_ns (shp s)) (sh_ex (shp s)) (sh_en (shp s)) (sh_cr (shp s) + 1) (sh_is (shp s)) ->
    i_id x = sh_cr (shp s) + 1 ->
    WFx2 [i_id x] (s3 <| inds := put_ind_l x (inds s3) |>) /\ ext (shp s) (shp (s3 <| inds := put_ind_l x (inds s3) |>)).
  Proof.
    intros HW Hs Hx. unfold WFx2.
    replace (shp (s3 <| inds := put_ind_l x (inds s3) |>))
      with (mkSh (sh_ns (shp s)) (sh_ex (shp s)) (sh_en (shp s)) (sh_cr (shp s) + 1) (sh_is (shp s) ++ [sh_cr (shp s) + 1])).
    - split; [rewrite Hx; apply WFsh_spawn; exact HW|]. split; [exists []; cbn; rewrite app_nil_r; reflexivity|cbn; lia].
    - pose proof (WFsh_fresh _ HW) as Hf. unfold shp in *. cbn in *. injection Hs as H1 H2 H3 H4 H5.
      rewrite put_ind_l_ids_new; [|rewrite H5, Hx; exact Hf].
      rewrite H1, H2, H3, H4, H5, Hx. reflexivity.
  Qed.

  Lemma tr_batch_loop : forall n j c p, tr [] [] (batch_loop cf n j c p).
  Proof.
    induction n as [|n IH]; intros j c p; cbn [batch_loop]; [apply trK_pres, pk_ret|].
    intros s a s' _ HW H.
    unfold bind at 1 in H. unfold modify at 1 in H.
    unfold bind at 1 in H. unfold gets at 1 in H.
    set (s1 := s <| arr := arr s <| a_created := a_created (arr s) + 1 |> |>) in H.
    change (a_created (arr s1)) with (a_created (arr s) + 1) in H.
    set (i := a_created (arr s) + 1) in H.
    unfold bind at 1 in H. destruct (1 <=? j); [|discriminate H]. cbn [ret] in H.
    unfold bind at 1 in H. destruct (get_node j s1) as [[nd s2]| |] eqn:E2; try discriminate H.
    apply get_node_spec in E2 as (-> & _ & _).
    unfold bind at 1 in H. destruct (route_of cf i c s1) as [[r s3]| |] eqn:E3; try discriminate H.
    assert (HI1 : sh_idx (shp s1)) by (exact (WFx2_idx _ _ HW)).
    pose proof (pk_route_of cf i c s1 r s3 HI1 I E3) as Hs3.
    unfold bind at 1 in H. unfold put_ind at 1, modify at 1 in H.
    destruct (spawn_spec s s3 (new_ind i c p r) HW) as [W3 X3]; [rewrite Hs3; reflexivity|reflexivity|].
    change (i_id (new_ind i c p r)) with i in W3.
    assert (T : tr [i] [] (release_individual cf j i ;;; batch_loop cf n j c p))
      by (eapply trK_bind; [apply tr_release_individual|intros _; apply IH]).
    destruct (T _ _ _ I W3 H) as [W4 X4]. split; [exact W4|eapply ext_trans; eauto].
  Qed.

  Lemma tr_arrival_have_event : tr [] [] (arrival_have_event cf).
  Proof. unfold arrival_have_event. tk using (apply tr_batch_loop). Qed.

  Lemma tr_node_have_event j fl : tr fl fl (node_have_event cf j).
  Proof.
    unfold node_have_event.
    tk using first [apply tr_finish_service | apply tr_change_shift | apply tr_renege | apply tr_ccww | apply tr_slotted_service].
  Qed.

  (* ---------- T2 for C01 on the stage-2 engine: one event ---------- *)
  Lemma tr_event_step : tr [] [] (event_step cf).
  Proof. unfold event_step. tk using first [apply tr_arrival_have_event | apply tr_node_have_event]. Qed.

  Theorem event_step_conserves2 s s' : WFx2 [] s -> event_step cf s = Ok (tt, s') -> WFx2 [] s'.
  Proof. intros HW H. exact (proj1 (tr_event_step _ _ _ I HW H)). Qed.
  (* ... and the exit list only grows at its end, the creation counter never decreases *)
  Theorem event_step_grows2 s s' : WFx2 [] s -> event_step cf s = Ok (tt, s') -> ext (shp s) (shp s').
  Proof. intros HW H. exact (proj2 (tr_event_step _ _ _ I HW H)). Qed.
End Conserve2.

(* ====================================================================================================================== *)
(* whole runs, the meaning of the invariant, the executable test                                                          *)
(* ====================================================================================================================== *)
(* any number of events, each with its own draws (= any seed, any distributions, any tie-breaks) *)
Theorem run_many_conserves2 cf : forall ds s s', WFx2 [] s -> run_many cf s ds = Ok s' -> WFx2 [] s'.
Proof.
  induction ds as [|d r IH]; intros s s' HW H; cbn [run_many] in H; [inversion H; subst s'; exact HW|].
  destruct (event_step cf (s <| dr := d |>)) as [[u s1]| |] eqn:E; try discriminate. destruct u.
  eapply IH; [|exact H]. eapply event_step_conserves2; [|exact E].
  eapply WFx2_shape; [|exact HW]. reflexivity.
Qed.

Lemma NoDup_app_left {X} (a b : list X) : NoDup (a ++ b) -> NoDup a.
Proof.
  induction a as [|x a IH]; cbn; intros H; [constructor|]. inversion H as [|? ? Hn Hd]. constructor; [|apply IH; exact Hd].
  intros Hin. apply Hn. apply in_or_app. left. exact Hin.
Qed.

(* the invariant in the words of C01 *)
Definition ids_in_nodes (s : sim) : list Z := concat (map all_individuals (nodes s)).
Definition ids_of (s : sim) : list Z := ids_in_nodes s ++ exit_ids s.
Theorem WFx2_means s : WFx2 [] s ->
  (* every customer created so far is in exactly one place: a queue of exactly one service node, or the exit *)
  Permutation (ids_of s) (zseq 1 (Z.to_nat (a_created (arr s)))) /\ NoDup (ids_of s) /\
  (* every node's reported population is the number of customers actually there; likewise the exit *)
  (forall nd, In nd (nodes s) -> n_pop nd = zlen (all_individuals nd)) /\ exit_n s = zlen (exit_ids s) /\
  (* arrivals = customers in nodes + customers at the exit *)
  a_created (arr s) = zsum (map n_pop (nodes s)) + exit_n s /\
  (* the customers in the nodes are exactly those that have a record, one record each; a customer at the exit has none *)
  Permutation (map i_id (inds s)) (ids_in_nodes s) /\ NoDup (map i_id (inds s)) /\
  (forall x, In x (exit_ids s) -> find_ind x (inds s) = None) /\
  (* node identities are positions *)
  (forall k nd, nth_error (nodes s) k = Some nd -> n_id nd = Z.of_nat k + 1).
Proof.
  intros (HI & (HC & HE) & H0 & HP & HQ). unfold shp, qids in *. cbn [sh_ns sh_ex sh_en sh_cr sh_is] in *. rewrite app_nil_r in HP, HQ.
  assert (Eids : concat (map (fun t : Z * Z * list (list Z) => concat (snd t)) (map nshape (nodes s))) = ids_in_nodes s).
  { rewrite map_map. reflexivity. }
  rewrite Eids in HP, HQ. fold (ids_of s) in HP.
  assert (Hpop : forall nd, In nd (nodes s) -> n_pop nd = zlen (all_individuals nd)).
  { intros nd Hin. rewrite Forall_forall in HC. apply (HC (nshape nd)). apply in_map. exact Hin. }
  assert (Hnd : NoDup (ids_of s)) by (eapply Permutation_NoDup; [symmetry; exact HP|apply zseq_NoDup]).
  split; [exact HP|]. split; [exact Hnd|]. split; [exact Hpop|]. split; [exact HE|].
  split; [|split; [exact HQ|split; [|split]]].
  - assert (Hlen : zlen (ids_of s) = a_created (arr s)).
    { unfold zlen. rewrite (Permutation_length HP), zseq_length. lia. }
    unfold ids_of in Hlen. unfold zlen in Hlen. rewrite app_length, Nat2Z.inj_add in Hlen.
    fold (zlen (exit_ids s)) in Hlen. rewrite <- HE in Hlen. rewrite <- Hlen. f_equal.
    clear -Hpop. unfold ids_in_nodes. induction (nodes s) as [|nd r IH]; [reflexivity|].
    cbn [map concat]. rewrite app_length, Nat2Z.inj_add. unfold zsum in *. cbn [map fold_right].
    rewrite (Hpop nd (or_introl eq_refl)). unfold zlen. rewrite IH; [reflexivity|]. intros x Hx. apply Hpop. right. exact Hx.
  - eapply Permutation_NoDup; [symmetry; exact HQ|]. unfold ids_of in Hnd. apply NoDup_app_left in Hnd. exact Hnd.
  - intros x Hx. destruct (find_ind x (inds s)) as [y|] eqn:Ef; [|reflexivity]. exfalso.
    apply find_ind_In in Ef. eapply Permutation_in in Ef; [|exact HQ].
    unfold ids_of in Hnd. clear -Hnd Ef Hx. induction (ids_in_nodes s) as [|a l IH]; [destruct Ef|].
    cbn in Hnd. inversion Hnd as [|? ? Hn Hd]. destruct Ef as [->|Ef].
    + apply Hn. apply in_or_app. right. exact Hx.
    + apply IH; assumption.
  - intros k nd Hk. specialize (HI k (nshape nd)). cbn in HI. rewrite nth_error_map, Hk in HI. apply (HI eq_refl).
Qed.

(* ---- an executable test of WFx2 [] ---- *)
Fixpoint idx_b (k : Z) (l : list node) : bool :=
  match l with [] => true | nd :: r => (n_id nd =? k) && idx_b (k + 1) r end.
Definition wfx2_b (s : sim) : bool :=
  idx_b 1 (nodes s)
  && forallb (fun nd => n_pop nd =? zlen (all_individuals nd)) (nodes s)
  && (exit_n s =? zlen (exit_ids s))
  && (0 <=? a_created (arr s))
  && list_eqb (isort (ids_of s)) (zseq 1 (Z.to_nat (a_created (arr s))))
  && list_eqb (isort (map i_id (inds s))) (isort (ids_in_nodes s)).

Lemma idx_b_spec : forall l k0, idx_b k0 l = true -> forall k nd, nth_error l k = Some nd -> n_id nd = Z.of_nat k + k0.
Proof.
  induction l as [|x r IH]; intros k0 H k nd Hk; [destruct k; discriminate|].
  cbn in H. apply andb_true_iff in H as [H1 H2]. apply Z.eqb_eq in H1. destruct k as [|k]; cbn in Hk.
  - injection Hk as <-. lia.
  - specialize (IH _ H2 k nd Hk). lia.
Qed.

Theorem wfx2_b_sound s : wfx2_b s = true -> WFx2 [] s.
Proof.
  unfold wfx2_b. intros H.
  apply andb_true_iff in H as [H H6]. apply andb_true_iff in H as [H H5]. apply andb_true_iff in H as [H H4].
  apply andb_true_iff in H as [H H3]. apply andb_true_iff in H as [H1 H2].
  apply Z.eqb_eq in H3. apply Z.leb_le in H4. apply list_eqb_eq in H5. apply list_eqb_eq in H6.
  assert (Eids : concat (map (fun t : Z * Z * list (list Z) => concat (snd t)) (map nshape (nodes s))) = ids_in_nodes s).
  { rewrite map_map. reflexivity. }
  unfold WFx2, WFsh, shp, sh_idx, sh_counts, qids. cbn [sh_ns sh_ex sh_en sh_cr sh_is]. rewrite Eids, !app_nil_r.
  split; [|split; [|split; [|split]]].
  - intros k t Hk. rewrite nth_error_map in Hk. destruct (nth_error (nodes s) k) as [nd|] eqn:E; [|discriminate].
    cbn in Hk. injection Hk as <-. cbn. rewrite (idx_b_spec _ _ H1 k nd E). lia.
  - split; [|exact H3]. rewrite Forall_forall. intros t Ht. apply in_map_iff in Ht. destruct Ht as [nd [<- Hin]].
    rewrite forallb_forall in H2. specialize (H2 _ Hin). apply Z.eqb_eq in H2. exact H2.
  - exact H4.
  - fold (ids_of s). rewrite <- H5. symmetry. apply isort_perm.
  - rewrite <- (isort_perm (map i_id (inds s))), H6. apply isort_perm.
Qed.

(* ====================================================================================================================== *)
(* a customer that has reached the exit never reappears                                                                   *)
(* ====================================================================================================================== *)
Theorem run_many_grows2 cf : forall ds s s', WFx2 [] s -> run_many cf s ds = Ok s' ->
  (exists t, exit_ids s' = exit_ids s ++ t) /\ a_created (arr s) <= a_created (arr s').
Proof.
  induction ds as [|d r IH]; intros s s' HW H; cbn [run_many] in H; [inversion H; subst s'; apply (ext_refl (shp s))|].
  destruct (event_step cf (s <| dr := d |>)) as [[u s1]| |] eqn:E; try discriminate. destruct u.
  assert (HW0 : WFx2 [] (s <| dr := d |>)) by (eapply WFx2_shape; [|exact HW]; reflexivity).
  pose proof (event_step_conserves2 cf _ _ HW0 E) as HW1.
  pose proof (event_step_grows2 cf _ _ HW0 E) as X1.
  pose proof (IH _ _ HW1 H) as X2. exact (ext_trans (shp s) (shp s1) (shp s') X1 X2).
Qed.

(* C01, last clause: a customer at the exit stays at the exit, is in no service node and has no record, after any number of events *)
Theorem exit_is_permanent2 cf : forall ds s s' x, WFx2 [] s -> run_many cf s ds = Ok s' -> In x (exit_ids s) ->
  In x (exit_ids s') /\ (forall nd, In nd (nodes s') -> ~ In x (all_individuals nd)) /\ find_ind x (inds s') = None.
Proof.
  intros ds s s' x HW H Hx.
  destruct (run_many_grows2 cf _ _ _ HW H) as [[t Et] _].
  assert (Hx' : In x (exit_ids s')) by (rewrite Et; apply in_or_app; auto).
  pose proof (run_many_conserves2 cf ds s s' HW H) as W'.
  destruct (WFx2_means _ W') as (_ & Hnd' & _ & _ & _ & _ & _ & Hrec & _).
  split; [exact Hx'|]. split; [|apply Hrec; exact Hx'].
  intros nd Hnd Hin. unfold ids_of, ids_in_nodes in Hnd'.
  assert (Hq : In x (concat (map all_individuals (nodes s')))) by (apply in_concat; exists (all_individuals nd); split; [apply in_map; exact Hnd|exact Hin]).
  clear -Hnd' Hq Hx'. induction (concat (map all_individuals (nodes s'))) as [|a l IH]; [destruct Hq|].
  cbn in Hnd'. inversion Hnd' as [|? ? Hn Hd]. destruct Hq as [->|Hq].
  - apply Hn. apply in_or_app. right. exact Hx'.
  - apply IH; assumption.
Qed.

(* ====================================================================================================================== *)
(* the list of interrupted customers is a second list of identifiers, not a second place                                  *)
(* ====================================================================================================================== *)
(* the invariant does not look at n_interrupted at all ... *)
Theorem interrupted_is_not_a_place fl s (g : node -> list Z) :
  WFx2 fl s <-> WFx2 fl (s <| nodes := map (fun nd => nd <| n_interrupted := g nd |>) (nodes s) |>).
Proof.
  assert (E : shp (s <| nodes := map (fun nd => nd <| n_interrupted := g nd |>) (nodes s) |>) = shp s).
  { unfold shp. cbn. f_equal. rewrite map_map. apply map_ext. intros nd. reflexivity. }
  unfold WFx2. rewrite E. tauto.
Qed.
(* ... and interrupting a service (pre-emptive shift change, capacitated slot) without rerouting leaves every customer where
   it is: identities, populations, queues, exit and records are untouched *)
Theorem interrupt_keeps_place cf f j i pre : pre <> 4 -> presK KT (interrupt_service cf f j i pre).
Proof.
  intros Hp. unfold interrupt_service. destruct (pre =? 4) eqn:E; [apply Z.eqb_eq in E; contradiction|]. pka.
Qed.

(* ====================================================================================================================== *)
(* Example: a two-node network with two customer classes; class 0 has priority over class 1, node 1 pre-empts (resume),   *)
(* class 0 customers renege at node 1 and jockey to node 2; node 1 routes to node 2, node 2 to the exit.                   *)
(* ====================================================================================================================== *)
Definition ex_cf : config :=
  mkCfg 2
    [ mkNcfg None None 0 SFixed 1 true [true; false] 0;
      mkNcfg None None 0 SFixed 0 false [false; false] 0 ]
    [0; 1] 2 None
    [ RtNR [RJockey 2 2; RLeave]; RtNR [RDirect 2; RLeave] ]
    [ [None; None]; [None; None] ] false [ [false; false]; [false; false] ].
Definition ex_srv : server := mkServer 1 None false None 0 None 0 false 0 None.
Definition ex_node (j : Z) : node :=
  mkNode j 0 0 [[]; []] [ex_srv] [] 0 None [] (Some 1) 1 [] 0 [] [] [] 0 None 0 None None.
Definition ex_s0 : sim :=
  mkSim 1 0 (mkArr 0 0 [[Some 2; Some 1]; [None; None]] 1 1 (Some 1)) [ex_node 1; ex_node 2] [] 0 0 []
        (mkDraws [] [] [] [] [] []) [] [[0; 0]; [0; 0]].
(* the draws offered to each event: inter-arrival 5, batch 1, service 10, uniform 0, patience 3 *)
Definition ex_d : draws := mkDraws [5] [1] [10; 10] [0; 0] [3; 3] [].
Definition ex_after (n : nat) : sim := match run_many ex_cf ex_s0 (repeat ex_d n) with Ok s => s | _ => ex_s0 end.

Example ex_initial : wfx2_b ex_s0 = true.
Proof. vm_compute. reflexivity. Qed.
(* after 12 events: customer 2 (class 0) has pre-empted customer 1, customer 4 has reneged at node 1 and jockeyed to node 2 *)
Example ex_state12 :
  wfx2_b (ex_after 12) = true /\
  map (fun nd => (n_pop nd, n_queues nd)) (nodes (ex_after 12)) = [(5, [[6]; [1; 3; 5; 7]]); (2, [[2; 8]; []])] /\
  exit_ids (ex_after 12) = [4] /\ map i_id (inds (ex_after 12)) = [1; 2; 3; 5; 6; 7; 8].
Proof. vm_compute. repeat split; reflexivity. Qed.
Example ex_invariant12 : WFx2 [] (ex_after 12).
Proof. apply wfx2_b_sound. vm_compute. reflexivity. Qed.
(* 8 more events from there *)
Example ex_run : exists s', run_many ex_cf (ex_after 12) (repeat ex_d 8) = Ok s' /\ wfx2_b s' = true /\
  map (fun nd => (n_pop nd, n_queues nd)) (nodes s') = [(8, [[10]; [1; 3; 5; 7; 9; 11; 13]]); (3, [[8; 6; 12]; []])] /\
  exit_ids s' = [4; 2].
Proof. eexists. split; [vm_compute; reflexivity|]. vm_compute. repeat split; reflexivity. Qed.

Print Assumptions event_step_conserves2.
Print Assumptions event_step_grows2.
Print Assumptions run_many_conserves2.
Print Assumptions WFx2_means.
Print Assumptions wfx2_b_sound.
Print Assumptions run_many_grows2.
Print Assumptions exit_is_permanent2.
Print Assumptions interrupted_is_not_a_place.
Print Assumptions interrupt_keeps_place.
Print Assumptions ex_run.

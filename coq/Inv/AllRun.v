(* AllRun.v -- the executable forms of the T2 invariants, evaluated together on one snapshot of the real engine by the
   correspondence check (dispatch_model 36): L [cfg; state] -> L [A wfx; A cap; A clk; A svc; A srv; A idle; A rows; A blk; A who; A hzn; A cnt], each 1 / 0.  On the initial
   snapshot of a run they are the hypotheses of the run theorems; on later snapshots they are what those theorems promise. *)
From Coq Require Import ZArith List Bool Lia.
From CiwV Require Import Sx Prelude.
From CiwV.Engine Require Import State Engine Codec.
From CiwV.Inv Require Import Frame Conserve ConserveRun Capacity SysCap CapacityRun Clock Samples Servers NonIdle Route Blocking Horizon Journey HorizonCount.
From CiwV.Inv Require TrackerInc DateSum.
Import ListNotations.
Open Scope Z_scope.

Definition bit (b : bool) : sx := A (if b then 1 else 0).

Definition invs_b (cf : config) (s : sim) : list bool := [wfx_b s; cap_b cf s; clk_b cf s; forallb svc_okb (inds s); srv_b cf s; ni_b cf s; rows_ok_b cf; blk_b cf s; who_b cf s; hzn_b cf s; cinv_b cf s].

Definition run_invs (inp : sx) : sx :=
  match inp with
  | L [c; s] =>
    match dec_cfg c, dec_sim s (L [L []; L []; L []; L []]) with
    | Some cf, Some st => L (map bit (invs_b cf st))
    | _, _ => A (-1)
    end
  | _ => A (-1)
  end.

(* every bit is sound for the invariant it stands for *)
Theorem invs_b_sound cf s : invs_b cf s = [true; true; true; true; true; true; true; true; true; true; true] ->
  WFx [] s /\ (J cf s /\ Sysq cf s) /\ Clk cf s /\ SvcInv s /\ SrvInv cf s /\ NIInv cf s /\ rows_ok cf /\ Blk cf s /\ Who cf s /\ Hzn cf s /\ CInv cf s.
Proof.
  unfold invs_b. intros H. injection H as H1 H2 H3 H4 H5 H6 H7 H8 H9 H10 H11.
  split; [apply wfx_b_sound; exact H1|]. split; [apply cap_b_sound; exact H2|]. split; [apply clk_b_sound; exact H3|].
  split; [exact H4|]. split; [apply srv_b_sound; exact H5|]. split; [apply ni_b_sound; exact H6|]. split; [apply rows_ok_b_sound; exact H7|]. split; [apply blk_b_sound; exact H8|]. split; [apply who_b_sound; exact H9|]. split; [apply hzn_b_sound; exact H10|apply cinv_b_sound; exact H11].
Qed.

(* C03: the journey invariant on a real snapshot together with the REAL cumulative record history and the real arrival nodes:
   L [cfg; state; L records (as Codec.enc_rec writes them); L [L [A id; A node]; ...]] -> A 1 / A 0 *)
Definition dec_rec (s : sx) : option rec :=
  match s with
  | L [A i; A c; A oc; A n; A t; a; w; ss; st; se; b; e; d; qa; qd; sv] =>
    do a' <- do_ a; do w' <- do_ w; do ss' <- do_ ss; do st' <- do_ st; do se' <- do_ se; do b' <- do_ b; do e' <- do_ e;
    do d' <- do_ d; do qa' <- do_ qa; do qd' <- do_ qd; do sv' <- do_ sv;
    Some (mkRec i c oc n t a' w' ss' st' se' b' e' d' qa' qd' sv')
  | _ => None
  end.
Fixpoint an_of (l : list (Z * Z)) (i : Z) : option Z :=
  match l with [] => None | (k, n) :: r => if k =? i then Some n else an_of r i end.
Definition run_jrn_real (inp : sx) : sx :=
  match inp with
  | L [c; s; h; a] =>
    match dec_cfg c, dec_sim s (L [L []; L []; L []; L []]), (do l <- getL h; omap dec_rec l), (do l <- getL a; omap dec_pair l) with
    | Some cf, Some st, Some hs, Some al => bit (jrn_b cf (an_of al) st hs)
    | _, _, _, _ => A (-1)
    end
  | _ => A (-1)
  end.
Theorem run_jrn_real_sound cf st hs al : jrn_b cf (an_of al) st hs = true -> Jrn cf (an_of al) st hs.
Proof. apply jrn_b_sound. Qed.

(* C20 (dispatch_model 43): the hypothesis on the draws and the conclusion of DateSum.run_many_grid / records_ds on one REAL event:
   L [A g; cfg; snapshot AFTER the event; the draws the event consumed; L records it wrote]
   -> L [the time draws are multiples of g; every date and duration of the snapshot and of the records is a multiple of g and the records'
         durations are the differences of their dates] *)
Definition with_log (st : sim) (hs : list rec) : sim :=
  mkSim (now st) (next_active st) (arr st) (nodes st) (exit_ids st) (exit_n st) (exit_completed st) (inds st) (dr st) hs.
Definition run_grid (inp : sx) : sx :=
  match inp with
  | L [A g; c; s; d; h] =>
    match dec_cfg c, dec_sim s d, (do l <- getL h; omap dec_rec l) with
    | Some cf, Some st, Some hs =>
      L [bit (forallb (fun x => x mod g =? 0) (d_arr (dr st)) && forallb (fun x => x mod g =? 0) (d_svc (dr st)));
         bit (DateSum.ds_b g cf (with_log st hs))]
    | _, _, _ => A (-1)
    end
  | _ => A (-1)
  end.
Theorem run_grid_sound g cf st hs : DateSum.ds_b g cf (with_log st hs) = true -> DateSum.Grid g (with_log st hs).
Proof. apply DateSum.ds_b_sound. Qed.

(* C17: the tracker calls the ENGINE MODEL says one event makes (TrackerInc.calls_event_step, the ghost call list the T2 theorems of
   TrackerInc.v are about), for comparison with the calls the real engine makes to its tracker in that event (dispatch_model 41):
   L [cfg; state; draws] -> L [L [A 0; A j; A c] | L [A 1; A j; A d; A i; A pc] | L [A 2; A j; A d; A i; A pc; A b] | L [A 3; A j; A pc; A c] ...] *)
Definition enc_call (c : TrackerInc.call) : sx :=
  match c with
  | TrackerInc.Acc j k => L [A 0; A j; A k]
  | TrackerInc.Blk j d i pc => L [A 1; A j; A d; A i; A pc]
  | TrackerInc.Rel j d i pc b => L [A 2; A j; A d; A i; A pc; A (if b then 1 else 0)]
  | TrackerInc.Chg j pc k => L [A 3; A j; A pc; A k]
  end.
Definition run_calls (inp : sx) : sx :=
  match inp with
  | L [c; s; d] =>
    match dec_cfg c, dec_sim s d with
    | Some cf, Some st => L [bit (TrackerInc.tinvc_b cf st); L (map enc_call (TrackerInc.calls_event_step cf st))]
    | _, _ => A (-1)
    end
  | _ => A (-1)
  end.

(* the draws of one event are acceptable to the clock theorem: L [arr; batch; svc; unif] as in Codec *)
Definition draws_ok_b (d : draws) : bool := forallb (fun x => 0 <=? x) (d_svc d) && forallb (fun x => 0 <=? x) (d_arr d).
Lemma draws_ok_b_sound d : draws_ok_b d = true -> DrawsOK d.
Proof.
  unfold draws_ok_b, DrawsOK. intros H. apply andb_true_iff in H as [H1 H2]. rewrite forallb_forall in H1, H2.
  split; apply Forall_forall; intros x Hx; apply Z.leb_le; auto.
Qed.
Print Assumptions invs_b_sound.

(* CapacityRun.v -- T2 for C06 over whole runs of the engine model, in the words of the property, with an executable
   test of the hypotheses for the correspondence check. *)
From Coq Require Import ZArith List Bool Lia Permutation.
From RecordUpdate Require Import RecordUpdate.
From CiwV Require Import Sx Prelude Routing.
From CiwV.Engine Require Import State Engine Codec.
From CiwV.Inv Require Import Frame Conserve ConserveRun Capacity SysCap.
Import ListNotations.
Open Scope Z_scope.

Theorem engine_capacity cf : forall ds s s',
  WFx [] s -> J cf s -> Sysq cf s -> run_many cf s ds = Ok s' ->
  (* no node holds more than servers + queue capacity *)
  (forall k nd c, nth_error (nodes s') k = Some nd -> cap_of cf (Z.of_nat k + 1) = Some c -> n_pop nd <= c) /\
  (* the system holds no more than the system capacity *)
  (forall sc, cf_syscap cf = Some sc -> zsum (map n_pop (nodes s')) <= sc).
Proof.
  intros ds s s' HW HJ HS H.
  pose proof (run_many_conserves cf ds s s' HW H) as W'.
  pose proof (run_many_cap cf ds s s' HJ H) as J'.
  pose proof (run_many_sys cf ds s s' HS H) as S'.
  split.
  - intros k nd c Hk Hc. eapply J_means; eauto.
  - intros sc Hsc. destruct (WFx_means _ W') as (_ & _ & _ & _ & Hbal).
    unfold Sysq in S'. rewrite Hsc in S'. unfold q in S'. lia.
Qed.

(* executable hypotheses *)
Definition cap_b (cf : config) (s : sim) : bool :=
  idx_b 1 (nodes s)
  && forallb (fun nd => match cap_of cf (n_id nd) with Some c => n_pop nd <=? c | None => true end) (nodes s)
  && match cf_syscap cf with Some sc => a_created (arr s) - exit_n s <=? sc | None => true end.

Theorem cap_b_sound cf s : cap_b cf s = true -> J cf s /\ Sysq cf s.
Proof.
  unfold cap_b. intros H. apply andb_true_iff in H as [H H3]. apply andb_true_iff in H as [H1 H2].
  assert (HI : Idx s).
  { intros k nd Hk. rewrite (idx_b_spec _ _ H1 k nd Hk). lia. }
  split; [split; [exact HI|]|].
  - intros j p Hp. unfold popZ in Hp. destruct (nthZ (nodes s) (j - 1)) as [nd|] eqn:En; [|discriminate]. cbn in Hp. injection Hp as <-.
    pose proof (Idx_get _ _ _ HI En) as Hid.
    unfold nthZ in En. destruct (j - 1 <? 0); [discriminate|].
    rewrite forallb_forall in H2. specialize (H2 nd (nth_error_In _ _ En)). rewrite Hid in H2.
    unfold under. destruct (cap_of cf j); [apply Z.leb_le; exact H2|exact I].
  - unfold Sysq, q. destruct (cf_syscap cf); [apply Z.leb_le; exact H3|exact I].
Qed.

(* L [cfg; state] -> A 1 when the snapshot satisfies the hypotheses of engine_capacity other than WFx (see ConserveRun.run_wfx) *)
Definition run_capb (inp : sx) : sx :=
  match inp with
  | L [c; s] =>
    match dec_cfg c, dec_sim s (L [L []; L []; L []; L []]) with
    | Some cf, Some st => A (if cap_b cf st then 1 else 0)
    | _, _ => A (-1)
    end
  | _ => A (-1)
  end.

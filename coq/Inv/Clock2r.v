(* Clock2r.v -- T2 for C02 on the STAGE-2 engine model, extension of Clock2.v towards the pre-emption option `resume`, in
   configurations WITHOUT QUEUE CAPACITIES (nobody is ever blocked).  PARTIAL: `resume` is covered for pre-emptive capacitated
   slots; for priority pre-emption and pre-emptive Schedules it is still excluded (what is missing is said below).

   Same statement as Clock2.v ("simulated time never decreases, each event is executed exactly at its scheduled date, no event is
   scheduled in the past"), for every configuration of scope_r_partial, every state satisfying Clk2r, every oracle with draws >= 0
   (Clock2.DrawsOK) and any number of events (partial correctness).

   Main results
     event_step_clk2r_partial, run_many_clk2r_partial, run_many_monotone2r_partial   Clk2r is kept by one event / any run, now s <= now s'
     Clk2r_means                 the invariant in the words of the property (as Clock2.Clk2_means)
     Clk2r_means_resume          what Clk2r adds: nobody is blocked (n_lenbq <= 0, no blocked flag); the time left of every customer that
                                 carries the resume marker is >= 0; service times >= 0; a started customer of a slotted node has an end
                                 date that has not passed
     run_many_noblock_tleft_partial   the first two as statements over runs
     clk2r_b, clk2r_b_sound      executable test of the invariant (sound)
     rx_* (pre-emptive capacitated slots with resume: an interruption with time left 3 and the resumption),
     mx_* (priority restart + pre-emptive Schedule resample + slot resume, no capacities)   closed states and runs; both configurations
                                 are outside Clock2.scope
   Scope (executable):  scope_r_partial c = nocap c && negb (cf_dyn c) && noresume_ps c && (prio_reroute c || noren c) && wf_times c
     nocap        no node has a queue capacity.  Then has_space is always true, block_individual is never called, nobody is blocked;
                  this is what makes time_left = end date - now >= 0 at an interruption (Clock2.clock_monotone_refuted_F02a / _F02b
                  are the witnesses with capacities)
     negb cf_dyn  no class change while waiting (Clock2 has it only without pre-emption; proof economy)
     noresume_ps  priority pre-emption and pre-emptive Schedules do not use `resume` (capacitated slots may)   [NOT refuted: see below]
     prio_reroute || noren, wf_times   as in Clock2.v (F-02c; timetables with increasing dates)
   What is missing for priority / Schedule `resume`.  Their victims are found through the SERVERS (sv_cust of a server of the node),
   so time_left >= 0 needs "the customer a server holds has an end date >= now" DURING the event, after arbitrary cascades.  That is a
   two-way server <-> customer link (customer records exactly that server, is located at that node, server ids distinct, retired ids
   not reused, interrupted customers stay in their queue, the candidates of the next event are in service / waiting): the whole of
   Servers2.v, whose Hoare logic is over views and is only exported at event boundaries (SrvInv2) and at function entries, not at the
   program points inside accept / take_servers_off_duty where the victims are chosen.  Clock2.Inv itself cannot be reused either: its
   per-customer clause says i_smark <> 1.  The slot case needs no link: the victims are taken from the node's own queue, so a
   customer-local clause (Good) suffices.
   Method.  Clock2.v's Hoare logic (Renege2.sp) and walk, re-done for a changed invariant: NumOK (service times, time left under the
   resume marker, no blocked flag), Good (end date of a started customer of a slotted node / of a customer in transit whose attributes
   were reset: transit state TRec), n_lenbq <= 0.  The ghost `ex` (Clock2's excused customer) is used for the customer whose start of
   service has been written but not yet its end (start_give, start_preemptor, slot_loop); interrupt_service at a slot is proved with
   a frame logic (ke) for the end dates of the other victims, which are distinct (sort_desc_perm, NoDup_firstn).  Timetables, draws,
   list facts and the arrival node's minimum are taken from Clock2.v by qualified name. *)
From Coq Require Import ZArith List Bool Lia Permutation.
From RecordUpdate Require Import RecordUpdate.
From CiwV Require Import Sx Prelude Routing Sched.
From CiwV.Engine Require Import State2 Engine2 Codec2.
From CiwV.Inv Require Renege2 Preempt2 Clock2.
Import ListNotations.
Open Scope Z_scope.

Local Arguments Z.mul : simpl never.
Local Arguments Z.add : simpl never.
Local Arguments Z.sub : simpl never.
Local Arguments Z.ltb : simpl never.
Local Arguments Z.leb : simpl never.
Local Arguments Z.eqb : simpl never.
Local Arguments Z.to_nat : simpl never.
Local Arguments Z.of_nat : simpl never.
Local Arguments Z.min : simpl never.
Local Arguments Z.max : simpl never.
Local Arguments nth_error : simpl never.
Local Arguments gen_date : simpl never.
Local Arguments D : simpl never.

Notation dle := Renege2.dle.
Notation sp := Renege2.sp.
Notation top := Renege2.top.
Notation Idx := Renege2.Idx.
Notation out := Renege2.out.
Notation TNone := Renege2.TNone.
Notation TOut := Renege2.TOut.
Notation TRec := Renege2.TRec.
(* what is taken over from Clock2.v unchanged (timetables, draws, list facts, the arrival node's minimum) *)
Notation wf_tt := Clock2.wf_tt.
Notation wf_tt_mono := Clock2.wf_tt_mono.
Notation wf_tt_D0 := Clock2.wf_tt_D0.
Notation slotdate := Clock2.slotdate.
Notation slotdate_step := Clock2.slotdate_step.
Notation wf_nc := Clock2.wf_nc.
Notation wf_times := Clock2.wf_times.
Notation prio_reroute := Clock2.prio_reroute.
Notation noren := Clock2.noren.
Notation nonneg := Clock2.nonneg.
Notation DrawsOK := Clock2.DrawsOK.
Notation find_server_In := Clock2.find_server_In.
Notation Forall_put_server := Clock2.Forall_put_server.
Notation Forall_del_server := Clock2.Forall_del_server.
Notation Forall_map_server := Clock2.Forall_map_server.
Notation NN := Clock2.NN.
Notation NN_None := Clock2.NN_None.
Notation NN_Some := Clock2.NN_Some.
Notation NN_numo := Clock2.NN_numo.
Notation Loc := Clock2.Loc.
Notation LB := Clock2.LB.
Notation find_min_row_spec := Clock2.find_min_row_spec.
Notation find_min_dates_spec := Clock2.find_min_dates_spec.

(* invert one bind, with names chosen by the caller *)
Ltac minv H a s1 E :=
  match type of H with
  | bind ?m ?f ?s = Ok _ => unfold bind in H at 1; destruct (m s) as [[a s1]| |] eqn:E; [|discriminate H|discriminate H]
  end.

(* ---------- the scope ---------- *)
(* no node has a queue capacity: nobody is ever blocked *)
Definition nocap_nc (nc : ncfg) : bool := match nc_cap nc with None => true | Some _ => false end.
Definition nocap (c : config) : bool := forallb nocap_nc (cf_nodes c).
(* `resume` is allowed for pre-emptive capacitated slots; NOT (yet) for priority pre-emption and pre-emptive Schedules *)
Definition noresume_ps_nc (nc : ncfg) : bool :=
  negb (nc_preempt nc =? 1) && match nc_srv nc with SSched sc => negb (sc_pre sc =? 1) | _ => true end.
Definition noresume_ps (c : config) : bool := forallb noresume_ps_nc (cf_nodes c).

Create HintDb spdr.

(* ================================================================================================================ *)
(* the invariant during one event (executed at date t)                                                              *)
(* ================================================================================================================ *)
Section Clock2r.
  Variable cf : config.
  Variable inf_at : Z -> bool.              (* which nodes have infinitely many servers (fixed during a run) *)
  Variable t : Z.                           (* the date of the event in progress *)
  Variable nn : nat.                        (* the number of nodes *)

  Hypothesis XHdyn : cf_dyn cf = false.
  Hypothesis XHnr : noresume_ps cf = true.
  Hypothesis XHpr : prio_reroute cf = true \/ noren cf = true.
  Hypothesis XHcap : nocap cf = true.
  Hypothesis Hwf : wf_times cf = true.
  (* a node with a server schedule has finitely many servers *)
  Hypothesis Hsch : forall j nc sc, nthZ (cf_nodes cf) (j - 1) = Some nc -> nc_srv nc = SSched sc -> inf_at j = false.

  Definition ncf (j : Z) : option ncfg := nthZ (cf_nodes cf) (j - 1).
  Definition ren_at (j : Z) : bool := match ncf j with Some nc => nc_reneging nc | None => false end.

  Definition ArrOK (a : arrst) : Prop :=
    Forall (Forall (dle (Some t))) (a_dates a) /\ Forall (Forall (dle (a_next_date a))) (a_dates a) /\ Loc a.

  (* a customer without server at a finite node with reneging: its reneging date has not passed *)
  Definition IP (x : ind) : Prop :=
    forall j z, i_node x = Some j -> ren_at j = true -> inf_at j = false -> i_ren x = XV z -> i_server x = None -> t <= z.
  (* class change while waiting.  gc is a ghost: node id -> the (next_class_change_date, next_class_change_ind) that node holds;
     ex = Some (i, j): customer i, at node j, is excused (its class-change clock is being rewound / it is being given a server) *)
  Definition CCI (ex : option (Z * Z)) (gc : Z -> option Z * option Z) (x : ind) (j : Z) : Prop :=
    (i_server x = None -> forall z, i_ccd x = XV z -> ex = Some (i_id x, j) \/ (t <= z /\ dle (fst (gc j)) (Some z))) /\
    (snd (gc j) = Some (i_id x) -> i_server x = None \/ ex = Some (i_id x, j)).
  (* numbers: service times are >= 0, the time left of a customer carrying the `resume` marker is >= 0, nobody is blocked *)
  Definition NumOK (x : ind) : Prop :=
    NN (i_stime x) /\ NN (i_ost x) /\ (i_smark x = 1 -> NN (i_tleft x)) /\ i_blocked x = false.
  Definition slot_at (j : Z) : bool := match ncf j with Some nc => nc_slotted nc | None => false end.
  (* a customer of a slotted node whose service has started (and a customer in transit whose attributes have been reset, TRec)
     has an end date that has not passed *)
  Definition EndGood (x : ind) : Prop := exists e, i_send x = Some e /\ t <= e.
  Definition Good (tr : Renege2.transit) (x : ind) : Prop :=
    (tr = TRec (i_id x) \/ (out tr (i_id x) = false /\ exists j, i_node x = Some j /\ slot_at j = true)) -> i_sst x <> None -> EndGood x.
  Definition IndOK (loc : Z -> option Z) (tr : Renege2.transit) (ex : option (Z * Z)) (gc : Z -> option Z * option Z) (cr : Z) (x : ind) : Prop :=
    i_id x <= cr /\
    NumOK x /\
    (out tr (i_id x) = false ->
       (exists j, i_node x = Some j /\ loc (i_id x) = Some j) /\ IP x /\
       (cf_dyn cf = true -> forall j, i_node x = Some j -> inf_at j = false -> CCI ex gc x j)) /\
    (forall j, ex = Some (i_id x, j) -> i_node x = Some j /\ loc (i_id x) = Some j) /\
    ((exists j0, ex = Some (i_id x, j0)) \/ Good tr x).

  Definition SvOK (sv : server) : Prop := dle (Some t) (sv_next_end sv).
  (* the dates a node carries: end-of-service dates of its servers, its next shift change / slot, its next class change *)
  Definition NodeT (ex : option (Z * Z)) (gc : Z -> option Z * option Z) (nd : node) : Prop :=
    ((Renege2.nopre cf = true -> n_nint nd <= 0) /\ n_lenbq nd <= 0) /\
    (cf_dyn cf = true -> (n_nccd nd, n_ncci nd) = gc (n_id nd) /\
       (nd_inf nd = false -> dle (Some t) (n_nccd nd) /\
                             forall i, n_ncci nd = Some i -> In i (all_individuals nd) \/ ex = Some (i, n_id nd))) /\
    match ncf (n_id nd) with
    | None => True
    | Some nc =>
      (nd_inf nd = false -> nc_slotted nc = false -> Forall SvOK (n_servers nd)) /\
      match nc_srv nc with
      | SFixed => True
      | SSched sc => 0 <= n_spos nd /\ n_next_shift nd = Some (D (sc_b sc) (sc_off sc) (Z.to_nat (n_spos nd))) /\
                     t <= D (sc_b sc) (sc_off sc) (Z.to_nat (n_spos nd))
      | SSlot sl => 0 <= n_spos nd /\ t <= slotdate sl (Z.to_nat (n_spos nd))
      end
    end.
  Definition NodeOK (loc : Z -> option Z) (tr : Renege2.transit) (ex : option (Z * Z)) (gc : Z -> option Z * option Z) (cr : Z) (nd : node) : Prop :=
    nd_inf nd = inf_at (n_id nd) /\ NoDup (all_individuals nd) /\
    (forall id, In id (all_individuals nd) -> id <= cr /\ out tr id = false /\ loc id = Some (n_id nd)) /\
    (forall id, out tr id = false -> loc id = Some (n_id nd) -> In id (all_individuals nd)) /\
    NodeT ex gc nd.

  Definition Inv (loc : Z -> option Z) (tr : Renege2.transit) (ex : option (Z * Z)) (gc : Z -> option Z * option Z) (cr : Z) (s : sim) : Prop :=
    now s = t /\ a_created (arr s) = cr /\ length (nodes s) = nn /\ Idx s /\ NoDup (map i_id (inds s)) /\
    Forall (IndOK loc tr ex gc cr) (inds s) /\
    (forall k nd, nth_error (nodes s) k = Some nd -> NodeOK loc tr ex gc cr nd) /\
    (forall id j, loc id = Some j -> 1 <= j <= Z.of_nat nn) /\
    ArrOK (arr s) /\ DrawsOK (dr s).

  (* ---------- harmless updates ---------- *)
  (* how an update may touch the start / end of service *)
  Definition SEok (x x' : ind) : Prop :=
    (i_sst x' = i_sst x /\ i_send x' = i_send x) \/ i_sst x' = None \/ EndGood x'.
  Lemma Good_rel tr x x' : Good tr x -> i_id x' = i_id x -> i_node x' = i_node x -> SEok x x' -> Good tr x'.
  Proof.
    intros HG E1 E2 HS. unfold Good. rewrite E1, E2. intros Hc Hs. destruct HS as [[Ea Eb]|[Ea|Ea]]; [|congruence|exact Ea].
    rewrite Ea in Hs. destruct (HG Hc Hs) as (e & He & Hle). exists e. rewrite Eb. auto.
  Qed.
  Lemma IndOK_irel loc tr ex gc cr x x' : IndOK loc tr ex gc cr x ->
    i_id x' = i_id x -> i_node x' = i_node x -> (i_ren x' = i_ren x \/ forall z, i_ren x' <> XV z) -> (i_server x' = None -> i_server x = None) ->
    (cf_dyn cf = true -> i_server x = None -> i_server x' = None) ->
    (i_ccd x' = i_ccd x \/ forall z, i_ccd x' <> XV z) ->
    NN (i_stime x') -> NN (i_ost x') -> (i_smark x' = 1 -> NN (i_tleft x')) -> i_blocked x' = false -> SEok x x' -> IndOK loc tr ex gc cr x'.
  Proof.
    intros (A & _ & C & C4 & C5) E1 E2 E3 E4 E5 E6 N1 N2 N3 N4 N5. unfold IndOK. rewrite E1, E2. split; [exact A|]. split; [unfold NumOK; auto|]. split; [|split; [exact C4|]].
    - intros Ho. destruct (C Ho) as [(j & Hj & Hl) [HP HC]]. split; [exists j; auto|]. split.
      + intros j' z Hj' Hr Hi Hz Hs. rewrite E2 in Hj'. destruct E3 as [E3|E3]; [|exfalso; exact (E3 z Hz)]. rewrite E3 in Hz. apply (HP j' z Hj' Hr Hi Hz). apply E4. exact Hs.
      + intros Hd. congruence.
    - destruct C5 as [C5|C5]; [left; exact C5|right]. eapply Good_rel; eauto.
  Qed.
  (* updates of the excused customer *)
  Lemma IndOK_xrel loc tr ex gc cr x x' j0 : IndOK loc tr ex gc cr x -> ex = Some (i_id x, j0) ->
    i_id x' = i_id x -> i_node x' = i_node x -> i_ren x' = i_ren x -> (i_server x' = None -> i_server x = None) ->
    NN (i_stime x') -> NN (i_ost x') -> (i_smark x' = 1 -> NN (i_tleft x')) -> i_blocked x' = false -> IndOK loc tr ex gc cr x'.
  Proof.
    intros (A & _ & C & C4 & _) Hex E1 E2 E3 E4 N1 N2 N3 N4. unfold IndOK. rewrite E1, E2. split; [exact A|]. split; [unfold NumOK; auto|]. split; [|split; [exact C4|left; exists j0; exact Hex]].
    intros Ho. destruct (C Ho) as [(j & Hj & Hl) [HP HC]]. split; [exists j; auto|]. split.
    - intros j' z Hj' Hr Hi Hz Hs. rewrite E2 in Hj'. rewrite E3 in Hz. apply (HP j' z Hj' Hr Hi Hz). apply E4. exact Hs.
    - intros Hd. congruence.
  Qed.
  (* any update of the customer in transit that keeps its start / end of service *)
  Lemma IndOK_orel loc tr ex gc cr x x' : IndOK loc tr ex gc cr x -> out tr (i_id x) = true -> i_id x' = i_id x -> i_node x' = i_node x ->
    NN (i_stime x') -> NN (i_ost x') -> (i_smark x' = 1 -> NN (i_tleft x')) -> i_blocked x' = false -> SEok x x' -> IndOK loc tr ex gc cr x'.
  Proof.
    intros (A & _ & C & C4 & C5) Ho E1 E2 N1 N2 N3 N4 N5. unfold IndOK. rewrite E1, E2. split; [exact A|]. split; [unfold NumOK; auto|]. split; [rewrite Ho; discriminate|split; [exact C4|]].
    destruct C5 as [C5|C5]; [left; exact C5|right]. eapply Good_rel; eauto.
  Qed.
  Lemma NodeOK_nrel loc tr ex gc cr nd nd' : NodeOK loc tr ex gc cr nd -> n_id nd' = n_id nd -> n_queues nd' = n_queues nd -> n_c nd' = n_c nd ->
    n_spos nd' = n_spos nd -> n_next_shift nd' = n_next_shift nd -> n_nccd nd' = n_nccd nd -> n_ncci nd' = n_ncci nd -> (Renege2.nopre cf = true -> n_nint nd' <= n_nint nd) -> n_lenbq nd' <= n_lenbq nd ->
    (Forall SvOK (n_servers nd) -> Forall SvOK (n_servers nd')) -> NodeOK loc tr ex gc cr nd'.
  Proof.
    unfold NodeOK, NodeT, all_individuals, nd_inf. intros (A & B & C & D0 & [E0 E0b] & E1 & E) -> -> -> -> -> -> -> Hn Hb HS.
    repeat (split; [assumption|]). split; [split; [intros Hp; specialize (E0 Hp); specialize (Hn Hp); lia|lia]|]. split; [exact E1|]. destruct (ncf (n_id nd)) as [nc|]; [|exact I]. destruct E as [E2 E3]. split; [|exact E3].
    intros Hi Hs. apply HS. apply E2; assumption.
  Qed.
  Lemma NodeOK_perm loc tr ex gc cr nd nd' : NodeOK loc tr ex gc cr nd -> n_id nd' = n_id nd -> Permutation (all_individuals nd) (all_individuals nd') ->
    n_c nd' = n_c nd -> n_spos nd' = n_spos nd -> n_next_shift nd' = n_next_shift nd -> n_servers nd' = n_servers nd ->
    n_nccd nd' = n_nccd nd -> n_ncci nd' = n_ncci nd -> n_nint nd' = n_nint nd -> n_lenbq nd' = n_lenbq nd -> NodeOK loc tr ex gc cr nd'.
  Proof.
    unfold NodeOK, NodeT, nd_inf. intros (A & B & C & D0 & E0 & E1 & E) Ei P -> -> -> -> -> -> -> ->. rewrite Ei. split; [exact A|]. split; [eapply Permutation_NoDup; eauto|]. split; [|split; [|split; [exact E0|split; [|exact E]]]].
    - intros id Hin. apply C. eapply Permutation_in; [symmetry; exact P|exact Hin].
    - intros id Ho Hl. eapply Permutation_in; [exact P|]. apply D0; assumption.
    - intros Hd. destruct (E1 Hd) as [G1 G2]. split; [exact G1|]. intros Hi. destruct (G2 Hi) as [G3 G4]. split; [exact G3|].
      intros i Hc. destruct (G4 i Hc) as [G5|G5]; [left; eapply Permutation_in; [exact P|exact G5]|right; exact G5].
  Qed.

  (* ---------- tactics for the walk ---------- *)
  Ltac srv_tac :=
    let HF := fresh "HF" in intro HF; cbn;
    first [ exact HF
          | (apply Forall_put_server; [exact HF|]; unfold SvOK; cbn;
             match goal with Hf : find_server _ _ = Some ?sv |- _ =>
               let HF' := fresh in pose proof HF as HF'; rewrite Forall_forall in HF'; apply (HF' sv); eapply find_server_In; exact Hf end)
          | (apply Forall_del_server; exact HF) ].
  Ltac nodeok :=
    match goal with
    | H : NodeOK ?l ?r ?e ?g ?c ?nd |- NodeOK ?l ?r ?e ?g ?c _ =>
      solve [ apply (NodeOK_nrel l r e g c nd _ H);
              [reflexivity|reflexivity|reflexivity|reflexivity|reflexivity|reflexivity|reflexivity|first [(intros _; cbn; lia)|(intros ?Hn; congruence)]|(cbn; lia)|srv_tac] ]
    end.
  Ltac nn_tac := first [ assumption | apply NN_None | (apply NN_Some; first [lia | assumption]) | lia | discriminate ].
  Ltac se_tac := unfold SEok, EndGood; cbn;
    first [ (left; split; reflexivity) | (right; left; reflexivity) | (right; right; eexists; split; [reflexivity|lia]) ].
  Ltac irel_tac :=
    first [ se_tac
          | cbn; first [ reflexivity | nn_tac | (intro; assumption) | (intro; discriminate) | (intros _ ?H; exact H) | (intros ?Hd; congruence)
               | (left; reflexivity) | (right; intros ? ?; discriminate) ] ].
  Ltac indok :=
    match goal with
    | H : IndOK ?l ?r ?e ?g ?c ?x |- IndOK ?l ?r ?e ?g ?c _ =>
      solve [ let H' := fresh in pose proof H as H'; destruct H' as (_ & (? & ? & ? & ?) & _); apply (IndOK_irel l r e g c x _ H); irel_tac ]
    | H : IndOK ?l ?r ?e ?g ?c ?x, Hi : i_id ?x = ?i |- IndOK ?l ?r ?e ?g ?c _ =>
      solve [ let H' := fresh in pose proof H as H'; destruct H' as (_ & (? & ? & ? & ?) & _);
              eapply (IndOK_xrel l r e g c x _ _ H); [rewrite Hi; first [reflexivity|eassumption]|irel_tac..] ]
    | H : IndOK ?l ?r ?e ?g ?c ?x, Ho : out ?r ?i = true, Hi : i_id ?x = ?i |- IndOK ?l ?r ?e ?g ?c _ =>
      solve [ let H' := fresh in pose proof H as H'; destruct H' as (_ & (? & ? & ? & ?) & _);
              apply (IndOK_orel l r e g c x _ H); [rewrite Hi; exact Ho|reflexivity|reflexivity|irel_tac..] ]
    end.
  Ltac sp_intro :=
    let a := fresh "v" in let H := fresh "F" in
    intros a H; cbv beta in H;
    try match type of H with _ /\ _ => let H1 := fresh "F" in let H2 := fresh "F" in destruct H as [H1 H2] end;
    try match type of H with a = _ => subst a end.

  Section Small.
    Variables (loc : Z -> option Z) (tr : Renege2.transit) (ex : option (Z * Z)) (gc : Z -> option Z * option Z) (cr : Z).
    Notation I := (Inv loc tr ex gc cr).
    Notation spI := (sp I I).

    Lemma Inv_same s s' : I s -> now s' = now s -> a_created (arr s') = a_created (arr s) -> nodes s' = nodes s -> inds s' = inds s ->
      ArrOK (arr s') -> DrawsOK (dr s') -> I s'.
    Proof. unfold Inv, Idx. intros (A & B & C & D0 & E & F & G & H & K & L) E1 E2 E3 E4 HA HD. rewrite E1, E2, E3, E4. repeat (split; [assumption|]). assumption. Qed.
    Lemma ArrOK_same a a' : ArrOK a -> a_dates a' = a_dates a -> a_next_node a' = a_next_node a -> a_next_cls a' = a_next_cls a ->
      a_next_date a' = a_next_date a -> ArrOK a'.
    Proof. unfold ArrOK, Loc. intros H -> -> -> ->. exact H. Qed.
    Lemma spI_same (f : sim -> sim) :
      (forall s, now (f s) = now s /\ a_created (arr (f s)) = a_created (arr s) /\ nodes (f s) = nodes s /\ inds (f s) = inds s /\
                 a_dates (arr (f s)) = a_dates (arr s) /\ a_next_node (arr (f s)) = a_next_node (arr s) /\
                 a_next_cls (arr (f s)) = a_next_cls (arr s) /\ a_next_date (arr (f s)) = a_next_date (arr s) /\ dr (f s) = dr s) ->
      spI (modify f) top.
    Proof.
      intros Hf s a s' HI H. apply Renege2.modify_inv in H. subst s'. destruct (Hf s) as (E1 & E2 & E3 & E4 & E5 & E6 & E7 & E8 & E9). split; [|exact Logic.I].
      eapply Inv_same; eauto; [eapply ArrOK_same; [apply HI|..]; assumption|rewrite E9; apply HI].
    Qed.
    Lemma spI_tnow : spI tnow (fun a => a = t).
    Proof. intros s a s' HI H. apply Renege2.tnow_inv in H as [-> ->]. split; [exact HI|apply HI]. Qed.
    Lemma spI_get_node j : spI (get_node j) (fun nd => NodeOK loc tr ex gc cr nd /\ n_id nd = j).
    Proof.
      intros s nd s' HI H. apply Renege2.get_node_inv in H as (-> & Hj & Hn). split; [exact HI|]. destruct HI as (_ & _ & _ & HX & _ & _ & HN & _).
      split; [|eapply Renege2.Idx_get; eauto]. apply Renege2.nthZ_nat in Hn as [_ Hn]. eapply HN; eauto.
    Qed.
    Lemma spI_get_ind i : spI (get_ind i) (fun x => IndOK loc tr ex gc cr x /\ i_id x = i).
    Proof.
      intros s x s' HI H. apply Renege2.get_ind_inv in H as (-> & Hx). split; [exact HI|]. destruct HI as (_ & _ & _ & _ & _ & HF & _).
      split; [|eapply Renege2.find_ind_id; eauto]. rewrite Forall_forall in HF. apply HF. eapply Renege2.find_ind_In; eauto.
    Qed.
    Lemma Inv_put_node s nd : I s -> NodeOK loc tr ex gc cr nd -> I (s <| nodes := updZ (nodes s) (n_id nd - 1) nd |>).
    Proof.
      intros (A & B & C & D0 & E & F & G & H & K & L) Hnd. unfold Inv. cbn [now arr nodes inds dr set].
      split; [exact A|]. split; [exact B|]. split; [rewrite Renege2.length_updZ; exact C|]. split; [unfold Idx; cbn [nodes set]; apply Renege2.Idx_updZ; exact D0|].
      split; [exact E|]. split; [exact F|]. split; [|auto].
      intros k x Hk. unfold updZ in Hk. destruct (n_id nd - 1 <? 0); [eapply G; eauto|].
      destruct (Renege2.nth_error_upd_cases _ _ _ _ _ Hk) as [[_ ->]|[_ Hk']]; [exact Hnd|eapply G; eauto].
    Qed.
    Lemma spI_put_node nd : NodeOK loc tr ex gc cr nd -> spI (put_node nd) top.
    Proof. intros Hnd s a s' HI H. unfold put_node in H. apply Renege2.modify_inv in H. subst s'. split; [apply Inv_put_node; assumption|exact Logic.I]. Qed.
    Lemma Inv_put_ind s x : I s -> IndOK loc tr ex gc cr x -> I (s <| inds := put_ind_l x (inds s) |>).
    Proof.
      intros (A & B & C & D0 & E & F & G & H & K & L) Hx. unfold Inv. cbn [now arr nodes inds dr set].
      repeat (split; [assumption|]). split; [apply Renege2.NoDup_put_ind; exact E|]. split; [|auto].
      apply Renege2.Forall_put_ind; [exact E| |exact Hx]. intros y Hy _. rewrite Forall_forall in F. apply F. exact Hy.
    Qed.
    Lemma spI_put_ind x : IndOK loc tr ex gc cr x -> spI (put_ind x) top.
    Proof. intros Hx s a s' HI H. unfold put_ind in H. apply Renege2.modify_inv in H. subst s'. split; [apply Inv_put_ind; assumption|exact Logic.I]. Qed.
    Lemma spI_log_rec r : spI (log_rec r) top.
    Proof. apply spI_same. intros s. repeat split; reflexivity. Qed.

    Lemma Inv_dr_tail s d : I s -> DrawsOK d -> I (s <| dr := d |>).
    Proof. intros HI Hd. eapply Inv_same; [exact HI|reflexivity|reflexivity|reflexivity|reflexivity|apply HI|exact Hd]. Qed.
    Lemma spI_draw_svc : spI draw_svc (fun st => 0 <= st).
    Proof.
      intros s a s' HI H. unfold draw_svc in H. destruct (d_svc (dr s)) as [|p r] eqn:Ed; [discriminate|]. injection H as <- <-.
      assert (HD : DrawsOK (dr s)) by apply HI. destruct HD as (D1 & D2 & D3 & D4). unfold nonneg in D1. rewrite Ed in D1. inversion D1 as [|? ? K1 K2]; subst.
      split; [|exact K1]. apply Inv_dr_tail; [exact HI|]. unfold DrawsOK. cbn. auto.
    Qed.
    Lemma spI_draw_arr : spI draw_arr (fun st => 0 <= st).
    Proof.
      intros s a s' HI H. unfold draw_arr in H. destruct (d_arr (dr s)) as [|p r] eqn:Ed; [discriminate|]. injection H as <- <-.
      assert (HD : DrawsOK (dr s)) by apply HI. destruct HD as (D1 & D2 & D3 & D4). unfold nonneg in D2. rewrite Ed in D2. inversion D2 as [|? ? K1 K2]; subst.
      split; [|exact K1]. apply Inv_dr_tail; [exact HI|]. unfold DrawsOK. cbn. auto.
    Qed.
    Lemma spI_draw_ren : spI draw_ren (fun st => 0 <= st).
    Proof.
      intros s a s' HI H. unfold draw_ren in H. destruct (d_ren (dr s)) as [|p r] eqn:Ed; [discriminate|]. injection H as <- <-.
      assert (HD : DrawsOK (dr s)) by apply HI. destruct HD as (D1 & D2 & D3 & D4). unfold nonneg in D3. rewrite Ed in D3. inversion D3 as [|? ? K1 K2]; subst.
      split; [|exact K1]. apply Inv_dr_tail; [exact HI|]. unfold DrawsOK. cbn. auto.
    Qed.
    Lemma spI_draw_cct : spI draw_cct (fun st => 0 <= st).
    Proof.
      intros s a s' HI H. unfold draw_cct in H. destruct (d_cct (dr s)) as [|p r] eqn:Ed; [discriminate|]. injection H as <- <-.
      assert (HD : DrawsOK (dr s)) by apply HI. destruct HD as (D1 & D2 & D3 & D4). unfold nonneg in D4. rewrite Ed in D4. inversion D4 as [|? ? K1 K2]; subst.
      split; [|exact K1]. apply Inv_dr_tail; [exact HI|]. unfold DrawsOK. cbn. auto.
    Qed.
    Lemma spI_draw_batch : spI draw_batch top.
    Proof.
      intros s a s' HI H. unfold draw_batch in H. destruct (d_batch (dr s)); inversion H. subst. split; [|exact Logic.I].
      apply Inv_dr_tail; [exact HI|]. apply HI.
    Qed.
    Lemma spI_draw_unif : spI draw_unif top.
    Proof.
      intros s a s' HI H. unfold draw_unif in H. destruct (d_unif (dr s)); inversion H. subst. split; [|exact Logic.I].
      apply Inv_dr_tail; [exact HI|]. apply HI.
    Qed.
    Lemma spI_ncfg_of j : spI (ncfg_of cf j) (fun nc => ncf j = Some nc).
    Proof. apply Renege2.sp_lift. Qed.

    Lemma spI_upd_ind i f : (forall x, i_id x = i -> IndOK loc tr ex gc cr x -> IndOK loc tr ex gc cr (f x)) -> spI (upd_ind i f) top.
    Proof. intros Hf. unfold upd_ind. eapply Renege2.sp_bind; [apply spI_get_ind|]. intros x [Hx Hi]. apply spI_put_ind. apply Hf; assumption. Qed.
    Lemma spI_upd_node j f : (forall nd, n_id nd = j -> NodeOK loc tr ex gc cr nd -> NodeOK loc tr ex gc cr (f nd)) -> spI (upd_node j f) top.
    Proof. intros Hf. unfold upd_node. eapply Renege2.sp_bind; [apply spI_get_node|]. intros nd [Hn Hj]. apply spI_put_node. apply Hf; assumption. Qed.

    (* ---------- the walk: one lemma per engine function ---------- *)
    Ltac nn_tac2 :=
      first [ nn_tac
            | match goal with H : NN ?o, E : ?o = Some ?v |- NN (Some ?v) => apply NN_Some; apply (H v E) end ].
    Ltac sp_prim m :=
      lazymatch m with
      | tnow => apply spI_tnow
      | get_node _ => apply spI_get_node
      | get_ind _ => apply spI_get_ind
      | ncfg_of _ _ => apply spI_ncfg_of
      | lift _ _ => apply Renege2.sp_lift
      | gets _ => apply Renege2.sp_gets
      | draw_arr => apply spI_draw_arr
      | draw_batch => apply spI_draw_batch
      | draw_svc => apply spI_draw_svc
      | draw_unif => apply spI_draw_unif
      | draw_cct => apply spI_draw_cct
      | draw_ren => apply spI_draw_ren
      | log_rec _ => apply spI_log_rec
      | put_node _ => apply spI_put_node; nodeok
      | put_ind _ => apply spI_put_ind; indok
      | upd_ind _ _ => apply spI_upd_ind; intros; indok
      | upd_node _ _ => apply spI_upd_node; intros; nodeok
      | modify _ => apply spI_same; intros ?; repeat split; reflexivity
      | forM_ _ _ => apply Renege2.sp_forM; intros ?
      | mapM _ _ => apply Renege2.sp_mapM; intros ?
      | _ => solve [eauto 4 with spdr nocore]
      end.
    Ltac sp_step :=
      lazymatch goal with
      | |- Renege2.sp _ _ (ret _) _ => apply Renege2.sp_ret; exact Logic.I
      | |- Renege2.sp _ _ (fail _) _ => apply Renege2.sp_fail
      | |- Renege2.sp _ _ oof _ => apply Renege2.sp_oof
      | |- Renege2.sp _ _ (bind (match _ with _ => _ end) _) _ => eapply Renege2.sp_bind with (phi := top); [|intros ? _]
      | |- Renege2.sp _ _ (bind (if _ then _ else _) _) _ => eapply Renege2.sp_bind with (phi := top); [|intros ? _]
      | |- Renege2.sp _ _ (bind ?m _) _ => eapply Renege2.sp_bind; [sp_prim m|sp_intro]
      | |- Renege2.sp _ _ (if ?b then _ else _) _ => destruct b eqn:?
      | |- Renege2.sp _ _ (match ?x with _ => _ end) _ => first [progress cbv iota beta | destruct x eqn:?]
      | |- Renege2.sp _ _ ?m _ => first [sp_prim m | (eapply Renege2.sp_top; sp_prim m)]
      end.
    Ltac spw := repeat sp_step.
    #[local] Hint Extern 1 (Renege2.dle _ _) => cbn; first [exact Logic.I | lia] : spdr.
    #[local] Hint Extern 1 (IndOK _ _ _ _ _ _) => eassumption : spdr.

    Lemma spI_choice_uniform {A} (l : list A) : spI (choice_uniform l) top.
    Proof. unfold choice_uniform. spw. Qed.
    Lemma spI_choice_weighted den Pw : spI (choice_weighted den Pw) top.
    Proof. unfold choice_weighted. spw. Qed.
    #[local] Hint Resolve spI_choice_uniform spI_choice_weighted : spdr.
    Lemma spI_choose_next_customer j : spI (choose_next_customer cf j) top.
    Proof. unfold choose_next_customer. spw. Qed.
    Lemma spI_upd_server j sid f : (forall sv, SvOK sv -> SvOK (f sv)) -> spI (upd_server j sid f) top.
    Proof.
      intros Hf. unfold upd_server. eapply Renege2.sp_bind; [apply spI_get_node|]. intros nd [Hnd Hj].
      destruct (find_server sid (n_servers nd)) as [sv|] eqn:Ef; [|apply Renege2.sp_ret; exact Logic.I].
      apply spI_put_node. apply (NodeOK_nrel _ _ _ _ _ nd _ Hnd); try reflexivity; try (cbn; lia). intros HF. cbn.
      apply Forall_put_server; [exact HF|]. apply Hf. rewrite Forall_forall in HF. apply HF. eapply find_server_In; eauto.
    Qed.
    Lemma spI_cct_loop : forall row b best bc, NN best -> spI (cct_loop row b best bc) (fun r => NN (fst r)).
    Proof.
      induction row as [|h r IH]; intros b best bc Hb; cbn [cct_loop]; [apply Renege2.sp_ret; exact Hb|]. destruct h; [|apply IH; exact Hb].
      eapply Renege2.sp_bind; [apply spI_draw_cct|]. intros d Hd. cbv beta in Hd. destruct (date_lt (Some d) best); apply IH; [apply NN_Some; exact Hd|exact Hb].
    Qed.
    #[local] Hint Resolve spI_choose_next_customer : spdr.
    (* without class change while waiting the two bookkeeping functions do nothing *)
    Lemma spI_decide_class_change_nodyn j i : cf_dyn cf = false -> spI (decide_class_change cf j i) top.
    Proof. intros Hd. unfold decide_class_change. rewrite Hd. apply Renege2.sp_ret. exact Logic.I. Qed.
    Lemma spI_reset_class_change_nodyn j i : cf_dyn cf = false -> spI (reset_class_change cf j i) top.
    Proof. intros Hd. unfold reset_class_change. rewrite Hd. apply Renege2.sp_ret. exact Logic.I. Qed.
    Lemma spI_stime_num x : IndOK loc tr ex gc cr x -> spI (stime_num x) (fun st => 0 <= st).
    Proof.
      intros (_ & (H1 & _) & _). unfold stime_num. destruct (i_smark x =? 0); [|apply Renege2.sp_fail].
      apply Renege2.sp_ret. apply NN_numo. exact H1.
    Qed.
    Lemma spI_gstap i : spI (give_service_time_after_preemption i) top.
    Proof.
      unfold give_service_time_after_preemption. eapply Renege2.sp_bind; [apply spI_get_ind|]. intros x [Hx Hi].
      pose proof Hx as (_ & (N1 & N2 & N3 & N4) & _).
      destruct (i_smark x =? 3).
      { eapply Renege2.sp_bind; [apply spI_draw_svc|]. intros st Hst. cbv beta in Hst. apply spI_put_ind. indok. }
      destruct (i_smark x =? 2).
      { destruct (i_ost x) as [o|] eqn:Eo; [|apply Renege2.sp_fail]. assert (0 <= o) by (apply N2; reflexivity). apply spI_put_ind. indok. }
      destruct (i_smark x =? 1) eqn:E1.
      { apply Z.eqb_eq in E1. destruct (i_tleft x) as [o|] eqn:Eo; [|apply Renege2.sp_fail]. assert (0 <= o) by (apply (N3 E1); reflexivity). apply spI_put_ind. indok. }
      apply Renege2.sp_ret. exact Logic.I.
    Qed.
    #[local] Hint Resolve spI_gstap spI_stime_num : spdr.
    Lemma spI_giast i : spI (give_individual_a_service_time i) top.
    Proof. unfold give_individual_a_service_time. spw. Qed.
    (* a waiting customer may be given a server if there is no class change while waiting, or if it is the excused customer *)
    Definition exc (i : Z) : Prop := cf_dyn cf = false \/ exists j0, ex = Some (i, j0).
    Lemma spI_attach_server j sid i : exc i -> spI (attach_server j sid i) top.
    Proof.
      intros He. unfold attach_server. eapply Renege2.sp_bind with (phi := top); [apply spI_upd_server; intros sv H; exact H|]. intros _ _.
      apply spI_upd_ind. intros x Hi Hx. destruct He as [Hd|[j0 He]]; indok.
    Qed.
    Lemma spI_set_next_end j sid d : dle (Some t) d -> spI (set_next_end j sid d) top.
    Proof. intros Hd. unfold set_next_end. apply spI_upd_server. intros sv _. exact Hd. Qed.
    Lemma spI_kill_server j sid : spI (kill_server j sid) top.
    Proof. unfold kill_server. spw. Qed.
    #[local] Hint Resolve spI_giast spI_set_next_end spI_kill_server : spdr.
    Lemma spI_detatch_server j sid i : out tr i = true -> spI (detatch_server j sid i) top.
    Proof. intros Ho. unfold detatch_server. spw. Qed.
    Lemma spI_bump_rec i : spI (bump_rec i) top.
    Proof. unfold bump_rec. spw. Qed.
    #[local] Hint Resolve spI_bump_rec : spdr.
    Lemma spI_write_br_record j i ty : spI (write_br_record j i ty) top.
    Proof. unfold write_br_record. spw. Qed.
    Lemma spI_write_individual_record j i : spI (write_individual_record cf j i) top.
    Proof. unfold write_individual_record. spw. Qed.
    Lemma spI_write_reneging_record j i : spI (write_reneging_record j i) top.
    Proof. unfold write_reneging_record. spw. Qed.
    Lemma spI_write_interruption_record j i d : spI (write_interruption_record cf j i d) top.
    Proof. unfold write_interruption_record. spw. Qed.
    Lemma spI_reset_individual_attributes i : spI (reset_individual_attributes i) top.
    Proof. unfold reset_individual_attributes. spw. Qed.
    Lemma spI_valid_dest d : spI (valid_dest d) top.
    Proof. unfold valid_dest. spw. Qed.
    Lemma spI_jsq_loop lb : forall ds best acc, spI (jsq_loop lb ds best acc) top.
    Proof.
      induction ds as [|d r IH]; intros best acc; cbn [jsq_loop]; [apply Renege2.sp_ret; exact Logic.I|].
      eapply Renege2.sp_bind; [apply spI_get_node|]. intros nd _. cbv zeta. destruct (date_eqb _ _); [apply IH|]. destruct (date_lt _ _); apply IH.
    Qed.
    #[local] Hint Resolve spI_write_br_record spI_write_individual_record spI_write_reneging_record spI_write_interruption_record
      spI_reset_individual_attributes spI_valid_dest spI_jsq_loop : spdr.
    Lemma spI_jsq_next lb ds o : spI (jsq_next lb ds o) top.
    Proof. unfold jsq_next. spw. Qed.
    Lemma spI_get_cyc c j : spI (get_cyc c j) top.
    Proof. unfold get_cyc. spw. Qed.
    Lemma spI_bump_cyc c j : spI (bump_cyc c j) top.
    Proof. unfold bump_cyc. apply spI_same. intros s. destruct (nthZ (cyc s) c) as [row|]; [|repeat split; reflexivity]. destruct (nthZ row (j - 1)); repeat split; reflexivity. Qed.
    #[local] Hint Resolve spI_jsq_next spI_get_cyc spI_bump_cyc : spdr.
    Lemma spI_node_router_next r c j : spI (node_router_next r c j) top.
    Proof. unfold node_router_next. spw. Qed.
    #[local] Hint Resolve spI_node_router_next : spdr.
    Lemma spI_next_node_for mode j i : spI (next_node_for cf mode j i) top.
    Proof. unfold next_node_for. spw. Qed.
    #[local] Hint Resolve spI_next_node_for : spdr.

    Lemma nopre_at j nc : Renege2.nopre cf = true -> ncf j = Some nc -> Renege2.nopre_nc nc = true.
    Proof. intros Hp H. apply Renege2.nthZ_In in H. unfold Renege2.nopre in Hp. rewrite forallb_forall in Hp. apply Hp. exact H. Qed.
    Lemma wf_at j nc : ncf j = Some nc -> wf_nc nc = true.
    Proof. intros H. apply Renege2.nthZ_In in H. unfold wf_times in Hwf. rewrite forallb_forall in Hwf. apply Hwf. exact H. Qed.
    (* the regions *)
    Lemma reg_cases : Renege2.nopre cf = true \/
      (Renege2.nopre cf = false /\ cf_dyn cf = false /\ noresume_ps cf = true /\ (prio_reroute cf = true \/ noren cf = true)).
    Proof. destruct (Renege2.nopre cf); [left; reflexivity|right; auto]. Qed.
    Lemma noresume_at j nc : ncf j = Some nc -> noresume_ps_nc nc = true.
    Proof. intros H. apply Renege2.nthZ_In in H. unfold noresume_ps in XHnr. rewrite forallb_forall in XHnr. apply XHnr. exact H. Qed.
    Lemma nodyn_of_pre : Renege2.nopre cf = false -> cf_dyn cf = false.
    Proof. intros _. exact XHdyn. Qed.
    (* no priority pre-emption in the first region: decide_preempt finds no victim *)
    Lemma spI_preempt_victim_nopre j i : Renege2.nopre cf = true -> spI (preempt_victim cf j i) (fun v => v = None).
    Proof.
      intros Hp. unfold preempt_victim. eapply Renege2.sp_bind; [apply spI_ncfg_of|]. intros nc Hc. apply (nopre_at _ _ Hp) in Hc. unfold Renege2.nopre_nc in Hc.
      apply andb_true_iff in Hc as [Hc _]. rewrite Hc. apply Renege2.sp_ret. reflexivity.
    Qed.
    (* in general: a victim is found only at a node with priority pre-emption *)
    Lemma spI_preempt_victim j i : spI (preempt_victim cf j i) (fun v => v <> None -> exists nc, ncf j = Some nc /\ nc_preempt nc <> 0).
    Proof.
      unfold preempt_victim. eapply Renege2.sp_bind; [apply spI_ncfg_of|]. intros nc Hc. destruct (nc_preempt nc =? 0) eqn:E0.
      - apply Renege2.sp_ret. intros Q. exfalso. apply Q. reflexivity.
      - apply Z.eqb_neq in E0. eapply Renege2.sp_weaken with (phi := top); [|intros v _ _; exists nc; auto]. spw.
    Qed.
    Lemma spI_decide_between l : spI (decide_between l) top.
    Proof. unfold decide_between. spw. Qed.
    Lemma spI_change_customer_class j i : spI (change_customer_class cf j i) top.
    Proof. unfold change_customer_class. spw. Qed.
    Lemma nocap_at j nc : ncf j = Some nc -> nc_cap nc = None.
    Proof.
      intros H. apply Renege2.nthZ_In in H. unfold nocap in XHcap. rewrite forallb_forall in XHcap. specialize (XHcap _ H).
      unfold nocap_nc in XHcap. destruct (nc_cap nc); [discriminate|reflexivity].
    Qed.
    (* without queue capacities there is always room *)
    Lemma spI_has_space_true d : spI (has_space cf d) (fun b => b = true).
    Proof.
      unfold has_space. destruct (d =? -1); [apply Renege2.sp_ret; reflexivity|].
      eapply Renege2.sp_bind; [apply spI_get_node|]. intros dn _. eapply Renege2.sp_bind; [apply spI_ncfg_of|]. intros dc Hc.
      apply Renege2.sp_ret. rewrite (nocap_at _ _ Hc). reflexivity.
    Qed.
    Lemma spI_has_space d : spI (has_space cf d) top.
    Proof. unfold has_space. spw. Qed.
    #[local] Hint Resolve spI_decide_between spI_change_customer_class spI_has_space : spdr.
    Lemma spI_tsod0 fl j pre : pre = 0 -> spI (take_servers_off_duty cf fl j pre) top.
    Proof.
      intros ->. unfold take_servers_off_duty. change (0 =? 0) with true. cbv iota.
      eapply Renege2.sp_bind; [apply spI_get_node|]. intros nd [Hnd Hj].
      eapply Renege2.sp_bind with (phi := top); [destruct (n_next_date nd); [apply Renege2.sp_ret; exact Logic.I|apply Renege2.sp_fail]|]. intros se _.
      eapply Renege2.sp_bind with (phi := top).
      { apply spI_put_node. apply (NodeOK_nrel _ _ _ _ _ nd _ Hnd); try reflexivity; try (cbn; lia). intros HF. cbn.
        apply Forall_map_server; [|exact HF]. intros sv Hsv. exact Hsv. }
      intros _ _. apply Renege2.sp_forM. intros sid. apply spI_kill_server.
    Qed.
    Lemma spI_add_new_servers : forall k j, spI (add_new_servers k j) top.
    Proof.
      induction k as [|k IH]; intros j; cbn [add_new_servers]; [apply Renege2.sp_ret; exact Logic.I|].
      eapply Renege2.sp_bind; [apply spI_tnow|]. intros t0 _.
      eapply Renege2.sp_bind with (phi := top); [|intros _ _; apply IH].
      apply spI_upd_node. intros nd Hj Hnd. apply (NodeOK_nrel _ _ _ _ _ nd _ Hnd); try reflexivity; try (cbn; lia). intros HF. cbn.
      apply Forall_app. split; [exact HF|]. constructor; [|constructor]. exact Logic.I.
    Qed.
    Lemma spI_sys_population : spI sys_population top.
    Proof. unfold sys_population. spw. Qed.
    Lemma spI_route_of i c : spI (route_of cf i c) top.
    Proof. unfold route_of. spw. Qed.
    Lemma spI_gets_arr : spI (gets arr) (fun a => ArrOK a).
    Proof. intros s a s' HI H. apply Renege2.gets_inv in H as [-> ->]. split; [exact HI|apply HI]. Qed.

    (* ---------- the arrival node: the executed stream's date moves forward by a draw >= 0 and the minimum is recomputed ---------- *)
    Lemma ArrOK_recompute dates a d j c : Forall (Forall (dle (Some t))) dates -> find_min_dates 1 dates (None, 0, 0) = (d, j, c) ->
      ArrOK (a <| a_dates := dates |> <| a_next_node := j |> <| a_next_cls := c |> <| a_next_date := d |>).
    Proof.
      intros HD E.
      pose proof (find_min_dates_spec (fun d j c => exists row, nthZ dates (j - 1) = Some row /\ nthZ row c = Some d) dates 1 (None, 0, 0)) as HS.
      cbv zeta in HS. rewrite E in HS. cbn [fst snd] in HS. destruct HS as (_ & B & C).
      - intros n row Hn m d0 Hm. exists row. split.
        + replace (1 + Z.of_nat n - 1) with (Z.of_nat n) by lia. rewrite Renege2.nthZ_of_nat. exact Hn.
        + rewrite Renege2.nthZ_of_nat. exact Hm.
      - left. reflexivity.
      - unfold ArrOK, Loc. cbn. split; [exact HD|split; [exact B|]]. unfold LB in C. cbn [fst snd] in C. exact C.
    Qed.
    Lemma spI_set_dates j c row new : Forall (dle (Some t)) row -> dle (Some t) new ->
      spI (modify (fun s => s <| arr := arr s <| a_dates := updZ (a_dates (arr s)) (j - 1) (updZ row c new) |> |>) ;;; find_next_event_date) top.
    Proof.
      intros Hrow Hnew s a s' HI H. unfold bind, modify, find_next_event_date in H. injection H as _ <-. split; [|exact Logic.I].
      destruct HI as (A & B & C & D0 & E & F & G & H & K & L).
      set (dates := updZ (a_dates (arr s)) (j - 1) (updZ row c new)).
      assert (HD : Forall (Forall (dle (Some t))) dates).
      { apply Forall_forall. intros r Hr. apply Renege2.In_updZ in Hr as [->|Hr].
        - apply Forall_forall. intros x Hx. apply Renege2.In_updZ in Hx as [->|Hx]; [exact Hnew|]. rewrite Forall_forall in Hrow. apply Hrow; exact Hx.
        - destruct K as (K & _). rewrite Forall_forall in K. apply K; exact Hr. }
      cbn [arr a_dates set]. fold dates.
      destruct (find_min_dates 1 dates (None, 0, 0)) as [[d jj] cc] eqn:Em.
      unfold Inv. cbn [now arr nodes inds dr set a_created]. repeat (split; [assumption|]). split; [|exact L].
      exact (ArrOK_recompute dates (arr s) d jj cc HD Em).
    Qed.
  End Small.

  (* the walk tactics again, now with every lemma of the section above *)
  #[local] Hint Extern 1 (Renege2.dle _ _) => cbn; first [exact Logic.I | lia] : spdr.
  #[local] Hint Extern 1 (IndOK _ _ _ _ _ _) => eassumption : spdr.
  #[local] Hint Resolve spI_choice_uniform spI_choice_weighted spI_choose_next_customer
    spI_gstap spI_stime_num spI_giast spI_set_next_end spI_kill_server
    spI_bump_rec spI_write_br_record spI_write_individual_record spI_write_reneging_record spI_write_interruption_record
    spI_reset_individual_attributes spI_valid_dest spI_jsq_loop spI_jsq_next spI_get_cyc spI_bump_cyc spI_node_router_next
    spI_next_node_for spI_decide_between spI_change_customer_class spI_has_space
    spI_sys_population spI_route_of : spdr.
  Ltac sp_prim m :=
    lazymatch m with
    | tnow => apply spI_tnow
    | get_node _ => apply spI_get_node
    | get_ind _ => apply spI_get_ind
    | ncfg_of _ _ => apply spI_ncfg_of
    | lift _ _ => apply Renege2.sp_lift
    | gets _ => apply Renege2.sp_gets
    | draw_arr => apply spI_draw_arr
    | draw_batch => apply spI_draw_batch
    | draw_svc => apply spI_draw_svc
    | draw_unif => apply spI_draw_unif
    | draw_cct => apply spI_draw_cct
    | draw_ren => apply spI_draw_ren
    | log_rec _ => apply spI_log_rec
    | put_node _ => apply spI_put_node; nodeok
    | put_ind _ => apply spI_put_ind; indok
    | upd_ind _ _ => apply spI_upd_ind; intros; indok
    | upd_node _ _ => apply spI_upd_node; intros; nodeok
    | modify _ => apply spI_same; intros ?; repeat split; reflexivity
    | forM_ _ _ => apply Renege2.sp_forM; intros ?
    | mapM _ _ => apply Renege2.sp_mapM; intros ?
    | attach_server _ _ _ => apply spI_attach_server; first [left; assumption | right; eexists; reflexivity]
    | _ => solve [eauto 4 with spdr nocore]
    end.
  Ltac sp_step :=
    lazymatch goal with
    | |- Renege2.sp _ _ (ret _) _ => apply Renege2.sp_ret; exact Logic.I
    | |- Renege2.sp _ _ (fail _) _ => apply Renege2.sp_fail
    | |- Renege2.sp _ _ oof _ => apply Renege2.sp_oof
    | |- Renege2.sp _ _ (bind (match _ with _ => _ end) _) _ => eapply Renege2.sp_bind with (phi := top); [|intros ? _]
    | |- Renege2.sp _ _ (bind (if _ then _ else _) _) _ => eapply Renege2.sp_bind with (phi := top); [|intros ? _]
    | |- Renege2.sp _ _ (bind ?m _) _ => eapply Renege2.sp_bind; [sp_prim m|sp_intro]
    | |- Renege2.sp _ _ (if ?b then _ else _) _ => destruct b eqn:?
    | |- Renege2.sp _ _ (match ?x with _ => _ end) _ => first [progress cbv iota beta | destruct x eqn:?]
    | |- Renege2.sp _ _ ?m _ => first [sp_prim m | (eapply Renege2.sp_top; sp_prim m)]
    end.
  Ltac spb L := eapply Renege2.sp_bind; [L|].

  (* ---------- assertions that hide the ghost ---------- *)
  Definition InvG (loc : Z -> option Z) (tr : Renege2.transit) (ex : option (Z * Z)) (cr : Z) (s : sim) : Prop := exists gc, Inv loc tr ex gc cr s.
  Lemma InvG_of loc tr ex gc cr s : Inv loc tr ex gc cr s -> InvG loc tr ex cr s. Proof. intros H. exists gc. exact H. Qed.
  Lemma sp_G {A} loc tr ex cr (m : M A) phi : (forall gc, sp (Inv loc tr ex gc cr) (Inv loc tr ex gc cr) m phi) -> sp (InvG loc tr ex cr) (InvG loc tr ex cr) m phi.
  Proof. intros Hm s a s' (gc & HI) H. destruct (Hm gc _ _ _ HI H) as [HJ Hp]. split; [exists gc; exact HJ|exact Hp]. Qed.
  Lemma sp_toG {A} loc tr ex ex' gc gc' cr (m : M A) phi : sp (Inv loc tr ex gc cr) (Inv loc tr ex' gc' cr) m phi -> sp (Inv loc tr ex gc cr) (InvG loc tr ex' cr) m phi.
  Proof. intros Hm. eapply Renege2.sp_post; [exact Hm|]. intros s0 H0. exists gc'. exact H0. Qed.
  Lemma sp_fromG {A} loc tr ex gc cr (J : sim -> Prop) (m : M A) phi : sp (InvG loc tr ex cr) J m phi -> sp (Inv loc tr ex gc cr) J m phi.
  Proof. intros Hm. eapply Renege2.sp_pre; [exact Hm|]. intros s0 H0. exists gc. exact H0. Qed.
  Lemma sp_openG {A} loc tr ex cr (J : sim -> Prop) (m : M A) phi : (forall gc, sp (Inv loc tr ex gc cr) J m phi) -> sp (InvG loc tr ex cr) J m phi.
  Proof. intros Hm s a s' (gc & HI) H. exact (Hm gc _ _ _ HI H). Qed.
  Lemma sp_retG {A} loc tr ex gc cr (a : A) : sp (Inv loc tr ex gc cr) (InvG loc tr ex cr) (ret a) top.
  Proof. eapply sp_toG. apply Renege2.sp_ret. exact Logic.I. Qed.

  (* ---------- excusing a customer and ending the excuse ---------- *)
  Lemma find_unique s c x y : NoDup (map i_id (inds s)) -> find_ind c (inds s) = Some x -> In y (inds s) -> i_id y = c -> y = x.
  Proof. intros HN Hx Hy Hc. pose proof (Renege2.find_ind_NoDup _ _ HN Hy) as Hf. rewrite Hc, Hx in Hf. injection Hf as <-. reflexivity. Qed.

  Lemma Inv_open loc tr gc cr s c j x : Inv loc tr None gc cr s -> find_ind c (inds s) = Some x -> i_node x = Some j -> loc c = Some j ->
    Inv loc tr (Some (c, j)) gc cr s.
  Proof.
    intros (A & B & C & D0 & E & F & G & H & K & L) Hx Hn Hl. unfold Inv. repeat (split; [assumption|]). split; [|split; [|auto]].
    - rewrite Forall_forall in *. intros y Hy. destruct (F y Hy) as (YA & YB & YC & YD & YE). split; [exact YA|]. split; [exact YB|]. split; [|split].
      + intros Ho. destruct (YC Ho) as (Y1 & Y2 & Y3). split; [exact Y1|]. split; [exact Y2|]. intros Hd. congruence.
      + intros j1 He. injection He as Hc ->. pose proof (find_unique _ _ _ _ E Hx Hy (eq_sym Hc)) as ->. rewrite <- Hc. auto.
      + destruct YE as [(j0 & Q)|Q]; [discriminate Q|right; exact Q].
    - intros k nd Hk. destruct (G k nd Hk) as (M1 & M2 & M3 & M4 & (T0 & T1 & T2)). repeat (split; [assumption|]). split; [|exact T2].
      intros Hd. congruence.
  Qed.
  (* a customer that is in no transit may be excused at its own node *)
  Lemma Inv_open_own loc gc cr s i x : Inv loc TNone None gc cr s -> find_ind i (inds s) = Some x -> exists j', Inv loc TNone (Some (i, j')) gc cr s.
  Proof.
    intros HI Hx. pose proof HI as (_ & _ & _ & _ & _ & F & _). rewrite Forall_forall in F.
    destruct (F x (Renege2.find_ind_In _ _ _ Hx)) as (_ & _ & XC & _). destruct (XC eq_refl) as ((j' & Hj & Hl) & _).
    rewrite (Renege2.find_ind_id _ _ _ Hx) in Hl. exists j'. eapply Inv_open; eauto.
  Qed.
  (* the end of an excuse: the customer's start / end of service are in order again *)
  Lemma Inv_close_r loc tr gc cr s c j : Inv loc tr (Some (c, j)) gc cr s -> (forall x, find_ind c (inds s) = Some x -> Good tr x) ->
    Inv loc tr None gc cr s.
  Proof.
    intros (A & B & C & D0 & E & F & G & H & K & L) Hg. unfold Inv. repeat (split; [assumption|]). split; [|split; [|auto]].
    - rewrite Forall_forall in *. intros y Hy. destruct (F y Hy) as (YA & YB & YC & YD & YE). split; [exact YA|]. split; [exact YB|].
      split; [|split; [intros j1 He; discriminate He|]].
      + intros Ho. destruct (YC Ho) as (Y1 & Y2 & Y3). split; [exact Y1|]. split; [exact Y2|]. intros Hd. congruence.
      + right. destruct YE as [(j0 & Q)|Q]; [|exact Q]. injection Q as Hc _. apply Hg. rewrite Hc. apply Renege2.find_ind_NoDup; assumption.
    - intros k nd Hk. destruct (G k nd Hk) as (M1 & M2 & M3 & M4 & (T0 & T1 & T2)). repeat (split; [assumption|]). split; [|exact T2].
      intros Hd. congruence.
  Qed.
  Lemma sp_put_ind_close loc tr gc cr c j x : i_id x = c -> IndOK loc tr (Some (c, j)) gc cr x -> Good tr x ->
    sp (Inv loc tr (Some (c, j)) gc cr) (Inv loc tr None gc cr) (put_ind x) top.
  Proof.
    intros Hi Hx Hg s a s' HI H. unfold put_ind in H. apply Renege2.modify_inv in H. subst s'. split; [|exact Logic.I].
    apply (Inv_close_r loc tr gc cr _ c j); [apply Inv_put_ind; assumption|].
    intros y Hy. cbn [inds set] in Hy. rewrite Renege2.find_put_ind in Hy. rewrite Hi, Z.eqb_refl in Hy. injection Hy as <-. exact Hg.
  Qed.
  Ltac good_tac := unfold Good, EndGood; cbn; intros _ _; eexists; split; [reflexivity|lia].

  (* ---------- the blocks that start a service ---------- *)
  #[local] Hint Resolve spI_reset_class_change_nodyn spI_decide_class_change_nodyn : spdr.
  (* start_fresh sets start and end of service at once *)
  Lemma spI_start_fresh loc tr ex gc cr j c osid cnt : sp (Inv loc tr ex gc cr) (Inv loc tr ex gc cr) (start_fresh cf j c osid cnt) top.
  Proof. pose proof XHdyn as Hd. unfold start_fresh. repeat sp_step. Qed.

  (* without class change while waiting: the service of an interrupted customer begins again; the pre-emptor starts *)
  #[local] Hint Resolve spI_reset_class_change_nodyn spI_decide_class_change_nodyn : spdr.
  Lemma spI_biis loc tr ex gc cr j sid : cf_dyn cf = false ->
    sp (Inv loc tr ex gc cr) (Inv loc tr ex gc cr) (begin_interrupted_individuals_service j sid) top.
  Proof. intros Hd. unfold begin_interrupted_individuals_service. repeat sp_step. Qed.
  (* start_give / start_preemptor set the start of service first and the end later: the customer is excused in between *)
  Lemma sp_start_tail loc tr gc cr j c sid (cnt : bool) :
    sp (Inv loc tr (Some (c, j)) gc cr) (Inv loc tr None gc cr)
       (t0 <- tnow ;;
        upd_ind c (fun x => x <| i_sst := Some t0 |>) ;;;
        give_individual_a_service_time c ;;;
        x <- get_ind c ;; st <- stime_num x ;;
        put_ind (x <| i_send := Some (t0 + st) |>) ;;;
        (if cnt then upd_node j (fun nd => nd <| n_insvc := n_insvc nd + 1 |>) else ret tt) ;;;
        reset_class_change cf j c ;;;
        set_next_end j sid (Some (t0 + st))) top.
  Proof.
    pose proof XHdyn as Hd.
    spb ltac:(apply spI_tnow). intros t0 ->.
    spb ltac:(apply spI_upd_ind; intros; indok). intros _ _.
    spb ltac:(apply spI_giast). intros _ _.
    spb ltac:(apply spI_get_ind). intros x [Hx Hi]. spb ltac:(apply spI_stime_num; exact Hx). intros st Hst. cbv beta in Hst.
    spb ltac:(apply (sp_put_ind_close _ _ _ _ c j); [exact Hi|indok|good_tac]). intros _ _.
    destruct cnt; [|eapply Renege2.sp_bind with (phi := top); [apply Renege2.sp_ret; exact Logic.I|intros _ _]]; repeat sp_step.
  Qed.
  Lemma sp_start_give loc tr gc cr j c sid :
    sp (Inv loc tr (Some (c, j)) gc cr) (Inv loc tr None gc cr) (start_give cf j c sid) top.
  Proof.
    unfold start_give. spb ltac:(apply spI_attach_server; left; exact XHdyn). intros _ _.
    exact (sp_start_tail loc tr gc cr j c sid true).
  Qed.
  Lemma sp_start_preemptor loc gc cr j i sid :
    sp (Inv loc TNone None gc cr) (Inv loc TNone None gc cr) (start_preemptor cf j i sid) top.
  Proof.
    intros s a s' HI H. unfold start_preemptor in H.
    minv H u s1 E. destruct (spI_attach_server loc TNone None gc cr j sid i (or_introl XHdyn) _ _ _ HI E) as [HI1 _].
    assert (Hx : exists x, find_ind i (inds s1) = Some x).
    { unfold attach_server in E. minv E u0 s0 E0. apply Renege2.upd_ind_inv in E as (x & Hx & ->). eexists. cbn [inds set].
      rewrite Renege2.find_put_ind. cbn [i_id set]. rewrite (Renege2.find_ind_id _ _ _ Hx), Z.eqb_refl. reflexivity. }
    destruct Hx as [x Hx]. destruct (Inv_open_own _ _ _ _ _ _ HI1 Hx) as [j' HI2].
    pose proof (sp_start_tail loc TNone gc cr j i sid false) as RR. cbv iota in RR.
    assert (RR' : sp (Inv loc TNone (Some (i, j')) gc cr) (Inv loc TNone None gc cr)
                     (t0 <- tnow ;; upd_ind i (fun x => x <| i_sst := Some t0 |>) ;;; give_individual_a_service_time i ;;;
                      x <- get_ind i ;; st <- stime_num x ;; put_ind (x <| i_send := Some (t0 + st) |>) ;;;
                      reset_class_change cf j i ;;; set_next_end j sid (Some (t0 + st))) top).
    { pose proof XHdyn as Hd.
      spb ltac:(apply spI_tnow). intros t0 ->.
      spb ltac:(apply spI_upd_ind; intros; indok). intros _ _.
      spb ltac:(apply spI_giast). intros _ _.
      spb ltac:(apply spI_get_ind). intros x0 [Hx0 Hi]. spb ltac:(apply spI_stime_num; exact Hx0). intros st Hst. cbv beta in Hst.
      spb ltac:(apply (sp_put_ind_close _ _ _ _ i j'); [exact Hi|indok|good_tac]). intros _ _.
      repeat sp_step. }
    exact (RR' _ _ _ HI2 H).
  Qed.

  (* choose_next_customer picks a customer of that node who has a record *)
  Lemma waiting_of_In q il c : In c (waiting_of q il) -> In c q /\ exists x, find_ind c il = Some x.
  Proof.
    induction q as [|i r IH]; cbn; [intros []|]. destruct (find_ind i il) as [x|] eqn:Ex; [|intros H; destruct (IH H); auto].
    destruct (i_server x); [intros H; destruct (IH H); auto|]. intros [<-|H]; [split; [left; reflexivity|eauto]|destruct (IH H); auto].
  Qed.
  Lemma first_waiting_In qs il c : In c (first_waiting qs il) -> In c (concat qs) /\ exists x, find_ind c il = Some x.
  Proof.
    induction qs as [|q r IH]; cbn [first_waiting concat]; [intros []|]. destruct (waiting_of q il) as [|w0 wr] eqn:Ew.
    - intros H. destruct (IH H) as [H1 H2]. split; [apply in_or_app; right; exact H1|exact H2].
    - intros H. rewrite <- Ew in H. destruct (waiting_of_In _ _ _ H) as [H1 H2]. split; [apply in_or_app; left; exact H1|exact H2].
  Qed.
  Lemma last_In {A} (l : list A) (d : A) : In (last l d) (d :: l).
  Proof. induction l as [|a l IH]; [left; reflexivity|]. destruct l as [|b l']; [right; left; reflexivity|]. change (last (a :: b :: l') d) with (last (b :: l') d). destruct IH as [IH|IH]; [left; exact IH|right; right; exact IH]. Qed.
  Lemma choose_next_customer_inv j s c s' : choose_next_customer cf j s = Ok (Some c, s') ->
    nodes s' = nodes s /\ inds s' = inds s /\
    exists nd x, 1 <= j /\ nthZ (nodes s) (j - 1) = Some nd /\ In c (all_individuals nd) /\ find_ind c (inds s) = Some x.
  Proof.
    unfold choose_next_customer. intros H. minv H nd s1 E. apply Renege2.get_node_inv in E as (-> & Hj & Hn).
    minv H il s1 E. apply Renege2.gets_inv in E as [-> ->].
    destruct (first_waiting (n_queues nd) (inds s)) as [|w0 wr] eqn:Ew; [apply Renege2.ret_inv in H as [H _]; discriminate H|].
    assert (Hall : forall c0, In c0 (w0 :: wr) -> In c0 (all_individuals nd) /\ exists x, find_ind c0 (inds s) = Some x).
    { intros c0 Hc. rewrite <- Ew in Hc. apply first_waiting_In. exact Hc. }
    minv H nc s1 E. apply Renege2.ncfg_of_inv in E as [-> _].
    assert (Hfin : forall c0, In c0 (w0 :: wr) -> exists nd x, 1 <= j /\ nthZ (nodes s) (j - 1) = Some nd /\ In c0 (all_individuals nd) /\ find_ind c0 (inds s) = Some x).
    { intros c0 Hc. destruct (Hall c0 Hc) as [H1 [x H2]]. exists nd, x. auto. }
    destruct (nc_disc nc =? 0); [apply Renege2.ret_inv in H as [H ->]; injection H as <-; split; [reflexivity|split; [reflexivity|apply Hfin; left; reflexivity]]|].
    destruct (nc_disc nc =? 1); [apply Renege2.ret_inv in H as [H ->]; injection H as ->; split; [reflexivity|split; [reflexivity|apply Hfin; apply last_In]]|].
    minv H x0 s1 E. apply Renege2.choice_uniform_inv in E as (Hin & u & rest & _ & ->). apply Renege2.ret_inv in H as [H ->]. injection H as ->.
    split; [reflexivity|split; [reflexivity|apply Hfin; exact Hin]].
  Qed.
  (* ... hence a customer that may be excused at that node *)
  Lemma Inv_open_member loc tr gc cr s j nd c x : Inv loc tr None gc cr s -> 1 <= j -> nthZ (nodes s) (j - 1) = Some nd -> In c (all_individuals nd) ->
    find_ind c (inds s) = Some x -> Inv loc tr (Some (c, j)) gc cr s.
  Proof.
    intros HI Hj Hn Hq Hx. pose proof HI as (_ & _ & _ & D0 & _ & F & G & _). destruct (Renege2.nthZ_nat _ _ _ Hn) as [_ Hn'].
    destruct (G _ _ Hn') as (_ & _ & N3 & _). destruct (N3 _ Hq) as (_ & Ho & Hl). rewrite (Renege2.Idx_get _ _ _ D0 Hj Hn) in Hl.
    rewrite Forall_forall in F. destruct (F x (Renege2.find_ind_In _ _ _ Hx)) as (_ & _ & XC & _). pose proof (Renege2.find_ind_id _ _ _ Hx) as Hid.
    rewrite <- Hid in Ho. destruct (XC Ho) as ((j1 & Hj1 & Hl1) & _). rewrite Hid, Hl in Hl1. injection Hl1 as <-.
    eapply Inv_open; eauto.
  Qed.

  Lemma sp_serve_with loc tr cr j sid : sp (InvG loc tr None cr) (InvG loc tr None cr) (serve_with cf j sid) top.
  Proof.
    intros s a s' (gc & HI) H. destruct a. split; [|exact Logic.I]. unfold serve_with in H.
    minv H nd s1 E. destruct (spI_get_node _ _ _ _ _ j _ _ _ HI E) as [_ [Hnd _]]. apply Renege2.get_node_inv in E as (-> & Hj & Hn).
    destruct Hnd as (_ & _ & _ & _ & (T0 & _)). destruct (0 <? n_nint nd) eqn:En.
    { destruct (spI_biis loc tr None gc cr j sid XHdyn _ _ _ HI H) as [HJ _]. exists gc. exact HJ. }
    minv H cand s1 E. destruct (spI_choose_next_customer _ _ _ _ _ j _ _ _ HI E) as [HI1 _].
    destruct cand as [c|]; [|apply Renege2.ret_inv in H as [_ ->]; exists gc; exact HI1].
    apply choose_next_customer_inv in E as (E1 & E2 & nd' & x & _ & Hn' & Hq & Hx). rewrite <- E1 in Hn'. rewrite <- E2 in Hx.
    pose proof (Inv_open_member _ _ _ _ _ _ _ _ _ HI1 Hj Hn' Hq Hx) as HI2.
    destruct (sp_start_give loc tr gc cr j c sid _ _ _ HI2 H) as [HI3 _]. exists gc. exact HI3.
  Qed.
  Lemma sp_bsipr loc tr cr j freed : sp (InvG loc tr None cr) (InvG loc tr None cr) (begin_service_if_possible_release cf j freed) top.
  Proof.
    unfold begin_service_if_possible_release. destruct freed as [sid|]; [|apply sp_G; intros gc; apply Renege2.sp_ret; exact Logic.I].
    apply sp_openG. intros gc. spb ltac:(apply spI_get_node). intros nd _.
    destruct (find_server sid (n_servers nd)); [apply sp_fromG; apply sp_serve_with|apply sp_retG].
  Qed.
  Lemma sp_bsipcs loc tr cr j : sp (InvG loc tr None cr) (InvG loc tr None cr) (begin_service_if_possible_change_shift cf j) top.
  Proof.
    unfold begin_service_if_possible_change_shift. eapply Renege2.sp_bind with (phi := top); [apply sp_G; intros gc; eapply Renege2.sp_top; apply spI_get_node|]. intros nd _.
    apply Renege2.sp_forM. intros sid. apply sp_serve_with.
  Qed.

  #[local] Hint Resolve spI_reset_class_change_nodyn spI_decide_class_change_nodyn : spdr.
  (* a block that begins by updating customer i may excuse it at its own node *)
  Lemma sp_open_upd loc gc cr i f (rest : M unit) (J : sim -> Prop) :
    (forall j', sp (Inv loc TNone (Some (i, j')) gc cr) J (upd_ind i f ;;; rest) top) ->
    sp (Inv loc TNone None gc cr) J (upd_ind i f ;;; rest) top.
  Proof.
    intros Hm s a s' HI H. assert (Hx : exists x, find_ind i (inds s) = Some x).
    { pose proof H as H'. unfold bind in H' at 1. destruct (upd_ind i f s) as [[u s1]| |] eqn:E; try discriminate.
      apply Renege2.upd_ind_inv in E as (x & Hx & _). eauto. }
    destruct Hx as [x Hx]. destruct (Inv_open_own _ _ _ _ _ _ HI Hx) as [j' HI2]. exact (Hm j' _ _ _ HI2 H).
  Qed.
  Lemma spI_slot_loop loc gc cr : forall k j, sp (Inv loc TNone None gc cr) (Inv loc TNone None gc cr) (slot_loop cf k j) top.
  Proof.
    pose proof XHdyn as Hd. induction k as [|k IH]; intros j; cbn [slot_loop]; [apply Renege2.sp_ret; exact Logic.I|].
    spb ltac:(apply spI_tnow). intros t0 ->. spb ltac:(apply spI_get_node). intros nd [Hnd Hj].
    eapply Renege2.sp_bind with (phi := top) (J := Inv loc TNone None gc cr); [repeat sp_step|]. intros cand _.
    eapply Renege2.sp_bind with (phi := top) (J := Inv loc TNone None gc cr); [|intros _ _; apply IH].
    destruct cand as [i|]; [|apply Renege2.sp_ret; exact Logic.I].
    apply sp_open_upd. intros j'.
    spb ltac:(apply spI_upd_ind; intros; indok). intros _ _.
    spb ltac:(apply spI_giast). intros _ _.
    spb ltac:(apply spI_get_ind). intros x [Hx Hi]. spb ltac:(apply spI_stime_num; exact Hx). intros st Hst. cbv beta in Hst.
    spb ltac:(apply (sp_put_ind_close _ _ _ _ i j'); [exact Hi|indok|good_tac]). intros _ _.
    repeat sp_step.
  Qed.
  (* ---------- the functions that move customers between nodes ---------- *)
  Definition InvX (tr : Renege2.transit) (s : sim) : Prop := exists loc cr, InvG loc tr None cr s.
  Lemma InvX_of loc tr gc cr s : Inv loc tr None gc cr s -> InvX tr s. Proof. intros H. exists loc, cr, gc. exact H. Qed.
  Lemma InvX_ofG loc tr cr s : InvG loc tr None cr s -> InvX tr s. Proof. intros H. exists loc, cr. exact H. Qed.
  Lemma sp_X {A} tr (m : M A) phi : (forall loc cr, sp (InvG loc tr None cr) (InvG loc tr None cr) m phi) -> sp (InvX tr) (InvX tr) m phi.
  Proof. intros Hm s a s' (loc & cr & HI) H. destruct (Hm loc cr _ _ _ HI H) as [HJ Hp]. split; [exists loc, cr; exact HJ|exact Hp]. Qed.
  Lemma sp_GX {A} (I0 : sim -> Prop) loc tr cr (m : M A) phi : sp I0 (InvG loc tr None cr) m phi -> sp I0 (InvX tr) m phi.
  Proof. intros Hm. eapply Renege2.sp_post; [exact Hm|]. intros s0 H0. exists loc, cr. exact H0. Qed.
  Lemma sp_XG {A} loc tr cr (J : sim -> Prop) (m : M A) phi : sp (InvX tr) J m phi -> sp (InvG loc tr None cr) J m phi.
  Proof. intros Hm. eapply Renege2.sp_pre; [exact Hm|]. intros s0 H0. exists loc, cr. exact H0. Qed.
  Lemma sp_fromX {A} loc tr gc cr (J : sim -> Prop) (m : M A) phi : sp (InvX tr) J m phi -> sp (Inv loc tr None gc cr) J m phi.
  Proof. intros Hm. apply sp_fromG. apply sp_XG. exact Hm. Qed.
  Lemma sp_toX {A} loc tr gc cr loc' tr' gc' (m : M A) phi : sp (Inv loc tr None gc cr) (Inv loc' tr' None gc' cr) m phi -> sp (Inv loc tr None gc cr) (InvX tr') m phi.
  Proof. intros Hm. eapply Renege2.sp_post; [exact Hm|]. intros s0 H0. exists loc', cr, gc'. exact H0. Qed.
  Lemma sp_retX {A} loc tr gc cr (a : A) : sp (Inv loc tr None gc cr) (InvX tr) (ret a) top.
  Proof. eapply sp_toX. apply Renege2.sp_ret. exact Logic.I. Qed.

  (* ---------- Node.accept after the stamps: the class-change clock, then begin_service_if_possible_accept ---------- *)
  Lemma sp_accept_rest loc cr pre j k nc :
    (cf_dyn cf = false -> forall a b c, (forall nc0, ncf a = Some nc0 -> nc_preempt nc0 <> 0) -> sp (InvX TNone) (InvX TNone) (pre a b c) top) ->
    sp (InvG loc TNone None cr) (InvX TNone) (Renege2.accept_rest cf pre j k nc) top.
  Proof.
    intros Hpr. unfold Renege2.accept_rest. eapply Renege2.sp_bind with (phi := top); [apply sp_G; intros gc0; apply spI_decide_class_change_nodyn; exact XHdyn|]. intros _ _.
    intros s a s' (gc & HI) H. destruct a. split; [|exact Logic.I].
    minv H nd1 s1 E. apply Renege2.get_node_inv in E as (-> & Hj & Hn). cbv zeta in H.
    destruct (nd_inf nd1) eqn:Einf.
    - minv H cand s1 E. apply Renege2.ret_inv in E as [-> ->]. eapply InvX_of. exact (proj1 (spI_start_fresh loc TNone None gc cr j k None true _ _ _ HI H)).
    - minv H cand s1 E. destruct (spI_choose_next_customer _ _ _ _ _ j _ _ _ HI E) as [HI1 _].
      destruct cand as [c|]; [|apply Renege2.ret_inv in H as [_ ->]; eapply InvX_of; exact HI1].
      apply choose_next_customer_inv in E as (E1 & E2 & nd' & x & _ & Hn' & Hq & Hx). rewrite <- E1 in Hn'. rewrite <- E2 in Hx.
      minv H cx s2 E. apply Renege2.get_ind_inv in E as [-> _].
      destruct (find_free_server_for (nc_spf nc) (i_cls cx) (n_servers nd1)) as [sv|].
      + eapply InvX_of. exact (proj1 (spI_start_fresh loc TNone None gc cr j c (Some (sv_id sv)) true _ _ _ HI1 H)).
      + destruct (0 <? numo (n_c nd1)); [|apply Renege2.ret_inv in H as [_ ->]; eapply InvX_of; exact HI1].
        minv H v s2 E. destruct reg_cases as [Hp|(Hp & Hd & _)].
        * destruct (spI_preempt_victim_nopre _ _ _ _ _ j c Hp _ _ _ HI1 E) as [HI2 ->]. apply Renege2.ret_inv in H as [_ ->]. eapply InvX_of. exact HI2.
        * destruct (spI_preempt_victim _ _ _ _ _ j c _ _ _ HI1 E) as [HI2 Hv]. destruct v as [vi|]; [|apply Renege2.ret_inv in H as [_ ->]; eapply InvX_of; exact HI2].
          destruct (Hv ltac:(discriminate)) as (nc0 & Hc0 & Hne).
          refine (proj1 (Hpr Hd j vi c _ _ _ _ (InvX_of _ _ _ _ _ HI2) H)). intros nc1 Hc1. rewrite Hc0 in Hc1. injection Hc1 as <-. exact Hne.
  Qed.

  (* ---------- changes of the transit state ---------- *)
  Lemma IndOK_TNone_TOut loc ex gc cr i y : IndOK loc TNone ex gc cr y -> IndOK loc (TOut i) ex gc cr y.
  Proof.
    intros (A & B & C & C4 & C5). split; [exact A|]. split; [exact B|]. split; [intros _; apply C; reflexivity|]. split; [exact C4|].
    destruct C5 as [C5|C5]; [left; exact C5|right]. intros [Q|[Q1 Q2]] Hs; [discriminate Q|]. apply C5; [right; split; [reflexivity|exact Q2]|exact Hs].
  Qed.
  (* the customer in transit has had its attributes reset: from TOut to TRec *)
  Lemma IndOK_TOut_TRec loc ex gc cr i y : IndOK loc (TOut i) ex gc cr y -> (i_id y = i -> i_sst y = None) -> IndOK loc (TRec i) ex gc cr y.
  Proof.
    intros (A & B & C & C4 & C5) Hs. split; [exact A|]. split; [exact B|]. split; [exact C|]. split; [exact C4|].
    destruct C5 as [C5|C5]; [left; exact C5|right]. intros [Q|[Q1 Q2]] Hst.
    - injection Q as Q. exfalso. apply Hst. apply Hs. symmetry. exact Q.
    - apply C5; [right; split; [exact Q1|exact Q2]|exact Hst].
  Qed.
  Lemma sp_reset_TRec loc gc cr i :
    sp (Inv loc (TOut i) None gc cr) (Inv loc (TRec i) None gc cr) (reset_individual_attributes i) top.
  Proof.
    intros s a s' HI H. split; [|exact Logic.I].
    assert (Ho : out (TOut i) i = true) by (cbn; apply Z.eqb_refl).
    assert (HI1 : Inv loc (TOut i) None gc cr s') by (exact (proj1 (spI_reset_individual_attributes loc (TOut i) None gc cr i _ _ _ HI H))).
    unfold reset_individual_attributes in H. apply Renege2.upd_ind_inv in H as (x & Hx & ->).
    destruct HI1 as (A & B & C & D0 & E & F & G & H & K & L). unfold Inv. repeat (split; [assumption|]). split; [|split; [exact G|auto]].
    rewrite Forall_forall in *. intros y Hy. apply IndOK_TOut_TRec; [apply F; exact Hy|]. intros Hyi.
    cbn [inds set] in Hy, E. pose proof (Renege2.find_ind_NoDup _ _ E Hy) as Hf. rewrite Renege2.find_put_ind in Hf. cbn [i_id set] in Hf.
    rewrite (Renege2.find_ind_id _ _ _ Hx), Hyi, Z.eqb_refl in Hf. injection Hf as <-. reflexivity.
  Qed.
  Lemma out_TOut_false k id : out (TOut k) id = false -> (id =? k) = false.
  Proof. cbn. rewrite Z.eqb_sym. auto. Qed.

  (* T1: a customer is taken out of its queue (if it is its node's next class-change customer it must be the excused one) *)
  Lemma Inv_remove loc ex gc cr s j nd nd1 prio q q' i : Inv loc TNone ex gc cr s -> 1 <= j -> nthZ (nodes s) (j - 1) = Some nd ->
    nthZ (n_queues nd) prio = Some q -> remove_first i q = Some q' ->
    n_id nd1 = n_id nd -> n_queues nd1 = updZ (n_queues nd) prio q' -> n_c nd1 = n_c nd -> n_servers nd1 = n_servers nd ->
    n_spos nd1 = n_spos nd -> n_next_shift nd1 = n_next_shift nd -> n_nccd nd1 = n_nccd nd -> n_ncci nd1 = n_ncci nd -> n_nint nd1 = n_nint nd -> n_lenbq nd1 = n_lenbq nd ->
    (cf_dyn cf = true -> nd_inf nd = false -> n_ncci nd = Some i -> ex = Some (i, j)) ->
    Inv loc (TOut i) ex gc cr (s <| nodes := updZ (nodes s) (n_id nd1 - 1) nd1 |>).
  Proof.
    intros (A & B & C & D0 & E & F & G & H & K & L) Hj Hn Hq Hq' E1 E2 E3 E4 E5 E6 E7 E8 E9 E10 Hnc.
    pose proof (Renege2.Idx_get _ _ _ D0 Hj Hn) as Hidn. destruct (Renege2.nthZ_nat _ _ _ Hn) as [Hj0 Hn'].
    pose proof (G _ _ Hn') as (N1 & N2 & N3 & N4 & (T0 & T1 & T2)).
    assert (P : Permutation (all_individuals nd) (i :: all_individuals nd1)) by (unfold all_individuals; rewrite E2; apply (Renege2.concat_remove _ _ _ _ _ Hq Hq')).
    assert (Hi_in : In i (all_individuals nd)) by (eapply Permutation_in; [symmetry; exact P|left; reflexivity]).
    assert (ND : NoDup (i :: all_individuals nd1)) by (eapply Permutation_NoDup; eauto). inversion ND as [|? ? ND1 ND2].
    unfold Inv. cbn [now arr nodes inds dr set].
    split; [exact A|]. split; [exact B|]. split; [rewrite Renege2.length_updZ; exact C|]. split; [unfold Idx; cbn [nodes set]; apply Renege2.Idx_updZ; exact D0|].
    split; [exact E|]. split; [eapply Forall_impl; [|exact F]; intros y Hy; apply IndOK_TNone_TOut; exact Hy|]. split; [|auto].
    intros kk y Hk. rewrite E1, Hidn in Hk. unfold updZ in Hk. destruct (j - 1 <? 0) eqn:Ej; [apply Z.ltb_lt in Ej; lia|].
    destruct (Renege2.nth_error_upd_cases _ _ _ _ _ Hk) as [[-> ->]|[Hne Hk']].
    - split; [unfold nd_inf in *; rewrite E3, E1; exact N1|]. split; [exact ND2|]. split; [|split].
      + intros id Hi. assert (Hi' : In id (all_individuals nd)) by (eapply Permutation_in; [symmetry; exact P|right; exact Hi]).
        destruct (N3 _ Hi') as (I1 & _ & I3). split; [exact I1|]. split; [|rewrite E1; exact I3].
        cbn. apply Z.eqb_neq. intros <-. exact (ND1 Hi).
      + intros id Ho Hl. rewrite E1 in Hl. assert (Hi' : In id (all_individuals nd)) by (apply N4; [reflexivity|exact Hl]).
        apply (Permutation_in _ P) in Hi'. destruct Hi' as [<-|Hi']; [cbn in Ho; rewrite Z.eqb_refl in Ho; discriminate|exact Hi'].
      + unfold NodeT, nd_inf in *. rewrite E1, E3, E4, E5, E6, E7, E8, E9, E10. split; [exact T0|]. split; [|exact T2].
        intros Hd. destruct (T1 Hd) as [T3 T4]. split; [exact T3|]. intros Hi. destruct (T4 Hi) as [T5 T6]. split; [exact T5|].
        intros i' Hc. destruct (Z.eq_dec i' i) as [->|Hne].
        * right. rewrite Hidn. apply Hnc; assumption.
        * destruct (T6 i' Hc) as [Q|Q]; [|right; exact Q]. left. apply (Permutation_in _ P) in Q. destruct Q as [Q|Q]; [congruence|exact Q].
    - pose proof (G _ _ Hk') as (M1 & M2 & M3 & M4 & M5). pose proof (D0 _ _ Hk') as Hidy. split; [exact M1|]. split; [exact M2|]. split; [|split].
      + intros id Hi. destruct (M3 _ Hi) as (I1 & _ & I3). split; [exact I1|]. split; [|exact I3].
        cbn. apply Z.eqb_neq. intros <-. destruct (N3 _ Hi_in) as (_ & _ & I3'). rewrite I3 in I3'. injection I3' as I3'. apply Hne. lia.
      + intros id _ Hl. apply M4; [reflexivity|exact Hl].
      + exact M5.
  Qed.

  (* the stamped record, field by field *)
  Lemma acc_id x j p t0 rd : i_id (Renege2.accepted_ind x j p t0 rd) = i_id x. Proof. destruct x; reflexivity. Qed.
  Lemma acc_node x j p t0 rd : i_node (Renege2.accepted_ind x j p t0 rd) = Some j. Proof. destruct x; reflexivity. Qed.
  Lemma acc_ren x j p t0 rd : i_ren (Renege2.accepted_ind x j p t0 rd) = rd. Proof. destruct x; reflexivity. Qed.
  Lemma acc_server x j p t0 rd : i_server (Renege2.accepted_ind x j p t0 rd) = i_server x. Proof. destruct x; reflexivity. Qed.
  Lemma acc_stime x j p t0 rd : i_stime (Renege2.accepted_ind x j p t0 rd) = i_stime x. Proof. destruct x; reflexivity. Qed.
  Lemma acc_ost x j p t0 rd : i_ost (Renege2.accepted_ind x j p t0 rd) = i_ost x. Proof. destruct x; reflexivity. Qed.
  Lemma acc_smark x j p t0 rd : i_smark (Renege2.accepted_ind x j p t0 rd) = i_smark x. Proof. destruct x; reflexivity. Qed.
  Lemma acc_tleft x j p t0 rd : i_tleft (Renege2.accepted_ind x j p t0 rd) = i_tleft x. Proof. destruct x; reflexivity. Qed.
  Lemma acc_blocked x j p t0 rd : i_blocked (Renege2.accepted_ind x j p t0 rd) = false. Proof. destruct x; reflexivity. Qed.
  Lemma acc_sst x j p t0 rd : i_sst (Renege2.accepted_ind x j p t0 rd) = i_sst x. Proof. destruct x; reflexivity. Qed.
  Lemma acc_send x j p t0 rd : i_send (Renege2.accepted_ind x j p t0 rd) = i_send x. Proof. destruct x; reflexivity. Qed.
  Lemma out_TRec_false k id : out (TRec k) id = false -> (id =? k) = false.
  Proof. cbn. rewrite Z.eqb_sym. auto. Qed.

  (* T3: the customer in transit (attributes reset: TRec) has been put into the queue of node j and stamped: nobody is in transit
     any more *)
  Lemma Inv_after_stamp loc gc cr k s x nd j q nc rd rest : Inv loc (TRec k) None gc cr s -> find_ind k (inds s) = Some x -> 1 <= j ->
    nthZ (nodes s) (j - 1) = Some nd -> nthZ (n_queues nd) (i_prio x) = Some q -> nthZ (cf_nodes cf) (j - 1) = Some nc ->
    Renege2.stamp_of nc x (now s) (d_ren (dr s)) = Some (rd, rest) ->
    Inv (fun id => if id =? k then Some j else loc id) TNone None gc cr (Renege2.after_stamp s x nd j q rd rest).
  Proof.
    intros (A & B & C & D0 & E & F & G & H & K & L) Hx Hj Hn Hq Hc Hst.
    pose proof (Renege2.find_ind_id _ _ _ Hx) as Hid. pose proof (Renege2.find_ind_In _ _ _ Hx) as Hin.
    rewrite Forall_forall in F. pose proof (F _ Hin) as (XA & XB & XC & XD & XE).
    pose proof (Renege2.Idx_get _ _ _ D0 Hj Hn) as Hidn. destruct (Renege2.nthZ_nat _ _ _ Hn) as [Hj0 Hn'].
    pose proof (G _ _ Hn') as (N1 & N2 & N3 & N4 & (T0 & T1 & T2)).
    set (loc' := fun id => if id =? k then Some j else loc id).
    assert (Hk_notin : ~ In k (all_individuals nd)). { intros Hi. destruct (N3 _ Hi) as (_ & Ho & _). cbn in Ho. rewrite Z.eqb_refl in Ho. discriminate. }
    unfold Inv, Renege2.after_stamp. cbn [now arr nodes inds dr].
    split; [exact A|]. split; [exact B|]. split; [rewrite Renege2.length_updZ; exact C|].
    split; [unfold Idx; cbn [nodes]; change (n_id nd) with (n_id (nd <| n_queues := updZ (n_queues nd) (i_prio x) (q ++ [i_id x]) |> <| n_pop := n_pop nd + 1 |>)); apply Renege2.Idx_updZ; exact D0|].
    split; [apply Renege2.NoDup_put_ind; exact E|].
    split.
    { apply Renege2.Forall_put_ind; [exact E| |].
      - intros y Hy Hne. rewrite acc_id in Hne. destruct (F y Hy) as (YA & YB & YC & YD & YE). split; [exact YA|]. split; [exact YB|]. split; [|split].
        + intros _. assert (Ho : out (TRec k) (i_id y) = false) by (cbn; apply Z.eqb_neq; congruence).
          destruct (YC Ho) as ((jj & Hjj & Hl) & HP & HQ). split; [exists jj; split; [exact Hjj|]; unfold loc'; rewrite (out_TRec_false _ _ Ho); exact Hl|]. split; [exact HP|].
          intros Hd j0 Hj0' Hi. destruct (HQ Hd j0 Hj0' Hi) as [Ca Cb]. split.
          * intros Hs z Hz. destruct (Ca Hs z Hz) as [Q|Q]; [discriminate Q|right; exact Q].
          * intros Hg. destruct (Cb Hg) as [Q|Q]; [left; exact Q|discriminate Q].
        + intros j1 He. discriminate He.
        + right. destruct YE as [(j0 & Q)|YE]; [discriminate Q|]. intros [Q|[Q1 Q2]] Hs; [discriminate Q|]. apply YE; [|exact Hs]. right. split; [|exact Q2].
          cbn. apply Z.eqb_neq. congruence.
      - unfold IndOK, IP, CCI, NumOK, Good, EndGood. rewrite acc_id, acc_node, acc_ren, acc_server, acc_stime, acc_ost, acc_smark, acc_tleft, acc_blocked, acc_sst, acc_send, Hid.
        split; [rewrite <- Hid; exact XA|]. split; [destruct XB as (B1 & B2 & B3 & B4); auto|]. split; [|split].
        + intros _. split; [exists j; split; [reflexivity|]; unfold loc'; rewrite Z.eqb_refl; reflexivity|]. split.
          * intros j' z Hj' Hr Hi Hz Hs. injection Hj' as <-. unfold ren_at, ncf in Hr. rewrite Hc in Hr. unfold Renege2.stamp_of in Hst. rewrite Hr in Hst.
            destruct L as (_ & _ & L3 & _). unfold nonneg in L3.
            destruct (nthZ (nc_ren nc) (i_cls x)) as [[|]|]; [destruct (d_ren (dr s)) as [|p r] eqn:Ed; [discriminate|]; injection Hst as <- <-|injection Hst as <- <-|discriminate].
            -- injection Hz as <-. inversion L3 as [|? ? K1 K2]. lia.
            -- discriminate.
          * intros Hd. congruence.
        + intros j1 He. discriminate He.
        + right. intros _ Hs. destruct XE as [(j0 & Q)|XE]; [discriminate Q|]. apply XE; [left; rewrite Hid; reflexivity|exact Hs]. }
    split.
    { intros kk y Hk. rewrite Hidn in Hk. unfold updZ in Hk. destruct (j - 1 <? 0) eqn:Ej; [apply Z.ltb_lt in Ej; lia|].
      destruct (Renege2.nth_error_upd_cases _ _ _ _ _ Hk) as [[-> ->]|[Hne Hk']].
      - assert (P : Permutation (all_individuals (nd <| n_queues := updZ (n_queues nd) (i_prio x) (q ++ [i_id x]) |> <| n_pop := n_pop nd + 1 |>)) (k :: all_individuals nd)).
        { unfold all_individuals. cbn [n_queues set]. rewrite Hid. apply Renege2.concat_append. exact Hq. }
        split; [exact N1|]. split; [eapply Permutation_NoDup; [symmetry; exact P|constructor; assumption]|]. split; [|split].
        + intros id Hi. apply (Permutation_in _ P) in Hi. destruct Hi as [<-|Hi].
          * split; [rewrite <- Hid; exact XA|]. split; [reflexivity|]. unfold loc'. rewrite Z.eqb_refl. cbn [n_id set]. rewrite Hidn. reflexivity.
          * destruct (N3 _ Hi) as (I1 & I2 & I3). split; [exact I1|]. split; [reflexivity|]. unfold loc'. rewrite (out_TRec_false _ _ I2). exact I3.
        + intros id _ Hl. eapply Permutation_in; [symmetry; exact P|]. unfold loc' in Hl. destruct (id =? k) eqn:Ek; [left; symmetry; apply Z.eqb_eq; exact Ek|].
          right. apply N4; [cbn; rewrite Z.eqb_sym; exact Ek|exact Hl].
        + unfold NodeT, nd_inf in *. cbn [n_id n_c n_servers n_spos n_next_shift n_nccd n_ncci n_nint set]. split; [exact T0|]. split; [|exact T2].
          intros Hd. congruence.
      - pose proof (G _ _ Hk') as (M1 & M2 & M3 & M4 & (U0 & U1 & U2)). pose proof (D0 _ _ Hk') as Hidy. split; [exact M1|]. split; [exact M2|]. split; [|split].
        + intros id Hi. destruct (M3 _ Hi) as (I1 & I2 & I3). split; [exact I1|]. split; [reflexivity|]. unfold loc'. rewrite (out_TRec_false _ _ I2). exact I3.
        + intros id _ Hl. unfold loc' in Hl. destruct (id =? k) eqn:Ek; [injection Hl as Hl; exfalso; apply Hne; lia|].
          apply M4; [cbn; rewrite Z.eqb_sym; exact Ek|exact Hl].
        + split; [exact U0|]. split; [|exact U2]. intros Hd. congruence. }
    split.
    { intros id jj Hl. unfold loc' in Hl. destruct (id =? k); [|eapply H; eauto]. injection Hl as <-. split; [exact Hj|].
      assert (Hlt : (Z.to_nat (j - 1) < length (nodes s))%nat) by (apply nth_error_Some; rewrite Hn'; discriminate). lia. }
    split; [exact K|].
    destruct L as (L1 & L2 & L3 & L4). destruct rest as [r|]; [|unfold DrawsOK; auto].
    unfold DrawsOK. cbn [d_svc d_arr d_ren d_cct set]. repeat (split; [assumption|]). split; [|exact L4].
    unfold Renege2.stamp_of in Hst. destruct (nc_reneging nc); [|discriminate].
    destruct (nthZ (nc_ren nc) (i_cls x)) as [[|]|]; [|discriminate|discriminate].
    destruct (d_ren (dr s)) as [|p r0] eqn:Ed; [discriminate|]. injection Hst as _ <-. unfold nonneg in L3. inversion L3; assumption.
  Qed.

  (* T4: the customer in transit leaves by the exit *)
  Lemma sp_exit_accept loc gc cr k c :
    sp (Inv loc (TRec k) None gc cr) (Inv (fun id => if id =? k then None else loc id) TNone None gc cr) (exit_accept k c) top.
  Proof.
    intros s a s' (A & B & C & D0 & E & F & G & H & K & L) HH. unfold exit_accept, del_ind, bind, modify in HH. injection HH as _ <-.
    split; [|exact Logic.I]. set (loc' := fun id => if id =? k then None else loc id).
    destruct (Renege2.NoDup_del_ind k _ E) as [E' Hne]. rewrite Forall_forall in F.
    unfold Inv. cbn [now arr nodes inds dr set]. repeat (split; [assumption|]).
    split.
    { apply Forall_forall. intros y Hy. pose proof (Hne _ Hy) as Hyk. destruct (F y (Renege2.In_del_ind _ _ _ Hy)) as (YA & YB & YC & YD & YE). split; [exact YA|]. split; [exact YB|]. split; [|split; [intros j1 He; discriminate He|]].
      2:{ right. destruct YE as [(j0 & Q)|YE]; [discriminate Q|]. intros [Q|[Q1 Q2]] Hs; [discriminate Q|]. apply YE; [|exact Hs]. right. split; [|exact Q2]. cbn. apply Z.eqb_neq. congruence. }
      intros _. assert (Ho : out (TRec k) (i_id y) = false) by (cbn; apply Z.eqb_neq; congruence).
      destruct (YC Ho) as ((jj & Hjj & Hl) & HP). split; [|exact HP]. exists jj. split; [exact Hjj|]. unfold loc'. rewrite (out_TRec_false _ _ Ho). exact Hl. }
    split; [|split; [|auto]].
    - intros kk y Hk. pose proof (G _ _ Hk) as (M1 & M2 & M3 & M4 & M5). split; [exact M1|]. split; [exact M2|]. split; [|split; [|exact M5]].
      + intros id Hi. destruct (M3 _ Hi) as (I1 & I2 & I3). split; [exact I1|]. split; [reflexivity|]. unfold loc'. rewrite (out_TRec_false _ _ I2). exact I3.
      + intros id _ Hl. unfold loc' in Hl. destruct (id =? k) eqn:Ek; [discriminate|]. apply M4; [cbn; rewrite Z.eqb_sym; exact Ek|exact Hl].
    - intros id jj Hl. unfold loc' in Hl. destruct (id =? k); [discriminate|eapply H; eauto].
  Qed.
  Lemma sp_accept_body pre j k :
    (cf_dyn cf = false -> forall a b c, (forall nc0, ncf a = Some nc0 -> nc_preempt nc0 <> 0) -> sp (InvX TNone) (InvX TNone) (pre a b c) top) ->
    sp (InvX (TRec k)) (InvX TNone) (Renege2.accept_body cf pre j k) top.
  Proof.
    intros Hpr s a s' (loc & cr & gc & HI) H. destruct a.
    apply Renege2.accept_stamps in H as (x & nd & q & nc & rd & rest & Hx & Hj & Hn & Hq & Hc & Hst & H).
    pose proof (Inv_after_stamp _ _ _ _ _ _ _ _ _ _ _ _ HI Hx Hj Hn Hq Hc Hst) as HI1.
    exact (sp_accept_rest _ cr pre j k nc Hpr _ _ _ (InvG_of _ _ _ _ _ _ HI1) H).
  Qed.

  Lemma nthZ_updZ_eq {A} (l : list A) k x y : nthZ l k = Some y -> nthZ (updZ l k x) k = Some x.
  Proof. unfold nthZ, updZ. destruct (k <? 0); [discriminate|]. apply Renege2.nth_error_upd_eq. Qed.
  (* release of a customer of a node with servers: the customer has a server (Python would raise otherwise) *)
  Lemma release_peek acc rbi j i d s a s' x nd nc : Idx s -> Renege2.release_body cf acc rbi j i d false s = Ok (a, s') ->
    find_ind i (inds s) = Some x -> 1 <= j -> nthZ (nodes s) (j - 1) = Some nd -> nthZ (cf_nodes cf) (j - 1) = Some nc ->
    nd_inf nd = false -> nc_slotted nc = false -> i_server x <> None.
  Proof.
    intros HX H Hx Hj Hn Hc Hi Hs. unfold Renege2.release_body in H.
    minv H t0 s0 E. apply Renege2.tnow_inv in E as [-> ->].
    minv H x0 s0 E. apply Renege2.get_ind_inv in E as [-> Hx0]. rewrite Hx in Hx0. injection Hx0 as <-.
    minv H nd0 s0 E. apply Renege2.get_node_inv in E as (-> & _ & Hn0). rewrite Hn in Hn0. injection Hn0 as <-.
    minv H nc0 s0 E. apply Renege2.ncfg_of_inv in E as [-> Hc0]. rewrite Hc in Hc0. injection Hc0 as <-.
    minv H q s0 E. apply Renege2.lift_inv in E as [Hq ->]. minv H q' s0 E. apply Renege2.lift_inv in E as [Hq' ->].
    cbv zeta in H. minv H u s1 E. unfold put_node in E. apply Renege2.modify_inv in E. subst s1.
    minv H u1 s1 E. unfold put_ind in E. apply Renege2.modify_inv in E. subst s1.
    minv H u2 s1 E. clear H. unfold write_individual_record in E.
    minv E x1 s2 E1. apply Renege2.get_ind_inv in E1 as [-> Hx1]. cbn [inds set] in Hx1. rewrite Renege2.find_put_ind in Hx1. cbn [i_id set] in Hx1.
    rewrite (Renege2.find_ind_id _ _ _ Hx), Z.eqb_refl in Hx1. injection Hx1 as <-.
    minv E nd1 s2 E1. apply Renege2.get_node_inv in E1 as (-> & _ & Hn1). cbn [nodes set n_id] in Hn1. rewrite (Renege2.Idx_get _ _ _ HX Hj Hn) in Hn1.
    rewrite (nthZ_updZ_eq _ _ _ _ Hn) in Hn1. injection Hn1 as <-.
    minv E nc1 s2 E1. apply Renege2.ncfg_of_inv in E1 as [-> Hc1]. rewrite Hc in Hc1. injection Hc1 as <-.
    minv E sid s2 E1. clear E. unfold nd_inf in *. cbn [n_c set] in E1. rewrite Hi, Hs in E1. cbn in E1.
    minv E1 sv s3 E2. apply Renege2.lift_inv in E2 as [E2 _]. cbn [i_server set] in E2. congruence.
  Qed.

  Lemma sp_release_body acc rbi j i d rr : rr = false \/ cf_dyn cf = false ->
    (forall d' k, sp (InvX (TRec k)) (InvX TNone) (acc d' k) top) -> (forall j', sp (InvX TNone) (InvX TNone) (rbi j') top) ->
    sp (InvX TNone) (InvX TNone) (Renege2.release_body cf acc rbi j i d rr) top.
  Proof.
    intros Hrr Hacc Hrbi s a s' (loc & cr & gc & HI) H. pose proof H as Hpeek. unfold Renege2.release_body in H.
    minv H t0 s0 E. apply Renege2.tnow_inv in E as [-> ->].
    minv H x s0 E. apply Renege2.get_ind_inv in E as [-> Hx].
    minv H nd s0 E. apply Renege2.get_node_inv in E as (-> & Hj & Hn).
    minv H nc s0 E. apply Renege2.ncfg_of_inv in E as [-> Hc].
    minv H q s0 E. apply Renege2.lift_inv in E as [Hq ->]. minv H q' s0 E. apply Renege2.lift_inv in E as [Hq' ->].
    cbv zeta in H. minv H u s1 E. match type of E with put_node ?n _ = _ => set (nd1 := n) in * end.
    unfold put_node in E. apply Renege2.modify_inv in E. subst s1.
    pose proof (Renege2.find_ind_id _ _ _ Hx) as Hid.
    assert (Hnc : cf_dyn cf = true -> nd_inf nd = false -> n_ncci nd = Some i -> @None (Z * Z) = Some (i, j)).
    { intros Hd. congruence. }
    assert (HI1 := Inv_remove loc None gc cr s j nd nd1 (i_pprio x) q q' i HI Hj Hn Hq Hq' eq_refl eq_refl eq_refl eq_refl eq_refl eq_refl eq_refl eq_refl eq_refl eq_refl Hnc).
    assert (Hix : IndOK loc (TOut i) None gc cr x).
    { apply IndOK_TNone_TOut. destruct HI as (_ & _ & _ & _ & _ & F & _). rewrite Forall_forall in F. apply F. eapply Renege2.find_ind_In; eauto. }
    assert (Ho : out (TOut i) i = true) by (cbn; apply Z.eqb_refl).
    match type of H with ?m _ = _ => assert (RR : sp (Inv loc (TOut i) None gc cr) (InvX TNone) m top) end.
    { spb ltac:(apply spI_put_ind; indok). intros _ _.
      eapply Renege2.sp_bind with (phi := top) (J := Inv loc (TOut i) None gc cr); [destruct rr; [apply Renege2.sp_ret; exact Logic.I|apply spI_write_individual_record]|]. intros _ _.
      eapply Renege2.sp_bind with (phi := top) (J := Inv loc (TOut i) None gc cr).
      { destruct (negb (nd_inf nd) && negb (nc_slotted nc)); [|apply Renege2.sp_ret; exact Logic.I].
        spb ltac:(apply spI_get_ind). intros x1 _. spb ltac:(apply Renege2.sp_lift). intros sid _.
        spb ltac:(apply spI_detatch_server; exact Ho). intros _ _. apply Renege2.sp_ret. exact Logic.I. }
      intros freed _. eapply Renege2.sp_bind with (phi := top) (J := Inv loc (TOut i) None gc cr).
      { destruct (nc_slotted nc); [|apply Renege2.sp_ret; exact Logic.I]. apply spI_upd_ind. intros y Hy Hyi. indok. }
      intros _ _. spb ltac:(apply sp_reset_TRec). intros _ _.
      eapply Renege2.sp_bind with (phi := top) (J := InvG loc (TRec i) None cr); [destruct rr; [apply sp_retG|apply sp_fromG; apply sp_bsipr]|]. intros _ _.
      apply sp_openG. intros gc'.
      eapply Renege2.sp_bind with (phi := top) (J := InvX TNone).
      { destruct (d =? -1); [eapply sp_toX; apply sp_exit_accept|apply sp_fromX; apply Hacc]. }
      intros _ _. destruct rr; [apply sp_X; intros; apply sp_G; intros; apply Renege2.sp_ret; exact Logic.I|apply Hrbi]. }
    destruct a. exact (RR _ _ _ HI1 H).
  Qed.

  Lemma sp_rbi_body rel j : (forall a b c, sp (InvX TNone) (InvX TNone) (rel a b c false) top) ->
    sp (InvX TNone) (InvX TNone) (Renege2.rbi_body cf rel j) top.
  Proof.
    intros Hrel s a s' (loc & cr & gc & HI) H.
    assert (RR : sp (Inv loc TNone None gc cr) (InvX TNone) (Renege2.rbi_body cf rel j) top).
    { unfold Renege2.rbi_body. spb ltac:(apply spI_get_node). intros nd [Hnd Hj]. spb ltac:(apply spI_ncfg_of). intros nc _.
      destruct Hnd as (_ & _ & _ & _ & ((_ & Hb) & _)).
      assert (E0 : (0 <? n_lenbq nd) = false) by (apply Z.ltb_ge; lia). rewrite E0. cbn [andb]. apply sp_retX. }
    exact (RR _ _ _ HI H).
  Qed.

  (* ---------- priority pre-emption (regions without class change while waiting) ---------- *)
  Lemma ren_at_noren : noren cf = true -> forall j, ren_at j = false.
  Proof.
    intros Hn j. unfold ren_at, ncf. destruct (nthZ (cf_nodes cf) (j - 1)) as [nc|] eqn:E; [|reflexivity].
    apply Renege2.nthZ_In in E. unfold noren in Hn. rewrite forallb_forall in Hn. apply negb_true_iff. apply Hn. exact E.
  Qed.
  (* without reneging and without class change while waiting nothing is asked of a customer's server field *)
  Lemma IndOK_free loc tr ex gc cr x x' : cf_dyn cf = false -> (forall j, ren_at j = false) -> IndOK loc tr ex gc cr x ->
    i_id x' = i_id x -> i_node x' = i_node x -> NN (i_stime x') -> NN (i_ost x') -> (i_smark x' = 1 -> NN (i_tleft x')) -> i_blocked x' = false ->
    SEok x x' -> IndOK loc tr ex gc cr x'.
  Proof.
    intros Hd Hr (A & _ & C & C4 & C5) E1 E2 N1 N2 N3 N4 N5. unfold IndOK. rewrite E1, E2. split; [exact A|]. split; [unfold NumOK; auto|]. split; [|split; [exact C4|]].
    - intros Ho. destruct (C Ho) as [(j & Hj & Hl) _]. split; [exists j; auto|]. split.
      + intros j' z _ Hq. rewrite Hr in Hq. discriminate.
      + intros Hd'. congruence.
    - destruct C5 as [C5|C5]; [left; exact C5|right]. eapply Good_rel; eauto.
  Qed.
  Lemma spI_detatch_server_free loc tr ex gc cr j sid i : cf_dyn cf = false -> (forall j0, ren_at j0 = false) ->
    sp (Inv loc tr ex gc cr) (Inv loc tr ex gc cr) (detatch_server j sid i) top.
  Proof.
    intros Hd Hr. unfold detatch_server. spb ltac:(apply spI_tnow). intros t0 ->. spb ltac:(apply spI_get_node). intros nd [Hnd Hj].
    spb ltac:(apply spI_get_ind). intros x [Hx Hi].
    spb ltac:(apply spI_put_ind; pose proof Hx as (_ & (? & ? & ? & ?) & _); apply (IndOK_free _ _ _ _ _ x _ Hd Hr Hx); first [se_tac | cbn; first [reflexivity|assumption]]). intros _ _.
    repeat sp_step.
  Qed.
  Lemma sp_preempt_body rel j v i : cf_dyn cf = false -> (forall nc0, ncf j = Some nc0 -> nc_preempt nc0 <> 0) ->
    (forall a b c, sp (InvX TNone) (InvX TNone) (rel a b c true) top) ->
    sp (InvX TNone) (InvX TNone) (Renege2.preempt_body cf rel j v i) top.
  Proof.
    intros Hd Hne Hrel s a s' (loc & cr & gc & HI) H.
    assert (RR : sp (Inv loc TNone None gc cr) (InvX TNone) (Renege2.preempt_body cf rel j v i) top).
    { unfold Renege2.preempt_body. spb ltac:(apply spI_tnow). intros t0 ->. spb ltac:(apply spI_get_ind). intros vx [Hvx Hv].
      spb ltac:(apply spI_ncfg_of). intros nc Hc. cbv beta in Hc. pose proof (Hne _ Hc) as Hn0.
      pose proof (noresume_at _ _ Hc) as Hnr. unfold noresume_ps_nc in Hnr. apply andb_true_iff in Hnr as [Hnr _]. apply negb_true_iff in Hnr. apply Z.eqb_neq in Hnr.
      spb ltac:(apply spI_put_ind; indok). intros _ _.
      eapply Renege2.sp_bind with (phi := top) (J := InvX TNone).
      { destruct (nc_preempt nc =? 4) eqn:E4.
        - spb ltac:(apply spI_next_node_for). intros d _. spb ltac:(apply spI_write_interruption_record). intros _ _. apply sp_fromX. apply Hrel.
        - apply Z.eqb_neq in E4.
          assert (Hren : forall j0, ren_at j0 = false).
          { destruct reg_cases as [Hp|(_ & _ & _ & [Hpr|Hnr'])].
            - exfalso. apply Hn0. pose proof (nopre_at _ _ Hp Hc) as Q. unfold Renege2.nopre_nc in Q. apply andb_true_iff in Q as [Q _]. apply Z.eqb_eq. exact Q.
            - exfalso. unfold prio_reroute in Hpr. rewrite forallb_forall in Hpr. specialize (Hpr nc (Renege2.nthZ_In _ _ _ Hc)).
              apply orb_true_iff in Hpr as [Q|Q]; apply Z.eqb_eq in Q; congruence.
            - apply ren_at_noren. exact Hnr'. }
          spb ltac:(apply spI_write_interruption_record). intros _ _.
          spb ltac:(apply spI_upd_ind; intros y Hy Hyi; indok). intros _ _.
          spb ltac:(apply Renege2.sp_lift). intros sid _.
          spb ltac:(apply spI_detatch_server_free; assumption). intros _ _.
          eapply sp_toX. apply spI_decide_class_change_nodyn. exact Hd. }
      intros _ _. apply sp_X. intros loc' cr'. apply sp_G. intros gc'.
      spb ltac:(apply Renege2.sp_lift). intros sid _. apply sp_start_preemptor. }
    exact (RR _ _ _ HI H).
  Qed.

  Lemma sp_core : forall f,
    (forall j i d rr, rr = false \/ cf_dyn cf = false -> sp (InvX TNone) (InvX TNone) (release cf f j i d rr) top) /\
    (forall j, sp (InvX TNone) (InvX TNone) (release_blocked_individual cf f j) top) /\
    (forall j k, sp (InvX (TRec k)) (InvX TNone) (accept cf f j k) top) /\
    (cf_dyn cf = false -> forall j v i, (forall nc0, ncf j = Some nc0 -> nc_preempt nc0 <> 0) -> sp (InvX TNone) (InvX TNone) (preempt cf f j v i) top).
  Proof.
    induction f as [|f (IH1 & IH2 & IH3 & IH4)]; [split; [|split; [|split]]; intros; intros s0 a0 s0' _ Hx; cbn in Hx; discriminate Hx|].
    split; [|split; [|split]]; intros.
    - rewrite Renege2.release_S. apply sp_release_body; assumption.
    - rewrite Renege2.rbi_S. apply sp_rbi_body. intros a b c. apply IH1. left. reflexivity.
    - rewrite Renege2.accept_S. apply sp_accept_body. exact IH4.
    - rewrite Renege2.preempt_S. apply sp_preempt_body; [assumption|assumption|]. intros a b c. apply IH1. right. assumption.
  Qed.
  Lemma sp_release f j i d : sp (InvX TNone) (InvX TNone) (release cf f j i d false) top.
  Proof. exact (proj1 (sp_core f) j i d false (or_introl eq_refl)). Qed.
  Lemma sp_release_rr f j i d : cf_dyn cf = false -> sp (InvX TNone) (InvX TNone) (release cf f j i d true) top.
  Proof. intros Hd. exact (proj1 (sp_core f) j i d true (or_intror Hd)). Qed.
  Lemma sp_rbi f j : sp (InvX TNone) (InvX TNone) (release_blocked_individual cf f j) top.
  Proof. exact (proj1 (proj2 (sp_core f)) j). Qed.
  Lemma sp_accept f j k : sp (InvX (TRec k)) (InvX TNone) (accept cf f j k) top.
  Proof. exact (proj1 (proj2 (proj2 (sp_core f))) j k). Qed.
  Lemma sp_preempt f j v i : cf_dyn cf = false -> (forall nc0, ncf j = Some nc0 -> nc_preempt nc0 <> 0) -> sp (InvX TNone) (InvX TNone) (preempt cf f j v i) top.
  Proof. intros Hd Hn. exact (proj2 (proj2 (proj2 (sp_core f))) Hd j v i Hn). Qed.

  Lemma sp_finish_service j : sp (InvX TNone) (InvX TNone) (finish_service cf j) top.
  Proof.
    intros s a s' (loc & cr & gc & HI) H.
    assert (RR : sp (Inv loc TNone None gc cr) (InvX TNone) (finish_service cf j) top).
    { unfold finish_service. do 6 sp_step.
      eapply Renege2.sp_bind with (phi := top) (J := Inv loc TNone None gc cr); [repeat sp_step|]. intros _ _.
      spb ltac:(apply spI_has_space_true). intros space ->.
      spb ltac:(apply Renege2.sp_gets). intros fl _. apply sp_fromX. apply sp_release. }
    exact (RR _ _ _ HI H).
  Qed.

  Lemma Inv_unif loc tr ex gc cr s rest : Inv loc tr ex gc cr s -> Inv loc tr ex gc cr (s <| dr := dr s <| d_unif := rest |> |>).
  Proof. intros HI. apply Inv_dr_tail; [exact HI|]. apply HI. Qed.

  Lemma sp_renege j : sp (InvX TNone) (InvX TNone) (renege cf j) top.
  Proof.
    intros s a s' (loc & cr & gc & HI) H. unfold renege in H.
    minv H t0 s0 E. apply Renege2.tnow_inv in E as [-> ->].
    minv H nd s0 E. apply Renege2.get_node_inv in E as (-> & Hj & Hn).
    minv H i s0 E. apply Renege2.decide_between_inv in E as [Hin Hs0].
    assert (HI0 : Inv loc TNone None gc cr s0 /\ nodes s0 = nodes s /\ inds s0 = inds s /\ now s0 = now s).
    { destruct Hs0 as [[_ ->]|(u & rest & _ & ->)]; [auto|]. split; [apply Inv_unif; exact HI|auto]. }
    destruct HI0 as (HI0 & K2 & K1 & K3). clear Hs0 HI.
    minv H u s1 E. apply Renege2.upd_ind_inv in E as (x & Hx & ->). pose proof (Renege2.find_ind_id _ _ _ Hx) as Hid.
    minv H d s1 E. apply Renege2.next_node_for_jockey in E as (-> & _).
    minv H x2 s1 E. apply Renege2.get_ind_inv in E as (-> & Hx2). pose proof Hx2 as Hx2'. cbn [inds set] in Hx2. rewrite Renege2.find_put_ind in Hx2. cbn [i_id set] in Hx2.
    rewrite Hid, Z.eqb_refl in Hx2. injection Hx2 as <-.
    minv H nd1 s1 E. apply Renege2.get_node_inv in E as (-> & _ & Hn1). pose proof Hn1 as Hn1'. cbn [nodes set] in Hn1. rewrite K2, Hn in Hn1. injection Hn1 as <-.
    minv H q s1 E. apply Renege2.lift_inv in E as [Eq ->]. cbn [i_pprio set] in Eq.
    minv H q' s1 E. apply Renege2.lift_inv in E as [Eq' ->].
    cbv zeta in H. cbn [i_pprio set] in H.
    minv H u0 s1 E. match type of E with put_node ?n _ = _ => set (nd2 := n) in * end. unfold put_node in E. apply Renege2.modify_inv in E. subst s1.
    assert (Hix0 : IndOK loc TNone None gc cr x).
    { destruct HI0 as (_ & _ & _ & _ & _ & F & _). rewrite Forall_forall in F. apply F. eapply Renege2.find_ind_In; eauto. }
    (* the reneging date is cleared, then the customer is taken out of its queue *)
    assert (HIa : Inv loc TNone None gc cr (s0 <| inds := put_ind_l (x <| i_ren := XI |>) (inds s0) |>)) by (apply Inv_put_ind; [exact HI0|indok]).
    assert (Hq_in : In i (all_individuals nd)).
    { apply Renege2.nthZ_In in Eq. unfold all_individuals. apply in_concat. exists q. split; [exact Eq|]. eapply Permutation_in; [symmetry; apply (Renege2.remove_first_perm _ _ _ Eq')|left; reflexivity]. }
    assert (HI1 := Inv_remove loc None gc cr _ j nd nd2 (i_pprio x) q q' i HIa Hj Hn1' Eq Eq' eq_refl eq_refl eq_refl eq_refl eq_refl eq_refl eq_refl eq_refl eq_refl eq_refl ltac:(intros Hd'; congruence)).
    assert (Ho : out (TOut i) i = true) by (cbn; apply Z.eqb_refl).
    match type of H with ?m _ = _ => assert (RR : sp (Inv loc (TOut i) None gc cr) (InvX TNone) m top) end.
    { spb ltac:(apply spI_reset_class_change_nodyn; exact XHdyn). intros _ _.
      spb ltac:(apply spI_upd_ind; intros y Hy Hyi; indok). intros _ _.
      spb ltac:(apply spI_write_reneging_record). intros _ _.
      spb ltac:(apply sp_reset_TRec). intros _ _.
      spb ltac:(apply Renege2.sp_gets). intros fl _.
      eapply Renege2.sp_bind with (phi := top) (J := InvX TNone).
      { destruct (d =? -1); [eapply sp_toX; apply sp_exit_accept|apply sp_fromX; apply sp_accept]. }
      intros _ _. apply sp_rbi. }
    destruct a. exact (RR _ _ _ HI1 H).
  Qed.

  (* ---------- pre-emptive schedules and capacitated slots (regions without class change while waiting) ---------- *)
  Lemma sp_interrupt_service fl j i pre : Renege2.nopre cf = false -> pre <> 1 ->
    sp (InvX TNone) (InvX TNone) (interrupt_service cf fl j i pre) top.
  Proof.
    intros Hp Hp1. pose proof (nodyn_of_pre Hp) as Hd. intros s a s' (loc & cr & gc & HI) H.
    assert (RR : sp (Inv loc TNone None gc cr) (InvX TNone) (interrupt_service cf fl j i pre) top).
    { unfold interrupt_service. spb ltac:(apply spI_tnow). intros t0 ->.
      spb ltac:(apply spI_upd_ind; intros y Hy Hyi; indok). intros _ _.
      destruct (pre =? 4).
      - spb ltac:(apply spI_next_node_for). intros d _. spb ltac:(apply spI_write_interruption_record). intros _ _.
        apply sp_fromX. apply sp_release_rr. exact Hd.
      - eapply sp_toX.
        spb ltac:(apply spI_upd_node; intros nd0 Hn0 Hnd0; nodeok). intros _ _.
        spb ltac:(apply spI_upd_ind; intros y Hy Hyi; indok). intros _ _.
        spb ltac:(apply spI_write_interruption_record). intros _ _.
        spb ltac:(apply spI_upd_ind; intros y Hy Hyi; indok). intros _ _.
        apply spI_upd_node. intros nd0 Hn0 Hnd0. nodeok. }
    exact (RR _ _ _ HI H).
  Qed.
  (* ---------- `resume` at a pre-emptive capacitated slot: the time left is the end date minus the clock, and is >= 0 ---------- *)
  (* ke m: m does not touch the end date of any customer record (and keeps every record) *)
  Definition ke {A} (m : M A) : Prop :=
    forall s a s', m s = Ok (a, s') -> forall i x, find_ind i (inds s) = Some x -> exists x', find_ind i (inds s') = Some x' /\ i_send x' = i_send x.
  Lemma ke_bind {A B} (m : M A) (f : A -> M B) : ke m -> (forall a, ke (f a)) -> ke (bind m f).
  Proof.
    intros Hm Hf s b s' H i x Hx. unfold bind in H. destruct (m s) as [[a s1]| |] eqn:E; try discriminate.
    destruct (Hm _ _ _ E i x Hx) as (x1 & Hx1 & E1). destruct (Hf a _ _ _ H i x1 Hx1) as (x2 & Hx2 & E2). exists x2. split; [exact Hx2|congruence].
  Qed.
  Lemma ke_same {A} (m : M A) : (forall s a s', m s = Ok (a, s') -> inds s' = inds s) -> ke m.
  Proof. intros Hm s a s' H i x Hx. rewrite (Hm _ _ _ H). eauto. Qed.
  Lemma ke_gets {A} (f : sim -> A) : ke (gets f).
  Proof. apply ke_same. intros s a s' H. apply Renege2.gets_inv in H as [_ ->]. reflexivity. Qed.
  Lemma ke_lift {A} e (o : option A) : ke (lift e o).
  Proof. apply ke_same. intros s a s' H. apply Renege2.lift_inv in H as [_ ->]. reflexivity. Qed.
  Lemma ke_modify f : (forall s, inds (f s) = inds s) -> ke (modify f).
  Proof. intros Hf. apply ke_same. intros s a s' H. apply Renege2.modify_inv in H. subst s'. apply Hf. Qed.
  Lemma ke_get_ind i : ke (get_ind i).
  Proof. apply ke_same. intros s a s' H. apply Renege2.get_ind_inv in H as [-> _]. reflexivity. Qed.
  Lemma ke_get_node j : ke (get_node j).
  Proof. apply ke_same. intros s a s' H. apply Renege2.get_node_inv in H as [-> _]. reflexivity. Qed.
  Lemma ke_upd_ind i f : (forall x, i_id (f x) = i_id x /\ i_send (f x) = i_send x) -> ke (upd_ind i f).
  Proof.
    intros Hf s a s' H i0 x0 Hx0. apply Renege2.upd_ind_inv in H as (x & Hx & ->). cbn [inds set]. rewrite Renege2.find_put_ind.
    destruct (Hf x) as [E1 E2]. rewrite E1, (Renege2.find_ind_id _ _ _ Hx). destruct (i0 =? i) eqn:E; [|eauto].
    apply Z.eqb_eq in E. subst i0. rewrite Hx in Hx0. injection Hx0 as <-. eauto.
  Qed.
  Lemma ke_upd_node j f : ke (upd_node j f).
  Proof. unfold upd_node, put_node. apply ke_bind; [apply ke_get_node|]. intros nd. apply ke_modify. reflexivity. Qed.
  Lemma ke_write_interruption_record j i d : ke (write_interruption_record cf j i d).
  Proof.
    unfold write_interruption_record, tnow, ncfg_of, log_rec, bump_rec. apply ke_bind; [apply ke_gets|]. intros t0. apply ke_bind; [apply ke_get_ind|]. intros x.
    apply ke_bind; [apply ke_lift|]. intros nc. apply ke_bind.
    { destruct (nc_slotted nc); [apply ke_same; intros s a s' H; apply Renege2.ret_inv in H as [_ ->]; reflexivity|].
      apply ke_bind; [apply ke_lift|]. intros sid. apply ke_same. intros s a s' H. apply Renege2.ret_inv in H as [_ ->]. reflexivity. }
    intros sid. apply ke_bind; [apply ke_modify; reflexivity|]. intros _. apply ke_upd_ind. intros y. split; reflexivity.
  Qed.
  (* the customers of l have an end date that has not passed *)
  Definition Ends (l : list Z) (s : sim) : Prop := forall i, In i l -> exists x, find_ind i (inds s) = Some x /\ EndGood x.
  Lemma sp_conj_ke {A} (I0 : sim -> Prop) l (m : M A) phi : sp I0 I0 m phi -> ke m -> sp (fun s => I0 s /\ Ends l s) (fun s => I0 s /\ Ends l s) m phi.
  Proof.
    intros Hm Hk s a s' [HI HE] H. destruct (Hm _ _ _ HI H) as [HJ Hp]. split; [|exact Hp]. split; [exact HJ|].
    intros i Hi. destruct (HE i Hi) as (x & Hx & e & He & Hle). destruct (Hk _ _ _ H i x Hx) as (x' & Hx' & E). exists x'. split; [exact Hx'|]. exists e. rewrite E. auto.
  Qed.
  (* interrupt_service without rerouting, of a customer whose end date has not passed: its time left is >= 0 *)
  Lemma sp_interrupt_keep loc gc cr fl j i pre l : Renege2.nopre cf = false -> pre <> 4 -> ~ In i l ->
    sp (fun s => Inv loc TNone None gc cr s /\ Ends (i :: l) s) (fun s => Inv loc TNone None gc cr s /\ Ends l s) (interrupt_service cf fl j i pre) top.
  Proof.
    intros Hp Hp4 Hnin. unfold interrupt_service. apply Z.eqb_neq in Hp4.
    eapply Renege2.sp_bind; [apply sp_conj_ke; [apply spI_tnow|apply ke_gets]|]. intros t0 ->.
    eapply Renege2.sp_bind with (phi := top); [apply sp_conj_ke; [apply spI_upd_ind; intros; indok|apply ke_upd_ind; intros y; split; reflexivity]|]. intros _ _.
    rewrite Hp4.
    eapply Renege2.sp_bind with (phi := top); [apply sp_conj_ke; [apply spI_upd_node; intros; nodeok|apply ke_upd_node]|]. intros _ _.
    eapply Renege2.sp_bind with (phi := top); [apply sp_conj_ke; [apply spI_upd_ind; intros; indok|apply ke_upd_ind; intros y; split; reflexivity]|]. intros _ _.
    eapply Renege2.sp_bind with (phi := top); [apply sp_conj_ke; [apply spI_write_interruption_record|apply ke_write_interruption_record]|]. intros _ _.
    eapply Renege2.sp_bind with (phi := top) (J := fun s => Inv loc TNone None gc cr s /\ Ends l s).
    2:{ intros _ _. apply sp_conj_ke; [apply spI_upd_node; intros; nodeok|apply ke_upd_node]. }
    intros s a s' [HI HE] H. split; [|exact Logic.I]. apply Renege2.upd_ind_inv in H as (x & Hx & ->).
    destruct (HE i (or_introl eq_refl)) as (x0 & Hx0 & e & He & Hle). rewrite Hx in Hx0. injection Hx0 as <-.
    pose proof (Renege2.find_ind_id _ _ _ Hx) as Hid.
    assert (Hix : IndOK loc TNone None gc cr x).
    { destruct HI as (_ & _ & _ & _ & _ & F & _). rewrite Forall_forall in F. apply F. eapply Renege2.find_ind_In; eauto. }
    split.
    - apply Inv_put_ind; [exact HI|]. pose proof Hix as (_ & (N1 & N2 & N3 & N4) & _).
      apply (IndOK_irel _ _ _ _ _ x _ Hix); first [ (cbn; intros _; apply NN_Some; rewrite He; cbn; lia) | irel_tac ].
    - intros i' Hi'. destruct (HE i' (or_intror Hi')) as (x' & Hx' & Hg). exists x'. split; [|exact Hg].
      cbn [inds set]. rewrite Renege2.find_put_ind. cbn [i_id set]. rewrite Hid.
      destruct (i' =? i) eqn:E; [apply Z.eqb_eq in E; subst i'; contradiction|exact Hx'].
  Qed.
  Lemma sp_forM_interrupt loc gc cr fl j pre : Renege2.nopre cf = false -> pre <> 4 -> forall l, NoDup l ->
    sp (fun s => Inv loc TNone None gc cr s /\ Ends l s) (Inv loc TNone None gc cr) (forM_ l (fun i => interrupt_service cf fl j i pre)) top.
  Proof.
    intros Hp Hp4. induction l as [|i r IH]; intros HN; cbn [forM_].
    - intros s a s' [HI _] H. apply Renege2.ret_inv in H as [_ ->]. split; [exact HI|exact Logic.I].
    - inversion HN as [|? ? Hnin HN']; subst. eapply Renege2.sp_bind with (phi := top); [apply sp_interrupt_keep; assumption|]. intros _ _. apply IH. exact HN'.
  Qed.
  (* ---------- the customers a capacitated slot interrupts: distinct, and taken among the started customers of the node ---------- *)
  Lemma keyed_inv : forall l s kl s', keyed l s = Ok (kl, s') -> s' = s /\ map snd kl = l.
  Proof.
    unfold keyed. induction l as [|i r IH]; intros s kl s' H; cbn [mapM] in H.
    - apply Renege2.ret_inv in H as [-> ->]. auto.
    - minv H b s1 E. minv E x s2 E2. apply Renege2.get_ind_inv in E2 as [-> _]. apply Renege2.ret_inv in E as [-> ->].
      minv H bs s1 E. destruct (IH _ _ _ E) as [-> Hm]. apply Renege2.ret_inv in H as [-> ->]. split; [reflexivity|]. cbn. rewrite Hm. reflexivity.
  Qed.
  Lemma ins_key_desc_perm k i : forall l, Permutation (map snd (ins_key_desc k i l)) (i :: map snd l).
  Proof.
    induction l as [|[k' i'] r IH]; cbn [ins_key_desc]; [reflexivity|]. destruct (key_ge k' k); cbn [map snd]; [|reflexivity].
    rewrite IH. apply perm_swap.
  Qed.
  Lemma fold_ins_desc_perm : forall l acc,
    Permutation (map snd (fold_left (fun a p => ins_key_desc (fst p) (snd p) a) l acc)) (map snd l ++ map snd acc).
  Proof.
    induction l as [|p r IH]; intros acc; cbn [fold_left map app]; [reflexivity|]. rewrite IH, ins_key_desc_perm. symmetry. apply Permutation_middle.
  Qed.
  Lemma sort_desc_perm l : Permutation (sort_by_key_desc l) (map snd l).
  Proof. unfold sort_by_key_desc. rewrite fold_ins_desc_perm. cbn. rewrite app_nil_r. reflexivity. Qed.
  Lemma In_firstn_in {A} : forall n (l : list A) a, In a (firstn n l) -> In a l.
  Proof. induction n as [|n IH]; intros [|b l] a; cbn; try tauto. intros [->|H]; auto. Qed.
  Lemma NoDup_firstn {A} : forall n (l : list A), NoDup l -> NoDup (firstn n l).
  Proof.
    induction n as [|n IH]; intros l H; [constructor|]. destruct l as [|a l]; [constructor|]. cbn [firstn].
    inversion H as [|? ? Hn Hd]; subst. constructor; [|apply IH; exact Hd]. intros Hin. apply Hn. eapply In_firstn_in. exact Hin.
  Qed.
  Lemma sp_off_duty_loop fl j pre se : Renege2.nopre cf = false -> pre <> 1 ->
    forall k idx, sp (InvX TNone) (InvX TNone) (off_duty_loop cf k fl j idx pre se) top.
  Proof.
    intros Hp Hp1. induction k as [|k IH]; intros idx; cbn [off_duty_loop]; [apply sp_X; intros; apply sp_G; intros; apply Renege2.sp_ret; exact Logic.I|].
    intros s a s' (loc & cr & gc & HI) H.
    match type of H with ?m _ = _ => assert (RR : sp (Inv loc TNone None gc cr) (InvX TNone) m top) end.
    { spb ltac:(apply spI_get_node). intros nd [Hnd Hj]. destruct (nth_error (n_servers nd) idx) as [sv|] eqn:Esv; [|apply sp_retX].
      eapply Renege2.sp_bind with (phi := top) (J := Inv loc TNone None gc cr).
      { apply spI_put_node. apply (NodeOK_nrel _ _ _ _ _ nd _ Hnd); try reflexivity; try (intros _; cbn; lia). intros HF. cbn.
        apply Forall_put_server; [exact HF|]. rewrite Forall_forall in HF. apply (HF sv). eapply nth_error_In; eauto. }
      intros _ _. eapply Renege2.sp_bind with (phi := top) (J := InvX TNone).
      { destruct (sv_cust sv) as [c|]; [apply sp_fromX; apply sp_interrupt_service; assumption|apply sp_retX]. }
      intros _ _. apply IH. }
    exact (RR _ _ _ HI H).
  Qed.
  Lemma spI_sort_interrupted_individuals loc tr ex gc cr j : sp (Inv loc tr ex gc cr) (Inv loc tr ex gc cr) (sort_interrupted_individuals j) top.
  Proof. unfold sort_interrupted_individuals, keyed. repeat sp_step. Qed.
  Lemma sp_tsod fl j pre : Renege2.nopre cf = false -> pre <> 1 -> pre <> 0 -> sp (InvX TNone) (InvX TNone) (take_servers_off_duty cf fl j pre) top.
  Proof.
    intros Hp Hp1 Hp0 s a s' (loc & cr & gc & HI) H.
    assert (RR : sp (Inv loc TNone None gc cr) (InvX TNone) (take_servers_off_duty cf fl j pre) top).
    { unfold take_servers_off_duty. spb ltac:(apply spI_get_node). intros nd [Hnd Hj].
      eapply Renege2.sp_bind with (phi := top) (J := Inv loc TNone None gc cr); [destruct (n_next_date nd); [apply Renege2.sp_ret; exact Logic.I|apply Renege2.sp_fail]|]. intros se _.
      apply Z.eqb_neq in Hp0. rewrite Hp0.
      eapply Renege2.sp_bind with (phi := top) (J := InvX TNone); [apply sp_fromX; apply sp_off_duty_loop; assumption|]. intros _ _.
      apply sp_X. intros loc' cr'. apply sp_G. intros gc'.
      spb ltac:(apply spI_sort_interrupted_individuals). intros _ _. apply Renege2.sp_forM. intros sid. apply spI_kill_server. }
    exact (RR _ _ _ HI H).
  Qed.

  Lemma sp_change_shift j : sp (InvX TNone) (InvX TNone) (change_shift cf j) top.
  Proof.
    intros s a s' (loc & cr & gc & HI) H.
    assert (RR : sp (Inv loc TNone None gc cr) (InvX TNone) (change_shift cf j) top).
    { unfold change_shift. eapply Renege2.sp_bind; [apply spI_ncfg_of|]. intros nc Hc. destruct (nc_srv nc) as [|sc|sl] eqn:Esrv; [apply Renege2.sp_fail| |apply Renege2.sp_fail].
      pose proof (wf_at _ _ Hc) as Hw. unfold wf_nc in Hw. rewrite Esrv in Hw.
      pose proof (noresume_at _ _ Hc) as Hnr. unfold noresume_ps_nc in Hnr. rewrite Esrv in Hnr. apply andb_true_iff in Hnr as [_ Hnr]. apply negb_true_iff in Hnr. apply Z.eqb_neq in Hnr.
      eapply Renege2.sp_bind; [apply spI_get_node|]. intros nd [Hnd Hj].
      eapply Renege2.sp_bind with (phi := top); [destruct (sc_b sc); [apply Renege2.sp_fail|apply Renege2.sp_ret; exact Logic.I]|]. intros _ _. cbv zeta.
      eapply Renege2.sp_bind with (phi := top) (J := Inv loc TNone None gc cr).
      { apply spI_put_node. destruct Hnd as (A & B & C & D0 & (T0 & T1 & E)). unfold NodeOK, NodeT, all_individuals, nd_inf in *.
        cbn [n_id n_queues n_c n_servers n_spos n_next_shift n_nccd n_ncci n_nint set].
        rewrite Hj in *. unfold ncf in *. rewrite Hc, Esrv in *. destruct E as (E1 & E2 & E3 & E4).
        assert (Hfin : inf_at j = false) by (eapply Hsch; eauto). rewrite Hfin in A.
        split; [rewrite Hfin; reflexivity|]. split; [exact B|]. split; [exact C|]. split; [exact D0|]. split; [exact T0|]. split; [|split].
        - intros Hd. destruct (T1 Hd) as [T3 T4]. split; [exact T3|]. intros _. apply T4. exact A.
        - intros _ Hs. apply E1; [exact A|exact Hs].
        - replace (Z.to_nat (n_spos nd + 1)) with (S (Z.to_nat (n_spos nd))) by lia.
          split; [lia|]. split; [reflexivity|]. pose proof (wf_tt_mono _ _ Hw (Z.to_nat (n_spos nd)) (S (Z.to_nat (n_spos nd))) ltac:(lia)). lia. }
      intros _ _. eapply Renege2.sp_bind; [apply Renege2.sp_gets|]. intros fl _.
      eapply Renege2.sp_bind with (phi := top) (J := InvX TNone).
      { destruct (Z.eq_dec (sc_pre sc) 0) as [H0|H0]; [eapply sp_toX; apply spI_tsod0; exact H0|].
        apply sp_fromX. apply sp_tsod; [|exact Hnr|exact H0].
        destruct (Renege2.nopre cf) eqn:Hp; [|reflexivity]. exfalso. apply H0. pose proof (nopre_at _ _ Hp Hc) as Q. unfold Renege2.nopre_nc in Q. rewrite Esrv in Q.
        apply andb_true_iff in Q as [_ Q]. apply Z.eqb_eq. exact Q. }
      intros _ _. apply sp_X. intros loc' cr'. apply sp_openG. intros gc'.
      eapply Renege2.sp_bind with (phi := top) (J := Inv loc' TNone None gc' cr'); [apply spI_add_new_servers|]. intros _ _. apply sp_fromG. apply sp_bsipcs. }
    exact (RR _ _ _ HI H).
  Qed.

  Lemma sp_slotted_service j : sp (InvX TNone) (InvX TNone) (slotted_service cf j) top.
  Proof.
    intros s a s' (loc & cr & gc & HI) H.
    assert (RR : sp (Inv loc TNone None gc cr) (InvX TNone) (slotted_service cf j) top).
    { unfold slotted_service. eapply Renege2.sp_bind; [apply spI_ncfg_of|]. intros nc Hc. destruct (nc_srv nc) as [|sc|sl] eqn:Esrv; [apply Renege2.sp_fail|apply Renege2.sp_fail|].
      pose proof (wf_at _ _ Hc) as Hw. unfold wf_nc in Hw. rewrite Esrv in Hw.
      eapply Renege2.sp_bind; [apply spI_get_node|]. intros nd [Hnd Hj].
      eapply Renege2.sp_bind with (phi := top); [destruct (sl_b sl); [apply Renege2.sp_fail|apply Renege2.sp_ret; exact Logic.I]|]. intros _ _. cbv zeta.
      eapply Renege2.sp_bind with (phi := top) (J := InvX TNone).
      { destruct (sl_cap sl && negb (sl_pre sl =? 0)) eqn:Ep; [|apply sp_retX].
        destruct (0 <? n_insvc nd - fst (slot_values sl (Z.to_nat (n_spos nd)))); [|apply sp_retX].
        apply andb_true_iff in Ep as [Ec Ep]. apply negb_true_iff in Ep. apply Z.eqb_neq in Ep.
        assert (Hp : Renege2.nopre cf = false).
        { destruct (Renege2.nopre cf) eqn:Hp; [|reflexivity]. exfalso. pose proof (nopre_at _ _ Hp Hc) as Q. unfold Renege2.nopre_nc in Q. rewrite Esrv in Q.
          apply andb_true_iff in Q as [_ Q]. rewrite Ec in Q. cbn in Q. apply negb_true_iff in Q. apply negb_false_iff in Q. apply Z.eqb_eq in Q. contradiction. }
        destruct (Z.eq_dec (sl_pre sl) 4) as [E4|E4].
        { spb ltac:(apply Renege2.sp_gets). intros il _.
          eapply Renege2.sp_bind with (phi := top) (J := Inv loc TNone None gc cr); [unfold keyed; repeat sp_step|]. intros kl _.
          spb ltac:(apply Renege2.sp_gets). intros fl _. apply sp_fromX. apply Renege2.sp_forM. intros i. apply sp_interrupt_service; [exact Hp|lia]. }
        intros s0 a0 s0' HI0 H0.
        minv H0 il s1 E. apply Renege2.gets_inv in E as [-> ->].
        minv H0 kl s1 E. apply keyed_inv in E as [-> Hkl].
        minv H0 fl s1 E. apply Renege2.gets_inv in E as [_ ->].
        match type of Hkl with map snd kl = ?l => set (started := l) in * end.
        set (vs := firstn (Z.to_nat (n_insvc nd - fst (slot_values sl (Z.to_nat (n_spos nd))))) (sort_by_key_desc kl)) in *.
        assert (Hsub : forall i, In i vs -> In i started).
        { intros i Hi. apply In_firstn_in in Hi. rewrite <- Hkl. eapply Permutation_in; [apply sort_desc_perm|exact Hi]. }
        assert (HND : NoDup vs).
        { apply NoDup_firstn. eapply Permutation_NoDup; [symmetry; apply sort_desc_perm|]. rewrite Hkl. apply NoDup_filter. apply Hnd. }
        assert (HE : Ends vs s0).
        { intros i Hi. apply Hsub in Hi. apply filter_In in Hi as [Hq Hst].
          destruct (find_ind i (inds s0)) as [x|] eqn:Ex; [|discriminate]. exists x. split; [reflexivity|].
          destruct Hnd as (_ & _ & N3 & _). destruct (N3 _ Hq) as (_ & _ & Hl). rewrite Hj in Hl.
          pose proof HI0 as (_ & _ & _ & _ & _ & F & _). rewrite Forall_forall in F.
          destruct (F x (Renege2.find_ind_In _ _ _ Ex)) as (_ & _ & XC & _ & XE). pose proof (Renege2.find_ind_id _ _ _ Ex) as Hid.
          destruct (XC eq_refl) as ((j' & Hj' & Hl') & _). rewrite Hid, Hl in Hl'. injection Hl' as <-.
          destruct XE as [(j0 & Q)|XE]; [discriminate Q|]. apply XE.
          - right. split; [reflexivity|]. exists j. split; [exact Hj'|]. unfold slot_at. rewrite Hc. unfold nc_slotted. rewrite Esrv. reflexivity.
          - destruct (i_sst x); [discriminate|discriminate Hst]. }
        destruct (sp_forM_interrupt loc gc cr fl j (sl_pre sl) Hp E4 vs HND _ _ _ (conj HI0 HE) H0) as [HJ _].
        split; [eapply InvX_of; exact HJ|exact Logic.I]. }
      intros _ _. apply sp_X. intros loc' cr'. apply sp_G. intros gc'.
      eapply Renege2.sp_bind; [apply spI_slot_loop|]. intros _ _. apply spI_upd_node. intros nd' Hj' (A & B & C & D0 & (T0 & T1 & E)).
      unfold NodeOK, NodeT, all_individuals, nd_inf in *. cbn [n_id n_queues n_c n_servers n_spos n_next_shift n_nccd n_ncci n_nint set].
      rewrite Hj' in *. unfold ncf in *. rewrite Hc, Esrv in *. destruct E as (E1 & E2 & E3).
      split; [exact A|]. split; [exact B|]. split; [exact C|]. split; [exact D0|]. split; [exact T0|]. split; [exact T1|]. split; [exact E1|].
      replace (Z.to_nat (n_spos nd' + 1)) with (S (Z.to_nat (n_spos nd'))) by lia.
      split; [lia|]. pose proof (slotdate_step sl (Z.to_nat (n_spos nd')) Hw). lia. }
    exact (RR _ _ _ HI H).
  Qed.

  (* ---------- class change while waiting ---------- *)
  (* ... and in the regions with pre-emption (no class change while waiting there: the function only moves the customer) *)
  Lemma sp_ccww_pre j : sp (InvX TNone) (InvX TNone) (change_customer_class_while_waiting cf j) top.
  Proof.
    pose proof XHdyn as Hd. intros s a s' (loc & cr & gc & HI) H.
    assert (RR : sp (Inv loc TNone None gc cr) (InvX TNone) (change_customer_class_while_waiting cf j) top).
    { unfold change_customer_class_while_waiting.
      eapply Renege2.sp_bind; [apply spI_get_node|]. intros nd [Hnd Hj].
      eapply Renege2.sp_bind; [apply Renege2.sp_lift|]. intros i Hi.
      eapply Renege2.sp_bind; [apply spI_get_ind|]. intros x [Hx Hxi].
      eapply Renege2.sp_bind; [apply Renege2.sp_lift|]. intros nc' Hnc.
      eapply Renege2.sp_bind; [apply Renege2.sp_lift|]. intros p' Hp'.
      eapply Renege2.sp_bind; [apply spI_put_ind; indok|]. intros _ _.
      eapply Renege2.sp_bind with (phi := top) (J := InvX TNone).
      { destruct (negb (p' =? i_pprio x)); [|apply sp_retX].
        eapply Renege2.sp_bind; [apply Renege2.sp_lift|]. intros q Hq. eapply Renege2.sp_bind; [apply Renege2.sp_lift|]. intros q' Hq'. cbv zeta.
        eapply Renege2.sp_bind; [apply Renege2.sp_lift|]. intros qn Hqn. cbv beta in Hq, Hq', Hqn.
        eapply Renege2.sp_bind; [apply spI_put_node|].
        { apply (NodeOK_perm _ _ _ _ _ nd _ Hnd); try reflexivity. unfold all_individuals. cbn [n_queues set].
          eapply Permutation_trans; [apply (Renege2.concat_remove _ _ _ _ _ Hq Hq')|]. symmetry. apply Renege2.concat_append. exact Hqn. }
        intros _ _. destruct (negb (nd_inf nd) && (0 <? numo (n_c nd))); [|apply sp_retX].
        eapply Renege2.sp_bind; [apply spI_preempt_victim|]. intros v Hv. cbv beta in Hv. destruct v as [vi|]; [|apply sp_retX].
        destruct (Hv ltac:(discriminate)) as (nc0 & Hc0 & Hne).
        spb ltac:(apply Renege2.sp_gets). intros fl _. apply sp_fromX. apply sp_preempt; [exact Hd|].
        intros nc1 Hc1. rewrite Hc0 in Hc1. injection Hc1 as <-. exact Hne. }
      intros _ _. apply sp_X. intros loc' cr'. apply sp_G. intros gc'.
      eapply Renege2.sp_bind; [apply spI_upd_ind; intros y Hy Hyi; indok|]. intros _ _. apply spI_decide_class_change_nodyn. exact Hd. }
    exact (RR _ _ _ HI H).
  Qed.

  (* what update_next_event_date left on a node whose next event is a class change while waiting *)
  Definition T3OK (s : sim) : Prop :=
    cf_dyn cf = true -> forall j nd, nthZ (nodes s) (j - 1) = Some nd -> n_next_type nd = 3 ->
      nd_inf nd = false /\ n_next_inds nd = match n_ncci nd with Some i => [i] | None => [] end.

  Lemma sp_node_have_event j : sp (fun s => InvX TNone s /\ T3OK s) (InvX TNone) (node_have_event cf j) top.
  Proof.
    intros s a s' [(loc & cr & gc & HI) HT] H. unfold node_have_event in H.
    minv H nd s1 E. apply Renege2.get_node_inv in E as (-> & Hj & Hn). cbv zeta in H.
    destruct (n_next_type nd =? 0); [exact (sp_finish_service j _ _ _ (InvX_of _ _ _ _ _ HI) H)|].
    destruct (n_next_type nd =? 1); [exact (sp_change_shift j _ _ _ (InvX_of _ _ _ _ _ HI) H)|].
    destruct (n_next_type nd =? 2); [exact (sp_renege j _ _ _ (InvX_of _ _ _ _ _ HI) H)|].
    destruct (n_next_type nd =? 3) eqn:E3.
    { exact (sp_ccww_pre j _ _ _ (InvX_of _ _ _ _ _ HI) H). }
    destruct (n_next_type nd =? 4); [exact (sp_slotted_service j _ _ _ (InvX_of _ _ _ _ _ HI) H)|].
    apply Renege2.ret_inv in H as [-> ->]. split; [eapply InvX_of; exact HI|exact Logic.I].
  Qed.

  Lemma sp_send_individual j k : sp (InvX (TRec k)) (InvX TNone) (send_individual cf j k) top.
  Proof.
    intros s a s' (loc & cr & gc & HI) H.
    assert (RR : sp (Inv loc (TRec k) None gc cr) (InvX TNone) (send_individual cf j k) top).
    { unfold send_individual. spb ltac:(apply spI_same; intros ?; repeat split; reflexivity). intros _ _.
      spb ltac:(apply Renege2.sp_gets). intros fl _. apply sp_fromX. apply sp_accept. }
    exact (RR _ _ _ HI H).
  Qed.
  Lemma sp_turn_away loc gc cr j k ty : sp (Inv loc (TRec k) None gc cr) (InvX TNone) (write_br_record j k ty ;;; exit_accept k false) top.
  Proof. spb ltac:(apply spI_write_br_record). intros _ _. eapply sp_toX. apply sp_exit_accept. Qed.
  Lemma sp_release_individual j k : sp (InvX (TRec k)) (InvX TNone) (release_individual cf j k) top.
  Proof.
    intros s a s' (loc & cr & gc & HI) H.
    assert (RR : sp (Inv loc (TRec k) None gc cr) (InvX TNone) (release_individual cf j k) top).
    { unfold release_individual. spb ltac:(apply spI_get_ind). intros x _. spb ltac:(apply spI_get_node). intros nd _.
      spb ltac:(apply spI_ncfg_of). intros nc _. spb ltac:(apply spI_sys_population). intros sp0 _. cbv zeta.
      destruct (_ || _); [apply sp_turn_away|].
      spb ltac:(apply Renege2.sp_lift). intros tabs _. spb ltac:(apply Renege2.sp_lift). intros tab _.
      destruct tab as [tb|]; [|apply sp_fromX; apply sp_send_individual].
      spb ltac:(apply spI_draw_unif). intros u _. cbv zeta.
      destruct (_ <? _); [apply sp_turn_away|apply sp_fromX; apply sp_send_individual]. }
    exact (RR _ _ _ HI H).
  Qed.

  (* T5: a new customer is created (it is in transit until it is accepted or turned away) *)
  Lemma Inv_create loc gc cr s c p r : Inv loc TNone None gc cr s ->
    Inv loc (TRec (cr + 1)) None gc (cr + 1)
      (s <| arr := arr s <| a_created := a_created (arr s) + 1 |> |> <| inds := put_ind_l (new_ind (cr + 1) c p r) (inds s) |>).
  Proof.
    intros (A & B & C & D0 & E & F & G & H & K & L). unfold Inv. cbn [now arr nodes inds dr set a_created].
    split; [exact A|]. split; [rewrite B; reflexivity|]. split; [exact C|]. split; [exact D0|]. split; [apply Renege2.NoDup_put_ind; exact E|].
    rewrite Forall_forall in F.
    split.
    { apply Renege2.Forall_put_ind; [exact E| |].
      - intros y Hy _. destruct (F y Hy) as (YA & YB & YC & YD & YE). split; [lia|]. split; [exact YB|]. split; [intros _; apply YC; reflexivity|]. split; [exact YD|].
        destruct YE as [YE|YE]; [left; exact YE|right]. intros [Q|[Q1 Q2]] Hs; [injection Q as Q; lia|]. apply YE; [right; split; [reflexivity|exact Q2]|exact Hs].
      - split; [cbn; lia|]. split; [unfold NumOK; cbn; split; [apply NN_None|split; [apply NN_None|split; [discriminate|reflexivity]]]|].
        split; [cbn; rewrite Z.eqb_refl; discriminate|]. split; [intros j He; discriminate He|]. right. intros _ Hs. exfalso. apply Hs. reflexivity. }
    split.
    { intros kk y Hk. destruct (G _ _ Hk) as (M1 & M2 & M3 & M4 & M5). split; [exact M1|]. split; [exact M2|]. split; [|split; [|exact M5]].
      - intros id Hi. destruct (M3 _ Hi) as (I1 & _ & I3). split; [lia|]. split; [cbn; apply Z.eqb_neq; lia|exact I3].
      - intros id _ Hl. apply M4; [reflexivity|exact Hl]. }
    split; [exact H|]. split; [|exact L]. eapply ArrOK_same; [exact K|reflexivity..].
  Qed.

  Lemma sp_batch_loop : forall n j c p, sp (InvX TNone) (InvX TNone) (batch_loop cf n j c p) top.
  Proof.
    induction n as [|n IH]; intros j c p; cbn [batch_loop]; [apply sp_X; intros; apply sp_G; intros; apply Renege2.sp_ret; exact Logic.I|].
    intros s a s' (loc & cr & gc & HI) H.
    minv H u s1 E. apply Renege2.modify_inv in E. subst s1.
    minv H i s1 E. apply Renege2.gets_inv in E as [-> ->]. cbn [arr set a_created] in H.
    minv H u0 s1 E. assert (s1 = s <| arr := arr s <| a_created := a_created (arr s) + 1 |> |>) as -> by (destruct (1 <=? j); [apply Renege2.ret_inv in E as [_ ->]; reflexivity|discriminate]). clear E.
    minv H nd0 s1 E. apply Renege2.get_node_inv in E as (-> & _).
    minv H r s1 E. apply Renege2.route_of_inv in E as ->.
    minv H u1 s1 E. unfold put_ind in E. apply Renege2.modify_inv in E. subst s1.
    assert (Hcr : a_created (arr s) = cr) by apply HI. rewrite Hcr in H.
    pose proof (Inv_create loc gc cr s c p r HI) as HI1. rewrite Hcr in HI1.
    match type of H with ?m _ = _ => assert (RR : sp (InvX (TRec (cr + 1))) (InvX TNone) m top) end.
    { spb ltac:(apply sp_release_individual). intros _ _. apply IH. }
    destruct a. refine (RR _ _ _ _ H). eapply InvX_of. exact HI1.
  Qed.

  Lemma sp_arrival_have_event : sp (InvX TNone) (InvX TNone) (arrival_have_event cf) top.
  Proof.
    unfold arrival_have_event.
    spb ltac:(apply Renege2.sp_gets). intros a0 _. cbv zeta.
    spb ltac:(apply sp_X; intros; apply sp_G; intros; apply spI_draw_batch). intros b _.
    eapply Renege2.sp_bind with (phi := top) (J := InvX TNone); [destruct (b <? 0); [apply Renege2.sp_fail|apply Renege2.sp_ret; exact Logic.I]|]. intros _ _.
    spb ltac:(apply Renege2.sp_lift). intros p _.
    spb ltac:(apply sp_batch_loop). intros _ _.
    apply sp_X. intros loc cr. apply sp_G. intros gc.
    spb ltac:(apply spI_draw_arr). intros ia Hia. cbv beta in Hia.
    spb ltac:(apply spI_gets_arr). intros a' Ha'. cbv beta in Ha'.
    spb ltac:(apply Renege2.sp_lift). intros row Hrow. spb ltac:(apply Renege2.sp_lift). intros old Hold. cbv beta in Hrow, Hold.
    destruct Ha' as (A1 & _). rewrite Forall_forall in A1. pose proof (A1 _ (Renege2.nthZ_In _ _ _ Hrow)) as Hr.
    apply spI_set_dates; [exact Hr|]. rewrite Forall_forall in Hr. specialize (Hr _ (Renege2.nthZ_In _ _ _ Hold)).
    destruct old as [o|]; cbn in *; [lia|exact Logic.I].
  Qed.

  Lemma sp_have_event : sp (fun s => InvX TNone s /\ T3OK s) (InvX TNone) (Renege2.have_event cf) top.
  Proof.
    intros s a s' [(loc & cr & gc & HI) HT] H. unfold Renege2.have_event in H.
    minv H u s1 E. destruct (spI_same loc TNone None gc cr (fun s => s <| log := [] |>) ltac:(intros ?; repeat split; reflexivity) _ _ _ HI E) as [HI1 _].
    apply Renege2.modify_inv in E. subst s1.
    minv H k s1 E. apply Renege2.gets_inv in E as [-> ->].
    destruct (next_active (s <| log := [] |>) =? 0); [exact (sp_arrival_have_event _ _ _ (InvX_of _ _ _ _ _ HI1) H)|].
    apply (sp_node_have_event _ _ _ _ (conj (InvX_of _ _ _ _ _ HI1) HT) H).
  Qed.

  (* ---------- every node recomputes its next date ---------- *)
  Lemma scan_servers_spec : forall l best acc d cs, scan_servers l best acc = (d, cs) ->
    dle d best /\ Forall (fun sv => dle d (sv_next_end sv)) l /\ (d = best \/ exists sv, In sv l /\ d = sv_next_end sv).
  Proof.
    induction l as [|sv r IH]; intros best acc d cs H; cbn [scan_servers] in H.
    - inversion H. subst. split; [apply Renege2.dle_refl|split; [constructor|left; reflexivity]].
    - destruct (date_lt (sv_next_end sv) best) eqn:E1.
      + destruct (IH _ _ _ _ H) as (A & B & C). split; [eapply Renege2.dle_trans; [exact A|apply Renege2.date_lt_dle; exact E1]|]. split; [constructor; assumption|].
        right. destruct C as [->|(sv' & Hin & ->)]; [exists sv; split; [left; reflexivity|reflexivity]|exists sv'; split; [right; exact Hin|reflexivity]].
      + assert (Hb : dle best (sv_next_end sv)) by (apply Renege2.date_nlt_dle; exact E1).
        assert (G : forall acc', scan_servers r best acc' = (d, cs) ->
                    dle d best /\ Forall (fun sv0 => dle d (sv_next_end sv0)) (sv :: r) /\ (d = best \/ exists sv0, In sv0 (sv :: r) /\ d = sv_next_end sv0)).
        { intros acc' H'. destruct (IH _ _ _ _ H') as (A & B & C). split; [exact A|]. split; [constructor; [eapply Renege2.dle_trans; eauto|exact B]|].
          destruct C as [->|(sv' & Hin & ->)]; [left; reflexivity|right; exists sv'; split; [right; exact Hin|reflexivity]]. }
        destruct (date_eqb (sv_next_end sv) best && match best with Some _ => true | None => false end); eapply G; exact H.
  Qed.
  Lemma scan_inds_ge : forall q t0 il best acc d cs, scan_inds t0 q il best acc = (d, cs) -> dle (Some t0) best -> dle (Some t0) d.
  Proof.
    induction q as [|i r IH]; intros t0 il best acc d cs H Hb; cbn [scan_inds] in H.
    - inversion H. subst. exact Hb.
    - destruct (find_ind i il) as [x|]; [|eapply IH; eauto].
      destruct (i_send x) as [e|]; [|eapply IH; eauto].
      destruct (negb (i_blocked x) && (t0 <=? e)) eqn:Eg; [|eapply IH; eauto].
      apply andb_true_iff in Eg as [_ Eg]. apply Z.leb_le in Eg.
      destruct (date_lt (Some e) best); [eapply IH; [exact H|cbn; exact Eg]|].
      destruct (date_eqb (Some e) best); eapply IH; eauto.
  Qed.

  Lemma scan_inds_le : forall q t0 il best acc d cs, scan_inds t0 q il best acc = (d, cs) ->
    dle d best /\ forall i x e, In i q -> find_ind i il = Some x -> i_send x = Some e -> i_blocked x = false -> t0 <= e -> dle d (Some e).
  Proof.
    induction q as [|i r IH]; intros t0 il best acc d cs H; cbn [scan_inds] in H.
    - inversion H. subst. split; [apply Renege2.dle_refl|intros i x e []].
    - assert (Hskip : forall acc', scan_inds t0 r il best acc' = (d, cs) -> (forall x e, find_ind i il = Some x -> i_send x = Some e -> i_blocked x = false -> t0 <= e -> dle best (Some e)) ->
                dle d best /\ forall i0 x e, In i0 (i :: r) -> find_ind i0 il = Some x -> i_send x = Some e -> i_blocked x = false -> t0 <= e -> dle d (Some e)).
      { intros acc' H' Hb. destruct (IH _ _ _ _ _ _ H') as [A B]. split; [exact A|]. intros i0 x e [<-|Hi] Hx He Hbl Hle; [|eauto].
        eapply Renege2.dle_trans; [exact A|eauto]. }
      destruct (find_ind i il) as [x|] eqn:Ex; [|apply (Hskip _ H); intros x e Q; discriminate Q].
      destruct (i_send x) as [e|] eqn:Ee; [|apply (Hskip _ H); intros x0 e0 Q Q2; injection Q as <-; congruence].
      destruct (negb (i_blocked x) && (t0 <=? e)) eqn:Eg.
      2:{ apply (Hskip _ H). intros x0 e0 Q Q2 Q3 Q4. injection Q as <-. rewrite Ee in Q2. injection Q2 as <-. rewrite Q3 in Eg. cbn in Eg. apply Z.leb_gt in Eg. lia. }
      destruct (date_lt (Some e) best) eqn:E1.
      + destruct (IH _ _ _ _ _ _ H) as [A B]. split; [eapply Renege2.dle_trans; [exact A|apply Renege2.date_lt_dle; exact E1]|].
        intros i0 x0 e0 [<-|Hi] Hx He Hbl Hle; [|eauto]. rewrite Ex in Hx. injection Hx as <-. rewrite Ee in He. injection He as <-. exact A.
      + assert (Hb : dle best (Some e)) by (apply Renege2.date_nlt_dle; exact E1).
        destruct (date_eqb (Some e) best); apply (Hskip _ H); intros x0 e0 Q Q2 _ _; injection Q as <-; rewrite Ee in Q2; injection Q2 as <-; exact Hb.
  Qed.

  (* what update_next_event_date leaves on a node (il = the customers at that time): its next date is not before the clock
     and not after any of the dates the node carries *)
  Definition Fresh (il : list ind) (nd : node) : Prop :=
    dle (Some t) (n_next_date nd) /\
    exists nc, ncf (n_id nd) = Some nc /\
      ((nd_inf nd = false -> nc_slotted nc = false -> Forall (fun sv => dle (n_next_date nd) (sv_next_end sv)) (n_servers nd)) /\
       (nc_slotted nc = true -> forall i x e, In i (all_individuals nd) -> find_ind i il = Some x -> i_send x = Some e -> i_blocked x = false -> t <= e ->
          dle (n_next_date nd) (Some e))) /\
      match nc_srv nc with
      | SFixed => True
      | SSched _ => dle (n_next_date nd) (n_next_shift nd)
      | SSlot sl => dle (n_next_date nd) (Some (slotdate sl (Z.to_nat (n_spos nd))))
      end /\
      (nd_inf nd = false -> nc_reneging nc = true ->
         forall i z, In i (all_individuals nd) -> Renege2.waiting_at il i z -> dle (n_next_date nd) (Some z)) /\
      (cf_dyn cf = true -> nd_inf nd = false -> dle (n_next_date nd) (n_nccd nd)) /\
      (n_next_type nd = 3 -> cf_dyn cf = true /\ nd_inf nd = false /\ n_next_inds nd = match n_ncci nd with Some i => [i] | None => [] end).

  Lemma une_spec loc gc cr j s s' : Inv loc TNone None gc cr s -> update_next_event_date cf j s = Ok (tt, s') ->
    exists nd d l ty, 1 <= j /\ nthZ (nodes s) (j - 1) = Some nd /\ n_id nd = j /\
      s' = s <| nodes := updZ (nodes s) (n_id nd - 1) (nd <| n_next_date := d |> <| n_next_inds := l |> <| n_next_type := ty |>) |> /\
      Fresh (inds s) (nd <| n_next_date := d |> <| n_next_inds := l |> <| n_next_type := ty |>).
  Proof.
    intros HI H. unfold update_next_event_date in H.
    minv H nd s1 E1. apply Renege2.get_node_inv in E1 as (-> & Hj & Hn).
    minv H nc s1 E2. apply Renege2.ncfg_of_inv in E2 as [-> Hc].
    minv H t0 s1 E3. apply Renege2.tnow_inv in E3 as [-> ->].
    minv H il s1 E4. apply Renege2.gets_inv in E4 as [-> ->].
    cbv zeta in H.
    pose proof HI as (Hnow & _ & _ & HX & HND & HF & HG & _).
    pose proof (Renege2.Idx_get _ _ _ HX Hj Hn) as Hid. destruct (Renege2.nthZ_nat _ _ _ Hn) as [_ Hn'].
    pose proof (HG _ _ Hn') as (N1 & N2 & N3 & N4 & (T0 & TC & N5)).
    rewrite Hid in N5. unfold ncf in N5. rewrite Hc in N5. destruct N5 as [T1 T2].
    set (es := if nc_slotted nc || nd_inf nd then scan_inds (now s) (all_individuals nd) (inds s) None [] else scan_servers (n_servers nd) None []) in H.
    (* the end-of-service candidate *)
    assert (Hes : dle (Some t) (fst es) /\ (nd_inf nd = false -> nc_slotted nc = false -> Forall (fun sv => dle (fst es) (sv_next_end sv)) (n_servers nd)) /\
                  (nc_slotted nc = true -> forall i x e, In i (all_individuals nd) -> find_ind i (inds s) = Some x -> i_send x = Some e -> i_blocked x = false -> t <= e ->
                     dle (fst es) (Some e))).
    { unfold es. destruct (nc_slotted nc || nd_inf nd) eqn:Eb.
      - destruct (scan_inds (now s) (all_individuals nd) (inds s) None []) as [d0 l0] eqn:Es. cbn [fst].
        split; [rewrite <- Hnow; eapply scan_inds_ge; [exact Es|exact Logic.I]|]. split; [intros Hi Hs; rewrite Hi, Hs in Eb; discriminate|].
        intros _. rewrite Hnow in Es. destruct (scan_inds_le _ _ _ _ _ _ _ Es) as [_ B]. exact B.
      - apply orb_false_iff in Eb as [Eb1 Eb2]. destruct (scan_servers (n_servers nd) None []) as [d0 l0] eqn:Es. cbn [fst].
        destruct (scan_servers_spec _ _ _ _ _ Es) as (_ & B & C). split; [|split; [intros _ _; exact B|intros Q; congruence]].
        destruct C as [->|(sv & Hin & ->)]; [exact Logic.I|]. specialize (T1 Eb2 Eb1). rewrite Forall_forall in T1. apply (T1 sv Hin). }
    destruct Hes as (Hes1 & Hes2 & Hes3).
    minv H rn s1 E5.
    assert (Hrn : s1 = s /\ dle (Some t) (fst rn) /\
                  (nd_inf nd = false -> nc_reneging nc = true -> forall i z, In i (all_individuals nd) -> Renege2.waiting_at (inds s) i z -> dle (fst rn) (Some z)) /\
                  (nc_reneging nc = false -> fst rn = None)).
    { destruct (negb (nd_inf nd) && nc_reneging nc) eqn:Eb.
      - apply Renege2.lift_inv in E5 as [E5 ->]. split; [reflexivity|]. apply andb_true_iff in Eb as [Eb1 Eb2]. apply negb_true_iff in Eb1.
        destruct rn as [rd rl]. destruct (Renege2.scan_ren_min _ _ _ _ E5) as (_ & G2 & G3 & G4 & _). cbn [fst]. split; [|split; [intros _ _; exact G2|intros Hr; rewrite Eb2 in Hr; discriminate]].
        destruct rd as [z0|]; [|exact Logic.I]. destruct rl as [|i rl]; [exfalso; apply G4; [discriminate|reflexivity]|].
        destruct (G3 i (or_introl eq_refl)) as (Hq & z & (x & Hx & Hxr & Hxs) & Hz). injection Hz as <-.
        destruct (N3 _ Hq) as (_ & _ & Hl). rewrite Forall_forall in HF. destruct (HF x (Renege2.find_ind_In _ _ _ Hx)) as (_ & _ & XC & _).
        destruct (XC eq_refl) as [(j' & Hj' & Hl') [HP _]]. rewrite (Renege2.find_ind_id _ _ _ Hx), Hl in Hl'. injection Hl' as <-.
        cbn. apply (HP (n_id nd) z0 Hj'); [unfold ren_at, ncf; rewrite Hid, Hc; exact Eb2|rewrite <- N1; exact Eb1|exact Hxr|exact Hxs].
      - apply Renege2.ret_inv in E5 as [-> ->]. split; [reflexivity|]. split; [exact Logic.I|]. split; [|reflexivity]. intros Hi Hr. rewrite Hi, Hr in Eb. discriminate. }
    destruct Hrn as (-> & Hrn1 & Hrn2 & Hrn3). clear E5.
    set (cc := if cf_dyn cf && negb (nd_inf nd) then (n_nccd nd, match n_ncci nd with Some i => [i] | None => [] end) else (None, [])) in H.
    assert (Hcc : dle (Some t) (fst cc) /\ (cf_dyn cf = true -> nd_inf nd = false -> cc = (n_nccd nd, match n_ncci nd with Some i => [i] | None => [] end)) /\
                  (forall z, fst cc = Some z -> cf_dyn cf = true /\ nd_inf nd = false)).
    { unfold cc. destruct (cf_dyn cf) eqn:Hd; [destruct (nd_inf nd) eqn:Hi|]; cbn [andb negb fst].
      - split; [exact Logic.I|]. split; [intros _ Q; discriminate Q|intros z Q; discriminate Q].
      - split; [destruct (TC eq_refl) as [_ TC2]; destruct (TC2 eq_refl) as [TC3 _]; exact TC3|]. split; [auto|auto].
      - split; [exact Logic.I|]. split; [intros Q; discriminate Q|intros z Q; discriminate Q]. }
    destruct Hcc as (Hcc1 & Hcc2 & Hcc3).
    set (sh := match nc_srv nc with
               | SSched _ => [(1, (n_next_shift nd, []))]
               | SSlot sl => [(4, (Some (snd (slot_values sl (Z.to_nat (n_spos nd)))), []))]
               | SFixed => [] end) in H.
    assert (Hgen : forall d l ty, dle (Some t) d -> dle d (fst es) -> dle d (fst rn) ->
                     match nc_srv nc with SFixed => True | SSched _ => dle d (n_next_shift nd)
                                     | SSlot sl => dle d (Some (slotdate sl (Z.to_nat (n_spos nd)))) end ->
                     (cf_dyn cf = true -> nd_inf nd = false -> dle d (n_nccd nd)) ->
                     (ty = 3 -> cf_dyn cf = true /\ nd_inf nd = false /\ l = match n_ncci nd with Some i => [i] | None => [] end) ->
                     Fresh (inds s) (nd <| n_next_date := d |> <| n_next_inds := l |> <| n_next_type := ty |>)).
    { intros d l ty G1 G2 G3 G4 G5 G6. unfold Fresh. cbn [n_next_date n_next_inds n_next_type n_id n_servers n_next_shift n_spos n_nccd n_ncci set]. split; [exact G1|].
      exists nc. split; [unfold ncf; rewrite Hid; exact Hc|]. split; [|split; [exact G4|split; [|split; [exact G5|exact G6]]]].
      - split.
        + intros Hi Hs. specialize (Hes2 Hi Hs). eapply Forall_impl; [|exact Hes2]. intros sv Hsv. eapply Renege2.dle_trans; [exact G2|exact Hsv].
        + intros Hs i x e Hq Hx He Hbl Hle. eapply Renege2.dle_trans; [exact G2|]. exact (Hes3 Hs i x e Hq Hx He Hbl Hle).
      - intros Hi Hr i z Hq Hw. eapply Renege2.dle_trans; [exact G3|]. exact (Hrn2 Hi Hr i z Hq Hw). }
    destruct (nc_reneging nc || cf_dyn cf || nc_sched nc) eqn:Eg.
    - destruct (decide_next_event (sh ++ [(0, es); (3, cc); (2, rn)]) (5, (None, []))) as [ty [d l]] eqn:ED.
      unfold put_node in H. apply Renege2.modify_inv in H. exists nd, d, l, ty. repeat (split; [assumption|]).
      pose proof (Renege2.dne_spec (sh ++ [(0, es); (3, cc); (2, rn)]) (5, (None, []))) as DS. cbv zeta in DS. rewrite ED in DS. cbn [fst snd] in DS.
      destruct DS as (DA & _ & DC). rewrite Forall_forall in DC.
      assert (Hall : forall c, In c (sh ++ [(0, es); (3, cc); (2, rn)]) -> dle (Some t) (fst (snd c))).
      { intros c Hin. apply in_app_or in Hin as [Hin|Hin].
        - unfold sh in Hin. destruct (nc_srv nc) as [|sc|sl]; [destruct Hin| |]; destruct Hin as [<-|[]]; cbn [fst snd].
          + destruct T2 as (_ & -> & T2). exact T2.
          + destruct T2 as (_ & T2). exact T2.
        - destruct Hin as [<-|[<-|[<-|[]]]]; cbn [fst snd]; [exact Hes1|exact Hcc1|exact Hrn1]. }
      apply Hgen.
      + destruct DA as [DA|(DA & _)]; [injection DA as _ -> _; exact Logic.I|]. apply (Hall _ DA).
      + apply (DC (0, es)). apply in_or_app. right. left. reflexivity.
      + apply (DC (2, rn)). apply in_or_app. right. right. right. left. reflexivity.
      + unfold sh in DC. destruct (nc_srv nc) as [|sc|sl]; [exact Logic.I| |].
        * apply (DC (1, (n_next_shift nd, []))). left. reflexivity.
        * apply (DC (4, (Some (snd (slot_values sl (Z.to_nat (n_spos nd)))), []))). left. reflexivity.
      + intros Hd Hi. specialize (DC (3, cc)). rewrite (Hcc2 Hd Hi) in DC. apply DC. apply in_or_app. right. right. left. reflexivity.
      + intros ->. destruct DA as [DA|(DA & z & Hz)]; [discriminate DA|].
        assert (E3 : (d, l) = cc).
        { apply in_app_or in DA as [DA|DA].
          - exfalso. unfold sh in DA. destruct (nc_srv nc); [destruct DA|destruct DA as [DA|[]]; discriminate DA|destruct DA as [DA|[]]; discriminate DA].
          - destruct DA as [DA|[DA|[DA|[]]]]; [discriminate DA|injection DA as <-; reflexivity|discriminate DA]. }
        assert (Hz' : fst cc = Some z) by (rewrite <- E3; exact Hz). destruct (Hcc3 _ Hz') as [Hd Hi]. split; [exact Hd|]. split; [exact Hi|].
        rewrite (Hcc2 Hd Hi) in E3. injection E3 as _ ->. reflexivity.
    - unfold put_node in H. apply Renege2.modify_inv in H. exists nd, (fst es), (snd es), 0. repeat (split; [assumption|]).
      apply orb_false_iff in Eg as [Eg Eg3]. apply orb_false_iff in Eg as [Eg1 Eg2].
      apply Hgen; [exact Hes1|apply Renege2.dle_refl| | | |].
      + rewrite (Hrn3 Eg1). destruct (fst es); exact Logic.I.
      + unfold nc_sched in Eg3. destruct (nc_srv nc); [exact Logic.I|discriminate|discriminate].
      + intros Hd. congruence.
      + intros Q. discriminate Q.
  Qed.

  Lemma map_upd_same {A B} (f : A -> B) : forall (l : list A) k x y, nth_error l k = Some y -> f x = f y -> map f (upd l k x) = map f l.
  Proof. induction l as [|a l IH]; intros [|k] x y H E; cbn in *; try discriminate; [injection H as ->; rewrite E; reflexivity|f_equal; eauto]. Qed.

  Definition U (P : Z -> Prop) (s : sim) : Prop := forall k nd, nth_error (nodes s) k = Some nd -> P (n_id nd) -> Fresh (inds s) nd.

  Lemma une_keeps loc gc cr j P s s' : Inv loc TNone None gc cr s -> U P s -> update_next_event_date cf j s = Ok (tt, s') ->
    Inv loc TNone None gc cr s' /\ U (fun x => x = j \/ P x) s' /\ map n_id (nodes s') = map n_id (nodes s).
  Proof.
    intros HI HU H. destruct (une_spec _ _ _ _ _ _ HI H) as (nd & d & l & ty & Hj & Hn & Hid & -> & HF).
    set (nd' := nd <| n_next_date := d |> <| n_next_inds := l |> <| n_next_type := ty |>) in *.
    pose proof HI as (_ & _ & _ & HX & _ & _ & HG & _). destruct (Renege2.nthZ_nat _ _ _ Hn) as [Hj0 Hn'].
    assert (Hok : NodeOK loc TNone None gc cr nd') by (apply (NodeOK_nrel _ _ _ _ _ nd _ (HG _ _ Hn')); try reflexivity; intros HS; exact HS).
    split; [change (n_id nd) with (n_id nd'); apply Inv_put_node; assumption|]. cbn [nodes inds set].
    rewrite Hid. unfold updZ. destruct (j - 1 <? 0) eqn:Ej; [apply Z.ltb_lt in Ej; lia|]. split.
    - intros k x Hk HPx. cbn [nodes inds set] in Hk |- *.
      destruct (Renege2.nth_error_upd_cases _ _ _ _ _ Hk) as [[-> ->]|[Hne Hk']]; [exact HF|].
      apply (HU k x Hk'). destruct HPx as [HPx|HPx]; [|exact HPx]. exfalso. apply Hne. pose proof (HX _ _ Hk'). lia.
    - eapply map_upd_same; [exact Hn'|reflexivity].
  Qed.

  Lemma update_all_keeps loc gc cr : forall js P s s', Inv loc TNone None gc cr s -> U P s -> update_all cf js s = Ok (tt, s') ->
    Inv loc TNone None gc cr s' /\ U (fun x => In x js \/ P x) s' /\ map n_id (nodes s') = map n_id (nodes s).
  Proof.
    induction js as [|j r IH]; intros P s s' HI HU H; cbn [update_all] in H.
    - apply Renege2.ret_inv in H as [_ ->]. split; [exact HI|split; [|reflexivity]]. intros k nd Hk [[]|Hp]. eapply HU; eauto.
    - minv H u s1 E. destruct u. destruct (une_keeps _ _ _ _ _ _ _ HI HU E) as (K1 & U1 & M1).
      destruct (IH _ _ _ K1 U1 H) as (K2 & U2 & M2). split; [exact K2|split; [|congruence]].
      intros k nd Hk Hp. apply (U2 k nd Hk). destruct Hp as [[<-|Hp]|Hp]; auto.
  Qed.

  (* one event up to the choice of the next active node *)
  Lemma event_body_keeps s s2 : InvX TNone s -> T3OK s -> Renege2.have_event cf s = Ok (tt, s2) ->
    forall s3, update_all cf (map n_id (nodes s2)) s2 = Ok (tt, s3) ->
    exists loc gc cr, Inv loc TNone None gc cr s3 /\ forall k nd, nth_error (nodes s3) k = Some nd -> Fresh (inds s3) nd.
  Proof.
    intros HI HT E1 s3 E2. destruct (sp_have_event _ _ _ (conj HI HT) E1) as [(loc & cr & gc & HI2) _].
    destruct (update_all_keeps loc gc cr _ (fun _ => False) _ _ HI2 ltac:(intros k nd _ []) E2) as (K3 & U3 & M3).
    exists loc, gc, cr. split; [exact K3|]. intros k nd Hk. apply (U3 k nd Hk). left. rewrite <- M3. apply in_map. eapply nth_error_In; eauto.
  Qed.
End Clock2r.

(* ================================================================================================================ *)
(* from one event to the next                                                                                       *)
(* ================================================================================================================ *)
Definition dates_of (s : sim) : list (option Z) := a_next_date (arr s) :: map n_next_date (nodes s).
(* no node's next event is in the past *)
Definition Nxt (s : sim) : Prop := forall nd, In nd (nodes s) -> dle (Some (now s)) (n_next_date nd).
(* the active node's date is the clock (or nothing at all is scheduled) *)
Definition Act (s : sim) : Prop :=
  0 <= next_active s /\
  exists d, nth_error (dates_of s) (Z.to_nat (next_active s)) = Some d /\
            (d = Some (now s) \/ (d = None /\ Forall (fun x => x = None) (dates_of s))).

Lemma dle_None a : dle None a -> a = None.
Proof. destruct a; cbn; [tauto|reflexivity]. Qed.

(* find_next_active_node: the clock moves to the earliest of all next dates, the active node is one that attains it *)
Lemma fnan_spec s s' : find_next_active_node s = Ok (tt, s') ->
  nodes s' = nodes s /\ inds s' = inds s /\ arr s' = arr s /\
  (d_svc (dr s') = d_svc (dr s) /\ d_arr (dr s') = d_arr (dr s) /\ d_ren (dr s') = d_ren (dr s) /\ d_cct (dr s') = d_cct (dr s)) /\
  exists d, now s' = (match d with Some e => e | None => now s end) /\ Forall (dle d) (dates_of s) /\
            0 <= next_active s' /\ nth_error (dates_of s) (Z.to_nat (next_active s')) = Some d.
Proof.
  intros H. unfold find_next_active_node in H. minv H s0 s1 E. apply Renege2.gets_inv in E as [-> ->]. cbv zeta in H.
  fold (dates_of s) in H.
  destruct (scan_active 0 (dates_of s) None []) as [d cands] eqn:ES.
  destruct (Renege2.scan_active_spec _ _ _ _ _ _ ES) as (_ & SB & SC).
  minv H k s1 E.
  assert (Hk : In k cands /\ nodes s1 = nodes s /\ inds s1 = inds s /\ arr s1 = arr s /\ now s1 = now s /\
               (d_svc (dr s1) = d_svc (dr s) /\ d_arr (dr s1) = d_arr (dr s) /\ d_ren (dr s1) = d_ren (dr s) /\ d_cct (dr s1) = d_cct (dr s))).
  { destruct cands as [|a [|b r]].
    - discriminate.
    - apply Renege2.ret_inv in E as [-> ->]. split; [left; reflexivity|repeat split; reflexivity].
    - apply Renege2.choice_uniform_inv in E as (Hin & u & rest & _ & ->). split; [exact Hin|repeat split; reflexivity]. }
  destruct Hk as (Hk & K1 & K2 & K3 & K4 & K5).
  apply Renege2.modify_inv in H. subst s'. cbn [nodes inds arr dr now next_active set]. rewrite K1, K2, K3, K4. repeat (split; [first [reflexivity|exact K5]|]).
  exists d. split; [reflexivity|]. split; [exact SB|].
  destruct (SC k Hk) as [[[] _]|(n & -> & Hn)]. split; [lia|]. replace (Z.to_nat (0 + Z.of_nat n)) with n by lia. exact Hn.
Qed.

Lemma ArrOK_next t a : ArrOK t a -> dle (Some t) (a_next_date a).
Proof.
  intros (A & _ & [->|(row & Hr & Hc)]); [exact I|].
  apply Renege2.nthZ_In in Hr. apply Renege2.nthZ_In in Hc. rewrite Forall_forall in A. specialize (A _ Hr). rewrite Forall_forall in A. apply (A _ Hc).
Qed.

Lemma Inv_now cf inf_at t nn loc gc cr s2 s' : Inv cf inf_at t nn loc TNone None gc cr s2 ->
  (forall k nd, nth_error (nodes s2) k = Some nd -> Fresh cf t (inds s2) nd) ->
  find_next_active_node s2 = Ok (tt, s') ->
  Inv cf inf_at (now s') nn loc TNone None gc cr s' /\ t <= now s' /\ Nxt s' /\ Act s' /\ T3OK cf s'.
Proof.
  intros (A & B & C & D0 & E & F & G & H & K & L) HU HF.
  destruct (fnan_spec _ _ HF) as (N1 & N2 & N3 & N4 & d & Hnow & Hall & Hact0 & Hnth).
  rewrite Forall_forall in F, Hall.
  assert (Hds : forall x, In x (dates_of s2) -> dle (Some t) x).
  { intros x [<-|Hx]; [apply ArrOK_next; exact K|]. apply in_map_iff in Hx as (nd & <- & Hin). apply In_nth_error in Hin as [k Hk]. apply (HU k nd Hk). }
  set (t' := now s') in *.
  assert (GG : forall x, In x (dates_of s2) -> dle (Some t') x).
  { intros x Hx. specialize (Hall x Hx). rewrite Hnow. destruct d as [e|]; [exact Hall|]. apply dle_None in Hall. subst x. exact I. }
  assert (Ht : t <= t').
  { specialize (Hds d (nth_error_In _ _ Hnth)). rewrite Hnow. destruct d as [e|]; [exact Hds|lia]. }
  assert (Gn : forall k nd, nth_error (nodes s2) k = Some nd -> dle (Some t') (n_next_date nd)).
  { intros k nd Hk. apply GG. right. apply in_map. eapply nth_error_In; eauto. }
  (* every waiting customer of a finite node with reneging bounds that node's next date, hence the new clock *)
  assert (Bound : forall y j z, In y (inds s2) -> i_node y = Some j -> loc (i_id y) = Some j -> ren_at cf j = true -> inf_at j = false ->
                    i_ren y = XV z -> i_server y = None -> t' <= z).
  { intros y j z Hy Hj Hl Hr Hi Hz Hs.
    destruct (H _ _ Hl) as [Hj1 Hj2].
    destruct (nth_error (nodes s2) (Z.to_nat (j - 1))) as [nd|] eqn:Hk; [|apply nth_error_None in Hk; lia].
    pose proof (D0 _ _ Hk) as Hid. destruct (G _ _ Hk) as (M1 & M2 & M3 & M4 & M5).
    assert (Hidj : n_id nd = j) by lia.
    assert (Hin : In (i_id y) (all_individuals nd)) by (apply M4; [reflexivity|rewrite Hidj; exact Hl]).
    destruct (HU _ _ Hk) as (_ & nc & Hc & _ & _ & HR & _). rewrite Hidj in Hc.
    unfold ren_at in Hr. rewrite Hc in Hr.
    assert (Hw : Renege2.waiting_at (inds s2) (i_id y) z) by (exists y; split; [apply Renege2.find_ind_NoDup; assumption|auto]).
    assert (Hdz : dle (n_next_date nd) (Some z)) by (apply (HR ltac:(rewrite M1, Hidj; exact Hi) Hr _ _ Hin Hw)).
    pose proof (Renege2.dle_trans _ _ _ (Gn _ _ Hk) Hdz) as Hfin. exact Hfin. }
  (* ... and so does every waiting customer with a class-change date, through its node's next_class_change_date *)
  assert (BoundC : cf_dyn cf = true -> forall y j z, In y (inds s2) -> i_node y = Some j -> loc (i_id y) = Some j -> inf_at j = false ->
                    dle (fst (gc j)) (Some z) -> t' <= z).
  { intros Hd y j z Hy Hj Hl Hi Hz.
    destruct (H _ _ Hl) as [Hj1 Hj2].
    destruct (nth_error (nodes s2) (Z.to_nat (j - 1))) as [nd|] eqn:Hk; [|apply nth_error_None in Hk; lia].
    pose proof (D0 _ _ Hk) as Hid. destruct (G _ _ Hk) as (M1 & M2 & M3 & M4 & (T0 & T1 & _)).
    assert (Hidj : n_id nd = j) by lia. destruct (T1 Hd) as [T3 _]. rewrite Hidj in T3. rewrite <- T3 in Hz. cbn [fst] in Hz.
    destruct (HU _ _ Hk) as (_ & nc & Hc & _ & _ & _ & HCC & _).
    pose proof (HCC Hd ltac:(rewrite M1, Hidj; exact Hi)) as Hnc.
    exact (Renege2.dle_trans _ _ _ (Gn _ _ Hk) (Renege2.dle_trans _ _ _ Hnc Hz)). }
  (* ... and every customer of a slotted node whose end date has not passed, through the node's scan of its customers *)
  assert (BoundS : forall y j e, In y (inds s2) -> i_node y = Some j -> loc (i_id y) = Some j -> slot_at cf j = true -> i_send y = Some e ->
                     i_blocked y = false -> t <= e -> t' <= e).
  { intros y j e Hy Hj Hl Hs He Hb Hle. destruct (H _ _ Hl) as [Hj1 Hj2].
    destruct (nth_error (nodes s2) (Z.to_nat (j - 1))) as [nd|] eqn:Hk; [|apply nth_error_None in Hk; lia].
    pose proof (D0 _ _ Hk) as Hid. destruct (G _ _ Hk) as (M1 & M2 & M3 & M4 & M5). assert (Hidj : n_id nd = j) by lia.
    assert (Hin : In (i_id y) (all_individuals nd)) by (apply M4; [reflexivity|rewrite Hidj; exact Hl]).
    destruct (HU _ _ Hk) as (_ & nc & Hc & [_ HSl] & _). rewrite Hidj in Hc. unfold slot_at in Hs. rewrite Hc in Hs.
    pose proof (HSl Hs (i_id y) y e Hin (Renege2.find_ind_NoDup _ _ E Hy) He Hb Hle) as Hdz.
    exact (Renege2.dle_trans _ _ _ (Gn _ _ Hk) Hdz). }
  split; [|split; [exact Ht|split; [|split]]].
  - unfold Inv. split; [reflexivity|]. split; [rewrite N3; exact B|]. split; [rewrite N1; exact C|]. split; [unfold Idx; rewrite N1; exact D0|].
    split; [rewrite N2; exact E|]. split; [|split; [|split; [exact H|split]]].
    + rewrite N2. apply Forall_forall. intros y Hy. destruct (F y Hy) as (YA & YB & YC & YD & YE). split; [exact YA|]. split; [exact YB|]. split; [|split; [exact YD|]].
      2:{ destruct YE as [(j0 & Q)|YE]; [discriminate Q|right]. intros [Q|[Q1 (j & Hj & Hs)]] Hst; [discriminate Q|].
          destruct (YE (or_intror (conj Q1 (ex_intro _ j (conj Hj Hs)))) Hst) as (e & He & Hle). exists e. split; [exact He|].
          destruct (YC Q1) as [(j2 & Hj2 & Hl2) _]. rewrite Hj in Hj2. injection Hj2 as <-. destruct YB as (_ & _ & _ & Hb). eapply BoundS; eauto. }
      intros Ho. destruct (YC Ho) as [(j & Hj & Hl) [HP HQ]]. split; [exists j; auto|]. split.
      * intros j' z Hj' Hr Hi Hz Hs. rewrite Hj in Hj'. injection Hj' as <-. eapply Bound; eauto.
      * intros Hd j' Hj' Hi. destruct (HQ Hd j' Hj' Hi) as [Ca Cb]. split; [|exact Cb].
        intros Hs z Hz. destruct (Ca Hs z Hz) as [Q|[Q1 Q2]]; [discriminate Q|]. right. split; [|exact Q2].
        rewrite Hj in Hj'. injection Hj' as <-. eapply BoundC; eauto.
    + rewrite N1. intros k nd Hk. destruct (G _ _ Hk) as (M1 & M2 & M3 & M4 & (T0 & TC & M5)). split; [exact M1|]. split; [exact M2|]. split; [exact M3|]. split; [exact M4|].
      destruct (HU _ _ Hk) as (_ & nc & Hc & [HS _] & HT & _ & HCC & _). split; [exact T0|]. split.
      { intros Hd. destruct (TC Hd) as [TC1 TC2]. split; [exact TC1|]. intros Hi. destruct (TC2 Hi) as [TC3 TC4]. split; [|exact TC4].
        exact (Renege2.dle_trans _ _ _ (Gn _ _ Hk) (HCC Hd Hi)). }
      rewrite Hc in *. destruct M5 as [T1 T2]. split.
      * intros Hi Hs. specialize (HS Hi Hs). eapply Forall_impl; [|exact HS]. intros sv Hsv. unfold SvOK. eapply Renege2.dle_trans; [apply (Gn _ _ Hk)|exact Hsv].
      * destruct (nc_srv nc) as [|sc|sl]; [exact I| |].
        -- destruct T2 as (T2 & T3 & T4). split; [exact T2|]. split; [exact T3|]. rewrite T3 in HT. exact (Renege2.dle_trans _ _ _ (Gn _ _ Hk) HT).
        -- destruct T2 as (T2 & T3). split; [exact T2|]. exact (Renege2.dle_trans _ _ _ (Gn _ _ Hk) HT).
    + rewrite N3. destruct K as (K1 & K2 & K3). split; [|split; [exact K2|exact K3]].
      eapply Forall_impl; [|exact K2]. intros row Hrow. eapply Forall_impl; [|exact Hrow]. intros x Hx.
      eapply Renege2.dle_trans; [|exact Hx]. apply GG. left. reflexivity.
    + destruct L as (L1 & L2 & L3 & L4). destruct N4 as (E1 & E2 & E3 & E4). unfold DrawsOK. rewrite E1, E2, E3, E4. auto.
  - intros nd Hin. rewrite N1 in Hin. apply GG. right. apply in_map. exact Hin.
  - assert (Hdates : dates_of s' = dates_of s2) by (unfold dates_of; rewrite N1, N3; reflexivity).
    unfold Act. rewrite Hdates. split; [exact Hact0|]. exists d. split; [exact Hnth|].
    fold t'. rewrite Hnow. destruct d as [e|]; [left; reflexivity|right; split; [reflexivity|]].
    apply Forall_forall. intros x Hx. apply dle_None. apply Hall. exact Hx.
  - intros Hd j nd Hn Hty. rewrite N1 in Hn. destruct (Renege2.nthZ_nat _ _ _ Hn) as [_ Hn']. destruct (HU _ _ Hn') as (_ & nc & _ & _ & _ & _ & _ & H3).
    destruct (H3 Hty) as (_ & Q2 & Q3). auto.
Qed.

(* ================================================================================================================ *)
(* the invariant between events, closed form                                                                        *)
(* ================================================================================================================ *)
(* the class-change bookkeeping the nodes hold *)
Definition gc_q (s : sim) (j : Z) : option Z * option Z :=
  match nthZ (nodes s) (j - 1) with Some nd => (n_nccd nd, n_ncci nd) | None => (None, None) end.

Lemma Inv_ext cf inf_at inf_at' t nn loc loc' gc gc' tr cr s :
  (forall id, loc' id = loc id) -> (forall j, 1 <= j <= Z.of_nat nn -> inf_at' j = inf_at j) ->
  (cf_dyn cf = true -> forall j, 1 <= j <= Z.of_nat nn -> gc' j = gc j) ->
  Inv cf inf_at t nn loc tr None gc cr s -> Inv cf inf_at' t nn loc' tr None gc' cr s.
Proof.
  intros HL HF HG (A & B & C & D0 & E & F & G & H & K & L). unfold Inv. repeat (split; [assumption|]). split; [|split; [|split; [|auto]]].
  - eapply Forall_impl; [|exact F]. intros y (YA & YB & YC & YD & YE). split; [exact YA|]. split; [exact YB|]. split; [|split; [intros j He; discriminate He|exact YE]].
    intros Ho. destruct (YC Ho) as [(j & Hj & Hl) [HP HQ]]. pose proof (H _ _ Hl) as Hjr. split; [exists j; rewrite HL; auto|]. split.
    + intros j' z Hj' Hr Hi. apply (HP j' z Hj' Hr). rewrite <- HF; [exact Hi|]. rewrite Hj in Hj'. injection Hj' as <-. exact Hjr.
    + intros Hd j' Hj' Hi. rewrite Hj in Hj'. injection Hj' as <-. rewrite HF in Hi by exact Hjr. unfold CCI. rewrite (HG Hd j Hjr). exact (HQ Hd j Hj Hi).
  - intros k nd Hk. destruct (G _ _ Hk) as (M1 & M2 & M3 & M4 & (T0 & T1 & T2)). pose proof (D0 _ _ Hk) as Hid.
    assert (Hlt : (k < length (nodes s))%nat) by (apply nth_error_Some; rewrite Hk; discriminate).
    split; [rewrite HF; [exact M1|lia]|]. split; [exact M2|]. split; [|split; [|split; [exact T0|split; [|exact T2]]]].
    + intros id Hi. rewrite HL. apply M3. exact Hi.
    + intros id Ho Hl. rewrite HL in Hl. apply M4; assumption.
    + intros Hd. rewrite (HG Hd) by lia. exact (T1 Hd).
  - intros id j Hl. rewrite HL in Hl. eapply H; eauto.
Qed.

Lemma Inv_canon cf inf_at t nn loc gc cr s : Inv cf inf_at t nn loc TNone None gc cr s ->
  (forall j nc sc, nthZ (cf_nodes cf) (j - 1) = Some nc -> nc_srv nc = SSched sc -> inf_at j = false) ->
  Inv cf (Renege2.inf_of s) t (length (nodes s)) (Renege2.loc_q s) TNone None (gc_q s) (a_created (arr s)) s /\ Renege2.sched_fin cf s.
Proof.
  intros HI Hsch. pose proof HI as (A & B & C & D0 & E & F & G & H & K & L).
  assert (Hinf : forall j, 1 <= j <= Z.of_nat nn -> Renege2.inf_of s j = inf_at j).
  { intros j Hj. unfold Renege2.inf_of, nthZ. destruct (j - 1 <? 0) eqn:Ej; [apply Z.ltb_lt in Ej; lia|].
    destruct (nth_error (nodes s) (Z.to_nat (j - 1))) as [nd|] eqn:Hk; [|apply nth_error_None in Hk; lia].
    destruct (G _ _ Hk) as (M1 & _). rewrite M1. f_equal. rewrite (D0 _ _ Hk). lia. }
  split.
  - rewrite B, C. apply (Inv_ext cf inf_at (Renege2.inf_of s) t nn loc (Renege2.loc_q s) gc (gc_q s)); [|exact Hinf| |exact HI].
    + intros id. unfold Renege2.loc_q. destruct (Renege2.find_q (nodes s) id) as [j|] eqn:Eq.
      * destruct (Renege2.find_q_Some _ _ _ Eq) as (nd & Hin & Hid & Hi). apply In_nth_error in Hin as [k Hk]. destruct (G _ _ Hk) as (_ & _ & M3 & _).
        destruct (M3 _ Hi) as (_ & _ & Hl). rewrite Hl, Hid. reflexivity.
      * destruct (loc id) as [j|] eqn:El; [|reflexivity]. exfalso. destruct (H _ _ El) as [Hj1 Hj2].
        destruct (nth_error (nodes s) (Z.to_nat (j - 1))) as [nd|] eqn:Hk; [|apply nth_error_None in Hk; lia].
        destruct (G _ _ Hk) as (_ & _ & _ & M4 & _). apply (Renege2.find_q_None _ _ Eq nd (nth_error_In _ _ Hk)). apply M4; [reflexivity|]. rewrite El, (D0 _ _ Hk). f_equal. lia.
    + intros Hd j Hj. unfold gc_q, nthZ. destruct (j - 1 <? 0) eqn:Ej; [apply Z.ltb_lt in Ej; lia|].
      destruct (nth_error (nodes s) (Z.to_nat (j - 1))) as [nd|] eqn:Hk; [|apply nth_error_None in Hk; lia].
      destruct (G _ _ Hk) as (_ & _ & _ & _ & (_ & T1 & _)). destruct (T1 Hd) as [T3 _]. rewrite T3. f_equal. rewrite (D0 _ _ Hk). lia.
  - intros j nc sc Hc Hs. destruct (Z_le_dec 1 j) as [Hj1|Hj1]; [destruct (Z_le_dec j (Z.of_nat nn)) as [Hj2|Hj2]|].
    + rewrite Hinf by lia. eapply Hsch; eauto.
    + unfold Renege2.inf_of, nthZ. destruct (j - 1 <? 0); [reflexivity|]. destruct (nth_error (nodes s) (Z.to_nat (j - 1))) eqn:Hk; [|reflexivity].
      assert (Hlt : (Z.to_nat (j - 1) < length (nodes s))%nat) by (apply nth_error_Some; rewrite Hk; discriminate). lia.
    + unfold Renege2.inf_of, nthZ. destruct (j - 1 <? 0) eqn:Ej; [reflexivity|apply Z.ltb_ge in Ej; lia].
Qed.

(* the scope of the theorems: no queue capacities (nobody is ever blocked), no class change while waiting, `resume` only at
   pre-emptive capacitated slots (not for priority pre-emption, not for pre-emptive Schedules), priority pre-emption rerouting its
   victims unless nobody reneges anywhere, timetables whose dates increase *)
Definition scope_r_partial (c : config) : bool :=
  nocap c && negb (cf_dyn c) && noresume_ps c && (prio_reroute c || noren c) && wf_times c.

(* the invariant: every date the state carries is at or after the clock, every customer is in the queue of its node, and the
   node that acts next does so at the clock *)
Definition Clk2r (cf : config) (s : sim) : Prop :=
  Inv cf (Renege2.inf_of s) (now s) (length (nodes s)) (Renege2.loc_q s) TNone None (gc_q s) (a_created (arr s)) (s <| dr := Renege2.nodraws |>) /\
  Renege2.sched_fin cf s /\ Nxt s /\ Act s /\ T3OK cf s.

Lemma DrawsOK_nodraws : DrawsOK Renege2.nodraws.
Proof. unfold DrawsOK, nonneg. cbn. repeat split; constructor. Qed.

(* ---------- T2 for C02: one event ---------- *)
Theorem event_step_clk2r_partial cf s d s' : scope_r_partial cf = true -> Clk2r cf s -> DrawsOK d ->
  event_step cf (s <| dr := d |>) = Ok (tt, s') -> Clk2r cf s' /\ now s <= now s'.
Proof.
  intros Hsc (HI & HS & _ & _ & HT) Hd H. unfold scope_r_partial in Hsc. apply andb_true_iff in Hsc as [Hsc Hwf]. apply andb_true_iff in Hsc as [Hsc Hpr].
  apply andb_true_iff in Hsc as [Hsc Hnr]. apply andb_true_iff in Hsc as [Hcap Hdy]. apply negb_true_iff in Hdy. apply orb_true_iff in Hpr.
  pose proof (Inv_dr_tail _ _ _ _ _ _ _ _ _ _ d HI Hd) as HI0. change (s <| dr := Renege2.nodraws |> <| dr := d |>) with (s <| dr := d |>) in HI0.
  destruct (Renege2.event_step_inv _ _ _ H) as (s1 & s2 & E1 & E2 & E3).
  destruct (event_body_keeps cf (Renege2.inf_of s) (now s) (length (nodes s)) Hdy Hnr Hpr Hcap Hwf HS _ _ (InvX_of _ _ _ _ _ _ _ _ _ HI0) HT E1 _ E2) as (loc & gc & cr & HI2 & HU).
  destruct (Inv_now _ _ _ _ _ _ _ _ _ HI2 HU E3) as (HI3 & Hle & HN & HA & HT3).
  split; [|exact Hle].
  destruct (Inv_canon _ _ _ _ _ _ _ _ HI3 HS) as [HI4 HS4]. split; [|split; [exact HS4|split; [exact HN|split; [exact HA|exact HT3]]]].
  apply Inv_dr_tail; [exact HI4|apply DrawsOK_nodraws].
Qed.

(* ---------- any number of events, each with its own draws ---------- *)
Theorem run_many_clk2r_partial cf : scope_r_partial cf = true -> forall ds s s', Clk2r cf s -> Forall DrawsOK ds -> run_many cf s ds = Ok s' ->
  Clk2r cf s' /\ now s <= now s'.
Proof.
  intros Hsc. induction ds as [|d r IH]; intros s s' HC HD H; cbn [run_many] in H; [injection H as <-; split; [exact HC|lia]|].
  destruct (event_step cf (s <| dr := d |>)) as [[[] s1]| |] eqn:E; try discriminate.
  inversion HD as [|? ? Hd Hr]; subst.
  destruct (event_step_clk2r_partial _ _ _ _ Hsc HC Hd E) as [C1 L1].
  destruct (IH _ _ C1 Hr H) as [C2 L2]. split; [exact C2|lia].
Qed.

(* the clock read after any prefix of a run is at most the clock read later *)
Corollary run_many_monotone2r_partial cf : scope_r_partial cf = true -> forall ds1 ds2 s s1 s2, Clk2r cf s -> Forall DrawsOK ds1 -> Forall DrawsOK ds2 ->
  run_many cf s ds1 = Ok s1 -> run_many cf s1 ds2 = Ok s2 -> now s <= now s1 <= now s2.
Proof.
  intros Hsc ds1 ds2 s s1 s2 HC H1 H2 R1 R2. destruct (run_many_clk2r_partial _ Hsc _ _ _ HC H1 R1) as [C1 L1].
  destruct (run_many_clk2r_partial _ Hsc _ _ _ C1 H2 R2) as [_ L2]. lia.
Qed.

(* ---------- the invariant in the words of the property ---------- *)
Definition nothing_scheduled (s : sim) : Prop := a_next_date (arr s) = None /\ forall nd, In nd (nodes s) -> n_next_date nd = None.

Theorem Clk2r_means cf s : Clk2r cf s ->
  (* no arrival is scheduled in the past; the arrival node's next date is the earliest arrival date, stored where it says *)
  (forall row e, In row (a_dates (arr s)) -> In (Some e) row -> now s <= e) /\
  (forall row d, In row (a_dates (arr s)) -> In d row -> dle (a_next_date (arr s)) d) /\ Loc (arr s) /\
  (* no node's next event is in the past *)
  (forall nd e, In nd (nodes s) -> n_next_date nd = Some e -> now s <= e) /\
  (* no end of service is scheduled in the past (nodes with servers) *)
  (forall nd nc sv e, In nd (nodes s) -> nthZ (cf_nodes cf) (n_id nd - 1) = Some nc -> nd_inf nd = false -> nc_slotted nc = false ->
     In sv (n_servers nd) -> sv_next_end sv = Some e -> now s <= e) /\
  (* the next shift change is the one the timetable prescribes for the node's position and is not in the past; nor is the next slot *)
  (forall nd nc sc, In nd (nodes s) -> nthZ (cf_nodes cf) (n_id nd - 1) = Some nc -> nc_srv nc = SSched sc ->
     n_next_shift nd = Some (D (sc_b sc) (sc_off sc) (Z.to_nat (n_spos nd))) /\ now s <= D (sc_b sc) (sc_off sc) (Z.to_nat (n_spos nd))) /\
  (forall nd nc sl, In nd (nodes s) -> nthZ (cf_nodes cf) (n_id nd - 1) = Some nc -> nc_srv nc = SSlot sl ->
     now s <= slotdate sl (Z.to_nat (n_spos nd))) /\
  (* no waiting customer of a node with servers and reneging has a reneging date in the past *)
  (forall nd nc i x z, In nd (nodes s) -> nthZ (cf_nodes cf) (n_id nd - 1) = Some nc -> nc_reneging nc = true -> nd_inf nd = false ->
     In i (all_individuals nd) -> find_ind i (inds s) = Some x -> i_server x = None -> i_ren x = XV z -> now s <= z) /\
  (* class change while waiting (nodes with servers): the node's next class-change date is not in the past, it belongs to a customer
     of the node, no waiting customer has an earlier one, and an event of that type carries exactly that customer *)
  (forall nd, In nd (nodes s) -> cf_dyn cf = true -> nd_inf nd = false ->
     dle (Some (now s)) (n_nccd nd) /\ forall i, n_ncci nd = Some i -> In i (all_individuals nd)) /\
  (forall nd i x z, In nd (nodes s) -> cf_dyn cf = true -> nd_inf nd = false -> In i (all_individuals nd) -> find_ind i (inds s) = Some x ->
     i_server x = None -> i_ccd x = XV z -> now s <= z /\ dle (n_nccd nd) (Some z)) /\
  (forall nd, In nd (nodes s) -> cf_dyn cf = true -> n_next_type nd = 3 ->
     nd_inf nd = false /\ n_next_inds nd = match n_ncci nd with Some i => [i] | None => [] end) /\
  (* the event that is executed next is scheduled exactly at the current time (unless nothing at all is scheduled) *)
  (next_active s = 0 -> a_next_date (arr s) = Some (now s) \/ nothing_scheduled s) /\
  (next_active s <> 0 -> exists nd, nth_error (nodes s) (Z.to_nat (next_active s - 1)) = Some nd /\ n_id nd = next_active s /\
                                   (n_next_date nd = Some (now s) \/ nothing_scheduled s)).
Proof.
  intros ((A & B & C & D0 & E & F & G & H & (A1 & A2 & A3) & L) & HS & HN & (H0 & d & Hd & Hact) & HT3).
  cbn [now arr nodes inds dr set] in *.
  assert (Hno : Forall (fun x => x = None) (dates_of s) -> nothing_scheduled s).
  { intros HF. unfold dates_of in HF. inversion HF as [|? ? Ha Hr]; subst. split; [exact Ha|]. intros nd Hin. rewrite Forall_forall in Hr. apply Hr. apply in_map. exact Hin. }
  assert (HT : forall nd, In nd (nodes s) -> NodeT cf (now s) None (gc_q s) nd /\ nd_inf nd = Renege2.inf_of s (n_id nd) /\
                 forall id, In id (all_individuals nd) -> Renege2.loc_q s id = Some (n_id nd)).
  { intros nd Hin. apply In_nth_error in Hin as [k Hk]. destruct (G _ _ Hk) as (M1 & _ & M3 & _ & M5). split; [exact M5|]. split; [exact M1|].
    intros id Hi. apply (M3 id Hi). }
  split; [|split; [|split; [exact A3|split; [|split; [|split; [|split; [|split; [|split; [|split; [|split; [|split]]]]]]]]]]].
  - intros row e Hr He. rewrite Forall_forall in A1. specialize (A1 _ Hr). rewrite Forall_forall in A1. apply (A1 _ He).
  - intros row x Hr Hx. rewrite Forall_forall in A2. specialize (A2 _ Hr). rewrite Forall_forall in A2. apply (A2 _ Hx).
  - intros nd e Hin He. specialize (HN nd Hin). rewrite He in HN. exact HN.
  - intros nd nc sv e Hin Hc Hi Hs Hsv He. destruct (HT nd Hin) as (T & _). destruct T as (_ & _ & T). unfold ncf in T. rewrite Hc in T. destruct T as [T _].
    specialize (T Hi Hs). rewrite Forall_forall in T. specialize (T sv Hsv). unfold SvOK in T. rewrite He in T. exact T.
  - intros nd nc sc Hin Hc Hs. destruct (HT nd Hin) as (T & _). destruct T as (_ & _ & T). unfold ncf in T. rewrite Hc in T. destruct T as [_ T]. rewrite Hs in T. tauto.
  - intros nd nc sl Hin Hc Hs. destruct (HT nd Hin) as (T & _). destruct T as (_ & _ & T). unfold ncf in T. rewrite Hc in T. destruct T as [_ T]. rewrite Hs in T. tauto.
  - intros nd nc i x z Hin Hc Hr Hi Hq Hx Hsv Hz. destruct (HT nd Hin) as (_ & Hinf & Hl).
    rewrite Forall_forall in F. destruct (F x (Renege2.find_ind_In _ _ _ Hx)) as (_ & _ & XC & _). destruct (XC eq_refl) as [(j & Hj & Hlj) [HP _]].
    rewrite (Renege2.find_ind_id _ _ _ Hx), (Hl i Hq) in Hlj. injection Hlj as <-.
    apply (HP (n_id nd) z Hj); [unfold ren_at, ncf; rewrite Hc; exact Hr|rewrite <- Hinf; exact Hi|exact Hz|exact Hsv].
  - intros nd Hin Hdy Hi. destruct (HT nd Hin) as ((_ & T1 & _) & _). destruct (T1 Hdy) as [_ T2]. destruct (T2 Hi) as [T3 T4]. split; [exact T3|].
    intros i Hc. destruct (T4 i Hc) as [Q|Q]; [exact Q|discriminate Q].
  - intros nd i x z Hin Hdy Hi Hq Hx Hsv Hz. destruct (HT nd Hin) as ((_ & T1 & _) & Hinf & Hl). destruct (T1 Hdy) as [T3 _].
    rewrite Forall_forall in F. destruct (F x (Renege2.find_ind_In _ _ _ Hx)) as (_ & _ & XC & _). destruct (XC eq_refl) as [(j & Hj & Hlj) [_ HQ]].
    rewrite (Renege2.find_ind_id _ _ _ Hx), (Hl i Hq) in Hlj. injection Hlj as <-.
    destruct (HQ Hdy _ Hj ltac:(rewrite <- Hinf; exact Hi)) as [Ca _]. destruct (Ca Hsv z Hz) as [Q|[Q1 Q2]]; [discriminate Q|].
    rewrite <- T3 in Q2. cbn [fst] in Q2. auto.
  - intros nd Hin Hdy Hty. apply In_nth_error in Hin as [k Hk]. apply (HT3 Hdy (Z.of_nat k + 1) nd); [|exact Hty].
    replace (Z.of_nat k + 1 - 1) with (Z.of_nat k) by lia. rewrite Renege2.nthZ_of_nat. exact Hk.
  - intros Hz. rewrite Hz in Hd. cbn in Hd. injection Hd as <-. destruct Hact as [Hx|[Hx Hall]]; [left; exact Hx|right; apply Hno; exact Hall].
  - intros Hnz. unfold dates_of in Hd. replace (Z.to_nat (next_active s)) with (S (Z.to_nat (next_active s - 1))) in Hd by lia.
    change (nth_error (a_next_date (arr s) :: map n_next_date (nodes s)) (S (Z.to_nat (next_active s - 1)))) with (nth_error (map n_next_date (nodes s)) (Z.to_nat (next_active s - 1))) in Hd.
    rewrite nth_error_map in Hd. destruct (nth_error (nodes s) (Z.to_nat (next_active s - 1))) as [nd|] eqn:En; [|discriminate]. cbn in Hd. injection Hd as <-.
    exists nd. split; [reflexivity|]. split; [rewrite (D0 _ _ En); lia|].
    destruct Hact as [Hx|[Hx Hall]]; [left; exact Hx|right; apply Hno; exact Hall].
Qed.

(* ---------- an executable test of the invariant ---------- *)
Definition dleb (a b : option Z) : bool :=
  match a, b with _, None => true | None, Some _ => false | Some x, Some y => x <=? y end.
Lemma dleb_dle a b : dleb a b = true -> dle a b.
Proof. destruct a, b; cbn; intros H; try discriminate; try exact I. apply Z.leb_le. exact H. Qed.
Definition nnb (o : option Z) : bool := match o with Some v => 0 <=? v | None => true end.
Lemma nnb_NN o : nnb o = true -> NN o.
Proof. destruct o as [v|]; cbn; intros H; [apply NN_Some; apply Z.leb_le; exact H|apply NN_None]. Qed.
Definition dnoneb (d : option Z) : bool := match d with None => true | Some _ => false end.

Definition ren_ok_b (t : Z) (x : ind) : bool :=
  match i_ren x with XV z => (match i_server x with None => t <=? z | Some _ => true end) | _ => true end.
Definition cc_ok_b (s : sim) (j : Z) (x : ind) : bool :=
  (match i_server x, i_ccd x with None, XV z => (now s <=? z) && dleb (fst (gc_q s j)) (Some z) | _, _ => true end) &&
  (match snd (gc_q s j) with Some i => if i =? i_id x then dnoneb (i_server x) else true | None => true end).
Definition good_b (t : Z) (x : ind) : bool :=
  match i_sst x with None => true | Some _ => match i_send x with Some e => t <=? e | None => false end end.
Definition ind_ok_b (cf : config) (s : sim) (x : ind) : bool :=
  (i_id x <=? a_created (arr s)) && nnb (i_stime x) && nnb (i_ost x) && (negb (i_smark x =? 1) || nnb (i_tleft x)) && negb (i_blocked x) &&
  match i_node x with
  | Some j => (match Renege2.loc_q s (i_id x) with Some j' => j' =? j | None => false end) &&
              (if ren_at cf j && negb (Renege2.inf_of s j) then ren_ok_b (now s) x else true) &&
              (if cf_dyn cf && negb (Renege2.inf_of s j) then cc_ok_b s j x else true) &&
              (if slot_at cf j then good_b (now s) x else true)
  | None => false
  end.
Definition node_t_b (cf : config) (t : Z) (nd : node) : bool :=
  ((negb (Renege2.nopre cf) || (n_nint nd <=? 0)) && (n_lenbq nd <=? 0)) &&
  (if cf_dyn cf && negb (nd_inf nd)
   then dleb (Some t) (n_nccd nd) && (match n_ncci nd with Some i => memZ i (all_individuals nd) | None => true end) else true) &&
  match nthZ (cf_nodes cf) (n_id nd - 1) with
  | None => true
  | Some nc =>
    (nd_inf nd || nc_slotted nc || forallb (fun sv => dleb (Some t) (sv_next_end sv)) (n_servers nd)) &&
    match nc_srv nc with
    | SFixed => true
    | SSched sc => (0 <=? n_spos nd) && (match n_next_shift nd with Some e => e =? D (sc_b sc) (sc_off sc) (Z.to_nat (n_spos nd)) | None => false end) &&
                   (t <=? D (sc_b sc) (sc_off sc) (Z.to_nat (n_spos nd)))
    | SSlot sl => (0 <=? n_spos nd) && (t <=? slotdate sl (Z.to_nat (n_spos nd)))
    end
  end.
Definition node_ok_b (cf : config) (s : sim) (nd : node) : bool :=
  Renege2.nodup_b (all_individuals nd) &&
  forallb (fun id => (id <=? a_created (arr s)) && (match Renege2.loc_q s id with Some j => j =? n_id nd | None => false end)) (all_individuals nd) &&
  node_t_b cf (now s) nd.
Definition loc_b (a : arrst) : bool :=
  match a_next_date a with
  | None => true
  | Some e => match nthZ (a_dates a) (a_next_node a - 1) with
              | Some row => match nthZ row (a_next_cls a) with Some d => date_eqb d (Some e) | None => false end
              | None => false end
  end.
Definition arr_b (s : sim) : bool :=
  forallb (forallb (dleb (Some (now s)))) (a_dates (arr s)) && forallb (forallb (dleb (a_next_date (arr s)))) (a_dates (arr s)) && loc_b (arr s).
Definition nxt_b (s : sim) : bool := forallb (fun nd => dleb (Some (now s)) (n_next_date nd)) (nodes s).
Definition act_b (s : sim) : bool :=
  (0 <=? next_active s) &&
  match nth_error (dates_of s) (Z.to_nat (next_active s)) with
  | Some d => date_eqb d (Some (now s)) || (dnoneb d && forallb dnoneb (dates_of s))
  | None => false
  end.
Definition t3_b (cf : config) (s : sim) : bool :=
  negb (cf_dyn cf) ||
  forallb (fun nd => if n_next_type nd =? 3
                     then negb (nd_inf nd) && match n_next_inds nd, n_ncci nd with [i], Some i' => i =? i' | [], None => true | _, _ => false end
                     else true) (nodes s).
Definition clk2r_b (cf : config) (s : sim) : bool :=
  Renege2.idx_b (nodes s) 1 && Renege2.nodup_b (map i_id (inds s)) && forallb (ind_ok_b cf s) (inds s) && forallb (node_ok_b cf s) (nodes s) &&
  arr_b s && Renege2.sched_fin_b (cf_nodes cf) s 1 && nxt_b s && act_b s && t3_b cf s.

Lemma forallb2_dle a (l : list (list (option Z))) : forallb (forallb (dleb a)) l = true -> Forall (Forall (dle a)) l.
Proof.
  intros H. apply Forall_forall. intros row Hr. apply Forall_forall. intros x Hx.
  rewrite forallb_forall in H. specialize (H _ Hr). rewrite forallb_forall in H. apply dleb_dle. apply (H _ Hx).
Qed.

Theorem clk2r_b_sound cf s : clk2r_b cf s = true -> Clk2r cf s.
Proof.
  unfold clk2r_b. intros H. apply andb_true_iff in H as [H HT3].
  apply andb_true_iff in H as [H HAct]. apply andb_true_iff in H as [H HNx]. apply andb_true_iff in H as [H HS].
  apply andb_true_iff in H as [H HA]. apply andb_true_iff in H as [H HN]. apply andb_true_iff in H as [H HF]. apply andb_true_iff in H as [HX HE].
  assert (HI : Idx s) by (intros k nd Hk; rewrite (Renege2.idx_b_sound _ _ HX _ _ Hk); lia).
  assert (Hlocq : forall id k nd, nth_error (nodes s) k = Some nd -> Renege2.loc_q s id = Some (n_id nd) -> In id (all_individuals nd)).
  { intros id k nd Hk Hl. destruct (Renege2.find_q_Some _ _ _ Hl) as (nd' & Hin & Hid & Hi). apply In_nth_error in Hin as [k' Hk'].
    assert (k' = k) by (pose proof (HI _ _ Hk); pose proof (HI _ _ Hk'); lia). subst k'. rewrite Hk in Hk'. injection Hk' as <-. exact Hi. }
  assert (Hgc : forall k nd, nth_error (nodes s) k = Some nd -> gc_q s (n_id nd) = (n_nccd nd, n_ncci nd)).
  { intros k nd Hk. unfold gc_q. rewrite (HI _ _ Hk). replace (Z.of_nat k + 1 - 1) with (Z.of_nat k) by lia. rewrite Renege2.nthZ_of_nat, Hk. reflexivity. }
  split; [|split; [|split; [|split]]].
  - unfold Inv. cbn [now arr nodes inds dr set]. split; [reflexivity|]. split; [reflexivity|]. split; [reflexivity|]. split; [exact HI|].
    split; [apply Renege2.nodup_b_sound; exact HE|]. split; [|split; [|split; [|split; [|apply DrawsOK_nodraws]]]].
    + apply Forall_forall. intros x Hx. rewrite forallb_forall in HF. specialize (HF x Hx). unfold ind_ok_b in HF.
      apply andb_true_iff in HF as [HF F5]. apply andb_true_iff in HF as [HF F4b]. apply andb_true_iff in HF as [HF F4]. apply andb_true_iff in HF as [HF F3]. apply andb_true_iff in HF as [F1 F2].
      apply Z.leb_le in F1. split; [exact F1|]. split.
      { split; [apply nnb_NN; exact F2|]. split; [apply nnb_NN; exact F3|]. split; [|apply negb_true_iff; exact F4b].
        intros Hm. rewrite Hm in F4. cbn in F4. apply nnb_NN. exact F4. }
      destruct (i_node x) as [j|] eqn:Ej; [|discriminate]. apply andb_true_iff in F5 as [F5 FG]. apply andb_true_iff in F5 as [F5 F7]. apply andb_true_iff in F5 as [F5 F6].
      split; [|split; [intros j0 He; discriminate He|]].
      2:{ right. unfold Good, EndGood. intros [Q|[_ (j0 & Hj0 & Hs)]] Hst; [discriminate Q|]. rewrite Ej in Hj0. injection Hj0 as <-. rewrite Hs in FG. unfold good_b in FG.
          destruct (i_sst x); [|contradiction]. destruct (i_send x) as [e|]; [|discriminate]. exists e. split; [reflexivity|apply Z.leb_le; exact FG]. }
      intros _.
      change (Renege2.loc_q (s <| dr := Renege2.nodraws |>)) with (Renege2.loc_q s).
      destruct (Renege2.loc_q s (i_id x)) as [j'|] eqn:El; [|discriminate]. apply Z.eqb_eq in F5. subst j'. split; [exists j; auto|]. split.
      * intros j0 z Hj0 Hr Hi Hz Hs. rewrite Ej in Hj0. injection Hj0 as <-. change (Renege2.inf_of (s <| dr := Renege2.nodraws |>) j) with (Renege2.inf_of s j) in Hi. rewrite Hr, Hi in F6. cbn in F6.
        unfold ren_ok_b in F6. rewrite Hz, Hs in F6. apply Z.leb_le. exact F6.
      * intros Hd j0 Hj0 Hi. injection Hj0 as <-. change (Renege2.inf_of (s <| dr := Renege2.nodraws |>) j) with (Renege2.inf_of s j) in Hi. rewrite Hd, Hi in F7. cbn in F7.
        change (gc_q (s <| dr := Renege2.nodraws |>)) with (gc_q s). unfold cc_ok_b in F7. apply andb_true_iff in F7 as [F8 F9]. split.
        -- intros Hs z Hz. rewrite Hs, Hz in F8. apply andb_true_iff in F8 as [F8 F10]. right. split; [apply Z.leb_le; exact F8|apply dleb_dle; exact F10].
        -- intros Hg. rewrite Hg, Z.eqb_refl in F9. left. destruct (i_server x); [discriminate|reflexivity].
    + intros k nd Hk. rewrite forallb_forall in HN. pose proof (HN nd (nth_error_In _ _ Hk)) as Hnd. unfold node_ok_b in Hnd.
      apply andb_true_iff in Hnd as [Hnd N3]. apply andb_true_iff in Hnd as [N1 N2]. rewrite forallb_forall in N2.
      split; [|split; [apply Renege2.nodup_b_sound; exact N1|split; [|split]]].
      * change (Renege2.inf_of (s <| dr := Renege2.nodraws |>)) with (Renege2.inf_of s). unfold Renege2.inf_of. rewrite (HI _ _ Hk). replace (Z.of_nat k + 1 - 1) with (Z.of_nat k) by lia. rewrite Renege2.nthZ_of_nat, Hk. reflexivity.
      * intros id Hi. specialize (N2 id Hi). apply andb_true_iff in N2 as [N4 N5]. apply Z.leb_le in N4. split; [exact N4|]. split; [reflexivity|].
        change (Renege2.loc_q (s <| dr := Renege2.nodraws |>)) with (Renege2.loc_q s). destruct (Renege2.loc_q s id) as [j|]; [|discriminate]. apply Z.eqb_eq in N5. rewrite N5. reflexivity.
      * intros id _ Hl. eapply Hlocq; eauto.
      * unfold NodeT, ncf. unfold node_t_b in N3. apply andb_true_iff in N3 as [N3 N3c]. apply andb_true_iff in N3 as [N3a N3b].
        apply andb_true_iff in N3a as [N3a N3q]. split; [split; [intros Hp; rewrite Hp in N3a; cbn in N3a; apply Z.leb_le; exact N3a|apply Z.leb_le; exact N3q]|]. split.
        { intros Hd. change (gc_q (s <| dr := Renege2.nodraws |>)) with (gc_q s). split; [symmetry; eapply Hgc; eauto|]. intros Hi. rewrite Hd, Hi in N3b. cbn in N3b.
          apply andb_true_iff in N3b as [N3d N3e]. split; [apply dleb_dle; exact N3d|]. intros i Hc. rewrite Hc in N3e. left. apply memZ_In. exact N3e. }
        rename N3c into N3. destruct (nthZ (cf_nodes cf) (n_id nd - 1)) as [nc|]; [|exact I].
        apply andb_true_iff in N3 as [N6 N7]. split.
        -- intros Hi Hs. rewrite Hi, Hs in N6. cbn in N6. apply Forall_forall. intros sv Hsv. rewrite forallb_forall in N6. apply dleb_dle. apply (N6 sv Hsv).
        -- destruct (nc_srv nc) as [|sc|sl]; [exact I| |].
           ++ apply andb_true_iff in N7 as [N7 N9]. apply andb_true_iff in N7 as [N7 N8]. apply Z.leb_le in N7, N9.
              destruct (n_next_shift nd) as [e|]; [|discriminate]. apply Z.eqb_eq in N8. subst e. auto.
           ++ apply andb_true_iff in N7 as [N7 N8]. apply Z.leb_le in N7, N8. auto.
    + intros id j Hl. change (Renege2.loc_q (s <| dr := Renege2.nodraws |>)) with (Renege2.loc_q s) in Hl. destruct (Renege2.find_q_Some _ _ _ Hl) as (nd' & Hin & Hid & _). apply In_nth_error in Hin as [k' Hk'].
      pose proof (HI _ _ Hk'). assert (Hlt : (k' < length (nodes s))%nat) by (apply nth_error_Some; rewrite Hk'; discriminate). lia.
    + unfold arr_b in HA. apply andb_true_iff in HA as [HA A3]. apply andb_true_iff in HA as [A1 A2].
      split; [apply forallb2_dle; exact A1|split; [apply forallb2_dle; exact A2|]].
      unfold Loc. unfold loc_b in A3. destruct (a_next_date (arr s)) as [e|]; [right|left; reflexivity].
      destruct (nthZ (a_dates (arr s)) (a_next_node (arr s) - 1)) as [row|]; [|discriminate]. exists row. split; [reflexivity|].
      destruct (nthZ row (a_next_cls (arr s))) as [d|]; [|discriminate]. apply Renege2.date_eqb_eq in A3. rewrite A3. reflexivity.
  - intros j nc sc Hc Hs. destruct (Renege2.nthZ_nat _ _ _ Hc) as [Hj0 Hk]. pose proof (Renege2.sched_fin_b_sound _ _ _ HS _ _ _ Hk Hs) as RR.
    replace (1 + Z.of_nat (Z.to_nat (j - 1))) with j in RR by lia. exact RR.
  - intros nd Hin. unfold nxt_b in HNx. rewrite forallb_forall in HNx. apply dleb_dle. apply (HNx nd Hin).
  - unfold act_b in HAct. apply andb_true_iff in HAct as [H6 H7]. unfold Act. split; [apply Z.leb_le; exact H6|].
    destruct (nth_error (dates_of s) (Z.to_nat (next_active s))) as [d|]; [|discriminate]. exists d. split; [reflexivity|].
    apply orb_true_iff in H7 as [H7|H7]; [left; apply Renege2.date_eqb_eq; exact H7|right].
    apply andb_true_iff in H7 as [Ha Hb]. split; [destruct d; [discriminate|reflexivity]|].
    apply Forall_forall. intros x Hx. rewrite forallb_forall in Hb. specialize (Hb x Hx). destruct x; [discriminate|reflexivity].
  - intros Hd j nd Hn Hty. unfold t3_b in HT3. rewrite Hd in HT3. cbn in HT3. rewrite forallb_forall in HT3. specialize (HT3 nd (Renege2.nthZ_In _ _ _ Hn)).
    rewrite Hty in HT3. cbn in HT3. apply andb_true_iff in HT3 as [T1 T2]. apply negb_true_iff in T1. split; [exact T1|].
    destruct (n_next_inds nd) as [|i [|i2 l]], (n_ncci nd) as [i'|]; try discriminate; [reflexivity|apply Z.eqb_eq in T2; subst; reflexivity].
Qed.

(* ================================================================================================================ *)
(* what the invariant adds to Clk2: nobody is blocked, times left are >= 0, started slotted services end in the future *)
(* ================================================================================================================ *)
Theorem Clk2r_means_resume cf s : Clk2r cf s ->
  (* nobody is blocked: no node has a non-empty count of blocked customers, no customer carries the blocked flag *)
  (forall nd, In nd (nodes s) -> n_lenbq nd <= 0) /\
  (forall x, In x (inds s) -> i_blocked x = false) /\
  (* the time left of a customer that carries the `resume` marker is not negative; nor is any service time *)
  (forall x tl, In x (inds s) -> i_smark x = 1 -> i_tleft x = Some tl -> 0 <= tl) /\
  (forall x st, In x (inds s) -> i_stime x = Some st -> 0 <= st) /\
  (* a customer of a slotted node whose service has started has an end date, which has not passed *)
  (forall x j nc, In x (inds s) -> i_node x = Some j -> nthZ (cf_nodes cf) (j - 1) = Some nc -> nc_slotted nc = true -> i_sst x <> None ->
     exists e, i_send x = Some e /\ now s <= e).
Proof.
  intros ((A & B & C & D0 & E & F & G & H & K & L) & _). cbn [now arr nodes inds dr set] in *. rewrite Forall_forall in F.
  split; [|split; [|split; [|split]]].
  - intros nd Hin. apply In_nth_error in Hin as [k Hk]. destruct (G _ _ Hk) as (_ & _ & _ & _ & ((_ & Hb) & _)). exact Hb.
  - intros x Hx. destruct (F x Hx) as (_ & (_ & _ & _ & Hb) & _). exact Hb.
  - intros x tl Hx Hm Ht. destruct (F x Hx) as (_ & (_ & _ & N3 & _) & _). apply (N3 Hm). exact Ht.
  - intros x st Hx Hs. destruct (F x Hx) as (_ & (N1 & _) & _). apply N1. exact Hs.
  - intros x j nc Hx Hj Hc Hs Hst. destruct (F x Hx) as (_ & _ & _ & _ & [(j0 & Q)|XE]); [discriminate Q|]. apply XE; [|exact Hst].
    right. split; [reflexivity|]. exists j. split; [exact Hj|]. unfold slot_at, ncf. rewrite Hc. exact Hs.
Qed.

(* over runs: in a configuration of the scope (in particular: without queue capacities) nobody is ever blocked, and every time left
   that `resume` stores when a capacitated slot interrupts a service is >= 0 *)
Corollary run_many_noblock_tleft_partial cf : scope_r_partial cf = true -> forall ds s s', Clk2r cf s -> Forall DrawsOK ds -> run_many cf s ds = Ok s' ->
  (forall nd, In nd (nodes s') -> n_lenbq nd <= 0) /\ (forall x, In x (inds s') -> i_blocked x = false) /\
  (forall x tl, In x (inds s') -> i_smark x = 1 -> i_tleft x = Some tl -> 0 <= tl).
Proof.
  intros Hsc ds s s' HC HD H. destruct (run_many_clk2r_partial cf Hsc ds s s' HC HD H) as [HC' _].
  destruct (Clk2r_means_resume cf s' HC') as (R1 & R2 & R3 & _). auto.
Qed.

(* ================================================================================================================ *)
(* non-vacuity                                                                                                      *)
(* ================================================================================================================ *)
(* rx: one node with PRE-EMPTIVE CAPACITATED SLOTS and option `resume` (slots of [2; 1] at [4; 6], cyclic), arrivals every 1,
   services of 5.  Outside Clock2.scope, inside scope_r_partial.  Customers 1 and 2 start at 4 (end 9); the slot at 6 has room
   for one only: customer 2 is interrupted with time left 9 - 6 = 3 (marker 1), and resumed at 10 with end date 10 + 3 = 13 *)
Definition rx_n1 : ncfg := mkNcfg None None 0 (SSlot (mkSlot [4; 6] [2; 1] 0 true 1)) 0 false [false] 0.
Definition rx_cf : config := mkCfg 1 [rx_n1] [0] 1 None [RtNR [RLeave]] [[None]] false [[false]].
Definition rx_nd1 : node := mkNode 1 0 0 [[]] [] [] 0 (Some 0) [] (Some 0) 0 [] 0 [] [] [] 4 None 0 None None.
Definition rx_s0 : sim := mkSim 0 1 (mkArr 0 0 [[Some 1]] 1 0 (Some 1)) [rx_nd1] [] 0 0 [] Renege2.nodraws [] [[0]].
Definition rx_d : draws := mkDraws [1; 1] [1; 1] [5; 5; 5; 5] [0; 0; 0] [] [].
Example rx_scope : scope_r_partial rx_cf = true /\ Clock2.scope rx_cf = false. Proof. vm_compute. auto. Qed.
Example rx_draws_ok : DrawsOK rx_d. Proof. unfold Clock2.DrawsOK, Clock2.nonneg, rx_d. cbn. repeat split; repeat constructor; lia. Qed.
Example rx_clk2r : Clk2r rx_cf rx_s0. Proof. apply clk2r_b_sound. vm_compute. reflexivity. Qed.
(* (clock, executable invariant, customers carrying a marker as (id, marker, time left), interrupted customers, exits) *)
Definition rx_trace (n : nat) : option (Z * bool * list (Z * Z * option Z * option Z) * Z * list Z) :=
  match run_many rx_cf rx_s0 (repeat rx_d n) with
  | Ok s => Some (now s, clk2r_b rx_cf s,
                  map (fun x => (i_id x, i_smark x, i_tleft x, i_send x)) (filter (fun x => (i_id x =? 2) || negb (i_smark x =? 0)) (inds s)),
                  zsum (map n_nint (nodes s)), exit_ids s)
  | _ => None end.
Example rx_run : map rx_trace [6; 9; 13; 15; 20; 25]%nat =
  [Some (5, true, [(2, 0, None, Some 9)], 0, []); Some (7, true, [(2, 1, Some 3, None)], 1, []);
   Some (10, true, [(2, 1, Some 3, None)], 1, [1]); Some (11, true, [(2, 0, Some 3, Some 13)], 0, [1]);
   Some (14, true, [(3, 1, Some 3, None)], 1, [1; 2]); Some (18, true, [], 0, [1; 2])].
Proof. vm_compute. reflexivity. Qed.

(* mx: three nodes in tandem without capacities -- priority pre-emption with RESTART, a pre-emptive Schedule with RESAMPLE,
   pre-emptive capacitated slots with RESUME -- forty events: the invariant holds after each of them, customers get the
   restart / resample markers 2 / 3 along the way *)
Definition mx_n1 : ncfg := mkNcfg None None 0 SFixed 2 false [false; false] 0.
Definition mx_n2 : ncfg := mkNcfg None None 0 (SSched (mkSched [6; 12] [1; 2] 0 3)) 0 false [false; false] 0.
Definition mx_n3 : ncfg := mkNcfg None None 0 (SSlot (mkSlot [5; 9] [1; 2] 0 true 1)) 0 false [false; false] 0.
Definition mx_cf : config :=
  mkCfg 2 [mx_n1; mx_n2; mx_n3] [0; 1] 2 None [RtNR [RDirect 2; RDirect 3; RLeave]; RtNR [RDirect 2; RDirect 3; RLeave]]
        [[None; None; None]; [None; None; None]] false [[false; false]; [false; false]].
Definition mx_nd1 : node :=
  mkNode 1 0 0 [[]; []] [mkServer 1 None false None 0 None 0 false 0 None] [] 0 None [] (Some 1) 1 [] 0 [] [] [] 5 None 0 None None.
Definition mx_nd2 : node := mkNode 2 0 0 [[]; []] [] [] 0 (Some 0) [] (Some 0) 0 [] 0 [] [] [] 1 (Some 0) 0 None None.
Definition mx_nd3 : node := mkNode 3 0 0 [[]; []] [] [] 0 (Some 0) [] (Some 0) 0 [] 0 [] [] [] 4 None 0 None None.
Definition mx_s0 : sim :=
  mkSim 0 2 (mkArr 0 0 [[Some 4; Some 1]; [None; None]; [None; None]] 1 1 (Some 1)) [mx_nd1; mx_nd2; mx_nd3] [] 0 0 [] Renege2.nodraws [] [[0; 0; 0]; [0; 0; 0]].
Definition mx_d : draws := mkDraws [3; 3] [1; 1] [5; 5; 5; 5] [0; 0; 0] [] [].
Example mx_scope : scope_r_partial mx_cf = true /\ Clock2.scope mx_cf = false. Proof. vm_compute. auto. Qed.
Example mx_clk2r : Clk2r mx_cf mx_s0. Proof. apply clk2r_b_sound. vm_compute. reflexivity. Qed.
Definition mx_trace (n : nat) : option (Z * bool * list (Z * Z)) :=
  match run_many mx_cf mx_s0 (repeat mx_d n) with
  | Ok s => Some (now s, clk2r_b mx_cf s, map (fun x => (i_id x, i_smark x)) (filter (fun x => negb (i_smark x =? 0)) (inds s))) | _ => None end.
Example mx_run : map mx_trace [1; 4; 10; 20; 33; 39]%nat =
  [Some (0, true, []); Some (4, true, [(1, 2)]); Some (9, true, [(1, 2)]); Some (17, true, [(1, 2)]); Some (25, true, [(1, 2); (8, 3)]);
   Some (29, true, [(1, 2); (8, 3)])].
Proof. vm_compute. reflexivity. Qed.
Example mx_run_all : forallb (fun n => match mx_trace n with Some (_, b, _) => b | None => false end) (seq 0 40) = true.
Proof. vm_compute. reflexivity. Qed.

Print Assumptions event_step_clk2r_partial.
Print Assumptions run_many_clk2r_partial.
Print Assumptions run_many_monotone2r_partial.
Print Assumptions run_many_noblock_tleft_partial.
Print Assumptions Clk2r_means.
Print Assumptions Clk2r_means_resume.
Print Assumptions clk2r_b_sound.
Print Assumptions rx_clk2r.
Print Assumptions rx_run.
Print Assumptions mx_clk2r.
Print Assumptions mx_run.
Print Assumptions mx_run_all.
